/-
Helpers for C05 (client-side rendering, `Model/DomView.lean`): shapes (documents up to node identity),
the realisation relation between instance trees and view descriptions, identity bookkeeping.
The readable statements are in `Props/C05.lean`.
-/
import SycVerif.Model.DomView
namespace SycVerif.DomView

/-! ## Shapes: a document with the node identities forgotten -/

inductive Shape where
  | elem (tag : Str) (attrs : List (Str × Str)) (children : List Shape)
  | text (s : Str)
  | comment
  deriving Repr

mutual
def Shape.decEq : (a b : Shape) → Decidable (a = b)
  | .elem t a c, .elem t' a' c' =>
    if ht : t = t' then
      if ha : a = a' then
        match Shape.decEqL c c' with
        | isTrue hc => isTrue (by rw [ht, ha, hc])
        | isFalse hc => isFalse (fun h => hc (by cases h; rfl))
      else isFalse (fun h => ha (by cases h; rfl))
    else isFalse (fun h => ht (by cases h; rfl))
  | .text s, .text s' => if h : s = s' then isTrue (by rw [h]) else isFalse (fun e => h (by cases e; rfl))
  | .comment, .comment => isTrue rfl
  | .elem .., .text _ => isFalse (fun h => by cases h)
  | .elem .., .comment => isFalse (fun h => by cases h)
  | .text _, .elem .. => isFalse (fun h => by cases h)
  | .text _, .comment => isFalse (fun h => by cases h)
  | .comment, .elem .. => isFalse (fun h => by cases h)
  | .comment, .text _ => isFalse (fun h => by cases h)
def Shape.decEqL : (a b : List Shape) → Decidable (a = b)
  | [], [] => isTrue rfl
  | [], _ :: _ => isFalse (fun h => by cases h)
  | _ :: _, [] => isFalse (fun h => by cases h)
  | x :: xs, y :: ys =>
    match Shape.decEq x y with
    | isTrue hx =>
      match Shape.decEqL xs ys with
      | isTrue hs => isTrue (by rw [hx, hs])
      | isFalse hs => isFalse (fun h => hs (by cases h; rfl))
    | isFalse hx => isFalse (fun h => hx (by cases h; rfl))
end

instance : DecidableEq Shape := Shape.decEq

mutual
/-- forget the identities -/
def shape : DTree → Shape
  | .elem _ tag attrs cs => .elem tag attrs (shapes cs)
  | .text _ s => .text s
  | .comment _ => .comment
def shapes : List DTree → List Shape
  | [] => []
  | t :: ts => shape t :: shapes ts
end

theorem shapes_eq_map : ∀ ts : List DTree, shapes ts = ts.map shape
  | [] => rfl
  | t :: ts => by simp [shapes, shapes_eq_map ts]

theorem shapes_append (a b : List DTree) : shapes (a ++ b) = shapes a ++ shapes b := by
  simp [shapes_eq_map]

/-! ## Unfolding lemmas (the model uses `let (a, b) := …`) -/

section unfold
variable (σ : Store)

theorem mount_el (tag attrs cs k) : mount σ (.el tag attrs cs) k
    = (.el k tag attrs (mountList σ cs (k + 1)).1, (mountList σ cs (k + 1)).2) := rfl
theorem mount_text (s k) : mount σ (.text s) k = (.text k s, k + 1) := rfl
theorem mount_dynText (sig k) : mount σ (.dynText sig) k = (.dynText k sig, k + 1) := rfl
theorem mount_dynView (sig alts k) : mount σ (.dynView sig alts) k
    = (.dynView k (k + 1) sig alts
        (mountAlt σ alts (if alts.length = 0 then 0 else σ.get sig % alts.length) (k + 2)).1,
       (mountAlt σ alts (if alts.length = 0 then 0 else σ.get sig % alts.length) (k + 2)).2) := rfl
theorem mount_show (sig cs k) : mount σ (.show sig cs) k
    = (.show k (k + 1) sig (mountList σ cs (k + 2)).1, (mountList σ cs (k + 2)).2) := rfl
theorem mount_frag (cs k) : mount σ (.frag cs) k
    = (.frag (mountList σ cs k).1, (mountList σ cs k).2) := rfl
theorem mount_noHydrate (cs k) : mount σ (.noHydrate cs) k
    = (.island (mountList σ cs k).1, (mountList σ cs k).2) := rfl
theorem mountList_nil (k) : mountList σ .nil k = (.nil, k) := rfl
theorem mountList_cons (v rest k) : mountList σ (.cons v rest) k
    = (.cons (mount σ v k).1 (mountList σ rest (mount σ v k).2).1,
       (mountList σ rest (mount σ v k).2).2) := rfl

theorem update_el (s id tag attrs cs k) : update σ s (.el id tag attrs cs) k
    = (.el id tag attrs (updateList σ s cs k).1, (updateList σ s cs k).2) := rfl
theorem update_text (s id t k) : update σ s (.text id t) k = (.text id t, k) := rfl
theorem update_dynText (s id sig k) : update σ s (.dynText id sig) k = (.dynText id sig, k) := rfl
theorem update_dynView_eq (s a b alts cur k) : update σ s (.dynView a b s alts cur) k
    = (.dynView a b s alts
        (mountAlt σ alts (if alts.length = 0 then 0 else σ.get s % alts.length) k).1,
       (mountAlt σ alts (if alts.length = 0 then 0 else σ.get s % alts.length) k).2) := by
  simp [update]
theorem update_dynView_ne (s a b sig alts cur k) (h : sig ≠ s) :
    update σ s (.dynView a b sig alts cur) k
    = (.dynView a b sig alts (updateList σ s cur k).1, (updateList σ s cur k).2) := by
  simp [update, h]
theorem update_show (s a b sig cs k) : update σ s (.show a b sig cs) k
    = (.show a b sig (updateList σ s cs k).1, (updateList σ s cs k).2) := rfl
theorem update_frag (s cs k) : update σ s (.frag cs) k
    = (.frag (updateList σ s cs k).1, (updateList σ s cs k).2) := rfl
theorem update_island (s cs k) : update σ s (.island cs) k
    = (.island (updateList σ s cs k).1, (updateList σ s cs k).2) := rfl
theorem updateList_nil (s k) : updateList σ s .nil k = (.nil, k) := rfl
theorem updateList_cons (s i rest k) : updateList σ s (.cons i rest) k
    = (.cons (update σ s i k).1 (updateList σ s rest (update σ s i k).2).1,
       (updateList σ s rest (update σ s i k).2).2) := rfl

/-- mounting alternative number `i` is mounting the list `alts.get i` -/
theorem mountAlt_eq : ∀ (alts : VDAlts) (i k : Nat), mountAlt σ alts i k = mountList σ (alts.get i) k
  | .nil, _, _ => rfl
  | .cons _ _, 0, _ => rfl
  | .cons _ r, i + 1, k => by
    show mountAlt σ r i k = mountList σ (r.get i) k
    exact mountAlt_eq r i k
end unfold

/-! ## Realisation: an instance tree is a mounted copy of a view description for the store `σ` -/

/-- index of the alternative a dynamic view on `sig` displays under `σ` -/
def altIdx (σ : Store) (sig : Nat) (alts : VDAlts) : Nat :=
  if alts.length = 0 then 0 else σ.get sig % alts.length

mutual
inductive Realizes (σ : Store) : Inst → VD → Prop
  | el {id tag attrs ci cs} : RealizesList σ ci cs → Realizes σ (.el id tag attrs ci) (.el tag attrs cs)
  | text {id s} : Realizes σ (.text id s) (.text s)
  | dynText {id sig} : Realizes σ (.dynText id sig) (.dynText sig)
  | dynView {a b sig alts cur} :
      RealizesList σ cur (alts.get (if alts.length = 0 then 0 else σ.get sig % alts.length)) →
      Realizes σ (.dynView a b sig alts cur) (.dynView sig alts)
  | show {a b sig ci cs} : RealizesList σ ci cs → Realizes σ (.show a b sig ci) (.show sig cs)
  | frag {ci cs} : RealizesList σ ci cs → Realizes σ (.frag ci) (.frag cs)
  | island {ci cs} : RealizesList σ ci cs → Realizes σ (.island ci) (.noHydrate cs)
inductive RealizesList (σ : Store) : InstList → VDList → Prop
  | nil : RealizesList σ .nil .nil
  | cons {i v is vs} : Realizes σ i v → RealizesList σ is vs → RealizesList σ (.cons i is) (.cons v vs)
end

mutual
theorem mount_realizes (σ : Store) : ∀ (vd : VD) (k : Nat), Realizes σ (mount σ vd k).1 vd
  | .el tag attrs cs, k => by rw [mount_el]; exact .el (mountList_realizes σ cs _)
  | .text s, k => by rw [mount_text]; exact .text
  | .dynText sig, k => by rw [mount_dynText]; exact .dynText
  | .dynView sig alts, k => by
    rw [mount_dynView]; exact .dynView (mountAlt_realizes σ alts _ _)
  | .show sig cs, k => by rw [mount_show]; exact .show (mountList_realizes σ cs _)
  | .frag cs, k => by rw [mount_frag]; exact .frag (mountList_realizes σ cs _)
  | .noHydrate cs, k => by rw [mount_noHydrate]; exact .island (mountList_realizes σ cs _)
theorem mountList_realizes (σ : Store) : ∀ (vds : VDList) (k : Nat), RealizesList σ (mountList σ vds k).1 vds
  | .nil, k => .nil
  | .cons v rest, k => by
    rw [mountList_cons]; exact .cons (mount_realizes σ v k) (mountList_realizes σ rest _)
theorem mountAlt_realizes (σ : Store) : ∀ (alts : VDAlts) (i k : Nat),
    RealizesList σ (mountAlt σ alts i k).1 (alts.get i)
  | .nil, _, _ => .nil
  | .cons a _, 0, k => mountList_realizes σ a k
  | .cons _ r, i + 1, k => mountAlt_realizes σ r i k
end

/-! ## The document is determined, up to identities, by the description and the store -/

theorem dom_el (σ : Store) (id tag attrs cs) :
    dom σ (.el id tag attrs cs) = [.elem id tag (evalAttrs σ attrs) (domList σ cs)] := by simp [dom]
theorem dom_text (σ : Store) (id s) : dom σ (.text id s) = [.text id s] := by simp [dom]
theorem dom_dynText (σ : Store) (id sig) :
    dom σ (.dynText id sig) = [.text id (dynTextStr (σ.get sig))] := by simp [dom]
theorem dom_dynView (σ : Store) (a b sig alts cur) :
    dom σ (.dynView a b sig alts cur) = [.comment a] ++ domList σ cur ++ [.comment b] := by simp [dom]
theorem dom_show (σ : Store) (a b sig cs) :
    dom σ (.show a b sig cs)
      = [.comment a] ++ (if σ.get sig % 2 = 1 then domList σ cs else []) ++ [.comment b] := by simp [dom]
theorem dom_frag (σ : Store) (cs) : dom σ (.frag cs) = domList σ cs := by simp [dom]
theorem dom_island (σ : Store) (cs) : dom σ (.island cs) = domList σ cs := by simp [dom]
theorem domList_nil (σ : Store) : domList σ .nil = [] := by simp [domList]
theorem domList_cons (σ : Store) (i rest) : domList σ (.cons i rest) = dom σ i ++ domList σ rest := by
  simp [domList]

mutual
theorem realizes_shape (σ : Store) : ∀ (inst : Inst) (vd : VD) (k : Nat), Realizes σ inst vd →
    shapes (dom σ inst) = shapes (dom σ (mount σ vd k).1)
  | .el id tag attrs ci, _, k, .el h => by
    rw [mount_el, dom_el, dom_el]
    simp only [shapes, shape]
    rw [realizesList_shape σ ci _ (k + 1) h]
  | .text id s, _, k, .text => by rw [mount_text, dom_text, dom_text]; rfl
  | .dynText id sig, _, k, .dynText => by rw [mount_dynText, dom_dynText, dom_dynText]; rfl
  | .dynView a b sig alts cur, _, k, .dynView h => by
    rw [mount_dynView, dom_dynView, dom_dynView, mountAlt_eq]
    simp only [shapes_append]
    rw [realizesList_shape σ cur _ (k + 2) h]; rfl
  | .show a b sig ci, _, k, .show h => by
    rw [mount_show, dom_show, dom_show]
    simp only [shapes_append]
    split
    · rw [realizesList_shape σ ci _ (k + 2) h]; rfl
    · rfl
  | .frag ci, _, k, .frag h => by
    rw [mount_frag, dom_frag, dom_frag]; exact realizesList_shape σ ci _ k h
  | .island ci, _, k, .island h => by
    rw [mount_noHydrate, dom_island, dom_island]; exact realizesList_shape σ ci _ k h
theorem realizesList_shape (σ : Store) : ∀ (inst : InstList) (vds : VDList) (k : Nat),
    RealizesList σ inst vds → shapes (domList σ inst) = shapes (domList σ (mountList σ vds k).1)
  | .nil, _, k, .nil => rfl
  | .cons i is, _, k, .cons h hs => by
    rw [mountList_cons, domList_cons, domList_cons, shapes_append, shapes_append,
      realizes_shape σ i _ k h, realizesList_shape σ is _ _ hs]
end

/-! ## A write keeps the instance a realisation of the SAME description under the new store -/

mutual
theorem update_realizes (σ σ' : Store) (s : Nat) (hσ : ∀ t, t ≠ s → σ'.get t = σ.get t) :
    ∀ (inst : Inst) (vd : VD) (k : Nat), Realizes σ inst vd → Realizes σ' (update σ' s inst k).1 vd
  | .el id tag attrs ci, _, k, .el h => by
    rw [update_el]; exact .el (updateList_realizes σ σ' s hσ ci _ k h)
  | .text id t, _, k, .text => by rw [update_text]; exact .text
  | .dynText id sig, _, k, .dynText => by rw [update_dynText]; exact .dynText
  | .dynView a b sig alts cur, _, k, .dynView h => by
    by_cases hs : sig = s
    · subst hs
      rw [update_dynView_eq]
      exact .dynView (mountAlt_realizes σ' alts _ _)
    · rw [update_dynView_ne _ _ _ _ _ _ _ _ hs]
      refine .dynView ?_
      rw [hσ sig hs]
      exact updateList_realizes σ σ' s hσ cur _ k h
  | .show a b sig ci, _, k, .show h => by
    rw [update_show]; exact .show (updateList_realizes σ σ' s hσ ci _ k h)
  | .frag ci, _, k, .frag h => by
    rw [update_frag]; exact .frag (updateList_realizes σ σ' s hσ ci _ k h)
  | .island ci, _, k, .island h => by
    rw [update_island]; exact .island (updateList_realizes σ σ' s hσ ci _ k h)
theorem updateList_realizes (σ σ' : Store) (s : Nat) (hσ : ∀ t, t ≠ s → σ'.get t = σ.get t) :
    ∀ (inst : InstList) (vds : VDList) (k : Nat), RealizesList σ inst vds →
      RealizesList σ' (updateList σ' s inst k).1 vds
  | .nil, _, k, .nil => .nil
  | .cons i is, _, k, .cons h hs => by
    rw [updateList_cons]
    exact .cons (update_realizes σ σ' s hσ i _ k h) (updateList_realizes σ σ' s hσ is _ _ hs)
end

theorem Store.get_set_ne (σ : Store) (s v t : Nat) (h : t ≠ s) : Store.get (σ.set s v) t = σ.get t := by
  simp [Store.get, List.getD_eq_getElem?_getD, List.getElem?_set_ne (Ne.symm h)]

/-! ## Write histories -/

/-- the driver's loop (`Driver/ViewDrv.lean` `runWrites`) without the printing -/
def runWrites (σ : Store) (inst : InstList) (k : Nat) : List (Nat × Nat) → Store × InstList × Nat
  | [] => (σ, inst, k)
  | (s, v) :: ws =>
    let σ' := σ.set s v
    runWrites σ' (updateList σ' s inst k).1 (updateList σ' s inst k).2 ws

theorem runWrites_realizes (vds : VDList) : ∀ (ws : List (Nat × Nat)) (σ : Store) (inst : InstList) (k : Nat),
    RealizesList σ inst vds →
    RealizesList (runWrites σ inst k ws).1 (runWrites σ inst k ws).2.1 vds
  | [], _, _, _, h => h
  | (s, v) :: ws, σ, inst, k, h => by
    simp only [runWrites]
    exact runWrites_realizes vds ws _ _ _
      (updateList_realizes σ (σ.set s v) s (fun t ht => Store.get_set_ne σ s v t ht) inst vds k h)

/-! ## Identities -/

mutual
/-- all node identities of a document, pre-order -/
def ids : DTree → List Nat
  | .elem id _ _ cs => id :: idsL cs
  | .text id _ => [id]
  | .comment id => [id]
def idsL : List DTree → List Nat
  | [] => []
  | t :: ts => ids t ++ idsL ts
end

theorem idsL_append : ∀ a b : List DTree, idsL (a ++ b) = idsL a ++ idsL b
  | [], b => rfl
  | t :: ts, b => by simp [idsL, idsL_append ts b]

mutual
/-- all node identities owned by an instance (document order), INCLUDING the children a hidden `Show`
keeps parked outside the document -/
def Inst.ids : Inst → List Nat
  | .el id _ _ cs => id :: cs.ids
  | .text id _ => [id]
  | .dynText id _ => [id]
  | .dynView a b _ _ cur => a :: (cur.ids ++ [b])
  | .show a b _ cs => a :: (cs.ids ++ [b])
  | .frag cs => cs.ids
  | .island cs => cs.ids
def InstList.ids : InstList → List Nat
  | .nil => []
  | .cons i rest => i.ids ++ rest.ids
end

mutual
/-- identities of the nodes that are NOT inside the content of a dynamic view on `s`
(the two markers of such a view are stable; a `Show` keeps all its children) -/
def stable (s : Nat) : Inst → List Nat
  | .el id _ _ cs => id :: stableL s cs
  | .text id _ => [id]
  | .dynText id _ => [id]
  | .dynView a b sig _ cur => if sig = s then [a, b] else a :: (stableL s cur ++ [b])
  | .show a b _ cs => a :: (stableL s cs ++ [b])
  | .frag cs => stableL s cs
  | .island cs => stableL s cs
def stableL (s : Nat) : InstList → List Nat
  | .nil => []
  | .cons i rest => stable s i ++ stableL s rest
end

mutual
/-- the instance with the content of every dynamic view on `s` cut out -/
def skeleton (s : Nat) : Inst → Inst
  | .el id tag attrs cs => .el id tag attrs (skeletonL s cs)
  | .text id t => .text id t
  | .dynText id sig => .dynText id sig
  | .dynView a b sig alts cur =>
    if sig = s then .dynView a b sig alts .nil else .dynView a b sig alts (skeletonL s cur)
  | .show a b sig cs => .show a b sig (skeletonL s cs)
  | .frag cs => .frag (skeletonL s cs)
  | .island cs => .island (skeletonL s cs)
def skeletonL (s : Nat) : InstList → InstList
  | .nil => .nil
  | .cons i rest => .cons (skeleton s i) (skeletonL s rest)
end

mutual
/-- no dynamic view in the instance reads `s` -/
def noDynOn (s : Nat) : Inst → Bool
  | .el _ _ _ cs => noDynOnL s cs
  | .text _ _ => true
  | .dynText _ _ => true
  | .dynView _ _ sig _ cur => sig != s && noDynOnL s cur
  | .show _ _ _ cs => noDynOnL s cs
  | .frag cs => noDynOnL s cs
  | .island cs => noDynOnL s cs
def noDynOnL (s : Nat) : InstList → Bool
  | .nil => true
  | .cons i rest => noDynOn s i && noDynOnL s rest
end

mutual
theorem stable_eq_ids_skeleton (s : Nat) : ∀ inst : Inst, stable s inst = (skeleton s inst).ids
  | .el id tag attrs cs => by simp only [stable, skeleton, Inst.ids, stableL_eq_ids_skeletonL s cs]
  | .text _ _ => rfl
  | .dynText _ _ => rfl
  | .dynView a b sig alts cur => by
    simp only [stable, skeleton]
    split
    · simp [Inst.ids, InstList.ids]
    · simp only [Inst.ids, stableL_eq_ids_skeletonL s cur]
  | .show a b sig cs => by simp only [stable, skeleton, Inst.ids, stableL_eq_ids_skeletonL s cs]
  | .frag cs => by simp only [stable, skeleton, Inst.ids, stableL_eq_ids_skeletonL s cs]
  | .island cs => by simp only [stable, skeleton, Inst.ids, stableL_eq_ids_skeletonL s cs]
theorem stableL_eq_ids_skeletonL (s : Nat) : ∀ inst : InstList, stableL s inst = (skeletonL s inst).ids
  | .nil => rfl
  | .cons i rest => by
    simp only [stableL, skeletonL, InstList.ids, stable_eq_ids_skeleton s i, stableL_eq_ids_skeletonL s rest]
end

mutual
theorem stable_sublist (s : Nat) : ∀ inst : Inst, (stable s inst).Sublist inst.ids
  | .el id tag attrs cs => by
    simp only [stable, Inst.ids]; exact (stableL_sublist s cs).cons_cons _
  | .text _ _ => List.Sublist.refl _
  | .dynText _ _ => List.Sublist.refl _
  | .dynView a b sig alts cur => by
    simp only [stable, Inst.ids]
    split
    · exact (List.sublist_append_right _ _).cons_cons _
    · exact ((stableL_sublist s cur).append (List.Sublist.refl _)).cons_cons _
  | .show a b sig cs => by
    simp only [stable, Inst.ids]
    exact ((stableL_sublist s cs).append (List.Sublist.refl _)).cons_cons _
  | .frag cs => by simp only [stable, Inst.ids]; exact stableL_sublist s cs
  | .island cs => by simp only [stable, Inst.ids]; exact stableL_sublist s cs
theorem stableL_sublist (s : Nat) : ∀ inst : InstList, (stableL s inst).Sublist inst.ids
  | .nil => List.Sublist.refl _
  | .cons i rest => by
    simp only [stableL, InstList.ids]; exact (stable_sublist s i).append (stableL_sublist s rest)
end

mutual
/-- the identities in the document are identities of the instance, in the same order -/
theorem ids_dom_sublist (σ : Store) : ∀ inst : Inst, (idsL (dom σ inst)).Sublist inst.ids
  | .el id tag attrs cs => by
    rw [dom_el]; simp only [idsL, ids, Inst.ids, List.append_nil]
    exact (ids_domList_sublist σ cs).cons_cons _
  | .text _ _ => by rw [dom_text]; simp [idsL, ids, Inst.ids]
  | .dynText _ _ => by rw [dom_dynText]; simp [idsL, ids, Inst.ids]
  | .dynView a b sig alts cur => by
    rw [dom_dynView]; simp only [idsL_append, idsL, ids, Inst.ids, List.append_nil, List.cons_append, List.nil_append]
    exact ((ids_domList_sublist σ cur).append (List.Sublist.refl _)).cons_cons _
  | .show a b sig cs => by
    rw [dom_show]; simp only [idsL_append, idsL, ids, Inst.ids, List.append_nil, List.cons_append, List.nil_append]
    split
    · exact ((ids_domList_sublist σ cs).append (List.Sublist.refl _)).cons_cons _
    · exact (List.sublist_append_right _ _).cons_cons _
  | .frag cs => by rw [dom_frag]; simp only [Inst.ids]; exact ids_domList_sublist σ cs
  | .island cs => by rw [dom_island]; simp only [Inst.ids]; exact ids_domList_sublist σ cs
theorem ids_domList_sublist (σ : Store) : ∀ inst : InstList, (idsL (domList σ inst)).Sublist inst.ids
  | .nil => by rw [domList_nil]; exact List.Sublist.refl _
  | .cons i rest => by
    rw [domList_cons, idsL_append]; simp only [InstList.ids]
    exact (ids_dom_sublist σ i).append (ids_domList_sublist σ rest)
end

/-- `l` consists of distinct identities, all in `[k, k')` -/
def FreshIn (k k' : Nat) (l : List Nat) : Prop := k ≤ k' ∧ (∀ x ∈ l, k ≤ x ∧ x < k') ∧ l.Nodup

theorem freshIn_markers {k k' : Nat} {l : List Nat} (h1 : k + 2 ≤ k')
    (h2 : ∀ x ∈ l, k + 2 ≤ x ∧ x < k') (h3 : l.Nodup) : FreshIn k k' (k :: (l ++ [k + 1])) := by
  refine ⟨by omega, ?_, ?_⟩
  · intro x hx
    simp only [List.mem_cons, List.mem_append, List.not_mem_nil, or_false] at hx
    rcases hx with rfl | hx | rfl
    · omega
    · have := h2 x hx; omega
    · omega
  · refine List.nodup_cons.2 ⟨fun hk => ?_, List.nodup_append.2 ⟨h3, by simp, fun a ha b hb => ?_⟩⟩
    · simp only [List.mem_append, List.mem_cons, List.not_mem_nil, or_false] at hk
      rcases hk with hk | hk
      · have := h2 k hk; omega
      · omega
    · simp only [List.mem_cons, List.not_mem_nil, or_false] at hb
      have := h2 a ha; omega

mutual
theorem mount_fresh (σ : Store) : ∀ (vd : VD) (k : Nat),
    FreshIn k (mount σ vd k).2 (mount σ vd k).1.ids
  | .el tag attrs cs, k => by
    rw [mount_el]
    have ⟨h1, h2, h3⟩ := mountList_fresh σ cs (k + 1)
    simp only [Inst.ids]
    refine ⟨by omega, ?_, ?_⟩
    · intro x hx
      rcases List.mem_cons.1 hx with rfl | hx
      · omega
      · have := h2 x hx; omega
    · refine List.nodup_cons.2 ⟨fun hk => ?_, h3⟩
      have := h2 k hk; omega
  | .text s, k => by rw [mount_text]; simp [FreshIn, Inst.ids]
  | .dynText sig, k => by rw [mount_dynText]; simp [FreshIn, Inst.ids]
  | .dynView sig alts, k => by
    rw [mount_dynView]
    have ⟨h1, h2, h3⟩ := mountAlt_fresh σ alts (if alts.length = 0 then 0 else σ.get sig % alts.length) (k + 2)
    simp only [Inst.ids]
    exact freshIn_markers h1 h2 h3
  | .show sig cs, k => by
    rw [mount_show]
    have ⟨h1, h2, h3⟩ := mountList_fresh σ cs (k + 2)
    simp only [Inst.ids]
    exact freshIn_markers h1 h2 h3
  | .frag cs, k => by rw [mount_frag]; exact mountList_fresh σ cs k
  | .noHydrate cs, k => by rw [mount_noHydrate]; exact mountList_fresh σ cs k
theorem mountList_fresh (σ : Store) : ∀ (vds : VDList) (k : Nat),
    FreshIn k (mountList σ vds k).2 (mountList σ vds k).1.ids
  | .nil, k => by rw [mountList_nil]; simp [FreshIn, InstList.ids]
  | .cons v rest, k => by
    rw [mountList_cons]
    have ⟨h1, h2, h3⟩ := mount_fresh σ v k
    have ⟨g1, g2, g3⟩ := mountList_fresh σ rest (mount σ v k).2
    simp only [InstList.ids]
    refine ⟨by omega, ?_, ?_⟩
    · intro x hx
      rcases List.mem_append.1 hx with hx | hx
      · have := h2 x hx; omega
      · have := g2 x hx; omega
    · refine List.nodup_append.2 ⟨h3, g3, fun a ha b hb => ?_⟩
      have := h2 a ha; have := g2 b hb; omega
theorem mountAlt_fresh (σ : Store) : ∀ (alts : VDAlts) (i k : Nat),
    FreshIn k (mountAlt σ alts i k).2 (mountAlt σ alts i k).1.ids
  | .nil, _, k => by simp [mountAlt, FreshIn, InstList.ids]
  | .cons a _, 0, k => mountList_fresh σ a k
  | .cons _ r, i + 1, k => mountAlt_fresh σ r i k
end

mutual
theorem update_skeleton (σ' : Store) (s : Nat) : ∀ (inst : Inst) (k : Nat),
    skeleton s (update σ' s inst k).1 = skeleton s inst
  | .el id tag attrs cs, k => by
    rw [update_el]; simp only [skeleton, updateList_skeleton σ' s cs k]
  | .text _ _, k => rfl
  | .dynText _ _, k => rfl
  | .dynView a b sig alts cur, k => by
    by_cases hs : sig = s
    · subst hs; rw [update_dynView_eq]; simp [skeleton]
    · rw [update_dynView_ne _ _ _ _ _ _ _ _ hs]
      simp only [skeleton, if_neg hs, updateList_skeleton σ' s cur k]
  | .show a b sig cs, k => by
    rw [update_show]; simp only [skeleton, updateList_skeleton σ' s cs k]
  | .frag cs, k => by
    rw [update_frag]; simp only [skeleton, updateList_skeleton σ' s cs k]
  | .island cs, k => by
    rw [update_island]; simp only [skeleton, updateList_skeleton σ' s cs k]
theorem updateList_skeleton (σ' : Store) (s : Nat) : ∀ (inst : InstList) (k : Nat),
    skeletonL s (updateList σ' s inst k).1 = skeletonL s inst
  | .nil, k => rfl
  | .cons i rest, k => by
    rw [updateList_cons]
    simp only [skeletonL, update_skeleton σ' s i k, updateList_skeleton σ' s rest _]
end

theorem update_stable (σ' : Store) (s : Nat) (inst : Inst) (k : Nat) :
    stable s (update σ' s inst k).1 = stable s inst := by
  rw [stable_eq_ids_skeleton, stable_eq_ids_skeleton, update_skeleton]

theorem updateList_stable (σ' : Store) (s : Nat) (inst : InstList) (k : Nat) :
    stableL s (updateList σ' s inst k).1 = stableL s inst := by
  rw [stableL_eq_ids_skeletonL, stableL_eq_ids_skeletonL, updateList_skeleton]

/-- every identity of `l'` is an identity of `l` or was allocated from `[k, k')` -/
def OldOrNew (k k' : Nat) (l l' : List Nat) : Prop := k ≤ k' ∧ ∀ x ∈ l', x ∈ l ∨ (k ≤ x ∧ x < k')

theorem oldOrNew_markers {k k' a b : Nat} {l l' : List Nat} (h : OldOrNew k k' l l') :
    OldOrNew k k' (a :: (l ++ [b])) (a :: (l' ++ [b])) := by
  refine ⟨h.1, fun x hx => ?_⟩
  simp only [List.mem_cons, List.mem_append, List.not_mem_nil, or_false] at hx ⊢
  rcases hx with rfl | hx | rfl
  · exact .inl (.inl rfl)
  · rcases h.2 x hx with h | h
    · exact .inl (.inr (.inl h))
    · exact .inr h
  · exact .inl (.inr (.inr rfl))

mutual
theorem update_ids (σ' : Store) (s : Nat) : ∀ (inst : Inst) (k : Nat),
    OldOrNew k (update σ' s inst k).2 inst.ids (update σ' s inst k).1.ids
  | .el id tag attrs cs, k => by
    rw [update_el]; simp only [Inst.ids]
    have ⟨h1, h2⟩ := updateList_ids σ' s cs k
    refine ⟨h1, fun x hx => ?_⟩
    rcases List.mem_cons.1 hx with rfl | hx
    · exact .inl (List.mem_cons_self ..)
    · rcases h2 x hx with h | h
      · exact .inl (List.mem_cons_of_mem _ h)
      · exact .inr h
  | .text _ _, k => by rw [update_text]; exact ⟨Nat.le_refl _, fun x hx => .inl hx⟩
  | .dynText _ _, k => by rw [update_dynText]; exact ⟨Nat.le_refl _, fun x hx => .inl hx⟩
  | .dynView a b sig alts cur, k => by
    by_cases hs : sig = s
    · subst hs; rw [update_dynView_eq]; simp only [Inst.ids]
      have ⟨h1, h2, _⟩ := mountAlt_fresh σ' alts (if alts.length = 0 then 0 else σ'.get sig % alts.length) k
      exact oldOrNew_markers ⟨h1, fun x hx => .inr (h2 x hx)⟩
    · rw [update_dynView_ne _ _ _ _ _ _ _ _ hs]; simp only [Inst.ids]
      exact oldOrNew_markers (updateList_ids σ' s cur k)
  | .show a b sig cs, k => by
    rw [update_show]; simp only [Inst.ids]
    exact oldOrNew_markers (updateList_ids σ' s cs k)
  | .frag cs, k => by rw [update_frag]; simp only [Inst.ids]; exact updateList_ids σ' s cs k
  | .island cs, k => by rw [update_island]; simp only [Inst.ids]; exact updateList_ids σ' s cs k
theorem updateList_ids (σ' : Store) (s : Nat) : ∀ (inst : InstList) (k : Nat),
    OldOrNew k (updateList σ' s inst k).2 inst.ids (updateList σ' s inst k).1.ids
  | .nil, k => by rw [updateList_nil]; exact ⟨Nat.le_refl _, fun x hx => .inl hx⟩
  | .cons i rest, k => by
    rw [updateList_cons]; simp only [InstList.ids]
    have ⟨h1, h2⟩ := update_ids σ' s i k
    have ⟨g1, g2⟩ := updateList_ids σ' s rest (update σ' s i k).2
    refine ⟨by omega, fun x hx => ?_⟩
    rcases List.mem_append.1 hx with hx | hx
    · rcases h2 x hx with h | h
      · exact .inl (List.mem_append_left _ h)
      · exact .inr (by omega)
    · rcases g2 x hx with h | h
      · exact .inl (List.mem_append_right _ h)
      · exact .inr (by omega)
end

/-- all identities below the counter, no identity twice -/
def IdsOk (k : Nat) (l : List Nat) : Prop := (∀ x ∈ l, x < k) ∧ l.Nodup

theorem nodup_markers {k k' a b : Nat} {l l' : List Nat} (h : IdsOk k (a :: (l ++ [b])))
    (hn : OldOrNew k k' l l') (hd : l'.Nodup) : (a :: (l' ++ [b])).Nodup := by
  obtain ⟨hlt, hnd⟩ := h
  have ha : a < k := hlt a (by simp)
  have hb : b < k := hlt b (by simp)
  rw [List.nodup_cons, List.nodup_append] at hnd
  obtain ⟨hal, _, _, hlb⟩ := hnd
  simp only [List.mem_append, List.mem_cons, List.not_mem_nil, or_false, not_or] at hal
  refine List.nodup_cons.2 ⟨fun hk => ?_, List.nodup_append.2 ⟨hd, by simp, fun x hx y hy => ?_⟩⟩
  · simp only [List.mem_append, List.mem_cons, List.not_mem_nil, or_false] at hk
    rcases hk with hk | hk
    · rcases hn.2 a hk with h | h
      · exact hal.1 h
      · omega
    · exact hal.2 hk
  · simp only [List.mem_cons, List.not_mem_nil, or_false] at hy
    subst hy
    rcases hn.2 x hx with h | h
    · exact hlb x h y (by simp)
    · omega

theorem IdsOk.mid {k a b : Nat} {l : List Nat} (h : IdsOk k (a :: (l ++ [b]))) : IdsOk k l := by
  refine ⟨fun x hx => h.1 x (by simp [hx]), ?_⟩
  have := h.2
  rw [List.nodup_cons, List.nodup_append] at this
  exact this.2.1

mutual
theorem update_nodup (σ' : Store) (s : Nat) : ∀ (inst : Inst) (k : Nat), IdsOk k inst.ids →
    (update σ' s inst k).1.ids.Nodup
  | .el id tag attrs cs, k, h => by
    rw [update_el]; simp only [Inst.ids] at h ⊢
    have hcs : IdsOk k cs.ids := ⟨fun x hx => h.1 x (List.mem_cons_of_mem _ hx), (List.nodup_cons.1 h.2).2⟩
    refine List.nodup_cons.2 ⟨fun hk => ?_, updateList_nodup σ' s cs k hcs⟩
    rcases (updateList_ids σ' s cs k).2 id hk with h' | h'
    · exact (List.nodup_cons.1 h.2).1 h'
    · have := h.1 id (List.mem_cons_self ..); omega
  | .text _ _, k, h => by rw [update_text]; exact h.2
  | .dynText _ _, k, h => by rw [update_dynText]; exact h.2
  | .dynView a b sig alts cur, k, h => by
    by_cases hs : sig = s
    · subst hs; rw [update_dynView_eq]; simp only [Inst.ids] at h ⊢
      have ⟨h1, h2, h3⟩ := mountAlt_fresh σ' alts (if alts.length = 0 then 0 else σ'.get sig % alts.length) k
      exact nodup_markers h ⟨h1, fun x hx => .inr (h2 x hx)⟩ h3
    · rw [update_dynView_ne _ _ _ _ _ _ _ _ hs]; simp only [Inst.ids] at h ⊢
      exact nodup_markers h (updateList_ids σ' s cur k) (updateList_nodup σ' s cur k h.mid)
  | .show a b sig cs, k, h => by
    rw [update_show]; simp only [Inst.ids] at h ⊢
    exact nodup_markers h (updateList_ids σ' s cs k) (updateList_nodup σ' s cs k h.mid)
  | .frag cs, k, h => by
    rw [update_frag]; simp only [Inst.ids] at h ⊢; exact updateList_nodup σ' s cs k h
  | .island cs, k, h => by
    rw [update_island]; simp only [Inst.ids] at h ⊢; exact updateList_nodup σ' s cs k h
theorem updateList_nodup (σ' : Store) (s : Nat) : ∀ (inst : InstList) (k : Nat), IdsOk k inst.ids →
    (updateList σ' s inst k).1.ids.Nodup
  | .nil, k, h => by rw [updateList_nil]; exact h.2
  | .cons i rest, k, h => by
    rw [updateList_cons]; simp only [InstList.ids] at h ⊢
    obtain ⟨hlt, hnd⟩ := h
    rw [List.nodup_append] at hnd
    obtain ⟨hi, hr, hdisj⟩ := hnd
    have ⟨h1, h2⟩ := update_ids σ' s i k
    have ⟨g1, g2⟩ := updateList_ids σ' s rest (update σ' s i k).2
    have hiok : IdsOk k i.ids := ⟨fun x hx => hlt x (List.mem_append_left _ hx), hi⟩
    have hrok : IdsOk (update σ' s i k).2 rest.ids :=
      ⟨fun x hx => Nat.lt_of_lt_of_le (hlt x (List.mem_append_right _ hx)) h1, hr⟩
    refine List.nodup_append.2 ⟨update_nodup σ' s i k hiok, updateList_nodup σ' s rest _ hrok,
      fun x hx y hy => ?_⟩
    rcases h2 x hx with hx' | hx' <;> rcases g2 y hy with hy' | hy'
    · exact hdisj x hx' y hy'
    · have := hlt x (List.mem_append_left _ hx'); omega
    · have := hlt y (List.mem_append_right _ hy'); omega
    · omega
end

/-- the invariant `IdsOk` is preserved by a write -/
theorem updateList_idsOk (σ' : Store) (s : Nat) (inst : InstList) (k : Nat) (h : IdsOk k inst.ids) :
    IdsOk (updateList σ' s inst k).2 (updateList σ' s inst k).1.ids := by
  refine ⟨fun x hx => ?_, updateList_nodup σ' s inst k h⟩
  have ⟨h1, h2⟩ := updateList_ids σ' s inst k
  rcases h2 x hx with h' | h'
  · exact Nat.lt_of_lt_of_le (h.1 x h') h1
  · exact h'.2

theorem mountList_idsOk (σ : Store) (vds : VDList) (k : Nat) :
    IdsOk (mountList σ vds k).2 (mountList σ vds k).1.ids :=
  have ⟨_, h2, h3⟩ := mountList_fresh σ vds k
  ⟨fun x hx => (h2 x hx).2, h3⟩

theorem runWrites_idsOk : ∀ (ws : List (Nat × Nat)) (σ : Store) (inst : InstList) (k : Nat),
    IdsOk k inst.ids → IdsOk (runWrites σ inst k ws).2.2 (runWrites σ inst k ws).2.1.ids
  | [], _, _, _, h => h
  | (s, v) :: ws, σ, inst, k, h => by
    simp only [runWrites]
    exact runWrites_idsOk ws _ _ _ (updateList_idsOk (σ.set s v) s inst k h)

mutual
theorem update_untouched (σ' : Store) (s : Nat) : ∀ (inst : Inst) (k : Nat), noDynOn s inst = true →
    update σ' s inst k = (inst, k)
  | .el id tag attrs cs, k, h => by
    rw [update_el, updateList_untouched σ' s cs k (by simpa [noDynOn] using h)]
  | .text _ _, k, _ => rfl
  | .dynText _ _, k, _ => rfl
  | .dynView a b sig alts cur, k, h => by
    simp only [noDynOn, Bool.and_eq_true, bne_iff_ne, ne_eq] at h
    rw [update_dynView_ne _ _ _ _ _ _ _ _ h.1, updateList_untouched σ' s cur k h.2]
  | .show a b sig cs, k, h => by
    rw [update_show, updateList_untouched σ' s cs k (by simpa [noDynOn] using h)]
  | .frag cs, k, h => by
    rw [update_frag, updateList_untouched σ' s cs k (by simpa [noDynOn] using h)]
  | .island cs, k, h => by
    rw [update_island, updateList_untouched σ' s cs k (by simpa [noDynOn] using h)]
theorem updateList_untouched (σ' : Store) (s : Nat) : ∀ (inst : InstList) (k : Nat),
    noDynOnL s inst = true → updateList σ' s inst k = (inst, k)
  | .nil, k, _ => rfl
  | .cons i rest, k, h => by
    simp only [noDynOnL, Bool.and_eq_true] at h
    rw [updateList_cons, update_untouched σ' s i k h.1, updateList_untouched σ' s rest k h.2]
end

end SycVerif.DomView
