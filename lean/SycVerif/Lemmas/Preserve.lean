import SycVerif.Lemmas.Edges
import SycVerif.Lemmas.Dfs
import SycVerif.Lemmas.Dispose
import SycVerif.Lemmas.Batch
import SycVerif.Spec.Reactive
/-!
The "lift": the bookkeeping invariants of the arena (`NoDangling`, `EdgesSym`, `OwnershipOk`, and the
auxiliary clauses that make them inductive) are preserved by every function of the mutual block of
`SycVerif.Model.Reactive` that runs user code, for every program of the closure DSL.

* `RInvP P r`  — the invariant, with a ghost predicate `P` of ids that are exempt from the clause
                 `listed` (the children that a running `disposeChildren` has detached and is about to
                 dispose); `RInv r = RInvP (fun _ => False) r` is the invariant of the reachable states;
* `Grows r r'` — the two-state facts needed to thread the invariant through a closure run: the arena
                 only grows, dead slots stay dead, a node that is being run (`value = none`) is still
                 being run, or dead, afterwards;
* `PresAll f`  — the conjunction, at fuel `f`, of one preservation statement per function of the
                 mutual block; `presAll : ∀ f, PresAll f` is the induction on fuel.

* Part II: `XInv` (extra clauses), `Safe`, `SafeAll f`, `safeAll : ∀ f, SafeAll f` — no function of the
                 mutual block fails with `Panic.unwrapNone` (C11).

The readable statements are in `SycVerif.Props.ReactiveWF`.  (`Inv` is a class of core Lean, hence
the name `RInv`.)
-/
namespace SycVerif.Reactive

/-! ### 1. definitions -/

/-- every handle of the environment names a slot that has been allocated -/
def EnvLt (k : Nat) (env : List Handle) : Prop := ∀ hd ∈ env, hd.id < k

/-- per-node clauses of the invariant (`k` = arena size) -/
structure NodeWF (k : Nat) (n : Node) : Prop where
  /-- a node that is being run (or created) has no dependencies (hence, by `EdgesSym`, no
  subscriptions) -/
  run : n.value = none → n.dependencies = []
  /-- stored closures captured allocated handles only -/
  cleanups : ∀ cl ∈ n.cleanups, EnvLt k cl.env
  callback : ∀ eq cl, n.callback = some (eq, cl) → EnvLt k cl.env

/-- the invariant; `P` = ids exempt from `listed` -/
structure RInvP (P : Id → Prop) (r : Root) : Prop where
  nd : NoDangling r
  sym : EdgesSym r
  tree : TreeOk r
  /-- listed children are allocated slots -/
  cbound : ∀ i n, r.get? i = some n → ∀ c ∈ n.children, c < r.nodes.size
  /-- an owner is older than what it owns -/
  plt : ∀ j m p, r.get? j = some m → m.parent = some p → p < j
  node : ∀ i n, r.get? i = some n → NodeWF r.nodes.size n
  /-- the current scope is an allocated slot (it may be dead) -/
  cur : ∀ c, r.current = some c → c < r.nodes.size
  /-- `OwnershipOk.listed`, except for the ids of `P` -/
  listed : ∀ j m p np, r.get? j = some m → m.parent = some p → r.get? p = some np →
    j ∈ np.children ∨ P j

/-- the invariant of the reachable states -/
def RInv (r : Root) : Prop := RInvP (fun _ => False) r

/-- two-state facts: the arena grows, dead slots stay dead, running nodes keep running (or die) -/
structure Grows (r r' : Root) : Prop where
  size : r.nodes.size ≤ r'.nodes.size
  dead : ∀ j, j < r.nodes.size → r.get? j = none → r'.get? j = none
  run : ∀ j n n', r.get? j = some n → n.value = none → r'.get? j = some n' → n'.value = none

/-! ### 2. generic lemmas -/

theorem Root.get?_congr_nodes {r r' : Root} (h : r'.nodes = r.nodes) (j : Id) : r'.get? j = r.get? j := by
  simp [Root.get?, h]

theorem EnvLt.mono {k k' : Nat} {env : List Handle} (h : EnvLt k env) (hk : k ≤ k') : EnvLt k' env :=
  fun hd hm => Nat.lt_of_lt_of_le (h hd hm) hk

theorem NodeWF.mono {k k' : Nat} {n : Node} (h : NodeWF k n) (hk : k ≤ k') : NodeWF k' n :=
  ⟨h.run, fun cl hc => (h.cleanups cl hc).mono hk, fun eq cl hc => (h.callback eq cl hc).mono hk⟩

theorem Grows.refl (r : Root) : Grows r r :=
  ⟨Nat.le_refl _, fun _ _ h => h, fun j n n' h hv h' => by rw [h] at h'; cases h'; exact hv⟩

theorem Grows.trans {a b c : Root} (h1 : Grows a b) (h2 : Grows b c) : Grows a c := by
  refine ⟨Nat.le_trans h1.size h2.size, ?_, ?_⟩
  · intro j hj hd
    exact h2.dead j (Nat.lt_of_lt_of_le hj h1.size) (h1.dead j hj hd)
  · intro j n n' hn hv hn'
    cases hb : b.get? j with
    | none =>
      have := h2.dead j (Nat.lt_of_lt_of_le (Root.lt_size_of_get? hn) h1.size) hb
      rw [this] at hn'; cases hn'
    | some nb => exact h2.run j nb n' hb (h1.run j n nb hn hv hb) hn'

theorem Grows.of_nodes_eq {r r' : Root} (h : r'.nodes = r.nodes) : Grows r r' := by
  have hg := Root.get?_congr_nodes h
  refine ⟨by rw [h]; exact Nat.le_refl _, fun j _ hd => by rw [hg]; exact hd, ?_⟩
  intro j n n' hn hv hn'
  rw [hg, hn] at hn'; cases hn'; exact hv

/-- a transformation that keeps the size, revives nothing and keeps `value = none` -/
theorem Grows.pointwise {r r' : Root} (hsz : r'.nodes.size = r.nodes.size)
    (hdead : ∀ j, r.get? j = none → r'.get? j = none)
    (hval : ∀ j m m', r.get? j = some m → r'.get? j = some m' → m.value = none → m'.value = none) :
    Grows r r' :=
  ⟨by rw [hsz]; exact Nat.le_refl _, fun j _ hd => hdead j hd, fun j n n' hn hv hn' => hval j n n' hn hn' hv⟩

/-- the end of a run: node `id`, which was not running at `r0`, gets its value back -/
theorem Grows.trans_except {r0 r r' : Root} {id : Id} (g : Grows r0 r)
    (hid : ∀ n, r0.get? id = some n → n.value ≠ none)
    (hsz : r'.nodes.size = r.nodes.size)
    (hdead : ∀ j, r.get? j = none → r'.get? j = none)
    (hval : ∀ j, j ≠ id → ∀ m m', r.get? j = some m → r'.get? j = some m' → m.value = none → m'.value = none) :
    Grows r0 r' := by
  refine ⟨by rw [hsz]; exact g.size, fun j hj hd => hdead j (g.dead j hj hd), ?_⟩
  intro j n n' hn hv hn'
  have hj : j ≠ id := by rintro rfl; exact hid n hn hv
  cases hr : r.get? j with
  | none => rw [hdead j hr] at hn'; cases hn'
  | some m => exact hval j hj m n' hr hn' (g.run j n m hn hv hr)

/-- the master transfer lemma: the arena keeps its size, no slot is revived or removed, every node
keeps `children` and `parent`; the edge invariants and the per-node clauses are given -/
theorem RInvP.transfer {P : Id → Prop} {r r' : Root} (h : RInvP P r)
    (hsz : r'.nodes.size = r.nodes.size) (hcur : ∀ c, r'.current = some c → c < r.nodes.size)
    (hdead : ∀ j, r.get? j = none → r'.get? j = none)
    (hnode : ∀ j m, r.get? j = some m → ∃ m', r'.get? j = some m' ∧ m'.children = m.children ∧
      m'.parent = m.parent ∧ NodeWF r.nodes.size m')
    (hnd : NoDangling r') (hsym : EdgesSym r') : RInvP P r' := by
  have back : ∀ j m', r'.get? j = some m' → ∃ m, r.get? j = some m ∧ m'.children = m.children ∧
      m'.parent = m.parent ∧ NodeWF r.nodes.size m' := by
    intro j m' hm'
    cases hj : r.get? j with
    | none => rw [hdead j hj] at hm'; cases hm'
    | some m =>
      obtain ⟨m'', h1, h2, h3, h4⟩ := hnode j m hj
      rw [h1] at hm'; cases hm'
      exact ⟨m, rfl, h2, h3, h4⟩
  refine ⟨hnd, hsym, ⟨?_, ?_, ?_⟩, ?_, ?_, ?_, ?_, ?_⟩
  · intro i n' hn' c hc m' hm'
    obtain ⟨n, hn, e1, _, _⟩ := back i n' hn'
    obtain ⟨m, hm, _, e2, _⟩ := back c m' hm'
    rw [e2]; exact h.tree.parent i n hn c (e1 ▸ hc) m hm
  · intro i n' hn'
    obtain ⟨n, hn, e1, _, _⟩ := back i n' hn'
    rw [e1]; exact h.tree.nodup i n hn
  · intro i n' hn' c hc
    obtain ⟨n, hn, e1, _, _⟩ := back i n' hn'
    exact h.tree.lt i n hn c (e1 ▸ hc)
  · intro i n' hn' c hc
    obtain ⟨n, hn, e1, _, _⟩ := back i n' hn'
    rw [hsz]; exact h.cbound i n hn c (e1 ▸ hc)
  · intro j m' p hm' hp
    obtain ⟨m, hm, _, e2, _⟩ := back j m' hm'
    exact h.plt j m p hm (e2 ▸ hp)
  · intro i n' hn'
    obtain ⟨n, hn, _, _, e3⟩ := back i n' hn'
    rw [hsz]; exact e3
  · intro c hc; rw [hsz]; exact hcur c hc
  · intro j m' p np' hm' hp hnp'
    obtain ⟨m, hm, _, e2, _⟩ := back j m' hm'
    obtain ⟨np, hnp, e1, _, _⟩ := back p np' hnp'
    rw [e1]; exact h.listed j m p np hm (e2 ▸ hp) hnp

/-- `RInvP` only looks at the arena and at `current` -/
theorem RInvP.congr {P : Id → Prop} {r r' : Root} (h : RInvP P r) (hn : r'.nodes = r.nodes)
    (hcur : ∀ c, r'.current = some c → c < r.nodes.size) : RInvP P r' := by
  have hg := Root.get?_congr_nodes hn
  have hp := sameEdges_preserves (r := r) (r' := r') fun j => ⟨fun m => m, fun m => ⟨rfl, rfl⟩, by simp [hg]⟩
  refine h.transfer (by rw [hn]) hcur (fun j hj => by rw [hg]; exact hj) ?_ (hp.1 h.nd) (hp.2 h.sym)
  intro j m hm
  exact ⟨m, by rw [hg]; exact hm, rfl, rfl, h.node j m hm⟩

theorem RInvP.weaken {P Q : Id → Prop} {r : Root} (h : RInvP P r)
    (hPQ : ∀ j, r.alive j = true → P j → Q j) : RInvP Q r :=
  { h with listed := fun j m p np hm hp hnp =>
      (h.listed j m p np hm hp hnp).imp id (hPQ j (Root.alive_iff.2 ⟨m, hm⟩)) }

/-- overwriting a live node by one with the same edges, children and parent -/
theorem RInvP.setNode {P : Id → Prop} {r : Root} {id : Id} {n n' : Node} (h : RInvP P r)
    (hn : r.get? id = some n) (h1 : n'.dependents = n.dependents) (h2 : n'.dependencies = n.dependencies)
    (h3 : n'.children = n.children) (h4 : n'.parent = n.parent) (h5 : NodeWF r.nodes.size n') :
    RInvP P (r.setNode id n') := by
  have hp := setNode_sameEdges_preserves hn h1 h2
  have hlt := Root.lt_size_of_get? hn
  obtain ⟨s1, _, s3, _⟩ := SameFrame.setNode r id n'
  refine h.transfer s1 (fun c hc => h.cur c (s3 ▸ hc)) ?_ ?_ (hp.1 h.nd) (hp.2 h.sym)
  · intro j hj
    rw [Root.get?_setNode]
    split
    · rename_i hc; rw [hc.1, hn] at hj; cases hj
    · exact hj
  · intro j m hm
    rw [Root.get?_setNode]
    split
    · rename_i hc
      rw [hc.1, hn] at hm; cases hm
      exact ⟨n', rfl, h3, h4, h5⟩
    · exact ⟨m, hm, rfl, rfl, h.node j m hm⟩

theorem Grows.setNode {r : Root} {id : Id} {n : Node} (n' : Node) (hn : r.get? id = some n)
    (hv : n.value = none → n'.value = none) : Grows r (r.setNode id n') := by
  refine Grows.pointwise (SameFrame.setNode r id n').1 ?_ ?_
  · intro j hj
    rw [Root.get?_setNode]
    split
    · rename_i hc; rw [hc.1, hn] at hj; cases hj
    · exact hj
  · intro j m m' hm hm' hmv
    rw [Root.get?_setNode] at hm'
    split at hm'
    · rename_i hc
      rw [hc.1, hn] at hm; cases hm; cases hm'
      exact hv hmv
    · rw [hm] at hm'; cases hm'; exact hmv

/-- only `context`, `dirty` and `mark` fields change -/
theorem RInvP.flags {P : Id → Prop} {r r' : Root} (h : RInvP P r)
    (hsz : r'.nodes.size = r.nodes.size) (hcur : r'.current = r.current)
    (hdead : ∀ j, r.get? j = none → r'.get? j = none)
    (hnode : ∀ j m, r.get? j = some m → ∃ m', r'.get? j = some m' ∧ m'.value = m.value ∧
      m'.callback = m.callback ∧ m'.children = m.children ∧ m'.parent = m.parent ∧
      m'.dependents = m.dependents ∧ m'.dependencies = m.dependencies ∧ m'.cleanups = m.cleanups) :
    RInvP P r' ∧ Grows r r' := by
  have back : ∀ j m', r'.get? j = some m' → ∃ m, r.get? j = some m ∧
      m'.dependents = m.dependents ∧ m'.dependencies = m.dependencies := by
    intro j m' hm'
    cases hj : r.get? j with
    | none => rw [hdead j hj] at hm'; cases hm'
    | some m =>
      obtain ⟨m'', h1, _, _, _, _, h6, h7, _⟩ := hnode j m hj
      rw [h1] at hm'; cases hm'
      exact ⟨m, rfl, h6, h7⟩
  have alive' : ∀ x, r.alive x = true → r'.alive x = true := by
    intro x hx
    obtain ⟨m, hm⟩ := Root.alive_iff.1 hx
    obtain ⟨m', hm', _⟩ := hnode x m hm
    exact Root.alive_iff.2 ⟨m', hm'⟩
  refine ⟨h.transfer hsz (fun c hc => h.cur c (hcur ▸ hc)) hdead ?_ ?_ ?_, Grows.pointwise hsz hdead ?_⟩
  · intro j m hm
    obtain ⟨m', h0, h1, h2, h3, h4, _, h7, h8⟩ := hnode j m hm
    have w := h.node j m hm
    exact ⟨m', h0, h3, h4, ⟨fun hv => by rw [h7]; exact w.run (h1 ▸ hv), by rw [h8]; exact w.cleanups,
      by rw [h2]; exact w.callback⟩⟩
  · intro i n' hn'
    obtain ⟨n, hn, e1, e2⟩ := back i n' hn'
    rw [e1, e2]
    exact ⟨fun d hd => alive' d ((h.nd i n hn).1 d hd), fun d hd => alive' d ((h.nd i n hn).2 d hd)⟩
  · intro a b na' nb' ha hb
    obtain ⟨na, hna, e1, _⟩ := back a na' ha
    obtain ⟨nb, hnb, _, e2⟩ := back b nb' hb
    rw [e1, e2]; exact h.sym a b na nb hna hnb
  · intro j m m' hm hm' hv
    obtain ⟨m'', h0, h1, _⟩ := hnode j m hm
    rw [h0] at hm'; cases hm'
    rw [h1]; exact hv

/-! ### 3. the arena transformers without user code -/

/-- removing a set of ids (and erasing them from every edge list) -/
theorem RInvP.removed {P : Id → Prop} {r r' : Root} {S : List Id} (h : RInvP P r) (hrem : Removed r S r')
    (hsz : r'.nodes.size = r.nodes.size) (hcur : r'.current = r.current) : RInvP P r' ∧ Grows r r' := by
  refine ⟨⟨hrem.preserves.1 h.nd, hrem.preserves.2 h.sym, hrem.shrinks.treeOk h.tree, ?_, ?_, ?_, ?_, ?_⟩, ?_⟩
  · intro i n' hn' c hc
    obtain ⟨_, n, hn, rfl⟩ := hrem.get?_some hn'
    rw [hsz]; exact h.cbound i n hn c hc
  · intro j m' p hm' hp
    obtain ⟨_, m, hm, rfl⟩ := hrem.get?_some hm'
    exact h.plt j m p hm hp
  · intro i n' hn'
    obtain ⟨_, n, hn, rfl⟩ := hrem.get?_some hn'
    have w := h.node i n hn
    rw [hsz]
    exact ⟨fun hv => by simp [eraseIds, w.run hv], w.cleanups, w.callback⟩
  · intro c hc; rw [hsz]; exact h.cur c (hcur ▸ hc)
  · intro j m' p np' hm' hp hnp'
    obtain ⟨_, m, hm, rfl⟩ := hrem.get?_some hm'
    obtain ⟨_, np, hnp, rfl⟩ := hrem.get?_some hnp'
    exact h.listed j m p np hm hp hnp
  · refine Grows.pointwise hsz ?_ ?_
    · intro j hj; rw [hrem j, hj]; simp
    · intro j m m' hm hm' hv
      obtain ⟨_, m0, hm0, rfl⟩ := hrem.get?_some hm'
      rw [hm] at hm0; cases hm0; exact hv

theorem RInvP.removeNode {P : Id → Prop} {r : Root} (h : RInvP P r) (id : Id) :
    RInvP P (removeNode r id) ∧ Grows r (removeNode r id) ∧ (removeNode r id).get? id = none := by
  obtain ⟨h0, _, _, _, ⟨s1, _, s3, _⟩, _⟩ := removeNode_spec h.nd h.sym id
  obtain ⟨a, b⟩ := h.removed (removeNode_removed h.nd h.sym id) s1 s3
  exact ⟨a, b, h0⟩

/-- `unsubscribe` (first step of `disposeNode`, repair D19) -/
theorem RInvP.unsubscribe {P : Id → Prop} {r : Root} (h : RInvP P r) (id : Id) :
    RInvP P (unsubscribe r id) ∧ Grows r (unsubscribe r id) := by
  obtain ⟨hget, _, hnd, hsym, ⟨s1, _, s3, _⟩⟩ := unsubscribe_spec h.nd h.sym id
  have hdead : ∀ j, r.get? j = none → (Reactive.unsubscribe r id).get? j = none := by
    intro j hj; rw [hget, hj]; rfl
  refine ⟨h.transfer s1 (fun c hc => h.cur c (s3 ▸ hc)) hdead ?_ hnd hsym, Grows.pointwise s1 hdead ?_⟩
  · intro j m hm
    have w := h.node j m hm
    refine ⟨unlinked id j m, by rw [hget, hm]; rfl, rfl, rfl, ⟨fun hv => ?_, w.cleanups, w.callback⟩⟩
    simp only [unlinked]; split
    · rfl
    · exact w.run hv
  · intro j m m' hm hm' hv
    rw [hget, hm] at hm'; cases hm'; exact hv

/-- `createNode` -/
theorem RInvP.createNode {P : Id → Prop} {r r' : Root} {v : Option Int} {id : Id} (h : RInvP P r)
    (hc : createNode r v = .ok (r', id)) :
    RInvP P r' ∧ Grows r r' ∧ id = r.nodes.size ∧ r'.nodes.size = r.nodes.size + 1 ∧
    r'.current = r.current ∧ r'.tracker = r.tracker ∧
    ∃ n', r'.get? id = some n' ∧ n'.value = v ∧ n'.dependencies = [] := by
  obtain ⟨hid, hget, hsz, htr, hcur, _⟩ := createNode_get? hc
  obtain ⟨_, _, ⟨nn, hnn, _, hnn2, hnn3, _⟩, _, _, hedges⟩ := createNode_spec hc
  obtain ⟨hnd', hsym', _⟩ := hedges h.nd
  subst hid
  have hcurne : r.current ≠ some r.nodes.size := fun e => Nat.lt_irrefl _ (h.cur _ e)
  -- every node of `r'` is the fresh one or an old one with a child possibly added
  have back : ∀ j m', r'.get? j = some m' →
      (j = r.nodes.size ∧ m' = freshNode v r.current) ∨
      (j ≠ r.nodes.size ∧ ∃ m, r.get? j = some m ∧ m' = addChild r.current r.nodes.size j m) := by
    intro j m' hm'
    rw [hget] at hm'
    by_cases hj : j = r.nodes.size
    · left
      subst hj
      simp only [if_true, Option.map_some, Option.some.injEq] at hm'
      refine ⟨rfl, ?_⟩
      rw [← hm']; simp [addChild, hcurne]
    · right
      rw [if_neg hj, Option.map_eq_some_iff] at hm'
      obtain ⟨m, hm, e⟩ := hm'
      exact ⟨hj, m, hm, e.symm⟩
  have fwd : ∀ j m, r.get? j = some m → r'.get? j = some (addChild r.current r.nodes.size j m) := by
    intro j m hm
    have : j ≠ r.nodes.size := Nat.ne_of_lt (Root.lt_size_of_get? hm)
    rw [hget, if_neg this, hm]; rfl
  have memch : ∀ j m c, c ∈ (addChild r.current r.nodes.size j m).children →
      c ∈ m.children ∨ (c = r.nodes.size ∧ r.current = some j) := by
    intro j m c hc
    simp only [addChild] at hc
    split at hc
    · rename_i e
      simp only [List.mem_append, List.mem_singleton] at hc
      exact hc.imp id fun e' => ⟨e', e⟩
    · exact .inl hc
  refine ⟨⟨hnd', hsym' h.sym, ⟨?_, ?_, ?_⟩, ?_, ?_, ?_, ?_, ?_⟩, ?_, rfl, hsz, hcur, htr, nn, hnn, hnn3, hnn2⟩
  · -- parent
    intro i n' hn' c hcm m' hm'
    rcases back i n' hn' with ⟨_, rfl⟩ | ⟨hi, n, hn, rfl⟩
    · simp [freshNode] at hcm
    · rcases back c m' hm' with ⟨hcs, rfl⟩ | ⟨hcs, m, hm, rfl⟩
      · rcases memch i n c hcm with hold | ⟨_, e⟩
        · exact absurd (h.cbound i n hn c hold) (by rw [hcs]; exact Nat.lt_irrefl _)
        · simpa [freshNode] using e
      · rcases memch i n c hcm with hold | ⟨e, _⟩
        · simpa [addChild] using h.tree.parent i n hn c hold m hm
        · exact absurd e hcs
  · -- nodup
    intro i n' hn'
    rcases back i n' hn' with ⟨_, rfl⟩ | ⟨hi, n, hn, rfl⟩
    · simp [freshNode]
    · simp only [addChild]
      split
      · refine List.nodup_append.2 ⟨h.tree.nodup i n hn, by simp, ?_⟩
        intro a ha b hb
        simp only [List.mem_singleton] at hb
        subst hb
        exact Nat.ne_of_lt (h.cbound i n hn a ha)
      · exact h.tree.nodup i n hn
  · -- lt
    intro i n' hn' c hcm
    rcases back i n' hn' with ⟨_, rfl⟩ | ⟨hi, n, hn, rfl⟩
    · simp [freshNode] at hcm
    · rcases memch i n c hcm with hold | ⟨e, _⟩
      · exact h.tree.lt i n hn c hold
      · rw [e]; exact Root.lt_size_of_get? hn
  · -- cbound
    intro i n' hn' c hcm
    rw [hsz]
    rcases back i n' hn' with ⟨_, rfl⟩ | ⟨hi, n, hn, rfl⟩
    · simp [freshNode] at hcm
    · rcases memch i n c hcm with hold | ⟨e, _⟩
      · exact Nat.lt_succ_of_lt (h.cbound i n hn c hold)
      · rw [e]; exact Nat.lt_succ_self _
  · -- plt
    intro j m' p hm' hp
    rcases back j m' hm' with ⟨hj, rfl⟩ | ⟨hj, m, hm, rfl⟩
    · rw [hj]; exact h.cur p (by simpa [freshNode] using hp)
    · exact h.plt j m p hm (by simpa [addChild] using hp)
  · -- node
    intro i n' hn'
    rw [hsz]
    rcases back i n' hn' with ⟨_, rfl⟩ | ⟨hi, n, hn, rfl⟩
    · exact ⟨fun _ => rfl, by simp [freshNode], by simp [freshNode]⟩
    · have w := (h.node i n hn).mono (Nat.le_succ _)
      exact ⟨w.run, w.cleanups, w.callback⟩
  · intro c hc'; rw [hsz]; exact Nat.lt_succ_of_lt (h.cur c (hcur ▸ hc'))
  · -- listed
    intro j m' p np' hm' hp hnp'
    rcases back j m' hm' with ⟨hj, rfl⟩ | ⟨hj, m, hm, rfl⟩
    · have hp' : r.current = some p := by simpa [freshNode] using hp
      rcases back p np' hnp' with ⟨hps, _⟩ | ⟨_, np, hnp, rfl⟩
      · exact absurd (hps ▸ hp') hcurne
      · left; simp [addChild, hp', hj]
    · have hp' : m.parent = some p := by simpa [addChild] using hp
      rcases back p np' hnp' with ⟨hps, _⟩ | ⟨_, np, hnp, rfl⟩
      · have q1 := h.plt j m p hm hp'
        have q2 := Root.lt_size_of_get? hm
        rw [hps] at q1
        exact absurd q1 (Nat.lt_asymm q2)
      · rcases h.listed j m p np hm hp' hnp with hl | hP
        · left; simp only [addChild]; split
          · exact List.mem_append_left _ hl
          · exact hl
        · exact .inr hP
  · -- Grows
    refine ⟨by rw [hsz]; exact Nat.le_succ _, ?_, ?_⟩
    · intro j hj hd
      rw [hget, if_neg (Nat.ne_of_lt hj), hd]; rfl
    · intro j n n' hn hv hn'
      rw [fwd j n hn] at hn'; cases hn'; exact hv

/-- the first step of `disposeChildren`: the children are detached (and become exempt from `listed`) -/
theorem RInvP.detach {P : Id → Prop} {r : Root} {id : Id} {n : Node} (h : RInvP P r)
    (hn : r.get? id = some n) :
    RInvP (fun j => P j ∨ j ∈ n.children) (r.setNode id { n with cleanups := [], children := [] }) ∧
    Grows r (r.setNode id { n with cleanups := [], children := [] }) := by
  obtain ⟨hget, hsh, ⟨hnd', hsym', htree'⟩, _, _⟩ :=
    children_state (ra := r.setNode id { n with cleanups := [], children := [] }) ⟨h.nd, h.sym, h.tree⟩ hn rfl
  obtain ⟨s1, _, s3, _⟩ := SameFrame.setNode r id { n with cleanups := [], children := [] }
  refine ⟨⟨hnd', hsym', htree', ?_, ?_, ?_, ?_, ?_⟩, Grows.setNode _ hn fun x => x⟩
  · intro i n' hn' c hc
    rw [hget] at hn'
    split at hn'
    · cases hn'; simp at hc
    · rw [s1]; exact h.cbound i n' hn' c hc
  · intro j m' p hm' hp
    rw [hget] at hm'
    split at hm'
    · rename_i hj; cases hm'; subst hj; exact h.plt j n p hn hp
    · exact h.plt j m' p hm' hp
  · intro i n' hn'
    rw [hget] at hn'
    rw [s1]
    split at hn'
    · cases hn'
      have w := h.node id n hn
      exact ⟨w.run, by simp, w.callback⟩
    · exact h.node i n' hn'
  · intro c hc; rw [s1]; exact h.cur c (s3 ▸ hc)
  · intro j m' p np' hm' hp hnp'
    have hm : ∃ m, r.get? j = some m ∧ m.parent = some p := by
      rw [hget] at hm'
      split at hm'
      · rename_i hj; cases hm'; subst hj; exact ⟨n, hn, hp⟩
      · exact ⟨m', hm', hp⟩
    obtain ⟨m, hm, hp0⟩ := hm
    rw [hget] at hnp'
    split at hnp'
    · rename_i hpid
      subst hpid
      rcases h.listed j m p n hm hp0 hn with hl | hP
      · exact .inr (.inr hl)
      · exact .inr (.inl hP)
    · exact (h.listed j m p np' hm hp0 hnp').imp (fun x => x) .inl

/-- the unlink phase of `run_node_update` -/
theorem RInvP.unlink {P : Id → Prop} {r r2 : Root} {cur : Id} {n : Node} (h : RInvP P r)
    (hn : r.get? cur = some n)
    (hu : unlink cur (r.setNode cur { n with dependencies := [] }) n.dependencies = .ok r2) :
    RInvP P r2 ∧ Grows r r2 ∧ r2.nodes.size = r.nodes.size ∧ r2.current = r.current ∧
    r2.tracker = r.tracker ∧ r2.get? cur = some (unlinked cur cur n) := by
  obtain ⟨r2', hu', hget, _, _, hnd', hsym', ⟨s1, s2, s3, _⟩⟩ := unlink_spec h.nd h.sym hn
  rw [hu] at hu'; cases hu'
  refine ⟨h.transfer s1 (fun c hc => h.cur c (s3 ▸ hc)) ?_ ?_ hnd' hsym', Grows.pointwise s1 ?_ ?_, s1, s3, s2, ?_⟩
  · intro j hj; rw [hget, hj]; rfl
  · intro j m hm
    refine ⟨unlinked cur j m, by rw [hget, hm]; rfl, rfl, rfl, ?_⟩
    have w := h.node j m hm
    refine ⟨fun hv => ?_, w.cleanups, w.callback⟩
    simp only [unlinked]; split
    · rfl
    · exact w.run hv
  · intro j hj; rw [hget, hj]; rfl
  · intro j m m' hm hm' hv
    rw [hget, hm] at hm'; cases hm'; exact hv
  · rw [hget, hn]; rfl

/-- the end of a run (`createSelector`, `runNodeUpdate`): link the tracked dependencies, then store
value and callback. The node is still marked as running (`value = none`), hence has no edges. -/
theorem RInvP.finish {P : Id → Prop} {r : Root} {deps : List Id} {id : Id} {nd n4 n' : Node}
    (h : RInvP P r) (hd : r.get? id = some nd) (hv : nd.value = none)
    (h4 : (createDependencyLink r deps id).get? id = some n4)
    (e1 : n'.dependents = n4.dependents) (e2 : n'.dependencies = n4.dependencies)
    (e3 : n'.children = n4.children) (e4 : n'.parent = n4.parent) (e5 : n'.cleanups = n4.cleanups)
    (e6 : n'.value ≠ none) (e7 : ∀ eq cl, n'.callback = some (eq, cl) → EnvLt r.nodes.size cl.env) :
    RInvP P ((createDependencyLink r deps id).setNode id n') ∧
    ((createDependencyLink r deps id).setNode id n').nodes.size = r.nodes.size ∧
    (∀ j, r.get? j = none → ((createDependencyLink r deps id).setNode id n').get? j = none) ∧
    (∀ j, j ≠ id → ∀ m m', r.get? j = some m →
      ((createDependencyLink r deps id).setNode id n').get? j = some m' → m'.value = m.value) ∧
    ((createDependencyLink r deps id).setNode id n').get? id = some n' := by
  have wd := h.node id nd hd
  have hfresh : ∀ j nj, r.get? j = some nj → id ∉ nj.dependents := by
    intro j nj hj
    rw [← List.count_eq_zero, h.sym j id nj nd hj hd, wd.run hv]; rfl
  obtain ⟨hget, _, _, hnd4, hsym4, ⟨s1, _, s3, _⟩⟩ :=
    createDependencyLink_spec h.nd h.sym hd (wd.run hv) hfresh deps
  generalize createDependencyLink r deps id = r4 at *
  have hp := setNode_sameEdges_preserves h4 e1 e2
  obtain ⟨t1, _, t3, _⟩ := SameFrame.setNode r4 id n'
  have hlt : id < r4.nodes.size := Root.lt_size_of_get? h4
  have hn4 : n4 = linked (deps.filter r.alive) id id nd := by
    rw [hget, hd] at h4; cases h4; rfl
  have hgetS : ∀ j, (r4.setNode id n').get? j = if j = id then some n' else (r.get? j).map (linked (deps.filter r.alive) id j) := by
    intro j
    rw [Root.get?_setNode, hget]
    by_cases hj : j = id <;> simp [hj, hlt]
  refine ⟨h.transfer (t1.trans s1) (fun c hc => h.cur c (s3 ▸ t3 ▸ hc)) ?_ ?_ (hp.1 hnd4) (hp.2 hsym4),
    t1.trans s1, ?_, ?_, by rw [hgetS]; simp⟩
  · intro j hj
    have : j ≠ id := by rintro rfl; rw [hd] at hj; cases hj
    rw [hgetS, if_neg this, hj]; rfl
  · intro j m hm
    by_cases hj : j = id
    · subst hj
      rw [hd] at hm; cases hm
      refine ⟨n', by rw [hgetS]; simp, by rw [e3, hn4]; rfl, by rw [e4, hn4]; rfl, ?_⟩
      exact ⟨fun hv' => absurd hv' e6, by rw [e5, hn4]; exact wd.cleanups, e7⟩
    · refine ⟨linked (deps.filter r.alive) id j m, by rw [hgetS, if_neg hj, hm]; rfl, rfl, rfl, ?_⟩
      have w := h.node j m hm
      exact ⟨fun hv' => by simp only [linked, if_neg hj]; exact w.run hv', w.cleanups, w.callback⟩
  · intro j hj
    have : j ≠ id := by rintro rfl; rw [hd] at hj; cases hj
    rw [hgetS, if_neg this, hj]; rfl
  · intro j hj m m' hm hm'
    rw [hgetS, if_neg hj, hm] at hm'; cases hm'; rfl

/-- `markDependentsDirty` -/
theorem RInvP.markDirty {P : Id → Prop} {r : Root} (h : RInvP P r) (cur : Id) :
    RInvP P (markDependentsDirty r cur) ∧ Grows r (markDependentsDirty r cur) := by
  obtain ⟨hget, _, _, ⟨s1, _, s3, _⟩⟩ := markDependentsDirty_frame r cur
  refine h.flags s1 s3 ?_ ?_
  · intro j hj; obtain ⟨b, hb⟩ := hget j; rw [hb, hj]; rfl
  · intro j m hm
    obtain ⟨b, hb⟩ := hget j
    exact ⟨{ m with dirty := m.dirty || b }, by rw [hb, hm]; rfl, rfl, rfl, rfl, rfl, rfl, rfl, rfl⟩

/-- `dfs` -/
theorem RInvP.dfs {P : Id → Prop} {fuel : Nat} {r r' : Root} {buf buf' : List Id} {s : Id} (h : RInvP P r)
    (hx : dfs fuel r buf s = some (r', buf')) : RInvP P r' ∧ Grows r r' := by
  obtain ⟨hsz, hnode, ⟨_, hcur, _⟩, _⟩ := dfs_frame hx
  refine h.flags hsz hcur ?_ ?_
  · intro j hj
    have := hnode j; rw [hj] at this
    exact sameButMark_none_right.1 this
  · intro j m hm
    have := hnode j; rw [hm] at this
    obtain ⟨m', hm', e⟩ := sameButMark_some_right.1 this
    have := sameButMark_some_iff.1 (show SameButMark (some m') (some m) from congrArg some e)
    obtain ⟨a1, a2, a3, a4, a5, a6, a7, _⟩ := this
    exact ⟨m', hm', a1, a2, a3, a4, a5, a6, a7⟩

/-- `visitStarts`: the first loop of `propagate_node_updates` -/
theorem RInvP.visitStarts {P : Id → Prop} (ss : List Id) {r r' : Root} {buf buf' : List Id}
    (h : RInvP P r) (hx : visitStarts r buf ss = .ok (r', buf')) : RInvP P r' ∧ Grows r r' := by
  induction ss generalizing r buf with
  | nil =>
    simp only [Reactive.visitStarts, Except.ok.injEq, Prod.mk.injEq] at hx
    obtain ⟨rfl, _⟩ := hx
    exact ⟨h, Grows.refl _⟩
  | cons s ss ih =>
    simp only [Reactive.visitStarts] at hx
    split at hx
    · cases hx
    · rename_i r1 buf1 h1
      obtain ⟨i1, g1⟩ := h.dfs h1
      obtain ⟨i2, g2⟩ := i1.markDirty s
      obtain ⟨i3, g3⟩ := ih i2 hx
      exact ⟨i3, (g1.trans g2).trans g3⟩

/-- `resetMarks`: between the two loops of `propagate_node_updates` -/
theorem RInvP.resetMarks {P : Id → Prop} (ss : List Id) {r : Root} (h : RInvP P r) :
    RInvP P (resetMarks r ss) ∧ Grows r (resetMarks r ss) := by
  induction ss generalizing r with
  | nil => exact ⟨h, Grows.refl _⟩
  | cons s ss ih =>
    simp only [Reactive.resetMarks]
    split
    · exact ih h
    · rename_i n hn
      have w := h.node s n hn
      have i1 := h.setNode (n' := { n with mark := .none }) hn rfl rfl rfl rfl ⟨w.run, w.cleanups, w.callback⟩
      have g1 : Grows r (r.setNode s { n with mark := .none }) := Grows.setNode _ hn fun x => x
      obtain ⟨i2, g2⟩ := ih i1
      exact ⟨i2, g1.trans g2⟩

/-- `track` -/
theorem track_nodes (r : Root) (id : Id) : (track r id).nodes = r.nodes ∧ (track r id).current = r.current := by
  unfold track; split <;> exact ⟨rfl, rfl⟩

theorem trackAll_nodes (c : Ctx) (l : List Nat) {r r' : Root} (hx : trackAll c r l = .ok r') :
    r'.nodes = r.nodes ∧ r'.current = r.current := by
  induction l generalizing r with
  | nil => simp only [trackAll, Except.ok.injEq] at hx; subst hx; exact ⟨rfl, rfl⟩
  | cons x l ih =>
    simp only [trackAll] at hx
    split at hx
    · cases hx
    · split at hx
      · cases hx
      · obtain ⟨a, b⟩ := ih hx
        obtain ⟨a', b'⟩ := track_nodes r _
        exact ⟨a.trans a', b.trans b'⟩

/-- a transformation that only touches `tracker`, `queue`, `batching`, `trace`, `nextTag` -/
theorem RInvP.same {P : Id → Prop} {r r' : Root} (h : RInvP P r) (hn : r'.nodes = r.nodes)
    (hc : r'.current = r.current) : RInvP P r' ∧ Grows r r' :=
  ⟨h.congr hn fun c hc' => h.cur c (hc ▸ hc'), Grows.of_nodes_eq hn⟩

/-- `setSilent` -/
theorem RInvP.setSilent {P : Id → Prop} {r r' : Root} {id : Id} {v : Int} (h : RInvP P r)
    (hx : setSilent r id v = .ok r') : RInvP P r' ∧ Grows r r' := by
  obtain ⟨n, hn, hv, rfl⟩ := setSilent_ok hx
  have w := h.node id n hn
  refine ⟨h.setNode hn rfl rfl rfl rfl ⟨fun hv' => by simp at hv', w.cleanups, w.callback⟩,
    Grows.setNode _ hn fun hv' => ?_⟩
  rw [hv'] at hv; cases hv

/-- `provideContext` -/
theorem RInvP.provideContext {P : Id → Prop} {r r' : Root} {ty : Nat} {v : Int} (h : RInvP P r)
    (hx : provideContext r ty v = .ok r') : RInvP P r' ∧ Grows r r' := by
  unfold Reactive.provideContext at hx
  split at hx
  · cases hx
  · split at hx
    · cases hx
    · rename_i cur _ _ n hn
      split at hx
      · cases hx
      · cases hx
        have w := h.node cur n hn
        exact ⟨h.setNode hn rfl rfl rfl rfl ⟨w.run, w.cleanups, w.callback⟩, Grows.setNode _ hn fun x => x⟩

theorem Root.get?_setNode_self {r : Root} {id : Id} {n : Node} (hn : r.get? id = some n) (n' : Node) :
    (r.setNode id n').get? id = some n' := by
  rw [Root.get?_setNode]; simp [Root.lt_size_of_get? hn]

theorem EnvLt.snoc {k : Nat} {env : List Handle} (h : EnvLt k env) {id : Id} (hid : id < k) (kd : Kind) :
    EnvLt k (env ++ [⟨id, kd⟩]) := by
  intro hd hm
  simp only [List.mem_append, List.mem_singleton] at hm
  rcases hm with hm | rfl
  · exact h hd hm
  · exact hid

/-- the end of a run, live case: `RInvP.finish` plus the two-state facts from the start `r0` of the
enclosing function (at which `id` was not running) -/
theorem finish_alive {P : Id → Prop} {r0 r : Root} {deps : List Id} {id : Id} {nd n4 n' : Node}
    (h : RInvP P r) (g : Grows r0 r) (hid : ∀ n, r0.get? id = some n → n.value ≠ none)
    (hd : r.get? id = some nd) (hv : nd.value = none)
    (h4 : (createDependencyLink r deps id).get? id = some n4)
    (e1 : n'.dependents = n4.dependents) (e2 : n'.dependencies = n4.dependencies)
    (e3 : n'.children = n4.children) (e4 : n'.parent = n4.parent) (e5 : n'.cleanups = n4.cleanups)
    (e6 : n'.value ≠ none) (e7 : ∀ eq cl, n'.callback = some (eq, cl) → EnvLt r.nodes.size cl.env) :
    RInvP P ((createDependencyLink r deps id).setNode id n') ∧
    Grows r0 ((createDependencyLink r deps id).setNode id n') ∧
    ((createDependencyLink r deps id).setNode id n').nodes.size = r.nodes.size := by
  obtain ⟨a, b, c, d, _⟩ := h.finish hd hv h4 e1 e2 e3 e4 e5 e6 e7
  refine ⟨a, g.trans_except hid b c ?_, b⟩
  intro j hj m m' hm hm' hmv
  rw [d j hj m m' hm hm']; exact hmv

/-- `createDependencyLink` on a live dependent keeps it alive -/
theorem createDependencyLink_alive {r : Root} {deps : List Id} {id : Id} {nd : Node} (hd : r.get? id = some nd) :
    (createDependencyLink r deps id).get? id = some (linked (deps.filter r.alive) id id nd) := by
  rw [createDependencyLink_get? deps (Root.alive_iff.2 ⟨nd, hd⟩), hd]; rfl

/-! ### 4. the statements -/

/-- post-condition of the interpreter functions -/
abbrev StmtPost (P : Id → Prop) (r r' : Root) (c' : Ctx) : Prop :=
  RInvP P r' ∧ Grows r r' ∧ EnvLt r'.nodes.size c'.env

/-- post-condition of the other functions -/
abbrev RootPost (P : Id → Prop) (r r' : Root) : Prop := RInvP P r' ∧ Grows r r'

/-- one preservation statement per function of the mutual block, at fuel `f` -/
structure PresAll (f : Nat) : Prop where
  body : ∀ (P : Id → Prop) r c b r' c', RInvP P r → EnvLt r.nodes.size c.env →
    execBody f r c b = .ok (r', c') → StmtPost P r r' c'
  inner : ∀ (P : Id → Prop) r c b r' c', RInvP P r → EnvLt r.nodes.size c.env →
    execInner f r c b = .ok (r', c') → StmtPost P r r' c'
  stmt : ∀ (P : Id → Prop) r c s r' c', RInvP P r → EnvLt r.nodes.size c.env →
    execStmt f r c s = .ok (r', c') → StmtPost P r r' c'
  closure : ∀ (P : Id → Prop) r cl r' v obs, RInvP P r → EnvLt r.nodes.size cl.env →
    runClosure f r cl = .ok (r', v, obs) → RootPost P r r'
  selector : ∀ (P : Id → Prop) r eq cl r' id, RInvP P r → EnvLt r.nodes.size cl.env →
    createSelector f r eq cl = .ok (r', id) → RootPost P r r' ∧ id < r'.nodes.size
  update : ∀ (P : Id → Prop) r cur r', RInvP P r → runNodeUpdate f r cur = .ok r' → RootPost P r r'
  loop : ∀ (P : Id → Prop) r l r', RInvP P r → propagateLoop f r l = .ok r' → RootPost P r r'
  nodeUpdates : ∀ (P : Id → Prop) r l r', RInvP P r → propagateNodeUpdates f r l = .ok r' → RootPost P r r'
  updates : ∀ (P : Id → Prop) r s r', RInvP P r → propagateUpdates f r s = .ok r' → RootPost P r r'
  dnode : ∀ (P : Id → Prop) r id r', RInvP P r → disposeNode f r id = .ok r' →
    RootPost P r r' ∧ r'.get? id = none
  dchildren : ∀ (P : Id → Prop) r id r', RInvP P r → disposeChildren f r id = .ok r' → RootPost P r r'
  /-- the loop of `disposeNode` (D23): an iteration of `disposeChildren` -/
  rest : ∀ (P : Id → Prop) r id r', RInvP P r → disposeRest f r id = .ok r' → RootPost P r r'
  cleanups : ∀ (P : Id → Prop) r cls r', RInvP P r → (∀ cl ∈ cls, EnvLt r.nodes.size cl.env) →
    runCleanups f r cls = .ok r' → RootPost P r r'
  dlist : ∀ (P : Id → Prop) r cs r', RInvP P r → disposeList f r cs = .ok r' →
    RootPost P r r' ∧ ∀ c ∈ cs, c < r.nodes.size → r'.get? c = none

theorem presAll_zero : PresAll 0 := by
  constructor <;> intros <;> simp_all [execBody, execInner, execStmt, runClosure, createSelector,
    runNodeUpdate, propagateLoop, propagateNodeUpdates, propagateUpdates, disposeNode, disposeChildren,
    disposeRest, runCleanups, disposeList]

/-! ### 5. the easy cases -/

theorem pres_body {f : Nat} (ih : PresAll f) (P : Id → Prop) (r : Root) (c : Ctx) (b : Body) (r' : Root)
    (c' : Ctx) (hI : RInvP P r) (hE : EnvLt r.nodes.size c.env)
    (hx : execBody (f + 1) r c b = .ok (r', c')) : StmtPost P r r' c' := by
  cases b with
  | nil =>
    simp only [execBody, Except.ok.injEq, Prod.mk.injEq] at hx
    obtain ⟨rfl, rfl⟩ := hx
    exact ⟨hI, Grows.refl _, hE⟩
  | cons s rest =>
    simp only [execBody] at hx
    split at hx
    · cases hx
    · rename_i r1 c1 h1
      obtain ⟨i1, g1, e1⟩ := ih.stmt P r c s r1 c1 hI hE h1
      obtain ⟨i2, g2, e2⟩ := ih.body P r1 c1 rest r' c' i1 e1 hx
      exact ⟨i2, g1.trans g2, e2⟩

theorem pres_inner {f : Nat} (ih : PresAll f) (P : Id → Prop) (r : Root) (c : Ctx) (b : Body) (r' : Root)
    (c' : Ctx) (hI : RInvP P r) (hE : EnvLt r.nodes.size c.env)
    (hx : execInner (f + 1) r c b = .ok (r', c')) : StmtPost P r r' c' := by
  simp only [execInner] at hx
  split at hx
  · cases hx
  · rename_i r1 c1 h1
    simp only [Except.ok.injEq, Prod.mk.injEq] at hx
    obtain ⟨rfl, rfl⟩ := hx
    obtain ⟨i1, g1, _⟩ := ih.body P r c b r1 c1 hI hE h1
    exact ⟨i1, g1, hE.mono g1.size⟩

theorem pres_closure {f : Nat} (ih : PresAll f) (P : Id → Prop) (r : Root) (cl : Closure) (r' : Root)
    (v : Int) (obs : List Obs) (hI : RInvP P r) (hE : EnvLt r.nodes.size cl.env)
    (hx : runClosure (f + 1) r cl = .ok (r', v, obs)) : RootPost P r r' := by
  simp only [runClosure] at hx
  split at hx
  · cases hx
  · rename_i r1 c1 h1
    simp only [Except.ok.injEq, Prod.mk.injEq] at hx
    obtain ⟨rfl, _, _⟩ := hx
    obtain ⟨i1, g1, _⟩ := ih.body P r ⟨cl.env, 0, []⟩ cl.body r1 c1 hI hE h1
    exact ⟨i1, g1⟩

theorem pres_cleanups {f : Nat} (ih : PresAll f) (P : Id → Prop) (r : Root) (cls : List Closure) (r' : Root)
    (hI : RInvP P r) (hE : ∀ cl ∈ cls, EnvLt r.nodes.size cl.env)
    (hx : runCleanups (f + 1) r cls = .ok r') : RootPost P r r' := by
  cases cls with
  | nil =>
    simp only [runCleanups, Except.ok.injEq] at hx
    subst hx; exact ⟨hI, Grows.refl _⟩
  | cons cl cls =>
    simp only [runCleanups] at hx
    split at hx
    · cases hx
    · rename_i r1 v obs h1
      obtain ⟨i1, g1⟩ := ih.closure P r cl r1 v obs hI (hE cl (by simp)) h1
      obtain ⟨i2, g2⟩ := i1.same (r' := { r1 with trace := r1.trace ++ [.cleanup cl.tag obs] }) rfl rfl
      obtain ⟨i3, g3⟩ := ih.cleanups P _ cls r' i2
        (fun cl' hc => (hE cl' (by simp [hc])).mono g1.size) hx
      exact ⟨i3, (g1.trans g2).trans g3⟩

theorem pres_dlist {f : Nat} (ih : PresAll f) (P : Id → Prop) (r : Root) (cs : List Id) (r' : Root)
    (hI : RInvP P r) (hx : disposeList (f + 1) r cs = .ok r') :
    RootPost P r r' ∧ ∀ c ∈ cs, c < r.nodes.size → r'.get? c = none := by
  cases cs with
  | nil =>
    simp only [disposeList, Except.ok.injEq] at hx
    subst hx; exact ⟨⟨hI, Grows.refl _⟩, by simp⟩
  | cons c cs =>
    simp only [disposeList] at hx
    split at hx
    · cases hx
    · rename_i r1 h1
      obtain ⟨⟨i1, g1⟩, d1⟩ := ih.dnode P r c r1 hI h1
      obtain ⟨⟨i2, g2⟩, d2⟩ := ih.dlist P r1 cs r' i1 hx
      refine ⟨⟨i2, g1.trans g2⟩, ?_⟩
      intro x hxm hlt
      simp only [List.mem_cons] at hxm
      rcases hxm with rfl | hxm
      · exact g2.dead x (Nat.lt_of_lt_of_le hlt g1.size) d1
      · exact d2 x hxm (Nat.lt_of_lt_of_le hlt g1.size)

theorem pres_dnode {f : Nat} (ih : PresAll f) (P : Id → Prop) (r : Root) (id : Id) (r' : Root)
    (hI : RInvP P r) (hx : disposeNode (f + 1) r id = .ok r') :
    RootPost P r r' ∧ r'.get? id = none := by
  simp only [disposeNode] at hx
  split at hx
  · cases hx
  · rename_i r1 h1
    split at hx
    · cases hx
    · rename_i r1' h1'
      simp only [Except.ok.injEq] at hx
      subst hx
      obtain ⟨i0, g0⟩ := hI.unsubscribe id
      obtain ⟨i1, g1⟩ := ih.dchildren P (unsubscribe r id) id r1 i0 h1
      obtain ⟨i1', g1'⟩ := ih.rest P r1 id r1' i1 h1'
      obtain ⟨i2, g2, d2⟩ := i1'.removeNode id
      exact ⟨⟨i2, ((g0.trans g1).trans g1').trans g2⟩, d2⟩

theorem pres_rest {f : Nat} (ih : PresAll f) (P : Id → Prop) (r : Root) (id : Id) (r' : Root)
    (hI : RInvP P r) (hx : disposeRest (f + 1) r id = .ok r') : RootPost P r r' := by
  simp only [disposeRest] at hx
  split at hx
  · simp only [Except.ok.injEq] at hx
    subst hx; exact ⟨hI, Grows.refl _⟩
  · split at hx
    · simp only [Except.ok.injEq] at hx
      subst hx; exact ⟨hI, Grows.refl _⟩
    · split at hx
      · cases hx
      · rename_i r1 h1
        obtain ⟨i1, g1⟩ := ih.dchildren P r id r1 hI h1
        obtain ⟨i2, g2⟩ := ih.rest P r1 id r' i1 hx
        exact ⟨i2, g1.trans g2⟩

theorem pres_loop {f : Nat} (ih : PresAll f) (P : Id → Prop) (r : Root) (l : List Id) (r' : Root)
    (hI : RInvP P r) (hx : propagateLoop (f + 1) r l = .ok r') : RootPost P r r' := by
  cases l with
  | nil =>
    simp only [propagateLoop, Except.ok.injEq] at hx
    subst hx; exact ⟨hI, Grows.refl _⟩
  | cons node rest =>
    simp only [propagateLoop] at hx
    split at hx
    · exact ih.loop P r rest r' hI hx
    · rename_i n hn
      have w := hI.node node n hn
      have i1 := hI.setNode (n' := { n with mark := .none }) hn rfl rfl rfl rfl ⟨w.run, w.cleanups, w.callback⟩
      have g1 : Grows r (r.setNode node { n with mark := .none }) := Grows.setNode _ hn fun x => x
      split at hx
      · split at hx
        · cases hx
        · rename_i r2 h2
          obtain ⟨i2, g2⟩ := ih.update P _ node r2 i1 h2
          obtain ⟨i3, g3⟩ := ih.loop P r2 rest r' i2 hx
          exact ⟨i3, (g1.trans g2).trans g3⟩
      · obtain ⟨i3, g3⟩ := ih.loop P _ rest r' i1 hx
        exact ⟨i3, g1.trans g3⟩

theorem pres_nodeUpdates {f : Nat} (ih : PresAll f) (P : Id → Prop) (r : Root) (l : List Id) (r' : Root)
    (hI : RInvP P r) (hx : propagateNodeUpdates (f + 1) r l = .ok r') : RootPost P r r' := by
  simp only [propagateNodeUpdates] at hx
  split at hx
  · cases hx
  · rename_i r1 buf h1
    obtain ⟨i1, g1⟩ := hI.visitStarts l h1
    obtain ⟨i1', g1'⟩ := i1.resetMarks l
    obtain ⟨i2, g2⟩ := ih.loop P _ buf.reverse r' i1' hx
    exact ⟨i2, (g1.trans g1').trans g2⟩

theorem pres_updates {f : Nat} (ih : PresAll f) (P : Id → Prop) (r : Root) (s : Id) (r' : Root)
    (hI : RInvP P r) (hx : propagateUpdates (f + 1) r s = .ok r') : RootPost P r r' := by
  simp only [propagateUpdates] at hx
  split at hx
  · simp only [Except.ok.injEq] at hx
    subst hx
    exact hI.same rfl rfl
  · exact ih.nodeUpdates P r [s] r' hI hx

/-! ### 6. `disposeChildren`, `createSelector`, `runNodeUpdate` -/

theorem pres_dchildren {f : Nat} (ih : PresAll f) (P : Id → Prop) (r : Root) (id : Id) (r' : Root)
    (hI : RInvP P r) (hx : disposeChildren (f + 1) r id = .ok r') : RootPost P r r' := by
  simp only [disposeChildren] at hx
  split at hx
  · simp only [Except.ok.injEq] at hx
    subst hx; exact ⟨hI, Grows.refl _⟩
  · rename_i n hn
    split at hx
    · cases hx
    · rename_i r2 h2
      split at hx
      · cases hx
      · rename_i r3 h3
        simp only [Except.ok.injEq] at hx
        subst hx
        -- detach the children
        obtain ⟨ia, ga⟩ := hI.detach hn
        obtain ⟨s1, _, _⟩ := SameFrame.setNode r id { n with cleanups := [], children := [] }
        obtain ⟨ib, gb⟩ := ia.same
          (r' := { (r.setNode id { n with cleanups := [], children := [] }) with tracker := none }) rfl rfl
        -- the cleanups
        obtain ⟨i2, g2⟩ := ih.cleanups _ _ n.cleanups r2 ib
          (fun cl hc => by
            have := (hI.node id n hn).cleanups cl hc
            exact this.mono (by show r.nodes.size ≤ (r.setNode id _).nodes.size; rw [s1]; exact Nat.le_refl _)) h2
        obtain ⟨ic, gc⟩ := i2.same
          (r' := { r2 with tracker := (r.setNode id { n with cleanups := [], children := [] }).tracker }) rfl rfl
        -- the children
        obtain ⟨⟨i3, g3⟩, d3⟩ := ih.dlist _ _ n.children r3 ic h3
        have gall : Grows r r3 := (((ga.trans gb).trans g2).trans gc).trans g3
        have i3' : RInvP P r3 := by
          refine i3.weaken ?_
          intro j ha hP
          rcases hP with hP | hm
          · exact hP
          · have hlt : j < r.nodes.size := hI.cbound id n hn j hm
            have : r3.get? j = none := d3 j hm (Nat.lt_of_lt_of_le hlt (((ga.trans gb).trans g2).trans gc).size)
            simp [Root.alive, this] at ha
        -- clear the context
        cases h3id : r3.get? id with
        | none =>
          have : r3.modify id (fun n => { n with context := [] }) = r3 := by simp [Root.modify, h3id]
          rw [this]; exact ⟨i3', gall⟩
        | some n3 =>
          have : r3.modify id (fun n => { n with context := [] }) = r3.setNode id { n3 with context := [] } := by
            simp [Root.modify, h3id]
          rw [this]
          have w := i3'.node id n3 h3id
          exact ⟨i3'.setNode h3id rfl rfl rfl rfl ⟨w.run, w.cleanups, w.callback⟩,
            gall.trans (Grows.setNode _ h3id fun x => x)⟩

theorem pres_selector {f : Nat} (ih : PresAll f) (P : Id → Prop) (r : Root) (eq : EqKind) (cl : Closure)
    (r' : Root) (id : Id) (hI : RInvP P r) (hE : EnvLt r.nodes.size cl.env)
    (hx : createSelector (f + 1) r eq cl = .ok (r', id)) : RootPost P r r' ∧ id < r'.nodes.size := by
  simp only [createSelector] at hx
  split at hx
  · cases hx
  · rename_i r1 id1 h1
    obtain ⟨i1, g1, hid, hsz1, hcur1, htr1, n1, hn1, hv1, hd1⟩ := hI.createNode h1
    have hid1 : id1 < r1.nodes.size := by rw [hsz1, hid]; exact Nat.lt_succ_self _
    split at hx
    · cases hx
    · rename_i r2 v obs h2
      have ia : RInvP P { r1 with current := some id1, tracker := some [] } :=
        i1.congr rfl (by intro c hc; simp only [Option.some.injEq] at hc; subst hc; exact hid1)
      obtain ⟨i2, g2⟩ := ih.closure P _ cl r2 v obs ia (hE.mono g1.size) h2
      -- restore tracker / current, extend the trace
      generalize hr3 : ({ r2 with tracker := r1.tracker, current := r1.current, trace := r2.trace ++ [Event.run id1 obs v] } : Root) = r3 at hx
      have hn3 : r3.nodes = r2.nodes := by subst hr3; rfl
      have hc3 : r3.current = r1.current := by subst hr3; rfl
      have i3 : RInvP P r3 := i2.congr hn3 (by
        intro c hc; rw [hc3] at hc; exact Nat.lt_of_lt_of_le (i1.cur c hc) g2.size)
      have g2' : Grows r1 r2 := ⟨g2.size, g2.dead, g2.run⟩
      have g3 : Grows r r3 := (g1.trans g2').trans (Grows.of_nodes_eq hn3)
      have hsz3 : r1.nodes.size ≤ r3.nodes.size := by rw [hn3]; exact g2.size
      have hdead0 : ∀ n, r.get? id1 = some n → n.value ≠ none := by
        intro n hn
        rw [hid, Root.get?_eq_none_of_size_le (Nat.le_refl _)] at hn; cases hn
      cases hd3 : r3.get? id1 with
      | none =>
        rw [createDependencyLink_dead _ hd3, hd3] at hx
        simp only [Except.ok.injEq, Prod.mk.injEq] at hx
        obtain ⟨rfl, rfl⟩ := hx
        exact ⟨⟨i3, g3⟩, Nat.lt_of_lt_of_le hid1 hsz3⟩
      | some nd =>
        have hv3 : nd.value = none := by
          have hg : r3.get? id1 = r2.get? id1 := Root.get?_congr_nodes hn3 id1
          rw [hg] at hd3
          exact g2.run id1 n1 nd hn1 hv1 hd3
        have h4 := createDependencyLink_alive (deps := r2.tracker.getD []) hd3
        rw [h4] at hx
        simp only [Except.ok.injEq, Prod.mk.injEq] at hx
        obtain ⟨rfl, rfl⟩ := hx
        obtain ⟨a, b, c⟩ := finish_alive (n' := { linked ((r2.tracker.getD []).filter r3.alive) id1 id1 nd with
            value := some v, callback := some (eq, cl) }) i3 g3 hdead0 hd3 hv3 h4 rfl rfl rfl rfl rfl (by simp)
          (by
            intro eq' cl' he
            simp only [Option.some.injEq, Prod.mk.injEq] at he
            obtain ⟨_, rfl⟩ := he
            exact hE.mono g3.size)
        exact ⟨⟨a, b⟩, by rw [c]; exact Nat.lt_of_lt_of_le hid1 hsz3⟩

theorem pres_update {f : Nat} (ih : PresAll f) (P : Id → Prop) (r : Root) (cur : Id) (r' : Root)
    (hI : RInvP P r) (hx : runNodeUpdate (f + 1) r cur = .ok r') : RootPost P r r' := by
  simp only [runNodeUpdate] at hx
  split at hx
  · cases hx
  · rename_i n hn
    split at hx
    · cases hx
    · rename_i r2 h2
      obtain ⟨i2, g2, hsz2, _, _, hn2⟩ := hI.unlink hn h2
      rw [hn2] at hx
      simp only at hx
      split at hx
      · cases hx
      · cases hx
      · rename_i eq cl old hcb hval
        have w2 := i2.node cur _ hn2
        have hEcl : EnvLt r2.nodes.size cl.env := w2.callback eq cl hcb
        -- take value and callback out
        generalize hr3 : r2.setNode cur _ = r3 at hx
        have i3 : RInvP P r3 := by
          subst hr3
          exact i2.setNode hn2 rfl rfl rfl rfl ⟨fun _ => by simp [unlinked], w2.cleanups, by simp⟩
        have g3 : Grows r2 r3 := by subst hr3; exact Grows.setNode _ hn2 fun _ => rfl
        have hn3 : ∃ n3, r3.get? cur = some n3 ∧ n3.value = none := by
          subst hr3
          exact ⟨_, Root.get?_setNode_self hn2 _, rfl⟩
        obtain ⟨n3, hn3, hv3⟩ := hn3
        split at hx
        · cases hx
        · rename_i r4 h4
          obtain ⟨i4, g4⟩ := ih.dchildren P r3 cur r4 i3 h4
          -- repair D22: a cleanup disposed the node itself, the update stops here
          split at hx
          · simp only [Except.ok.injEq] at hx
            subst hx
            exact ⟨i4, (g2.trans g3).trans g4⟩
          split at hx
          · cases hx
          · rename_i r5 new obs h5
            have hcur4 : cur < r4.nodes.size :=
              Nat.lt_of_lt_of_le (Root.lt_size_of_get? hn3) g4.size
            have ia : RInvP P { r4 with current := some cur, tracker := some [] } :=
              i4.congr rfl (by intro c hc; simp only [Option.some.injEq] at hc; subst hc; exact hcur4)
            obtain ⟨i5, g5⟩ := ih.closure P _ cl r5 new obs ia
              (hEcl.mono (Nat.le_trans g3.size g4.size)) h5
            have g5' : Grows r4 r5 := ⟨g5.size, g5.dead, g5.run⟩
            generalize hr6 : ({ r5 with tracker := r4.tracker, current := r4.current, trace := r5.trace ++ [Event.run cur obs new] } : Root) = r6 at hx
            have hn6 : r6.nodes = r5.nodes := by subst hr6; rfl
            have hc6 : r6.current = r4.current := by subst hr6; rfl
            have i6 : RInvP P r6 := i5.congr hn6 (by
              intro c hc; rw [hc6] at hc; exact Nat.lt_of_lt_of_le (i4.cur c hc) g5.size)
            have g36 : Grows r3 r6 := (g4.trans g5').trans (Grows.of_nodes_eq hn6)
            have g6 : Grows r r6 := (g2.trans g3).trans g36
            have hnotrun : ∀ m, r.get? cur = some m → m.value ≠ none := by
              intro m hm hmv
              rw [hn] at hm; cases hm
              have : (unlinked cur cur n).value = some old := hval
              simp [unlinked, hmv] at this
            cases hd6 : r6.get? cur with
            | none =>
              rw [createDependencyLink_dead _ hd6, hd6] at hx
              simp only [Except.ok.injEq] at hx
              subst hx
              exact ⟨i6, g6⟩
            | some nd =>
              have hv6 : nd.value = none := g36.run cur n3 nd hn3 hv3 hd6
              have h7 := createDependencyLink_alive (deps := r5.tracker.getD []) hd6
              rw [h7] at hx
              simp only [Except.ok.injEq] at hx
              have key := fun vv : Int => finish_alive (n' := { linked ((r5.tracker.getD []).filter r6.alive) cur cur nd with
                  callback := some (eq, cl), value := some vv, dirty := false })
                i6 g6 hnotrun hd6 hv6 h7 rfl rfl rfl rfl rfl (by simp)
                (by
                  intro eq' cl' he
                  simp only [Option.some.injEq, Prod.mk.injEq] at he
                  obtain ⟨_, rfl⟩ := he
                  exact hEcl.mono (Nat.le_trans g3.size g36.size))
              split at hx
              · subst hx
                obtain ⟨a, b, _⟩ := key new
                obtain ⟨a', b'⟩ := a.markDirty cur
                exact ⟨a', b.trans b'⟩
              · subst hx
                obtain ⟨a, b, _⟩ := key old
                exact ⟨a, b⟩

/-! ### 7. `execStmt`, statement by statement -/

set_option linter.unusedSectionVars false

section stmts
variable {f : Nat} (ih : PresAll f) {P : Id → Prop} {r r' : Root} {c c' : Ctx}
  (hI : RInvP P r) (hE : EnvLt r.nodes.size c.env)
include ih hI hE

theorem pres_read {h : Nat} (hx : execStmt (f + 1) r c (.read h) = .ok (r', c')) : StmtPost P r r' c' := by
  simp only [execStmt] at hx
  split at hx
  · cases hx
  · split at hx
    · cases hx
    · split at hx
      · cases hx
      · simp only [Except.ok.injEq, Prod.mk.injEq] at hx
        obtain ⟨rfl, rfl⟩ := hx
        obtain ⟨a, b⟩ := track_nodes r ‹Handle›.id
        obtain ⟨i, g⟩ := hI.same a b
        exact ⟨i, g, hE.mono g.size⟩

theorem pres_readU {h : Nat} (hx : execStmt (f + 1) r c (.readU h) = .ok (r', c')) : StmtPost P r r' c' := by
  simp only [execStmt] at hx
  split at hx
  · cases hx
  · split at hx
    · cases hx
    · split at hx
      · cases hx
      · simp only [Except.ok.injEq, Prod.mk.injEq] at hx
        obtain ⟨rfl, rfl⟩ := hx
        exact ⟨hI, Grows.refl _, hE⟩

theorem pres_track {h : Nat} (hx : execStmt (f + 1) r c (.track h) = .ok (r', c')) : StmtPost P r r' c' := by
  simp only [execStmt] at hx
  split at hx
  · cases hx
  · split at hx
    · cases hx
    · simp only [Except.ok.injEq, Prod.mk.injEq] at hx
      obtain ⟨rfl, rfl⟩ := hx
      obtain ⟨a, b⟩ := track_nodes r ‹Handle›.id
      obtain ⟨i, g⟩ := hI.same a b
      exact ⟨i, g, hE.mono g.size⟩

theorem pres_ifpos {h : Nat} {t e : Body} (hx : execStmt (f + 1) r c (.ifpos h t e) = .ok (r', c')) :
    StmtPost P r r' c' := by
  simp only [execStmt] at hx
  split at hx
  · cases hx
  · rename_i hd _
    split at hx
    · cases hx
    · split at hx
      · cases hx
      · rename_i v _
        obtain ⟨a, b⟩ := track_nodes r hd.id
        obtain ⟨i, g⟩ := hI.same a b
        have hE1 : EnvLt (track r hd.id).nodes.size c.env := hE.mono g.size
        split at hx
        · obtain ⟨i2, g2, e2⟩ := ih.inner P _ { c with acc := mix c.acc v, obs := c.obs ++ [.read hd.id v] } t r' c' i hE1 hx
          exact ⟨i2, g.trans g2, e2⟩
        · obtain ⟨i2, g2, e2⟩ := ih.inner P _ { c with acc := mix c.acc v, obs := c.obs ++ [.read hd.id v] } e r' c' i hE1 hx
          exact ⟨i2, g.trans g2, e2⟩

/-- `untrack`, `component`, and the second half of `on`: run a block with the tracker switched off -/
theorem pres_untracked {b : Body} {prev : Option (List Id)}
    (hx : (match execInner f { r with tracker := none } c b with
      | .error e => .error e
      | .ok (r, c) => .ok ({ r with tracker := prev }, c)) = (.ok (r', c') : Except Panic (Root × Ctx))) :
    StmtPost P r r' c' := by
  split at hx
  · cases hx
  · rename_i r1 c1 h1
    simp only [Except.ok.injEq, Prod.mk.injEq] at hx
    obtain ⟨rfl, rfl⟩ := hx
    obtain ⟨i0, g0⟩ := hI.same (r' := { r with tracker := none }) rfl rfl
    obtain ⟨i1, g1, e1⟩ := ih.inner P _ c b r1 c1 i0 hE h1
    obtain ⟨i2, g2⟩ := i1.same (r' := { r1 with tracker := prev }) rfl rfl
    exact ⟨i2, (g0.trans g1).trans g2, e1⟩

theorem pres_untrack {b : Body} (hx : execStmt (f + 1) r c (.untrack b) = .ok (r', c')) :
    StmtPost P r r' c' := by
  simp only [execStmt] at hx
  exact pres_untracked ih hI hE hx

theorem pres_component {b : Body} (hx : execStmt (f + 1) r c (.component b) = .ok (r', c')) :
    StmtPost P r r' c' := by
  simp only [execStmt] at hx
  exact pres_untracked ih hI hE hx

theorem pres_on {deps : List Nat} {b : Body} (hx : execStmt (f + 1) r c (.on deps b) = .ok (r', c')) :
    StmtPost P r r' c' := by
  simp only [execStmt] at hx
  split at hx
  · cases hx
  · rename_i r1 h1
    obtain ⟨a, b'⟩ := trackAll_nodes c deps h1
    obtain ⟨i1, g1⟩ := hI.same a b'
    obtain ⟨i2, g2, e2⟩ := pres_untracked ih i1 (hE.mono g1.size) hx
    exact ⟨i2, g1.trans g2, e2⟩

theorem pres_signal {v : Int} (hx : execStmt (f + 1) r c (.signal v) = .ok (r', c')) :
    StmtPost P r r' c' := by
  simp only [execStmt] at hx
  split at hx
  · cases hx
  · rename_i r1 id h1
    simp only [Except.ok.injEq, Prod.mk.injEq] at hx
    obtain ⟨rfl, rfl⟩ := hx
    obtain ⟨i1, g1, hid, hsz1, _⟩ := hI.createNode h1
    exact ⟨i1, g1, (hE.mono g1.size).snoc (by rw [hsz1, hid]; exact Nat.lt_succ_self _) _⟩

/-- `memo`, `selector`, `effect` -/
theorem pres_created {eq : EqKind} {b : Body} {kd : Kind}
    (hx : (match createSelector f r eq ⟨b, c.env, 0⟩ with
      | .error e => .error e
      | .ok (r, id) => .ok (r, { c with env := c.env ++ [⟨id, kd⟩] })) = (.ok (r', c') : Except Panic (Root × Ctx))) :
    StmtPost P r r' c' := by
  split at hx
  · cases hx
  · rename_i r1 id h1
    simp only [Except.ok.injEq, Prod.mk.injEq] at hx
    obtain ⟨rfl, rfl⟩ := hx
    obtain ⟨⟨i1, g1⟩, hid⟩ := ih.selector P r eq ⟨b, c.env, 0⟩ r1 id hI hE h1
    exact ⟨i1, g1, (hE.mono g1.size).snoc hid _⟩

theorem pres_memo {b : Body} (hx : execStmt (f + 1) r c (.memo b) = .ok (r', c')) : StmtPost P r r' c' := by
  simp only [execStmt] at hx
  exact pres_created ih hI hE hx

theorem pres_selectorStmt {eq : EqKind} {b : Body} (hx : execStmt (f + 1) r c (.selector eq b) = .ok (r', c')) :
    StmtPost P r r' c' := by
  simp only [execStmt] at hx
  exact pres_created ih hI hE hx

theorem pres_effect {b : Body} (hx : execStmt (f + 1) r c (.effect b) = .ok (r', c')) : StmtPost P r r' c' := by
  simp only [execStmt] at hx
  exact pres_created ih hI hE hx

theorem pres_scope {b : Body} (hx : execStmt (f + 1) r c (.scope b) = .ok (r', c')) : StmtPost P r r' c' := by
  simp only [execStmt] at hx
  split at hx
  · cases hx
  · rename_i r1 id h1
    obtain ⟨i1, g1, hid, hsz1, _⟩ := hI.createNode h1
    have hid1 : id < r1.nodes.size := by rw [hsz1, hid]; exact Nat.lt_succ_self _
    split at hx
    · cases hx
    · rename_i r2 c2 h2
      simp only [Except.ok.injEq, Prod.mk.injEq] at hx
      obtain ⟨rfl, rfl⟩ := hx
      have ia : RInvP P { r1 with current := some id } :=
        i1.congr rfl (by intro x hc; simp only [Option.some.injEq] at hc; subst hc; exact hid1)
      obtain ⟨i2, g2, e2⟩ := ih.inner P _ c b r2 c2 ia (hE.mono g1.size) h2
      have g2' : Grows r1 r2 := ⟨g2.size, g2.dead, g2.run⟩
      have i3 : RInvP P { r2 with current := r1.current } :=
        i2.congr rfl (fun x hc => Nat.lt_of_lt_of_le (i1.cur x hc) g2.size)
      exact ⟨i3, (g1.trans g2').trans (Grows.of_nodes_eq rfl), e2.snoc (Nat.lt_of_lt_of_le hid1 g2.size) _⟩

theorem pres_set {h : Nat} {e : Ex} (hx : execStmt (f + 1) r c (.set h e) = .ok (r', c')) :
    StmtPost P r r' c' := by
  simp only [execStmt] at hx
  split at hx
  · cases hx
  · split at hx
    · cases hx
    · split at hx
      · cases hx
      · rename_i r1 h1
        split at hx
        · cases hx
        · rename_i r2 h2
          simp only [Except.ok.injEq, Prod.mk.injEq] at hx
          obtain ⟨rfl, rfl⟩ := hx
          obtain ⟨i1, g1⟩ := hI.setSilent h1
          obtain ⟨i2, g2⟩ := ih.updates P r1 _ r2 i1 h2
          exact ⟨i2, g1.trans g2, hE.mono (g1.trans g2).size⟩

theorem pres_setSilentStmt {h : Nat} {e : Ex} (hx : execStmt (f + 1) r c (.setSilent h e) = .ok (r', c')) :
    StmtPost P r r' c' := by
  simp only [execStmt] at hx
  split at hx
  · cases hx
  · split at hx
    · cases hx
    · split at hx
      · cases hx
      · rename_i r1 h1
        simp only [Except.ok.injEq, Prod.mk.injEq] at hx
        obtain ⟨rfl, rfl⟩ := hx
        obtain ⟨i1, g1⟩ := hI.setSilent h1
        exact ⟨i1, g1, hE.mono g1.size⟩

theorem pres_cleanupStmt {b : Body} (hx : execStmt (f + 1) r c (.cleanup b) = .ok (r', c')) :
    StmtPost P r r' c' := by
  simp only [execStmt] at hx
  split at hx
  · simp only [Except.ok.injEq, Prod.mk.injEq] at hx
    obtain ⟨rfl, rfl⟩ := hx
    exact ⟨hI, Grows.refl _, hE⟩
  · rename_i cur _
    split at hx
    · cases hx
    · rename_i n hn
      simp only [Except.ok.injEq, Prod.mk.injEq] at hx
      obtain ⟨rfl, rfl⟩ := hx
      have w := hI.node cur n hn
      have i1 := hI.setNode (n' := { n with cleanups := n.cleanups ++ [⟨b, c.env, r.nextTag⟩] }) hn rfl rfl rfl rfl
        ⟨w.run, by
          intro cl hc
          simp only [List.mem_append, List.mem_singleton] at hc
          rcases hc with hc | rfl
          · exact w.cleanups cl hc
          · exact hE, w.callback⟩
      have g1 : Grows r (r.setNode cur { n with cleanups := n.cleanups ++ [⟨b, c.env, r.nextTag⟩] }) :=
        Grows.setNode _ hn fun x => x
      obtain ⟨i2, g2⟩ := i1.same
        (r' := { (r.setNode cur { n with cleanups := n.cleanups ++ [⟨b, c.env, r.nextTag⟩] }) with nextTag := r.nextTag + 1 }) rfl rfl
      exact ⟨i2, g1.trans g2, hE.mono (g1.trans g2).size⟩

theorem pres_dispose {h : Nat} (hx : execStmt (f + 1) r c (.dispose h) = .ok (r', c')) :
    StmtPost P r r' c' := by
  simp only [execStmt] at hx
  split at hx
  · cases hx
  · split at hx
    · cases hx
    · rename_i r1 h1
      simp only [Except.ok.injEq, Prod.mk.injEq] at hx
      obtain ⟨rfl, rfl⟩ := hx
      obtain ⟨⟨i1, g1⟩, _⟩ := ih.dnode P r _ r1 hI h1
      exact ⟨i1, g1, hE.mono g1.size⟩

theorem pres_disposeCur (hx : execStmt (f + 1) r c .disposeCur = .ok (r', c')) : StmtPost P r r' c' := by
  simp only [execStmt] at hx
  split at hx
  · simp only [Except.ok.injEq, Prod.mk.injEq] at hx
    obtain ⟨rfl, rfl⟩ := hx
    exact ⟨hI, Grows.refl _, hE⟩
  · split at hx
    · cases hx
    · rename_i r1 h1
      simp only [Except.ok.injEq, Prod.mk.injEq] at hx
      obtain ⟨rfl, rfl⟩ := hx
      obtain ⟨⟨i1, g1⟩, _⟩ := ih.dnode P r _ r1 hI h1
      exact ⟨i1, g1, hE.mono g1.size⟩

theorem pres_batch {b : Body} (hx : execStmt (f + 1) r c (.batch b) = .ok (r', c')) : StmtPost P r r' c' := by
  simp only [execStmt] at hx
  split at hx
  · cases hx
  · rename_i r1 c1 h1
    obtain ⟨i0, g0⟩ := hI.same (r' := { r with batching := true }) rfl rfl
    obtain ⟨i1, g1, e1⟩ := ih.inner P _ c b r1 c1 i0 hE h1
    split at hx
    · simp only [Except.ok.injEq, Prod.mk.injEq] at hx
      obtain ⟨rfl, rfl⟩ := hx
      exact ⟨i1, g0.trans g1, e1⟩
    · split at hx
      · cases hx
      · rename_i r2 h2
        simp only [Except.ok.injEq, Prod.mk.injEq] at hx
        obtain ⟨rfl, rfl⟩ := hx
        obtain ⟨i1', g1'⟩ := i1.same (r' := { r1 with batching := false, queue := [] }) rfl rfl
        obtain ⟨i2, g2⟩ := ih.nodeUpdates P _ r1.queue r2 i1' h2
        exact ⟨i2, ((g0.trans g1).trans g1').trans g2, e1.mono (g1'.trans g2).size⟩

theorem pres_provide {ty : Nat} {e : Ex} (hx : execStmt (f + 1) r c (.provide ty e) = .ok (r', c')) :
    StmtPost P r r' c' := by
  simp only [execStmt] at hx
  split at hx
  · cases hx
  · rename_i r1 h1
    simp only [Except.ok.injEq, Prod.mk.injEq] at hx
    obtain ⟨rfl, rfl⟩ := hx
    obtain ⟨i1, g1⟩ := hI.provideContext h1
    exact ⟨i1, g1, hE.mono g1.size⟩

theorem pres_use {ty : Nat} (hx : execStmt (f + 1) r c (.use ty) = .ok (r', c')) : StmtPost P r r' c' := by
  simp only [execStmt] at hx
  split at hx
  · cases hx
  · simp only [Except.ok.injEq, Prod.mk.injEq] at hx
    obtain ⟨rfl, rfl⟩ := hx
    exact ⟨hI, Grows.refl _, hE⟩

theorem pres_runIn {h : Nat} {b : Body} (hx : execStmt (f + 1) r c (.runIn h b) = .ok (r', c')) :
    StmtPost P r r' c' := by
  simp only [execStmt] at hx
  split at hx
  · cases hx
  · rename_i hd hl
    split at hx
    · cases hx
    · rename_i r1 c1 h1
      simp only [Except.ok.injEq, Prod.mk.injEq] at hx
      obtain ⟨rfl, rfl⟩ := hx
      have ia : RInvP P { r with current := some hd.id } :=
        hI.congr rfl (by intro x hc; simp only [Option.some.injEq] at hc; subst hc; exact hE hd (lookup_ok hl).2)
      obtain ⟨i1, g1, e1⟩ := ih.inner P _ c b r1 c1 ia hE h1
      have g1' : Grows r r1 := ⟨g1.size, g1.dead, g1.run⟩
      have i2 : RInvP P { r1 with current := r.current } :=
        i1.congr rfl (fun x hc => Nat.lt_of_lt_of_le (hI.cur x hc) g1.size)
      exact ⟨i2, g1'.trans (Grows.of_nodes_eq rfl), e1⟩

end stmts

theorem pres_stmt {f : Nat} (ih : PresAll f) (P : Id → Prop) (r : Root) (c : Ctx) (s : Stmt) (r' : Root)
    (c' : Ctx) (hI : RInvP P r) (hE : EnvLt r.nodes.size c.env)
    (hx : execStmt (f + 1) r c s = .ok (r', c')) : StmtPost P r r' c' := by
  cases s with
  | read h => exact pres_read ih hI hE hx
  | readU h => exact pres_readU ih hI hE hx
  | track h => exact pres_track ih hI hE hx
  | ifpos h t e => exact pres_ifpos ih hI hE hx
  | untrack b => exact pres_untrack ih hI hE hx
  | component b => exact pres_component ih hI hE hx
  | on deps b => exact pres_on ih hI hE hx
  | signal v => exact pres_signal ih hI hE hx
  | memo b => exact pres_memo ih hI hE hx
  | selector eq b => exact pres_selectorStmt ih hI hE hx
  | effect b => exact pres_effect ih hI hE hx
  | scope b => exact pres_scope ih hI hE hx
  | set h e => exact pres_set ih hI hE hx
  | setSilent h e => exact pres_setSilentStmt ih hI hE hx
  | cleanup b => exact pres_cleanupStmt ih hI hE hx
  | dispose h => exact pres_dispose ih hI hE hx
  | disposeCur => exact pres_disposeCur ih hI hE hx
  | batch b => exact pres_batch ih hI hE hx
  | provide ty e => exact pres_provide ih hI hE hx
  | use ty => exact pres_use ih hI hE hx
  | runIn h b => exact pres_runIn ih hI hE hx

/-! ### 8. the induction -/

theorem presAll : ∀ f, PresAll f
  | 0 => presAll_zero
  | f + 1 =>
    have ih := presAll f
    { body := pres_body ih, inner := pres_inner ih, stmt := pres_stmt ih, closure := pres_closure ih,
      selector := pres_selector ih, update := pres_update ih, loop := pres_loop ih,
      nodeUpdates := pres_nodeUpdates ih, updates := pres_updates ih, dnode := pres_dnode ih,
      dchildren := pres_dchildren ih, rest := pres_rest ih, cleanups := pres_cleanups ih,
      dlist := pres_dlist ih }

/-! ### 9. the initial state, top-level programs -/

theorem init_get? {j : Id} {n : Node} (h : Root.init.get? j = some n) :
    j = 0 ∧ n = freshNode (some 0) none := by
  have hj := Root.lt_size_of_get? h
  have : j = 0 := by simp [Root.init] at hj; exact hj
  subst this
  simp [Root.init, Root.get?] at h
  exact ⟨rfl, h.symm⟩

theorem rinv_init : RInv Root.init := by
  refine ⟨?_, ?_, ⟨?_, ?_, ?_⟩, ?_, ?_, ?_, ?_, ?_⟩
  · intro i n hn; obtain ⟨_, rfl⟩ := init_get? hn; simp [freshNode]
  · intro a b na nb ha hb; obtain ⟨_, rfl⟩ := init_get? ha; obtain ⟨_, rfl⟩ := init_get? hb; rfl
  · intro i n hn c hc; obtain ⟨_, rfl⟩ := init_get? hn; simp [freshNode] at hc
  · intro i n hn; obtain ⟨_, rfl⟩ := init_get? hn; simp [freshNode]
  · intro i n hn c hc; obtain ⟨_, rfl⟩ := init_get? hn; simp [freshNode] at hc
  · intro i n hn c hc; obtain ⟨_, rfl⟩ := init_get? hn; simp [freshNode] at hc
  · intro j m p hm hp; obtain ⟨_, rfl⟩ := init_get? hm; simp [freshNode] at hp
  · intro i n hn; obtain ⟨_, rfl⟩ := init_get? hn
    exact ⟨by simp [freshNode], by simp [freshNode], by simp [freshNode]⟩
  · intro c hc; simp [Root.init] at hc; subst hc; simp [Root.init]
  · intro j m p np hm hp; obtain ⟨_, rfl⟩ := init_get? hm; simp [freshNode] at hp

/-- a sequence of top-level operations (the driver loop) -/
theorem runOps_pres (fuel : Nat) : ∀ (ops : List Stmt) (r : Root) (env : List Handle) (r' : Root)
    (env' : List Handle), RInv r → EnvLt r.nodes.size env → runOps fuel ops r env = .ok (r', env') →
    RInv r' ∧ Grows r r' ∧ EnvLt r'.nodes.size env'
  | [], r, env, r', env', hI, hE, hx => by
    simp only [runOps, Except.ok.injEq, Prod.mk.injEq] at hx
    obtain ⟨rfl, rfl⟩ := hx
    exact ⟨hI, Grows.refl _, hE⟩
  | s :: rest, r, env, r', env', hI, hE, hx => by
    simp only [runOps] at hx
    split at hx
    · cases hx
    · rename_i r1 c1 h1
      obtain ⟨i1, g1, e1⟩ := (presAll fuel).stmt _ r ⟨env, 0, []⟩ s r1 c1 hI hE h1
      obtain ⟨i2, g2, e2⟩ := runOps_pres fuel rest r1 c1.env r' env' i1 e1 hx
      exact ⟨i2, g1.trans g2, e2⟩

/-- the readable part of the invariant -/
theorem RInv.ownershipOk {r : Root} (h : RInv r) : OwnershipOk r :=
  { h.tree with listed := fun j m p np hm hp hnp => (h.listed j m p np hm hp hnp).elim (fun x => x) False.elim }

/-! ## Part II (C11): no `Option::unwrap()` on `None`

`runNodeUpdate` is the only function of the model that can fail with `Panic.unwrapNone` (the two
`unwrap()`s of `run_node_update` on `callback` and `value`).  It never does: on states that satisfy
`RInvP` and the clauses `XInv` below, no function of the mutual block returns `.error .unwrapNone`,
and `XInv` is preserved.  The extra clauses say that signals/scopes (no callback) are never dirty and
have no dependencies, that a computation at rest has a value, and that the batch queue is only used
inside a batch and only holds nodes that have a value (i.e. that are not running). -/

/-- per-node clauses -/
structure XNode (n : Node) : Prop where
  /-- a signal or scope is never dirty -/
  a : n.callback = none → n.value ≠ none → n.dirty = false
  /-- only computations have dependencies -/
  b : n.callback = none → n.dependencies = []
  /-- a computation at rest has a value (`callback` and `value` are taken out together) -/
  c : n.callback ≠ none → n.value ≠ none

structure XInv (r : Root) : Prop where
  node : ∀ i n, r.get? i = some n → XNode n
  /-- the queue is only used inside a batch -/
  q1 : r.batching = false → r.queue = []
  /-- queued nodes are not running -/
  q2 : ∀ q ∈ r.queue, ∀ n, r.get? q = some n → n.value ≠ none
  q3 : ∀ q ∈ r.queue, q < r.nodes.size

/-- two-state facts: the batch flag is restored; a node that is not running is not running
afterwards -/
def Keep (r r' : Root) : Prop :=
  ∀ j n n', r.get? j = some n → n.value ≠ none → r'.get? j = some n' → n'.value ≠ none

structure XStep (r r' : Root) : Prop where
  batching : r'.batching = r.batching
  keep : Keep r r'

/-- the arena keeps its size, queue and batch flag, and every surviving node keeps its value -/
structure SameVals (r r' : Root) : Prop where
  size : r'.nodes.size = r.nodes.size
  queue : r'.queue = r.queue
  batching : r'.batching = r.batching
  back : ∀ j m', r'.get? j = some m' → ∃ m, r.get? j = some m ∧ m'.value = m.value

/-- the result is not the panic `unwrapNone`, and satisfies `post` if it is a value -/
abbrev Safe {α : Type} (x : Except Panic α) (post : α → Prop) : Prop :=
  match x with
  | .ok a => post a
  | .error e => e ≠ .unwrapNone

abbrev XPost (r r' : Root) : Prop := XInv r' ∧ XStep r r'

theorem Safe.mono {α : Type} {x : Except Panic α} {p q : α → Prop} (h : Safe x p)
    (hpq : ∀ a, x = .ok a → p a → q a) : Safe x q := by
  cases x with
  | error e => exact h
  | ok a => exact hpq a rfl h

theorem XStep.refl (r : Root) : XStep r r :=
  ⟨rfl, fun j n n' h hv h' => by rw [h] at h'; cases h'; exact hv⟩

theorem Keep.trans {a b c : Root} (h1 : Keep a b) (g1 : Grows a b) (g2 : Grows b c) (h2 : Keep b c) :
    Keep a c := by
  intro j n n' hn hv hn'
  cases hb : b.get? j with
  | none =>
    have := g2.dead j (Nat.lt_of_lt_of_le (Root.lt_size_of_get? hn) g1.size) hb
    rw [this] at hn'; cases hn'
  | some nb => exact h2 j nb n' hb (h1 j n nb hn hv hb) hn'

theorem XStep.trans {a b c : Root} (h1 : XStep a b) (g1 : Grows a b) (g2 : Grows b c) (h2 : XStep b c) :
    XStep a c :=
  ⟨h2.batching.trans h1.batching, h1.keep.trans g1 g2 h2.keep⟩

theorem XPost.trans {a b c : Root} (h1 : XPost a b) (g1 : Grows a b) (g2 : Grows b c) (h2 : XPost b c) :
    XPost a c := ⟨h2.1, h1.2.trans g1 g2 h2.2⟩

theorem SameVals.refl (r : Root) : SameVals r r := ⟨rfl, rfl, rfl, fun _ m h => ⟨m, h, rfl⟩⟩

theorem SameVals.trans {a b c : Root} (h1 : SameVals a b) (h2 : SameVals b c) : SameVals a c := by
  refine ⟨h2.size.trans h1.size, h2.queue.trans h1.queue, h2.batching.trans h1.batching, ?_⟩
  intro j m' hm'
  obtain ⟨m1, hm1, e1⟩ := h2.back j m' hm'
  obtain ⟨m0, hm0, e0⟩ := h1.back j m1 hm1
  exact ⟨m0, hm0, e1.trans e0⟩

theorem SameVals.xstep {r r' : Root} (h : SameVals r r') : XStep r r' := by
  refine ⟨h.batching, ?_⟩
  intro j n n' hn hv hn'
  obtain ⟨m, hm, e⟩ := h.back j n' hn'
  rw [hn] at hm; cases hm; rw [e]; exact hv

/-! ### errors of the functions without user code -/

theorem lookup_safe {c : Ctx} {h : Nat} {e : Panic} (hx : lookup c h = .error e) : e ≠ .unwrapNone := by
  unfold lookup at hx
  split at hx <;> (cases hx <;> (intro h; cases h))

theorem createNode_safe {r : Root} {v : Option Int} {e : Panic} (hx : createNode r v = .error e) :
    e ≠ .unwrapNone := by
  rw [createNode_eq] at hx
  split at hx
  · cases hx
  · split at hx <;> (cases hx <;> (intro h; cases h))

theorem getUntracked_safe {r : Root} {id : Id} {e : Panic} (hx : getUntracked r id = .error e) :
    e ≠ .unwrapNone := by
  unfold getUntracked at hx
  split at hx
  · cases hx; intro h; cases h
  · split at hx <;> (cases hx <;> (intro h; cases h))

theorem setSilent_safe {r : Root} {id : Id} {v : Int} {e : Panic} (hx : setSilent r id v = .error e) :
    e ≠ .unwrapNone := by
  unfold setSilent at hx
  split at hx
  · cases hx; intro h; cases h
  · split at hx <;> (cases hx <;> (intro h; cases h))

theorem provideContext_safe {r : Root} {ty : Nat} {v : Int} {e : Panic}
    (hx : provideContext r ty v = .error e) : e ≠ .unwrapNone := by
  unfold provideContext at hx
  split at hx
  · cases hx; intro h; cases h
  · split at hx
    · cases hx; intro h; cases h
    · split at hx <;> (cases hx <;> (intro h; cases h))

theorem ctxWalk_safe : ∀ (fuel : Nat) (r : Root) (n : Node) (ty : Nat) (e : Panic),
    ctxWalk fuel r n ty = .error e → e ≠ .unwrapNone
  | 0, _, _, _, e, hx => by simp only [ctxWalk] at hx; cases hx; intro h; cases h
  | fuel + 1, r, n, ty, e, hx => by
    simp only [ctxWalk] at hx
    split at hx
    · cases hx
    · split at hx
      · cases hx
      · split at hx
        · cases hx; intro h; cases h
        · exact ctxWalk_safe fuel r _ ty e hx

theorem tryUseContext_safe {r : Root} {ty : Nat} {e : Panic} (hx : tryUseContext r ty = .error e) :
    e ≠ .unwrapNone := by
  unfold tryUseContext at hx
  split at hx
  · cases hx; intro h; cases h
  · split at hx
    · cases hx; intro h; cases h
    · exact ctxWalk_safe _ _ _ _ _ hx

theorem trackAll_safe (c : Ctx) (l : List Nat) {r : Root} {e : Panic} (hx : trackAll c r l = .error e) :
    e ≠ .unwrapNone := by
  induction l generalizing r with
  | nil => simp only [trackAll] at hx; cases hx
  | cons x l ih =>
    simp only [trackAll] at hx
    split at hx
    · rename_i e' he; cases hx; exact lookup_safe he
    · split at hx
      · cases hx; intro h; cases h
      · exact ih hx

theorem visitStarts_safe (ss : List Id) {r : Root} {buf : List Id} {e : Panic}
    (hx : visitStarts r buf ss = .error e) : e ≠ .unwrapNone := by
  induction ss generalizing r buf with
  | nil => simp only [visitStarts] at hx; cases hx
  | cons s ss ih =>
    simp only [visitStarts] at hx
    split at hx
    · cases hx; intro h; cases h
    · exact ih hx

/-! ### `XInv` under the arena transformers -/

theorem XInv.same {r r' : Root} (h : XInv r) (hn : r'.nodes = r.nodes) (hq : r'.queue = r.queue)
    (hb : r'.batching = r.batching) : XInv r' ∧ XStep r r' ∧ SameVals r r' := by
  have hg := Root.get?_congr_nodes hn
  have sv : SameVals r r' := ⟨by rw [hn], hq, hb, fun j m' hm' => ⟨m', by rw [← hg]; exact hm', rfl⟩⟩
  refine ⟨⟨?_, ?_, ?_, ?_⟩, sv.xstep, sv⟩
  · intro i n hi; rw [hg] at hi; exact h.node i n hi
  · intro hb'; rw [hq]; exact h.q1 (hb ▸ hb')
  · intro q hq' n hn'; rw [hg] at hn'; rw [hq] at hq'; exact h.q2 q hq' n hn'
  · intro q hq'; rw [hq] at hq'; rw [hn]; exact h.q3 q hq'

/-- node-wise transformation that keeps sizes, queue, batch flag and all values -/
theorem XInv.pointwise {r r' : Root} (h : XInv r) (hsz : r'.nodes.size = r.nodes.size)
    (hq : r'.queue = r.queue) (hb : r'.batching = r.batching)
    (hback : ∀ j m', r'.get? j = some m' → ∃ m, r.get? j = some m ∧ m'.value = m.value ∧ (XNode m → XNode m')) :
    XInv r' ∧ XStep r r' ∧ SameVals r r' := by
  have sv : SameVals r r' := ⟨hsz, hq, hb, fun j m' hm' => by
    obtain ⟨m, hm, e, _⟩ := hback j m' hm'; exact ⟨m, hm, e⟩⟩
  refine ⟨⟨?_, ?_, ?_, ?_⟩, sv.xstep, sv⟩
  · intro i n' hi
    obtain ⟨m, hm, _, hx⟩ := hback i n' hi
    exact hx (h.node i m hm)
  · intro hb'; rw [hq]; exact h.q1 (hb ▸ hb')
  · intro q hq' n' hn'
    obtain ⟨m, hm, e, _⟩ := hback q n' hn'
    rw [hq] at hq'; rw [e]; exact h.q2 q hq' m hm
  · intro q hq'; rw [hq] at hq'; rw [hsz]; exact h.q3 q hq'

theorem XInv.setNode {r : Root} {id : Id} {n n' : Node} (h : XInv r) (hn : r.get? id = some n)
    (hv : n'.value = n.value) (hx : XNode n → XNode n') :
    XInv (r.setNode id n') ∧ XStep r (r.setNode id n') ∧ SameVals r (r.setNode id n') := by
  obtain ⟨s1, _, _, _, s5, s6, _⟩ := SameFrame.setNode r id n'
  refine h.pointwise s1 s5 s6 ?_
  intro j m' hm'
  rw [Root.get?_setNode] at hm'
  split at hm'
  · rename_i hc; cases hm'; rw [hc.1]; exact ⟨n, hn, hv, hx⟩
  · exact ⟨m', hm', rfl, fun x => x⟩

theorem XInv.removed {r r' : Root} {S : List Id} (h : XInv r) (hrem : Removed r S r')
    (hsz : r'.nodes.size = r.nodes.size) (hq : r'.queue = r.queue) (hb : r'.batching = r.batching) :
    XInv r' ∧ XStep r r' ∧ SameVals r r' := by
  refine h.pointwise hsz hq hb ?_
  intro j m' hm'
  obtain ⟨_, m, hm, rfl⟩ := hrem.get?_some hm'
  refine ⟨m, hm, rfl, fun x => ⟨x.a, fun hc => ?_, x.c⟩⟩
  simp [eraseIds, x.b hc]

theorem XInv.removeNode {P : Id → Prop} {r : Root} (hI : RInvP P r) (h : XInv r) (id : Id) :
    XInv (removeNode r id) ∧ XStep r (removeNode r id) := by
  obtain ⟨_, _, _, _, ⟨s1, _, _, _, s5, s6, _⟩, _⟩ := removeNode_spec hI.nd hI.sym id
  obtain ⟨a, b, _⟩ := h.removed (removeNode_removed hI.nd hI.sym id) s1 s5 s6
  exact ⟨a, b⟩

theorem XInv.unsubscribe {P : Id → Prop} {r : Root} (hI : RInvP P r) (h : XInv r) (id : Id) :
    XInv (unsubscribe r id) ∧ XStep r (unsubscribe r id) ∧ SameVals r (unsubscribe r id) := by
  obtain ⟨hget, _, _, _, ⟨s1, _, _, _, s5, s6, _⟩⟩ := unsubscribe_spec hI.nd hI.sym id
  refine h.pointwise s1 s5 s6 ?_
  intro j m' hm'
  rw [hget, Option.map_eq_some_iff] at hm'
  obtain ⟨m, hm, rfl⟩ := hm'
  refine ⟨m, hm, rfl, fun x => ⟨x.a, fun hc => ?_, x.c⟩⟩
  simp only [unlinked]; split
  · rfl
  · exact x.b hc

theorem XInv.createNode {r r' : Root} {v : Option Int} {id : Id}
    (h : XInv r) (hc : createNode r v = .ok (r', id)) : XInv r' ∧ XStep r r' := by
  obtain ⟨hid, hget, hsz, _, _, _, hq, hb, _⟩ := createNode_get? hc
  subst hid
  have back : ∀ j m', r'.get? j = some m' →
      (j = r.nodes.size ∧ m'.callback = none ∧ m'.dependencies = [] ∧ m'.dirty = false) ∨
      (∃ m, r.get? j = some m ∧ m'.value = m.value ∧ m'.callback = m.callback ∧
        m'.dependencies = m.dependencies ∧ m'.dirty = m.dirty) := by
    intro j m' hm'
    rw [hget] at hm'
    by_cases hj : j = r.nodes.size
    · left
      rw [if_pos hj] at hm'
      simp only [Option.map_some, Option.some.injEq] at hm'
      subst hm'
      exact ⟨hj, rfl, rfl, rfl⟩
    · right
      rw [if_neg hj, Option.map_eq_some_iff] at hm'
      obtain ⟨m, hm, rfl⟩ := hm'
      exact ⟨m, hm, rfl, rfl, rfl, rfl⟩
  refine ⟨⟨?_, ?_, ?_, ?_⟩, hb, ?_⟩
  · intro i n' hi
    rcases back i n' hi with ⟨_, e1, e2, e3⟩ | ⟨m, hm, e1, e2, e3, e4⟩
    · exact ⟨fun _ _ => e3, fun _ => e2, fun hc => absurd e1 hc⟩
    · have x := h.node i m hm
      exact ⟨fun hc hv => by rw [e4]; exact x.a (e2 ▸ hc) (e1 ▸ hv), fun hc => by rw [e3]; exact x.b (e2 ▸ hc),
        fun hc => by rw [e1]; exact x.c (e2 ▸ hc)⟩
  · intro hb'; rw [hq]; exact h.q1 (hb ▸ hb')
  · intro q hq' n' hn'
    rw [hq] at hq'
    rcases back q n' hn' with ⟨e, _⟩ | ⟨m, hm, e1, _⟩
    · exact absurd (h.q3 q hq') (by rw [e]; exact Nat.lt_irrefl _)
    · rw [e1]; exact h.q2 q hq' m hm
  · intro q hq'; rw [hq] at hq'; rw [hsz]; exact Nat.lt_succ_of_lt (h.q3 q hq')
  · intro j n n' hn hv hn'
    rcases back j n' hn' with ⟨e, _⟩ | ⟨m, hm, e1, _⟩
    · exact absurd (Root.lt_size_of_get? hn) (by rw [e]; exact Nat.lt_irrefl _)
    · rw [hn] at hm; cases hm; rw [e1]; exact hv

theorem XInv.unlink {P : Id → Prop} {r r2 : Root} {cur : Id} {n : Node} (hI : RInvP P r) (h : XInv r)
    (hn : r.get? cur = some n)
    (hu : unlink cur (r.setNode cur { n with dependencies := [] }) n.dependencies = .ok r2) :
    XInv r2 ∧ XStep r r2 ∧ SameVals r r2 := by
  obtain ⟨r2', hu', hget, _, _, _, _, ⟨s1, _, _, _, s5, s6, _⟩⟩ := unlink_spec hI.nd hI.sym hn
  rw [hu] at hu'; cases hu'
  refine h.pointwise s1 s5 s6 ?_
  intro j m' hm'
  rw [hget, Option.map_eq_some_iff] at hm'
  obtain ⟨m, hm, rfl⟩ := hm'
  refine ⟨m, hm, rfl, fun x => ⟨x.a, fun hc => ?_, x.c⟩⟩
  simp only [unlinked]; split
  · rfl
  · exact x.b hc

/-- a live node that occurs in some `dependents` list has dependencies, hence a callback and a value -/
def IsDep (r : Root) (i : Id) : Prop := ∃ a n, r.get? a = some n ∧ i ∈ n.dependents

theorem IsDep.facts {P : Id → Prop} {r : Root} {i : Id} (hI : RInvP P r) (hd : IsDep r i) :
    r.alive i = true ∧ ∀ ni, r.get? i = some ni → ni.dependencies ≠ [] ∧ ni.value ≠ none := by
  obtain ⟨a, na, hna, hi⟩ := hd
  refine ⟨(hI.nd a na hna).1 i hi, ?_⟩
  intro ni hni
  have hc : 0 < ni.dependencies.count a := by
    rw [← hI.sym a i na ni hna hni]; exact List.count_pos_iff.2 hi
  have hne : ni.dependencies ≠ [] := by
    intro e; rw [e] at hc; simp at hc
  exact ⟨hne, fun hv => hne ((hI.node i ni hni).run hv)⟩

theorem XInv.markDirty {P : Id → Prop} {r : Root} (hI : RInvP P r) (h : XInv r) (cur : Id) :
    XInv (markDependentsDirty r cur) ∧ XStep r (markDependentsDirty r cur) ∧
    SameVals r (markDependentsDirty r cur) := by
  obtain ⟨_, _, _, ⟨s1, _, _, _, s5, s6, _⟩⟩ := markDependentsDirty_frame r cur
  refine h.pointwise s1 s5 s6 ?_
  intro j m' hm'
  rw [markDependentsDirty_get?, Option.map_eq_some_iff] at hm'
  obtain ⟨m, hm, rfl⟩ := hm'
  refine ⟨m, hm, rfl, fun x => ⟨fun hc hv => ?_, x.b, x.c⟩⟩
  have hd : isDependentOf r cur j = false := by
    cases hdep : isDependentOf r cur j with
    | false => rfl
    | true =>
      exfalso
      unfold isDependentOf at hdep
      split at hdep
      · rename_i nc hnc
        have : IsDep r j := ⟨cur, nc, hnc, by simpa using hdep⟩
        exact (this.facts hI).2 m hm |>.1 (x.b hc)
      · cases hdep
  simp only [hd, Bool.or_false]
  exact x.a hc hv

theorem XInv.dfs {fuel : Nat} {r r' : Root} {buf buf' : List Id} {s : Id} (h : XInv r)
    (hx : dfs fuel r buf s = some (r', buf')) : XInv r' ∧ XStep r r' ∧ SameVals r r' := by
  obtain ⟨hsz, hnode, ⟨_, _, _, hq, hb, _⟩, _⟩ := dfs_frame hx
  refine h.pointwise hsz hq hb ?_
  intro j m' hm'
  have := hnode j; rw [hm'] at this
  obtain ⟨m, hm, e⟩ := sameButMark_some_left.1 this
  have := sameButMark_some_iff.1 (show SameButMark (some m') (some m) from congrArg some e)
  obtain ⟨a1, a2, _, _, _, a6, _, _, a9⟩ := this
  exact ⟨m, hm, a1, fun x => ⟨fun hc hv => by rw [a9]; exact x.a (a2 ▸ hc) (a1 ▸ hv),
    fun hc => by rw [a6]; exact x.b (a2 ▸ hc), fun hc => by rw [a1]; exact x.c (a2 ▸ hc)⟩⟩

theorem XInv.visitStarts {P : Id → Prop} (ss : List Id) {r r' : Root} {buf buf' : List Id}
    (hI : RInvP P r) (h : XInv r) (hx : visitStarts r buf ss = .ok (r', buf')) :
    XInv r' ∧ XStep r r' ∧ SameVals r r' := by
  induction ss generalizing r buf with
  | nil =>
    simp only [Reactive.visitStarts, Except.ok.injEq, Prod.mk.injEq] at hx
    obtain ⟨rfl, _⟩ := hx
    exact ⟨h, XStep.refl _, SameVals.refl _⟩
  | cons s ss ih =>
    simp only [Reactive.visitStarts] at hx
    split at hx
    · cases hx
    · rename_i r1 buf1 h1
      obtain ⟨i1, _⟩ := hI.dfs h1
      obtain ⟨x1, _, v1⟩ := h.dfs h1
      obtain ⟨i2, _⟩ := i1.markDirty s
      obtain ⟨x2, _, v2⟩ := x1.markDirty i1 s
      obtain ⟨x3, _, v3⟩ := ih i2 x2 hx
      have v := (v1.trans v2).trans v3
      exact ⟨x3, v.xstep, v⟩

theorem XInv.resetMarks (ss : List Id) {r : Root} (h : XInv r) :
    XInv (resetMarks r ss) ∧ XStep r (resetMarks r ss) ∧ SameVals r (resetMarks r ss) := by
  induction ss generalizing r with
  | nil => exact ⟨h, XStep.refl _, SameVals.refl _⟩
  | cons s ss ih =>
    simp only [Reactive.resetMarks]
    split
    · exact ih h
    · rename_i n hn
      obtain ⟨x1, _, v1⟩ := h.setNode (n' := { n with mark := .none }) hn rfl
        (fun x => ⟨x.a, x.b, x.c⟩)
      obtain ⟨x2, _, v2⟩ := ih x1
      have v := v1.trans v2
      exact ⟨x2, v.xstep, v⟩

/-! ### what the search pushes -/

theorem IsDep.bwd {r r' : Root} {i : Id} (h : ∀ j, SameButMark (r'.get? j) (r.get? j)) (hd : IsDep r' i) :
    IsDep r i := by
  obtain ⟨a, n', hn', hi⟩ := hd
  have := h a; rw [hn'] at this
  obtain ⟨n, hn, e⟩ := sameButMark_some_left.1 this
  exact ⟨a, n, hn, Node.dependents_of_eraseMark e ▸ hi⟩

theorem dfs_mem_aux : ∀ fuel : Nat,
    (∀ r buf cur r' buf', dfs fuel r buf cur = some (r', buf') →
      ∀ i ∈ buf', i ∈ buf ∨ i = cur ∨ IsDep r i) ∧
    (∀ r buf cs r' buf', dfsList fuel r buf cs = some (r', buf') →
      ∀ i ∈ buf', i ∈ buf ∨ i ∈ cs ∨ IsDep r i) := by
  intro fuel
  induction fuel with
  | zero => exact ⟨fun _ _ _ _ _ h => by simp [dfs] at h, fun _ _ _ _ _ h => by simp [dfsList] at h⟩
  | succ fuel ih =>
    refine ⟨?_, ?_⟩
    · intro r buf cur r' buf' h i hi
      rw [dfs] at h
      split at h
      · cases h; exact .inl hi
      · rename_i n hc
        split at h
        · cases h
        · cases h; exact .inl hi
        · simp only at h
          split at h
          · cases h
          · rename_i r2 buf2 hl
            cases h
            have hF := Frame.setMark hc .temp
            rcases List.mem_append.1 hi with hi | hi
            · rcases ih.2 _ _ _ _ _ hl i hi with hb | hcs | hd
              · exact .inl hb
              · exact .inr (.inr ⟨cur, n, hc, hcs⟩)
              · exact .inr (.inr (hd.bwd hF.node))
            · simp only [List.mem_singleton] at hi; exact .inr (.inl hi)
    · intro r buf cs r' buf' h i hi
      cases cs with
      | nil => rw [dfsList] at h; cases h; exact .inl hi
      | cons c cs =>
        rw [dfsList] at h
        split at h
        · cases h
        · rename_i r1 buf1 h1
          rcases ih.2 _ _ _ _ _ h i hi with hb | hcs | hd
          · rcases ih.1 _ _ _ _ _ h1 i hb with hb | rfl | hd
            · exact .inl hb
            · exact .inr (.inl (by simp))
            · exact .inr (.inr hd)
          · exact .inr (.inl (by simp [hcs]))
          · exact .inr (.inr (hd.bwd (dfs_frame h1).2.1))

theorem visitStarts_mem (ss : List Id) {r r' : Root} {buf buf' : List Id}
    (hx : visitStarts r buf ss = .ok (r', buf')) : ∀ i ∈ buf', i ∈ buf ∨ i ∈ ss ∨ IsDep r i := by
  induction ss generalizing r buf with
  | nil =>
    simp only [visitStarts, Except.ok.injEq, Prod.mk.injEq] at hx
    obtain ⟨_, rfl⟩ := hx
    exact fun i hi => .inl hi
  | cons s ss ih =>
    simp only [visitStarts] at hx
    split at hx
    · cases hx
    · rename_i r1 buf1 h1
      intro i hi
      rcases ih hx i hi with hb | hs | hd
      · rcases (dfs_mem_aux _).1 _ _ _ _ _ h1 i hb with hb | rfl | hd
        · exact .inl hb
        · exact .inr (.inl (by simp))
        · exact .inr (.inr hd)
      · exact .inr (.inl (by simp [hs]))
      · right; right
        obtain ⟨a, n', hn', hi'⟩ := hd
        rw [markDependentsDirty_get?, Option.map_eq_some_iff] at hn'
        obtain ⟨n, hn, rfl⟩ := hn'
        exact IsDep.bwd (dfs_frame h1).2.1 ⟨a, n, hn, hi'⟩

theorem finish_get? {r : Root} {deps : List Id} {id : Id} {nd : Node} (hd : r.get? id = some nd)
    (n' : Node) (j : Id) :
    ((createDependencyLink r deps id).setNode id n').get? j =
      if j = id then some n' else (r.get? j).map (linked (deps.filter r.alive) id j) := by
  have hlt : id < (createDependencyLink r deps id).nodes.size := by
    rw [(createDependencyLink_sameFrame r deps id).1]; exact Root.lt_size_of_get? hd
  rw [Root.get?_setNode, createDependencyLink_get? deps (Root.alive_iff.2 ⟨nd, hd⟩)]
  by_cases hj : j = id <;> simp [hj, hlt]

/-- the end of a run, for `XInv`: node `id` gets callback and value; nothing else changes but
`dependents` lists -/
theorem XInv.finish {r0 r : Root} {deps : List Id} {id : Id} {nd n' : Node} (h : XInv r)
    (hb0 : r.batching = r0.batching)
    (hk : ∀ j, j ≠ id → ∀ n n', r0.get? j = some n → n.value ≠ none → r.get? j = some n' → n'.value ≠ none)
    (hd : r.get? id = some nd) (e1 : n'.callback ≠ none) (e2 : n'.value ≠ none) :
    XInv ((createDependencyLink r deps id).setNode id n') ∧
    XStep r0 ((createDependencyLink r deps id).setNode id n') := by
  have hget := finish_get? (deps := deps) hd n'
  obtain ⟨s1, _, _, _, s5, s6, _⟩ := createDependencyLink_sameFrame r deps id
  obtain ⟨t1, _, _, _, t5, t6, _⟩ := SameFrame.setNode (createDependencyLink r deps id) id n'
  generalize (createDependencyLink r deps id).setNode id n' = r' at *
  have back : ∀ j m', r'.get? j = some m' → (j = id ∧ m' = n') ∨
      (j ≠ id ∧ ∃ m, r.get? j = some m ∧ m' = linked (deps.filter r.alive) id j m) := by
    intro j m' hm'
    rw [hget] at hm'
    split at hm'
    · rename_i hj; cases hm'; exact .inl ⟨hj, rfl⟩
    · rename_i hj
      rw [Option.map_eq_some_iff] at hm'
      obtain ⟨m, hm, e⟩ := hm'
      exact .inr ⟨hj, m, hm, e.symm⟩
  refine ⟨⟨?_, ?_, ?_, ?_⟩, (t6.trans s6).trans hb0, ?_⟩
  · intro i m' hm'
    rcases back i m' hm' with ⟨_, rfl⟩ | ⟨hj, m, hm, rfl⟩
    · exact ⟨fun hc => absurd hc e1, fun hc => absurd hc e1, fun _ => e2⟩
    · have x := h.node i m hm
      exact ⟨x.a, fun hc => by simp only [linked, if_neg hj]; exact x.b hc, x.c⟩
  · intro hb; rw [t5, s5]; exact h.q1 (by rw [← s6, ← t6]; exact hb)
  · intro q hq m' hm'
    rw [t5, s5] at hq
    rcases back q m' hm' with ⟨_, rfl⟩ | ⟨_, m, hm, rfl⟩
    · exact e2
    · exact h.q2 q hq m hm
  · intro q hq; rw [t5, s5] at hq; rw [t1, s1]; exact h.q3 q hq
  · intro j n n'' hn hv hn''
    rcases back j n'' hn'' with ⟨_, rfl⟩ | ⟨hj, m, hm, rfl⟩
    · exact e2
    · exact hk j hj n m hn hv hm

/-! ### the statements -/

/-- the nodes of a propagation list are allocated and, if alive, not running -/
def ListOk (r : Root) (l : List Id) : Prop :=
  ∀ x ∈ l, x < r.nodes.size ∧ ∀ n, r.get? x = some n → n.value ≠ none

theorem ListOk.step {r r' : Root} {l : List Id} (h : ListOk r l) (g : Grows r r') (s : XStep r r') :
    ListOk r' l := by
  intro x hx
  obtain ⟨h1, h2⟩ := h x hx
  refine ⟨Nat.lt_of_lt_of_le h1 g.size, ?_⟩
  intro n' hn'
  cases hr : r.get? x with
  | none => rw [g.dead x h1 hr] at hn'; cases hn'
  | some n => exact s.keep x n n' hr (h2 n hr) hn'

/-- one statement per function of the mutual block, at fuel `f`: the function does not fail with
`unwrapNone`, and it preserves `XInv` -/
structure SafeAll (f : Nat) : Prop where
  body : ∀ (P : Id → Prop) r c b, RInvP P r → EnvLt r.nodes.size c.env → XInv r →
    Safe (execBody f r c b) (fun p => XPost r p.1)
  inner : ∀ (P : Id → Prop) r c b, RInvP P r → EnvLt r.nodes.size c.env → XInv r →
    Safe (execInner f r c b) (fun p => XPost r p.1)
  stmt : ∀ (P : Id → Prop) r c s, RInvP P r → EnvLt r.nodes.size c.env → XInv r →
    Safe (execStmt f r c s) (fun p => XPost r p.1)
  closure : ∀ (P : Id → Prop) r cl, RInvP P r → EnvLt r.nodes.size cl.env → XInv r →
    Safe (runClosure f r cl) (fun p => XPost r p.1)
  selector : ∀ (P : Id → Prop) r eq cl, RInvP P r → EnvLt r.nodes.size cl.env → XInv r →
    Safe (createSelector f r eq cl) (fun p => XPost r p.1)
  update : ∀ (P : Id → Prop) r cur, RInvP P r → XInv r → r.batching = false →
    (∀ n, r.get? cur = some n → n.value ≠ none ∧ n.dirty = true) →
    Safe (runNodeUpdate f r cur) (XPost r)
  loop : ∀ (P : Id → Prop) r l, RInvP P r → XInv r → r.batching = false → ListOk r l →
    Safe (propagateLoop f r l) (XPost r)
  nodeUpdates : ∀ (P : Id → Prop) r l, RInvP P r → XInv r → r.batching = false → ListOk r l →
    Safe (propagateNodeUpdates f r l) (XPost r)
  updates : ∀ (P : Id → Prop) r s, RInvP P r → XInv r → (∃ n, r.get? s = some n ∧ n.value ≠ none) →
    Safe (propagateUpdates f r s) (XPost r)
  dnode : ∀ (P : Id → Prop) r id, RInvP P r → XInv r → Safe (disposeNode f r id) (XPost r)
  dchildren : ∀ (P : Id → Prop) r id, RInvP P r → XInv r → Safe (disposeChildren f r id) (XPost r)
  rest : ∀ (P : Id → Prop) r id, RInvP P r → XInv r → Safe (disposeRest f r id) (XPost r)
  cleanups : ∀ (P : Id → Prop) r cls, RInvP P r → (∀ cl ∈ cls, EnvLt r.nodes.size cl.env) → XInv r →
    Safe (runCleanups f r cls) (XPost r)
  dlist : ∀ (P : Id → Prop) r cs, RInvP P r → XInv r → Safe (disposeList f r cs) (XPost r)

theorem fuel_safe : Panic.fuel ≠ Panic.unwrapNone := by intro h; cases h

theorem safeAll_zero : SafeAll 0 := by
  constructor <;> intros <;> simp only [execBody, execInner, execStmt, runClosure, createSelector,
    runNodeUpdate, propagateLoop, propagateNodeUpdates, propagateUpdates, disposeNode, disposeChildren,
    disposeRest, runCleanups, disposeList] <;> exact fuel_safe

/-! ### the easy cases -/

theorem safe_body {f : Nat} (ih : SafeAll f) (P : Id → Prop) (r : Root) (c : Ctx) (b : Body)
    (hI : RInvP P r) (hE : EnvLt r.nodes.size c.env) (hX : XInv r) :
    Safe (execBody (f + 1) r c b) (fun p => XPost r p.1) := by
  cases b with
  | nil => simp only [execBody]; exact ⟨hX, XStep.refl r⟩
  | cons s rest =>
    simp only [execBody]
    have h1 := ih.stmt P r c s hI hE hX
    split
    · rename_i e he; rw [he] at h1; exact h1
    · rename_i r1 c1 he
      rw [he] at h1
      obtain ⟨i1, g1, e1⟩ := (presAll f).stmt P r c s r1 c1 hI hE he
      refine (ih.body P r1 c1 rest i1 e1 h1.1).mono ?_
      intro p hp h2
      exact XPost.trans h1 g1 ((presAll f).body P r1 c1 rest p.1 p.2 i1 e1 hp).2.1 h2

theorem safe_inner {f : Nat} (ih : SafeAll f) (P : Id → Prop) (r : Root) (c : Ctx) (b : Body)
    (hI : RInvP P r) (hE : EnvLt r.nodes.size c.env) (hX : XInv r) :
    Safe (execInner (f + 1) r c b) (fun p => XPost r p.1) := by
  simp only [execInner]
  have h1 := ih.body P r c b hI hE hX
  split
  · rename_i e he; rw [he] at h1; exact h1
  · rename_i r1 c1 he
    rw [he] at h1; exact h1

theorem safe_closure {f : Nat} (ih : SafeAll f) (P : Id → Prop) (r : Root) (cl : Closure)
    (hI : RInvP P r) (hE : EnvLt r.nodes.size cl.env) (hX : XInv r) :
    Safe (runClosure (f + 1) r cl) (fun p => XPost r p.1) := by
  simp only [runClosure]
  have h1 := ih.body P r ⟨cl.env, 0, []⟩ cl.body hI hE hX
  split
  · rename_i e he; rw [he] at h1; exact h1
  · rename_i r1 c1 he
    rw [he] at h1; exact h1

theorem safe_cleanups {f : Nat} (ih : SafeAll f) (P : Id → Prop) (r : Root) (cls : List Closure)
    (hI : RInvP P r) (hE : ∀ cl ∈ cls, EnvLt r.nodes.size cl.env) (hX : XInv r) :
    Safe (runCleanups (f + 1) r cls) (XPost r) := by
  cases cls with
  | nil => simp only [runCleanups]; exact ⟨hX, XStep.refl r⟩
  | cons cl cls =>
    simp only [runCleanups]
    have h1 := ih.closure P r cl hI (hE cl (by simp)) hX
    split
    · rename_i e he; rw [he] at h1; exact h1
    · rename_i r1 v obs he
      rw [he] at h1
      obtain ⟨i1, g1⟩ := (presAll f).closure P r cl r1 v obs hI (hE cl (by simp)) he
      obtain ⟨i2, g2⟩ := i1.same (r' := { r1 with trace := r1.trace ++ [.cleanup cl.tag obs] }) rfl rfl
      obtain ⟨x2, s2, _⟩ := h1.1.same (r' := { r1 with trace := r1.trace ++ [.cleanup cl.tag obs] }) rfl rfl rfl
      have hE2 : ∀ cl' ∈ cls, EnvLt r1.nodes.size cl'.env := fun cl' hc => (hE cl' (by simp [hc])).mono g1.size
      refine (ih.cleanups P _ cls i2 hE2 x2).mono ?_
      intro r' hr' h3
      have g3 := ((presAll f).cleanups P _ cls r' i2 hE2 hr').2
      exact XPost.trans (XPost.trans h1 g1 g2 ⟨x2, s2⟩) (g1.trans g2) g3 h3

theorem safe_dlist {f : Nat} (ih : SafeAll f) (P : Id → Prop) (r : Root) (cs : List Id)
    (hI : RInvP P r) (hX : XInv r) : Safe (disposeList (f + 1) r cs) (XPost r) := by
  cases cs with
  | nil => simp only [disposeList]; exact ⟨hX, XStep.refl r⟩
  | cons c cs =>
    simp only [disposeList]
    have h1 := ih.dnode P r c hI hX
    split
    · rename_i e he; rw [he] at h1; exact h1
    · rename_i r1 he
      rw [he] at h1
      obtain ⟨⟨i1, g1⟩, _⟩ := (presAll f).dnode P r c r1 hI he
      refine (ih.dlist P r1 cs i1 h1.1).mono ?_
      intro r' hr' h2
      exact XPost.trans h1 g1 ((presAll f).dlist P r1 cs r' i1 hr').1.2 h2

theorem safe_dnode {f : Nat} (ih : SafeAll f) (P : Id → Prop) (r : Root) (id : Id)
    (hI : RInvP P r) (hX : XInv r) : Safe (disposeNode (f + 1) r id) (XPost r) := by
  simp only [disposeNode]
  obtain ⟨i0, g0⟩ := hI.unsubscribe id
  obtain ⟨x0, s0, _⟩ := hX.unsubscribe hI id
  have h1 := ih.dchildren P (unsubscribe r id) id i0 x0
  split
  · rename_i e he; rw [he] at h1; exact h1
  · rename_i r1 he
    rw [he] at h1
    obtain ⟨i1, g1⟩ := (presAll f).dchildren P (unsubscribe r id) id r1 i0 he
    have h1' := ih.rest P r1 id i1 h1.1
    split
    · rename_i e he'; rw [he'] at h1'; exact h1'
    · rename_i r1' he'
      rw [he'] at h1'
      obtain ⟨i1', g1'⟩ := (presAll f).rest P r1 id r1' i1 he'
      obtain ⟨_, g2, _⟩ := i1'.removeNode id
      exact XPost.trans (XPost.trans (XPost.trans ⟨x0, s0⟩ g0 g1 h1) (g0.trans g1) g1' h1')
        ((g0.trans g1).trans g1') g2 (h1'.1.removeNode i1' id)

theorem safe_rest {f : Nat} (ih : SafeAll f) (P : Id → Prop) (r : Root) (id : Id)
    (hI : RInvP P r) (hX : XInv r) : Safe (disposeRest (f + 1) r id) (XPost r) := by
  simp only [disposeRest]
  split
  · exact ⟨hX, XStep.refl r⟩
  · split
    · exact ⟨hX, XStep.refl r⟩
    · have h1 := ih.dchildren P r id hI hX
      split
      · rename_i e he; rw [he] at h1; exact h1
      · rename_i r1 he
        rw [he] at h1
        obtain ⟨i1, g1⟩ := (presAll f).dchildren P r id r1 hI he
        refine (ih.rest P r1 id i1 h1.1).mono ?_
        intro r' hr' h2
        exact XPost.trans h1 g1 ((presAll f).rest P r1 id r' i1 hr').2 h2

theorem safe_updates {f : Nat} (ih : SafeAll f) (P : Id → Prop) (r : Root) (s : Id)
    (hI : RInvP P r) (hX : XInv r) (hs : ∃ n, r.get? s = some n ∧ n.value ≠ none) :
    Safe (propagateUpdates (f + 1) r s) (XPost r) := by
  simp only [propagateUpdates]
  obtain ⟨n, hn, hv⟩ := hs
  split
  · rename_i hb
    refine ⟨⟨hX.node, fun hb' => ?_, ?_, ?_⟩, rfl, fun j m m' hm hmv hm' => ?_⟩
    · rw [hb] at hb'; cases hb'
    · intro q hq m hm
      simp only [List.mem_append, List.mem_singleton] at hq
      rcases hq with hq | rfl
      · exact hX.q2 q hq m hm
      · have hm2 : r.get? q = some m := hm
        rw [hn] at hm2; cases hm2; exact hv
    · intro q hq
      simp only [List.mem_append, List.mem_singleton] at hq
      rcases hq with hq | rfl
      · exact hX.q3 q hq
      · exact Root.lt_size_of_get? hn
    · have hm2 : r.get? j = some m' := hm'
      rw [hm] at hm2; cases hm2; exact hmv
  · rename_i hb
    refine ih.nodeUpdates P r [s] hI hX (by simpa using hb) ?_
    intro x hx
    simp only [List.mem_singleton] at hx
    subst hx
    exact ⟨Root.lt_size_of_get? hn, fun m hm => by rw [hn] at hm; cases hm; exact hv⟩

theorem safe_loop {f : Nat} (ih : SafeAll f) (P : Id → Prop) (r : Root) (l : List Id)
    (hI : RInvP P r) (hX : XInv r) (hb : r.batching = false) (hl : ListOk r l) :
    Safe (propagateLoop (f + 1) r l) (XPost r) := by
  cases l with
  | nil => simp only [propagateLoop]; exact ⟨hX, XStep.refl r⟩
  | cons node rest =>
    have hrest : ListOk r rest := fun x hx => hl x (by simp [hx])
    simp only [propagateLoop]
    split
    · exact ih.loop P r rest hI hX hb hrest
    · rename_i n hn
      have w := hI.node node n hn
      have i1 := hI.setNode (n' := { n with mark := .none }) hn rfl rfl rfl rfl ⟨w.run, w.cleanups, w.callback⟩
      have g1 : Grows r (r.setNode node { n with mark := .none }) := Grows.setNode _ hn fun x => x
      obtain ⟨x1, s1, v1⟩ := hX.setNode (n' := { n with mark := .none }) hn rfl
        (fun x => ⟨x.a, x.b, x.c⟩)
      have hb1 : (r.setNode node { n with mark := .none }).batching = false := v1.batching.trans hb
      have hrest1 := hrest.step g1 s1
      split
      · rename_i hdirty
        have h2 := ih.update P _ node i1 x1 hb1 (by
          intro m hm
          rw [Root.get?_setNode_self hn] at hm; cases hm
          exact ⟨(hl node (by simp)).2 n hn, hdirty⟩)
        split
        · rename_i e he; rw [he] at h2; exact h2
        · rename_i r2 he
          rw [he] at h2
          obtain ⟨i2, g2⟩ := (presAll f).update P _ node r2 i1 he
          have hb2 : r2.batching = false := h2.2.batching.trans hb1
          refine (ih.loop P r2 rest i2 h2.1 hb2 (hrest1.step g2 h2.2)).mono ?_
          intro r' hr' h3
          have g3 := ((presAll f).loop P r2 rest r' i2 hr').2
          exact XPost.trans (XPost.trans ⟨x1, s1⟩ g1 g2 h2) (g1.trans g2) g3 h3
      · refine (ih.loop P _ rest i1 x1 hb1 hrest1).mono ?_
        intro r' hr' h3
        have g3 := ((presAll f).loop P _ rest r' i1 hr').2
        exact XPost.trans ⟨x1, s1⟩ g1 g3 h3

theorem safe_nodeUpdates {f : Nat} (ih : SafeAll f) (P : Id → Prop) (r : Root) (l : List Id)
    (hI : RInvP P r) (hX : XInv r) (hb : r.batching = false) (hl : ListOk r l) :
    Safe (propagateNodeUpdates (f + 1) r l) (XPost r) := by
  simp only [propagateNodeUpdates]
  split
  · rename_i e he; exact visitStarts_safe l he
  · rename_i r1 buf he
    obtain ⟨i1, g1⟩ := hI.visitStarts l he
    obtain ⟨x1, s1, v1⟩ := hX.visitStarts l hI he
    have hmem := visitStarts_mem l he
    have hl1 : ListOk r1 buf.reverse := by
      intro x hx
      rw [List.mem_reverse] at hx
      rcases hmem x hx with h0 | hs | hd
      · cases h0
      · obtain ⟨a, b⟩ := hl x hs
        refine ⟨by rw [v1.size]; exact a, ?_⟩
        intro n1 hn1
        obtain ⟨n, hn, e⟩ := v1.back x n1 hn1
        rw [e]; exact b n hn
      · obtain ⟨a, b⟩ := hd.facts hI
        refine ⟨by rw [v1.size]; exact Root.lt_size_of_get? (Root.alive_iff.1 a).choose_spec, ?_⟩
        intro n1 hn1
        obtain ⟨n, hn, e⟩ := v1.back x n1 hn1
        rw [e]; exact (b n hn).2
    obtain ⟨i1', g1'⟩ := i1.resetMarks l
    obtain ⟨x1', s1', v1'⟩ := x1.resetMarks l
    refine (ih.loop P _ buf.reverse i1' x1' (v1'.batching.trans (v1.batching.trans hb))
      (hl1.step g1' s1')).mono ?_
    intro r' hr' h2
    exact XPost.trans (XPost.trans ⟨x1, s1⟩ g1 g1' ⟨x1', s1'⟩) (g1.trans g1')
      ((presAll f).loop P _ buf.reverse r' i1' hr').2 h2

theorem safe_dchildren {f : Nat} (ih : SafeAll f) (P : Id → Prop) (r : Root) (id : Id)
    (hI : RInvP P r) (hX : XInv r) : Safe (disposeChildren (f + 1) r id) (XPost r) := by
  simp only [disposeChildren]
  split
  · exact ⟨hX, XStep.refl r⟩
  · rename_i n hn
    -- detach the children
    obtain ⟨ia, ga⟩ := hI.detach hn
    obtain ⟨xa, sa, _⟩ := hX.setNode (n' := { n with cleanups := [], children := [] }) hn rfl
      (fun x => ⟨x.a, x.b, x.c⟩)
    obtain ⟨s1, _, _⟩ := SameFrame.setNode r id { n with cleanups := [], children := [] }
    generalize hra : r.setNode id { n with cleanups := [], children := [] } = ra at *
    obtain ⟨ib, gb⟩ := ia.same (r' := { ra with tracker := none }) rfl rfl
    obtain ⟨xb, sb, _⟩ := xa.same (r' := { ra with tracker := none }) rfl rfl rfl
    have hEc : ∀ cl ∈ n.cleanups, EnvLt ({ ra with tracker := none } : Root).nodes.size cl.env := by
      intro cl hc
      have := (hI.node id n hn).cleanups cl hc
      exact this.mono (by show r.nodes.size ≤ ra.nodes.size; rw [s1]; exact Nat.le_refl _)
    have h2 := ih.cleanups _ _ n.cleanups ib hEc xb
    split
    · rename_i e he; rw [he] at h2; exact h2
    · rename_i r2 he
      rw [he] at h2
      obtain ⟨i2, g2⟩ := (presAll f).cleanups _ _ n.cleanups r2 ib hEc he
      obtain ⟨ic, gc⟩ := i2.same (r' := { r2 with tracker := ra.tracker }) rfl rfl
      obtain ⟨xc, sc, _⟩ := h2.1.same (r' := { r2 with tracker := ra.tracker }) rfl rfl rfl
      have h3 := ih.dlist _ _ n.children ic xc
      have p2 : XPost r { r2 with tracker := ra.tracker } :=
        XPost.trans (XPost.trans (XPost.trans ⟨xa, sa⟩ ga gb ⟨xb, sb⟩) (ga.trans gb) g2 h2)
          ((ga.trans gb).trans g2) gc ⟨xc, sc⟩
      have gall2 : Grows r { r2 with tracker := ra.tracker } := ((ga.trans gb).trans g2).trans gc
      split
      · rename_i e he3; rw [he3] at h3; exact h3
      · rename_i r3 he3
        rw [he3] at h3
        obtain ⟨⟨i3, g3⟩, _⟩ := (presAll f).dlist _ _ n.children r3 ic he3
        have p3 : XPost r r3 := XPost.trans p2 gall2 g3 h3
        cases h3id : r3.get? id with
        | none =>
          have : r3.modify id (fun n => { n with context := [] }) = r3 := by simp [Root.modify, h3id]
          rw [this]; exact p3
        | some n3 =>
          have : r3.modify id (fun n => { n with context := [] }) = r3.setNode id { n3 with context := [] } := by
            simp [Root.modify, h3id]
          rw [this]
          obtain ⟨x4, s4, _⟩ := p3.1.setNode (n' := { n3 with context := [] }) h3id rfl (fun x => ⟨x.a, x.b, x.c⟩)
          exact XPost.trans p3 (gall2.trans g3) (Grows.setNode _ h3id fun x => x) ⟨x4, s4⟩

theorem safe_selector {f : Nat} (ih : SafeAll f) (P : Id → Prop) (r : Root) (eq : EqKind) (cl : Closure)
    (hI : RInvP P r) (hE : EnvLt r.nodes.size cl.env) (hX : XInv r) :
    Safe (createSelector (f + 1) r eq cl) (fun p => XPost r p.1) := by
  simp only [createSelector]
  split
  · rename_i e he; exact createNode_safe he
  · rename_i r1 id1 h1
    obtain ⟨i1, g1, hid, hsz1, hcur1, htr1, n1, hn1, hv1, hd1⟩ := hI.createNode h1
    obtain ⟨x1, s1⟩ := hX.createNode h1
    have hid1 : id1 < r1.nodes.size := by rw [hsz1, hid]; exact Nat.lt_succ_self _
    have ia : RInvP P { r1 with current := some id1, tracker := some [] } :=
      i1.congr rfl (by intro c hc; simp only [Option.some.injEq] at hc; subst hc; exact hid1)
    obtain ⟨xa, sa, _⟩ := x1.same (r' := { r1 with current := some id1, tracker := some [] }) rfl rfl rfl
    have h2 := ih.closure P _ cl ia (hE.mono g1.size) xa
    split
    · rename_i e he; rw [he] at h2; exact h2
    · rename_i r2 v obs he
      rw [he] at h2
      obtain ⟨i2, g2⟩ := (presAll f).closure P _ cl r2 v obs ia (hE.mono g1.size) he
      have g2' : Grows r1 r2 := ⟨g2.size, g2.dead, g2.run⟩
      generalize hr3 : ({ r2 with tracker := r1.tracker, current := r1.current, trace := r2.trace ++ [Event.run id1 obs v] } : Root) = r3
      have hn3 : r3.nodes = r2.nodes := by subst hr3; rfl
      have hq3 : r3.queue = r2.queue := by subst hr3; rfl
      have hb3 : r3.batching = r2.batching := by subst hr3; rfl
      obtain ⟨x3, s3, _⟩ := h2.1.same hn3 hq3 hb3
      have p3 : XPost r r3 :=
        XPost.trans (XPost.trans (XPost.trans ⟨x1, s1⟩ g1
          (Grows.of_nodes_eq (r := r1) (r' := { r1 with current := some id1, tracker := some [] }) rfl) ⟨xa, sa⟩)
          (g1.trans (Grows.of_nodes_eq rfl)) g2 h2)
          (g1.trans g2') (Grows.of_nodes_eq hn3) ⟨x3, s3⟩
      cases hd3 : r3.get? id1 with
      | none =>
        rw [createDependencyLink_dead _ hd3, hd3]
        exact p3
      | some nd =>
        rw [createDependencyLink_alive hd3]
        exact XInv.finish x3 p3.2.batching (fun j _ => p3.2.keep j) hd3 (by simp) (by simp)

theorem safe_update {f : Nat} (ih : SafeAll f) (P : Id → Prop) (r : Root) (cur : Id)
    (hI : RInvP P r) (hX : XInv r) (hb : r.batching = false)
    (hcur : ∀ n, r.get? cur = some n → n.value ≠ none ∧ n.dirty = true) :
    Safe (runNodeUpdate (f + 1) r cur) (XPost r) := by
  simp only [runNodeUpdate]
  split
  · intro h; cases h
  · rename_i n hn
    obtain ⟨hnv, hnd⟩ := hcur n hn
    obtain ⟨r2, hu, _⟩ := unlink_spec hI.nd hI.sym hn
    rw [hu]
    simp only
    obtain ⟨i2, g2, hsz2, _, _, hn2⟩ := hI.unlink hn hu
    obtain ⟨x2, s2, v2⟩ := hX.unlink hI hn hu
    rw [hn2]
    simp only
    have xn2 := x2.node cur _ hn2
    split
    · -- callback = none: a signal or scope, which is never dirty
      rename_i hcb
      exact absurd (xn2.a hcb hnv) (by simp [unlinked, hnd])
    · rename_i hval
      exact absurd hval hnv
    · rename_i eq cl old hcb hval
      have w2 := i2.node cur _ hn2
      have hEcl : EnvLt r2.nodes.size cl.env := w2.callback eq cl hcb
      have hq2 : r2.queue = [] := x2.q1 (v2.batching.trans hb)
      -- take value and callback out
      generalize hr3 : r2.setNode cur _ = r3
      have i3 : RInvP P r3 := by
        subst hr3
        exact i2.setNode hn2 rfl rfl rfl rfl ⟨fun _ => by simp [unlinked], w2.cleanups, by simp⟩
      have g3 : Grows r2 r3 := by subst hr3; exact Grows.setNode _ hn2 fun _ => rfl
      have hn3 : ∃ n3, r3.get? cur = some n3 ∧ n3.value = none := by
        subst hr3
        exact ⟨_, Root.get?_setNode_self hn2 _, rfl⟩
      obtain ⟨n3, hn3, hv3⟩ := hn3
      have hget3 : ∀ j, j ≠ cur → r3.get? j = r2.get? j := by
        intro j hj; subst hr3; rw [Root.get?_setNode]; simp [hj]
      have hq3 : r3.queue = [] := by subst hr3; rw [(SameFrame.setNode ..).2.2.2.2.1]; exact hq2
      have hb3 : r3.batching = false := by
        subst hr3; rw [(SameFrame.setNode ..).2.2.2.2.2.1]; exact v2.batching.trans hb
      have x3 : XInv r3 := by
        refine ⟨?_, fun _ => hq3, by rw [hq3]; simp, by rw [hq3]; simp⟩
        intro i m hm
        by_cases hi : i = cur
        · subst hi
          subst hr3
          rw [Root.get?_setNode_self hn2] at hm; cases hm
          exact ⟨fun _ hv => absurd rfl hv, fun _ => by simp [unlinked], fun hc => absurd rfl hc⟩
        · rw [hget3 i hi] at hm; exact x2.node i m hm
      -- nodes other than `cur` keep their values from `r` to `r3`
      have hk3 : ∀ j, j ≠ cur → ∀ m m', r.get? j = some m → m.value ≠ none → r3.get? j = some m' →
          m'.value ≠ none := by
        intro j hj m m' hm hmv hm'
        rw [hget3 j hj] at hm'
        exact s2.keep j m m' hm hmv hm'
      have h4 := ih.dchildren P r3 cur i3 x3
      split
      · rename_i e he; rw [he] at h4; exact h4
      · rename_i r4 he4
        rw [he4] at h4
        obtain ⟨i4, g4⟩ := (presAll f).dchildren P r3 cur r4 i3 he4
        -- repair D22: a cleanup disposed the node itself, the update stops here
        by_cases hd4 : r4.get? cur = none
        · rw [if_pos hd4]
          refine ⟨h4.1, (h4.2.batching.trans hb3).trans hb.symm, ?_⟩
          intro j m m' hm hmv hm'
          by_cases hj : j = cur
          · subst hj; rw [hd4] at hm'; cases hm'
          · cases h3j : r3.get? j with
            | none =>
              have : j < r3.nodes.size := by
                rw [show r3.nodes.size = r2.nodes.size by subst hr3; exact (SameFrame.setNode ..).1, hsz2]
                exact Root.lt_size_of_get? hm
              rw [g4.dead j this h3j] at hm'; cases hm'
            | some m3 => exact h4.2.keep j m3 m' h3j (hk3 j hj m m3 hm hmv h3j) hm'
        rw [if_neg hd4]
        have hcur4 : cur < r4.nodes.size := Nat.lt_of_lt_of_le (Root.lt_size_of_get? hn3) g4.size
        have ia : RInvP P { r4 with current := some cur, tracker := some [] } :=
          i4.congr rfl (by intro c hc; simp only [Option.some.injEq] at hc; subst hc; exact hcur4)
        obtain ⟨xa, sa, _⟩ := h4.1.same (r' := { r4 with current := some cur, tracker := some [] }) rfl rfl rfl
        have hEa := hEcl.mono (Nat.le_trans g3.size g4.size)
        have h5 := ih.closure P _ cl ia hEa xa
        split
        · rename_i e he; rw [he] at h5; exact h5
        · rename_i r5 new obs he5
          rw [he5] at h5
          obtain ⟨i5, g5⟩ := (presAll f).closure P _ cl r5 new obs ia hEa he5
          have g5' : Grows r4 r5 := ⟨g5.size, g5.dead, g5.run⟩
          generalize hr6 : ({ r5 with tracker := r4.tracker, current := r4.current, trace := r5.trace ++ [Event.run cur obs new] } : Root) = r6
          have hn6 : r6.nodes = r5.nodes := by subst hr6; rfl
          have hq6 : r6.queue = r5.queue := by subst hr6; rfl
          have hb6 : r6.batching = r5.batching := by subst hr6; rfl
          obtain ⟨x6, s6, _⟩ := h5.1.same hn6 hq6 hb6
          have p36 : XPost r3 r6 :=
            XPost.trans (XPost.trans (XPost.trans h4 g4
              (Grows.of_nodes_eq (r := r4) (r' := { r4 with current := some cur, tracker := some [] }) rfl) ⟨xa, sa⟩)
              (g4.trans (Grows.of_nodes_eq rfl)) g5 h5)
              (g4.trans g5') (Grows.of_nodes_eq hn6) ⟨x6, s6⟩
          have g36 : Grows r3 r6 := (g4.trans g5').trans (Grows.of_nodes_eq hn6)
          have hb6' : r6.batching = r.batching := (p36.2.batching.trans hb3).trans hb.symm
          have hk6 : ∀ j, j ≠ cur → ∀ m m', r.get? j = some m → m.value ≠ none → r6.get? j = some m' →
              m'.value ≠ none := by
            intro j hj m m' hm hmv hm'
            cases h3j : r3.get? j with
            | none =>
              have : j < r3.nodes.size := by
                rw [show r3.nodes.size = r2.nodes.size by subst hr3; exact (SameFrame.setNode ..).1, hsz2]
                exact Root.lt_size_of_get? hm
              rw [g36.dead j this h3j] at hm'; cases hm'
            | some m3 => exact p36.2.keep j m3 m' h3j (hk3 j hj m m3 hm hmv h3j) hm'
          cases hd6 : r6.get? cur with
          | none =>
            rw [createDependencyLink_dead _ hd6, hd6]
            refine ⟨x6, hb6', ?_⟩
            intro j m m' hm hmv hm'
            by_cases hj : j = cur
            · subst hj; rw [hd6] at hm'; cases hm'
            · exact hk6 j hj m m' hm hmv hm'
          | some nd =>
            rw [createDependencyLink_alive hd6]
            simp only
            have key := fun vv : Int => XInv.finish (r0 := r) (deps := r5.tracker.getD [])
              (n' := { linked ((r5.tracker.getD []).filter r6.alive) cur cur nd with
                callback := some (eq, cl), value := some vv, dirty := false })
              x6 hb6' hk6 hd6 (by simp) (by simp)
            have i6 : RInvP P r6 := i5.congr hn6 (by
              intro c hc
              rw [show r6.current = r4.current by subst hr6; rfl] at hc
              exact Nat.lt_of_lt_of_le (i4.cur c hc) g5.size)
            have hnotrun : ∀ m, r.get? cur = some m → m.value ≠ none := by
              intro m hm; rw [hn] at hm; cases hm; exact hnv
            have g6 : Grows r r6 := (g2.trans g3).trans g36
            have hv6 : nd.value = none := g36.run cur n3 nd hn3 hv3 hd6
            have fin := fun vv : Int => finish_alive (deps := r5.tracker.getD [])
              (n' := { linked ((r5.tracker.getD []).filter r6.alive) cur cur nd with
                callback := some (eq, cl), value := some vv, dirty := false })
              i6 g6 hnotrun hd6 hv6 (createDependencyLink_alive hd6) rfl rfl rfl rfl rfl (by simp)
              (by
                intro eq' cl' he
                simp only [Option.some.injEq, Prod.mk.injEq] at he
                obtain ⟨_, rfl⟩ := he
                exact hEcl.mono (Nat.le_trans g3.size g36.size))
            split
            · obtain ⟨xf, sf⟩ := key new
              obtain ⟨a, b, _⟩ := fin new
              obtain ⟨xm, sm, _⟩ := xf.markDirty a cur
              exact XPost.trans ⟨xf, sf⟩ b (a.markDirty cur).2 ⟨xm, sm⟩
            · exact key old

/-! ### `execStmt`, statement by statement -/

theorem track_frame (r : Root) (id : Id) : (track r id).nodes = r.nodes ∧ (track r id).queue = r.queue ∧
    (track r id).batching = r.batching := by
  unfold track; split <;> exact ⟨rfl, rfl, rfl⟩

theorem trackAll_frame (c : Ctx) (l : List Nat) {r r' : Root} (hx : trackAll c r l = .ok r') :
    r'.nodes = r.nodes ∧ r'.queue = r.queue ∧ r'.batching = r.batching := by
  induction l generalizing r with
  | nil => simp only [trackAll, Except.ok.injEq] at hx; subst hx; exact ⟨rfl, rfl, rfl⟩
  | cons x l ih =>
    simp only [trackAll] at hx
    split at hx
    · cases hx
    · split at hx
      · cases hx
      · obtain ⟨a, b, c'⟩ := ih hx
        obtain ⟨a', b', c''⟩ := track_frame r _
        exact ⟨a.trans a', b.trans b', c'.trans c''⟩

/-- node-wise transformation that keeps sizes, queue, batch flag, and "has a value" -/
theorem XInv.pointwise' {r r' : Root} (h : XInv r) (hsz : r'.nodes.size = r.nodes.size)
    (hq : r'.queue = r.queue) (hb : r'.batching = r.batching)
    (hback : ∀ j m', r'.get? j = some m' → ∃ m, r.get? j = some m ∧ (m.value ≠ none → m'.value ≠ none) ∧
      (XNode m → XNode m')) :
    XInv r' ∧ XStep r r' := by
  refine ⟨⟨?_, ?_, ?_, ?_⟩, hb, ?_⟩
  · intro i n' hi
    obtain ⟨m, hm, _, hx⟩ := hback i n' hi
    exact hx (h.node i m hm)
  · intro hb'; rw [hq]; exact h.q1 (hb ▸ hb')
  · intro q hq' n' hn'
    obtain ⟨m, hm, e, _⟩ := hback q n' hn'
    rw [hq] at hq'; exact e (h.q2 q hq' m hm)
  · intro q hq'; rw [hq] at hq'; rw [hsz]; exact h.q3 q hq'
  · intro j n n' hn hv hn'
    obtain ⟨m, hm, e, _⟩ := hback j n' hn'
    rw [hn] at hm; cases hm; exact e hv

theorem XInv.setSilent {r r' : Root} {id : Id} {v : Int} (h : XInv r) (hx : setSilent r id v = .ok r') :
    XInv r' ∧ XStep r r' ∧ ∃ n, r'.get? id = some n ∧ n.value ≠ none := by
  obtain ⟨n, hn, hv, rfl⟩ := setSilent_ok hx
  obtain ⟨s1, _, _, _, s5, s6, _⟩ := SameFrame.setNode r id { n with value := some v }
  have hnv : n.value ≠ none := by intro e; rw [e] at hv; cases hv
  obtain ⟨a, b⟩ := h.pointwise' s1 s5 s6 (by
    intro j m' hm'
    rw [Root.get?_setNode] at hm'
    split at hm'
    · rename_i hc; cases hm'; rw [hc.1]
      exact ⟨n, hn, fun _ => by simp, fun x => ⟨fun hc _ => x.a hc hnv, x.b, fun _ => by simp⟩⟩
    · exact ⟨m', hm', fun x => x, fun x => x⟩)
  exact ⟨a, b, _, Root.get?_setNode_self hn _, by simp⟩

theorem XInv.provideContext {r r' : Root} {ty : Nat} {v : Int} (h : XInv r)
    (hx : provideContext r ty v = .ok r') : XInv r' ∧ XStep r r' := by
  unfold Reactive.provideContext at hx
  split at hx
  · cases hx
  · split at hx
    · cases hx
    · rename_i cur _ _ n hn
      split at hx
      · cases hx
      · cases hx
        obtain ⟨a, b, _⟩ := h.setNode (n' := { n with context := n.context ++ [(ty, v)] }) hn rfl
          (fun x => ⟨x.a, x.b, x.c⟩)
        exact ⟨a, b⟩

set_option linter.unusedSectionVars false

section stmts
variable {f : Nat} (ih : SafeAll f) {P : Id → Prop} {r : Root} {c : Ctx}
  (hI : RInvP P r) (hE : EnvLt r.nodes.size c.env) (hX : XInv r)
include ih hI hE hX

theorem safe_read {h : Nat} : Safe (execStmt (f + 1) r c (.read h)) (fun p => XPost r p.1) := by
  simp only [execStmt]
  split
  · rename_i e he; exact lookup_safe he
  · split
    · intro h; cases h
    · split
      · rename_i e he; exact getUntracked_safe he
      · obtain ⟨a, b, c'⟩ := track_frame r ‹Handle›.id
        obtain ⟨x, s, _⟩ := hX.same a b c'
        exact ⟨x, s⟩

theorem safe_readU {h : Nat} : Safe (execStmt (f + 1) r c (.readU h)) (fun p => XPost r p.1) := by
  simp only [execStmt]
  split
  · rename_i e he; exact lookup_safe he
  · split
    · intro h; cases h
    · split
      · rename_i e he; exact getUntracked_safe he
      · exact ⟨hX, XStep.refl r⟩

theorem safe_track {h : Nat} : Safe (execStmt (f + 1) r c (.track h)) (fun p => XPost r p.1) := by
  simp only [execStmt]
  split
  · rename_i e he; exact lookup_safe he
  · split
    · intro h; cases h
    · obtain ⟨a, b, c'⟩ := track_frame r ‹Handle›.id
      obtain ⟨x, s, _⟩ := hX.same a b c'
      exact ⟨x, s⟩

theorem safe_ifpos {h : Nat} {t e : Body} :
    Safe (execStmt (f + 1) r c (.ifpos h t e)) (fun p => XPost r p.1) := by
  simp only [execStmt]
  split
  · rename_i e he; exact lookup_safe he
  · rename_i hd _
    split
    · intro h; cases h
    · split
      · rename_i e he; exact getUntracked_safe he
      · rename_i v _
        obtain ⟨a, b, c'⟩ := track_frame r hd.id
        obtain ⟨x, s, _⟩ := hX.same a b c'
        obtain ⟨i, g⟩ := hI.same a (track_nodes r hd.id).2
        have hE1 : EnvLt (track r hd.id).nodes.size c.env := hE.mono g.size
        split
        · refine (ih.inner P _ { c with acc := mix c.acc v, obs := c.obs ++ [.read hd.id v] } t i hE1 x).mono ?_
          intro p hp h2
          exact XPost.trans ⟨x, s⟩ g ((presAll f).inner P _ { c with acc := mix c.acc v, obs := c.obs ++ [.read hd.id v] } t p.1 p.2 i hE1 hp).2.1 h2
        · refine (ih.inner P _ { c with acc := mix c.acc v, obs := c.obs ++ [.read hd.id v] } e i hE1 x).mono ?_
          intro p hp h2
          exact XPost.trans ⟨x, s⟩ g ((presAll f).inner P _ { c with acc := mix c.acc v, obs := c.obs ++ [.read hd.id v] } e p.1 p.2 i hE1 hp).2.1 h2

theorem safe_untracked {b : Body} {prev : Option (List Id)} :
    Safe (match execInner f { r with tracker := none } c b with
      | .error e => .error e
      | .ok (r, c) => (.ok ({ r with tracker := prev }, c) : Except Panic (Root × Ctx))) (fun p => XPost r p.1) := by
  obtain ⟨i0, g0⟩ := hI.same (r' := { r with tracker := none }) rfl rfl
  obtain ⟨x0, s0, _⟩ := hX.same (r' := { r with tracker := none }) rfl rfl rfl
  have h1 := ih.inner P _ c b i0 hE x0
  split
  · rename_i e he; rw [he] at h1; exact h1
  · rename_i r1 c1 he
    rw [he] at h1
    obtain ⟨i1, g1, _⟩ := (presAll f).inner P _ c b r1 c1 i0 hE he
    obtain ⟨x2, s2, _⟩ := h1.1.same (r' := { r1 with tracker := prev }) rfl rfl rfl
    exact XPost.trans (XPost.trans ⟨x0, s0⟩ g0 g1 h1) (g0.trans g1) (Grows.of_nodes_eq rfl) ⟨x2, s2⟩

theorem safe_untrack {b : Body} : Safe (execStmt (f + 1) r c (.untrack b)) (fun p => XPost r p.1) := by
  simp only [execStmt]
  exact safe_untracked ih hI hE hX

theorem safe_component {b : Body} : Safe (execStmt (f + 1) r c (.component b)) (fun p => XPost r p.1) := by
  simp only [execStmt]
  exact safe_untracked ih hI hE hX

theorem safe_on {deps : List Nat} {b : Body} :
    Safe (execStmt (f + 1) r c (.on deps b)) (fun p => XPost r p.1) := by
  simp only [execStmt]
  split
  · rename_i e he; exact trackAll_safe c deps he
  · rename_i r1 h1
    obtain ⟨a, b', c'⟩ := trackAll_frame c deps h1
    obtain ⟨i1, g1⟩ := hI.same a (trackAll_nodes c deps h1).2
    obtain ⟨x1, s1, _⟩ := hX.same a b' c'
    refine (safe_untracked ih i1 (hE.mono g1.size) x1).mono ?_
    intro p hp h2
    exact XPost.trans ⟨x1, s1⟩ g1 (pres_untracked (presAll f) i1 (hE.mono g1.size) hp).2.1 h2

theorem safe_signal {v : Int} : Safe (execStmt (f + 1) r c (.signal v)) (fun p => XPost r p.1) := by
  simp only [execStmt]
  split
  · rename_i e he; exact createNode_safe he
  · rename_i r1 id h1
    exact hX.createNode h1

theorem safe_created {eq : EqKind} {b : Body} {kd : Kind} :
    Safe (match createSelector f r eq ⟨b, c.env, 0⟩ with
      | .error e => .error e
      | .ok (r, id) => (.ok (r, { c with env := c.env ++ [⟨id, kd⟩] }) : Except Panic (Root × Ctx)))
      (fun p => XPost r p.1) := by
  have h1 := ih.selector P r eq ⟨b, c.env, 0⟩ hI hE hX
  split
  · rename_i e he; rw [he] at h1; exact h1
  · rename_i r1 id he
    rw [he] at h1; exact h1

theorem safe_memo {b : Body} : Safe (execStmt (f + 1) r c (.memo b)) (fun p => XPost r p.1) := by
  simp only [execStmt]
  exact safe_created ih hI hE hX

theorem safe_selectorStmt {eq : EqKind} {b : Body} :
    Safe (execStmt (f + 1) r c (.selector eq b)) (fun p => XPost r p.1) := by
  simp only [execStmt]
  exact safe_created ih hI hE hX

theorem safe_effect {b : Body} : Safe (execStmt (f + 1) r c (.effect b)) (fun p => XPost r p.1) := by
  simp only [execStmt]
  exact safe_created ih hI hE hX

theorem safe_scope {b : Body} : Safe (execStmt (f + 1) r c (.scope b)) (fun p => XPost r p.1) := by
  simp only [execStmt]
  split
  · rename_i e he; exact createNode_safe he
  · rename_i r1 id h1
    obtain ⟨i1, g1, hid, hsz1, _⟩ := hI.createNode h1
    obtain ⟨x1, s1⟩ := hX.createNode h1
    have hid1 : id < r1.nodes.size := by rw [hsz1, hid]; exact Nat.lt_succ_self _
    have ia : RInvP P { r1 with current := some id } :=
      i1.congr rfl (by intro x hc; simp only [Option.some.injEq] at hc; subst hc; exact hid1)
    obtain ⟨xa, sa, _⟩ := x1.same (r' := { r1 with current := some id }) rfl rfl rfl
    have h2 := ih.inner P _ c b ia (hE.mono g1.size) xa
    split
    · rename_i e he; rw [he] at h2; exact h2
    · rename_i r2 c2 he
      rw [he] at h2
      obtain ⟨i2, g2, _⟩ := (presAll f).inner P _ c b r2 c2 ia (hE.mono g1.size) he
      obtain ⟨x3, s3, _⟩ := h2.1.same (r' := { r2 with current := r1.current }) rfl rfl rfl
      have ga : Grows r1 { r1 with current := some id } := Grows.of_nodes_eq rfl
      exact XPost.trans (XPost.trans (XPost.trans ⟨x1, s1⟩ g1 ga ⟨xa, sa⟩) (g1.trans ga) g2 h2)
        ((g1.trans ga).trans g2) (Grows.of_nodes_eq rfl) ⟨x3, s3⟩

theorem safe_set {h : Nat} {e : Ex} : Safe (execStmt (f + 1) r c (.set h e)) (fun p => XPost r p.1) := by
  simp only [execStmt]
  split
  · rename_i e he; exact lookup_safe he
  · split
    · intro h; cases h
    · split
      · rename_i e he; exact setSilent_safe he
      · rename_i r1 h1
        obtain ⟨i1, g1⟩ := hI.setSilent h1
        obtain ⟨x1, s1, hs⟩ := hX.setSilent h1
        have h2 := ih.updates P r1 _ i1 x1 hs
        split
        · rename_i e he; rw [he] at h2; exact h2
        · rename_i r2 he
          rw [he] at h2
          exact XPost.trans ⟨x1, s1⟩ g1 ((presAll f).updates P r1 _ r2 i1 he).2 h2

theorem safe_setSilentStmt {h : Nat} {e : Ex} :
    Safe (execStmt (f + 1) r c (.setSilent h e)) (fun p => XPost r p.1) := by
  simp only [execStmt]
  split
  · rename_i e he; exact lookup_safe he
  · split
    · intro h; cases h
    · split
      · rename_i e he; exact setSilent_safe he
      · rename_i r1 h1
        obtain ⟨x1, s1, _⟩ := hX.setSilent h1
        exact ⟨x1, s1⟩

theorem safe_cleanupStmt {b : Body} : Safe (execStmt (f + 1) r c (.cleanup b)) (fun p => XPost r p.1) := by
  simp only [execStmt]
  split
  · exact ⟨hX, XStep.refl r⟩
  · rename_i cur _
    split
    · intro h; cases h
    · rename_i n hn
      obtain ⟨x1, s1, _⟩ := hX.setNode (n' := { n with cleanups := n.cleanups ++ [⟨b, c.env, r.nextTag⟩] }) hn rfl
        (fun x => ⟨x.a, x.b, x.c⟩)
      obtain ⟨x2, s2, _⟩ := x1.same
        (r' := { (r.setNode cur { n with cleanups := n.cleanups ++ [⟨b, c.env, r.nextTag⟩] }) with nextTag := r.nextTag + 1 })
        rfl rfl rfl
      exact XPost.trans ⟨x1, s1⟩ (Grows.setNode _ hn fun x => x) (Grows.of_nodes_eq rfl) ⟨x2, s2⟩

theorem safe_dispose {h : Nat} : Safe (execStmt (f + 1) r c (.dispose h)) (fun p => XPost r p.1) := by
  simp only [execStmt]
  split
  · rename_i e he; exact lookup_safe he
  · rename_i hd _
    have h1 := ih.dnode P r hd.id hI hX
    split
    · rename_i e he; rw [he] at h1; exact h1
    · rename_i r1 he; rw [he] at h1; exact h1

theorem safe_disposeCur : Safe (execStmt (f + 1) r c .disposeCur) (fun p => XPost r p.1) := by
  simp only [execStmt]
  split
  · exact ⟨hX, XStep.refl r⟩
  · rename_i cur _
    have h1 := ih.dnode P r cur hI hX
    split
    · rename_i e he; rw [he] at h1; exact h1
    · rename_i r1 he; rw [he] at h1; exact h1

theorem safe_batch {b : Body} : Safe (execStmt (f + 1) r c (.batch b)) (fun p => XPost r p.1) := by
  simp only [execStmt]
  obtain ⟨i0, g0⟩ := hI.same (r' := { r with batching := true }) rfl rfl
  have x0 : XInv { r with batching := true } := ⟨hX.node, fun hb => (by cases hb), hX.q2, hX.q3⟩
  have h1 := ih.inner P _ c b i0 hE x0
  split
  · rename_i e he; rw [he] at h1; exact h1
  · rename_i r1 c1 he
    rw [he] at h1
    obtain ⟨i1, g1, _⟩ := (presAll f).inner P _ c b r1 c1 i0 hE he
    have g1' : Grows r r1 := ⟨g1.size, g1.dead, g1.run⟩
    have k1 : Keep r r1 := h1.2.keep
    have hb1 : r1.batching = true := h1.2.batching
    split
    · rename_i hnested
      exact ⟨h1.1, hb1.trans hnested.symm, k1⟩
    · rename_i hnested
      obtain ⟨i1', g1''⟩ := i1.same (r' := { r1 with batching := false, queue := [] }) rfl rfl
      have x1' : XInv { r1 with batching := false, queue := [] } :=
        ⟨h1.1.node, fun _ => rfl, fun q hq => (by cases hq), fun q hq => (by cases hq)⟩
      have hl : ListOk { r1 with batching := false, queue := [] } r1.queue :=
        fun x hx => ⟨h1.1.q3 x hx, h1.1.q2 x hx⟩
      have h2 := ih.nodeUpdates P _ r1.queue i1' x1' rfl hl
      split
      · rename_i e he2; rw [he2] at h2; exact h2
      · rename_i r2 he2
        rw [he2] at h2
        have g2 := ((presAll f).nodeUpdates P _ r1.queue r2 i1' he2).2
        have g2' : Grows r1 r2 := ⟨g2.size, g2.dead, g2.run⟩
        have k2 : Keep r1 r2 := h2.2.keep
        refine ⟨h2.1, ?_, k1.trans g1' g2' k2⟩
        have : r.batching = false := by simpa using hnested
        rw [this]; exact h2.2.batching

theorem safe_provide {ty : Nat} {e : Ex} :
    Safe (execStmt (f + 1) r c (.provide ty e)) (fun p => XPost r p.1) := by
  simp only [execStmt]
  split
  · rename_i e he; exact provideContext_safe he
  · rename_i r1 h1
    exact hX.provideContext h1

theorem safe_use {ty : Nat} : Safe (execStmt (f + 1) r c (.use ty)) (fun p => XPost r p.1) := by
  simp only [execStmt]
  split
  · rename_i e he; exact tryUseContext_safe he
  · exact ⟨hX, XStep.refl r⟩

theorem safe_runIn {h : Nat} {b : Body} : Safe (execStmt (f + 1) r c (.runIn h b)) (fun p => XPost r p.1) := by
  simp only [execStmt]
  split
  · rename_i e he; exact lookup_safe he
  · rename_i hd hl
    have ia : RInvP P { r with current := some hd.id } :=
      hI.congr rfl (by intro x hc; simp only [Option.some.injEq] at hc; subst hc; exact hE hd (lookup_ok hl).2)
    obtain ⟨xa, sa, _⟩ := hX.same (r' := { r with current := some hd.id }) rfl rfl rfl
    have h1 := ih.inner P _ c b ia hE xa
    split
    · rename_i e he; rw [he] at h1; exact h1
    · rename_i r1 c1 he
      rw [he] at h1
      obtain ⟨i1, g1, _⟩ := (presAll f).inner P _ c b r1 c1 ia hE he
      obtain ⟨x2, s2, _⟩ := h1.1.same (r' := { r1 with current := r.current }) rfl rfl rfl
      have ga : Grows r { r with current := some hd.id } := Grows.of_nodes_eq rfl
      exact XPost.trans (XPost.trans ⟨xa, sa⟩ ga g1 h1) (ga.trans g1) (Grows.of_nodes_eq rfl) ⟨x2, s2⟩

end stmts

theorem safe_stmt {f : Nat} (ih : SafeAll f) (P : Id → Prop) (r : Root) (c : Ctx) (s : Stmt)
    (hI : RInvP P r) (hE : EnvLt r.nodes.size c.env) (hX : XInv r) :
    Safe (execStmt (f + 1) r c s) (fun p => XPost r p.1) := by
  cases s with
  | read h => exact safe_read ih hI hE hX
  | readU h => exact safe_readU ih hI hE hX
  | track h => exact safe_track ih hI hE hX
  | ifpos h t e => exact safe_ifpos ih hI hE hX
  | untrack b => exact safe_untrack ih hI hE hX
  | component b => exact safe_component ih hI hE hX
  | on deps b => exact safe_on ih hI hE hX
  | signal v => exact safe_signal ih hI hE hX
  | memo b => exact safe_memo ih hI hE hX
  | selector eq b => exact safe_selectorStmt ih hI hE hX
  | effect b => exact safe_effect ih hI hE hX
  | scope b => exact safe_scope ih hI hE hX
  | set h e => exact safe_set ih hI hE hX
  | setSilent h e => exact safe_setSilentStmt ih hI hE hX
  | cleanup b => exact safe_cleanupStmt ih hI hE hX
  | dispose h => exact safe_dispose ih hI hE hX
  | disposeCur => exact safe_disposeCur ih hI hE hX
  | batch b => exact safe_batch ih hI hE hX
  | provide ty e => exact safe_provide ih hI hE hX
  | use ty => exact safe_use ih hI hE hX
  | runIn h b => exact safe_runIn ih hI hE hX

theorem safeAll : ∀ f, SafeAll f
  | 0 => safeAll_zero
  | f + 1 =>
    have ih := safeAll f
    { body := safe_body ih, inner := safe_inner ih, stmt := safe_stmt ih, closure := safe_closure ih,
      selector := safe_selector ih, update := safe_update ih, loop := safe_loop ih,
      nodeUpdates := safe_nodeUpdates ih, updates := safe_updates ih, dnode := safe_dnode ih,
      dchildren := safe_dchildren ih, rest := safe_rest ih, cleanups := safe_cleanups ih,
      dlist := safe_dlist ih }

/-! ### the initial state, top-level programs -/

theorem xinv_init : XInv Root.init := by
  refine ⟨?_, fun _ => rfl, fun q hq => (by cases hq), fun q hq => (by cases hq)⟩
  intro i n hn
  obtain ⟨_, rfl⟩ := init_get? hn
  exact ⟨fun _ _ => rfl, fun _ => rfl, fun hc => absurd rfl hc⟩

theorem runOps_safe (fuel : Nat) : ∀ (ops : List Stmt) (r : Root) (env : List Handle),
    RInv r → EnvLt r.nodes.size env → XInv r → Safe (runOps fuel ops r env) (fun p => XInv p.1)
  | [], r, env, _, _, hX => by simp only [runOps]; exact hX
  | s :: rest, r, env, hI, hE, hX => by
    simp only [runOps]
    have h1 := (safeAll fuel).stmt _ r ⟨env, 0, []⟩ s hI hE hX
    split
    · rename_i e he; rw [he] at h1; exact h1
    · rename_i r1 c1 he
      rw [he] at h1
      obtain ⟨i1, _, e1⟩ := (presAll fuel).stmt _ r ⟨env, 0, []⟩ s r1 c1 hI hE he
      exact runOps_safe fuel rest r1 c1.env i1 e1 h1.1

end SycVerif.Reactive
