/-
Helper definitions and lemmas for property C07 (`map_keyed` / `map_indexed`, model in
`SycVerif/Model/ListMap.lean`). The readable statements are in `SycVerif/Props/C07.lean`.
Core Lean only.
-/
import SycVerif.Model.ListMap
namespace SycVerif.ListMap

instance : Inhabited Item := ⟨⟨0, 0⟩⟩

/-! ### event projections -/

/-- the `(call id, item)` of the create events, in order -/
def creates : List Ev → List (Nat × Item)
  | [] => []
  | .create c it :: r => (c, it) :: creates r
  | .dispose _ :: r => creates r

/-- the tags of the dispose events, in order -/
def disposes : List Ev → List Nat
  | [] => []
  | .create _ _ :: r => disposes r
  | .dispose t :: r => t :: disposes r

@[simp] theorem creates_nil : creates [] = [] := rfl
@[simp] theorem disposes_nil : disposes [] = [] := rfl
@[simp] theorem creates_cons_create (c it r) : creates (.create c it :: r) = (c, it) :: creates r := rfl
@[simp] theorem creates_cons_dispose (t r) : creates (.dispose t :: r) = creates r := rfl
@[simp] theorem disposes_cons_create (c it r) : disposes (.create c it :: r) = disposes r := rfl
@[simp] theorem disposes_cons_dispose (t r) : disposes (.dispose t :: r) = t :: disposes r := rfl

@[simp] theorem creates_append (a b : List Ev) : creates (a ++ b) = creates a ++ creates b := by
  induction a with
  | nil => rfl
  | cons e a ih => cases e <;> simp [ih]

@[simp] theorem disposes_append (a b : List Ev) : disposes (a ++ b) = disposes a ++ disposes b := by
  induction a with
  | nil => rfl
  | cons e a ih => cases e <;> simp [ih]

theorem mem_creates {evs : List Ev} {c it} : (c, it) ∈ creates evs ↔ Ev.create c it ∈ evs := by
  induction evs with
  | nil => simp
  | cons e evs ih => cases e <;> simp [ih]

theorem mem_disposes {evs : List Ev} {t} : t ∈ disposes evs ↔ Ev.dispose t ∈ evs := by
  induction evs with
  | nil => simp
  | cons e evs ih => cases e <;> simp [ih]

/-! ### map_indexed -/

/-- coherence invariant of the `map_indexed` closure state -/
def ICoh (s : IState) : Prop :=
  s.mapped.length = s.items.length ∧ s.disposers = s.mapped ∧ (∀ t ∈ s.mapped, t < s.next) ∧ s.mapped.Nodup

/-- positions `i ≤ j < i + n` whose value changed or appeared -/
def recomputedFrom (items new : List Item) (i n : Nat) : List Nat :=
  (List.range' i n).filter (fun j => items[j]? ≠ new[j]?)

/-- positions `i ≤ j < i + n` whose value changed (and existed before) -/
def replacedFrom (items new : List Item) (i n : Nat) : List Nat :=
  (List.range' i n).filter (fun j => j < items.length ∧ items[j]? ≠ new[j]?)

theorem recomputedFrom_succ (items new : List Item) (i n : Nat) :
    recomputedFrom items new i (n + 1) =
      if items[i]? ≠ new[i]? then i :: recomputedFrom items new (i + 1) n
      else recomputedFrom items new (i + 1) n := by
  simp only [recomputedFrom, List.range'_succ, List.filter_cons, decide_eq_true_eq]

theorem replacedFrom_succ (items new : List Item) (i n : Nat) :
    replacedFrom items new i (n + 1) =
      if i < items.length ∧ items[i]? ≠ new[i]? then i :: replacedFrom items new (i + 1) n
      else replacedFrom items new (i + 1) n := by
  simp only [replacedFrom, List.range'_succ, List.filter_cons, decide_eq_true_eq]

theorem mem_recomputedFrom {items new : List Item} {i n j : Nat} :
    j ∈ recomputedFrom items new i n ↔ (i ≤ j ∧ j < i + n) ∧ items[j]? ≠ new[j]? := by
  simp [recomputedFrom, List.mem_range'_1]

theorem mem_replacedFrom {items new : List Item} {i n j : Nat} :
    j ∈ replacedFrom items new i n ↔ (i ≤ j ∧ j < i + n) ∧ j < items.length ∧ items[j]? ≠ new[j]? := by
  simp [replacedFrom, List.mem_range'_1]

theorem indexedLoop_spec (items new : List Item) :
    ∀ (n i next : Nat) (mapped : List Nat) (evs : List Ev), n = new.length - i → i ≤ new.length →
      mapped.length = max items.length i →
      ∃ next' mapped' evs', indexedLoop items (new.drop i) i next mapped mapped evs = .ok (next', mapped', mapped', evs') ∧
        mapped'.length = max items.length new.length ∧
        (∀ j, j < i ∨ new.length ≤ j → mapped'[j]? = mapped[j]?) ∧
        (∀ j : Nat, items[j]? = new[j]? → mapped'[j]? = mapped[j]?) ∧
        next' = next + (recomputedFrom items new i n).length ∧
        (recomputedFrom items new i n).map (fun j => mapped'[j]?)
          = (List.range' next (recomputedFrom items new i n).length).map some ∧
        (creates evs').map (fun p => (some p.1, some p.2))
          = (creates evs).map (fun p => (some p.1, some p.2))
            ++ (recomputedFrom items new i n).map (fun j => (mapped'[j]?, new[j]?)) ∧
        (disposes evs').map some
          = (disposes evs).map some ++ (replacedFrom items new i n).map (fun j => mapped[j]?) := by
  intro n
  induction n with
  | zero =>
    intro i next mapped evs hn hi hlen
    have : i = new.length := by omega
    subst this
    refine ⟨next, mapped, evs, ?_, ?_, ?_, ?_, ?_⟩
    · simp [indexedLoop]
    · simpa using hlen
    · intros; rfl
    · intros; rfl
    · simp [recomputedFrom, replacedFrom]
  | succ n ih =>
    intro i next mapped evs hn hi hlen
    have hi' : i < new.length := by omega
    rw [List.drop_eq_getElem_cons hi']
    unfold indexedLoop
    have hnew : new[i]? = some new[i] := by simp [hi']
    cases hit : items[i]? with
    | none =>
      have hil : items.length ≤ i := by simpa using hit
      obtain ⟨next', mapped', evs', h1, h2, h3, h4, h5, h6, h7, h8⟩ :=
        ih (i + 1) (next + 1) (mapped ++ [next]) (evs ++ [.create next new[i]]) (by omega) (by omega)
          (by simp [hlen]; omega)
      refine ⟨next', mapped', evs', by simpa using h1, h2, ?_, ?_, ?_, ?_, ?_, ?_⟩
      · intro j hj
        rw [h3 j (by omega)]
        have : mapped.length = i := by omega
        grind
      · intro j hj
        rw [h4 j hj]
        have : mapped.length = i := by omega
        have : j ≠ i := by grind
        grind
      all_goals
        have hml : mapped.length = i := by omega
        have hne : items[i]? ≠ new[i]? := by simp [hit, hnew]
        have hmi : mapped'[i]? = some next := by rw [h3 i (by omega)]; simp [hml]
        try rw [recomputedFrom_succ, if_pos hne]
      · simp [h5]; omega
      · simp [h6, hmi, List.range'_succ]
      · simp [h7, hmi, hnew]
      · rw [h8, replacedFrom_succ, if_neg (by omega)]
        simp only [disposes_append, disposes_cons_create, disposes_nil, List.append_nil]
        congr 1
        apply List.map_congr_left
        intro j hj
        have := (mem_replacedFrom.mp hj)
        rw [List.getElem?_append_left (by omega)]
    | some old =>
      have hil : i < items.length := by
        have := (List.getElem?_eq_some_iff.mp hit).1; exact this
      have hml : mapped.length = items.length := by omega
      by_cases hne : old = new[i]
      · -- unchanged position
        have heq : items[i]? = new[i]? := by simp [hit, hnew, hne]
        obtain ⟨next', mapped', evs', h1, h2, h3, h4, h5, h6, h7, h8⟩ :=
          ih (i + 1) next mapped evs (by omega) (by omega) (by omega)
        refine ⟨next', mapped', evs', by simpa [hne] using h1, h2, ?_, h4, ?_, ?_, ?_, ?_⟩
        · intro j hj; exact h3 j (by omega)
        all_goals
          try rw [recomputedFrom_succ, if_neg (by simp [heq])]
          try rw [replacedFrom_succ, if_neg (by simp [heq])]
          assumption
      · -- recomputed position
        have hneq : items[i]? ≠ new[i]? := by simp [hit, hnew, hne]
        have hmi : mapped[i]? = some mapped[i] := by simp [hml, hil]
        obtain ⟨next', mapped', evs', h1, h2, h3, h4, h5, h6, h7, h8⟩ :=
          ih (i + 1) (next + 1) (mapped.set i next) (evs ++ [.create next new[i], .dispose mapped[i]])
            (by omega) (by omega) (by simp; omega)
        have hmi' : mapped'[i]? = some next := by rw [h3 i (by omega)]; simp [hml, hil]
        refine ⟨next', mapped', evs', ?_, h2, ?_, ?_, ?_, ?_, ?_, ?_⟩
        · simp only [hmi]; simpa [hne, hml, hil] using h1
        · intro j hj
          rw [h3 j (by omega)]
          grind
        · intro j hj
          rw [h4 j hj]
          have : j ≠ i := by grind
          grind
        all_goals
          try rw [recomputedFrom_succ, if_pos hneq]
          try rw [replacedFrom_succ, if_pos ⟨hil, hneq⟩]
        · simp [h5]; omega
        · simp [h6, hmi', List.range'_succ]
        · simp [h7, hmi', hnew]
        · rw [h8]
          simp only [disposes_append, disposes_cons_create, disposes_cons_dispose, disposes_nil,
            List.map_append, List.map_cons, List.map_nil, List.append_assoc, List.cons_append, List.nil_append, hmi]
          congr 2
          apply List.map_congr_left
          intro j hj
          have := (mem_replacedFrom.mp hj)
          grind

theorem popLoop_spec : ∀ (n : Nat) (disp : List Nat) (evs : List Ev), n ≤ disp.length →
    ∃ evs', popLoop n disp evs = .ok (disp.take (disp.length - n), evs') ∧ creates evs' = creates evs ∧
      disposes evs' = disposes evs ++ (disp.drop (disp.length - n)).reverse := by
  intro n
  induction n with
  | zero => intro disp evs _; exact ⟨evs, by simp [popLoop]⟩
  | succ n ih =>
    intro disp evs h
    rcases List.eq_nil_or_concat disp with rfl | ⟨L, t, rfl⟩
    · simp at h
    · simp only [List.concat_eq_append] at h ⊢
      simp at h
      obtain ⟨evs', h1, h2, h3⟩ := ih L (evs ++ [.dispose t]) h
      refine ⟨evs', ?_, by simpa using h2, ?_⟩
      · unfold popLoop
        simp [h1]
        rw [List.take_append_of_le_length (by omega)]
      · rw [h3]
        have : (L ++ [t]).length - (n + 1) = L.length - n := by simp
        rw [this, List.drop_append_of_le_length (by omega)]
        simp

end SycVerif.ListMap
