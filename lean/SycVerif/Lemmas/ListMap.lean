/-
Helper definitions and lemmas for property C07 (`map_keyed` / `map_indexed`, model in
`SycVerif/Model/ListMap.lean`). The readable statements are in `SycVerif/Props/C07.lean`.
Core Lean only.
-/
import SycVerif.Model.ListMap
namespace SycVerif.ListMap

instance : Inhabited Item := ⟨⟨0, 0⟩⟩

/-! ### event projections -/

/-- the `(call id, item)` of the create events, in order -/
def creates : List Ev → List (Nat × Item)
  | [] => []
  | .create c it :: r => (c, it) :: creates r
  | .dispose _ :: r => creates r

/-- the tags of the dispose events, in order -/
def disposes : List Ev → List Nat
  | [] => []
  | .create _ _ :: r => disposes r
  | .dispose t :: r => t :: disposes r

@[simp] theorem creates_nil : creates [] = [] := rfl
@[simp] theorem disposes_nil : disposes [] = [] := rfl
@[simp] theorem creates_cons_create (c it r) : creates (.create c it :: r) = (c, it) :: creates r := rfl
@[simp] theorem creates_cons_dispose (t r) : creates (.dispose t :: r) = creates r := rfl
@[simp] theorem disposes_cons_create (c it r) : disposes (.create c it :: r) = disposes r := rfl
@[simp] theorem disposes_cons_dispose (t r) : disposes (.dispose t :: r) = t :: disposes r := rfl

@[simp] theorem creates_append (a b : List Ev) : creates (a ++ b) = creates a ++ creates b := by
  induction a with
  | nil => rfl
  | cons e a ih => cases e <;> simp [ih]

@[simp] theorem disposes_append (a b : List Ev) : disposes (a ++ b) = disposes a ++ disposes b := by
  induction a with
  | nil => rfl
  | cons e a ih => cases e <;> simp [ih]

@[simp] theorem creates_map_dispose (l : List Nat) : creates (l.map .dispose) = [] := by
  induction l <;> simp_all

@[simp] theorem disposes_map_dispose (l : List Nat) : disposes (l.map .dispose) = l := by
  induction l <;> simp_all

theorem mem_creates {evs : List Ev} {c it} : (c, it) ∈ creates evs ↔ Ev.create c it ∈ evs := by
  induction evs with
  | nil => simp
  | cons e evs ih => cases e <;> simp [ih]

theorem mem_disposes {evs : List Ev} {t} : t ∈ disposes evs ↔ Ev.dispose t ∈ evs := by
  induction evs with
  | nil => simp
  | cons e evs ih => cases e <;> simp [ih]

/-! ### generic list lemmas -/

theorem getElem_of_map_eq_range' {R : List Nat} {f : Nat → Nat} {s : Nat}
    (h : R.map f = List.range' s R.length) {j : Nat} (hj : j ∈ R) :
    ∃ a, ∃ h : a < R.length, R[a] = j ∧ f j = s + a := by
  obtain ⟨a, ha, rfl⟩ := List.mem_iff_getElem.mp hj
  refine ⟨a, ha, rfl, ?_⟩
  have := congrArg (fun l => l[a]?) h
  simpa [ha] using this

theorem asc_of_map_eq_range' {R : List Nat} {f : Nat → Nat} {s : Nat} (hR : R.Pairwise (· < ·))
    (h : R.map f = List.range' s R.length) {j1 j2 : Nat} (h1 : j1 ∈ R) (h2 : j2 ∈ R) (hlt : j1 < j2) :
    f j1 < f j2 := by
  obtain ⟨a, ha, rfl, ea⟩ := getElem_of_map_eq_range' h h1
  obtain ⟨b, hb, rfl, eb⟩ := getElem_of_map_eq_range' h h2
  rw [ea, eb]
  have hp := List.pairwise_iff_getElem.mp hR
  have : a < b := by
    rcases Nat.lt_trichotomy a b with h | h | h
    · exact h
    · subst h; omega
    · have := hp b a hb ha h; omega
  omega

theorem drop_eq_map_range' (l : List Nat) (k : Nat) :
    l.drop k = (List.range' k (l.length - k)).map (fun j => l[j]!) := by
  apply List.ext_getElem?
  intro i
  simp [List.getElem?_drop]
  grind

theorem nodup_of_getElem?_inj {α : Type} {l : List α}
    (h : ∀ (i j : Nat) (x : α), i < j → l[i]? = some x → l[j]? = some x → False) : l.Nodup := by
  rw [List.Nodup, List.pairwise_iff_getElem]
  intro i j hi hj hij heq
  exact h i j l[i] hij (by simp [hi]) (by simp [hj, heq])

theorem nodup_getElem?_inj {α : Type} {l : List α} (h : l.Nodup) {i j : Nat} {x : α}
    (hi : l[i]? = some x) (hj : l[j]? = some x) : i = j := by
  rw [List.Nodup, List.pairwise_iff_getElem] at h
  obtain ⟨hi', rfl⟩ := List.getElem?_eq_some_iff.mp hi
  obtain ⟨hj', e⟩ := List.getElem?_eq_some_iff.mp hj
  rcases Nat.lt_trichotomy i j with hlt | heq | hgt
  · exact absurd e.symm (h i j hi' hj' hlt)
  · exact heq
  · exact absurd e (h j i hj' hi' hgt)

theorem unlift_pairs {C : List (Nat × Item)} {R : List Nat} {f : Nat → Option Nat} {g : Nat → Option Item}
    (h : C.map (fun p => (some p.1, some p.2)) = R.map (fun j => (f j, g j))) :
    C = R.map (fun j => ((f j).getD default, (g j).getD default)) := by
  have := congrArg (List.map (fun q : Option Nat × Option Item => (q.1.getD default, q.2.getD default))) h
  simpa [List.map_map, Function.comp_def] using this

theorem unlift_map {C : List Nat} {R : List Nat} {f : Nat → Option Nat}
    (h : C.map some = R.map f) : C = R.map (fun j => (f j).getD default) := by
  have := congrArg (List.map (fun q : Option Nat => q.getD default)) h
  simpa [List.map_map, Function.comp_def] using this

/-! ### map_indexed -/

/-- positions `i ≤ j < i + n` whose value changed or appeared -/
def recomputedFrom (items new : List Item) (i n : Nat) : List Nat :=
  (List.range' i n).filter (fun j => items[j]? ≠ new[j]?)

/-- positions `i ≤ j < i + n` whose value changed (and existed before) -/
def replacedFrom (items new : List Item) (i n : Nat) : List Nat :=
  (List.range' i n).filter (fun j => j < items.length ∧ items[j]? ≠ new[j]?)

theorem recomputedFrom_succ (items new : List Item) (i n : Nat) :
    recomputedFrom items new i (n + 1) =
      if items[i]? ≠ new[i]? then i :: recomputedFrom items new (i + 1) n
      else recomputedFrom items new (i + 1) n := by
  simp only [recomputedFrom, List.range'_succ, List.filter_cons, decide_eq_true_eq]

theorem replacedFrom_succ (items new : List Item) (i n : Nat) :
    replacedFrom items new i (n + 1) =
      if i < items.length ∧ items[i]? ≠ new[i]? then i :: replacedFrom items new (i + 1) n
      else replacedFrom items new (i + 1) n := by
  simp only [replacedFrom, List.range'_succ, List.filter_cons, decide_eq_true_eq]

theorem mem_recomputedFrom {items new : List Item} {i n j : Nat} :
    j ∈ recomputedFrom items new i n ↔ (i ≤ j ∧ j < i + n) ∧ items[j]? ≠ new[j]? := by
  simp [recomputedFrom, List.mem_range'_1]

theorem mem_replacedFrom {items new : List Item} {i n j : Nat} :
    j ∈ replacedFrom items new i n ↔ (i ≤ j ∧ j < i + n) ∧ j < items.length ∧ items[j]? ≠ new[j]? := by
  simp [replacedFrom, List.mem_range'_1]

theorem indexedLoop_spec (items new : List Item) :
    ∀ (n i next : Nat) (mapped : List Nat) (evs : List Ev), n = new.length - i → i ≤ new.length →
      mapped.length = max items.length i →
      ∃ next' mapped' evs', indexedLoop items (new.drop i) i next mapped mapped evs = .ok (next', mapped', mapped', evs') ∧
        mapped'.length = max items.length new.length ∧
        (∀ j, j < i ∨ new.length ≤ j → mapped'[j]? = mapped[j]?) ∧
        (∀ j : Nat, items[j]? = new[j]? → mapped'[j]? = mapped[j]?) ∧
        next' = next + (recomputedFrom items new i n).length ∧
        (recomputedFrom items new i n).map (fun j => mapped'[j]?)
          = (List.range' next (recomputedFrom items new i n).length).map some ∧
        (creates evs').map (fun p => (some p.1, some p.2))
          = (creates evs).map (fun p => (some p.1, some p.2))
            ++ (recomputedFrom items new i n).map (fun j => (mapped'[j]?, new[j]?)) ∧
        (disposes evs').map some
          = (disposes evs).map some ++ (replacedFrom items new i n).map (fun j => mapped[j]?) := by
  intro n
  induction n with
  | zero =>
    intro i next mapped evs hn hi hlen
    have : i = new.length := by omega
    subst this
    refine ⟨next, mapped, evs, ?_, ?_, ?_, ?_, ?_⟩
    · simp [indexedLoop]
    · simpa using hlen
    · intros; rfl
    · intros; rfl
    · simp [recomputedFrom, replacedFrom]
  | succ n ih =>
    intro i next mapped evs hn hi hlen
    have hi' : i < new.length := by omega
    rw [List.drop_eq_getElem_cons hi']
    unfold indexedLoop
    have hnew : new[i]? = some new[i] := by simp [hi']
    cases hit : items[i]? with
    | none =>
      have hil : items.length ≤ i := by simpa using hit
      obtain ⟨next', mapped', evs', h1, h2, h3, h4, h5, h6, h7, h8⟩ :=
        ih (i + 1) (next + 1) (mapped ++ [next]) (evs ++ [.create next new[i]]) (by omega) (by omega)
          (by simp [hlen]; omega)
      refine ⟨next', mapped', evs', by simpa using h1, h2, ?_, ?_, ?_, ?_, ?_, ?_⟩
      · intro j hj
        rw [h3 j (by omega)]
        have : mapped.length = i := by omega
        grind
      · intro j hj
        rw [h4 j hj]
        have : mapped.length = i := by omega
        have : j ≠ i := by grind
        grind
      all_goals
        have hml : mapped.length = i := by omega
        have hne : items[i]? ≠ new[i]? := by simp [hit, hnew]
        have hmi : mapped'[i]? = some next := by rw [h3 i (by omega)]; simp [hml]
        try rw [recomputedFrom_succ, if_pos hne]
      · simp [h5]; omega
      · simp [h6, hmi, List.range'_succ]
      · simp [h7, hmi, hnew]
      · rw [h8, replacedFrom_succ, if_neg (by omega)]
        simp only [disposes_append, disposes_cons_create, disposes_nil, List.append_nil]
        congr 1
        apply List.map_congr_left
        intro j hj
        have := (mem_replacedFrom.mp hj)
        rw [List.getElem?_append_left (by omega)]
    | some old =>
      have hil : i < items.length := by
        have := (List.getElem?_eq_some_iff.mp hit).1; exact this
      have hml : mapped.length = items.length := by omega
      by_cases hne : old = new[i]
      · -- unchanged position
        have heq : items[i]? = new[i]? := by simp [hit, hnew, hne]
        obtain ⟨next', mapped', evs', h1, h2, h3, h4, h5, h6, h7, h8⟩ :=
          ih (i + 1) next mapped evs (by omega) (by omega) (by omega)
        refine ⟨next', mapped', evs', by simpa [hne] using h1, h2, ?_, h4, ?_, ?_, ?_, ?_⟩
        · intro j hj; exact h3 j (by omega)
        all_goals
          try rw [recomputedFrom_succ, if_neg (by simp [heq])]
          try rw [replacedFrom_succ, if_neg (by simp [heq])]
          assumption
      · -- recomputed position
        have hneq : items[i]? ≠ new[i]? := by simp [hit, hnew, hne]
        have hmi : mapped[i]? = some mapped[i] := by simp [hml, hil]
        obtain ⟨next', mapped', evs', h1, h2, h3, h4, h5, h6, h7, h8⟩ :=
          ih (i + 1) (next + 1) (mapped.set i next) (evs ++ [.create next new[i], .dispose mapped[i]])
            (by omega) (by omega) (by simp; omega)
        have hmi' : mapped'[i]? = some next := by rw [h3 i (by omega)]; simp [hml, hil]
        refine ⟨next', mapped', evs', ?_, h2, ?_, ?_, ?_, ?_, ?_, ?_⟩
        · simp only [hmi]; simpa [hne, hml, hil] using h1
        · intro j hj
          rw [h3 j (by omega)]
          grind
        · intro j hj
          rw [h4 j hj]
          have : j ≠ i := by grind
          grind
        all_goals
          try rw [recomputedFrom_succ, if_pos hneq]
          try rw [replacedFrom_succ, if_pos ⟨hil, hneq⟩]
        · simp [h5]; omega
        · simp [h6, hmi', List.range'_succ]
        · simp [h7, hmi', hnew]
        · rw [h8]
          simp only [disposes_append, disposes_cons_create, disposes_cons_dispose, disposes_nil,
            List.map_append, List.map_cons, List.map_nil, List.append_assoc, List.cons_append, List.nil_append, hmi]
          congr 2
          apply List.map_congr_left
          intro j hj
          have := (mem_replacedFrom.mp hj)
          grind

theorem popLoop_spec : ∀ (n : Nat) (disp : List Nat) (evs : List Ev), n ≤ disp.length →
    ∃ evs', popLoop n disp evs = .ok (disp.take (disp.length - n), evs') ∧ creates evs' = creates evs ∧
      disposes evs' = disposes evs ++ (disp.drop (disp.length - n)).reverse := by
  intro n
  induction n with
  | zero => intro disp evs _; exact ⟨evs, by simp [popLoop]⟩
  | succ n ih =>
    intro disp evs h
    rcases List.eq_nil_or_concat disp with rfl | ⟨L, t, rfl⟩
    · simp at h
    · simp only [List.concat_eq_append] at h ⊢
      simp at h
      obtain ⟨evs', h1, h2, h3⟩ := ih L (evs ++ [.dispose t]) h
      refine ⟨evs', ?_, by simpa using h2, ?_⟩
      · unfold popLoop
        simp [h1]
        rw [List.take_append_of_le_length (by omega)]
      · rw [h3]
        have : (L ++ [t]).length - (n + 1) = L.length - n := by simp
        rw [this, List.drop_append_of_le_length (by omega)]
        simp


/-! ### map_keyed -/

def keys (l : List Item) : List Nat := l.map (·.key)

@[simp] theorem length_keys (l : List Item) : (keys l).length = l.length := by simp [keys]
@[simp] theorem getElem?_keys (l : List Item) (i : Nat) : (keys l)[i]? = (l[i]?).map (·.key) := by simp [keys]

theorem mem_keys {l : List Item} {k : Nat} : k ∈ keys l ↔ ∃ (i : Nat) (it : Item), l[i]? = some it ∧ it.key = k := by
  constructor
  · intro h
    obtain ⟨i, hi⟩ := List.mem_iff_getElem?.mp h
    simp at hi
    obtain ⟨it, h1, h2⟩ := hi
    exact ⟨i, it, h1, h2⟩
  · rintro ⟨i, it, h, rfl⟩
    exact List.mem_iff_getElem?.mpr ⟨i, by simp [h]⟩

theorem keys_inj {l : List Item} (h : (keys l).Nodup) {i j : Nat} {a b : Item}
    (hi : l[i]? = some a) (hj : l[j]? = some b) (hk : a.key = b.key) : i = j :=
  nodup_getElem?_inj h (x := a.key) (by simp [hi]) (by simp [hj, hk])

theorem IdxMap.get_nil (k : Nat) : IdxMap.get [] k = none := rfl
theorem IdxMap.get_cons (p : Nat × Nat) (m : IdxMap) (k : Nat) :
    IdxMap.get (p :: m) k = if p.1 = k then some p.2 else IdxMap.get m k := by
  simp only [IdxMap.get, List.find?_cons]
  by_cases h : p.1 = k
  · have : (p.1 == k) = true := by simp [h]
    rw [this]; simp [h]
  · have : (p.1 == k) = false := by simp [h]
    rw [this]; simp [h]

theorem IdxMap.get_map_ne (m : IdxMap) (k v k' : Nat) (h : k' ≠ k) :
    IdxMap.get (m.map (fun p => if p.1 = k then (k, v) else p)) k' = IdxMap.get m k' := by
  induction m with
  | nil => rfl
  | cons p m ih =>
    rw [List.map_cons, IdxMap.get_cons, IdxMap.get_cons, ih]
    by_cases hp : p.1 = k
    · have : ¬ k = k' := fun e => h e.symm
      have : ¬ p.1 = k' := by omega
      simp [*]
    · simp [hp]

theorem IdxMap.get_map_eq (m : IdxMap) (k v : Nat) (h : m.any (·.1 == k) = true) :
    IdxMap.get (m.map (fun p => if p.1 = k then (k, v) else p)) k = some v := by
  induction m with
  | nil => simp at h
  | cons p m ih =>
    rw [List.map_cons, IdxMap.get_cons]
    by_cases hp : p.1 = k
    · simp [hp]
    · simp only [hp, if_false]
      apply ih
      simpa [hp] using h

theorem IdxMap.get_eq_none_of_not_any (m : IdxMap) (k : Nat) (h : ¬ m.any (·.1 == k) = true) :
    IdxMap.get m k = none := by
  induction m with
  | nil => rfl
  | cons p m ih =>
    rw [IdxMap.get_cons]
    simp at h
    simp [h.1]
    exact ih (by simpa using h.2)

theorem IdxMap.get_insert (m : IdxMap) (k v k' : Nat) :
    (IdxMap.insert m k v).get k' = if k' = k then some v else m.get k' := by
  unfold IdxMap.insert
  simp only [beq_iff_eq]
  split
  · rename_i hany
    by_cases hk : k' = k
    · subst hk; simp [IdxMap.get_map_eq m k' v (by simpa using hany)]
    · simp [hk, IdxMap.get_map_ne m k v k' hk]
  · rename_i hany
    have hn := IdxMap.get_eq_none_of_not_any m k (by simpa using hany)
    by_cases hk : k' = k
    · subst hk
      have hf : m.find? (fun x => x.1 == k') = none := by
        simpa only [IdxMap.get, Option.map_eq_none_iff] using hn
      simp [IdxMap.get, List.find?_append, hf]
    · have : ¬ k = k' := fun e => hk e.symm
      simp [IdxMap.get, List.find?_append, hk, this]


theorem commonPrefix_spec : ∀ (I N : List Item),
    commonPrefix I N ≤ I.length ∧ commonPrefix I N ≤ N.length ∧
    (∀ i : Nat, i < commonPrefix I N → I[i]? = N[i]?) ∧
    (commonPrefix I N < I.length → commonPrefix I N < N.length → I[commonPrefix I N]? ≠ N[commonPrefix I N]?)
  | [], _ => by simp [commonPrefix]
  | _ :: _, [] => by simp [commonPrefix]
  | a :: as, b :: bs => by
    obtain ⟨h1, h2, h3, h4⟩ := commonPrefix_spec as bs
    unfold commonPrefix
    by_cases hab : a = b
    · subst hab
      simp only [if_true]
      refine ⟨by simp; omega, by simp; omega, ?_, ?_⟩
      · intro i hi
        cases i with
        | zero => simp
        | succ i => simpa using h3 i (by omega)
      · intro ha hb
        simpa using h4 (by simpa using ha) (by simpa using hb)
    · simp [hab]

theorem suf_tmp_step {T : List (Option Nat)} {M : List Nat} {nl e ne m : Nat}
    (h : ∀ j : Nat, j < nl → T[j]? = some (if j < ne then none else M[e + (j - ne)]?))
    (hT : T.length = nl) (hne : 0 < ne) (he : 0 < e) (_hnl : ne ≤ nl) (hm : M[e - 1]? = some m) :
    ∀ j : Nat, j < nl → (T.set (ne - 1) (some m))[j]? = some (if j < ne - 1 then none else M[e - 1 + (j - (ne - 1))]?) := by
  intro j hj
  rw [List.getElem?_set]
  by_cases hjn : ne - 1 = j
  · subst hjn
    simp [hT, hj, hm]
  · rw [if_neg hjn, h j hj]
    by_cases h1 : j < ne
    · rw [if_pos h1, if_pos (by omega)]
    · rw [if_neg h1, if_neg (by omega)]
      have : e - 1 + (j - (ne - 1)) = e + (j - ne) := by omega
      rw [this]

theorem suf_disp_step {D : List (Option Nat)} {M : List Nat} {il e : Nat}
    (h : ∀ i : Nat, i < il → D[i]? = some (if i < e then M[i]? else none))
    (hD : D.length = il) (he : 0 < e) :
    ∀ i : Nat, i < il → (D.set (e - 1) none)[i]? = some (if i < e - 1 then M[i]? else none) := by
  intro i hi
  rw [List.getElem?_set]
  by_cases hjn : e - 1 = i
  · subst hjn
    simp [hD, hi]
  · rw [if_neg hjn, h i hi]
    by_cases h1 : i < e
    · rw [if_pos h1, if_pos (by omega)]
    · rw [if_neg h1, if_neg (by omega)]

/-- state of the work arrays after the common suffix `items[e..] = new[ne..]` has been skipped -/
structure SufInv (I N : List Item) (M : List Nat) (st e ne : Nat) (w : Work) : Prop where
  hse : st ≤ e
  hsne : st ≤ ne
  hel : e ≤ I.length
  hlen : I.length + ne = N.length + e
  hsuf : ∀ k : Nat, I[e + k]? = N[ne + k]?
  tmpLen : w.mappedTmp.length = N.length
  tmp : ∀ j : Nat, j < N.length → w.mappedTmp[j]? = some (if j < ne then none else M[e + (j - ne)]?)
  dtmp : w.disposersTmp = w.mappedTmp
  dispLen : w.disposers.length = I.length
  disp : ∀ i : Nat, i < I.length → w.disposers[i]? = some (if i < e then M[i]? else none)

theorem suffixLoop_spec (I N : List Item) (M : List Nat) (st : Nat) (hM : M.length = I.length) :
    ∀ (fuel e ne : Nat) (w : Work), SufInv I N M st e ne w → e ≤ fuel + st →
      ∃ e' ne' w', suffixLoop I N M st fuel e ne w = .ok (e', ne', w') ∧ SufInv I N M st e' ne' w' ∧
        (e' = st ∨ ne' = st ∨ I[e' - 1]? ≠ N[ne' - 1]?) := by
  intro fuel
  induction fuel with
  | zero =>
    intro e ne w inv hf
    exact ⟨e, ne, w, rfl, inv, Or.inl (by have := inv.hse; omega)⟩
  | succ fuel ih =>
    intro e ne w inv hf
    unfold suffixLoop
    by_cases hc : e > st ∧ ne > st ∧ I[e - 1]? = N[ne - 1]? ∧ (I[e - 1]?).isSome
    · rw [if_pos hc]
      obtain ⟨c1, c2, c3, c4⟩ := hc
      have hel := inv.hel
      have hlen := inv.hlen
      have hm : M[e - 1]? = some M[e - 1] := by simp
      have hd : w.disposers[e - 1]? = some (some M[e - 1]) := by
        rw [inv.disp (e - 1) (by omega), if_pos (by omega), hm]
      simp only [hm, hd]
      apply ih
      · constructor
        · omega
        · omega
        · omega
        · omega
        · intro k
          cases k with
          | zero => simpa using c3
          | succ k =>
            have := inv.hsuf k
            have e1 : e - 1 + (k + 1) = e + k := by omega
            have e2 : ne - 1 + (k + 1) = ne + k := by omega
            rw [e1, e2]; exact this
        · simp [inv.tmpLen]
        · exact suf_tmp_step inv.tmp inv.tmpLen (by omega) (by omega) (by omega) hm
        · simp [inv.dtmp]
        · simp [inv.dispLen]
        · exact suf_disp_step inv.disp inv.dispLen (by omega)
      · omega
    · rw [if_neg hc]
      refine ⟨e, ne, w, rfl, inv, ?_⟩
      have := inv.hse; have := inv.hsne; have := inv.hel
      by_cases h1 : e = st
      · exact Or.inl h1
      by_cases h2 : ne = st
      · exact Or.inr (Or.inl h2)
      refine Or.inr (Or.inr ?_)
      intro h3
      apply hc
      refine ⟨by omega, by omega, h3, ?_⟩
      have : e - 1 < I.length := by omega
      simp [this]


theorem set_replicate_none (c x : Nat) :
    (List.replicate c (none : Option Nat)).set x none = List.replicate c none := by
  apply List.ext_getElem?
  intro i
  simp

theorem buildIndices_spec (N : List Item) (st c : Nat) (hN : (keys N).Nodup) :
    ∀ (js : List Nat) (m : IdxMap) (P : Nat → Prop),
      (∀ j ∈ js, j < N.length ∧ ¬ P j) → js.Nodup →
      (∀ k j : Nat, m.get k = some j ↔ P j ∧ (keys N)[j]? = some k) →
      ∃ m', buildIndices N st js m (List.replicate c none) = .ok (m', List.replicate c none) ∧
        ∀ k j : Nat, m'.get k = some j ↔ (P j ∨ j ∈ js) ∧ (keys N)[j]? = some k := by
  intro js
  induction js with
  | nil =>
    intro m P _ _ hm
    exact ⟨m, rfl, by simpa using hm⟩
  | cons j js ih =>
    intro m P hjs hnd hm
    have hj := hjs j (by simp)
    have hNj : N[j]? = some N[j] := by simp [hj.1]
    unfold buildIndices
    simp only [hNj]
    have hget : m.get N[j].key = none := by
      cases hg : m.get N[j].key with
      | none => rfl
      | some j' =>
        exfalso
        obtain ⟨hP, hk⟩ := (hm _ _).mp hg
        have hkj : (keys N)[j]? = some N[j].key := by simp [hNj]
        have := nodup_getElem?_inj hN hk hkj
        subst this
        exact hj.2 hP
    rw [hget, set_replicate_none]
    simp at hnd
    obtain ⟨m', h1, h2⟩ := ih (m.insert N[j].key j) (fun x => P x ∨ x = j)
      (by
        intro j2 hj2
        refine ⟨(hjs j2 (by simp [hj2])).1, ?_⟩
        rintro (hp | rfl)
        · exact (hjs j2 (by simp [hj2])).2 hp
        · exact hnd.1 hj2)
      hnd.2
      (by
        intro k j2
        rw [IdxMap.get_insert]
        by_cases hk : k = N[j].key
        · subst hk
          simp only [if_true]
          constructor
          · intro h; simp at h; subst h; exact ⟨Or.inr rfl, by simp [hNj]⟩
          · rintro ⟨hp | rfl, hk2⟩
            · have := (hm _ _).mpr ⟨hp, hk2⟩; rw [hget] at this; cases this
            · rfl
        · rw [if_neg hk, hm]
          constructor
          · rintro ⟨a, b⟩; exact ⟨Or.inl a, b⟩
          · rintro ⟨hp | rfl, hk2⟩
            · exact ⟨hp, hk2⟩
            · simp [hNj] at hk2; exact absurd hk2.symm hk)
    refine ⟨m', h1, ?_⟩
    intro k j2
    rw [h2]
    simp only [List.mem_cons]
    constructor
    · rintro ⟨(hp | rfl) | hp, hk⟩
      · exact ⟨Or.inl hp, hk⟩
      · exact ⟨Or.inr (Or.inl rfl), hk⟩
      · exact ⟨Or.inr (Or.inr hp), hk⟩
    · rintro ⟨hp | rfl | hp, hk⟩
      · exact ⟨Or.inl (Or.inl hp), hk⟩
      · exact ⟨Or.inl (Or.inr rfl), hk⟩
      · exact ⟨Or.inr hp, hk⟩


@[simp] theorem replicate_none_join (c x : Nat) : ((List.replicate c (none : Option Nat))[x]?).join = none := by
  rw [List.getElem?_replicate]; split <;> rfl

/-- state of the work arrays when the move loop has processed old positions `st ≤ i < c` -/
structure MovInv (I N : List Item) (M : List Nat) (st e ne c : Nat) (w : Work) : Prop where
  tmpLen : w.mappedTmp.length = N.length
  dtmp : w.disposersTmp = w.mappedTmp
  dispLen : w.disposers.length = I.length
  disp : ∀ i : Nat, i < I.length → w.disposers[i]? = some (if i < st ∨ (c ≤ i ∧ i < e) then M[i]? else none)
  lo : ∀ j : Nat, j < st → w.mappedTmp[j]? = some none
  hi : ∀ j : Nat, ne ≤ j → j < N.length → w.mappedTmp[j]? = some M[e + (j - ne)]?
  hit : ∀ j i : Nat, st ≤ j → j < ne → st ≤ i → i < c → (keys I)[i]? = (keys N)[j]? → w.mappedTmp[j]? = some M[i]?
  miss : ∀ j : Nat, st ≤ j → j < ne → (∀ i : Nat, st ≤ i → i < c → (keys I)[i]? ≠ (keys N)[j]?) →
    w.mappedTmp[j]? = some none

theorem mov_disp_step {D : List (Option Nat)} {M : List Nat} {il st e c : Nat}
    (h : ∀ i : Nat, i < il → D[i]? = some (if i < st ∨ (c ≤ i ∧ i < e) then M[i]? else none))
    (hD : D.length = il) (hc : st ≤ c) :
    ∀ i : Nat, i < il → (D.set c none)[i]? = some (if i < st ∨ (c + 1 ≤ i ∧ i < e) then M[i]? else none) := by
  intro i hi
  rw [List.getElem?_set]
  by_cases hjn : c = i
  · subst hjn
    rw [if_pos rfl, if_pos (by omega), if_neg (by omega)]
  · rw [if_neg hjn, h i hi]
    by_cases h1 : i < st ∨ (c ≤ i ∧ i < e)
    · rw [if_pos h1, if_pos (by omega)]
    · rw [if_neg h1, if_neg (by omega)]

theorem moveLoop_spec (I N : List Item) (M : List Nat) (st e ne cx : Nat) (m : IdxMap)
    (hM : M.length = I.length) (hI : (keys I).Nodup) (hN : (keys N).Nodup)
    (hne : ne ≤ N.length) (hel : e ≤ I.length)
    (hm : ∀ k j : Nat, m.get k = some j ↔ (st ≤ j ∧ j < ne) ∧ (keys N)[j]? = some k) :
    ∀ (n c : Nat) (w : Work) (evs : List Ev), n = e - c → st ≤ c → c ≤ e → MovInv I N M st e ne c w →
      ∃ w' evs', moveLoop I M st (List.range' c n) m (List.replicate cx none) w evs = .ok (m, w', evs') ∧
        MovInv I N M st e ne e w' ∧ creates evs' = creates evs ∧
        (disposes evs').map some = (disposes evs).map some ++
          ((List.range' c n).filter (fun i => ((keys I)[i]?).bind m.get = none)).map (fun i => M[i]?) := by
  intro n
  induction n with
  | zero =>
    intro c w evs hn hsc hce inv
    have : c = e := by omega
    subst this
    exact ⟨w, evs, rfl, inv, rfl, by simp⟩
  | succ n ih =>
    intro c w evs hn hsc hce inv
    have hcl : c < I.length := by omega
    have hIc : I[c]? = some I[c] := by simp [hcl]
    have hkc : (keys I)[c]? = some I[c].key := by simp [hIc]
    have hMc : M[c]? = some M[c] := by simp [hM, hcl]
    have hDc : w.disposers[c]? = some (some M[c]) := by
      rw [inv.disp c hcl, if_pos (by omega), hMc]
    rw [List.range'_succ]
    unfold moveLoop
    simp only [hIc]
    cases hg : m.get I[c].key with
    | some j =>
      obtain ⟨⟨hj1, hj2⟩, hjk⟩ := (hm _ _).mp hg
      simp only [hMc, hDc, replicate_none_join, List.length_set, inv.tmpLen]
      rw [if_pos (by omega)]
      obtain ⟨w', evs', h1, h2, h3, h4⟩ := ih (c + 1)
        { mappedTmp := w.mappedTmp.set j (some M[c]), disposersTmp := w.disposersTmp.set j (some M[c]),
          disposers := w.disposers.set c none } evs (by omega) (by omega) (by omega)
        (by
          constructor
          · simp [inv.tmpLen]
          · simp [inv.dtmp]
          · simp [inv.dispLen]
          · exact mov_disp_step inv.disp inv.dispLen hsc
          · intro j' hj'
            simp only []
            rw [List.getElem?_set, if_neg (by omega)]
            exact inv.lo j' hj'
          · intro j' h1 h2
            simp only []
            rw [List.getElem?_set, if_neg (by omega)]
            exact inv.hi j' h1 h2
          · intro j' i h1 h2 h3 h4 hk
            simp only []
            rw [List.getElem?_set]
            by_cases hjj : j = j'
            · subst hjj
              rw [if_pos rfl, if_pos (by rw [inv.tmpLen]; omega)]
              have : (keys I)[i]? = (keys I)[c]? := by rw [hk, hjk, hkc]
              have hi : i < I.length := by omega
              have : i = c := nodup_getElem?_inj hI (x := I[c].key) (by rw [this, hkc]) hkc
              subst this
              rw [hMc]
            · rw [if_neg hjj]
              by_cases hic : i = c
              · subst hic
                exfalso
                have : j' = j := nodup_getElem?_inj hN (x := I[i].key) (by rw [← hk, hkc]) hjk
                exact hjj this.symm
              · exact inv.hit j' i h1 h2 h3 (by omega) hk
          · intro j' h1 h2 hno
            simp only []
            rw [List.getElem?_set]
            by_cases hjj : j = j'
            · subst hjj
              exact absurd (by rw [hkc, hjk]) (hno c hsc (by omega))
            · rw [if_neg hjj]
              exact inv.miss j' h1 h2 (fun i a b => hno i a (by omega)))
      refine ⟨w', evs', h1, h2, h3, ?_⟩
      rw [h4, List.filter_cons]
      have : ¬ (decide (((keys I)[c]?).bind m.get = none) = true) := by simp [hkc, hg]
      rw [if_neg this]
    | none =>
      simp only [hDc]
      obtain ⟨w', evs', h1, h2, h3, h4⟩ := ih (c + 1)
        { w with disposers := w.disposers.set c none } (evs ++ [.dispose M[c]]) (by omega) (by omega) (by omega)
        (by
          constructor
          · exact inv.tmpLen
          · exact inv.dtmp
          · simp [inv.dispLen]
          · exact mov_disp_step inv.disp inv.dispLen hsc
          · exact inv.lo
          · exact inv.hi
          · intro j' i h1 h2 h3 h4 hk
            by_cases hic : i = c
            · subst hic
              exfalso
              have := (hm I[i].key j').mpr ⟨⟨h1, h2⟩, by rw [← hk, hkc]⟩
              rw [hg] at this; cases this
            · exact inv.hit j' i h1 h2 h3 (by omega) hk
          · intro j' h1 h2 hno
            exact inv.miss j' h1 h2 (fun i a b => hno i a (by omega)))
      refine ⟨w', evs', h1, h2, by simpa using h3, ?_⟩
      rw [h4, List.filter_cons]
      have : (decide (((keys I)[c]?).bind m.get = none) = true) := by simp [hkc, hg]
      rw [if_pos this]
      simp [hMc]


/-- `if j < v.len() { v[j] = x } else { v.push(x) }` -/
def put {α : Type} (l : List α) (c : Nat) (x : α) : List α := if c < l.length then l.set c x else l ++ [x]

theorem length_put {α : Type} (l : List α) (c : Nat) (x : α) (il : Nat) (h : l.length = max il c) :
    (put l c x).length = max il (c + 1) := by
  unfold put; split <;> simp <;> omega

theorem getElem?_put_self {α : Type} (l : List α) (c : Nat) (x : α) (il : Nat) (h : l.length = max il c) :
    (put l c x)[c]? = some x := by
  unfold put
  split
  · rename_i h1; simp [h1]
  · have : l.length = c := by omega
    simp [this]

theorem getElem?_put_lt {α : Type} (l : List α) (c : Nat) (x : α) (j : Nat) (h : j < c) (hl : c ≤ l.length) :
    (put l c x)[j]? = l[j]? := by
  unfold put
  split
  · rw [List.getElem?_set, if_neg (by omega)]
  · rw [List.getElem?_append_left (by omega)]

theorem getElem?_put_gt {α : Type} (l : List α) (c : Nat) (x : α) (j : Nat) (h : c < j) (hl : c ≤ l.length) :
    (put l c x)[j]? = l[j]? := by
  unfold put
  split
  · rw [List.getElem?_set, if_neg (by omega)]
  · have : l.length = c := by omega
    rw [List.getElem?_eq_none (by simp; omega), List.getElem?_eq_none (by omega)]

theorem fillLoop_cons_some (N : List Item) (j : Nat) (js : List Nat) (next : Nat) (mapped : List Nat) (w : Work)
    (evs : List Ev) (mv : Nat) (h : (w.mappedTmp[j]?).join = some mv) (hl : mapped.length = w.disposers.length) :
    fillLoop N (j :: js) next mapped w evs =
      fillLoop N js next (put mapped j mv)
        { w with disposersTmp := w.disposersTmp.set j none,
                 disposers := put w.disposers j ((w.disposersTmp[j]?).join) } evs := by
  rw [fillLoop]
  simp only [h, put, ← hl]
  by_cases hc : j < mapped.length
  · rw [if_neg (by omega), if_pos hc, if_pos hc]
  · rw [if_pos (by omega), if_neg hc, if_neg hc]

theorem fillLoop_cons_none (N : List Item) (j : Nat) (js : List Nat) (next : Nat) (mapped : List Nat) (w : Work)
    (evs : List Ev) (it : Item) (h : (w.mappedTmp[j]?).join = none) (hN : N[j]? = some it)
    (hl : mapped.length = w.disposers.length) :
    fillLoop N (j :: js) next mapped w evs =
      fillLoop N js (next + 1) (put mapped j next)
        { w with disposers := put w.disposers j (some next) } (evs ++ [.create next it]) := by
  rw [fillLoop]
  simp only [h, hN, put, ← hl]
  by_cases hc : j < mapped.length
  · rw [if_pos hc, if_pos hc, if_pos hc]
  · rw [if_neg hc, if_neg hc, if_neg hc]

/-- positions `c ≤ j < c + n` of `new` for which no old value was moved -/
def createdFrom (T : List (Option Nat)) (c n : Nat) : List Nat :=
  (List.range' c n).filter (fun j => (T[j]?).join = none)

theorem createdFrom_succ (T : List (Option Nat)) (c n : Nat) :
    createdFrom T c (n + 1) =
      if (T[c]?).join = none then c :: createdFrom T (c + 1) n else createdFrom T (c + 1) n := by
  simp only [createdFrom, List.range'_succ, List.filter_cons, decide_eq_true_eq]

structure FillInv (T : List (Option Nat)) (il c : Nat) (mapped : List Nat) (w : Work) : Prop where
  tmp : w.mappedTmp = T
  mLen : mapped.length = max il c
  dLen : w.disposers.length = max il c
  disp : ∀ j : Nat, j < c → w.disposers[j]? = (mapped[j]?).map some
  dtmp : ∀ j : Nat, c ≤ j → w.disposersTmp[j]? = T[j]?

theorem fillLoop_spec (N : List Item) (T : List (Option Nat)) (il : Nat) :
    ∀ (n c next : Nat) (mapped : List Nat) (w : Work) (evs : List Ev), n = N.length - c → c ≤ N.length →
      FillInv T il c mapped w →
      ∃ next' mapped' w' evs', fillLoop N (List.range' c n) next mapped w evs = .ok (next', mapped', w', evs') ∧
        mapped'.length = max il N.length ∧ w'.disposers.length = max il N.length ∧
        (∀ j : Nat, j < N.length → w'.disposers[j]? = (mapped'[j]?).map some) ∧
        (∀ j : Nat, j < c → mapped'[j]? = mapped[j]?) ∧
        (∀ j mv : Nat, c ≤ j → j < N.length → (T[j]?).join = some mv → mapped'[j]? = some mv) ∧
        next' = next + (createdFrom T c n).length ∧
        (createdFrom T c n).map (fun j => mapped'[j]?) = (List.range' next (createdFrom T c n).length).map some ∧
        (creates evs').map (fun p => (some p.1, some p.2))
          = (creates evs).map (fun p => (some p.1, some p.2))
            ++ (createdFrom T c n).map (fun j => (mapped'[j]?, N[j]?)) ∧
        disposes evs' = disposes evs := by
  intro n
  induction n with
  | zero =>
    intro c next mapped w evs hn hc inv
    have : c = N.length := by omega
    subst this
    refine ⟨next, mapped, w, evs, rfl, inv.mLen, inv.dLen, inv.disp, fun _ _ => rfl, ?_, ?_⟩
    · intro j mv h1 h2; omega
    · simp [createdFrom]
  | succ n ih =>
    intro c next mapped w evs hn hc inv
    have hcl : c < N.length := by omega
    have hNc : N[c]? = some N[c] := by simp [hcl]
    have hl : mapped.length = w.disposers.length := by rw [inv.mLen, inv.dLen]
    have hcm : c ≤ mapped.length := by rw [inv.mLen]; omega
    have hcd : c ≤ w.disposers.length := by rw [inv.dLen]; omega
    rw [List.range'_succ, createdFrom_succ]
    cases hT : (T[c]?).join with
    | some mv =>
      rw [fillLoop_cons_some N c _ next mapped w evs mv (by rw [inv.tmp, hT]) hl]
      have hd : (w.disposersTmp[c]?).join = some mv := by rw [inv.dtmp c (Nat.le_refl _), hT]
      rw [hd]
      obtain ⟨next', mapped', w', evs', h1, h2, h3, h4, h5, h6, h7, h8, h9, h10⟩ :=
        ih (c + 1) next (put mapped c mv)
          { w with disposersTmp := w.disposersTmp.set c none, disposers := put w.disposers c (some mv) } evs
          (by omega) (by omega)
          (by
            constructor
            · exact inv.tmp
            · exact length_put _ _ _ il inv.mLen
            · exact length_put _ _ _ il inv.dLen
            · intro j hj
              by_cases hjc : j = c
              · subst hjc
                simp only []
                rw [getElem?_put_self _ _ _ il inv.dLen, getElem?_put_self _ _ _ il inv.mLen]; rfl
              · simp only []
                rw [getElem?_put_lt _ _ _ _ (by omega) hcd, getElem?_put_lt _ _ _ _ (by omega) hcm]
                exact inv.disp j (by omega)
            · intro j hj
              simp only []
              rw [List.getElem?_set, if_neg (by omega)]
              exact inv.dtmp j (by omega))
      refine ⟨next', mapped', w', evs', h1, h2, h3, h4, ?_, ?_, ?_⟩
      · intro j hj
        rw [h5 j (by omega), getElem?_put_lt _ _ _ _ hj hcm]
      · intro j mv' hj1 hj2 hjT
        by_cases hjc : j = c
        · subst hjc
          rw [hT] at hjT; cases hjT
          rw [h5 j (by omega), getElem?_put_self _ _ _ il inv.mLen]
        · exact h6 j mv' (by omega) hj2 hjT
      · rw [if_neg (by simp)]
        exact ⟨h7, h8, h9, h10⟩
    | none =>
      rw [fillLoop_cons_none N c _ next mapped w evs N[c] (by rw [inv.tmp, hT]) hNc hl]
      obtain ⟨next', mapped', w', evs', h1, h2, h3, h4, h5, h6, h7, h8, h9, h10⟩ :=
        ih (c + 1) (next + 1) (put mapped c next)
          { w with disposers := put w.disposers c (some next) } (evs ++ [.create next N[c]])
          (by omega) (by omega)
          (by
            constructor
            · exact inv.tmp
            · exact length_put _ _ _ il inv.mLen
            · exact length_put _ _ _ il inv.dLen
            · intro j hj
              by_cases hjc : j = c
              · subst hjc
                simp only []
                rw [getElem?_put_self _ _ _ il inv.dLen, getElem?_put_self _ _ _ il inv.mLen]; rfl
              · simp only []
                rw [getElem?_put_lt _ _ _ _ (by omega) hcd, getElem?_put_lt _ _ _ _ (by omega) hcm]
                exact inv.disp j (by omega)
            · intro j hj
              exact inv.dtmp j (by omega))
      have hmc : mapped'[c]? = some next := by
        rw [h5 c (by omega), getElem?_put_self _ _ _ il inv.mLen]
      refine ⟨next', mapped', w', evs', h1, h2, h3, h4, ?_, ?_, ?_⟩
      · intro j hj
        rw [h5 j (by omega), getElem?_put_lt _ _ _ _ hj hcm]
      · intro j mv' hj1 hj2 hjT
        by_cases hjc : j = c
        · subst hjc
          rw [hT] at hjT; cases hjT
        · exact h6 j mv' (by omega) hj2 hjT
      · rw [if_pos rfl]
        refine ⟨by simp [h7]; omega, by simp [h8, hmc, List.range'_succ], by simp [h9, hmc, hNc], by simpa using h10⟩



theorem map_add_range (n s : Nat) : (List.range n).map (· + s) = List.range' s n := by
  apply List.ext_getElem?
  intro i
  simp
  by_cases h : i < n <;> simp [h] <;> omega

/-- with unique keys, equal keys can only occur at matching positions of the common prefix, inside the
two middle windows, or at matching positions of the common suffix -/
theorem key_match_loc {I N : List Item} {st e ne : Nat} (hI : (keys I).Nodup) (hN : (keys N).Nodup)
    (hpre : ∀ i : Nat, i < st → I[i]? = N[i]?) (hsuf : ∀ k : Nat, I[e + k]? = N[ne + k]?)
    {i j : Nat} {a b : Item} (hi : I[i]? = some a) (hj : N[j]? = some b) (hk : a.key = b.key) :
    (i < st ∧ j = i) ∨ (st ≤ i ∧ i < e ∧ st ≤ j ∧ j < ne) ∨ (e ≤ i ∧ ne ≤ j ∧ i - e = j - ne) := by
  by_cases h1 : i < st
  · have : N[i]? = some a := by rw [← hpre i h1, hi]
    have := keys_inj hN this hj hk
    exact Or.inl ⟨h1, this.symm⟩
  by_cases h2 : e ≤ i
  · have : N[ne + (i - e)]? = some a := by
      rw [← hsuf (i - e)]; rw [show e + (i - e) = i by omega]; exact hi
    have := keys_inj hN this hj hk
    exact Or.inr (Or.inr ⟨h2, by omega, by omega⟩)
  refine Or.inr (Or.inl ⟨by omega, by omega, ?_, ?_⟩)
  · apply Nat.le_of_not_lt
    intro h3
    have : I[j]? = some b := by rw [hpre j h3, hj]
    have := keys_inj hI hi this hk
    omega
  · apply Nat.lt_of_not_le
    intro h3
    have : I[e + (j - ne)]? = some b := by
      rw [hsuf (j - ne)]; rw [show ne + (j - ne) = j by omega]; exact hj
    have := keys_inj hI hi this hk
    omega

theorem debugAssert_ok {I N : List Item} {st e ne : Nat} (hI : (keys I).Nodup) (hN : (keys N).Nodup)
    (hpre : ∀ i : Nat, i < st → I[i]? = N[i]?)
    (hmax : st < I.length → st < N.length → I[st]? ≠ N[st]?)
    (hsuf : ∀ k : Nat, I[e + k]? = N[ne + k]?)
    (hse : st ≤ e) (hsne : st ≤ ne) (hel : e ≤ I.length) (hlen : I.length + ne = N.length + e)
    (hexit : e = st ∨ ne = st ∨ I[e - 1]? ≠ N[ne - 1]?) :
    (e != 0 && ne != 0 && !((e == I.length && ne == N.length) || I[e - 1]? != N[ne - 1]?)) = false := by
  have key : e ≠ 0 → ne ≠ 0 → (e = I.length ∧ ne = N.length) ∨ I[e - 1]? ≠ N[ne - 1]? := by
    intro he0 hne0
    by_cases hneq : I[e - 1]? = N[ne - 1]?
    · left
      have hI1 : I[e - 1]? = some I[e - 1] := by simp
      have hN1 : N[ne - 1]? = some N[ne - 1] := by simp
      rcases hexit with h | h | h
      · subst h
        by_cases h2 : ne = e
        · subst h2
          by_cases h3 : ne = I.length
          · exact ⟨h3, by omega⟩
          · exfalso
            have := hsuf 0
            exact hmax (by omega) (by omega) (by simpa using this)
        · exfalso
          have h4 : N[e - 1]? = some I[e - 1] := by rw [← hpre (e - 1) (by omega), hI1]
          have h5 : N[ne - 1]? = some I[e - 1] := by rw [← hneq, hI1]
          have := keys_inj hN h4 h5 rfl
          omega
      · subst h
        by_cases h2 : e = ne
        · subst h2
          by_cases h3 : e = I.length
          · exact ⟨h3, by omega⟩
          · exfalso
            have := hsuf 0
            exact hmax (by omega) (by omega) (by simpa using this)
        · exfalso
          have h4 : I[ne - 1]? = some N[ne - 1] := by rw [hpre (ne - 1) (by omega), hN1]
          have h5 : I[e - 1]? = some N[ne - 1] := by rw [hneq, hN1]
          have := keys_inj hI h4 h5 rfl
          omega
      · exact absurd hneq h
    · exact Or.inr hneq
  by_cases he0 : e = 0
  · simp [he0]
  by_cases hne0 : ne = 0
  · simp [hne0]
  rcases key he0 hne0 with ⟨h1, h2⟩ | h
  · simp [h1, h2]
  · simp [h]

theorem disposeAll_spec : ∀ (l : List Nat) (evs : List Ev),
    disposeAll (l.map some) evs = .ok (evs ++ l.map .dispose)
  | [], evs => by simp [disposeAll]
  | t :: l, evs => by simp [disposeAll, disposeAll_spec l]

theorem createAll_spec : ∀ (items : List Item) (next : Nat) (mapped : List Nat) (disp : List (Option Nat)) (evs : List Ev),
    createAll items next mapped disp evs =
      (next + items.length, mapped ++ List.range' next items.length,
        disp ++ (List.range' next items.length).map some,
        evs ++ List.zipWith Ev.create (List.range' next items.length) items)
  | [], next, mapped, disp, evs => by simp [createAll]
  | it :: items, next, mapped, disp, evs => by
    simp [createAll, createAll_spec items, List.range'_succ]
    omega


theorem getElem!_of_some {α : Type} [Inhabited α] {l : List α} {i : Nat} {a : α} (h : l[i]? = some a) :
    l[i]! = a := by
  simp [h]

theorem range'_split (a b n : Nat) (hab : a ≤ b) (hbn : b ≤ n) :
    List.range' a (n - a) = List.range' a (b - a) ++ List.range' b (n - b) := by
  have := @List.range'_append a (b - a) (n - b) 1
  rw [Nat.one_mul, show a + (b - a) = b by omega, show b - a + (n - b) = n - a by omega] at this
  exact this.symm

theorem filter_range_split3 (p : Nat → Bool) (a b n : Nat) (hab : a ≤ b) (hbn : b ≤ n)
    (h1 : ∀ i : Nat, i < a → p i = false) (h3 : ∀ i : Nat, b ≤ i → i < n → p i = false) :
    (List.range n).filter p = (List.range' a (b - a)).filter p := by
  rw [List.range_eq_range']
  have s1 := range'_split 0 a n (Nat.zero_le _) (by omega)
  rw [Nat.sub_zero, Nat.sub_zero] at s1
  rw [s1, range'_split a b n hab hbn, List.filter_append, List.filter_append]
  have e1 : (List.range' 0 a).filter p = [] := by
    rw [List.filter_eq_nil_iff]
    intro i hi
    rw [List.mem_range'_1] at hi
    simp [h1 i (by omega)]
  have e3 : (List.range' b (n - b)).filter p = [] := by
    rw [List.filter_eq_nil_iff]
    intro i hi
    rw [List.mem_range'_1] at hi
    simp [h3 i (by omega) (by omega)]
  rw [e1, e3]; simp


/-- positions of `new` whose key is not among the old keys, ascending -/
def entered (I N : List Item) : List Nat := (List.range N.length).filter (fun j => N[j]!.key ∉ keys I)
/-- positions of `items` whose key is not among the new keys, ascending -/
def removed (I N : List Item) : List Nat := (List.range I.length).filter (fun i => I[i]!.key ∉ keys N)

theorem mapKeyed_general (I N : List Item) (M : List Nat) (next : Nat) (hIne : I ≠ []) (hNne : N ≠ [])
    (hM : M.length = I.length) (hI : (keys I).Nodup) (hN : (keys N).Nodup) :
    ∃ (next' : Nat) (mapped' : List Nat) (evs : List Ev),
      mapKeyedStep ⟨I, M, M.map some, next⟩ N
        = .ok (⟨N, mapped'.take N.length, (mapped'.take N.length).map some, next'⟩, evs) ∧
      mapped'.length = max I.length N.length ∧
      (∀ (i j : Nat) (a b : Item), I[i]? = some a → N[j]? = some b → a.key = b.key → mapped'[j]? = M[i]?) ∧
      next' = next + (entered I N).length ∧
      (entered I N).map (fun j => mapped'[j]?) = (List.range' next (entered I N).length).map some ∧
      (creates evs).map (fun p => (some p.1, some p.2)) = (entered I N).map (fun j => (mapped'[j]?, N[j]?)) ∧
      (disposes evs).map some = (removed I N).map (fun i => M[i]?) := by
  obtain ⟨P1, P1', P2, P3⟩ := commonPrefix_spec I N
  generalize hst : commonPrefix I N = st at P1 P1' P2 P3
  -- suffix
  have inv0 : SufInv I N M st I.length N.length ⟨List.replicate N.length none, List.replicate N.length none, M.map some⟩ := by
    constructor
    · exact P1
    · exact P1'
    · exact Nat.le_refl _
    · omega
    · intro k
      rw [List.getElem?_eq_none (by omega), List.getElem?_eq_none (by omega)]
    · simp
    · intro j hj; simp [hj]
    · rfl
    · simp [hM]
    · intro i hi
      have : i < M.length := by omega
      simp [hi, this]
  obtain ⟨e, ne, w1, hS, inv1, hexit⟩ := suffixLoop_spec I N M st hM I.length I.length N.length _ inv0 (by omega)
  have hdbg := debugAssert_ok hI hN P2 P3 inv1.hsuf inv1.hse inv1.hsne inv1.hel inv1.hlen hexit
  have hnel : ne ≤ N.length := by have := inv1.hlen; have := inv1.hel; omega
  -- indices
  obtain ⟨m, hB, hm0⟩ := buildIndices_spec N st (ne - st) hN ((List.range (ne - st)).reverse.map (· + st)) []
    (fun _ => False)
    (by
      intro j hj
      simp at hj
      obtain ⟨a, ha, rfl⟩ := hj
      exact ⟨by omega, fun h => h⟩)
    (by
      rw [List.map_reverse, map_add_range]
      rw [List.Nodup, List.pairwise_reverse]
      exact (List.nodup_range' 1).imp (fun h => h.symm))
    (by intro k j; simp [IdxMap.get])
  have hm : ∀ k j : Nat, m.get k = some j ↔ (st ≤ j ∧ j < ne) ∧ (keys N)[j]? = some k := by
    intro k j
    rw [hm0]
    simp only [false_or]
    rw [List.map_reverse, map_add_range, List.mem_reverse, List.mem_range'_1]
    have := inv1.hsne
    constructor
    · rintro ⟨⟨a, b⟩, c⟩; exact ⟨⟨a, by omega⟩, c⟩
    · rintro ⟨⟨a, b⟩, c⟩; exact ⟨⟨a, by omega⟩, c⟩
  -- move
  have minv0 : MovInv I N M st e ne st w1 := by
    constructor
    · exact inv1.tmpLen
    · exact inv1.dtmp
    · exact inv1.dispLen
    · intro i hi
      rw [inv1.disp i hi]
      have := inv1.hse
      by_cases h : i < e
      · rw [if_pos h, if_pos (by omega)]
      · rw [if_neg h, if_neg (by omega)]
    · intro j hj
      rw [inv1.tmp j (by omega), if_pos (by have := inv1.hsne; omega)]
    · intro j h1 h2
      rw [inv1.tmp j h2, if_neg (by omega)]
    · intro j i _ _ h3 h4; omega
    · intro j h1 h2 _
      rw [inv1.tmp j (by omega), if_pos h2]
  obtain ⟨w2, evs1, hMv, minv, hc1, hd1⟩ := moveLoop_spec I N M st e ne (ne - st) m hM hI hN hnel inv1.hel hm
    (e - st) st w1 [] rfl (Nat.le_refl _) inv1.hse minv0
  -- fill
  have finv0 : FillInv w2.mappedTmp I.length st M w2 := by
    constructor
    · rfl
    · omega
    · rw [minv.dispLen]; omega
    · intro j hj
      have : j < M.length := by omega
      rw [minv.disp j (by omega), if_pos (Or.inl hj)]
      simp [this]
    · intro j _; rw [minv.dtmp]
  obtain ⟨next', mapped', w3, evs, hF, f1, f2, f3, f4, f5, f6, f7, f8, f9⟩ :=
    fillLoop_spec N w2.mappedTmp I.length (N.length - st) st next M w2 evs1 rfl P1' finv0
  refine ⟨next', mapped', evs, ?_, f1, ?_⟩
  · unfold mapKeyedStep
    have e1 : N.isEmpty = false := by simpa using hNne
    have e2 : I.isEmpty = false := by simpa using hIne
    simp only [e1, e2, hst, hS, hdbg, hB, map_add_range, hMv, hF]
    simp
    apply List.ext_getElem?
    intro j
    simp only [List.getElem?_take]
    split
    · rename_i hj; rw [f3 j hj]; simp
    · rfl
  have hsuf := inv1.hsuf
  have hse := inv1.hse
  have hsne := inv1.hsne
  have hel := inv1.hel
  have hlen := inv1.hlen
  -- where a key match puts the old value
  have tmatch : ∀ (i j : Nat) (a b : Item), I[i]? = some a → N[j]? = some b → a.key = b.key →
      (j < st ∧ i = j) ∨ (st ≤ j ∧ (w2.mappedTmp[j]?).join = M[i]?) := by
    intro i j a b hi hj hk
    have hjl : j < N.length := (List.getElem?_eq_some_iff.mp hj).1
    rcases key_match_loc hI hN P2 hsuf hi hj hk with ⟨h1, h2⟩ | ⟨h1, h2, h3, h4⟩ | ⟨h1, h2, h3⟩
    · exact Or.inl ⟨by omega, h2.symm⟩
    · right
      refine ⟨h3, ?_⟩
      rw [minv.hit j i h3 h4 h1 h2 (by simp [hi, hj, hk])]; rfl
    · right
      refine ⟨by omega, ?_⟩
      rw [minv.hi j h2 hjl, show e + (j - ne) = i by omega]; rfl
  have hMsome : ∀ (i : Nat) (a : Item), I[i]? = some a → M[i]? = some M[i]! := by
    intro i a hi
    have : i < M.length := by have := (List.getElem?_eq_some_iff.mp hi).1; omega
    simp [this]
  have hent : ∀ j : Nat, st ≤ j → j < N.length →
      (decide (N[j]!.key ∉ keys I) = decide ((w2.mappedTmp[j]?).join = none)) := by
    intro j h1 h2
    have hNj : N[j]? = some N[j] := by simp [h2]
    have hNj' : N[j]! = N[j] := getElem!_of_some hNj
    rw [hNj']
    apply decide_eq_decide.mpr
    constructor
    · intro hno
      by_cases h3 : j < ne
      · rw [minv.miss j h1 h3]; rfl
        intro i hi1 hi2 hkk
        have hIi : I[i]? = some I[i] := by simp
        apply hno
        rw [mem_keys]
        refine ⟨i, I[i], hIi, ?_⟩
        simpa [hIi, hNj] using hkk
      · exfalso
        apply hno
        rw [mem_keys]
        refine ⟨e + (j - ne), N[j], ?_, rfl⟩
        rw [hsuf, show ne + (j - ne) = j by omega, hNj]
    · intro hnone hmem
      rw [mem_keys] at hmem
      obtain ⟨i, a, hi, hk⟩ := hmem
      rcases tmatch i j a N[j] hi hNj hk with ⟨h, _⟩ | ⟨_, h⟩
      · omega
      · rw [hnone, hMsome i a hi] at h; cases h
  have hrem : ∀ i : Nat, st ≤ i → i < e →
      (decide (I[i]!.key ∉ keys N) = decide (((keys I)[i]?).bind m.get = none)) := by
    intro i h1 h2
    have hIi : I[i]? = some I[i] := by simp
    have hIi' : I[i]! = I[i] := getElem!_of_some hIi
    rw [hIi']
    apply decide_eq_decide.mpr
    simp only [getElem?_keys, hIi, Option.map_some, Option.bind_some]
    constructor
    · intro hno
      cases hg : m.get I[i].key with
      | none => rfl
      | some j =>
        exfalso
        apply hno
        have := ((hm _ _).mp hg).2
        exact List.mem_of_getElem? this
    · intro hnone hmem
      rw [mem_keys] at hmem
      obtain ⟨j, b, hj, hk⟩ := hmem
      rcases key_match_loc hI hN P2 hsuf hIi hj hk.symm with ⟨h, _⟩ | ⟨_, _, h3, h4⟩ | ⟨h, _⟩
      · omega
      · have := (hm I[i].key j).mpr ⟨⟨h3, h4⟩, by simp [hj, hk]⟩
        rw [hnone] at this; cases this
      · omega
  have hentered : entered I N = createdFrom w2.mappedTmp st (N.length - st) := by
    unfold entered createdFrom
    rw [filter_range_split3 _ st N.length N.length P1' (Nat.le_refl _)]
    · apply List.filter_congr
      intro j hj
      rw [List.mem_range'_1] at hj
      exact hent j hj.1 (by omega)
    · intro j hj
      have hj' : j < N.length := by omega
      have hNj : N[j]? = some N[j] := by simp [hj']
      rw [getElem!_of_some hNj]
      simp only [decide_eq_false_iff_not, Decidable.not_not]
      rw [mem_keys]
      exact ⟨j, N[j], by rw [P2 j hj, hNj], rfl⟩
    · intro j h1 h2; omega
  have hremoved : removed I N = (List.range' st (e - st)).filter (fun i => ((keys I)[i]?).bind m.get = none) := by
    unfold removed
    rw [filter_range_split3 _ st e I.length hse hel]
    · apply List.filter_congr
      intro i hi
      rw [List.mem_range'_1] at hi
      exact hrem i hi.1 (by omega)
    · intro i hi
      have hi' : i < I.length := by omega
      have hIi : I[i]? = some I[i] := by simp [hi']
      rw [getElem!_of_some hIi]
      simp only [decide_eq_false_iff_not, Decidable.not_not]
      rw [mem_keys]
      exact ⟨i, I[i], by rw [← P2 i hi, hIi], rfl⟩
    · intro i h1 h2
      have hIi : I[i]? = some I[i] := by simp [h2]
      rw [getElem!_of_some hIi]
      simp only [decide_eq_false_iff_not, Decidable.not_not]
      rw [mem_keys]
      refine ⟨ne + (i - e), I[i], ?_, rfl⟩
      rw [← hsuf, show e + (i - e) = i by omega, hIi]
  rw [hentered, hremoved]
  refine ⟨?_, f6, f7, ?_, ?_⟩
  · intro i j a b hi hj hk
    rcases tmatch i j a b hi hj hk with ⟨h1, h2⟩ | ⟨h1, h2⟩
    · rw [f4 j h1, h2]
    · have hjl : j < N.length := (List.getElem?_eq_some_iff.mp hj).1
      rw [hMsome i a hi] at h2 ⊢
      exact f5 j _ h1 hjl h2
  · rw [f8, hc1]; simp
  · rw [f9, hd1]; simp


theorem creates_zipWith_create : ∀ (R : List Nat) (N : List Item),
    creates (List.zipWith Ev.create R N) = List.zip R N
  | [], _ => by simp
  | _ :: _, [] => by simp
  | r :: R, it :: N => by simp [creates_zipWith_create R N]

theorem disposes_zipWith_create : ∀ (R : List Nat) (N : List Item),
    disposes (List.zipWith Ev.create R N) = []
  | [], _ => by simp
  | _ :: _, [] => by simp
  | r :: R, it :: N => by simp [disposes_zipWith_create R N]

theorem map_getElem?_range {α : Type} (l : List α) : (List.range l.length).map (fun j => l[j]?) = l.map some := by
  apply List.ext_getElem (by simp)
  intro i h1 h2
  simp

theorem zip_lift (R : List Nat) (N : List Item) (h : R.length = N.length) :
    (List.zip R N).map (fun p => (some p.1, some p.2)) = (List.range N.length).map (fun j => (R[j]?, N[j]?)) := by
  apply List.ext_getElem (by simp [h])
  intro i h1 h2
  simp at h1
  simp

/-- all three code paths of one `map_keyed` update, unique keys -/
theorem mapKeyed_raw (I N : List Item) (M : List Nat) (next : Nat)
    (hM : M.length = I.length) (hI : (keys I).Nodup) (hN : (keys N).Nodup) :
    ∃ (next' : Nat) (mapped' : List Nat) (evs : List Ev),
      mapKeyedStep ⟨I, M, M.map some, next⟩ N = .ok (⟨N, mapped', mapped'.map some, next'⟩, evs) ∧
      mapped'.length = N.length ∧
      (∀ (i j : Nat) (a b : Item), I[i]? = some a → N[j]? = some b → a.key = b.key → mapped'[j]? = M[i]?) ∧
      next' = next + (entered I N).length ∧
      (entered I N).map (fun j => mapped'[j]?) = (List.range' next (entered I N).length).map some ∧
      (creates evs).map (fun p => (some p.1, some p.2)) = (entered I N).map (fun j => (mapped'[j]?, N[j]?)) ∧
      (disposes evs).map some = (removed I N).map (fun i => M[i]?) := by
  by_cases hNe : N = []
  · subst hNe
    refine ⟨next, [], M.map .dispose, ?_, rfl, ?_, ?_⟩
    · simp [mapKeyedStep, disposeAll_spec]
    · intro i j a b _ hj; simp at hj
    · have : removed I [] = List.range M.length := by
        simp [removed, keys, hM]
      simp [entered, this, map_getElem?_range]
  by_cases hIe : I = []
  · subst hIe
    have hM0 : M = [] := by simpa using hM
    subst hM0
    have hent : entered [] N = List.range N.length := by simp [entered, keys]
    refine ⟨next + N.length, List.range' next N.length, List.zipWith Ev.create (List.range' next N.length) N,
      ?_, by simp, ?_, ?_⟩
    · have e1 : N.isEmpty = false := by simpa using hNe
      simp [mapKeyedStep, e1, createAll_spec]
      exact List.take_of_length_le (by simp)
    · intro i j a b hi; simp at hi
    · rw [hent]
      refine ⟨by simp, ?_, ?_, ?_⟩
      · have := map_getElem?_range (List.range' next N.length)
        simpa using this
      · rw [creates_zipWith_create, zip_lift _ _ (by simp)]
      · simp [disposes_zipWith_create, removed]
  · obtain ⟨next', mapped', evs, h1, h2, h3, h4, h5, h6, h7⟩ := mapKeyed_general I N M next hIe hNe hM hI hN
    have htake : ∀ j : Nat, j < N.length → (mapped'.take N.length)[j]? = mapped'[j]? := by
      intro j hj; simp [hj]
    have hmem : ∀ j : Nat, j ∈ entered I N → j < N.length := by
      intro j hj; simp [entered] at hj; exact hj.1
    refine ⟨next', mapped'.take N.length, evs, h1, by simp; omega, ?_, h4, ?_, ?_, h7⟩
    · intro i j a b hi hj hk
      rw [htake j (List.getElem?_eq_some_iff.mp hj).1]
      exact h3 i j a b hi hj hk
    · rw [← h5]
      apply List.map_congr_left
      intro j hj; exact htake j (hmem j hj)
    · rw [h6]
      apply List.map_congr_left
      intro j hj; rw [htake j (hmem j hj)]


theorem nodup_map_getElem! {M L : List Nat} (hM : M.Nodup) (hL : L.Nodup) (hlt : ∀ i ∈ L, i < M.length) :
    (L.map (fun i => M[i]!)).Nodup := by
  apply nodup_of_getElem?_inj
  intro a b x hab ha hb
  simp only [List.getElem?_map, Option.map_eq_some_iff] at ha hb
  obtain ⟨i, hi, rfl⟩ := ha
  obtain ⟨j, hj, e⟩ := hb
  have hi' := hlt i (List.mem_of_getElem? hi)
  have hj' := hlt j (List.mem_of_getElem? hj)
  have e1 : M[i]? = some M[i]! := by simp [hi']
  have e2 : M[j]? = some M[i]! := by rw [← e]; simp [hj']
  have := nodup_getElem?_inj hM e1 e2
  subst this
  have := nodup_getElem?_inj hL hi hj
  omega

theorem mem_map_getElem! {M L : List Nat} (hlt : ∀ i ∈ L, i < M.length) {t : Nat} :
    t ∈ L.map (fun i => M[i]!) ↔ ∃ i, i ∈ L ∧ M[i]? = some t := by
  simp only [List.mem_map]
  constructor
  · rintro ⟨i, hi, rfl⟩; exact ⟨i, hi, by simp [hlt i hi]⟩
  · rintro ⟨i, hi, e⟩; exact ⟨i, hi, getElem!_of_some e⟩

theorem find?_unique {α : Type} {p : α → Bool} {l : List α} {a : α} (ha : a ∈ l) (hp : p a = true)
    (hu : ∀ x ∈ l, p x = true → x = a) : l.find? p = some a := by
  induction l with
  | nil => cases ha
  | cons x l ih =>
    rw [List.find?_cons]
    cases hx : p x with
    | true => simp [hu x (by simp) hx]
    | false =>
      simp only
      apply ih
      · rcases List.mem_cons.mp ha with rfl | h
        · rw [hp] at hx; cases hx
        · exact h
      · intro y hy; exact hu y (List.mem_cons_of_mem _ hy)

end SycVerif.ListMap
