import SycVerif.Lemmas.Async
/-!
Helper lemmas for `completeX` / `stepX` (a task that disposes the scope it was spawned in while it is being
polled): closed forms, polls, static shape, cancellation. The readable statements are in
`SycVerif.Props.C14Suicide`.
-/
namespace SycVerif.Async

/-! ### 1. `inSubtree`, `dispose` only look at the scopes -/

theorem inSubtree_congr {m m' : M} (h : m'.scopes = m.scopes) (a : Nat) : ∀ (fuel s : Nat),
    inSubtree m' a fuel s = inSubtree m a fuel s
  | 0, _ => rfl
  | fuel + 1, s => by
    unfold inSubtree
    rw [h]
    split
    · rfl
    · split
      · exact inSubtree_congr h a fuel _
      · rfl

theorem dying_congr {m m' : M} (h : m'.scopes = m.scopes) (s i : Nat) : dying m' s i = dying m s i := by
  unfold dying; rw [h, inSubtree_congr h]

theorem abortIf_congr {m m' : M} (h : m'.scopes = m.scopes) (s : Nat) : abortIf m' s = abortIf m s := by
  funext tk; unfold abortIf; rw [dying_congr h]

theorem dispose_tasks (m : M) (s : Nat) : (dispose m s).tasks = m.tasks.map (abortIf m s) := rfl
theorem dispose_polls (m : M) (s : Nat) : (dispose m s).polls = m.polls := rfl
theorem dispose_boundaries (m : M) (s : Nat) : (dispose m s).boundaries = m.boundaries := rfl
theorem dispose_resOwner (m : M) (s : Nat) : (dispose m s).resOwner = m.resOwner := rfl

theorem dispose_scopes_congr {m m' : M} (h : m'.scopes = m.scopes) (s : Nat) :
    (dispose m' s).scopes = (dispose m s).scopes := by
  show (m'.scopes.mapIdx fun i sc => if dying m' s i then { sc with alive := false } else sc) =
    (m.scopes.mapIdx fun i sc => if dying m s i then { sc with alive := false } else sc)
  rw [h]
  congr 1
  funext i sc
  rw [dying_congr h]

/-- the scope `s` itself is in the subtree killed by `dispose m s` as soon as there is any scope -/
theorem dying_self {m : M} (h : 0 < m.scopes.length) (s : Nat) : dying m s s = true := by
  unfold dying
  cases hn : m.scopes.length with
  | zero => omega
  | succ n => simp [inSubtree]

/-! ### 2. `completeX` in closed form -/

/-- `completeX m t` really is a self-disposal: `t` is the pending task `tk` with an await point left, spawned
in a scope other than the root -/
structure Suicide (m : M) (t : Nat) (tk : Task) : Prop where
  get : m.tasks[t]? = some tk
  pending : tk.status = .pending
  awaits : 0 < tk.awaits
  scope : tk.scope ≠ 0

/-- what the end of the poll does to the (already aborted) task, `left` await points remaining -/
def finX (left : Nat) (x : Task) : Task :=
  if left = 0 then { x with awaits := 0, status := .done } else { x with awaits := left }

theorem completeX_cases (m : M) (t : Nat) : completeX m t = complete m t ∨ ∃ tk, Suicide m t tk := by
  unfold completeX
  split
  · rename_i hn
    left; unfold complete; rw [hn]
  · rename_i tk htk
    split
    · rename_i hc
      left; unfold complete; rw [htk]; simp only [hc, if_true]
    · rename_i hc
      split
      · left; rfl
      · rename_i hs
        right
        refine ⟨tk, htk, ?_, ?_, hs⟩
        · cases h : tk.status <;> simp [h] at hc ⊢
        · have : tk.awaits ≠ 0 := by intro h; simp [h] at hc
          omega

theorem Suicide.cond {m : M} {t : Nat} {tk : Task} (h : Suicide m t tk) :
    ¬ ((tk.status != .pending || decide (tk.awaits = 0)) = true) := by
  have := h.awaits
  simp [h.pending]; omega

/-- the state in the middle of the poll: the resumption is logged, the scope is disposed -/
def midX (m : M) (t : Nat) (tk : Task) : M :=
  dispose { m with polls := m.polls ++ [(t, tk.awaits - 1)] } tk.scope

theorem midX_scopes (m : M) (t : Nat) (tk : Task) : (midX m t tk).scopes = (dispose m tk.scope).scopes :=
  dispose_scopes_congr (m := m) (m' := { m with polls := m.polls ++ [(t, tk.awaits - 1)] }) rfl tk.scope
theorem midX_tasks (m : M) (t : Nat) (tk : Task) : (midX m t tk).tasks = m.tasks.map (abortIf m tk.scope) := by
  unfold midX
  rw [dispose_tasks, abortIf_congr (m := m) (m' := { m with polls := m.polls ++ [(t, tk.awaits - 1)] }) rfl]
theorem midX_polls (m : M) (t : Nat) (tk : Task) : (midX m t tk).polls = m.polls ++ [(t, tk.awaits - 1)] := rfl
theorem midX_boundaries (m : M) (t : Nat) (tk : Task) : (midX m t tk).boundaries = m.boundaries := rfl
theorem midX_resOwner (m : M) (t : Nat) (tk : Task) : (midX m t tk).resOwner = m.resOwner := rfl
theorem sameSkel_midX (m : M) (t : Nat) (tk : Task) : SameSkel m (midX m t tk) :=
  (sameSkel_polls m _).trans (sameSkel_dispose _ _)

/-- the definition, with the tests resolved -/
theorem Suicide.completeX_eq {m : M} {t : Nat} {tk : Task} (h : Suicide m t tk) :
    completeX m t =
      if tk.awaits - 1 = 0 then
        dropGuard { midX m t tk with
          tasks := (midX m t tk).tasks.modify t fun x => { x with awaits := 0, status := .done } } tk.boundary
      else
        { midX m t tk with tasks := (midX m t tk).tasks.modify t fun x => { x with awaits := tk.awaits - 1 } } := by
  unfold completeX
  rw [h.get]
  simp only [h.cond, h.scope, if_false]
  rfl

theorem Suicide.pollOf_eq {m : M} {t : Nat} {tk : Task} (h : Suicide m t tk) :
    pollOf m t = [(t, tk.awaits - 1)] := by
  have := h.awaits
  unfold pollOf; rw [h.get]; simp only []
  rw [if_pos ⟨h.pending, by omega⟩]

theorem Suicide.polls {m : M} {t : Nat} {tk : Task} (h : Suicide m t tk) :
    (completeX m t).polls = m.polls ++ [(t, tk.awaits - 1)] := by
  rw [h.completeX_eq]
  split
  · rw [dropGuard_polls]; rfl
  · rfl

theorem Suicide.scopes {m : M} {t : Nat} {tk : Task} (h : Suicide m t tk) :
    (completeX m t).scopes = (dispose m tk.scope).scopes := by
  rw [h.completeX_eq]
  split
  · rw [dropGuard_scopes]; exact midX_scopes m t tk
  · exact midX_scopes m t tk

theorem Suicide.tasks {m : M} {t : Nat} {tk : Task} (h : Suicide m t tk) :
    (completeX m t).tasks = (m.tasks.map (abortIf m tk.scope)).modify t (finX (tk.awaits - 1)) := by
  rw [h.completeX_eq]
  split
  · rename_i hl
    rw [dropGuard_tasks]
    show (midX m t tk).tasks.modify t _ = _
    rw [midX_tasks]
    exact modify_congr _ _ _ _ fun a _ => by simp [finX, hl]
  · rename_i hl
    show (midX m t tk).tasks.modify t _ = _
    rw [midX_tasks]
    exact modify_congr _ _ _ _ fun a _ => by simp [finX, hl]

theorem completeX_polls (m : M) (t : Nat) : (completeX m t).polls = m.polls ++ pollOf m t := by
  rcases completeX_cases m t with h | ⟨tk, h⟩
  · rw [h, complete_polls]
  · rw [h.polls, h.pollOf_eq]

theorem tstat_finX (left : Nat) (x : Task) : tstat (finX left x) = tstat x := by
  unfold finX; split <;> rfl

theorem sameSkel_completeX (m : M) (t : Nat) : SameSkel m (completeX m t) := by
  rcases completeX_cases m t with h | ⟨tk, h⟩
  · rw [h]; exact sameSkel_complete m t
  · rw [h.completeX_eq]
    split
    · have h2 := sameSkel_modify (midX m t tk) t (fun x => { x with awaits := 0, status := .done }) fun _ _ => rfl
      exact ((sameSkel_midX m t tk).trans h2).trans (sameSkel_dropGuard _ _)
    · have h2 := sameSkel_modify (midX m t tk) t (fun x => { x with awaits := tk.awaits - 1 }) fun _ _ => rfl
      exact (sameSkel_midX m t tk).trans h2

/-! ### 3. `stepX` -/

theorem stepX_dispose (xs : List Nat) (m : M) (s : Nat) : stepX xs m (.dispose s) = step m (.dispose s) := rfl

theorem stepX_complete_mem {xs : List Nat} {t : Nat} (hx : t ∈ xs) (m : M) :
    stepX xs m (.complete t) = drain (completeX m t) := by
  have : xs.contains t = true := by simpa using hx
  simp only [stepX, this, if_true]

theorem stepX_complete_not_mem {xs : List Nat} {t : Nat} (hx : t ∉ xs) (m : M) :
    stepX xs m (.complete t) = step m (.complete t) := by
  have : xs.contains t = false := by
    cases h : xs.contains t with
    | false => rfl
    | true => exact absurd (by simpa using h) hx
  simp only [stepX, step, this]
  rfl

/-- an event is an ordinary `step`, or the self-disposal of a task of `xs` -/
theorem stepX_cases (xs : List Nat) (m : M) (e : Ev) :
    stepX xs m e = step m e ∨ ∃ t tk, e = .complete t ∧ t ∈ xs ∧ Suicide m t tk := by
  cases e with
  | dispose s => exact .inl rfl
  | complete t =>
    by_cases hx : t ∈ xs
    · rcases completeX_cases m t with h | ⟨tk, h⟩
      · left; rw [stepX_complete_mem hx, h]; rfl
      · exact .inr ⟨t, tk, rfl, hx, h⟩
    · exact .inl (stepX_complete_not_mem hx m)

theorem stepX_nil (m : M) (e : Ev) : stepX [] m e = step m e := by
  cases e with
  | dispose s => rfl
  | complete t => exact stepX_complete_not_mem (by simp) m

theorem stepX_complete_polls (xs : List Nat) (m : M) (t : Nat) :
    (stepX xs m (.complete t)).polls = m.polls ++ pollOf m t := by
  by_cases hx : t ∈ xs
  · rw [stepX_complete_mem hx, drain_polls, completeX_polls]
  · rw [stepX_complete_not_mem hx, step_complete_polls]

theorem stepX_dispose_polls (xs : List Nat) (m : M) (s : Nat) : (stepX xs m (.dispose s)).polls = m.polls :=
  step_dispose_polls m s

theorem sameSkel_stepX (xs : List Nat) (m : M) (e : Ev) : SameSkel m (stepX xs m e) := by
  rcases stepX_cases xs m e with h | ⟨t, tk, rfl, hx, _⟩
  · rw [h]; exact sameSkel_step m e
  · rw [stepX_complete_mem hx]
    exact (sameSkel_completeX m t).trans (sameSkel_drain _)

/-- every task after the self-disposal of `t` (and the executor turn) -/
theorem Suicide.step_tasks {m : M} {t : Nat} {tk : Task} (h : Suicide m t tk) (u : Nat) :
    (drain (completeX m t)).tasks[u]? = (m.tasks[u]?).map fun x =>
      fixT (if t = u then finX (tk.awaits - 1) (abortIf m tk.scope x) else abortIf m tk.scope x) := by
  rw [drain_tasks, h.tasks, List.getElem?_map, List.getElem?_modify, List.getElem?_map]
  cases m.tasks[u]? with
  | none => rfl
  | some x => by_cases htu : t = u <;> simp [htu]

theorem Suicide.alive_after {m : M} {t : Nat} {tk : Task} (h : Suicide m t tk) (i : Nat) :
    scopeAlive (drain (completeX m t)) i = (scopeAlive m i && !dying m tk.scope i) := by
  rw [scopeAlive_congr (drain_scopes _), scopeAlive_congr h.scopes, scopeAlive_dispose]

theorem finX_status_of_aborted {left : Nat} {x : Task} (h : x.status = .aborted) :
    (fixT (finX left x)).status ≠ .pending := by
  intro hp
  have h1 := (fixT_pending hp).1
  unfold finX at h1
  split at h1
  · simp at h1
  · simp [h] at h1

theorem fixT_not_pending {x : Task} (h : x.status ≠ .pending) : (fixT x).status ≠ .pending :=
  fun hp => h (fixT_pending hp).1

theorem tstat_fixT (x : Task) : tstat (fixT x) = tstat x := by
  unfold fixT; split <;> rfl
theorem tstat_abortIf (m : M) (s : Nat) (x : Task) : tstat (abortIf m s x) = tstat x := by
  unfold abortIf; split <;> rfl

/-- what the self-disposal of `t` (task `tk`) does to task `u` -/
def afterX (m : M) (t : Nat) (tk : Task) (u : Nat) (x : Task) : Task :=
  fixT (if t = u then finX (tk.awaits - 1) (abortIf m tk.scope x) else abortIf m tk.scope x)

theorem tstat_afterX (m : M) (t : Nat) (tk : Task) (u : Nat) (x : Task) : tstat (afterX m t tk u x) = tstat x := by
  unfold afterX
  rw [tstat_fixT]
  split
  · rw [tstat_finX, tstat_abortIf]
  · rw [tstat_abortIf]

theorem abortIf_of_dying {m : M} {s : Nat} {x : Task} (hp : x.status = .pending) (hd : dying m s x.scope = true) :
    abortIf m s x = { x with status := .aborted } := by
  unfold abortIf; simp [hp, hd]

theorem abortIf_of_not {m : M} {s : Nat} {x : Task} (h : x.status ≠ .pending ∨ dying m s x.scope = false) :
    abortIf m s x = x := by
  unfold abortIf; rw [if_neg]
  rcases h with h | h <;> simp [h]

/-- a task of the subtree is not pending afterwards -/
theorem afterX_kills {m : M} {t : Nat} {tk : Task} (h : Suicide m t tk) {u : Nat} {x : Task}
    (hu : m.tasks[u]? = some x) (hd : dying m tk.scope x.scope = true) : (afterX m t tk u x).status ≠ .pending := by
  unfold afterX
  by_cases hp : x.status = .pending
  · rw [abortIf_of_dying hp hd]
    split
    · exact finX_status_of_aborted rfl
    · exact fixT_not_pending (by simp)
  · rw [abortIf_of_not (.inl hp)]
    rw [if_neg]
    · exact fixT_not_pending hp
    · intro htu; subst htu
      rw [h.get] at hu; cases hu
      exact hp h.pending

/-- a task that is pending afterwards was pending, and is unchanged unless it is `t` -/
theorem afterX_pending {m : M} {t : Nat} {tk : Task} {u : Nat} {x : Task}
    (hp : (afterX m t tk u x).status = .pending) : x.status = .pending := by
  unfold afterX at hp
  have h1 := (fixT_pending hp).1
  split at h1
  · unfold finX at h1
    split at h1
    · simp at h1
    · exact (abortIf_pending (m := m) (s := tk.scope) h1).1
  · exact (abortIf_pending h1).1

/-- every task after the self-disposal of `t` (and the executor turn) -/
theorem Suicide.step_tasks' {m : M} {t : Nat} {tk : Task} (h : Suicide m t tk) (u : Nat) :
    (drain (completeX m t)).tasks[u]? = (m.tasks[u]?).map (afterX m t tk u) := h.step_tasks u

/-! ### 4. runs -/

def runX (xs : List Nat) (m : M) (es : List Ev) : M := es.foldl (stepX xs) m

@[simp] theorem runX_nil (xs : List Nat) (m : M) : runX xs m [] = m := rfl
@[simp] theorem runX_cons (xs : List Nat) (m : M) (e : Ev) (es : List Ev) :
    runX xs m (e :: es) = runX xs (stepX xs m e) es := rfl
theorem runX_append (xs : List Nat) (m : M) (es es' : List Ev) :
    runX xs m (es ++ es') = runX xs (runX xs m es) es' := by
  simp [runX, List.foldl_append]

theorem runX_nil_eq_run (m : M) (es : List Ev) : runX [] m es = run m es := by
  induction es generalizing m with
  | nil => rfl
  | cons e es ih => rw [runX_cons, run_cons, stepX_nil, ih]

theorem sameSkel_runX (xs : List Nat) (m : M) (es : List Ev) : SameSkel m (runX xs m es) := by
  induction es generalizing m with
  | nil => exact SameSkel.refl m
  | cons e es ih => exact (sameSkel_stepX xs m e).trans (ih _)

/-- a task that is pending after an event was pending before it -/
theorem stepX_pending {xs : List Nat} {m : M} {e : Ev} {t : Nat} {tk' : Task}
    (ht : (stepX xs m e).tasks[t]? = some tk') (hp : tk'.status = .pending) :
    ∃ tk, m.tasks[t]? = some tk ∧ tk.status = .pending := by
  rcases stepX_cases xs m e with h | ⟨u, tku, rfl, hx, hs⟩
  · rw [h] at ht; exact step_pending ht hp
  · rw [stepX_complete_mem hx, hs.step_tasks'] at ht
    cases h' : m.tasks[t]? with
    | none => simp [h'] at ht
    | some x =>
      simp [h'] at ht
      subst ht
      exact ⟨x, rfl, afterX_pending hp⟩

theorem runX_pending {xs : List Nat} {m : M} {es : List Ev} {t : Nat} {tk' : Task}
    (ht : (runX xs m es).tasks[t]? = some tk') (hp : tk'.status = .pending) :
    ∃ tk, m.tasks[t]? = some tk ∧ tk.status = .pending := by
  induction es generalizing m with
  | nil => exact ⟨tk', ht, hp⟩
  | cons e es ih =>
    obtain ⟨tk1, h1, h2⟩ := ih (m := stepX xs m e) ht
    exact stepX_pending h1 h2

/-- every poll recorded during a run belongs to a task that was pending at the start of the run -/
theorem runX_polls (xs : List Nat) (m : M) (es : List Ev) : ∃ extra, (runX xs m es).polls = m.polls ++ extra ∧
    ∀ p, p ∈ extra → ∃ tk, m.tasks[p.1]? = some tk ∧ tk.status = .pending := by
  induction es generalizing m with
  | nil => exact ⟨[], by simp, by simp⟩
  | cons e es ih =>
    obtain ⟨extra, h1, h2⟩ := ih (stepX xs m e)
    have h2' : ∀ p, p ∈ extra → ∃ tk, m.tasks[p.1]? = some tk ∧ tk.status = .pending := by
      intro p hp
      obtain ⟨tk, h3, h4⟩ := h2 p hp
      exact stepX_pending h3 h4
    cases e with
    | complete t =>
      refine ⟨pollOf m t ++ extra, ?_, ?_⟩
      · rw [runX_cons, h1, stepX_complete_polls, List.append_assoc]
      · intro p hp
        rcases List.mem_append.1 hp with hp | hp
        · obtain ⟨e1, tk, h3, h4⟩ := pollOf_pending hp
          exact ⟨tk, by rw [e1]; exact h3, h4⟩
        · exact h2' p hp
    | dispose s =>
      refine ⟨extra, ?_, h2'⟩
      rw [runX_cons, h1, stepX_dispose_polls]

/-- after the self-disposal (and the executor turn) no task of the subtree is pending (in terms of the task
AFTER the step, like `step_dispose_kills`) -/
theorem Suicide.kills {m : M} {t : Nat} {tk : Task} (h : Suicide m t tk) {u : Nat} {tku' : Task}
    (hu : (drain (completeX m t)).tasks[u]? = some tku') (hd : dying m tk.scope tku'.scope = true) :
    tku'.status ≠ .pending := by
  rw [h.step_tasks'] at hu
  cases h' : m.tasks[u]? with
  | none => simp [h'] at hu
  | some x =>
    simp [h'] at hu
    subst hu
    have e : (afterX m t tk u x).scope = x.scope := congrArg Prod.fst (tstat_afterX m t tk u x)
    rw [e] at hd
    exact afterX_kills h h' hd

/-! ### 5. a self-disposal with await points left is a completion followed by a disposal -/

theorem M.eq_of {a b : M} (h1 : a.scopes = b.scopes) (h2 : a.boundaries = b.boundaries) (h3 : a.tasks = b.tasks)
    (h4 : a.polls = b.polls) (h5 : a.resOwner = b.resOwner) : a = b := by
  cases a; cases b; simp_all

theorem map_modify_comm {α} (F g : α → α) (l : List α) (i : Nat) (h : ∀ a, F (g a) = g (F a)) :
    (l.map F).modify i g = (l.modify i g).map F := by
  apply List.ext_getElem?
  intro j
  simp only [List.getElem?_modify, List.getElem?_map]
  cases l[j]? with
  | none => rfl
  | some a => by_cases hij : i = j <;> simp [hij, h]

theorem abortIf_awaits_comm (m : M) (s n : Nat) (x : Task) :
    abortIf m s { x with awaits := n } = { abortIf m s x with awaits := n } := by
  unfold abortIf; split <;> rfl

theorem Suicide.complete_eq {m : M} {t : Nat} {tk : Task} (h : Suicide m t tk) (hm : 1 < tk.awaits) :
    complete m t = { m with polls := m.polls ++ [(t, tk.awaits - 1)],
                            tasks := m.tasks.modify t fun x => { x with awaits := tk.awaits - 1 } } := by
  have hl : ¬ (tk.awaits - 1 = 0) := by omega
  unfold complete
  rw [h.get]
  simp only [h.cond, hl, if_false]
  rfl

/-- with an await point left after this one, `completeX` is `complete` followed by `dispose` of the task's scope -/
theorem Suicide.completeX_eq_dispose {m : M} {t : Nat} {tk : Task} (h : Suicide m t tk) (hm : 1 < tk.awaits) :
    completeX m t = dispose (complete m t) tk.scope := by
  have hl : ¬ (tk.awaits - 1 = 0) := by omega
  have hsc : (complete m t).scopes = m.scopes := complete_scopes m t
  rw [h.completeX_eq, if_neg hl]
  apply M.eq_of
  · show (midX m t tk).scopes = _
    rw [midX_scopes, dispose_scopes_congr hsc]
  · show (midX m t tk).boundaries = (complete m t).boundaries
    rw [h.complete_eq hm]; rfl
  · show (midX m t tk).tasks.modify t _ = (dispose (complete m t) tk.scope).tasks
    rw [midX_tasks, dispose_tasks, abortIf_congr hsc, h.complete_eq hm]
    exact map_modify_comm _ _ _ _ fun a => abortIf_awaits_comm m tk.scope _ a
  · show (midX m t tk).polls = (complete m t).polls
    rw [h.complete_eq hm]; rfl
  · show (midX m t tk).resOwner = (complete m t).resOwner
    rw [h.complete_eq hm]; rfl

theorem noAborted_of_all {m : M} (h : m.tasks.all (fun tk => tk.status != .aborted) = true) : NoAborted m := by
  intro t tk ht
  have := List.all_eq_true.1 h tk (List.mem_iff_getElem?.2 ⟨t, ht⟩)
  simpa using this

theorem Suicide.stepX_two_steps {xs : List Nat} {m : M} {t : Nat} {tk : Task} (h : Suicide m t tk)
    (hm : 1 < tk.awaits) (hn : NoAborted m) (hx : t ∈ xs) :
    stepX xs m (.complete t) = step (step m (.complete t)) (.dispose tk.scope) := by
  rw [stepX_complete_mem hx, h.completeX_eq_dispose hm, step_complete_eq hn]
  rfl

/-! ### 6. the invariant of reachable states survives self-disposals -/

theorem midX_get {m : M} {t : Nat} {tk : Task} (h : Suicide m t tk) :
    (midX m t tk).tasks[t]? = some (abortIf m tk.scope tk) := by
  rw [midX_tasks, List.getElem?_map, h.get]; rfl

theorem abortIf_status (m : M) (s : Nat) {x : Task} (hp : x.status = .pending) :
    (abortIf m s x).status = .pending ∨ (abortIf m s x).status = .aborted := by
  unfold abortIf; split
  · exact .inr rfl
  · exact .inl hp

theorem abortIf_boundary (m : M) (s : Nat) (x : Task) : (abortIf m s x).boundary = x.boundary :=
  congrArg Prod.snd (tstat_abortIf m s x)

theorem dyn_completeX {m : M} (hs : Struct m) (hd : Dyn m) (t : Nat) : Dyn (completeX m t) := by
  rcases completeX_cases m t with h | ⟨tk, h⟩
  · rw [h]; exact dyn_complete hd t
  · have hmid : Dyn (midX m t tk) :=
      dyn_dispose (hs.of_sameSkel (sameSkel_polls m _)) (hd.polls _) tk.scope
    rw [h.completeX_eq]
    split
    · have := release_dyn hmid t (abortIf m tk.scope tk) (fun x => { x with awaits := 0, status := .done })
        (midX_get h) (abortIf_status m tk.scope h.pending) (by simp)
      rw [abortIf_boundary] at this
      exact this
    · exact modify_dyn hmid t (fun x => { x with awaits := tk.awaits - 1 }) fun _ _ => ⟨rfl, rfl, rfl⟩

theorem good_stepX {m : M} (h : Good m) (xs : List Nat) (e : Ev) : Good (stepX xs m e) := by
  rcases stepX_cases xs m e with he | ⟨t, tk, rfl, hx, _⟩
  · rw [he]; exact good_step h e
  · rw [stepX_complete_mem hx]
    have := drain_keeps (h.struct.of_sameSkel (sameSkel_completeX m t)) (dyn_completeX h.struct h.dyn t)
    exact ⟨this.1, this.2, drain_noAborted_after _⟩

/-- states the harness can reach when the tasks of `xs` dispose their own scope -/
inductive ReachX (xs : List Nat) : M → Prop
  | build (items : List Item) : ReachX xs (buildItems M.init 0 none items)
  | step {m : M} (e : Ev) : ReachX xs m → ReachX xs (stepX xs m e)

theorem ReachX.good {xs : List Nat} {m : M} (h : ReachX xs m) : Good m := by
  induction h with
  | build items => exact good_build items
  | step e _ ih => exact good_stepX ih xs e

theorem ReachX.runX {xs : List Nat} {m : M} (h : ReachX xs m) (es : List Ev) : ReachX xs (runX xs m es) := by
  induction es generalizing m with
  | nil => exact h
  | cons e es ih => exact ih (.step e h)

theorem Reach.reachX_nil {m : M} (h : Reach m) : ReachX [] m := by
  induction h with
  | build items => exact .build items
  | step e _ ih => rw [← stepX_nil]; exact .step e ih

/-! ### 7. any self-disposal against completion-then-disposal: everything but dead counters agrees -/

theorem step_complete_scopes (m : M) (t : Nat) : (step m (.complete t)).scopes = m.scopes :=
  (drain_scopes _).trans (complete_scopes m t)

theorem afterX_eq_two {m : M} {t : Nat} {tk : Task} (h : Suicide m t tk) {u : Nat} {x : Task}
    (hu : m.tasks[u]? = some x) :
    afterX m t tk u x = fixT (abortIf m tk.scope (fixT (if t = u then adv x else x))) := by
  by_cases htu : t = u
  · subst htu
    rw [h.get] at hu; cases hu
    have hp := h.pending
    have ha : tk.awaits ≠ 0 := by have := h.awaits; omega
    unfold afterX
    simp only [if_true]
    by_cases hl : tk.awaits - 1 = 0
    · cases hd : dying m tk.scope tk.scope <;> simp [adv, finX, fixT, abortIf, hp, ha, hl, hd]
    · cases hd : dying m tk.scope tk.scope <;> simp [adv, finX, fixT, abortIf, hp, ha, hl, hd]
  · unfold afterX
    simp only [htu, if_false]
    unfold abortIf fixT
    cases hd : dying m tk.scope x.scope <;> cases hst : x.status <;> simp [hst, hd]

/-- scopes, tasks, poll log and resource owners are those of `complete t` followed by `dispose tk.scope` -/
theorem Suicide.two_steps_obs {xs : List Nat} {m : M} {t : Nat} {tk : Task} (h : Suicide m t tk) (hx : t ∈ xs) :
    (stepX xs m (.complete t)).scopes = (step (step m (.complete t)) (.dispose tk.scope)).scopes ∧
    (stepX xs m (.complete t)).tasks = (step (step m (.complete t)) (.dispose tk.scope)).tasks ∧
    (stepX xs m (.complete t)).polls = (step (step m (.complete t)) (.dispose tk.scope)).polls ∧
    (stepX xs m (.complete t)).resOwner = (step (step m (.complete t)) (.dispose tk.scope)).resOwner := by
  have hsc : (step m (.complete t)).scopes = m.scopes := step_complete_scopes m t
  refine ⟨?_, ?_, ?_, ?_⟩
  · rw [stepX_complete_mem hx, drain_scopes, h.scopes]
    show _ = (drain (dispose (step m (.complete t)) tk.scope)).scopes
    rw [drain_scopes, dispose_scopes_congr hsc]
  · apply List.ext_getElem?
    intro u
    rw [stepX_complete_mem hx, h.step_tasks', step_dispose_tasks, step_complete_tasks, abortIf_congr hsc]
    simp only [List.getElem?_map, List.getElem?_modify]
    cases hu : m.tasks[u]? with
    | none => rfl
    | some x =>
      simp only [Option.map_some]
      rw [afterX_eq_two h hu]
      by_cases htu : t = u <;> simp [htu]
  · rw [stepX_complete_polls, step_dispose_polls, step_complete_polls]
  · rw [(sameSkel_stepX xs m _).res, (sameSkel_step _ _).res, (sameSkel_step _ _).res]

/-- … and so are the boundaries, except for the `remaining` of a counter that is dead afterwards -/
theorem Suicide.two_steps_boundaries {xs : List Nat} {m : M} (hg : Good m) {t : Nat} {tk : Task}
    (h : Suicide m t tk) (hx : t ∈ xs) {b : Nat} {bd : Boundary}
    (hb : (stepX xs m (.complete t)).boundaries[b]? = some bd) :
    ∃ bd', (step (step m (.complete t)) (.dispose tk.scope)).boundaries[b]? = some bd' ∧
      bd'.parent = bd.parent ∧ bd'.counterScope = bd.counterScope ∧ bd'.innerScope = bd.innerScope ∧
      (scopeAlive (stepX xs m (.complete t)) bd.counterScope = true → bd'.remaining = bd.remaining) := by
  obtain ⟨e1, e2, _, _⟩ := h.two_steps_obs hx
  have hgA : Good (stepX xs m (.complete t)) := good_stepX hg xs _
  have hgB : Good (step (step m (.complete t)) (.dispose tk.scope)) := good_step (good_step hg _) _
  have hsk : SameSkel (stepX xs m (.complete t)) (step (step m (.complete t)) (.dispose tk.scope)) :=
    (sameSkel_stepX xs m _).symm.trans ((sameSkel_step _ _).trans (sameSkel_step _ _))
  obtain ⟨bd', hb', h1, h2, h3⟩ := hsk.symm.bnd_of hb
  refine ⟨bd', hb', h1, h2, h3, fun hal => ?_⟩
  have halB : scopeAlive (step (step m (.complete t)) (.dispose tk.scope)) bd'.counterScope = true := by
    rw [h2, scopeAlive_congr e1.symm]; exact hal
  rw [hgA.counter_eq hb hal, hgB.counter_eq hb' halB]
  unfold unfinishedAt; rw [e2]

end SycVerif.Async
