import SycVerif.Lemmas.Repairs
/-!
Helper lemmas for `SycVerif.Props.C04Orphans` (repair D23: the loop `disposeRest` in `disposeNode`).

* `disposeRest_drains`  — when the loop ends normally the node, if it still exists, holds neither
                          children nor cleanups (no hypothesis);
* `NoOrphanAt a P r`    — if `a` is dead, every live node whose `parent` is `a` is in `P` (`P` = the ghost
                          set of `RInvP`: the children that a running `disposeChildren` has detached and
                          is about to dispose);
* `SamePar r r'`        — the two arenas have the same live slots, and every live node has the same
                          `parent` in both (all arena transformers but `createNode` / `removeNode`);
* `OAll a f`            — at fuel `f`, every function of the mutual block preserves `NoOrphanAt a P`
                          (given `RInvP P`); `oAll : ∀ f, OAll a f` is the induction on fuel.

Why an induction is needed: `RInv` does not say anything about live nodes whose owner is dead (before
D23 such nodes were reachable), so "no live node is owned by `a`" after `disposeNode … a` cannot follow
from `RInv` alone when `a` dies in the MIDDLE of its own disposal (one of its cleanups disposes it): the
children detached by the outer call are then live nodes owned by a dead node, until the outer call
disposes them.  What makes the statement true is that nothing can be created in a dead scope
(`createNode` panics on a dead `current`) and that a scope only dies through `removeNode`, at the end of
a `disposeNode` whose loop has emptied it.
-/
namespace SycVerif.Reactive

/-! ### 1. the loop ends with an empty node -/

theorem disposeRest_drains : ∀ (fuel : Nat) {r r' : Root} {id : Id}, disposeRest fuel r id = .ok r' →
    ∀ n, r'.get? id = some n → n.children = [] ∧ n.cleanups = []
  | 0, _, _, _, h => by simp [disposeRest] at h
  | fuel + 1, r, r', id, h => by
    simp only [disposeRest] at h
    split at h
    · rename_i hd
      simp only [Except.ok.injEq] at h
      subst h
      intro n hn; rw [hd] at hn; cases hn
    · rename_i n0 hn0
      split at h
      · rename_i he
        simp only [Except.ok.injEq] at h
        subst h
        intro n hn
        rw [hn0] at hn; cases hn
        simp only [Bool.and_eq_true, List.isEmpty_iff] at he
        exact he
      · split at h
        · cases h
        · exact disposeRest_drains fuel h

/-! ### 2. definitions -/

/-- if `a` is dead, every live node owned by `a` is in `P` -/
def NoOrphanAt (a : Id) (P : Id → Prop) (r : Root) : Prop :=
  ∀ j m, r.get? j = some m → m.parent = some a → r.get? a = none → P j

/-- no live node is owned by a dead node, except those of `P` -/
def NoOrphanP (P : Id → Prop) (r : Root) : Prop := ∀ a, NoOrphanAt a P r

/-- no live node is owned by a dead node -/
def NoOrphan (r : Root) : Prop := NoOrphanP (fun _ => False) r

/-- same live slots, same `parent` fields -/
def SamePar (r r' : Root) : Prop :=
  ∀ j, (r'.get? j).map (fun n => n.parent) = (r.get? j).map (fun n => n.parent)

/-! ### 3. `SamePar` -/

theorem SamePar.refl (r : Root) : SamePar r r := fun _ => rfl

theorem SamePar.trans {a b c : Root} (h1 : SamePar a b) (h2 : SamePar b c) : SamePar a c :=
  fun j => (h2 j).trans (h1 j)

theorem SamePar.of_nodes_eq {r r' : Root} (h : r'.nodes = r.nodes) : SamePar r r' := by
  intro j; rw [Root.get?_congr_nodes h]

theorem SamePar.of_map {r r' : Root} (g : Id → Node → Node)
    (hget : ∀ j, r'.get? j = (r.get? j).map (g j)) (hg : ∀ j m, (g j m).parent = m.parent) :
    SamePar r r' := by
  intro j
  rw [hget]
  cases r.get? j <;> simp [hg]

theorem SamePar.setNode {r : Root} {x : Id} {n n' : Node} (hn : r.get? x = some n)
    (h : n'.parent = n.parent) : SamePar r (r.setNode x n') := by
  intro j
  rw [Root.get?_setNode]
  split
  · rename_i hc; rw [hc.1, hn]; simp [h]
  · rfl

theorem SamePar.modify (r : Root) (x : Id) (f : Node → Node) (hf : ∀ m, (f m).parent = m.parent) :
    SamePar r (r.modify x f) := by
  intro j
  rw [Root.get?_modify]
  split
  · rename_i hj; subst hj; cases r.get? j <;> simp [hf]
  · rfl

theorem SamePar.of_frame {r r' : Root} (h : Frame r r') : SamePar r r' := by
  intro j
  have e : (r'.get? j).map Node.eraseMark = (r.get? j).map Node.eraseMark := h.node j
  have := congrArg (Option.map (fun n : Node => n.parent)) e
  simpa [Option.map_map, Function.comp_def, Node.eraseMark] using this

theorem SamePar.unsubscribe (r : Root) (x : Id) : SamePar r (unsubscribe r x) := by
  intro j
  obtain ⟨g, hg, hf⟩ := unsubscribe_get?_fields r x j
  rw [hg]
  cases r.get? j <;> simp [(hf _).2.2.2.1]

theorem SamePar.unlinkPhase {r r2 : Root} {cur : Id} {n : Node} (hnd : NoDangling r) (hs : EdgesSym r)
    (hn : r.get? cur = some n)
    (hu : unlink cur (r.setNode cur { n with dependencies := [] }) n.dependencies = .ok r2) :
    SamePar r r2 := by
  obtain ⟨r2', hu', hget, _⟩ := unlink_spec hnd hs hn
  rw [hu] at hu'; cases hu'
  exact SamePar.of_map (unlinked cur) hget (fun _ _ => rfl)

theorem SamePar.link (r : Root) (deps : List Id) (d : Id) : SamePar r (createDependencyLink r deps d) := by
  cases hd : r.get? d with
  | none => rw [createDependencyLink_dead deps hd]; exact SamePar.refl _
  | some nd =>
    exact SamePar.of_map (linked (deps.filter r.alive) d)
      (createDependencyLink_get? deps (Root.alive_iff.2 ⟨nd, hd⟩)) (fun _ _ => rfl)

theorem SamePar.markDirty (r : Root) (cur : Id) : SamePar r (markDependentsDirty r cur) :=
  SamePar.of_map (fun j m => { m with dirty := m.dirty || isDependentOf r cur j })
    (markDependentsDirty_get? r cur) (fun _ _ => rfl)

theorem SamePar.visitStarts (ss : List Id) {r r' : Root} {buf buf' : List Id}
    (hx : visitStarts r buf ss = .ok (r', buf')) : SamePar r r' := by
  induction ss generalizing r buf with
  | nil =>
    simp only [Reactive.visitStarts, Except.ok.injEq, Prod.mk.injEq] at hx
    obtain ⟨rfl, _⟩ := hx
    exact SamePar.refl _
  | cons s ss ih =>
    simp only [Reactive.visitStarts] at hx
    split at hx
    · cases hx
    · rename_i r1 buf1 h1
      exact ((SamePar.of_frame (dfs_post h1).1.frame).trans (SamePar.markDirty r1 s)).trans (ih hx)

theorem SamePar.resetMarks (ss : List Id) (r : Root) : SamePar r (resetMarks r ss) :=
  SamePar.of_frame (resetMarks_spec ss r).1

theorem SamePar.setSilent {r r' : Root} {x : Id} {v : Int} (hx : setSilent r x v = .ok r') : SamePar r r' := by
  obtain ⟨n, hn, _, rfl⟩ := setSilent_ok hx
  exact SamePar.setNode hn rfl

theorem SamePar.provideContext {r r' : Root} {ty : Nat} {v : Int} (hx : provideContext r ty v = .ok r') :
    SamePar r r' := by
  unfold Reactive.provideContext at hx
  split at hx
  · cases hx
  · split at hx
    · cases hx
    · rename_i cur _ _ n hn
      split at hx
      · cases hx
      · cases hx
        exact SamePar.setNode hn rfl

/-! ### 4. `NoOrphanAt` under the arena transformers -/

theorem NoOrphanAt.samePar {a : Id} {P : Id → Prop} {r r' : Root} (h : NoOrphanAt a P r)
    (hs : SamePar r r') : NoOrphanAt a P r' := by
  intro j m hm hp hd
  have e1 := hs j
  have e2 := hs a
  rw [hm] at e1
  rw [hd] at e2
  cases hj : r.get? j with
  | none => rw [hj] at e1; simp at e1
  | some m0 =>
    rw [hj] at e1
    simp only [Option.map_some, Option.some.injEq] at e1
    cases ha : r.get? a with
    | none => exact h j m0 hj (by rw [← e1]; exact hp) ha
    | some _ => rw [ha] at e2; simp at e2

theorem NoOrphanAt.weaken {a : Id} {P Q : Id → Prop} {r : Root} (h : NoOrphanAt a P r)
    (hPQ : ∀ j, r.alive j = true → P j → Q j) : NoOrphanAt a Q r :=
  fun j m hm hp hd => hPQ j (Root.alive_iff.2 ⟨m, hm⟩) (h j m hm hp hd)

theorem NoOrphanAt.createNode {a : Id} {P : Id → Prop} {r r' : Root} {v : Option Int} {id : Id}
    (h : NoOrphanAt a P r) (hc : createNode r v = .ok (r', id)) : NoOrphanAt a P r' := by
  obtain ⟨hid, hget, _⟩ := createNode_get? hc
  intro j m hm hp hd
  -- `a` was dead, and was not the fresh slot
  have ha : a ≠ r.nodes.size ∧ r.get? a = none := by
    have := hget a
    rw [hd] at this
    by_cases hs : a = r.nodes.size
    · rw [if_pos hs] at this; simp at this
    · rw [if_neg hs] at this
      refine ⟨hs, ?_⟩
      cases hra : r.get? a with
      | none => rfl
      | some x => rw [hra] at this; simp at this
  rw [hget] at hm
  by_cases hj : j = r.nodes.size
  · -- the fresh node is owned by `current`, which `createNode` found alive
    rw [if_pos hj] at hm
    simp only [Option.map_some, Option.some.injEq] at hm
    subst hm
    have hcur : r.current = some a := by simpa [addChild, freshNode] using hp
    rw [createNode_eq, hcur] at hc
    simp only at hc
    rw [pushFresh_get?, if_neg ha.1, ha.2] at hc
    cases hc
  · rw [if_neg hj, Option.map_eq_some_iff] at hm
    obtain ⟨m0, hm0, rfl⟩ := hm
    exact h j m0 hm0 (by simpa [addChild] using hp) ha.2

/-- the last step of `disposeNode`: the node that is removed lists nothing, hence (`listed`) owns
nothing that is alive and not in `P` -/
theorem NoOrphanAt.removeNode {a : Id} {P : Id → Prop} {r : Root} (hI : RInvP P r) (h : NoOrphanAt a P r)
    (x : Id) (hx : ∀ n, r.get? x = some n → n.children = []) : NoOrphanAt a P (removeNode r x) := by
  have hrem := removeNode_removed hI.nd hI.sym x
  intro j m' hm' hp hd
  obtain ⟨_, m, hm, rfl⟩ := hrem.get?_some hm'
  have hp0 : m.parent = some a := hp
  cases ha : r.get? a with
  | none => exact h j m hm hp0 ha
  | some na =>
    -- `a` died in this step: `a = x`
    have hax : a = x := by
      have := hrem a
      rw [hd, ha] at this
      by_cases hm : a ∈ [x]
      · simpa using hm
      · rw [if_neg hm] at this; simp at this
    subst hax
    rcases hI.listed j m a na hm hp0 ha with hl | hP
    · rw [hx na ha] at hl; cases hl
    · exact hP

/-! ### 5. the statements of the induction -/

/-- post-condition: the bookkeeping invariant, its two-state facts, and no orphan of `a` -/
structure OPost (a : Id) (P : Id → Prop) (r r' : Root) : Prop where
  i : RInvP P r'
  g : Grows r r'
  o : NoOrphanAt a P r'

/-- one statement per function of the mutual block, at fuel `f`, about the fixed owner `a` -/
structure OAll (a : Id) (f : Nat) : Prop where
  body : ∀ (P : Id → Prop) r c b r' c', RInvP P r → EnvLt r.nodes.size c.env → NoOrphanAt a P r →
    execBody f r c b = .ok (r', c') → OPost a P r r' ∧ EnvLt r'.nodes.size c'.env
  inner : ∀ (P : Id → Prop) r c b r' c', RInvP P r → EnvLt r.nodes.size c.env → NoOrphanAt a P r →
    execInner f r c b = .ok (r', c') → OPost a P r r' ∧ EnvLt r'.nodes.size c'.env
  stmt : ∀ (P : Id → Prop) r c s r' c', RInvP P r → EnvLt r.nodes.size c.env → NoOrphanAt a P r →
    execStmt f r c s = .ok (r', c') → OPost a P r r' ∧ EnvLt r'.nodes.size c'.env
  closure : ∀ (P : Id → Prop) r cl r' v obs, RInvP P r → EnvLt r.nodes.size cl.env → NoOrphanAt a P r →
    runClosure f r cl = .ok (r', v, obs) → OPost a P r r'
  selector : ∀ (P : Id → Prop) r eq cl r' id, RInvP P r → EnvLt r.nodes.size cl.env → NoOrphanAt a P r →
    createSelector f r eq cl = .ok (r', id) → OPost a P r r' ∧ id < r'.nodes.size
  update : ∀ (P : Id → Prop) r cur r', RInvP P r → NoOrphanAt a P r →
    runNodeUpdate f r cur = .ok r' → OPost a P r r'
  loop : ∀ (P : Id → Prop) r l r', RInvP P r → NoOrphanAt a P r →
    propagateLoop f r l = .ok r' → OPost a P r r'
  nodeUpdates : ∀ (P : Id → Prop) r l r', RInvP P r → NoOrphanAt a P r →
    propagateNodeUpdates f r l = .ok r' → OPost a P r r'
  updates : ∀ (P : Id → Prop) r s r', RInvP P r → NoOrphanAt a P r →
    propagateUpdates f r s = .ok r' → OPost a P r r'
  dnode : ∀ (P : Id → Prop) r id r', RInvP P r → NoOrphanAt a P r →
    disposeNode f r id = .ok r' → OPost a P r r' ∧ r'.get? id = none
  dchildren : ∀ (P : Id → Prop) r id r', RInvP P r → NoOrphanAt a P r →
    disposeChildren f r id = .ok r' → OPost a P r r'
  rest : ∀ (P : Id → Prop) r id r', RInvP P r → NoOrphanAt a P r →
    disposeRest f r id = .ok r' → OPost a P r r'
  cleanups : ∀ (P : Id → Prop) r cls r', RInvP P r → (∀ cl ∈ cls, EnvLt r.nodes.size cl.env) →
    NoOrphanAt a P r → runCleanups f r cls = .ok r' → OPost a P r r'
  dlist : ∀ (P : Id → Prop) r cs r', RInvP P r → NoOrphanAt a P r →
    disposeList f r cs = .ok r' → OPost a P r r' ∧ ∀ c ∈ cs, c < r.nodes.size → r'.get? c = none

theorem oAll_zero (a : Id) : OAll a 0 := by
  constructor <;> intros <;> simp_all [execBody, execInner, execStmt, runClosure, createSelector,
    runNodeUpdate, propagateLoop, propagateNodeUpdates, propagateUpdates, disposeNode, disposeChildren,
    disposeRest, runCleanups, disposeList]

/-! ### 6. the functions -/

theorem o_body {a : Id} {f : Nat} (ih : OAll a f) (P : Id → Prop) (r : Root) (c : Ctx) (b : Body) (r' : Root)
    (c' : Ctx) (hI : RInvP P r) (hE : EnvLt r.nodes.size c.env) (hO : NoOrphanAt a P r)
    (hx : execBody (f + 1) r c b = .ok (r', c')) : NoOrphanAt a P r' := by
  cases b with
  | nil =>
    simp only [execBody, Except.ok.injEq, Prod.mk.injEq] at hx
    obtain ⟨rfl, rfl⟩ := hx
    exact hO
  | cons s rest =>
    simp only [execBody] at hx
    split at hx
    · cases hx
    · rename_i r1 c1 h1
      obtain ⟨q1, e1⟩ := ih.stmt P r c s r1 c1 hI hE hO h1
      exact (ih.body P r1 c1 rest r' c' q1.i e1 q1.o hx).1.o

theorem o_inner {a : Id} {f : Nat} (ih : OAll a f) (P : Id → Prop) (r : Root) (c : Ctx) (b : Body) (r' : Root)
    (c' : Ctx) (hI : RInvP P r) (hE : EnvLt r.nodes.size c.env) (hO : NoOrphanAt a P r)
    (hx : execInner (f + 1) r c b = .ok (r', c')) : NoOrphanAt a P r' := by
  simp only [execInner] at hx
  split at hx
  · cases hx
  · rename_i r1 c1 h1
    simp only [Except.ok.injEq, Prod.mk.injEq] at hx
    obtain ⟨rfl, rfl⟩ := hx
    exact (ih.body P r c b r1 c1 hI hE hO h1).1.o

theorem o_closure {a : Id} {f : Nat} (ih : OAll a f) (P : Id → Prop) (r : Root) (cl : Closure) (r' : Root)
    (v : Int) (obs : List Obs) (hI : RInvP P r) (hE : EnvLt r.nodes.size cl.env) (hO : NoOrphanAt a P r)
    (hx : runClosure (f + 1) r cl = .ok (r', v, obs)) : NoOrphanAt a P r' := by
  simp only [runClosure] at hx
  split at hx
  · cases hx
  · rename_i r1 c1 h1
    simp only [Except.ok.injEq, Prod.mk.injEq] at hx
    obtain ⟨rfl, _, _⟩ := hx
    exact (ih.body P r ⟨cl.env, 0, []⟩ cl.body r1 c1 hI hE hO h1).1.o

theorem o_cleanups {a : Id} {f : Nat} (ih : OAll a f) (P : Id → Prop) (r : Root) (cls : List Closure)
    (r' : Root) (hI : RInvP P r) (hE : ∀ cl ∈ cls, EnvLt r.nodes.size cl.env) (hO : NoOrphanAt a P r)
    (hx : runCleanups (f + 1) r cls = .ok r') : NoOrphanAt a P r' := by
  cases cls with
  | nil =>
    simp only [runCleanups, Except.ok.injEq] at hx
    subst hx; exact hO
  | cons cl cls =>
    simp only [runCleanups] at hx
    split at hx
    · cases hx
    · rename_i r1 v obs h1
      have q1 := ih.closure P r cl r1 v obs hI (hE cl (by simp)) hO h1
      obtain ⟨i2, _⟩ := q1.i.same (r' := { r1 with trace := r1.trace ++ [.cleanup cl.tag obs] }) rfl rfl
      have o2 : NoOrphanAt a P { r1 with trace := r1.trace ++ [.cleanup cl.tag obs] } :=
        q1.o.samePar (SamePar.of_nodes_eq rfl)
      exact (ih.cleanups P _ cls r' i2 (fun cl' hc => (hE cl' (by simp [hc])).mono q1.g.size) o2 hx).o

theorem o_dlist {a : Id} {f : Nat} (ih : OAll a f) (P : Id → Prop) (r : Root) (cs : List Id) (r' : Root)
    (hI : RInvP P r) (hO : NoOrphanAt a P r) (hx : disposeList (f + 1) r cs = .ok r') :
    NoOrphanAt a P r' := by
  cases cs with
  | nil =>
    simp only [disposeList, Except.ok.injEq] at hx
    subst hx; exact hO
  | cons c cs =>
    simp only [disposeList] at hx
    split at hx
    · cases hx
    · rename_i r1 h1
      obtain ⟨q1, _⟩ := ih.dnode P r c r1 hI hO h1
      exact (ih.dlist P r1 cs r' q1.i q1.o hx).1.o

theorem o_rest {a : Id} {f : Nat} (ih : OAll a f) (P : Id → Prop) (r : Root) (id : Id) (r' : Root)
    (hI : RInvP P r) (hO : NoOrphanAt a P r) (hx : disposeRest (f + 1) r id = .ok r') :
    NoOrphanAt a P r' := by
  simp only [disposeRest] at hx
  split at hx
  · simp only [Except.ok.injEq] at hx
    subst hx; exact hO
  · split at hx
    · simp only [Except.ok.injEq] at hx
      subst hx; exact hO
    · split at hx
      · cases hx
      · rename_i r1 h1
        have q1 := ih.dchildren P r id r1 hI hO h1
        exact (ih.rest P r1 id r' q1.i q1.o hx).o

/-- `disposeNode`: `unsubscribe`, `disposeChildren`, the loop, and `removeNode` of a node that the loop
has emptied -/
theorem o_dnode {a : Id} {f : Nat} (ih : OAll a f) (P : Id → Prop) (r : Root) (id : Id) (r' : Root)
    (hI : RInvP P r) (hO : NoOrphanAt a P r) (hx : disposeNode (f + 1) r id = .ok r') :
    NoOrphanAt a P r' := by
  simp only [disposeNode] at hx
  split at hx
  · cases hx
  · rename_i r1 h1
    split at hx
    · cases hx
    · rename_i r1' h1'
      simp only [Except.ok.injEq] at hx
      subst hx
      obtain ⟨i0, _⟩ := hI.unsubscribe id
      have o0 : NoOrphanAt a P (unsubscribe r id) := hO.samePar (SamePar.unsubscribe r id)
      have q1 := ih.dchildren P (unsubscribe r id) id r1 i0 o0 h1
      have q2 := ih.rest P r1 id r1' q1.i q1.o h1'
      exact NoOrphanAt.removeNode q2.i q2.o id fun n hn => (disposeRest_drains f h1' n hn).1

theorem o_loop {a : Id} {f : Nat} (ih : OAll a f) (P : Id → Prop) (r : Root) (l : List Id) (r' : Root)
    (hI : RInvP P r) (hO : NoOrphanAt a P r) (hx : propagateLoop (f + 1) r l = .ok r') :
    NoOrphanAt a P r' := by
  cases l with
  | nil =>
    simp only [propagateLoop, Except.ok.injEq] at hx
    subst hx; exact hO
  | cons node rest =>
    simp only [propagateLoop] at hx
    split at hx
    · exact (ih.loop P r rest r' hI hO hx).o
    · rename_i n hn
      have w := hI.node node n hn
      have i1 := hI.setNode (n' := { n with mark := .none }) hn rfl rfl rfl rfl ⟨w.run, w.cleanups, w.callback⟩
      have o1 : NoOrphanAt a P (r.setNode node { n with mark := .none }) :=
        hO.samePar (SamePar.setNode hn rfl)
      split at hx
      · split at hx
        · cases hx
        · rename_i r2 h2
          have q2 := ih.update P _ node r2 i1 o1 h2
          exact (ih.loop P r2 rest r' q2.i q2.o hx).o
      · exact (ih.loop P _ rest r' i1 o1 hx).o

theorem o_nodeUpdates {a : Id} {f : Nat} (ih : OAll a f) (P : Id → Prop) (r : Root) (l : List Id) (r' : Root)
    (hI : RInvP P r) (hO : NoOrphanAt a P r) (hx : propagateNodeUpdates (f + 1) r l = .ok r') :
    NoOrphanAt a P r' := by
  simp only [propagateNodeUpdates] at hx
  split at hx
  · cases hx
  · rename_i r1 buf h1
    obtain ⟨i1, _⟩ := hI.visitStarts l h1
    obtain ⟨i1', _⟩ := i1.resetMarks l
    have o1 : NoOrphanAt a P (resetMarks r1 l) :=
      (hO.samePar (SamePar.visitStarts l h1)).samePar (SamePar.resetMarks l r1)
    exact (ih.loop P _ buf.reverse r' i1' o1 hx).o

theorem o_updates {a : Id} {f : Nat} (ih : OAll a f) (P : Id → Prop) (r : Root) (s : Id) (r' : Root)
    (hI : RInvP P r) (hO : NoOrphanAt a P r) (hx : propagateUpdates (f + 1) r s = .ok r') :
    NoOrphanAt a P r' := by
  simp only [propagateUpdates] at hx
  split at hx
  · simp only [Except.ok.injEq] at hx
    subst hx
    exact hO.samePar (SamePar.of_nodes_eq rfl)
  · exact (ih.nodeUpdates P r [s] r' hI hO hx).o

/-- `disposeChildren`: the children are detached (they join the ghost set), the cleanups and the
disposal of the children run with the larger ghost set, and all detached children are dead at the end -/
theorem o_dchildren {a : Id} {f : Nat} (ih : OAll a f) (P : Id → Prop) (r : Root) (id : Id) (r' : Root)
    (hI : RInvP P r) (hO : NoOrphanAt a P r) (hx : disposeChildren (f + 1) r id = .ok r') :
    NoOrphanAt a P r' := by
  simp only [disposeChildren] at hx
  split at hx
  · simp only [Except.ok.injEq] at hx
    subst hx; exact hO
  · rename_i n hn
    split at hx
    · cases hx
    · rename_i r2 h2
      split at hx
      · cases hx
      · rename_i r3 h3
        simp only [Except.ok.injEq] at hx
        subst hx
        obtain ⟨ia, ga⟩ := hI.detach hn
        obtain ⟨s1, _, _⟩ := SameFrame.setNode r id { n with cleanups := [], children := [] }
        have oa : NoOrphanAt a (fun j => P j ∨ j ∈ n.children)
            (r.setNode id { n with cleanups := [], children := [] }) :=
          (hO.samePar (SamePar.setNode (n' := { n with cleanups := [], children := [] }) hn rfl)).weaken
            fun _ _ h => Or.inl h
        obtain ⟨ib, gb⟩ := ia.same
          (r' := { (r.setNode id { n with cleanups := [], children := [] }) with tracker := none }) rfl rfl
        have ob : NoOrphanAt a (fun j => P j ∨ j ∈ n.children)
            { (r.setNode id { n with cleanups := [], children := [] }) with tracker := none } :=
          oa.samePar (SamePar.of_nodes_eq rfl)
        have q2 := ih.cleanups _ _ n.cleanups r2 ib
          (fun cl hc => by
            have := (hI.node id n hn).cleanups cl hc
            exact this.mono (by show r.nodes.size ≤ (r.setNode id _).nodes.size; rw [s1]; exact Nat.le_refl _))
          ob h2
        obtain ⟨ic, gc⟩ := q2.i.same
          (r' := { r2 with tracker := (r.setNode id { n with cleanups := [], children := [] }).tracker }) rfl rfl
        have oc : NoOrphanAt a (fun j => P j ∨ j ∈ n.children)
            { r2 with tracker := (r.setNode id { n with cleanups := [], children := [] }).tracker } :=
          q2.o.samePar (SamePar.of_nodes_eq rfl)
        obtain ⟨q3, d3⟩ := ih.dlist _ _ n.children r3 ic oc h3
        have o3 : NoOrphanAt a P r3 := by
          refine q3.o.weaken ?_
          intro j ha hP
          rcases hP with hP | hm
          · exact hP
          · have hlt : j < r.nodes.size := hI.cbound id n hn j hm
            have : r3.get? j = none := d3 j hm (Nat.lt_of_lt_of_le hlt (((ga.trans gb).trans q2.g).trans gc).size)
            simp [Root.alive, this] at ha
        exact o3.samePar (SamePar.modify r3 id _ fun _ => rfl)

theorem o_selector {a : Id} {f : Nat} (ih : OAll a f) (P : Id → Prop) (r : Root) (eq : EqKind) (cl : Closure)
    (r' : Root) (id : Id) (hI : RInvP P r) (hE : EnvLt r.nodes.size cl.env) (hO : NoOrphanAt a P r)
    (hx : createSelector (f + 1) r eq cl = .ok (r', id)) : NoOrphanAt a P r' := by
  simp only [createSelector] at hx
  split at hx
  · cases hx
  · rename_i r1 id1 h1
    obtain ⟨i1, g1, hid, hsz1, _⟩ := hI.createNode h1
    have o1 : NoOrphanAt a P r1 := hO.createNode h1
    have hid1 : id1 < r1.nodes.size := by rw [hsz1, hid]; exact Nat.lt_succ_self _
    split at hx
    · cases hx
    · rename_i r2 v obs h2
      have ia : RInvP P { r1 with current := some id1, tracker := some [] } :=
        i1.congr rfl (by intro c hc; simp only [Option.some.injEq] at hc; subst hc; exact hid1)
      have oa : NoOrphanAt a P { r1 with current := some id1, tracker := some [] } :=
        o1.samePar (SamePar.of_nodes_eq rfl)
      have q2 := ih.closure P _ cl r2 v obs ia (hE.mono g1.size) oa h2
      generalize hr3 : ({ r2 with tracker := r1.tracker, current := r1.current, trace := r2.trace ++ [Event.run id1 obs v] } : Root) = r3 at hx
      have o3 : NoOrphanAt a P r3 := by
        subst hr3; exact q2.o.samePar (SamePar.of_nodes_eq rfl)
      have o4 : NoOrphanAt a P (createDependencyLink r3 (r2.tracker.getD []) id1) :=
        o3.samePar (SamePar.link _ _ _)
      split at hx
      · simp only [Except.ok.injEq, Prod.mk.injEq] at hx
        obtain ⟨rfl, rfl⟩ := hx
        exact o4
      · rename_i n4 hn4
        simp only [Except.ok.injEq, Prod.mk.injEq] at hx
        obtain ⟨rfl, rfl⟩ := hx
        exact o4.samePar (SamePar.setNode hn4 rfl)

theorem o_update {a : Id} {f : Nat} (ih : OAll a f) (P : Id → Prop) (r : Root) (cur : Id) (r' : Root)
    (hI : RInvP P r) (hO : NoOrphanAt a P r) (hx : runNodeUpdate (f + 1) r cur = .ok r') :
    NoOrphanAt a P r' := by
  simp only [runNodeUpdate] at hx
  split at hx
  · cases hx
  · rename_i n hn
    split at hx
    · cases hx
    · rename_i r2 h2
      obtain ⟨i2, g2, hsz2, _, _, hn2⟩ := hI.unlink hn h2
      have o2 : NoOrphanAt a P r2 := hO.samePar (SamePar.unlinkPhase hI.nd hI.sym hn h2)
      rw [hn2] at hx
      simp only at hx
      split at hx
      · cases hx
      · cases hx
      · rename_i eq cl old hcb hval
        have w2 := i2.node cur _ hn2
        have hEcl : EnvLt r2.nodes.size cl.env := w2.callback eq cl hcb
        generalize hr3 : r2.setNode cur _ = r3 at hx
        have i3 : RInvP P r3 := by
          subst hr3
          exact i2.setNode hn2 rfl rfl rfl rfl ⟨fun _ => by simp [unlinked], w2.cleanups, by simp⟩
        have g3 : Grows r2 r3 := by subst hr3; exact Grows.setNode _ hn2 fun _ => rfl
        have o3 : NoOrphanAt a P r3 := by subst hr3; exact o2.samePar (SamePar.setNode hn2 rfl)
        have hn3 : ∃ n3, r3.get? cur = some n3 ∧ n3.value = none := by
          subst hr3
          exact ⟨_, Root.get?_setNode_self hn2 _, rfl⟩
        obtain ⟨n3, hn3, hv3⟩ := hn3
        split at hx
        · cases hx
        · rename_i r4 h4
          have q4 := ih.dchildren P r3 cur r4 i3 o3 h4
          -- repair D22: a cleanup disposed the node itself, the update stops here
          split at hx
          · simp only [Except.ok.injEq] at hx
            subst hx
            exact q4.o
          split at hx
          · cases hx
          · rename_i r5 new obs h5
            have hcur4 : cur < r4.nodes.size :=
              Nat.lt_of_lt_of_le (Root.lt_size_of_get? hn3) q4.g.size
            have ia : RInvP P { r4 with current := some cur, tracker := some [] } :=
              q4.i.congr rfl (by intro c hc; simp only [Option.some.injEq] at hc; subst hc; exact hcur4)
            have oa : NoOrphanAt a P { r4 with current := some cur, tracker := some [] } :=
              q4.o.samePar (SamePar.of_nodes_eq rfl)
            have q5 := ih.closure P _ cl r5 new obs ia
              (hEcl.mono (Nat.le_trans g3.size q4.g.size)) oa h5
            generalize hr6 : ({ r5 with tracker := r4.tracker, current := r4.current, trace := r5.trace ++ [Event.run cur obs new] } : Root) = r6 at hx
            have o6 : NoOrphanAt a P r6 := by
              subst hr6; exact q5.o.samePar (SamePar.of_nodes_eq rfl)
            have o7 : NoOrphanAt a P (createDependencyLink r6 (r5.tracker.getD []) cur) :=
              o6.samePar (SamePar.link _ _ _)
            split at hx
            · simp only [Except.ok.injEq] at hx
              subst hx; exact o7
            · rename_i n7 hn7
              simp only [Except.ok.injEq] at hx
              split at hx
              · subst hx
                have o8 := o7.samePar
                  (SamePar.setNode (n' := { n7 with callback := some (eq, cl), value := some new, dirty := false }) hn7 rfl)
                exact o8.samePar (SamePar.markDirty _ _)
              · subst hx
                exact o7.samePar (SamePar.setNode hn7 rfl)

/-! ### 7. `execStmt`, statement by statement -/

set_option linter.unusedSectionVars false

section stmts
variable {a : Id} {f : Nat} (ih : OAll a f) {P : Id → Prop} {r r' : Root} {c c' : Ctx}
  (hI : RInvP P r) (hE : EnvLt r.nodes.size c.env) (hO : NoOrphanAt a P r)
include ih hI hE hO

theorem o_read {h : Nat} (hx : execStmt (f + 1) r c (.read h) = .ok (r', c')) : NoOrphanAt a P r' := by
  simp only [execStmt] at hx
  split at hx
  · cases hx
  · split at hx
    · cases hx
    · split at hx
      · cases hx
      · simp only [Except.ok.injEq, Prod.mk.injEq] at hx
        obtain ⟨rfl, rfl⟩ := hx
        exact hO.samePar (SamePar.of_nodes_eq (track_nodes r ‹Handle›.id).1)

theorem o_readU {h : Nat} (hx : execStmt (f + 1) r c (.readU h) = .ok (r', c')) : NoOrphanAt a P r' := by
  simp only [execStmt] at hx
  split at hx
  · cases hx
  · split at hx
    · cases hx
    · split at hx
      · cases hx
      · simp only [Except.ok.injEq, Prod.mk.injEq] at hx
        obtain ⟨rfl, rfl⟩ := hx
        exact hO

theorem o_track {h : Nat} (hx : execStmt (f + 1) r c (.track h) = .ok (r', c')) : NoOrphanAt a P r' := by
  simp only [execStmt] at hx
  split at hx
  · cases hx
  · split at hx
    · cases hx
    · simp only [Except.ok.injEq, Prod.mk.injEq] at hx
      obtain ⟨rfl, rfl⟩ := hx
      exact hO.samePar (SamePar.of_nodes_eq (track_nodes r ‹Handle›.id).1)

theorem o_ifpos {h : Nat} {t e : Body} (hx : execStmt (f + 1) r c (.ifpos h t e) = .ok (r', c')) :
    NoOrphanAt a P r' := by
  simp only [execStmt] at hx
  split at hx
  · cases hx
  · rename_i hd _
    split at hx
    · cases hx
    · split at hx
      · cases hx
      · rename_i v _
        obtain ⟨n1, n2⟩ := track_nodes r hd.id
        obtain ⟨i, g⟩ := hI.same n1 n2
        have hE1 : EnvLt (track r hd.id).nodes.size c.env := hE.mono g.size
        have o1 : NoOrphanAt a P (track r hd.id) := hO.samePar (SamePar.of_nodes_eq n1)
        split at hx
        · exact (ih.inner P _ { c with acc := mix c.acc v, obs := c.obs ++ [.read hd.id v] } t r' c' i hE1 o1 hx).1.o
        · exact (ih.inner P _ { c with acc := mix c.acc v, obs := c.obs ++ [.read hd.id v] } e r' c' i hE1 o1 hx).1.o

/-- `untrack`, `component`, and the second half of `on` -/
theorem o_untracked {b : Body} {prev : Option (List Id)}
    (hx : (match execInner f { r with tracker := none } c b with
      | .error e => .error e
      | .ok (r, c) => .ok ({ r with tracker := prev }, c)) = (.ok (r', c') : Except Panic (Root × Ctx))) :
    NoOrphanAt a P r' := by
  split at hx
  · cases hx
  · rename_i r1 c1 h1
    simp only [Except.ok.injEq, Prod.mk.injEq] at hx
    obtain ⟨rfl, rfl⟩ := hx
    obtain ⟨i0, _⟩ := hI.same (r' := { r with tracker := none }) rfl rfl
    have o0 : NoOrphanAt a P { r with tracker := none } := hO.samePar (SamePar.of_nodes_eq rfl)
    obtain ⟨q1, _⟩ := ih.inner P _ c b r1 c1 i0 hE o0 h1
    exact q1.o.samePar (SamePar.of_nodes_eq rfl)

theorem o_untrack {b : Body} (hx : execStmt (f + 1) r c (.untrack b) = .ok (r', c')) :
    NoOrphanAt a P r' := by
  simp only [execStmt] at hx
  exact o_untracked ih hI hE hO hx

theorem o_component {b : Body} (hx : execStmt (f + 1) r c (.component b) = .ok (r', c')) :
    NoOrphanAt a P r' := by
  simp only [execStmt] at hx
  exact o_untracked ih hI hE hO hx

theorem o_on {deps : List Nat} {b : Body} (hx : execStmt (f + 1) r c (.on deps b) = .ok (r', c')) :
    NoOrphanAt a P r' := by
  simp only [execStmt] at hx
  split at hx
  · cases hx
  · rename_i r1 h1
    obtain ⟨n1, n2⟩ := trackAll_nodes c deps h1
    obtain ⟨i1, g1⟩ := hI.same n1 n2
    exact o_untracked ih i1 (hE.mono g1.size) (hO.samePar (SamePar.of_nodes_eq n1)) hx

theorem o_signal {v : Int} (hx : execStmt (f + 1) r c (.signal v) = .ok (r', c')) :
    NoOrphanAt a P r' := by
  simp only [execStmt] at hx
  split at hx
  · cases hx
  · rename_i r1 id h1
    simp only [Except.ok.injEq, Prod.mk.injEq] at hx
    obtain ⟨rfl, rfl⟩ := hx
    exact hO.createNode h1

/-- `memo`, `selector`, `effect` -/
theorem o_created {eq : EqKind} {b : Body} {kd : Kind}
    (hx : (match createSelector f r eq ⟨b, c.env, 0⟩ with
      | .error e => .error e
      | .ok (r, id) => .ok (r, { c with env := c.env ++ [⟨id, kd⟩] })) = (.ok (r', c') : Except Panic (Root × Ctx))) :
    NoOrphanAt a P r' := by
  split at hx
  · cases hx
  · rename_i r1 id h1
    simp only [Except.ok.injEq, Prod.mk.injEq] at hx
    obtain ⟨rfl, rfl⟩ := hx
    exact (ih.selector P r eq ⟨b, c.env, 0⟩ r1 id hI hE hO h1).1.o

theorem o_memo {b : Body} (hx : execStmt (f + 1) r c (.memo b) = .ok (r', c')) : NoOrphanAt a P r' := by
  simp only [execStmt] at hx
  exact o_created ih hI hE hO hx

theorem o_selectorStmt {eq : EqKind} {b : Body} (hx : execStmt (f + 1) r c (.selector eq b) = .ok (r', c')) :
    NoOrphanAt a P r' := by
  simp only [execStmt] at hx
  exact o_created ih hI hE hO hx

theorem o_effect {b : Body} (hx : execStmt (f + 1) r c (.effect b) = .ok (r', c')) : NoOrphanAt a P r' := by
  simp only [execStmt] at hx
  exact o_created ih hI hE hO hx

theorem o_scope {b : Body} (hx : execStmt (f + 1) r c (.scope b) = .ok (r', c')) : NoOrphanAt a P r' := by
  simp only [execStmt] at hx
  split at hx
  · cases hx
  · rename_i r1 id h1
    obtain ⟨i1, g1, hid, hsz1, _⟩ := hI.createNode h1
    have o1 : NoOrphanAt a P r1 := hO.createNode h1
    have hid1 : id < r1.nodes.size := by rw [hsz1, hid]; exact Nat.lt_succ_self _
    split at hx
    · cases hx
    · rename_i r2 c2 h2
      simp only [Except.ok.injEq, Prod.mk.injEq] at hx
      obtain ⟨rfl, rfl⟩ := hx
      have ia : RInvP P { r1 with current := some id } :=
        i1.congr rfl (by intro x hc; simp only [Option.some.injEq] at hc; subst hc; exact hid1)
      have oa : NoOrphanAt a P { r1 with current := some id } := o1.samePar (SamePar.of_nodes_eq rfl)
      obtain ⟨q2, _⟩ := ih.inner P _ c b r2 c2 ia (hE.mono g1.size) oa h2
      exact q2.o.samePar (SamePar.of_nodes_eq rfl)

theorem o_set {h : Nat} {e : Ex} (hx : execStmt (f + 1) r c (.set h e) = .ok (r', c')) :
    NoOrphanAt a P r' := by
  simp only [execStmt] at hx
  split at hx
  · cases hx
  · split at hx
    · cases hx
    · split at hx
      · cases hx
      · rename_i r1 h1
        split at hx
        · cases hx
        · rename_i r2 h2
          simp only [Except.ok.injEq, Prod.mk.injEq] at hx
          obtain ⟨rfl, rfl⟩ := hx
          obtain ⟨i1, _⟩ := hI.setSilent h1
          exact (ih.updates P r1 _ r2 i1 (hO.samePar (SamePar.setSilent h1)) h2).o

theorem o_setSilentStmt {h : Nat} {e : Ex} (hx : execStmt (f + 1) r c (.setSilent h e) = .ok (r', c')) :
    NoOrphanAt a P r' := by
  simp only [execStmt] at hx
  split at hx
  · cases hx
  · split at hx
    · cases hx
    · split at hx
      · cases hx
      · rename_i r1 h1
        simp only [Except.ok.injEq, Prod.mk.injEq] at hx
        obtain ⟨rfl, rfl⟩ := hx
        exact hO.samePar (SamePar.setSilent h1)

theorem o_cleanupStmt {b : Body} (hx : execStmt (f + 1) r c (.cleanup b) = .ok (r', c')) :
    NoOrphanAt a P r' := by
  simp only [execStmt] at hx
  split at hx
  · simp only [Except.ok.injEq, Prod.mk.injEq] at hx
    obtain ⟨rfl, rfl⟩ := hx
    exact hO
  · rename_i cur _
    split at hx
    · cases hx
    · rename_i n hn
      simp only [Except.ok.injEq, Prod.mk.injEq] at hx
      obtain ⟨rfl, rfl⟩ := hx
      exact (hO.samePar (SamePar.setNode (n' := { n with cleanups := n.cleanups ++ [⟨b, c.env, r.nextTag⟩] })
        hn rfl)).samePar (SamePar.of_nodes_eq rfl)

theorem o_dispose {h : Nat} (hx : execStmt (f + 1) r c (.dispose h) = .ok (r', c')) :
    NoOrphanAt a P r' := by
  simp only [execStmt] at hx
  split at hx
  · cases hx
  · split at hx
    · cases hx
    · rename_i r1 h1
      simp only [Except.ok.injEq, Prod.mk.injEq] at hx
      obtain ⟨rfl, rfl⟩ := hx
      exact (ih.dnode P r _ r1 hI hO h1).1.o

theorem o_disposeCur (hx : execStmt (f + 1) r c .disposeCur = .ok (r', c')) : NoOrphanAt a P r' := by
  simp only [execStmt] at hx
  split at hx
  · simp only [Except.ok.injEq, Prod.mk.injEq] at hx
    obtain ⟨rfl, rfl⟩ := hx
    exact hO
  · split at hx
    · cases hx
    · rename_i r1 h1
      simp only [Except.ok.injEq, Prod.mk.injEq] at hx
      obtain ⟨rfl, rfl⟩ := hx
      exact (ih.dnode P r _ r1 hI hO h1).1.o

theorem o_batch {b : Body} (hx : execStmt (f + 1) r c (.batch b) = .ok (r', c')) : NoOrphanAt a P r' := by
  simp only [execStmt] at hx
  split at hx
  · cases hx
  · rename_i r1 c1 h1
    obtain ⟨i0, _⟩ := hI.same (r' := { r with batching := true }) rfl rfl
    have o0 : NoOrphanAt a P { r with batching := true } := hO.samePar (SamePar.of_nodes_eq rfl)
    obtain ⟨q1, _⟩ := ih.inner P _ c b r1 c1 i0 hE o0 h1
    split at hx
    · simp only [Except.ok.injEq, Prod.mk.injEq] at hx
      obtain ⟨rfl, rfl⟩ := hx
      exact q1.o
    · split at hx
      · cases hx
      · rename_i r2 h2
        simp only [Except.ok.injEq, Prod.mk.injEq] at hx
        obtain ⟨rfl, rfl⟩ := hx
        obtain ⟨i1', _⟩ := q1.i.same (r' := { r1 with batching := false, queue := [] }) rfl rfl
        have o1' : NoOrphanAt a P { r1 with batching := false, queue := [] } :=
          q1.o.samePar (SamePar.of_nodes_eq rfl)
        exact (ih.nodeUpdates P _ r1.queue r2 i1' o1' h2).o

theorem o_provide {ty : Nat} {e : Ex} (hx : execStmt (f + 1) r c (.provide ty e) = .ok (r', c')) :
    NoOrphanAt a P r' := by
  simp only [execStmt] at hx
  split at hx
  · cases hx
  · rename_i r1 h1
    simp only [Except.ok.injEq, Prod.mk.injEq] at hx
    obtain ⟨rfl, rfl⟩ := hx
    exact hO.samePar (SamePar.provideContext h1)

theorem o_use {ty : Nat} (hx : execStmt (f + 1) r c (.use ty) = .ok (r', c')) : NoOrphanAt a P r' := by
  simp only [execStmt] at hx
  split at hx
  · cases hx
  · simp only [Except.ok.injEq, Prod.mk.injEq] at hx
    obtain ⟨rfl, rfl⟩ := hx
    exact hO

theorem o_runIn {h : Nat} {b : Body} (hx : execStmt (f + 1) r c (.runIn h b) = .ok (r', c')) :
    NoOrphanAt a P r' := by
  simp only [execStmt] at hx
  split at hx
  · cases hx
  · rename_i hd hl
    split at hx
    · cases hx
    · rename_i r1 c1 h1
      simp only [Except.ok.injEq, Prod.mk.injEq] at hx
      obtain ⟨rfl, rfl⟩ := hx
      have ia : RInvP P { r with current := some hd.id } :=
        hI.congr rfl (by intro x hc; simp only [Option.some.injEq] at hc; subst hc; exact hE hd (lookup_ok hl).2)
      have oa : NoOrphanAt a P { r with current := some hd.id } := hO.samePar (SamePar.of_nodes_eq rfl)
      obtain ⟨q1, _⟩ := ih.inner P _ c b r1 c1 ia hE oa h1
      exact q1.o.samePar (SamePar.of_nodes_eq rfl)

end stmts

theorem o_stmt {a : Id} {f : Nat} (ih : OAll a f) (P : Id → Prop) (r : Root) (c : Ctx) (s : Stmt) (r' : Root)
    (c' : Ctx) (hI : RInvP P r) (hE : EnvLt r.nodes.size c.env) (hO : NoOrphanAt a P r)
    (hx : execStmt (f + 1) r c s = .ok (r', c')) : NoOrphanAt a P r' := by
  cases s with
  | read h => exact o_read ih hI hE hO hx
  | readU h => exact o_readU ih hI hE hO hx
  | track h => exact o_track ih hI hE hO hx
  | ifpos h t e => exact o_ifpos ih hI hE hO hx
  | untrack b => exact o_untrack ih hI hE hO hx
  | component b => exact o_component ih hI hE hO hx
  | on deps b => exact o_on ih hI hE hO hx
  | signal v => exact o_signal ih hI hE hO hx
  | memo b => exact o_memo ih hI hE hO hx
  | selector eq b => exact o_selectorStmt ih hI hE hO hx
  | effect b => exact o_effect ih hI hE hO hx
  | scope b => exact o_scope ih hI hE hO hx
  | set h e => exact o_set ih hI hE hO hx
  | setSilent h e => exact o_setSilentStmt ih hI hE hO hx
  | cleanup b => exact o_cleanupStmt ih hI hE hO hx
  | dispose h => exact o_dispose ih hI hE hO hx
  | disposeCur => exact o_disposeCur ih hI hE hO hx
  | batch b => exact o_batch ih hI hE hO hx
  | provide ty e => exact o_provide ih hI hE hO hx
  | use ty => exact o_use ih hI hE hO hx
  | runIn h b => exact o_runIn ih hI hE hO hx

/-! ### 8. the induction -/

theorem oAll (a : Id) : ∀ f, OAll a f
  | 0 => oAll_zero a
  | f + 1 =>
    have ih := oAll a f
    have pa := presAll (f + 1)
    { body := fun P r c b r' c' hI hE hO hx =>
        have q := pa.body P r c b r' c' hI hE hx
        ⟨⟨q.1, q.2.1, o_body ih P r c b r' c' hI hE hO hx⟩, q.2.2⟩
      inner := fun P r c b r' c' hI hE hO hx =>
        have q := pa.inner P r c b r' c' hI hE hx
        ⟨⟨q.1, q.2.1, o_inner ih P r c b r' c' hI hE hO hx⟩, q.2.2⟩
      stmt := fun P r c s r' c' hI hE hO hx =>
        have q := pa.stmt P r c s r' c' hI hE hx
        ⟨⟨q.1, q.2.1, o_stmt ih P r c s r' c' hI hE hO hx⟩, q.2.2⟩
      closure := fun P r cl r' v obs hI hE hO hx =>
        have q := pa.closure P r cl r' v obs hI hE hx
        ⟨q.1, q.2, o_closure ih P r cl r' v obs hI hE hO hx⟩
      selector := fun P r eq cl r' id hI hE hO hx =>
        have q := pa.selector P r eq cl r' id hI hE hx
        ⟨⟨q.1.1, q.1.2, o_selector ih P r eq cl r' id hI hE hO hx⟩, q.2⟩
      update := fun P r cur r' hI hO hx =>
        have q := pa.update P r cur r' hI hx
        ⟨q.1, q.2, o_update ih P r cur r' hI hO hx⟩
      loop := fun P r l r' hI hO hx =>
        have q := pa.loop P r l r' hI hx
        ⟨q.1, q.2, o_loop ih P r l r' hI hO hx⟩
      nodeUpdates := fun P r l r' hI hO hx =>
        have q := pa.nodeUpdates P r l r' hI hx
        ⟨q.1, q.2, o_nodeUpdates ih P r l r' hI hO hx⟩
      updates := fun P r s r' hI hO hx =>
        have q := pa.updates P r s r' hI hx
        ⟨q.1, q.2, o_updates ih P r s r' hI hO hx⟩
      dnode := fun P r id r' hI hO hx =>
        have q := pa.dnode P r id r' hI hx
        ⟨⟨q.1.1, q.1.2, o_dnode ih P r id r' hI hO hx⟩, q.2⟩
      dchildren := fun P r id r' hI hO hx =>
        have q := pa.dchildren P r id r' hI hx
        ⟨q.1, q.2, o_dchildren ih P r id r' hI hO hx⟩
      rest := fun P r id r' hI hO hx =>
        have q := pa.rest P r id r' hI hx
        ⟨q.1, q.2, o_rest ih P r id r' hI hO hx⟩
      cleanups := fun P r cls r' hI hE hO hx =>
        have q := pa.cleanups P r cls r' hI hE hx
        ⟨q.1, q.2, o_cleanups ih P r cls r' hI hE hO hx⟩
      dlist := fun P r cs r' hI hO hx =>
        have q := pa.dlist P r cs r' hI hx
        ⟨⟨q.1.1, q.1.2, o_dlist ih P r cs r' hI hO hx⟩, q.2⟩ }

/-! ### 9. the initial state, top-level programs -/

theorem noOrphan_init : NoOrphan Root.init := by
  intro a j m hm hp
  obtain ⟨_, rfl⟩ := init_get? hm
  simp [freshNode] at hp

/-- a sequence of top-level operations leaves no live node with a dead owner -/
theorem runOps_noOrphan (fuel : Nat) : ∀ (ops : List Stmt) (r : Root) (env : List Handle) (r' : Root)
    (env' : List Handle), RInv r → EnvLt r.nodes.size env → NoOrphan r →
    runOps fuel ops r env = .ok (r', env') → NoOrphan r'
  | [], r, env, r', env', _, _, hO, hx => by
    simp only [runOps, Except.ok.injEq, Prod.mk.injEq] at hx
    obtain ⟨rfl, rfl⟩ := hx
    exact hO
  | s :: rest, r, env, r', env', hI, hE, hO, hx => by
    simp only [runOps] at hx
    split at hx
    · cases hx
    · rename_i r1 c1 h1
      have hI1 : RInv r1 ∧ EnvLt r1.nodes.size c1.env := by
        obtain ⟨i1, _, e1⟩ := (presAll fuel).stmt _ r ⟨env, 0, []⟩ s r1 c1 hI hE h1
        exact ⟨i1, e1⟩
      have hO1 : NoOrphan r1 := fun a =>
        ((oAll a fuel).stmt _ r ⟨env, 0, []⟩ s r1 c1 hI hE (hO a) h1).1.o
      exact runOps_noOrphan fuel rest r1 c1.env r' env' hI1.1 hI1.2 hO1 hx

end SycVerif.Reactive
