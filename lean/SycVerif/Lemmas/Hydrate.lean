/-
Helpers for C09 (hydration): see `Props/C09.lean` for the readable statements.

Plan of the proof
* `mA t l` = `mergeCh (.text t :: l)`: text merging with an explicit accumulator (structural recursion).
* fuel: `hydrateKids`/`hydrateFirstUnadopted` never enlarge the document (`chSize`) and succeed with the
  same result for EVERY fuel `≥ pendSize + chSize` as soon as they succeed for some fuel.
* `hs σ i t = (S, H, t')`: reading an instance `i` with pending (not yet emitted) static text `t`
  gives the part `S` of the merged server document that is complete after `i`, the part `H` of the
  hydrated document, and the static text `t'` still pending.  `mA t (c ++ rest) = S ++ mA t' rest`.
* operational lemma `op`: for every good (fully processed) prefix `pre` and ARBITRARY `tail`,
  hydrating `pre ++ S ++ tail` with the pending nodes of `i` leads to `pre ++ H ++ tail`.
* islands (`NoHydrate`): `fz σ i t = (F, t')` is the merged FROZEN rendering of `i` (keyless elements,
  no comments); `hs σ (.island cs) t = (F, F, t')` and nothing is pending: the content is "good" (every
  later adoption skips it) and identical before and after.  A `Show` inside an island is allowed.
* observations: `elemKinds` (tag, unadopted/adopted/keyless), `keylessEls` (the keyless subtrees),
  `eraseKeyless` (erase the stamp `[2]`, which `visibleCh` of the model keeps), comment counts.
-/
import SycVerif.Model.Hydrate
namespace SycVerif.Hydrate
open SycVerif.DomView
set_option linter.unusedSimpArgs false

/-! ## Text merging with an accumulator -/

/-- a pending text as a list of children: nothing if empty -/
def tx (t : Str) : List Ch := if t = [] then [] else [.text t]

@[simp] theorem tx_nil : tx [] = [] := rfl
theorem tx_ne {t : Str} (h : t ≠ []) : tx t = [.text t] := by simp [tx, h]

/-- `mergeCh (.text t :: l)` by structural recursion -/
def mA : Str → List Ch → List Ch
  | t, [] => tx t
  | t, .text a :: r => mA (t ++ a) r
  | t, .el tag as ks :: r => tx t ++ .el tag as ks :: mA [] r
  | t, .cmt s :: r => tx t ++ .cmt s :: mA [] r

theorem mergeCh_mA : ∀ l : List Ch, mergeCh l = mA [] l ∧ ∀ t, mergeCh (.text t :: l) = mA t l
  | [] => by
    refine ⟨by simp [mergeCh, mA], fun t => ?_⟩
    by_cases h : t = []
    · subst h; simp [mergeCh, mA]
    · simp [mergeCh, mA, tx, h]
  | x :: r => by
    have ih := mergeCh_mA r
    cases x with
    | text a =>
      refine ⟨by rw [ih.2]; simp [mA], fun t => ?_⟩
      rw [mergeCh, ih.2]; simp [mA]
    | el tag as ks =>
      have h1 : mergeCh (.el tag as ks :: r) = .el tag as ks :: mA [] r := by
        rw [mergeCh] <;> simp [ih.1]
      refine ⟨by rw [h1]; simp [mA], fun t => ?_⟩
      by_cases h : t = []
      · subst h; rw [mergeCh, h1] <;> simp [mA]
      · rw [mergeCh, h1] <;> simp [mA, tx, h]
    | cmt s =>
      have h1 : mergeCh (.cmt s :: r) = .cmt s :: mA [] r := by
        rw [mergeCh] <;> simp [ih.1]
      refine ⟨by rw [h1]; simp [mA], fun t => ?_⟩
      by_cases h : t = []
      · subst h; rw [mergeCh, h1] <;> simp [mA]
      · rw [mergeCh, h1] <;> simp [mA, tx, h]

theorem mergeCh_eq (l : List Ch) : mergeCh l = mA [] l := (mergeCh_mA l).1

theorem mA_tx (u t : Str) (l : List Ch) : mA u (tx t ++ l) = mA (u ++ t) l := by
  by_cases h : t = []
  · subst h; simp
  · simp [tx, h, mA]

/-! ## Fuel -/

theorem chSize_pos (l : List Ch) : 1 ≤ chSize l := by
  cases l with
  | nil => simp [chSize]
  | cons x r => cases x <;> simp [chSize] <;> omega

theorem pendSize_pos (l : List Pend) : 1 ≤ pendSize l := by
  cases l with
  | nil => simp [pendSize]
  | cons x r => cases x <;> simp [pendSize] <;> omega

theorem chSize_cons_le (x : Ch) (r : List Ch) : chSize r + 1 ≤ chSize (x :: r) := by
  cases x <;> simp [chSize] <;> omega

theorem adoptMarker_size : ∀ (ch r : List Ch), adoptMarker ch = some r → chSize r = chSize ch
  | [], r, h => by simp [adoptMarker] at h
  | x :: l, r, h => by
    unfold adoptMarker at h
    split at h
    · cases h
    · rename_i r' heq
      cases heq; cases h; simp [chSize]
    · rename_i c r' _ heq
      cases heq
      cases h' : adoptMarker l with
      | none => simp [h'] at h
      | some l' =>
        simp [h'] at h; subst h
        have := adoptMarker_size l l' h'
        cases x <;> simp [chSize, this]

theorem adoptText_size (s : Str) : ∀ (ch r : List Ch), adoptText s ch = some r → chSize r ≤ chSize ch
  | [], r, h => by simp [adoptText] at h
  | x :: l, r, h => by
    unfold adoptText at h
    split at h
    · cases h
    · rename_i y r' heq
      cases heq; cases h
      have := chSize_cons_le y r'
      simp [chSize]; omega
    · cases h
    · rename_i c r' _ _ heq
      cases heq
      cases h' : adoptText s l with
      | none => simp [h'] at h
      | some l' =>
        simp [h'] at h; subst h
        have := adoptText_size s l l' h'
        cases x <;> simp [chSize] <;> omega

/-! unfolding lemmas -/
theorem hk_zero (ch ps) : hydrateKids 0 ch ps = .error .shape := by simp [hydrateKids]
theorem hk_nil (f ch) : hydrateKids (f + 1) ch [] = .ok ch := by simp [hydrateKids]
theorem hk_ts (f ch ps) : hydrateKids (f + 1) ch (.textStatic :: ps) = hydrateKids f ch ps := by
  simp [hydrateKids]
theorem hk_marker (f ch ps) : hydrateKids (f + 1) ch (.marker :: ps) =
    match adoptMarker ch with
    | none => .error .markerNotFound
    | some ch => hydrateKids f ch ps := by simp only [hydrateKids]; rfl
theorem hk_td (f ch s ps) : hydrateKids (f + 1) ch (.textDynamic s :: ps) =
    match adoptText s ch with
    | none => .error .textNotFound
    | some ch => hydrateKids f ch ps := by simp only [hydrateKids]; rfl
theorem hk_el (f ch tag as kids ps) : hydrateKids (f + 1) ch (.el tag as kids :: ps) =
    match hydrateFirstUnadopted f ch tag as kids with
    | .error e => .error e
    | .ok ch => hydrateKids f ch ps := by simp only [hydrateKids]; rfl
theorem hfu_zero (ch tag as kids) : hydrateFirstUnadopted 0 ch tag as kids = .error .shape := by
  simp [hydrateFirstUnadopted]
theorem hfu_nil (f tag as kids) : hydrateFirstUnadopted (f + 1) [] tag as kids = .error .shape := by
  simp [hydrateFirstUnadopted]
theorem hfu_el (f t as ks r tag attrs kids) :
    hydrateFirstUnadopted (f + 1) (.el t as ks :: r) tag attrs kids =
    if as.head? = some ([1], []) || as.head? = some ([2], []) then
      match hydrateFirstUnadopted f r tag attrs kids with
      | .error e => .error e
      | .ok r => .ok (.el t as ks :: r)
    else if t = tag then
      match hydrateKids f ks kids with
      | .error e => .error e
      | .ok ks => .ok (.el t (([1], []) :: as) ks :: r)
    else .error .shape := by simp only [hydrateFirstUnadopted]; rfl
theorem hfu_text (f s r tag attrs kids) :
    hydrateFirstUnadopted (f + 1) (.text s :: r) tag attrs kids =
    match hydrateFirstUnadopted f r tag attrs kids with
    | .error e => .error e
    | .ok r => .ok (.text s :: r) := by simp only [hydrateFirstUnadopted]; rfl
theorem hfu_cmt (f s r tag attrs kids) :
    hydrateFirstUnadopted (f + 1) (.cmt s :: r) tag attrs kids =
    match hydrateFirstUnadopted f r tag attrs kids with
    | .error e => .error e
    | .ok r => .ok (.cmt s :: r) := by simp only [hydrateFirstUnadopted]; rfl

/-- If a run succeeds with SOME fuel then the document did not grow and the run succeeds, with the same
result, for EVERY fuel `≥ pendSize + chSize` (in particular: fuel monotonicity above that bound). -/
theorem fuel_suff : ∀ f : Nat,
    (∀ ch ps r, hydrateKids f ch ps = .ok r →
      chSize r ≤ chSize ch ∧ ∀ f', pendSize ps + chSize ch ≤ f' → hydrateKids f' ch ps = .ok r) ∧
    (∀ ch tag as kids r, hydrateFirstUnadopted f ch tag as kids = .ok r →
      chSize r ≤ chSize ch ∧
        ∀ f', pendSize kids + chSize ch ≤ f' → hydrateFirstUnadopted f' ch tag as kids = .ok r)
  | 0 => by
    refine ⟨fun ch ps r h => ?_, fun ch tag as kids r h => ?_⟩
    · simp [hk_zero] at h
    · simp [hfu_zero] at h
  | f + 1 => by
    have ⟨ihK, ihF⟩ := fuel_suff f
    refine ⟨fun ch ps r h => ?_, fun ch tag as kids r h => ?_⟩
    · cases ps with
      | nil =>
        rw [hk_nil] at h; cases h
        refine ⟨Nat.le_refl _, fun f' hf' => ?_⟩
        have := chSize_pos ch
        obtain ⟨g, rfl⟩ : ∃ g, f' = g + 1 := ⟨f' - 1, by simp [pendSize] at hf'; omega⟩
        rw [hk_nil]
      | cons p ps =>
        cases p with
        | textStatic =>
          rw [hk_ts] at h
          have ⟨h1, h2⟩ := ihK _ _ _ h
          refine ⟨h1, fun f' hf' => ?_⟩
          obtain ⟨g, rfl⟩ : ∃ g, f' = g + 1 := ⟨f' - 1, by simp [pendSize] at hf'; omega⟩
          rw [hk_ts]; apply h2; simp [pendSize] at hf'; omega
        | marker =>
          rw [hk_marker] at h
          cases hm : adoptMarker ch with
          | none => simp [hm] at h
          | some ch1 =>
            simp only [hm] at h
            have hs := adoptMarker_size _ _ hm
            have ⟨h1, h2⟩ := ihK _ _ _ h
            refine ⟨by omega, fun f' hf' => ?_⟩
            obtain ⟨g, rfl⟩ : ∃ g, f' = g + 1 := ⟨f' - 1, by simp [pendSize] at hf'; omega⟩
            rw [hk_marker]; simp only [hm]; apply h2; simp [pendSize] at hf'; omega
        | textDynamic s =>
          rw [hk_td] at h
          cases hm : adoptText s ch with
          | none => simp [hm] at h
          | some ch1 =>
            simp only [hm] at h
            have hs := adoptText_size _ _ _ hm
            have ⟨h1, h2⟩ := ihK _ _ _ h
            refine ⟨by omega, fun f' hf' => ?_⟩
            obtain ⟨g, rfl⟩ : ∃ g, f' = g + 1 := ⟨f' - 1, by simp [pendSize] at hf'; omega⟩
            rw [hk_td]; simp only [hm]; apply h2; simp [pendSize] at hf'; omega
        | el tag as kids =>
          rw [hk_el] at h
          cases hm : hydrateFirstUnadopted f ch tag as kids with
          | error e => simp [hm] at h
          | ok ch1 =>
            simp only [hm] at h
            have ⟨hs, hs2⟩ := ihF _ _ _ _ _ hm
            have ⟨h1, h2⟩ := ihK _ _ _ h
            refine ⟨by omega, fun f' hf' => ?_⟩
            have := pendSize_pos ps
            obtain ⟨g, rfl⟩ : ∃ g, f' = g + 1 := ⟨f' - 1, by simp [pendSize] at hf'; omega⟩
            simp [pendSize] at hf'
            rw [hk_el, hs2 g (by omega)]; simp only; apply h2; omega
    · cases ch with
      | nil => simp [hfu_nil] at h
      | cons x l =>
        cases x with
        | text s =>
          rw [hfu_text] at h
          cases hm : hydrateFirstUnadopted f l tag as kids with
          | error e => simp [hm] at h
          | ok l1 =>
            simp only [hm] at h; cases h
            have ⟨h1, h2⟩ := ihF _ _ _ _ _ hm
            refine ⟨by simp [chSize]; omega, fun f' hf' => ?_⟩
            obtain ⟨g, rfl⟩ : ∃ g, f' = g + 1 := ⟨f' - 1, by simp [chSize] at hf'; omega⟩
            simp [chSize] at hf'
            rw [hfu_text, h2 g (by omega)]
        | cmt s =>
          rw [hfu_cmt] at h
          cases hm : hydrateFirstUnadopted f l tag as kids with
          | error e => simp [hm] at h
          | ok l1 =>
            simp only [hm] at h; cases h
            have ⟨h1, h2⟩ := ihF _ _ _ _ _ hm
            refine ⟨by simp [chSize]; omega, fun f' hf' => ?_⟩
            obtain ⟨g, rfl⟩ : ∃ g, f' = g + 1 := ⟨f' - 1, by simp [chSize] at hf'; omega⟩
            simp [chSize] at hf'
            rw [hfu_cmt, h2 g (by omega)]
        | el t a ks =>
          rw [hfu_el] at h
          split at h
          · rename_i hst
            cases hm : hydrateFirstUnadopted f l tag as kids with
            | error e => simp [hm] at h
            | ok l1 =>
              simp only [hm] at h; cases h
              have ⟨h1, h2⟩ := ihF _ _ _ _ _ hm
              refine ⟨by simp [chSize]; omega, fun f' hf' => ?_⟩
              obtain ⟨g, rfl⟩ : ∃ g, f' = g + 1 := ⟨f' - 1, by simp [chSize] at hf'; omega⟩
              simp [chSize] at hf'
              rw [hfu_el, if_pos hst, h2 g (by omega)]
          · rename_i hst
            split at h
            · rename_i htag
              cases hm : hydrateKids f ks kids with
              | error e => simp [hm] at h
              | ok ks1 =>
                simp only [hm] at h; cases h
                have ⟨h1, h2⟩ := ihK _ _ _ hm
                refine ⟨by simp [chSize]; omega, fun f' hf' => ?_⟩
                obtain ⟨g, rfl⟩ : ∃ g, f' = g + 1 := ⟨f' - 1, by simp [chSize] at hf'; omega⟩
                simp [chSize] at hf'
                rw [hfu_el, if_neg hst, if_pos htag, h2 g (by omega)]
            · cases h

/-! ## Fuel-free big-step judgements -/

/-- appending the pending nodes `ps` to a parent with children `ch` succeeds and leaves `r` -/
def Hyd (ch : List Ch) (ps : List Pend) (r : List Ch) : Prop := ∃ f, hydrateKids f ch ps = .ok r
/-- adopting the first unadopted element child succeeds and leaves `r` -/
def HydE (ch : List Ch) (tag : Str) (as : List (Str × Str)) (kids : List Pend) (r : List Ch) : Prop :=
  ∃ f, hydrateFirstUnadopted f ch tag as kids = .ok r

theorem Hyd.at_bound {ch ps r} (h : Hyd ch ps r) {f : Nat} (hf : pendSize ps + chSize ch ≤ f) :
    hydrateKids f ch ps = .ok r := by
  obtain ⟨g, hg⟩ := h
  exact ((fuel_suff g).1 _ _ _ hg).2 f hf

theorem Hyd.nil (ch : List Ch) : Hyd ch [] ch := ⟨1, hk_nil 0 ch⟩
theorem Hyd.textStatic {ch ps r} (h : Hyd ch ps r) : Hyd ch (.textStatic :: ps) r := by
  obtain ⟨f, hf⟩ := h; exact ⟨f + 1, by rw [hk_ts, hf]⟩
theorem Hyd.marker {ch ch1 ps r} (hm : adoptMarker ch = some ch1) (h : Hyd ch1 ps r) :
    Hyd ch (.marker :: ps) r := by
  obtain ⟨f, hf⟩ := h; exact ⟨f + 1, by rw [hk_marker]; simp only [hm]; exact hf⟩
theorem Hyd.textDynamic {ch ch1 s ps r} (hm : adoptText s ch = some ch1) (h : Hyd ch1 ps r) :
    Hyd ch (.textDynamic s :: ps) r := by
  obtain ⟨f, hf⟩ := h; exact ⟨f + 1, by rw [hk_td]; simp only [hm]; exact hf⟩
theorem Hyd.el {ch ch1 tag as kids ps r} (hm : HydE ch tag as kids ch1) (h : Hyd ch1 ps r) :
    Hyd ch (.el tag as kids :: ps) r := by
  obtain ⟨f1, hf1⟩ := hm
  have h1 := ((fuel_suff f1).2 _ _ _ _ _ hf1).2
  refine ⟨(pendSize kids + chSize ch) + (pendSize ps + chSize ch1) + 1, ?_⟩
  rw [hk_el, h1 _ (by omega)]
  exact h.at_bound (by omega)

theorem HydE.text {s r tag as kids r'} (h : HydE r tag as kids r') :
    HydE (.text s :: r) tag as kids (.text s :: r') := by
  obtain ⟨f, hf⟩ := h; exact ⟨f + 1, by rw [hfu_text, hf]⟩
theorem HydE.cmt {s r tag as kids r'} (h : HydE r tag as kids r') :
    HydE (.cmt s :: r) tag as kids (.cmt s :: r') := by
  obtain ⟨f, hf⟩ := h; exact ⟨f + 1, by rw [hfu_cmt, hf]⟩
/-- an element child that is already adopted (`[1]`) or has no key (`[2]`, inside `NoHydrate`) is skipped -/
theorem HydE.adopted {t a ks r tag as kids r'}
    (ha : a.head? = some ([1], []) ∨ a.head? = some ([2], []))
    (h : HydE r tag as kids r') : HydE (.el t a ks :: r) tag as kids (.el t a ks :: r') := by
  obtain ⟨f, hf⟩ := h; exact ⟨f + 1, by rw [hfu_el, if_pos (by simpa using ha), hf]⟩
theorem HydE.hit {tag a ks r as kids ks'} (ha : a.head? ≠ some ([1], []))
    (ha2 : a.head? ≠ some ([2], [])) (h : Hyd ks kids ks') :
    HydE (.el tag a ks :: r) tag as kids (.el tag (([1], []) :: a) ks' :: r) := by
  obtain ⟨f, hf⟩ := h
  exact ⟨f + 1, by rw [hfu_el, if_neg (by simpa using ⟨ha, ha2⟩), if_pos rfl, hf]⟩

/-! ## The processed prefix -/

/-- a fully processed child: no slash comment, no `t` comment, elements adopted (`[1]`) or keyless (`[2]`) -/
def okCh : Ch → Bool
  | .cmt s => s != [47] && s != [116]
  | .el _ as _ => as.head? == some ([1], []) || as.head? == some ([2], [])
  | .text _ => true

/-- the invariant on the already processed prefix of a parent's children -/
def Good (l : List Ch) : Prop := ∀ x ∈ l, okCh x = true

theorem Good.nil : Good [] := by simp [Good]
theorem Good.append {a b} (ha : Good a) (hb : Good b) : Good (a ++ b) := by
  intro x hx; rcases List.mem_append.1 hx with h | h
  · exact ha x h
  · exact hb x h
theorem Good.cons {x l} (hx : okCh x = true) (hl : Good l) : Good (x :: l) := by
  intro y hy; rcases List.mem_cons.1 hy with h | h
  · exact h ▸ hx
  · exact hl y h
theorem Good.tx (t : Str) : Good (tx t) := by
  intro x hx; by_cases h : t = []
  · simp [h] at hx
  · simp [Hydrate.tx, h] at hx; subst hx; rfl
theorem Good.tail {x l} (h : Good (x :: l)) : Good l := fun y hy => h y (List.mem_cons_of_mem _ hy)
theorem Good.head {x l} (h : Good (x :: l)) : okCh x = true := h x (List.mem_cons_self)

theorem adoptMarker_good : ∀ (pre r : List Ch), Good pre →
    adoptMarker (pre ++ .cmt [47] :: r) = some (pre ++ .cmt [35] :: r)
  | [], r, _ => by simp [adoptMarker]
  | x :: pre, r, h => by
    have ih := adoptMarker_good pre r h.tail
    have hx := h.head
    cases x with
    | text s => simp [adoptMarker, ih]
    | el t a k => simp [adoptMarker, ih]
    | cmt s =>
      have : s ≠ [47] := by intro e; subst e; simp [okCh] at hx
      rw [List.cons_append, adoptMarker, ih]
      · rfl
      · intro e; cases e; exact this rfl

theorem adoptText_good (s : Str) : ∀ (pre : List Ch) (y : Ch) (r : List Ch), Good pre →
    adoptText s (pre ++ .cmt [116] :: y :: r) = some (pre ++ .text s :: r)
  | [], y, r, _ => by simp [adoptText]
  | x :: pre, y, r, h => by
    have ih := adoptText_good s pre y r h.tail
    have hx := h.head
    cases x with
    | text s' => rw [List.cons_append, adoptText, ih] <;> simp
    | el t a k => rw [List.cons_append, adoptText, ih] <;> simp
    | cmt s' =>
      have : s' ≠ [116] := by intro e; subst e; simp [okCh] at hx
      rw [List.cons_append, adoptText, ih]
      · rfl
      · intro z r' e _; cases e; exact this rfl
      · intro e _; cases e; exact this rfl

theorem HydE.skip {tag as kids} : ∀ (pre : List Ch) {r r' : List Ch}, Good pre →
    HydE r tag as kids r' → HydE (pre ++ r) tag as kids (pre ++ r')
  | [], _, _, _, h => h
  | x :: pre, r, r', hg, h => by
    have ih := HydE.skip pre hg.tail h
    have hx := hg.head
    cases x with
    | text s => exact ih.text
    | cmt s => exact ih.cmt
    | el t a k => exact ih.adopted (by simpa [okCh] using hx)

/-! ## Hypotheses on the view -/

mutual
/-- no `Show` anywhere in the HYDRATED part of the instance (including the current content of dynamic
views).  Inside an island (`NoHydrate`) nothing is hydrated, so a `Show` there is allowed. -/
def ShowFree : Inst → Prop
  | .el _ _ _ cs => ShowFreeList cs
  | .text _ _ => True
  | .dynText _ _ => True
  | .dynView _ _ _ _ cur => ShowFreeList cur
  | .show _ _ _ _ => False
  | .frag cs => ShowFreeList cs
  | .island _ => True
def ShowFreeList : InstList → Prop
  | .nil => True
  | .cons i rest => ShowFree i ∧ ShowFreeList rest
end

mutual
/-- no element of the view (inside or outside islands) uses the attribute NAMES `[1]` and `[2]`, which the
model reserves for the adoption stamp (`data-hydrated`) and for "rendered without a hydration key" -/
def StampFree : Inst → Prop
  | .el _ _ attrs cs => (∀ a ∈ attrs, a.1 ≠ [1]) ∧ (∀ a ∈ attrs, a.1 ≠ [2]) ∧ StampFreeList cs
  | .text _ _ => True
  | .dynText _ _ => True
  | .dynView _ _ _ _ cur => StampFreeList cur
  | .show _ _ _ cs => StampFreeList cs
  | .frag cs => StampFreeList cs
  | .island cs => StampFreeList cs
def StampFreeList : InstList → Prop
  | .nil => True
  | .cons i rest => StampFree i ∧ StampFreeList rest
end

theorem evalAttrs_names (σ : Store) {m : Str} : ∀ (attrs : List (Str × AttrV)), (∀ a ∈ attrs, a.1 ≠ m) →
    ∀ b ∈ evalAttrs σ attrs, b.1 ≠ m
  | [], _, b, hb => by simp [evalAttrs] at hb
  | (n, v) :: r, h, b, hb => by
    have ih := evalAttrs_names σ r (fun a ha => h a (List.mem_cons_of_mem _ ha))
    have hn : n ≠ m := h (n, v) List.mem_cons_self
    cases v with
    | static v =>
      simp only [evalAttrs, List.mem_cons] at hb
      rcases hb with rfl | hb
      · exact hn
      · exact ih b hb
    | dyn sig =>
      simp only [evalAttrs] at hb
      split at hb
      · exact ih b hb
      · rcases List.mem_cons.1 hb with rfl | hb
        · exact hn
        · exact ih b hb
    | dynBool sig =>
      simp only [evalAttrs] at hb
      split at hb
      · rcases List.mem_cons.1 hb with rfl | hb
        · exact hn
        · exact ih b hb
      · exact ih b hb

theorem head_ne_stamp {m : Str} {as : List (Str × Str)} (h : ∀ b ∈ as, b.1 ≠ m) :
    as.head? ≠ some (m, []) := by
  cases as with
  | nil => simp
  | cons b r =>
    intro e; simp at e; exact h b List.mem_cons_self (by rw [e])

/-! ## Unfolding `ssrOf` -/

section unfold
variable (σ : Store)
theorem ssrOf_el (id tag attrs cs) : ssrOf σ (.el id tag attrs cs) =
    ([.el tag (evalAttrs σ attrs) (mergeCh (ssrOfList σ cs).1)],
     [.el tag (evalAttrs σ attrs) (ssrOfList σ cs).2]) := by simp [ssrOf]
theorem ssrOf_text (id s) : ssrOf σ (.text id s) = ([.text s], [.textStatic]) := by simp [ssrOf]
theorem ssrOf_dynText (id sig) : ssrOf σ (.dynText id sig) =
    ([.cmt [116], .text (dynTextStr (σ.get sig)), .cmt []], [.textDynamic (dynTextStr (σ.get sig))]) := by
  simp [ssrOf]
theorem ssrOf_dynView (a b sig alts cur) : ssrOf σ (.dynView a b sig alts cur) =
    ([.cmt [47]] ++ (ssrOfList σ cur).1 ++ [.cmt [47]], [.marker] ++ (ssrOfList σ cur).2 ++ [.marker]) := by
  simp [ssrOf]
theorem ssrOf_frag (cs) : ssrOf σ (.frag cs) = ssrOfList σ cs := by simp [ssrOf]
theorem ssrOf_island (cs) : ssrOf σ (.island cs) = (frozenOfList σ cs, []) := by simp [ssrOf]
theorem frozenOf_el (id tag attrs cs) : frozenOf σ (.el id tag attrs cs) =
    [.el tag (([2], []) :: evalAttrs σ attrs) (mergeCh (frozenOfList σ cs))] := by simp [frozenOf]
theorem frozenOf_text (id s) : frozenOf σ (.text id s) = [.text s] := by simp [frozenOf]
theorem frozenOf_dynText (id sig) : frozenOf σ (.dynText id sig) = [.text (dynTextStr (σ.get sig))] := by
  simp [frozenOf]
theorem frozenOf_dynView (a b sig alts cur) : frozenOf σ (.dynView a b sig alts cur) = frozenOfList σ cur := by
  simp [frozenOf]
theorem frozenOf_show (a b sig cs) : frozenOf σ (.show a b sig cs) =
    if σ.get sig % 2 = 1 then frozenOfList σ cs else [] := by simp [frozenOf]
theorem frozenOf_frag (cs) : frozenOf σ (.frag cs) = frozenOfList σ cs := by simp [frozenOf]
theorem frozenOf_island (cs) : frozenOf σ (.island cs) = frozenOfList σ cs := by simp [frozenOf]
theorem frozenOfList_nil : frozenOfList σ .nil = [] := by simp [frozenOfList]
theorem frozenOfList_cons (i rest) : frozenOfList σ (.cons i rest) = frozenOf σ i ++ frozenOfList σ rest := by
  simp [frozenOfList]
theorem ssrOfList_nil : ssrOfList σ .nil = ([], []) := by simp [ssrOfList]
theorem ssrOfList_cons (i rest) : ssrOfList σ (.cons i rest) =
    ((ssrOf σ i).1 ++ (ssrOfList σ rest).1, (ssrOf σ i).2 ++ (ssrOfList σ rest).2) := by
  simp [ssrOfList]
end unfold

/-! ## Islands (`NoHydrate`): the frozen server content, with text merged -/

mutual
/-- `fz σ i t = (F, t')`: with static text `t` pending in front of `i`, the children `F` of the merged
server document completed by the FROZEN rendering of `i` (no keys, no markers), and the text `t'` still
pending after `i`.  `mA t (frozenOf σ i ++ rest) = F ++ mA t' rest`.  The hydrating client does not touch
any of it, so `F` is also what the hydrated document contains. -/
def fz (σ : Store) : Inst → Str → List Ch × Str
  | .el _ tag attrs cs, t =>
    let r := fzList σ cs []
    (tx t ++ [.el tag (([2], []) :: evalAttrs σ attrs) (r.1 ++ tx r.2)], [])
  | .text _ s, t => ([], t ++ s)
  | .dynText _ sig, t => ([], t ++ dynTextStr (σ.get sig))
  | .dynView _ _ _ _ cur, t => fzList σ cur t
  | .show _ _ sig cs, t => if σ.get sig % 2 = 1 then fzList σ cs t else ([], t)
  | .frag cs, t => fzList σ cs t
  | .island cs, t => fzList σ cs t
def fzList (σ : Store) : InstList → Str → List Ch × Str
  | .nil, t => ([], t)
  | .cons i rest, t =>
    let r1 := fz σ i t
    let r2 := fzList σ rest r1.2
    (r1.1 ++ r2.1, r2.2)
end

section unfold
variable (σ : Store)
theorem fz_el (id tag attrs cs t) : fz σ (.el id tag attrs cs) t =
    (tx t ++ [.el tag (([2], []) :: evalAttrs σ attrs) ((fzList σ cs []).1 ++ tx (fzList σ cs []).2)], []) := by
  simp [fz]
theorem fz_text (id s t) : fz σ (.text id s) t = ([], t ++ s) := by simp [fz]
theorem fz_dynText (id sig t) : fz σ (.dynText id sig) t = ([], t ++ dynTextStr (σ.get sig)) := by simp [fz]
theorem fz_dynView (a b sig alts cur t) : fz σ (.dynView a b sig alts cur) t = fzList σ cur t := by simp [fz]
theorem fz_show (a b sig cs t) : fz σ (.show a b sig cs) t =
    if σ.get sig % 2 = 1 then fzList σ cs t else ([], t) := by simp [fz]
theorem fz_frag (cs t) : fz σ (.frag cs) t = fzList σ cs t := by simp [fz]
theorem fz_island (cs t) : fz σ (.island cs) t = fzList σ cs t := by simp [fz]
theorem fzList_nil (t) : fzList σ .nil t = ([], t) := by simp [fzList]
theorem fzList_cons (i rest t) : fzList σ (.cons i rest) t =
    ((fz σ i t).1 ++ (fzList σ rest (fz σ i t).2).1, (fzList σ rest (fz σ i t).2).2) := by simp [fzList]
end unfold

mutual
/-- `fz` describes the merged frozen rendering -/
theorem mA_frozen (σ : Store) : ∀ (i : Inst) (t : Str) (rest : List Ch),
    mA t (frozenOf σ i ++ rest) = (fz σ i t).1 ++ mA (fz σ i t).2 rest
  | .el id tag attrs cs, t, rest => by
    have ih := mA_frozenList σ cs [] []
    rw [frozenOf_el, fz_el, mergeCh_eq]
    simp only [List.append_nil] at ih
    simp [mA, ih]
  | .text id s, t, rest => by rw [frozenOf_text, fz_text]; simp [mA]
  | .dynText id sig, t, rest => by rw [frozenOf_dynText, fz_dynText]; simp [mA]
  | .dynView a b sig alts cur, t, rest => by
    rw [frozenOf_dynView, fz_dynView]; exact mA_frozenList σ cur t rest
  | .show a b sig cs, t, rest => by
    rw [frozenOf_show, fz_show]
    split
    · exact mA_frozenList σ cs t rest
    · simp
  | .frag cs, t, rest => by rw [frozenOf_frag, fz_frag]; exact mA_frozenList σ cs t rest
  | .island cs, t, rest => by rw [frozenOf_island, fz_island]; exact mA_frozenList σ cs t rest
theorem mA_frozenList (σ : Store) : ∀ (is : InstList) (t : Str) (rest : List Ch),
    mA t (frozenOfList σ is ++ rest) = (fzList σ is t).1 ++ mA (fzList σ is t).2 rest
  | .nil, t, rest => by rw [frozenOfList_nil, fzList_nil]; simp
  | .cons i is, t, rest => by
    rw [frozenOfList_cons, fzList_cons]
    simp only [List.append_assoc]
    rw [mA_frozen σ i t _, mA_frozenList σ is _ rest]
end

mutual
/-- the frozen content needs no processing: text and keyless elements only -/
theorem good_fz (σ : Store) : ∀ (i : Inst) (t : Str), Good (fz σ i t).1
  | .el id tag attrs cs, t => by
    rw [fz_el]; exact (Good.tx t).append (Good.cons (by simp [okCh]) Good.nil)
  | .text id s, t => by rw [fz_text]; exact Good.nil
  | .dynText id sig, t => by rw [fz_dynText]; exact Good.nil
  | .dynView a b sig alts cur, t => by rw [fz_dynView]; exact good_fzList σ cur t
  | .show a b sig cs, t => by
    rw [fz_show]
    split
    · exact good_fzList σ cs t
    · exact Good.nil
  | .frag cs, t => by rw [fz_frag]; exact good_fzList σ cs t
  | .island cs, t => by rw [fz_island]; exact good_fzList σ cs t
theorem good_fzList (σ : Store) : ∀ (is : InstList) (t : Str), Good (fzList σ is t).1
  | .nil, t => by rw [fzList_nil]; exact Good.nil
  | .cons i is, t => by rw [fzList_cons]; exact (good_fz σ i t).append (good_fzList σ is _)
end

/-! ## The server document and the hydrated document, instance by instance -/

mutual
/-- `hs σ i t = (S, H, t')`: with static text `t` pending in front of `i`, the children `S` of the
merged server document completed by `i`, the corresponding children `H` after hydration, and the static
text `t'` pending after `i` -/
def hs (σ : Store) : Inst → Str → List Ch × List Ch × Str
  | .el _ tag attrs cs, t =>
    let r := hsList σ cs []
    (tx t ++ [.el tag (evalAttrs σ attrs) (r.1 ++ tx r.2.2)],
     tx t ++ [.el tag (([1], []) :: evalAttrs σ attrs) (r.2.1 ++ tx r.2.2)], [])
  | .text _ s, t => ([], [], t ++ s)
  | .dynText _ sig, t =>
    (tx t ++ .cmt [116] :: tx (dynTextStr (σ.get sig)) ++ [.cmt []],
     tx t ++ .text (dynTextStr (σ.get sig)) :: (if dynTextStr (σ.get sig) = [] then [] else [.cmt []]), [])
  | .dynView _ _ _ _ cur, t =>
    let r := hsList σ cur []
    (tx t ++ .cmt [47] :: r.1 ++ tx r.2.2 ++ [.cmt [47]],
     tx t ++ .cmt [35] :: r.2.1 ++ tx r.2.2 ++ [.cmt [35]], [])
  | .show _ _ _ _, t => ([], [], t)
  | .frag cs, t => hsList σ cs t
  | .island cs, t => ((fzList σ cs t).1, (fzList σ cs t).1, (fzList σ cs t).2)
def hsList (σ : Store) : InstList → Str → List Ch × List Ch × Str
  | .nil, t => ([], [], t)
  | .cons i rest, t =>
    let r1 := hs σ i t
    let r2 := hsList σ rest r1.2.2
    (r1.1 ++ r2.1, r1.2.1 ++ r2.2.1, r2.2.2)
end

section unfold
variable (σ : Store)
theorem hs_el (id tag attrs cs t) : hs σ (.el id tag attrs cs) t =
    (tx t ++ [.el tag (evalAttrs σ attrs) ((hsList σ cs []).1 ++ tx (hsList σ cs []).2.2)],
     tx t ++ [.el tag (([1], []) :: evalAttrs σ attrs) ((hsList σ cs []).2.1 ++ tx (hsList σ cs []).2.2)],
     []) := by simp [hs]
theorem hs_text (id s t) : hs σ (.text id s) t = ([], [], t ++ s) := by simp [hs]
theorem hs_dynText (id sig t) : hs σ (.dynText id sig) t =
    (tx t ++ .cmt [116] :: tx (dynTextStr (σ.get sig)) ++ [.cmt []],
     tx t ++ .text (dynTextStr (σ.get sig)) :: (if dynTextStr (σ.get sig) = [] then [] else [.cmt []]), []) := by
  simp [hs]
theorem hs_dynView (a b sig alts cur t) : hs σ (.dynView a b sig alts cur) t =
    (tx t ++ .cmt [47] :: (hsList σ cur []).1 ++ tx (hsList σ cur []).2.2 ++ [.cmt [47]],
     tx t ++ .cmt [35] :: (hsList σ cur []).2.1 ++ tx (hsList σ cur []).2.2 ++ [.cmt [35]], []) := by
  simp [hs]
theorem hs_frag (cs t) : hs σ (.frag cs) t = hsList σ cs t := by simp [hs]
theorem hs_island (cs t) : hs σ (.island cs) t =
    ((fzList σ cs t).1, (fzList σ cs t).1, (fzList σ cs t).2) := by simp [hs]
theorem hsList_nil (t) : hsList σ .nil t = ([], [], t) := by simp [hsList]
theorem hsList_cons (i rest t) : hsList σ (.cons i rest) t =
    ((hs σ i t).1 ++ (hsList σ rest (hs σ i t).2.2).1,
     (hs σ i t).2.1 ++ (hsList σ rest (hs σ i t).2.2).2.1,
     (hsList σ rest (hs σ i t).2.2).2.2) := by simp [hsList]
end unfold

/-! ## `hs` describes the merged server document -/

mutual
theorem mA_ssr (σ : Store) : ∀ (i : Inst) (t : Str) (rest : List Ch), ShowFree i →
    mA t ((ssrOf σ i).1 ++ rest) = (hs σ i t).1 ++ mA (hs σ i t).2.2 rest
  | .el id tag attrs cs, t, rest, h => by
    have ih := mA_ssrList σ cs [] [] (by simpa [ShowFree] using h)
    rw [ssrOf_el, hs_el, mergeCh_eq]
    simp only [List.append_nil] at ih
    simp [mA, ih]
  | .text id s, t, rest, _ => by rw [ssrOf_text, hs_text]; simp [mA]
  | .dynText id sig, t, rest, _ => by
    rw [ssrOf_dynText, hs_dynText]; simp [mA]
  | .dynView a b sig alts cur, t, rest, h => by
    have ih := mA_ssrList σ cur [] (.cmt [47] :: rest) (by simpa [ShowFree] using h)
    rw [ssrOf_dynView, hs_dynView]
    simp only [List.append_assoc, List.cons_append, List.nil_append, mA]
    rw [ih]; simp [mA]
  | .show .., _, _, h => by simp [ShowFree] at h
  | .frag cs, t, rest, h => by
    rw [ssrOf_frag, hs_frag]; exact mA_ssrList σ cs t rest (by simpa [ShowFree] using h)
  | .island cs, t, rest, _ => by
    rw [ssrOf_island, hs_island]; exact mA_frozenList σ cs t rest
theorem mA_ssrList (σ : Store) : ∀ (is : InstList) (t : Str) (rest : List Ch), ShowFreeList is →
    mA t ((ssrOfList σ is).1 ++ rest) = (hsList σ is t).1 ++ mA (hsList σ is t).2.2 rest
  | .nil, t, rest, _ => by rw [ssrOfList_nil, hsList_nil]; simp
  | .cons i is, t, rest, h => by
    have h' : ShowFree i ∧ ShowFreeList is := by simpa [ShowFreeList] using h
    rw [ssrOfList_cons, hsList_cons]
    simp only [List.append_assoc]
    rw [mA_ssr σ i t _ h'.1, mA_ssrList σ is _ rest h'.2]
end

/-- the merged server children of a list of instances -/
theorem mergeCh_ssrList (σ : Store) (is : InstList) (h : ShowFreeList is) :
    mergeCh (ssrOfList σ is).1 = (hsList σ is []).1 ++ tx (hsList σ is []).2.2 := by
  have := mA_ssrList σ is [] [] h
  simpa [mergeCh_eq, mA] using this

/-! ## The operational lemma -/

theorem okCh_hash : okCh (.cmt [35]) = true := by decide

mutual
/-- Hydrating instance `i`: whatever good prefix `pre` has been processed and whatever `tail` follows,
the appends of `i` turn `pre ++ S ++ tail` into `pre ++ H ++ tail`, and `H` is again good. -/
theorem op (σ : Store) : ∀ (i : Inst) (t : Str), ShowFree i → StampFree i →
    Good (hs σ i t).2.1 ∧
    ∀ (pre tail : List Ch) (prest : List Pend) (r : List Ch), Good pre →
      Hyd (pre ++ (hs σ i t).2.1 ++ tail) prest r →
      Hyd (pre ++ (hs σ i t).1 ++ tail) ((ssrOf σ i).2 ++ prest) r
  | .el id tag attrs cs, t, hsf, hst => by
    have hsf' : ShowFreeList cs := by simpa [ShowFree] using hsf
    have hst' : (∀ a ∈ attrs, a.1 ≠ [1]) ∧ (∀ a ∈ attrs, a.1 ≠ [2]) ∧ StampFreeList cs := by
      simpa [StampFree] using hst
    have ⟨_, ih⟩ := opList σ cs [] hsf' hst'.2.2
    have hkids : Hyd ((hsList σ cs []).1 ++ tx (hsList σ cs []).2.2) (ssrOfList σ cs).2
        ((hsList σ cs []).2.1 ++ tx (hsList σ cs []).2.2) := by
      have := ih [] (tx (hsList σ cs []).2.2) [] _ Good.nil (Hyd.nil _)
      simpa using this
    rw [hs_el, ssrOf_el]
    refine ⟨(Good.tx t).append (Good.cons (by simp [okCh]) Good.nil), ?_⟩
    intro pre tail prest r hpre hr
    simp only [List.append_assoc, List.cons_append, List.nil_append] at hr ⊢
    refine Hyd.el ?_ hr
    rw [← List.append_assoc, ← List.append_assoc]
    exact HydE.skip _ (hpre.append (Good.tx t))
      (HydE.hit (head_ne_stamp (evalAttrs_names σ attrs hst'.1))
        (head_ne_stamp (evalAttrs_names σ attrs hst'.2.1)) hkids)
  | .text id s, t, _, _ => by
    rw [hs_text, ssrOf_text]
    refine ⟨Good.nil, ?_⟩
    intro pre tail prest r _ hr
    exact Hyd.textStatic hr
  | .dynText id sig, t, _, _ => by
    rw [hs_dynText, ssrOf_dynText]
    refine ⟨(Good.tx t).append (Good.cons rfl ?_), ?_⟩
    · split
      · exact Good.nil
      · exact Good.cons (by decide) Good.nil
    intro pre tail prest r hpre hr
    simp only [List.append_assoc, List.cons_append, List.nil_append] at hr ⊢
    refine Hyd.textDynamic ?_ hr
    rw [← List.append_assoc, ← List.append_assoc]
    by_cases hs : dynTextStr (σ.get sig) = []
    · rw [hs]; simp only [tx_nil, List.nil_append, if_true]
      exact adoptText_good _ _ _ _ (hpre.append (Good.tx t))
    · rw [tx_ne hs]; simp only [if_neg hs, List.cons_append, List.nil_append]
      exact adoptText_good _ _ _ _ (hpre.append (Good.tx t))
  | .dynView a b sig alts cur, t, hsf, hst => by
    have hsf' : ShowFreeList cur := by simpa [ShowFree] using hsf
    have hst' : StampFreeList cur := by simpa [StampFree] using hst
    have ⟨hg, ih⟩ := opList σ cur [] hsf' hst'
    rw [hs_dynView, ssrOf_dynView]
    refine ⟨?_, ?_⟩
    · have : Good (tx t ++ (.cmt [35] :: ((hsList σ cur []).2.1 ++ (tx (hsList σ cur []).2.2 ++
          [.cmt [35]])))) :=
        (Good.tx t).append (Good.cons okCh_hash (hg.append ((Good.tx _).append
          (Good.cons okCh_hash Good.nil))))
      simpa only [List.append_assoc, List.cons_append] using this
    intro pre tail prest r hpre hr
    simp only [List.append_assoc, List.cons_append, List.nil_append] at hr ⊢
    have hg1 : Good (pre ++ tx t ++ [.cmt [35]]) :=
      (hpre.append (Good.tx t)).append (Good.cons okCh_hash Good.nil)
    -- first marker
    refine Hyd.marker (ch1 := (pre ++ tx t ++ [.cmt [35]]) ++ (hsList σ cur []).1 ++
        (tx (hsList σ cur []).2.2 ++ .cmt [47] :: tail)) ?_ ?_
    · have := adoptMarker_good (pre ++ tx t) ((hsList σ cur []).1 ++
        (tx (hsList σ cur []).2.2 ++ .cmt [47] :: tail)) (hpre.append (Good.tx t))
      simpa using this
    -- content
    refine ih _ _ _ _ hg1 ?_
    -- closing marker
    refine Hyd.marker (ch1 := pre ++ (tx t ++ .cmt [35] :: ((hsList σ cur []).2.1 ++
        (tx (hsList σ cur []).2.2 ++ .cmt [35] :: tail)))) ?_ hr
    have := adoptMarker_good (pre ++ tx t ++ [.cmt [35]] ++ (hsList σ cur []).2.1 ++
      tx (hsList σ cur []).2.2) tail ((hg1.append hg).append (Good.tx _))
    simpa using this
  | .show .., _, h, _ => by simp [ShowFree] at h
  | .frag cs, t, hsf, hst => by
    rw [hs_frag, ssrOf_frag]
    exact opList σ cs t (by simpa [ShowFree] using hsf) (by simpa [StampFree] using hst)
  | .island cs, t, _, _ => by
    -- nothing is pending for an island and its (keyless) content is skipped by every later adoption
    rw [hs_island, ssrOf_island]
    exact ⟨good_fzList σ cs t, fun pre tail prest r _ hr => by simpa using hr⟩
theorem opList (σ : Store) : ∀ (is : InstList) (t : Str), ShowFreeList is → StampFreeList is →
    Good (hsList σ is t).2.1 ∧
    ∀ (pre tail : List Ch) (prest : List Pend) (r : List Ch), Good pre →
      Hyd (pre ++ (hsList σ is t).2.1 ++ tail) prest r →
      Hyd (pre ++ (hsList σ is t).1 ++ tail) ((ssrOfList σ is).2 ++ prest) r
  | .nil, t, _, _ => by
    rw [hsList_nil, ssrOfList_nil]
    exact ⟨Good.nil, fun pre tail prest r _ hr => by simpa using hr⟩
  | .cons i is, t, hsf, hst => by
    have hsf' : ShowFree i ∧ ShowFreeList is := by simpa [ShowFreeList] using hsf
    have hst' : StampFree i ∧ StampFreeList is := by simpa [StampFreeList] using hst
    have ⟨hg1, ih1⟩ := op σ i t hsf'.1 hst'.1
    have ⟨hg2, ih2⟩ := opList σ is (hs σ i t).2.2 hsf'.2 hst'.2
    rw [hsList_cons, ssrOfList_cons]
    refine ⟨hg1.append hg2, ?_⟩
    intro pre tail prest r hpre hr
    simp only [List.append_assoc] at hr ⊢
    have h2 := ih2 (pre ++ (hs σ i t).2.1) tail prest r (hpre.append hg1)
      (by simpa only [List.append_assoc] using hr)
    have h1 := ih1 pre ((hsList σ is (hs σ i t).2.2).1 ++ tail) _ r hpre
      (by simpa only [List.append_assoc] using h2)
    simpa only [List.append_assoc] using h1
end

/-! ## Hydration of a whole view -/

/-- the merged server document of a view, as `hs` describes it -/
def served (σ : Store) (inst : InstList) : List Ch :=
  (hsList σ inst []).1 ++ tx (hsList σ inst []).2.2
/-- the hydrated document of a view, as `hs` describes it -/
def hydrated (σ : Store) (inst : InstList) : List Ch :=
  (hsList σ inst []).2.1 ++ tx (hsList σ inst []).2.2

theorem served_eq (σ : Store) (inst : InstList) (h : ShowFreeList inst) :
    mergeCh (ssrOfList σ inst).1 = served σ inst := mergeCh_ssrList σ inst h

theorem hyd_view (σ : Store) (inst : InstList) (h : ShowFreeList inst) (hs : StampFreeList inst) :
    Hyd (mergeCh (ssrOfList σ inst).1) (ssrOfList σ inst).2 (hydrated σ inst) := by
  rw [served_eq σ inst h]
  have := (opList σ inst [] h hs).2 [] (tx (hsList σ inst []).2.2) [] _ Good.nil (Hyd.nil _)
  simpa [served, hydrated] using this

theorem hydrateView_unfold (σ : Store) (inst : InstList) : hydrateView σ inst =
    hydrateKids (2 * (pendSize (ssrOfList σ inst).2 + chSize (mergeCh (ssrOfList σ inst).1)) + 2)
      (mergeCh (ssrOfList σ inst).1) (ssrOfList σ inst).2 := by
  simp [hydrateView]

/-- for every fuel above the bound, in particular the fuel `hydrateView` passes -/
theorem hydrateKids_view (σ : Store) (inst : InstList) (h : ShowFreeList inst) (hs : StampFreeList inst)
    (f : Nat) (hf : pendSize (ssrOfList σ inst).2 + chSize (mergeCh (ssrOfList σ inst).1) ≤ f) :
    hydrateKids f (mergeCh (ssrOfList σ inst).1) (ssrOfList σ inst).2 = .ok (hydrated σ inst) :=
  (hyd_view σ inst h hs).at_bound hf

theorem hydrateView_eq (σ : Store) (inst : InstList) (h : ShowFreeList inst) (hs : StampFreeList inst) :
    hydrateView σ inst = .ok (hydrated σ inst) := by
  rw [hydrateView_unfold]
  exact hydrateKids_view σ inst h hs _ (by omega)

/-! ## Observations on documents -/

mutual
/-- the elements of one child, pre-order: (tag, carries the adoption stamp?) -/
def elemsC : Ch → List (Str × Bool)
  | .el t as ks => (t, as.head? == some ([1], [])) :: elems ks
  | .text _ => []
  | .cmt _ => []
/-- pre-order list of all elements of a forest: (tag, carries the adoption stamp?) -/
def elems : List Ch → List (Str × Bool)
  | [] => []
  | x :: r => elemsC x ++ elems r
end

/-- how the hydrating client sees an element of the document: not yet adopted, adopted (leading stamp
`[1]`), or rendered without a hydration key (leading stamp `[2]`: inside `NoHydrate`) -/
inductive Kind where
  | unadopted | adopted | keyless
  deriving DecidableEq, Repr

def kindOf (as : List (Str × Str)) : Kind :=
  if as.head? = some ([1], []) then .adopted
  else if as.head? = some ([2], []) then .keyless else .unadopted

mutual
def elemKindsC : Ch → List (Str × Kind)
  | .el t as ks => (t, kindOf as) :: elemKinds ks
  | .text _ => []
  | .cmt _ => []
/-- pre-order list of all elements of a forest: (tag, kind) -/
def elemKinds : List Ch → List (Str × Kind)
  | [] => []
  | x :: r => elemKindsC x ++ elemKinds r
end

/-- what adoption does to an element: an unadopted one becomes adopted, the others are left alone -/
def adoptKind : Str × Kind → Str × Kind
  | (t, .unadopted) => (t, .adopted)
  | e => e

mutual
def keylessElsC : Ch → List Ch
  | .el t as ks => if as.head? = some ([2], []) then [.el t as ks] else keylessEls ks
  | .text _ => []
  | .cmt _ => []
/-- the maximal keyless elements of a forest WITH their attributes and whole subtrees, in document order -/
def keylessEls : List Ch → List Ch
  | [] => []
  | x :: r => keylessElsC x ++ keylessEls r
end

mutual
def eraseKeylessC : Ch → Ch
  | .el t as ks => .el t (as.filter (·.1 != [2])) (eraseKeyless ks)
  | .text s => .text s
  | .cmt s => .cmt s
/-- erase the "no hydration key" stamp `[2]` from every element (the model's `visibleCh` erases `[1]` only) -/
def eraseKeyless : List Ch → List Ch
  | [] => []
  | x :: r => eraseKeylessC x :: eraseKeyless r
end

mutual
def cmtCountC (s : Str) : Ch → Nat
  | .el _ _ ks => cmtCount s ks
  | .text _ => 0
  | .cmt c => if c = s then 1 else 0
/-- number of comments with content `s` in the whole forest -/
def cmtCount (s : Str) : List Ch → Nat
  | [] => 0
  | x :: r => cmtCountC s x + cmtCount s r
end

mutual
def markerCountP : Pend → Nat
  | .el _ _ k => markerCount k
  | .marker => 1
  | .textStatic => 0
  | .textDynamic _ => 0
/-- number of marker appends in the whole pending forest -/
def markerCount : List Pend → Nat
  | [] => 0
  | x :: r => markerCountP x + markerCount r
end

mutual
def dynTextCountP : Pend → Nat
  | .el _ _ k => dynTextCount k
  | .textDynamic _ => 1
  | .textStatic => 0
  | .marker => 0
/-- number of dynamic-text appends in the whole pending forest -/
def dynTextCount : List Pend → Nat
  | [] => 0
  | x :: r => dynTextCountP x + dynTextCount r
end

section eqns
theorem elems_nil : elems [] = [] := by simp [elems]
theorem elems_el (t as ks r) : elems (.el t as ks :: r) =
    (t, as.head? == some ([1], [])) :: (elems ks ++ elems r) := by simp [elems, elemsC]
theorem elems_text (s r) : elems (.text s :: r) = elems r := by simp [elems, elemsC]
theorem elems_cmt (s r) : elems (.cmt s :: r) = elems r := by simp [elems, elemsC]
theorem elemKinds_nil : elemKinds [] = [] := by simp [elemKinds]
theorem elemKinds_el (t as ks r) : elemKinds (.el t as ks :: r) =
    (t, kindOf as) :: (elemKinds ks ++ elemKinds r) := by simp [elemKinds, elemKindsC]
theorem elemKinds_text (s r) : elemKinds (.text s :: r) = elemKinds r := by simp [elemKinds, elemKindsC]
theorem elemKinds_cmt (s r) : elemKinds (.cmt s :: r) = elemKinds r := by simp [elemKinds, elemKindsC]
theorem keylessEls_nil : keylessEls [] = [] := by simp [keylessEls]
theorem keylessEls_el (t as ks r) : keylessEls (.el t as ks :: r) =
    (if as.head? = some ([2], []) then [.el t as ks] else keylessEls ks) ++ keylessEls r := by
  simp [keylessEls, keylessElsC]
theorem keylessEls_text (s r) : keylessEls (.text s :: r) = keylessEls r := by simp [keylessEls, keylessElsC]
theorem keylessEls_cmt (s r) : keylessEls (.cmt s :: r) = keylessEls r := by simp [keylessEls, keylessElsC]
theorem eraseKeyless_nil : eraseKeyless [] = [] := by simp [eraseKeyless]
theorem eraseKeyless_el (t as ks r) : eraseKeyless (.el t as ks :: r) =
    .el t (as.filter (·.1 != [2])) (eraseKeyless ks) :: eraseKeyless r := by
  simp [eraseKeyless, eraseKeylessC]
theorem eraseKeyless_text (s r) : eraseKeyless (.text s :: r) = .text s :: eraseKeyless r := by
  simp [eraseKeyless, eraseKeylessC]
theorem eraseKeyless_cmt (s r) : eraseKeyless (.cmt s :: r) = .cmt s :: eraseKeyless r := by
  simp [eraseKeyless, eraseKeylessC]
theorem cmtCount_nil (s) : cmtCount s [] = 0 := by simp [cmtCount]
theorem cmtCount_el (s t as ks r) : cmtCount s (.el t as ks :: r) = cmtCount s ks + cmtCount s r := by
  simp [cmtCount, cmtCountC]
theorem cmtCount_text (s a r) : cmtCount s (.text a :: r) = cmtCount s r := by simp [cmtCount, cmtCountC]
theorem cmtCount_cmt (s c r) : cmtCount s (.cmt c :: r) = (if c = s then 1 else 0) + cmtCount s r := by
  simp [cmtCount, cmtCountC]
theorem markerCount_nil : markerCount [] = 0 := by simp [markerCount]
theorem markerCount_el (t as k r) : markerCount (.el t as k :: r) = markerCount k + markerCount r := by
  simp [markerCount, markerCountP]
theorem markerCount_marker (r) : markerCount (.marker :: r) = 1 + markerCount r := by
  simp [markerCount, markerCountP]
theorem markerCount_ts (r) : markerCount (.textStatic :: r) = markerCount r := by
  simp [markerCount, markerCountP]
theorem markerCount_td (s r) : markerCount (.textDynamic s :: r) = markerCount r := by
  simp [markerCount, markerCountP]
theorem dynTextCount_nil : dynTextCount [] = 0 := by simp [dynTextCount]
theorem dynTextCount_el (t as k r) : dynTextCount (.el t as k :: r) = dynTextCount k + dynTextCount r := by
  simp [dynTextCount, dynTextCountP]
theorem dynTextCount_marker (r) : dynTextCount (.marker :: r) = dynTextCount r := by
  simp [dynTextCount, dynTextCountP]
theorem dynTextCount_ts (r) : dynTextCount (.textStatic :: r) = dynTextCount r := by
  simp [dynTextCount, dynTextCountP]
theorem dynTextCount_td (s r) : dynTextCount (.textDynamic s :: r) = 1 + dynTextCount r := by
  simp [dynTextCount, dynTextCountP]
end eqns

/-- the visible content of a client-rendered document: comments dropped, identities forgotten -/
def visD : List DTree → List Ch
  | [] => []
  | .elem _ tag attrs kids :: r => .el tag attrs (mergeCh (visD kids)) :: visD r
  | .text _ s :: r => .text s :: visD r
  | .comment _ :: r => visD r

theorem elems_append : ∀ a b : List Ch, elems (a ++ b) = elems a ++ elems b
  | [], b => by simp [elems_nil, elems_el, elems_text, elems_cmt]
  | x :: a, b => by cases x <;> simp [elems_nil, elems_el, elems_text, elems_cmt, elems_append a b]
@[simp] theorem elems_tx (t : Str) : elems (tx t) = [] := by
  by_cases h : t = [] <;> simp [tx, h, elems_nil, elems_el, elems_text, elems_cmt]

theorem elemKinds_append : ∀ a b : List Ch, elemKinds (a ++ b) = elemKinds a ++ elemKinds b
  | [], b => by simp [elemKinds_nil]
  | x :: a, b => by
    cases x <;> simp [elemKinds_el, elemKinds_text, elemKinds_cmt, elemKinds_append a b]
@[simp] theorem elemKinds_tx (t : Str) : elemKinds (tx t) = [] := by
  by_cases h : t = [] <;> simp [tx, h, elemKinds_nil, elemKinds_text]

theorem keylessEls_append : ∀ a b : List Ch, keylessEls (a ++ b) = keylessEls a ++ keylessEls b
  | [], b => by simp [keylessEls_nil]
  | x :: a, b => by
    cases x <;> simp [keylessEls_el, keylessEls_text, keylessEls_cmt, keylessEls_append a b]
@[simp] theorem keylessEls_tx (t : Str) : keylessEls (tx t) = [] := by
  by_cases h : t = [] <;> simp [tx, h, keylessEls_nil, keylessEls_text]

theorem eraseKeyless_append : ∀ a b : List Ch, eraseKeyless (a ++ b) = eraseKeyless a ++ eraseKeyless b
  | [], b => by simp [eraseKeyless_nil]
  | x :: a, b => by
    cases x <;> simp [eraseKeyless_el, eraseKeyless_text, eraseKeyless_cmt, eraseKeyless_append a b]
@[simp] theorem eraseKeyless_tx (t : Str) : eraseKeyless (tx t) = tx t := by
  by_cases h : t = [] <;> simp [tx, h, eraseKeyless_nil, eraseKeyless_text]

/-- erasing the keyless stamp commutes with text merging (merging does not look inside elements) -/
theorem eraseKeyless_mA : ∀ (l : List Ch) (u : Str), eraseKeyless (mA u l) = mA u (eraseKeyless l)
  | [], u => by simp [mA, eraseKeyless_nil]
  | .text a :: r, u => by simp [mA, eraseKeyless_text, eraseKeyless_mA r]
  | .el t as ks :: r, u => by
    simp [mA, eraseKeyless_el, eraseKeyless_append, eraseKeyless_mA r]
  | .cmt s :: r, u => by
    simp [mA, eraseKeyless_cmt, eraseKeyless_append, eraseKeyless_mA r]

theorem eraseKeyless_mergeCh (l : List Ch) : eraseKeyless (mergeCh l) = mergeCh (eraseKeyless l) := by
  rw [mergeCh_eq, mergeCh_eq, eraseKeyless_mA]

/-- the old observation `elems` (tag, adopted?) is a projection of `elemKinds` -/
theorem elems_eq_kinds : ∀ l : List Ch,
    elems l = (elemKinds l).map (fun e => (e.1, e.2 == Kind.adopted))
  | [] => by simp [elems_nil, elemKinds_nil]
  | .text s :: r => by rw [elems_text, elemKinds_text, elems_eq_kinds r]
  | .cmt s :: r => by rw [elems_cmt, elemKinds_cmt, elems_eq_kinds r]
  | .el t as ks :: r => by
    rw [elems_el, elemKinds_el, elems_eq_kinds r, elems_eq_kinds ks]
    have : (as.head? == some ([1], [])) = (kindOf as == Kind.adopted) := by
      by_cases h1 : as.head? = some ([1], [])
      · simp [kindOf, h1]
      · have hb : (as.head? == some ([1], [])) = false := by simpa using h1
        rw [hb]
        by_cases h2 : as.head? = some ([2], []) <;> simp [kindOf, h1, h2] <;> decide
    simp [this]

theorem cmtCount_append (s : Str) : ∀ a b : List Ch, cmtCount s (a ++ b) = cmtCount s a + cmtCount s b
  | [], b => by simp [cmtCount_nil, cmtCount_el, cmtCount_text, cmtCount_cmt]
  | x :: a, b => by cases x <;> simp [cmtCount_nil, cmtCount_el, cmtCount_text, cmtCount_cmt, cmtCount_append s a b] <;> omega
@[simp] theorem cmtCount_tx (s t : Str) : cmtCount s (tx t) = 0 := by
  by_cases h : t = [] <;> simp [tx, h, cmtCount_nil, cmtCount_el, cmtCount_text, cmtCount_cmt]

theorem markerCount_append : ∀ a b : List Pend, markerCount (a ++ b) = markerCount a + markerCount b
  | [], b => by simp [markerCount_nil, markerCount_el, markerCount_marker, markerCount_ts, markerCount_td]
  | x :: a, b => by cases x <;> simp [markerCount_nil, markerCount_el, markerCount_marker, markerCount_ts, markerCount_td, markerCount_append a b] <;> omega
theorem dynTextCount_append : ∀ a b : List Pend, dynTextCount (a ++ b) = dynTextCount a + dynTextCount b
  | [], b => by simp [dynTextCount_nil, dynTextCount_el, dynTextCount_marker, dynTextCount_ts, dynTextCount_td]
  | x :: a, b => by cases x <;> simp [dynTextCount_nil, dynTextCount_el, dynTextCount_marker, dynTextCount_ts, dynTextCount_td, dynTextCount_append a b] <;> omega

theorem visibleCh_append : ∀ a b : List Ch, visibleCh (a ++ b) = visibleCh a ++ visibleCh b
  | [], b => by simp [visibleCh]
  | x :: a, b => by cases x <;> simp [visibleCh, visibleCh_append a b]
@[simp] theorem visibleCh_tx (t : Str) : visibleCh (tx t) = tx t := by
  by_cases h : t = [] <;> simp [tx, h, visibleCh]

theorem visD_append : ∀ a b : List DTree, visD (a ++ b) = visD a ++ visD b
  | [], b => by simp [visD]
  | x :: a, b => by cases x <;> simp [visD, visD_append a b]

/-! ## Text merging: congruence -/

theorem mA_congr : ∀ (X : List Ch) {Y Y' : List Ch}, (∀ u, mA u Y = mA u Y') →
    ∀ u, mA u (X ++ Y) = mA u (X ++ Y')
  | [], _, _, h, u => h u
  | x :: X, _, _, h, u => by
    cases x <;> simp [mA, mA_congr X h]

theorem mA_text_tx (X : List Ch) (a : Str) (rest : List Ch) (u : Str) :
    mA u (X ++ .text a :: rest) = mA u (X ++ (tx a ++ rest)) :=
  mA_congr X (fun u => by rw [mA_tx]; simp [mA]) u

theorem mA_text_nil (X : List Ch) (rest : List Ch) (u : Str) :
    mA u (X ++ .text [] :: rest) = mA u (X ++ rest) := by
  rw [mA_text_tx]; simp

/-! ## Property: the pending text is the same on both sides (by definition) and elements correspond -/

theorem all_append {α} {P : α → Prop} {a b : List α} (ha : ∀ x ∈ a, P x) (hb : ∀ x ∈ b, P x) :
    ∀ x ∈ a ++ b, P x := by
  intro x hx; rcases List.mem_append.1 hx with h | h
  · exact ha x h
  · exact hb x h

theorem kindOf_adopted (as : List (Str × Str)) : kindOf (([1], []) :: as) = .adopted := by simp [kindOf]
theorem kindOf_keyless (as : List (Str × Str)) : kindOf (([2], []) :: as) = .keyless := by
  simp [kindOf]
theorem kindOf_unadopted {as : List (Str × Str)} (h1 : as.head? ≠ some ([1], []))
    (h2 : as.head? ≠ some ([2], [])) : kindOf as = .unadopted := by simp [kindOf, h1, h2]

theorem map_adoptKind_keyless {l : List (Str × Kind)} (h : ∀ e ∈ l, e.2 = .keyless) :
    l.map adoptKind = l := by
  induction l with
  | nil => rfl
  | cons e l ih =>
    obtain ⟨t, k⟩ := e
    have hk : k = .keyless := h (t, k) List.mem_cons_self
    subst hk
    simp [adoptKind, ih (fun e he => h e (List.mem_cons_of_mem _ he))]

mutual
/-- inside an island every element is keyless -/
theorem kinds_fz (σ : Store) : ∀ (i : Inst) (t : Str), ∀ e ∈ elemKinds (fz σ i t).1, e.2 = .keyless
  | .el id tag attrs cs, t => by
    have ih := kinds_fzList σ cs []
    rw [fz_el]
    simp only [elemKinds_append, elemKinds_tx, elemKinds_nil, elemKinds_el, List.nil_append, List.append_nil,
      kindOf_keyless]
    intro e he; rcases List.mem_cons.1 he with rfl | he
    · rfl
    · exact ih e he
  | .text id s, t => by rw [fz_text]; simp [elemKinds_nil]
  | .dynText id sig, t => by rw [fz_dynText]; simp [elemKinds_nil]
  | .dynView a b sig alts cur, t => by rw [fz_dynView]; exact kinds_fzList σ cur t
  | .show a b sig cs, t => by
    rw [fz_show]
    split
    · exact kinds_fzList σ cs t
    · simp [elemKinds_nil]
  | .frag cs, t => by rw [fz_frag]; exact kinds_fzList σ cs t
  | .island cs, t => by rw [fz_island]; exact kinds_fzList σ cs t
theorem kinds_fzList (σ : Store) : ∀ (is : InstList) (t : Str),
    ∀ e ∈ elemKinds (fzList σ is t).1, e.2 = .keyless
  | .nil, t => by rw [fzList_nil]; simp [elemKinds_nil]
  | .cons i is, t => by
    rw [fzList_cons]; simp only [elemKinds_append]
    exact all_append (kinds_fz σ i t) (kinds_fzList σ is _)
end

mutual
/-- Elements: hydration maps the element list of the server document, position by position, by
`adoptKind` (same tag; unadopted ↦ adopted; keyless ↦ keyless); no element of the server document is
adopted; the keyless elements are literally the same (attributes, subtrees, order). -/
theorem kinds_hs (σ : Store) : ∀ (i : Inst) (t : Str), ShowFree i → StampFree i →
    elemKinds (hs σ i t).2.1 = (elemKinds (hs σ i t).1).map adoptKind ∧
    (∀ e ∈ elemKinds (hs σ i t).1, e.2 ≠ .adopted) ∧
    keylessEls (hs σ i t).2.1 = keylessEls (hs σ i t).1
  | .el id tag attrs cs, t, hsf, hst => by
    have hst' : (∀ a ∈ attrs, a.1 ≠ [1]) ∧ (∀ a ∈ attrs, a.1 ≠ [2]) ∧ StampFreeList cs := by
      simpa [StampFree] using hst
    have ⟨h1, h2, h3⟩ := kinds_hsList σ cs [] (by simpa [ShowFree] using hsf) hst'.2.2
    have hne1 := head_ne_stamp (evalAttrs_names σ attrs hst'.1)
    have hne2 := head_ne_stamp (evalAttrs_names σ attrs hst'.2.1)
    rw [hs_el]
    simp only [elemKinds_append, elemKinds_tx, elemKinds_nil, elemKinds_el, List.nil_append, List.append_nil,
      List.map_cons, kindOf_adopted, kindOf_unadopted hne1 hne2, h1, keylessEls_append, keylessEls_tx,
      keylessEls_el, keylessEls_nil, if_neg hne2, h3]
    refine ⟨rfl, ?_, by simp⟩
    intro e he; rcases List.mem_cons.1 he with rfl | he
    · simp
    · exact h2 e he
  | .text id s, t, _, _ => by rw [hs_text]; simp [elemKinds_nil, keylessEls_nil]
  | .dynText id sig, t, _, _ => by
    rw [hs_dynText]
    by_cases h : dynTextStr (σ.get sig) = [] <;>
      simp [elemKinds_append, elemKinds_nil, elemKinds_text, elemKinds_cmt, keylessEls_append, keylessEls_nil,
        keylessEls_text, keylessEls_cmt, h]
  | .dynView a b sig alts cur, t, hsf, hst => by
    have ⟨h1, h2, h3⟩ := kinds_hsList σ cur [] (by simpa [ShowFree] using hsf)
      (by simpa [StampFree] using hst)
    rw [hs_dynView]
    simp only [elemKinds_append, elemKinds_tx, elemKinds_nil, elemKinds_cmt, List.nil_append, List.append_nil,
      h1, keylessEls_append, keylessEls_tx, keylessEls_cmt, keylessEls_nil, h3]
    exact ⟨trivial, h2, trivial⟩
  | .show .., _, h, _ => by simp [ShowFree] at h
  | .frag cs, t, hsf, hst => by
    rw [hs_frag]
    exact kinds_hsList σ cs t (by simpa [ShowFree] using hsf) (by simpa [StampFree] using hst)
  | .island cs, t, _, _ => by
    have hk := kinds_fzList σ cs t
    rw [hs_island]
    refine ⟨(map_adoptKind_keyless hk).symm, fun e he => ?_, rfl⟩
    rw [hk e he]; decide
theorem kinds_hsList (σ : Store) : ∀ (is : InstList) (t : Str), ShowFreeList is → StampFreeList is →
    elemKinds (hsList σ is t).2.1 = (elemKinds (hsList σ is t).1).map adoptKind ∧
    (∀ e ∈ elemKinds (hsList σ is t).1, e.2 ≠ .adopted) ∧
    keylessEls (hsList σ is t).2.1 = keylessEls (hsList σ is t).1
  | .nil, t, _, _ => by rw [hsList_nil]; simp [elemKinds_nil, keylessEls_nil]
  | .cons i is, t, hsf, hst => by
    have hsf' : ShowFree i ∧ ShowFreeList is := by simpa [ShowFreeList] using hsf
    have hst' : StampFree i ∧ StampFreeList is := by simpa [StampFreeList] using hst
    have ⟨a1, a2, a3⟩ := kinds_hs σ i t hsf'.1 hst'.1
    have ⟨b1, b2, b3⟩ := kinds_hsList σ is (hs σ i t).2.2 hsf'.2 hst'.2
    rw [hsList_cons]
    simp only [elemKinds_append, List.map_append, a1, b1, keylessEls_append, a3, b3]
    exact ⟨trivial, all_append a2 b2, trivial⟩
end

mutual
/-- no island anywhere in the instance -/
def IslandFree : Inst → Prop
  | .el _ _ _ cs => IslandFreeList cs
  | .text _ _ => True
  | .dynText _ _ => True
  | .dynView _ _ _ _ cur => IslandFreeList cur
  | .show _ _ _ cs => IslandFreeList cs
  | .frag cs => IslandFreeList cs
  | .island _ => False
def IslandFreeList : InstList → Prop
  | .nil => True
  | .cons i rest => IslandFree i ∧ IslandFreeList rest
end

mutual
/-- without islands every element of the server document is keyed (and unadopted) -/
theorem kinds_islandFree (σ : Store) : ∀ (i : Inst) (t : Str), ShowFree i → StampFree i → IslandFree i →
    ∀ e ∈ elemKinds (hs σ i t).1, e.2 = .unadopted
  | .el id tag attrs cs, t, hsf, hst, hif => by
    have hst' : (∀ a ∈ attrs, a.1 ≠ [1]) ∧ (∀ a ∈ attrs, a.1 ≠ [2]) ∧ StampFreeList cs := by
      simpa [StampFree] using hst
    have ih := kinds_islandFreeList σ cs [] (by simpa [ShowFree] using hsf) hst'.2.2
      (by simpa [IslandFree] using hif)
    have hne1 := head_ne_stamp (evalAttrs_names σ attrs hst'.1)
    have hne2 := head_ne_stamp (evalAttrs_names σ attrs hst'.2.1)
    rw [hs_el]
    simp only [elemKinds_append, elemKinds_tx, elemKinds_nil, elemKinds_el, List.nil_append, List.append_nil,
      kindOf_unadopted hne1 hne2]
    intro e he; rcases List.mem_cons.1 he with rfl | he
    · rfl
    · exact ih e he
  | .text id s, t, _, _, _ => by rw [hs_text]; simp [elemKinds_nil]
  | .dynText id sig, t, _, _, _ => by
    rw [hs_dynText]
    by_cases h : dynTextStr (σ.get sig) = [] <;>
      simp [elemKinds_append, elemKinds_nil, elemKinds_text, elemKinds_cmt, h]
  | .dynView a b sig alts cur, t, hsf, hst, hif => by
    have ih := kinds_islandFreeList σ cur [] (by simpa [ShowFree] using hsf) (by simpa [StampFree] using hst)
      (by simpa [IslandFree] using hif)
    rw [hs_dynView]
    simpa only [elemKinds_append, elemKinds_tx, elemKinds_nil, elemKinds_cmt, List.nil_append,
      List.append_nil] using ih
  | .show .., _, h, _, _ => by simp [ShowFree] at h
  | .frag cs, t, hsf, hst, hif => by
    rw [hs_frag]
    exact kinds_islandFreeList σ cs t (by simpa [ShowFree] using hsf) (by simpa [StampFree] using hst)
      (by simpa [IslandFree] using hif)
  | .island _, _, _, _, h => by simp [IslandFree] at h
theorem kinds_islandFreeList (σ : Store) : ∀ (is : InstList) (t : Str), ShowFreeList is → StampFreeList is →
    IslandFreeList is → ∀ e ∈ elemKinds (hsList σ is t).1, e.2 = .unadopted
  | .nil, t, _, _, _ => by rw [hsList_nil]; simp [elemKinds_nil]
  | .cons i is, t, hsf, hst, hif => by
    have hsf' : ShowFree i ∧ ShowFreeList is := by simpa [ShowFreeList] using hsf
    have hst' : StampFree i ∧ StampFreeList is := by simpa [StampFreeList] using hst
    have hif' : IslandFree i ∧ IslandFreeList is := by simpa [IslandFreeList] using hif
    rw [hsList_cons]; simp only [elemKinds_append]
    exact all_append (kinds_islandFree σ i t hsf'.1 hst'.1 hif'.1)
      (kinds_islandFreeList σ is _ hsf'.2 hst'.2 hif'.2)
end

/-! ## Property: comments -/

mutual
/-- the frozen content of an island contains no comment at all -/
theorem cmt_fz (σ : Store) (s : Str) : ∀ (i : Inst) (t : Str), cmtCount s (fz σ i t).1 = 0
  | .el id tag attrs cs, t => by
    rw [fz_el]
    simp [cmtCount_append, cmtCount_nil, cmtCount_el, cmt_fzList σ s cs []]
  | .text id _, t => by rw [fz_text]; simp [cmtCount_nil]
  | .dynText id sig, t => by rw [fz_dynText]; simp [cmtCount_nil]
  | .dynView a b sig alts cur, t => by rw [fz_dynView]; exact cmt_fzList σ s cur t
  | .show a b sig cs, t => by
    rw [fz_show]
    split
    · exact cmt_fzList σ s cs t
    · simp [cmtCount_nil]
  | .frag cs, t => by rw [fz_frag]; exact cmt_fzList σ s cs t
  | .island cs, t => by rw [fz_island]; exact cmt_fzList σ s cs t
theorem cmt_fzList (σ : Store) (s : Str) : ∀ (is : InstList) (t : Str), cmtCount s (fzList σ is t).1 = 0
  | .nil, t => by rw [fzList_nil]; simp [cmtCount_nil]
  | .cons i is, t => by
    rw [fzList_cons]; simp [cmtCount_append, cmt_fz σ s i t, cmt_fzList σ s is _]
end

mutual
theorem cmt_hs (σ : Store) : ∀ (i : Inst) (t : Str), ShowFree i →
    cmtCount [47] (hs σ i t).2.1 = 0 ∧ cmtCount [116] (hs σ i t).2.1 = 0 ∧
    cmtCount [35] (hs σ i t).2.1 = markerCount (ssrOf σ i).2 ∧
    cmtCount [47] (hs σ i t).1 = markerCount (ssrOf σ i).2 ∧
    cmtCount [116] (hs σ i t).1 = dynTextCount (ssrOf σ i).2 ∧
    cmtCount [35] (hs σ i t).1 = 0
  | .el id tag attrs cs, t, hsf => by
    have ih := cmt_hsList σ cs [] (by simpa [ShowFree] using hsf)
    rw [hs_el, ssrOf_el]
    simp [cmtCount_append, cmtCount_nil, cmtCount_el, cmtCount_text, cmtCount_cmt, markerCount_nil, markerCount_el, markerCount_marker, markerCount_ts, markerCount_td, dynTextCount_nil, dynTextCount_el, dynTextCount_marker, dynTextCount_ts, dynTextCount_td, ih]
  | .text id s, t, _ => by rw [hs_text, ssrOf_text]; simp [cmtCount_nil, cmtCount_el, cmtCount_text, cmtCount_cmt, markerCount_nil, markerCount_el, markerCount_marker, markerCount_ts, markerCount_td, dynTextCount_nil, dynTextCount_el, dynTextCount_marker, dynTextCount_ts, dynTextCount_td]
  | .dynText id sig, t, _ => by
    rw [hs_dynText, ssrOf_dynText]
    by_cases h : dynTextStr (σ.get sig) = [] <;>
      simp [cmtCount_append, cmtCount_nil, cmtCount_el, cmtCount_text, cmtCount_cmt, markerCount_nil, markerCount_el, markerCount_marker, markerCount_ts, markerCount_td, dynTextCount_nil, dynTextCount_el, dynTextCount_marker, dynTextCount_ts, dynTextCount_td, h]
  | .dynView a b sig alts cur, t, hsf => by
    have ih := cmt_hsList σ cur [] (by simpa [ShowFree] using hsf)
    rw [hs_dynView, ssrOf_dynView]
    simp [cmtCount_append, cmtCount_nil, cmtCount_el, cmtCount_text, cmtCount_cmt, markerCount_nil, markerCount_el, markerCount_marker, markerCount_ts, markerCount_td, markerCount_append, dynTextCount_nil, dynTextCount_el, dynTextCount_marker, dynTextCount_ts, dynTextCount_td, dynTextCount_append, ih]
  | .show .., _, h => by simp [ShowFree] at h
  | .frag cs, t, hsf => by
    rw [hs_frag, ssrOf_frag]; exact cmt_hsList σ cs t (by simpa [ShowFree] using hsf)
  | .island cs, t, _ => by
    rw [hs_island, ssrOf_island]
    simp [cmt_fzList, markerCount_nil, dynTextCount_nil]
theorem cmt_hsList (σ : Store) : ∀ (is : InstList) (t : Str), ShowFreeList is →
    cmtCount [47] (hsList σ is t).2.1 = 0 ∧ cmtCount [116] (hsList σ is t).2.1 = 0 ∧
    cmtCount [35] (hsList σ is t).2.1 = markerCount (ssrOfList σ is).2 ∧
    cmtCount [47] (hsList σ is t).1 = markerCount (ssrOfList σ is).2 ∧
    cmtCount [116] (hsList σ is t).1 = dynTextCount (ssrOfList σ is).2 ∧
    cmtCount [35] (hsList σ is t).1 = 0
  | .nil, t, _ => by rw [hsList_nil, ssrOfList_nil]; simp [cmtCount_nil, cmtCount_el, cmtCount_text, cmtCount_cmt, markerCount_nil, markerCount_el, markerCount_marker, markerCount_ts, markerCount_td, dynTextCount_nil, dynTextCount_el, dynTextCount_marker, dynTextCount_ts, dynTextCount_td]
  | .cons i is, t, hsf => by
    have hsf' : ShowFree i ∧ ShowFreeList is := by simpa [ShowFreeList] using hsf
    have a := cmt_hs σ i t hsf'.1
    have b := cmt_hsList σ is (hs σ i t).2.2 hsf'.2
    rw [hsList_cons, ssrOfList_cons]
    simp [cmtCount_append, markerCount_append, dynTextCount_append, a, b]
end

/-! ## Property: the visible tree -/

theorem visibleCh_el (t as ks r) : visibleCh (.el t as ks :: r) =
    .el t (as.filter (·.1 != [1])) (mergeCh (visibleCh ks)) :: visibleCh r := by simp [visibleCh]
theorem visibleCh_cmt (s r) : visibleCh (.cmt s :: r) = visibleCh r := by simp [visibleCh]
theorem visibleCh_text (s r) : visibleCh (.text s :: r) = .text s :: visibleCh r := by simp [visibleCh]
theorem visibleCh_nil : visibleCh [] = [] := by simp [visibleCh]

mutual
theorem vis_hs (σ : Store) : ∀ (i : Inst) (t : Str) (rest : List Ch), ShowFree i →
    ∀ u, mA u (visibleCh (hs σ i t).2.1 ++ rest) = mA u (visibleCh (hs σ i t).1 ++ rest)
  | .el id tag attrs cs, t, rest, hsf => by
    have ih := vis_hsList σ cs [] (tx (hsList σ cs []).2.2) (by simpa [ShowFree] using hsf) []
    intro u
    rw [hs_el]
    simp only [visibleCh_append, visibleCh_tx, visibleCh_el, visibleCh_nil, mergeCh_eq, ih]
    simp
  | .text id s, t, rest, _ => by intro u; rw [hs_text]
  | .dynText id sig, t, rest, _ => by
    intro u
    rw [hs_dynText]
    by_cases h : dynTextStr (σ.get sig) = []
    · simp [h, visibleCh_append, visibleCh_text, visibleCh_cmt, visibleCh_nil, mA_tx, mA]
    · simp [h, tx_ne h, visibleCh_append, visibleCh_text, visibleCh_cmt, visibleCh_nil]
  | .dynView a b sig alts cur, t, rest, hsf => by
    have ih := vis_hsList σ cur [] (tx (hsList σ cur []).2.2 ++ rest) (by simpa [ShowFree] using hsf)
    intro u
    rw [hs_dynView]
    simp only [visibleCh_append, visibleCh_tx, visibleCh_cmt, visibleCh_nil, List.append_nil, List.append_assoc, mA_tx]
    exact ih _
  | .show .., _, _, h => by simp [ShowFree] at h
  | .frag cs, t, rest, hsf => by
    rw [hs_frag]; exact vis_hsList σ cs t rest (by simpa [ShowFree] using hsf)
  | .island cs, t, rest, _ => by intro u; rw [hs_island]
theorem vis_hsList (σ : Store) : ∀ (is : InstList) (t : Str) (rest : List Ch), ShowFreeList is →
    ∀ u, mA u (visibleCh (hsList σ is t).2.1 ++ rest) = mA u (visibleCh (hsList σ is t).1 ++ rest)
  | .nil, t, rest, _ => by intro u; rw [hsList_nil]
  | .cons i is, t, rest, hsf => by
    have hsf' : ShowFree i ∧ ShowFreeList is := by simpa [ShowFreeList] using hsf
    intro u
    rw [hsList_cons]
    simp only [visibleCh_append, List.append_assoc]
    rw [vis_hs σ i t _ hsf'.1 u]
    exact mA_congr _ (vis_hsList σ is _ rest hsf'.2) u
end

theorem filter_stamp_eq {m : Str} {as : List (Str × Str)} (h : ∀ b ∈ as, b.1 ≠ m) :
    as.filter (·.1 != m) = as := by
  apply List.filter_eq_self.2
  intro b hb; simpa using h b hb

mutual
/-- the frozen content of an island shows (with the keyless stamp erased) what the client renders for the
same instance at the same store; a `Show` inside an island is allowed -/
theorem visD_fz (σ : Store) : ∀ (i : Inst) (t : Str) (rest : List Ch), StampFree i →
    ∀ u, mA (u ++ t) (visD (dom σ i) ++ rest)
      = mA u (eraseKeyless (visibleCh (fz σ i t).1) ++ .text (fz σ i t).2 :: rest)
  | .el id tag attrs cs, t, rest, hst => by
    have hst' : (∀ a ∈ attrs, a.1 ≠ [1]) ∧ (∀ a ∈ attrs, a.1 ≠ [2]) ∧ StampFreeList cs := by
      simpa [StampFree] using hst
    have ih := visD_fzList σ cs [] [] hst'.2.2 []
    have hf : (([2], []) :: evalAttrs σ attrs).filter (·.1 != [1]) = ([2], []) :: evalAttrs σ attrs := by
      rw [List.filter_cons_of_pos (by decide)]
      rw [filter_stamp_eq (evalAttrs_names σ attrs hst'.1)]
    have hf2 : (([2], []) :: evalAttrs σ attrs).filter (·.1 != [2]) = evalAttrs σ attrs := by
      rw [List.filter_cons_of_neg (by simp)]; exact filter_stamp_eq (evalAttrs_names σ attrs hst'.2.1)
    intro u
    rw [fz_el]
    simp only [dom, visD, visibleCh_append, visibleCh_tx, visibleCh_el, visibleCh_nil, mergeCh_eq, hf,
      eraseKeyless_append, eraseKeyless_tx, eraseKeyless_el, eraseKeyless_nil, eraseKeyless_mA, hf2,
      List.append_assoc, mA_tx, List.cons_append, List.nil_append, mA]
    simp only [List.append_nil] at ih
    rw [ih, mA_text_tx]
    simp
  | .text id s, t, rest, _ => by
    intro u; rw [fz_text]; simp [dom, visD, mA, visibleCh_nil, eraseKeyless_nil]
  | .dynText id sig, t, rest, _ => by
    intro u; rw [fz_dynText]; simp [dom, visD, mA, visibleCh_nil, eraseKeyless_nil]
  | .dynView a b sig alts cur, t, rest, hst => by
    intro u
    rw [fz_dynView]
    simpa [dom, visD_append, visD] using visD_fzList σ cur t rest (by simpa [StampFree] using hst) u
  | .show a b sig cs, t, rest, hst => by
    intro u
    rw [fz_show]
    by_cases h : σ.get sig % 2 = 1
    · simpa [dom, visD_append, visD, h] using visD_fzList σ cs t rest (by simpa [StampFree] using hst) u
    · simp [dom, visD_append, visD, h, visibleCh_nil, eraseKeyless_nil, mA]
  | .frag cs, t, rest, hst => by
    rw [fz_frag]
    simpa [dom] using visD_fzList σ cs t rest (by simpa [StampFree] using hst)
  | .island cs, t, rest, hst => by
    rw [fz_island]
    simpa [dom] using visD_fzList σ cs t rest (by simpa [StampFree] using hst)
theorem visD_fzList (σ : Store) : ∀ (is : InstList) (t : Str) (rest : List Ch), StampFreeList is →
    ∀ u, mA (u ++ t) (visD (domList σ is) ++ rest)
      = mA u (eraseKeyless (visibleCh (fzList σ is t).1) ++ .text (fzList σ is t).2 :: rest)
  | .nil, t, rest, _ => by
    intro u; rw [fzList_nil]; simp [domList, visD, visibleCh_nil, eraseKeyless_nil, mA]
  | .cons i is, t, rest, hst => by
    have hst' : StampFree i ∧ StampFreeList is := by simpa [StampFreeList] using hst
    intro u
    rw [fzList_cons]
    simp only [domList, visD_append, visibleCh_append, eraseKeyless_append, List.append_assoc]
    rw [visD_fz σ i t _ hst'.1 u]
    refine mA_congr _ (fun u' => ?_) u
    have := visD_fzList σ is (fz σ i t).2 rest hst'.2 u'
    simpa [mA] using this
end

mutual
theorem visD_hs (σ : Store) : ∀ (i : Inst) (t : Str) (rest : List Ch), ShowFree i → StampFree i →
    ∀ u, mA (u ++ t) (visD (dom σ i) ++ rest)
      = mA u (eraseKeyless (visibleCh (hs σ i t).2.1) ++ .text (hs σ i t).2.2 :: rest)
  | .el id tag attrs cs, t, rest, hsf, hst => by
    have hst' : (∀ a ∈ attrs, a.1 ≠ [1]) ∧ (∀ a ∈ attrs, a.1 ≠ [2]) ∧ StampFreeList cs := by
      simpa [StampFree] using hst
    have ih := visD_hsList σ cs [] [] (by simpa [ShowFree] using hsf) hst'.2.2 []
    have hf : (([1], []) :: evalAttrs σ attrs).filter (·.1 != [1]) = evalAttrs σ attrs := by
      rw [List.filter_cons_of_neg (by simp)]; exact filter_stamp_eq (evalAttrs_names σ attrs hst'.1)
    have hf2 : (evalAttrs σ attrs).filter (·.1 != [2]) = evalAttrs σ attrs :=
      filter_stamp_eq (evalAttrs_names σ attrs hst'.2.1)
    intro u
    rw [hs_el]
    simp only [dom, visD, visibleCh_append, visibleCh_tx, visibleCh_el, visibleCh_nil, mergeCh_eq, hf,
      eraseKeyless_append, eraseKeyless_tx, eraseKeyless_el, eraseKeyless_nil, eraseKeyless_mA, hf2,
      List.append_assoc, mA_tx, List.cons_append, List.nil_append, mA]
    simp only [List.append_nil] at ih
    rw [ih, mA_text_tx]
    simp
  | .text id s, t, rest, _, _ => by
    intro u; rw [hs_text]; simp [dom, visD, mA, visibleCh_nil, eraseKeyless_nil]
  | .dynText id sig, t, rest, _, _ => by
    intro u
    rw [hs_dynText]
    by_cases h : dynTextStr (σ.get sig) = []
    · simp [h, dom, visD, visibleCh_append, visibleCh_text, visibleCh_nil, eraseKeyless_append,
        eraseKeyless_text, eraseKeyless_nil, mA_tx, mA]
    · simp [h, dom, visD, visibleCh_append, visibleCh_text, visibleCh_cmt, visibleCh_nil, eraseKeyless_append,
        eraseKeyless_text, eraseKeyless_nil, mA_tx, mA]
  | .dynView a b sig alts cur, t, rest, hsf, hst => by
    have ih := visD_hsList σ cur [] rest (by simpa [ShowFree] using hsf) (by simpa [StampFree] using hst)
    intro u
    rw [hs_dynView]
    simp only [dom, visD_append, visD, visibleCh_append, visibleCh_tx, visibleCh_cmt, visibleCh_nil,
      eraseKeyless_append, eraseKeyless_tx, eraseKeyless_nil, List.append_nil, List.append_assoc, mA_tx,
      List.nil_append]
    have := ih (u ++ t)
    simp only [List.append_nil] at this
    rw [this, mA_text_tx]
    refine mA_congr _ (fun u' => ?_) _
    rw [mA_tx, mA_tx]; simp [mA]
  | .show .., _, _, h, _ => by simp [ShowFree] at h
  | .frag cs, t, rest, hsf, hst => by
    rw [hs_frag]
    simpa [dom] using
      visD_hsList σ cs t rest (by simpa [ShowFree] using hsf) (by simpa [StampFree] using hst)
  | .island cs, t, rest, _, hst => by
    rw [hs_island]
    simpa [dom] using visD_fzList σ cs t rest (by simpa [StampFree] using hst)
theorem visD_hsList (σ : Store) : ∀ (is : InstList) (t : Str) (rest : List Ch), ShowFreeList is →
    StampFreeList is →
    ∀ u, mA (u ++ t) (visD (domList σ is) ++ rest)
      = mA u (eraseKeyless (visibleCh (hsList σ is t).2.1) ++ .text (hsList σ is t).2.2 :: rest)
  | .nil, t, rest, _, _ => by
    intro u; rw [hsList_nil]; simp [domList, visD, visibleCh_nil, eraseKeyless_nil, mA]
  | .cons i is, t, rest, hsf, hst => by
    have hsf' : ShowFree i ∧ ShowFreeList is := by simpa [ShowFreeList] using hsf
    have hst' : StampFree i ∧ StampFreeList is := by simpa [StampFreeList] using hst
    intro u
    rw [hsList_cons]
    simp only [domList, visD_append, visibleCh_append, eraseKeyless_append, List.append_assoc]
    rw [visD_hs σ i t _ hsf'.1 hst'.1 u]
    refine mA_congr _ (fun u' => ?_) u
    have := visD_hsList σ is (hs σ i t).2.2 rest hsf'.2 hst'.2 u'
    simpa [mA] using this
end

mutual
/-- without islands there is no keyless stamp to erase -/
theorem erase_hs (σ : Store) : ∀ (i : Inst) (t : Str), ShowFree i → StampFree i → IslandFree i →
    eraseKeyless (visibleCh (hs σ i t).2.1) = visibleCh (hs σ i t).2.1
  | .el id tag attrs cs, t, hsf, hst, hif => by
    have hst' : (∀ a ∈ attrs, a.1 ≠ [1]) ∧ (∀ a ∈ attrs, a.1 ≠ [2]) ∧ StampFreeList cs := by
      simpa [StampFree] using hst
    have ih := erase_hsList σ cs [] (by simpa [ShowFree] using hsf) hst'.2.2 (by simpa [IslandFree] using hif)
    have hf : (([1], []) :: evalAttrs σ attrs).filter (·.1 != [1]) = evalAttrs σ attrs := by
      rw [List.filter_cons_of_neg (by simp)]; exact filter_stamp_eq (evalAttrs_names σ attrs hst'.1)
    have hf2 : (evalAttrs σ attrs).filter (·.1 != [2]) = evalAttrs σ attrs :=
      filter_stamp_eq (evalAttrs_names σ attrs hst'.2.1)
    rw [hs_el]
    simp only [visibleCh_append, visibleCh_tx, visibleCh_el, visibleCh_nil, mergeCh_eq, hf,
      eraseKeyless_append, eraseKeyless_tx, eraseKeyless_el, eraseKeyless_nil, eraseKeyless_mA, hf2, ih]
  | .text id s, t, _, _, _ => by rw [hs_text]; simp [visibleCh_nil, eraseKeyless_nil]
  | .dynText id sig, t, _, _, _ => by
    rw [hs_dynText]
    by_cases h : dynTextStr (σ.get sig) = [] <;>
      simp [h, visibleCh_append, visibleCh_text, visibleCh_cmt, visibleCh_nil, eraseKeyless_append,
        eraseKeyless_text, eraseKeyless_nil]
  | .dynView a b sig alts cur, t, hsf, hst, hif => by
    have ih := erase_hsList σ cur [] (by simpa [ShowFree] using hsf) (by simpa [StampFree] using hst)
      (by simpa [IslandFree] using hif)
    rw [hs_dynView]
    simp only [visibleCh_append, visibleCh_tx, visibleCh_cmt, visibleCh_nil, eraseKeyless_append,
      eraseKeyless_tx, eraseKeyless_nil, ih]
  | .show .., _, h, _, _ => by simp [ShowFree] at h
  | .frag cs, t, hsf, hst, hif => by
    rw [hs_frag]
    exact erase_hsList σ cs t (by simpa [ShowFree] using hsf) (by simpa [StampFree] using hst)
      (by simpa [IslandFree] using hif)
  | .island _, _, _, _, h => by simp [IslandFree] at h
theorem erase_hsList (σ : Store) : ∀ (is : InstList) (t : Str), ShowFreeList is → StampFreeList is →
    IslandFreeList is → eraseKeyless (visibleCh (hsList σ is t).2.1) = visibleCh (hsList σ is t).2.1
  | .nil, t, _, _, _ => by rw [hsList_nil]; simp [visibleCh_nil, eraseKeyless_nil]
  | .cons i is, t, hsf, hst, hif => by
    have hsf' : ShowFree i ∧ ShowFreeList is := by simpa [ShowFreeList] using hsf
    have hst' : StampFree i ∧ StampFreeList is := by simpa [StampFreeList] using hst
    have hif' : IslandFree i ∧ IslandFreeList is := by simpa [IslandFreeList] using hif
    rw [hsList_cons]
    simp only [visibleCh_append, eraseKeyless_append, erase_hs σ i t hsf'.1 hst'.1 hif'.1,
      erase_hsList σ is _ hsf'.2 hst'.2 hif'.2]
end

/-! ## Whole views -/

section whole
variable (σ : Store) (inst : InstList)

theorem hydrated_visible (h : ShowFreeList inst) :
    mergeCh (visibleCh (hydrated σ inst)) = mergeCh (visibleCh (served σ inst)) := by
  simp only [hydrated, served, mergeCh_eq, visibleCh_append, visibleCh_tx]
  exact vis_hsList σ inst [] _ h []

theorem hydrated_visD (h : ShowFreeList inst) (hs : StampFreeList inst) :
    eraseKeyless (mergeCh (visibleCh (hydrated σ inst))) = mergeCh (visD (domList σ inst)) := by
  rw [eraseKeyless_mergeCh]
  simp only [hydrated, mergeCh_eq, visibleCh_append, visibleCh_tx, eraseKeyless_append, eraseKeyless_tx]
  have := visD_hsList σ inst [] [] h hs []
  simp only [List.append_nil] at this
  rw [this, mA_text_tx]; simp

theorem hydrated_visD_islandFree (h : ShowFreeList inst) (hs : StampFreeList inst)
    (hi : IslandFreeList inst) :
    mergeCh (visibleCh (hydrated σ inst)) = mergeCh (visD (domList σ inst)) := by
  rw [← hydrated_visD σ inst h hs, eraseKeyless_mergeCh]
  simp only [hydrated, visibleCh_append, visibleCh_tx, eraseKeyless_append, eraseKeyless_tx,
    erase_hsList σ inst [] h hs hi]

theorem hydrated_kinds (h : ShowFreeList inst) (hs : StampFreeList inst) :
    elemKinds (hydrated σ inst) = (elemKinds (served σ inst)).map adoptKind ∧
    (∀ e ∈ elemKinds (served σ inst), e.2 ≠ .adopted) ∧
    keylessEls (hydrated σ inst) = keylessEls (served σ inst) := by
  simpa [hydrated, served, elemKinds_append, keylessEls_append] using kinds_hsList σ inst [] h hs

theorem served_kinds_islandFree (h : ShowFreeList inst) (hs : StampFreeList inst)
    (hi : IslandFreeList inst) : ∀ e ∈ elemKinds (served σ inst), e.2 = .unadopted := by
  simpa [served, elemKinds_append] using kinds_islandFreeList σ inst [] h hs hi

/-- the statement of the island-free development: same tags, all unadopted before, all adopted after -/
theorem hydrated_elems (h : ShowFreeList inst) (hs : StampFreeList inst) (hi : IslandFreeList inst) :
    (elems (hydrated σ inst)).map (·.1) = (elems (served σ inst)).map (·.1) ∧
    (∀ e ∈ elems (hydrated σ inst), e.2 = true) ∧ (∀ e ∈ elems (served σ inst), e.2 = false) := by
  have ⟨k1, k2, _⟩ := hydrated_kinds σ inst h hs
  have k3 := served_kinds_islandFree σ inst h hs hi
  have hfst : ∀ e : Str × Kind, (adoptKind e).1 = e.1 := by
    rintro ⟨t, k⟩; cases k <;> rfl
  rw [elems_eq_kinds, elems_eq_kinds, k1]
  refine ⟨by simp [List.map_map, Function.comp_def, hfst], ?_, ?_⟩
  · intro e he
    simp only [List.map_map, List.mem_map, Function.comp_def] at he
    obtain ⟨⟨t, k⟩, hk, rfl⟩ := he
    have : k = .unadopted := k3 _ hk
    subst this; rfl
  · intro e he
    simp only [List.mem_map] at he
    obtain ⟨⟨t, k⟩, hk, rfl⟩ := he
    have : k = .unadopted := k3 _ hk
    subst this; rfl

theorem hydrated_cmts (h : ShowFreeList inst) :
    cmtCount [47] (hydrated σ inst) = 0 ∧ cmtCount [116] (hydrated σ inst) = 0 ∧
    cmtCount [35] (hydrated σ inst) = markerCount (ssrOfList σ inst).2 ∧
    cmtCount [47] (served σ inst) = markerCount (ssrOfList σ inst).2 ∧
    cmtCount [116] (served σ inst) = dynTextCount (ssrOfList σ inst).2 ∧
    cmtCount [35] (served σ inst) = 0 := by
  simpa [hydrated, served, cmtCount_append] using cmt_hsList σ inst [] h
end whole

/-! ## After hydration: islands are frozen at the initial store (`freezeInst`, `afterHydration`) -/

theorem evalAttrs_static (σ' : Store) : ∀ l : List (Str × Str),
    evalAttrs σ' (l.map fun (n, v) => (n, AttrV.static v)) = l
  | [] => rfl
  | (n, v) :: r => by simp [evalAttrs, evalAttrs_static σ' r]

mutual
/-- a frozen subtree shows under EVERY later store what the client showed for it at the initial store -/
theorem visD_freeze (σ σ' : Store) : ∀ i : Inst, visD (dom σ' (freezeInst σ i)) = visD (dom σ i)
  | .el id tag attrs cs => by
    simp only [freezeInst, dom, visD, evalAttrs_static, visD_freezeList σ σ' cs]
  | .text id s => by simp [freezeInst, dom]
  | .dynText id sig => by simp [freezeInst, dom]
  | .dynView a b sig alts cur => by
    simp [freezeInst, dom, visD_append, visD, visD_freezeList σ σ' cur]
  | .show a b sig cs => by
    by_cases h : σ.get sig % 2 = 1
    · simp [freezeInst, dom, visD_append, visD, h, visD_freezeList σ σ' cs]
    · simp [freezeInst, dom, domList, visD_append, visD, h]
  | .frag cs => by simp [freezeInst, dom, visD_freezeList σ σ' cs]
  | .island cs => by simp [freezeInst, dom, visD_freezeList σ σ' cs]
theorem visD_freezeList (σ σ' : Store) : ∀ is : InstList,
    visD (domList σ' (freezeList σ is)) = visD (domList σ is)
  | .nil => by simp [freezeList, domList]
  | .cons i is => by
    simp [freezeList, domList, visD_append, visD_freeze σ σ' i, visD_freezeList σ σ' is]
end

mutual
/-- at the initial store the instance the hydrated document behaves like shows what the mounted view shows -/
theorem visD_afterHydration (σ : Store) : ∀ i : Inst, visD (dom σ (afterHydration σ i)) = visD (dom σ i)
  | .el id tag attrs cs => by simp only [afterHydration, dom, visD, visD_afterHydrationList σ cs]
  | .text id s => by simp [afterHydration]
  | .dynText id sig => by simp [afterHydration]
  | .dynView a b sig alts cur => by
    simp [afterHydration, dom, visD_append, visD, visD_afterHydrationList σ cur]
  | .show a b sig cs => by
    by_cases h : σ.get sig % 2 = 1
    · simp [afterHydration, dom, visD_append, visD, h, visD_afterHydrationList σ cs]
    · simp [afterHydration, dom, visD_append, visD, h]
  | .frag cs => by simp [afterHydration, dom, visD_afterHydrationList σ cs]
  | .island cs => by simp [afterHydration, dom, visD_freezeList σ σ cs]
theorem visD_afterHydrationList (σ : Store) : ∀ is : InstList,
    visD (domList σ (afterHydrationList σ is)) = visD (domList σ is)
  | .nil => by simp [afterHydrationList]
  | .cons i is => by
    simp [afterHydrationList, domList, visD_append, visD_afterHydration σ i, visD_afterHydrationList σ is]
end

/-! ## Evaluation support (`mergeCh` is defined by well-founded recursion and does not reduce) -/

mutual
def Ch.decEq : (a b : Ch) → Decidable (a = b)
  | .el t a c, .el t' a' c' =>
    if ht : t = t' then
      if ha : a = a' then
        match Ch.decEqL c c' with
        | isTrue hc => isTrue (by rw [ht, ha, hc])
        | isFalse hc => isFalse (fun h => hc (by cases h; rfl))
      else isFalse (fun h => ha (by cases h; rfl))
    else isFalse (fun h => ht (by cases h; rfl))
  | .text s, .text s' => if h : s = s' then isTrue (by rw [h]) else isFalse (fun e => h (by cases e; rfl))
  | .cmt s, .cmt s' => if h : s = s' then isTrue (by rw [h]) else isFalse (fun e => h (by cases e; rfl))
  | .el .., .text _ => isFalse (fun h => by cases h)
  | .el .., .cmt _ => isFalse (fun h => by cases h)
  | .text _, .el .. => isFalse (fun h => by cases h)
  | .text _, .cmt _ => isFalse (fun h => by cases h)
  | .cmt _, .el .. => isFalse (fun h => by cases h)
  | .cmt _, .text _ => isFalse (fun h => by cases h)
def Ch.decEqL : (a b : List Ch) → Decidable (a = b)
  | [], [] => isTrue rfl
  | [], _ :: _ => isFalse (fun h => by cases h)
  | _ :: _, [] => isFalse (fun h => by cases h)
  | x :: xs, y :: ys =>
    match Ch.decEq x y with
    | isTrue hx =>
      match Ch.decEqL xs ys with
      | isTrue hs => isTrue (by rw [hx, hs])
      | isFalse hs => isFalse (fun h => hs (by cases h; rfl))
    | isFalse hx => isFalse (fun h => hx (by cases h; rfl))
end
instance : DecidableEq Ch := Ch.decEq

mutual
def Pend.decEq : (a b : Pend) → Decidable (a = b)
  | .el t a c, .el t' a' c' =>
    if ht : t = t' then
      if ha : a = a' then
        match Pend.decEqL c c' with
        | isTrue hc => isTrue (by rw [ht, ha, hc])
        | isFalse hc => isFalse (fun h => hc (by cases h; rfl))
      else isFalse (fun h => ha (by cases h; rfl))
    else isFalse (fun h => ht (by cases h; rfl))
  | .textDynamic s, .textDynamic s' =>
    if h : s = s' then isTrue (by rw [h]) else isFalse (fun e => h (by cases e; rfl))
  | .textStatic, .textStatic => isTrue rfl
  | .marker, .marker => isTrue rfl
  | .el .., .textStatic => isFalse (fun h => by cases h)
  | .el .., .textDynamic _ => isFalse (fun h => by cases h)
  | .el .., .marker => isFalse (fun h => by cases h)
  | .textStatic, .el .. => isFalse (fun h => by cases h)
  | .textStatic, .textDynamic _ => isFalse (fun h => by cases h)
  | .textStatic, .marker => isFalse (fun h => by cases h)
  | .textDynamic _, .el .. => isFalse (fun h => by cases h)
  | .textDynamic _, .textStatic => isFalse (fun h => by cases h)
  | .textDynamic _, .marker => isFalse (fun h => by cases h)
  | .marker, .el .. => isFalse (fun h => by cases h)
  | .marker, .textStatic => isFalse (fun h => by cases h)
  | .marker, .textDynamic _ => isFalse (fun h => by cases h)
def Pend.decEqL : (a b : List Pend) → Decidable (a = b)
  | [], [] => isTrue rfl
  | [], _ :: _ => isFalse (fun h => by cases h)
  | _ :: _, [] => isFalse (fun h => by cases h)
  | x :: xs, y :: ys =>
    match Pend.decEq x y with
    | isTrue hx =>
      match Pend.decEqL xs ys with
      | isTrue hs => isTrue (by rw [hx, hs])
      | isFalse hs => isFalse (fun h => hs (by cases h; rfl))
    | isFalse hx => isFalse (fun h => hx (by cases h; rfl))
end
instance : DecidableEq Pend := Pend.decEq

mutual
/-- `frozenOf` with `mA []` for `mergeCh` -/
def frozenOfS (σ : Store) : Inst → List Ch
  | .el _ tag attrs cs => [.el tag (([2], []) :: evalAttrs σ attrs) (mA [] (frozenOfListS σ cs))]
  | .text _ s => [.text s]
  | .dynText _ sig => [.text (dynTextStr (σ.get sig))]
  | .dynView _ _ _ _ cur => frozenOfListS σ cur
  | .show _ _ sig cs => if σ.get sig % 2 = 1 then frozenOfListS σ cs else []
  | .frag cs => frozenOfListS σ cs
  | .island cs => frozenOfListS σ cs
def frozenOfListS (σ : Store) : InstList → List Ch
  | .nil => []
  | .cons i rest => frozenOfS σ i ++ frozenOfListS σ rest
end

mutual
theorem frozenOf_eqS (σ : Store) : ∀ i : Inst, frozenOf σ i = frozenOfS σ i
  | .el id tag attrs cs => by rw [frozenOf_el, frozenOfS, frozenOfList_eqS σ cs, mergeCh_eq]
  | .text _ _ => by simp [frozenOf, frozenOfS]
  | .dynText _ _ => by simp [frozenOf, frozenOfS]
  | .dynView a b sig alts cur => by rw [frozenOf_dynView, frozenOfS, frozenOfList_eqS σ cur]
  | .show a b sig cs => by rw [frozenOf_show, frozenOfS, frozenOfList_eqS σ cs]
  | .frag cs => by rw [frozenOf_frag, frozenOfS, frozenOfList_eqS σ cs]
  | .island cs => by rw [frozenOf_island, frozenOfS, frozenOfList_eqS σ cs]
theorem frozenOfList_eqS (σ : Store) : ∀ is : InstList, frozenOfList σ is = frozenOfListS σ is
  | .nil => by simp [frozenOfList, frozenOfListS]
  | .cons i is => by rw [frozenOfList_cons, frozenOfListS, frozenOf_eqS σ i, frozenOfList_eqS σ is]
end

mutual
/-- `ssrOf` with `mA []` for `mergeCh` -/
def ssrOfS (σ : Store) : Inst → List Ch × List Pend
  | .el _ tag attrs cs =>
    ([.el tag (evalAttrs σ attrs) (mA [] (ssrOfListS σ cs).1)], [.el tag (evalAttrs σ attrs) (ssrOfListS σ cs).2])
  | .text _ s => ([.text s], [.textStatic])
  | .dynText _ sig => ([.cmt [116], .text (dynTextStr (σ.get sig)), .cmt []], [.textDynamic (dynTextStr (σ.get sig))])
  | .dynView _ _ _ _ cur =>
    ([.cmt [47]] ++ (ssrOfListS σ cur).1 ++ [.cmt [47]], [.marker] ++ (ssrOfListS σ cur).2 ++ [.marker])
  | .show _ _ sig cs =>
    if σ.get sig % 2 = 1 then
      ([.cmt [47]] ++ (ssrOfListS σ cs).1 ++ [.cmt [47]], [.marker] ++ (ssrOfListS σ cs).2 ++ [.marker])
    else ([.cmt [47], .cmt [47]], [.marker, .marker])
  | .frag cs => ssrOfListS σ cs
  | .island cs => (frozenOfListS σ cs, [])
def ssrOfListS (σ : Store) : InstList → List Ch × List Pend
  | .nil => ([], [])
  | .cons i rest => ((ssrOfS σ i).1 ++ (ssrOfListS σ rest).1, (ssrOfS σ i).2 ++ (ssrOfListS σ rest).2)
end

mutual
theorem ssrOf_eqS (σ : Store) : ∀ i : Inst, ssrOf σ i = ssrOfS σ i
  | .el id tag attrs cs => by rw [ssrOf_el, ssrOfS, ssrOfList_eqS σ cs, mergeCh_eq]
  | .text _ _ => by simp [ssrOf, ssrOfS]
  | .dynText _ _ => by simp [ssrOf, ssrOfS]
  | .dynView a b sig alts cur => by rw [ssrOf_dynView, ssrOfS, ssrOfList_eqS σ cur]
  | .show a b sig cs => by
    have := ssrOfList_eqS σ cs
    simp only [ssrOf, ssrOfS]
    rw [this]
  | .frag cs => by rw [ssrOf_frag, ssrOfS, ssrOfList_eqS σ cs]
  | .island cs => by rw [ssrOf_island, ssrOfS, frozenOfList_eqS σ cs]
theorem ssrOfList_eqS (σ : Store) : ∀ is : InstList, ssrOfList σ is = ssrOfListS σ is
  | .nil => by simp [ssrOfList, ssrOfListS]
  | .cons i is => by rw [ssrOfList_cons, ssrOfListS, ssrOf_eqS σ i, ssrOfList_eqS σ is]
end

/-- `hydrateView`, evaluable -/
def hydrateViewS (σ : Store) (inst : InstList) : Except HErr (List Ch) :=
  hydrateKids (2 * (pendSize (ssrOfListS σ inst).2 + chSize (mA [] (ssrOfListS σ inst).1)) + 2)
    (mA [] (ssrOfListS σ inst).1) (ssrOfListS σ inst).2

theorem hydrateView_eqS (σ : Store) (inst : InstList) : hydrateView σ inst = hydrateViewS σ inst := by
  rw [hydrateView_unfold, hydrateViewS, ssrOfList_eqS, mergeCh_eq]

mutual
def visibleChSC : Ch → List Ch
  | .cmt _ => []
  | .el t as ks => [.el t (as.filter (·.1 != [1])) (mA [] (visibleChS ks))]
  | .text s => [.text s]
/-- `visibleCh`, evaluable -/
def visibleChS : List Ch → List Ch
  | [] => []
  | x :: r => visibleChSC x ++ visibleChS r
end

theorem visibleCh_eqS : ∀ l : List Ch, visibleCh l = visibleChS l
  | [] => by simp [visibleCh, visibleChS]
  | .cmt s :: r => by rw [visibleCh_cmt, visibleChS, visibleChSC, visibleCh_eqS r]; rfl
  | .text s :: r => by rw [visibleCh_text, visibleChS, visibleChSC, visibleCh_eqS r]; rfl
  | .el t as ks :: r => by
    rw [visibleCh_el, visibleChS, visibleChSC, visibleCh_eqS r, visibleCh_eqS ks, mergeCh_eq]; rfl

mutual
def visDSC : DTree → List Ch
  | .elem _ tag attrs kids => [.el tag attrs (mA [] (visDS kids))]
  | .text _ s => [.text s]
  | .comment _ => []
/-- `visD`, evaluable -/
def visDS : List DTree → List Ch
  | [] => []
  | x :: r => visDSC x ++ visDS r
end

theorem visD_eqS : ∀ l : List DTree, visD l = visDS l
  | [] => by simp [visD, visDS]
  | .comment s :: r => by rw [visD, visDS, visDSC, visD_eqS r]; rfl
  | .text _ s :: r => by rw [visD, visDS, visDSC, visD_eqS r]; rfl
  | .elem _ t as ks :: r => by rw [visD, visDS, visDSC, visD_eqS r, visD_eqS ks, mergeCh_eq]; rfl

/-! Boolean checkers for the hypotheses -/
mutual
def showFreeB : Inst → Bool
  | .el _ _ _ cs => showFreeListB cs
  | .text _ _ => true
  | .dynText _ _ => true
  | .dynView _ _ _ _ cur => showFreeListB cur
  | .show _ _ _ _ => false
  | .frag cs => showFreeListB cs
  | .island _ => true
def showFreeListB : InstList → Bool
  | .nil => true
  | .cons i rest => showFreeB i && showFreeListB rest
end
mutual
def stampFreeB : Inst → Bool
  | .el _ _ attrs cs =>
    attrs.all (fun a => a.1 != [1]) && (attrs.all (fun a => a.1 != [2]) && stampFreeListB cs)
  | .text _ _ => true
  | .dynText _ _ => true
  | .dynView _ _ _ _ cur => stampFreeListB cur
  | .show _ _ _ cs => stampFreeListB cs
  | .frag cs => stampFreeListB cs
  | .island cs => stampFreeListB cs
def stampFreeListB : InstList → Bool
  | .nil => true
  | .cons i rest => stampFreeB i && stampFreeListB rest
end

mutual
theorem showFreeB_iff : ∀ i : Inst, showFreeB i = true ↔ ShowFree i
  | .el _ _ _ cs => by simp [showFreeB, ShowFree, showFreeListB_iff cs]
  | .text _ _ => by simp [showFreeB, ShowFree]
  | .dynText _ _ => by simp [showFreeB, ShowFree]
  | .dynView _ _ _ _ cur => by simp [showFreeB, ShowFree, showFreeListB_iff cur]
  | .show _ _ _ _ => by simp [showFreeB, ShowFree]
  | .frag cs => by simp [showFreeB, ShowFree, showFreeListB_iff cs]
  | .island _ => by simp [showFreeB, ShowFree]
theorem showFreeListB_iff : ∀ is : InstList, showFreeListB is = true ↔ ShowFreeList is
  | .nil => by simp [showFreeListB, ShowFreeList]
  | .cons i is => by simp [showFreeListB, ShowFreeList, showFreeB_iff i, showFreeListB_iff is]
end
mutual
theorem stampFreeB_iff : ∀ i : Inst, stampFreeB i = true ↔ StampFree i
  | .el _ _ _ cs => by simp [stampFreeB, StampFree, stampFreeListB_iff cs]
  | .text _ _ => by simp [stampFreeB, StampFree]
  | .dynText _ _ => by simp [stampFreeB, StampFree]
  | .dynView _ _ _ _ cur => by simp [stampFreeB, StampFree, stampFreeListB_iff cur]
  | .show _ _ _ cs => by simp [stampFreeB, StampFree, stampFreeListB_iff cs]
  | .frag cs => by simp [stampFreeB, StampFree, stampFreeListB_iff cs]
  | .island cs => by simp [stampFreeB, StampFree, stampFreeListB_iff cs]
theorem stampFreeListB_iff : ∀ is : InstList, stampFreeListB is = true ↔ StampFreeList is
  | .nil => by simp [stampFreeListB, StampFreeList]
  | .cons i is => by simp [stampFreeListB, StampFreeList, stampFreeB_iff i, stampFreeListB_iff is]
end
instance (i : InstList) : Decidable (ShowFreeList i) := decidable_of_iff _ (showFreeListB_iff i)
instance (i : InstList) : Decidable (StampFreeList i) := decidable_of_iff _ (stampFreeListB_iff i)

mutual
def islandFreeB : Inst → Bool
  | .el _ _ _ cs => islandFreeListB cs
  | .text _ _ => true
  | .dynText _ _ => true
  | .dynView _ _ _ _ cur => islandFreeListB cur
  | .show _ _ _ cs => islandFreeListB cs
  | .frag cs => islandFreeListB cs
  | .island _ => false
def islandFreeListB : InstList → Bool
  | .nil => true
  | .cons i rest => islandFreeB i && islandFreeListB rest
end
mutual
theorem islandFreeB_iff : ∀ i : Inst, islandFreeB i = true ↔ IslandFree i
  | .el _ _ _ cs => by simp [islandFreeB, IslandFree, islandFreeListB_iff cs]
  | .text _ _ => by simp [islandFreeB, IslandFree]
  | .dynText _ _ => by simp [islandFreeB, IslandFree]
  | .dynView _ _ _ _ cur => by simp [islandFreeB, IslandFree, islandFreeListB_iff cur]
  | .show _ _ _ cs => by simp [islandFreeB, IslandFree, islandFreeListB_iff cs]
  | .frag cs => by simp [islandFreeB, IslandFree, islandFreeListB_iff cs]
  | .island _ => by simp [islandFreeB, IslandFree]
theorem islandFreeListB_iff : ∀ is : InstList, islandFreeListB is = true ↔ IslandFreeList is
  | .nil => by simp [islandFreeListB, IslandFreeList]
  | .cons i is => by simp [islandFreeListB, IslandFreeList, islandFreeB_iff i, islandFreeListB_iff is]
end
instance (i : InstList) : Decidable (IslandFreeList i) := decidable_of_iff _ (islandFreeListB_iff i)

/-! ## Mounting a `Show`-free, stamp-free description gives a `Show`-free, stamp-free instance -/

mutual
/-- no attribute named `[1]` or `[2]` anywhere in the description (in any alternative) -/
def StampFreeVD : VD → Prop
  | .el _ attrs cs => (∀ a ∈ attrs, a.1 ≠ [1]) ∧ (∀ a ∈ attrs, a.1 ≠ [2]) ∧ StampFreeVDList cs
  | .text _ => True
  | .dynText _ => True
  | .dynView _ alts => StampFreeVDAlts alts
  | .show _ cs => StampFreeVDList cs
  | .frag cs => StampFreeVDList cs
  | .noHydrate cs => StampFreeVDList cs
def StampFreeVDList : VDList → Prop
  | .nil => True
  | .cons v rest => StampFreeVD v ∧ StampFreeVDList rest
def StampFreeVDAlts : VDAlts → Prop
  | .nil => True
  | .cons a rest => StampFreeVDList a ∧ StampFreeVDAlts rest
end

mutual
/-- the view description uses no attribute named `[1]` or `[2]` (in any alternative) and no `Show`
outside `NoHydrate`; inside `NoHydrate` everything (also `Show`) is allowed -/
def PlainVD : VD → Prop
  | .el _ attrs cs => (∀ a ∈ attrs, a.1 ≠ [1]) ∧ (∀ a ∈ attrs, a.1 ≠ [2]) ∧ PlainVDList cs
  | .text _ => True
  | .dynText _ => True
  | .dynView _ alts => PlainVDAlts alts
  | .show _ _ => False
  | .frag cs => PlainVDList cs
  | .noHydrate cs => StampFreeVDList cs
def PlainVDList : VDList → Prop
  | .nil => True
  | .cons v rest => PlainVD v ∧ PlainVDList rest
def PlainVDAlts : VDAlts → Prop
  | .nil => True
  | .cons a rest => PlainVDList a ∧ PlainVDAlts rest
end

mutual
theorem mount_stampFree (σ : Store) : ∀ (v : VD) (k : Nat), StampFreeVD v → StampFree (mount σ v k).1
  | .el tag attrs cs, k, h => by
    have h' : (∀ a ∈ attrs, a.1 ≠ [1]) ∧ (∀ a ∈ attrs, a.1 ≠ [2]) ∧ StampFreeVDList cs := by
      simpa [StampFreeVD] using h
    have ih := mountList_stampFree σ cs (k + 1) h'.2.2
    simp only [mount, StampFree]
    exact ⟨h'.1, h'.2.1, ih⟩
  | .text s, k, _ => by simp [mount, StampFree]
  | .dynText sig, k, _ => by simp [mount, StampFree]
  | .dynView sig alts, k, h => by
    have ih := mountAlt_stampFree σ alts (if alts.length = 0 then 0 else σ.get sig % alts.length) (k + 2)
      (by simpa [StampFreeVD] using h)
    simp only [mount, StampFree]
    exact ih
  | .show sig cs, k, h => by
    have ih := mountList_stampFree σ cs (k + 2) (by simpa [StampFreeVD] using h)
    simp only [mount, StampFree]
    exact ih
  | .frag cs, k, h => by
    have ih := mountList_stampFree σ cs k (by simpa [StampFreeVD] using h)
    simp only [mount, StampFree]
    exact ih
  | .noHydrate cs, k, h => by
    have ih := mountList_stampFree σ cs k (by simpa [StampFreeVD] using h)
    simp only [mount, StampFree]
    exact ih
theorem mountList_stampFree (σ : Store) : ∀ (vs : VDList) (k : Nat), StampFreeVDList vs →
    StampFreeList (mountList σ vs k).1
  | .nil, k, _ => by simp [mountList, StampFreeList]
  | .cons v rest, k, h => by
    have h' : StampFreeVD v ∧ StampFreeVDList rest := by simpa [StampFreeVDList] using h
    have a := mount_stampFree σ v k h'.1
    have b := mountList_stampFree σ rest (mount σ v k).2 h'.2
    simp only [mountList, StampFreeList]
    exact ⟨a, b⟩
theorem mountAlt_stampFree (σ : Store) : ∀ (alts : VDAlts) (i k : Nat), StampFreeVDAlts alts →
    StampFreeList (mountAlt σ alts i k).1
  | .nil, _, _, _ => by simp [mountAlt, StampFreeList]
  | .cons a _, 0, k, h => by
    have h' := (by simpa [StampFreeVDAlts] using h : StampFreeVDList a ∧ _)
    simpa [mountAlt] using mountList_stampFree σ a k h'.1
  | .cons _ r, i + 1, k, h => by
    have h' := (by simpa [StampFreeVDAlts] using h : _ ∧ StampFreeVDAlts r)
    simpa [mountAlt] using mountAlt_stampFree σ r i k h'.2
end

mutual
theorem mount_plain (σ : Store) : ∀ (v : VD) (k : Nat), PlainVD v →
    ShowFree (mount σ v k).1 ∧ StampFree (mount σ v k).1
  | .el tag attrs cs, k, h => by
    have h' : (∀ a ∈ attrs, a.1 ≠ [1]) ∧ (∀ a ∈ attrs, a.1 ≠ [2]) ∧ PlainVDList cs := by
      simpa [PlainVD] using h
    have ih := mountList_plain σ cs (k + 1) h'.2.2
    simp only [mount, ShowFree, StampFree]
    exact ⟨ih.1, h'.1, h'.2.1, ih.2⟩
  | .text s, k, _ => by simp [mount, ShowFree, StampFree]
  | .dynText sig, k, _ => by simp [mount, ShowFree, StampFree]
  | .dynView sig alts, k, h => by
    have ih := mountAlt_plain σ alts (if alts.length = 0 then 0 else σ.get sig % alts.length) (k + 2)
      (by simpa [PlainVD] using h)
    simp only [mount, ShowFree, StampFree]
    exact ih
  | .show .., _, h => by simp [PlainVD] at h
  | .frag cs, k, h => by
    have ih := mountList_plain σ cs k (by simpa [PlainVD] using h)
    simp only [mount, ShowFree, StampFree]
    exact ih
  | .noHydrate cs, k, h => by
    have ih := mountList_stampFree σ cs k (by simpa [PlainVD] using h)
    simp only [mount, ShowFree, StampFree]
    exact ⟨trivial, ih⟩
theorem mountList_plain (σ : Store) : ∀ (vs : VDList) (k : Nat), PlainVDList vs →
    ShowFreeList (mountList σ vs k).1 ∧ StampFreeList (mountList σ vs k).1
  | .nil, k, _ => by simp [mountList, ShowFreeList, StampFreeList]
  | .cons v rest, k, h => by
    have h' : PlainVD v ∧ PlainVDList rest := by simpa [PlainVDList] using h
    have a := mount_plain σ v k h'.1
    have b := mountList_plain σ rest (mount σ v k).2 h'.2
    simp only [mountList, ShowFreeList, StampFreeList]
    exact ⟨⟨a.1, b.1⟩, a.2, b.2⟩
theorem mountAlt_plain (σ : Store) : ∀ (alts : VDAlts) (i k : Nat), PlainVDAlts alts →
    ShowFreeList (mountAlt σ alts i k).1 ∧ StampFreeList (mountAlt σ alts i k).1
  | .nil, _, _, _ => by simp [mountAlt, ShowFreeList, StampFreeList]
  | .cons a _, 0, k, h => by
    have h' := (by simpa [PlainVDAlts] using h : PlainVDList a ∧ _)
    simpa [mountAlt] using mountList_plain σ a k h'.1
  | .cons _ r, i + 1, k, h => by
    have h' := (by simpa [PlainVDAlts] using h : _ ∧ PlainVDAlts r)
    simpa [mountAlt] using mountAlt_plain σ r i k h'.2
end

end SycVerif.Hydrate
