import SycVerif.Lemmas.Preserve
import SycVerif.Lemmas.PropagateMulti
/-!
Helper lemmas for `SycVerif.Props.C04Repairs`: the two repairs D19 (`unsubscribe`, first step of
`disposeNode`) and D13 (`resetMarks`, between the two loops of `propagateNodeUpdates`).

## Part A (D19)

`Det r id`          — `id` is an allocated slot that occurs in no `dependents` list of a live node;
`SigLike r j`       — slot `j` is dead or holds a node at rest without callback (a signal or a scope);
`EnvK r env`        — the handles of `env` name allocated slots, those of kind `signal` name
                      `SigLike` slots (the kind discipline: `set` only checks the HANDLE's kind);
`KInv r`            — every stored closure (cleanup, callback) satisfies `EnvK`, and the batch queue
                      lists `SigLike` slots only;
`NoRunSince id r r'`— the trace of `r'` extends that of `r` by events none of which is a run of `id`;
`DAll id f`         — at fuel `f`, every function of the mutual block preserves `KInv` and `Det · id`
                      and adds no run of `id` to the trace, provided it is not `runNodeUpdate … id`
                      itself / a loop over a list that contains `id` while `id` is a computation.
-/
namespace SycVerif.Reactive

/-! ### A.1 definitions -/

/-- slot `j` is dead, or holds a node without callback that has a value: a signal or a scope (a
computation that is being run or created has neither callback nor value) -/
def SigLike (r : Root) (j : Id) : Prop :=
  ∀ n, r.get? j = some n → n.callback = none ∧ n.value ≠ none

/-- the arena grows and `SigLike` slots stay `SigLike` -/
structure SigMono (r r' : Root) : Prop where
  size : r.nodes.size ≤ r'.nodes.size
  sig : ∀ j, j < r.nodes.size → SigLike r j → SigLike r' j

/-- the kind discipline of an environment: allocated slots, and `signal` handles name signals -/
def EnvK (r : Root) (env : List Handle) : Prop :=
  ∀ hd ∈ env, hd.id < r.nodes.size ∧ (hd.kind = .signal → SigLike r hd.id)

/-- `cl` is stored in the arena as a cleanup or as the callback of a live node -/
def Stored (r : Root) (cl : Closure) : Prop :=
  ∃ i n, r.get? i = some n ∧ (cl ∈ n.cleanups ∨ ∃ eq, n.callback = some (eq, cl))

/-- the kind discipline of a state -/
structure KInv (r : Root) : Prop where
  stored : ∀ cl, Stored r cl → EnvK r cl.env
  queue : ∀ q ∈ r.queue, q < r.nodes.size ∧ SigLike r q

/-- `id` is allocated and is nobody's dependent -/
structure Det (r : Root) (id : Id) : Prop where
  lt : id < r.nodes.size
  free : ∀ j n, r.get? j = some n → id ∉ n.dependents

/-- the event records a run of computation `id` -/
def IsRunOf (id : Id) : Event → Prop
  | .run n _ _ => n = id
  | .cleanup _ _ => False

/-- the trace of `r'` is that of `r` followed by events that are not runs of `id` -/
def NoRunSince (id : Id) (r r' : Root) : Prop :=
  ∃ evs, r'.trace = r.trace ++ evs ∧ ∀ ev ∈ evs, ¬ IsRunOf id ev

/-- what every function of the mutual block guarantees (together with `RInvP`, `Grows`) -/
structure Out (P : Id → Prop) (id : Id) (r r' : Root) : Prop where
  i : RInvP P r'
  g : Grows r r'
  k : KInv r'
  d : Det r' id
  m : SigMono r r'
  t : NoRunSince id r r'

/-! ### A.2 generic lemmas -/

theorem SigLike.of_dead {r : Root} {j : Id} (h : r.get? j = none) : SigLike r j := by
  intro n hn; rw [h] at hn; cases hn

theorem SigMono.refl (r : Root) : SigMono r r := ⟨Nat.le_refl _, fun _ _ h => h⟩

theorem SigMono.trans {a b c : Root} (h1 : SigMono a b) (h2 : SigMono b c) : SigMono a c :=
  ⟨Nat.le_trans h1.size h2.size,
    fun j hj hs => h2.sig j (Nat.lt_of_lt_of_le hj h1.size) (h1.sig j hj hs)⟩

theorem SigMono.of_nodes_eq {r r' : Root} (h : r'.nodes = r.nodes) : SigMono r r' := by
  refine ⟨by rw [h]; exact Nat.le_refl _, fun j _ hs n hn => hs n ?_⟩
  rw [← Root.get?_congr_nodes h j]; exact hn

theorem SigLike.congr {r r' : Root} (h : r'.nodes = r.nodes) {j : Id} (hs : SigLike r j) : SigLike r' j := by
  intro n hn; exact hs n (by rw [← Root.get?_congr_nodes h j]; exact hn)

theorem EnvK.mono {r r' : Root} {env : List Handle} (h : EnvK r env) (hm : SigMono r r') : EnvK r' env :=
  fun hd hmem => ⟨Nat.lt_of_lt_of_le (h hd hmem).1 hm.size,
    fun hk => hm.sig hd.id (h hd hmem).1 ((h hd hmem).2 hk)⟩

theorem EnvK.envLt {r : Root} {env : List Handle} (h : EnvK r env) : EnvLt r.nodes.size env :=
  fun hd hmem => (h hd hmem).1

theorem EnvK.snoc {r : Root} {env : List Handle} (h : EnvK r env) {id : Id} {kd : Kind}
    (hlt : id < r.nodes.size) (hk : kd = .signal → SigLike r id) : EnvK r (env ++ [⟨id, kd⟩]) := by
  intro hd hm
  simp only [List.mem_append, List.mem_singleton] at hm
  rcases hm with hm | rfl
  · exact h hd hm
  · exact ⟨hlt, hk⟩

theorem NoRunSince.refl (id : Id) (r : Root) : NoRunSince id r r := ⟨[], by simp, by simp⟩

theorem NoRunSince.trans {id : Id} {a b c : Root} (h1 : NoRunSince id a b) (h2 : NoRunSince id b c) :
    NoRunSince id a c := by
  obtain ⟨e1, t1, n1⟩ := h1
  obtain ⟨e2, t2, n2⟩ := h2
  refine ⟨e1 ++ e2, by rw [t2, t1, List.append_assoc], ?_⟩
  intro ev hev
  rcases List.mem_append.1 hev with h | h
  · exact n1 ev h
  · exact n2 ev h

theorem NoRunSince.of_eq {id : Id} {r r' : Root} (h : r'.trace = r.trace) : NoRunSince id r r' :=
  ⟨[], by simp [h], by simp⟩

theorem NoRunSince.snoc {id : Id} {r r' : Root} {ev : Event} (h : r'.trace = r.trace ++ [ev])
    (hev : ¬ IsRunOf id ev) : NoRunSince id r r' :=
  ⟨[ev], h, by intro e he; simp only [List.mem_singleton] at he; subst he; exact hev⟩

theorem NoRunSince.drop {id : Id} {r r' : Root} (h : NoRunSince id r r') :
    ∀ ev ∈ r'.trace.drop r.trace.length, ¬ IsRunOf id ev := by
  obtain ⟨evs, e, hn⟩ := h
  rw [e, List.drop_left]; exact hn

theorem Out.trans {P : Id → Prop} {id : Id} {a b c : Root} (h1 : Out P id a b) (h2 : Out P id b c) :
    Out P id a c :=
  ⟨h2.i, h1.g.trans h2.g, h2.k, h2.d, h1.m.trans h2.m, h1.t.trans h2.t⟩

theorem Out.refl {P : Id → Prop} {id : Id} {r : Root} (hI : RInvP P r) (hK : KInv r) (hD : Det r id) :
    Out P id r r :=
  ⟨hI, Grows.refl _, hK, hD, SigMono.refl _, NoRunSince.refl _ _⟩

/-- the general transfer of `KInv`: every closure stored afterwards was stored before or is good,
every queued slot was queued before or is good -/
theorem KInv.transfer {r r' : Root} (h : KInv r) (hm : SigMono r r')
    (hst : ∀ cl, Stored r' cl → Stored r cl ∨ EnvK r' cl.env)
    (hq : ∀ q ∈ r'.queue, q ∈ r.queue ∨ (q < r'.nodes.size ∧ SigLike r' q)) : KInv r' := by
  refine ⟨fun cl hc => ?_, fun q hqm => ?_⟩
  · rcases hst cl hc with h1 | h1
    · exact (h.stored cl h1).mono hm
    · exact h1
  · rcases hq q hqm with h1 | h1
    · exact ⟨Nat.lt_of_lt_of_le (h.queue q h1).1 hm.size, hm.sig q (h.queue q h1).1 (h.queue q h1).2⟩
    · exact h1

/-- a transformation that leaves the arena alone (`tracker`, `current`, `batching`, `nextTag`; the
queue and the trace as stated) -/
theorem Out.of_nodes_eq {P : Id → Prop} {id : Id} {r r' : Root} (hI : RInvP P r) (hK : KInv r)
    (hD : Det r id) (hn : r'.nodes = r.nodes) (hcur : ∀ c, r'.current = some c → c < r.nodes.size)
    (hq : ∀ q ∈ r'.queue, q ∈ r.queue ∨ (q < r.nodes.size ∧ SigLike r q))
    (ht : NoRunSince id r r') : Out P id r r' := by
  have hg := Root.get?_congr_nodes hn
  have hm := SigMono.of_nodes_eq hn
  refine ⟨hI.congr hn hcur, Grows.of_nodes_eq hn, hK.transfer hm ?_ ?_, ⟨by rw [hn]; exact hD.lt, ?_⟩, hm, ht⟩
  · rintro cl ⟨i, n, hi, hc⟩
    exact .inl ⟨i, n, by rw [← hg]; exact hi, hc⟩
  · intro q hqm
    rcases hq q hqm with h1 | ⟨h1, h2⟩
    · exact .inl h1
    · exact .inr ⟨by rw [hn]; exact h1, h2.congr hn⟩
  · intro j n hj; exact hD.free j n (by rw [← hg]; exact hj)

/-! ### A.3 elementary steps -/

/-- an arena transformation that creates nothing: every node afterwards is a node before, signals
stay signals, no callback and no cleanup appears, `id` does not become a dependent -/
structure EStep (id : Id) (r r' : Root) : Prop where
  size : r'.nodes.size = r.nodes.size
  queue : r'.queue = r.queue
  trace : r'.trace = r.trace
  back : ∀ j n', r'.get? j = some n' → ∃ n, r.get? j = some n ∧
    (n.callback = none → n.value ≠ none → n'.callback = none ∧ n'.value ≠ none) ∧
    (∀ eq cl, n'.callback = some (eq, cl) → n.callback = some (eq, cl)) ∧
    (∀ cl ∈ n'.cleanups, cl ∈ n.cleanups) ∧
    (id ∈ n'.dependents → id ∈ n.dependents)

theorem EStep.refl (id : Id) (r : Root) : EStep id r r :=
  ⟨rfl, rfl, rfl, fun _ n' h => ⟨n', h, fun a b => ⟨a, b⟩, fun _ _ h => h, fun _ h => h, fun h => h⟩⟩

theorem EStep.trans {id : Id} {a b c : Root} (h1 : EStep id a b) (h2 : EStep id b c) : EStep id a c := by
  refine ⟨h2.size.trans h1.size, h2.queue.trans h1.queue, h2.trace.trans h1.trace, ?_⟩
  intro j n'' hj
  obtain ⟨n', hn', s2, c2, l2, d2⟩ := h2.back j n'' hj
  obtain ⟨n, hn, s1, c1, l1, d1⟩ := h1.back j n' hn'
  refine ⟨n, hn, fun hc hv => ?_, fun eq cl hc => c1 eq cl (c2 eq cl hc), fun cl hc => l1 cl (l2 cl hc),
    fun hd => d1 (d2 hd)⟩
  obtain ⟨x, y⟩ := s1 hc hv
  exact s2 x y

theorem EStep.sigMono {id : Id} {r r' : Root} (h : EStep id r r') : SigMono r r' := by
  refine ⟨by rw [h.size]; exact Nat.le_refl _, ?_⟩
  intro j _ hs n' hn'
  obtain ⟨n, hn, s, _⟩ := h.back j n' hn'
  obtain ⟨a, b⟩ := hs n hn
  exact s a b

theorem EStep.kinv {id : Id} {r r' : Root} (h : EStep id r r') (hK : KInv r) : KInv r' := by
  refine hK.transfer h.sigMono ?_ (fun q hq => .inl (h.queue ▸ hq))
  rintro cl ⟨i, n', hi, hc⟩
  obtain ⟨n, hn, _, c, l, _⟩ := h.back i n' hi
  refine .inl ⟨i, n, hn, ?_⟩
  rcases hc with hc | ⟨eq, hc⟩
  · exact .inl (l cl hc)
  · exact .inr ⟨eq, c eq cl hc⟩

theorem EStep.det {id : Id} {r r' : Root} (h : EStep id r r') (hD : Det r id) : Det r' id := by
  refine ⟨by rw [h.size]; exact hD.lt, ?_⟩
  intro j n' hj hm
  obtain ⟨n, hn, _, _, _, d⟩ := h.back j n' hj
  exact hD.free j n hn (d hm)

theorem EStep.out {P : Id → Prop} {id : Id} {r r' : Root} (h : EStep id r r')
    (hi : RInvP P r' ∧ Grows r r') (hK : KInv r) (hD : Det r id) : Out P id r r' :=
  ⟨hi.1, hi.2, h.kinv hK, h.det hD, h.sigMono, NoRunSince.of_eq h.trace⟩

/-- every slot is mapped by a function that keeps callback, value and cleanups and does not add `id`
to the `dependents` list -/
theorem EStep.of_map {id : Id} {r r' : Root} (hf : SameFrame r r') (g : Id → Node → Node)
    (hget : ∀ j, r'.get? j = (r.get? j).map (g j))
    (hg : ∀ j m, (g j m).callback = m.callback ∧ (g j m).value = m.value ∧
      (g j m).cleanups = m.cleanups ∧ (id ∈ (g j m).dependents → id ∈ m.dependents)) :
    EStep id r r' := by
  obtain ⟨s1, _, _, _, s5, _, _, s8⟩ := hf
  refine ⟨s1, s5, s8, ?_⟩
  intro j n' hj
  rw [hget, Option.map_eq_some_iff] at hj
  obtain ⟨n, hn, rfl⟩ := hj
  obtain ⟨a, b, c, d⟩ := hg j n
  exact ⟨n, hn, fun hc hv => ⟨a ▸ hc, b ▸ hv⟩, fun eq cl hc => a ▸ hc, fun cl hc => c ▸ hc, d⟩

theorem EStep.setNode {id : Id} {r : Root} {x : Id} {n n' : Node} (hn : r.get? x = some n)
    (h1 : n.callback = none → n.value ≠ none → n'.callback = none ∧ n'.value ≠ none)
    (h2 : ∀ eq cl, n'.callback = some (eq, cl) → n.callback = some (eq, cl))
    (h3 : ∀ cl ∈ n'.cleanups, cl ∈ n.cleanups)
    (h4 : id ∈ n'.dependents → id ∈ n.dependents) : EStep id r (r.setNode x n') := by
  obtain ⟨s1, _, _, _, s5, _, _, s8⟩ := SameFrame.setNode r x n'
  refine ⟨s1, s5, s8, ?_⟩
  intro j m' hj
  rw [Root.get?_setNode] at hj
  split at hj
  · rename_i hc
    cases hj
    exact ⟨n, by rw [hc.1]; exact hn, h1, h2, h3, h4⟩
  · exact ⟨m', hj, fun a b => ⟨a, b⟩, fun _ _ h => h, fun _ h => h, fun h => h⟩

/-- `dfs`, `resetMarks`, clearing a mark: only marks change -/
theorem EStep.of_frame {id : Id} {r r' : Root} (h : Frame r r') : EStep id r r' := by
  refine ⟨h.size, h.queue, h.trace, ?_⟩
  intro j n' hj
  obtain ⟨n, hn, e⟩ := h.get?_bwd hj
  obtain ⟨a1, a2, _, _, a5, _, a7, _⟩ :=
    sameButMark_some_iff.1 (show SameButMark (some n') (some n) from congrArg some e)
  exact ⟨n, hn, fun hc hv => ⟨a2 ▸ hc, a1 ▸ hv⟩, fun eq cl hc => a2 ▸ hc, fun cl hc => a7 ▸ hc,
    fun hd => a5 ▸ hd⟩

theorem EStep.unsubscribe {id : Id} {r : Root} (hnd : NoDangling r) (hs : EdgesSym r) (x : Id) :
    EStep id r (unsubscribe r x) := by
  obtain ⟨hget, _, _, _, hf⟩ := unsubscribe_spec hnd hs x
  refine EStep.of_map hf (unlinked x) hget ?_
  intro j m
  refine ⟨rfl, rfl, rfl, fun hd => ?_⟩
  simp only [unlinked, List.mem_filter] at hd
  exact hd.1

theorem EStep.removeNode {id : Id} {r : Root} (hnd : NoDangling r) (hs : EdgesSym r) (x : Id) :
    EStep id r (removeNode r x) := by
  obtain ⟨h0, _, _, h1, ⟨s1, _, _, _, s5, _, _, s8⟩, _⟩ := removeNode_spec hnd hs x
  refine ⟨s1, s5, s8, ?_⟩
  intro j n' hj
  have hjx : j ≠ x := by rintro rfl; rw [h0] at hj; cases hj
  rw [h1 j hjx, Option.map_eq_some_iff] at hj
  obtain ⟨n, hn, rfl⟩ := hj
  refine ⟨n, hn, fun hc hv => ⟨hc, hv⟩, fun eq cl hc => hc, fun cl hc => hc, fun hd => ?_⟩
  simp only [eraseId, List.mem_filter] at hd
  exact hd.1

theorem EStep.markDirty (id : Id) (r : Root) (cur : Id) : EStep id r (markDependentsDirty r cur) := by
  obtain ⟨_, _, _, hf⟩ := markDependentsDirty_frame r cur
  exact EStep.of_map hf (fun j m => { m with dirty := m.dirty || isDependentOf r cur j })
    (markDependentsDirty_get? r cur) (fun j m => ⟨rfl, rfl, rfl, fun h => h⟩)

theorem EStep.dfs {id : Id} {fuel : Nat} {r r' : Root} {buf buf' : List Id} {s : Id}
    (hx : dfs fuel r buf s = some (r', buf')) : EStep id r r' :=
  EStep.of_frame (dfs_post hx).1.frame

theorem EStep.visitStarts {id : Id} (ss : List Id) {r r' : Root} {buf buf' : List Id}
    (hx : visitStarts r buf ss = .ok (r', buf')) : EStep id r r' := by
  induction ss generalizing r buf with
  | nil =>
    simp only [Reactive.visitStarts, Except.ok.injEq, Prod.mk.injEq] at hx
    obtain ⟨rfl, _⟩ := hx
    exact EStep.refl _ _
  | cons s ss ih =>
    simp only [Reactive.visitStarts] at hx
    split at hx
    · cases hx
    · rename_i r1 buf1 h1
      exact ((EStep.dfs h1).trans (EStep.markDirty id r1 s)).trans (ih hx)

theorem EStep.resetMarks (id : Id) (ss : List Id) (r : Root) : EStep id r (resetMarks r ss) :=
  EStep.of_frame (resetMarks_spec ss r).1

theorem EStep.modifyContext (id : Id) (r : Root) (x : Id) :
    EStep id r (r.modify x fun n => { n with context := [] }) := by
  cases hx : r.get? x with
  | none =>
    have : r.modify x (fun n => { n with context := [] }) = r := by simp [Root.modify, hx]
    rw [this]; exact EStep.refl _ _
  | some n =>
    have : r.modify x (fun n => { n with context := [] }) = r.setNode x { n with context := [] } := by
      simp [Root.modify, hx]
    rw [this]
    exact EStep.setNode hx (fun a b => ⟨a, b⟩) (fun _ _ h => h) (fun _ h => h) (fun h => h)

theorem EStep.setSilent {id : Id} {r r' : Root} {x : Id} {v : Int} (hx : setSilent r x v = .ok r') :
    EStep id r r' := by
  obtain ⟨n, hn, _, rfl⟩ := setSilent_ok hx
  exact EStep.setNode hn (fun a _ => ⟨a, by simp⟩) (fun _ _ h => h) (fun _ h => h) (fun h => h)

theorem EStep.provideContext {id : Id} {r r' : Root} {ty : Nat} {v : Int}
    (hx : provideContext r ty v = .ok r') : EStep id r r' := by
  unfold Reactive.provideContext at hx
  split at hx
  · cases hx
  · split at hx
    · cases hx
    · rename_i cur _ _ n hn
      split at hx
      · cases hx
      · cases hx
        exact EStep.setNode hn (fun a b => ⟨a, b⟩) (fun _ _ h => h) (fun _ h => h) (fun h => h)

/-- the unlink phase of `runNodeUpdate` -/
theorem EStep.unlink {id : Id} {r r2 : Root} {cur : Id} {n : Node} (hnd : NoDangling r) (hs : EdgesSym r)
    (hn : r.get? cur = some n)
    (hu : unlink cur (r.setNode cur { n with dependencies := [] }) n.dependencies = .ok r2) :
    EStep id r r2 := by
  obtain ⟨r2', hu', hget, _, _, _, _, hf⟩ := unlink_spec hnd hs hn
  rw [hu] at hu'; cases hu'
  refine EStep.of_map hf (unlinked cur) hget ?_
  intro j m
  refine ⟨rfl, rfl, rfl, fun hd => ?_⟩
  simp only [unlinked, List.mem_filter] at hd
  exact hd.1

end SycVerif.Reactive
