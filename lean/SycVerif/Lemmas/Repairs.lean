import SycVerif.Lemmas.Preserve
import SycVerif.Lemmas.PropagateMulti
/-!
Helper lemmas for `SycVerif.Props.C04Repairs`: the two repairs D19 (`unsubscribe`, first step of
`disposeNode`) and D13 (`resetMarks`, between the two loops of `propagateNodeUpdates`).

## Part A (D19)

`Det r id`          — `id` is an allocated slot that occurs in no `dependents` list of a live node;
`SigLike r j`       — slot `j` is dead or holds a node at rest without callback (a signal or a scope);
`EnvK r env`        — the handles of `env` name allocated slots, those of kind `signal` name
                      `SigLike` slots (the kind discipline: `set` only checks the HANDLE's kind);
`KInv r`            — every stored closure (cleanup, callback) satisfies `EnvK`, and the batch queue
                      lists `SigLike` slots only;
`NoRunSince id r r'`— the trace of `r'` extends that of `r` by events none of which is a run of `id`;
`DAll id f`         — at fuel `f`, every function of the mutual block preserves `KInv` and `Det · id`
                      and adds no run of `id` to the trace, provided it is not `runNodeUpdate … id`
                      itself / a loop over a list that contains `id` while `id` is a computation.
-/
namespace SycVerif.Reactive

/-! ### A.1 definitions -/

/-- slot `j` is dead, or holds a node without callback that has a value: a signal or a scope (a
computation that is being run or created has neither callback nor value) -/
def SigLike (r : Root) (j : Id) : Prop :=
  ∀ n, r.get? j = some n → n.callback = none ∧ n.value ≠ none

/-- the arena grows and `SigLike` slots stay `SigLike` -/
structure SigMono (r r' : Root) : Prop where
  size : r.nodes.size ≤ r'.nodes.size
  sig : ∀ j, j < r.nodes.size → SigLike r j → SigLike r' j

/-- the kind discipline of an environment: allocated slots, and `signal` handles name signals -/
def EnvK (r : Root) (env : List Handle) : Prop :=
  ∀ hd ∈ env, hd.id < r.nodes.size ∧ (hd.kind = .signal → SigLike r hd.id)

/-- `cl` is stored in the arena as a cleanup or as the callback of a live node -/
def Stored (r : Root) (cl : Closure) : Prop :=
  ∃ i n, r.get? i = some n ∧ (cl ∈ n.cleanups ∨ ∃ eq, n.callback = some (eq, cl))

/-- the kind discipline of a state -/
structure KInv (r : Root) : Prop where
  stored : ∀ cl, Stored r cl → EnvK r cl.env
  queue : ∀ q ∈ r.queue, q < r.nodes.size ∧ SigLike r q

/-- `id` is allocated and is nobody's dependent -/
structure Det (r : Root) (id : Id) : Prop where
  lt : id < r.nodes.size
  free : ∀ j n, r.get? j = some n → id ∉ n.dependents

/-- the event records a run of computation `id` -/
def IsRunOf (id : Id) : Event → Prop
  | .run n _ _ => n = id
  | .cleanup _ _ => False

/-- the trace of `r'` is that of `r` followed by events that are not runs of `id` -/
def NoRunSince (id : Id) (r r' : Root) : Prop :=
  ∃ evs, r'.trace = r.trace ++ evs ∧ ∀ ev ∈ evs, ¬ IsRunOf id ev

/-- what every function of the mutual block guarantees about the kind discipline, about `id`, and
about the trace -/
structure DPost (id : Id) (r r' : Root) : Prop where
  k : KInv r'
  d : Det r' id
  m : SigMono r r'
  t : NoRunSince id r r'

/-- … together with the bookkeeping invariant and its two-state facts -/
structure Out (P : Id → Prop) (id : Id) (r r' : Root) : Prop extends DPost id r r' where
  i : RInvP P r'
  g : Grows r r'

/-! ### A.2 generic lemmas -/

theorem SigLike.of_dead {r : Root} {j : Id} (h : r.get? j = none) : SigLike r j := by
  intro n hn; rw [h] at hn; cases hn

theorem SigMono.refl (r : Root) : SigMono r r := ⟨Nat.le_refl _, fun _ _ h => h⟩

theorem SigMono.trans {a b c : Root} (h1 : SigMono a b) (h2 : SigMono b c) : SigMono a c :=
  ⟨Nat.le_trans h1.size h2.size,
    fun j hj hs => h2.sig j (Nat.lt_of_lt_of_le hj h1.size) (h1.sig j hj hs)⟩

theorem SigMono.of_nodes_eq {r r' : Root} (h : r'.nodes = r.nodes) : SigMono r r' := by
  refine ⟨by rw [h]; exact Nat.le_refl _, fun j _ hs n hn => hs n ?_⟩
  rw [← Root.get?_congr_nodes h j]; exact hn

theorem SigLike.congr {r r' : Root} (h : r'.nodes = r.nodes) {j : Id} (hs : SigLike r j) : SigLike r' j := by
  intro n hn; exact hs n (by rw [← Root.get?_congr_nodes h j]; exact hn)

theorem EnvK.mono {r r' : Root} {env : List Handle} (h : EnvK r env) (hm : SigMono r r') : EnvK r' env :=
  fun hd hmem => ⟨Nat.lt_of_lt_of_le (h hd hmem).1 hm.size,
    fun hk => hm.sig hd.id (h hd hmem).1 ((h hd hmem).2 hk)⟩

theorem EnvK.envLt {r : Root} {env : List Handle} (h : EnvK r env) : EnvLt r.nodes.size env :=
  fun hd hmem => (h hd hmem).1

theorem EnvK.snoc {r : Root} {env : List Handle} (h : EnvK r env) {id : Id} {kd : Kind}
    (hlt : id < r.nodes.size) (hk : kd = .signal → SigLike r id) : EnvK r (env ++ [⟨id, kd⟩]) := by
  intro hd hm
  simp only [List.mem_append, List.mem_singleton] at hm
  rcases hm with hm | rfl
  · exact h hd hm
  · exact ⟨hlt, hk⟩

theorem NoRunSince.refl (id : Id) (r : Root) : NoRunSince id r r := ⟨[], by simp, by simp⟩

theorem NoRunSince.trans {id : Id} {a b c : Root} (h1 : NoRunSince id a b) (h2 : NoRunSince id b c) :
    NoRunSince id a c := by
  obtain ⟨e1, t1, n1⟩ := h1
  obtain ⟨e2, t2, n2⟩ := h2
  refine ⟨e1 ++ e2, by rw [t2, t1, List.append_assoc], ?_⟩
  intro ev hev
  rcases List.mem_append.1 hev with h | h
  · exact n1 ev h
  · exact n2 ev h

theorem NoRunSince.of_eq {id : Id} {r r' : Root} (h : r'.trace = r.trace) : NoRunSince id r r' :=
  ⟨[], by simp [h], by simp⟩

theorem NoRunSince.snoc {id : Id} {r r' : Root} {ev : Event} (h : r'.trace = r.trace ++ [ev])
    (hev : ¬ IsRunOf id ev) : NoRunSince id r r' :=
  ⟨[ev], h, by intro e he; simp only [List.mem_singleton] at he; subst he; exact hev⟩

theorem NoRunSince.drop {id : Id} {r r' : Root} (h : NoRunSince id r r') :
    ∀ ev ∈ r'.trace.drop r.trace.length, ¬ IsRunOf id ev := by
  obtain ⟨evs, e, hn⟩ := h
  rw [e, List.drop_left]; exact hn

theorem DPost.trans {id : Id} {a b c : Root} (h1 : DPost id a b) (h2 : DPost id b c) : DPost id a c :=
  ⟨h2.k, h2.d, h1.m.trans h2.m, h1.t.trans h2.t⟩

theorem DPost.refl {id : Id} {r : Root} (hK : KInv r) (hD : Det r id) : DPost id r r :=
  ⟨hK, hD, SigMono.refl _, NoRunSince.refl _ _⟩

theorem Out.of {P : Id → Prop} {id : Id} {r r' : Root} (h : RInvP P r' ∧ Grows r r') (p : DPost id r r') :
    Out P id r r' := { p with i := h.1, g := h.2 }

/-- the general transfer of `KInv`: every closure stored afterwards was stored before or is good,
every queued slot was queued before or is good -/
theorem KInv.transfer {r r' : Root} (h : KInv r) (hm : SigMono r r')
    (hst : ∀ cl, Stored r' cl → Stored r cl ∨ EnvK r' cl.env)
    (hq : ∀ q ∈ r'.queue, q ∈ r.queue ∨ (q < r'.nodes.size ∧ SigLike r' q)) : KInv r' := by
  refine ⟨fun cl hc => ?_, fun q hqm => ?_⟩
  · rcases hst cl hc with h1 | h1
    · exact (h.stored cl h1).mono hm
    · exact h1
  · rcases hq q hqm with h1 | h1
    · exact ⟨Nat.lt_of_lt_of_le (h.queue q h1).1 hm.size, hm.sig q (h.queue q h1).1 (h.queue q h1).2⟩
    · exact h1

/-- a transformation that leaves the arena alone (`tracker`, `current`, `batching`, `nextTag`; the
queue and the trace as stated) -/
theorem DPost.of_nodes_eq {id : Id} {r r' : Root} (hK : KInv r)
    (hD : Det r id) (hn : r'.nodes = r.nodes)
    (hq : ∀ q ∈ r'.queue, q ∈ r.queue ∨ (q < r.nodes.size ∧ SigLike r q))
    (ht : NoRunSince id r r') : DPost id r r' := by
  have hg := Root.get?_congr_nodes hn
  have hm := SigMono.of_nodes_eq hn
  refine ⟨hK.transfer hm ?_ ?_, ⟨by rw [hn]; exact hD.lt, ?_⟩, hm, ht⟩
  · rintro cl ⟨i, n, hi, hc⟩
    exact .inl ⟨i, n, by rw [← hg]; exact hi, hc⟩
  · intro q hqm
    rcases hq q hqm with h1 | ⟨h1, h2⟩
    · exact .inl h1
    · exact .inr ⟨by rw [hn]; exact h1, h2.congr hn⟩
  · intro j n hj; exact hD.free j n (by rw [← hg]; exact hj)

/-- the same when queue and trace are kept too -/
theorem DPost.same {id : Id} {r r' : Root} (hK : KInv r) (hD : Det r id) (hn : r'.nodes = r.nodes)
    (hq : r'.queue = r.queue) (ht : r'.trace = r.trace) : DPost id r r' :=
  DPost.of_nodes_eq hK hD hn (fun _ h => .inl (hq ▸ h)) (NoRunSince.of_eq ht)

/-! ### A.3 elementary steps -/

/-- an arena transformation that creates nothing: every node afterwards is a node before, signals
stay signals, no callback and no cleanup appears, `id` does not become a dependent -/
structure EStep (id : Id) (r r' : Root) : Prop where
  size : r'.nodes.size = r.nodes.size
  queue : r'.queue = r.queue
  trace : r'.trace = r.trace
  back : ∀ j n', r'.get? j = some n' → ∃ n, r.get? j = some n ∧
    (n.callback = none → n.value ≠ none → n'.callback = none ∧ n'.value ≠ none) ∧
    (∀ eq cl, n'.callback = some (eq, cl) → n.callback = some (eq, cl)) ∧
    (∀ cl ∈ n'.cleanups, cl ∈ n.cleanups) ∧
    (id ∈ n'.dependents → id ∈ n.dependents)

theorem EStep.refl (id : Id) (r : Root) : EStep id r r :=
  ⟨rfl, rfl, rfl, fun _ n' h => ⟨n', h, fun a b => ⟨a, b⟩, fun _ _ h => h, fun _ h => h, fun h => h⟩⟩

theorem EStep.trans {id : Id} {a b c : Root} (h1 : EStep id a b) (h2 : EStep id b c) : EStep id a c := by
  refine ⟨h2.size.trans h1.size, h2.queue.trans h1.queue, h2.trace.trans h1.trace, ?_⟩
  intro j n'' hj
  obtain ⟨n', hn', s2, c2, l2, d2⟩ := h2.back j n'' hj
  obtain ⟨n, hn, s1, c1, l1, d1⟩ := h1.back j n' hn'
  refine ⟨n, hn, fun hc hv => ?_, fun eq cl hc => c1 eq cl (c2 eq cl hc), fun cl hc => l1 cl (l2 cl hc),
    fun hd => d1 (d2 hd)⟩
  obtain ⟨x, y⟩ := s1 hc hv
  exact s2 x y

theorem EStep.sigMono {id : Id} {r r' : Root} (h : EStep id r r') : SigMono r r' := by
  refine ⟨by rw [h.size]; exact Nat.le_refl _, ?_⟩
  intro j _ hs n' hn'
  obtain ⟨n, hn, s, _⟩ := h.back j n' hn'
  obtain ⟨a, b⟩ := hs n hn
  exact s a b

theorem EStep.kinv {id : Id} {r r' : Root} (h : EStep id r r') (hK : KInv r) : KInv r' := by
  refine hK.transfer h.sigMono ?_ (fun _ hq => .inl (h.queue ▸ hq))
  rintro cl ⟨i, n', hi, hc⟩
  obtain ⟨n, hn, _, c, l, _⟩ := h.back i n' hi
  refine .inl ⟨i, n, hn, ?_⟩
  rcases hc with hc | ⟨eq, hc⟩
  · exact .inl (l cl hc)
  · exact .inr ⟨eq, c eq cl hc⟩

theorem EStep.det {id : Id} {r r' : Root} (h : EStep id r r') (hD : Det r id) : Det r' id := by
  refine ⟨by rw [h.size]; exact hD.lt, ?_⟩
  intro j n' hj hm
  obtain ⟨n, hn, _, _, _, d⟩ := h.back j n' hj
  exact hD.free j n hn (d hm)

theorem EStep.dpost {id : Id} {r r' : Root} (h : EStep id r r') (hK : KInv r) (hD : Det r id) :
    DPost id r r' :=
  ⟨h.kinv hK, h.det hD, h.sigMono, NoRunSince.of_eq h.trace⟩

/-- every slot is mapped by a function that keeps callback, value and cleanups and does not add `id`
to the `dependents` list -/
theorem EStep.of_map {id : Id} {r r' : Root} (hf : SameFrame r r') (g : Id → Node → Node)
    (hget : ∀ j, r'.get? j = (r.get? j).map (g j))
    (hg : ∀ j m, (g j m).callback = m.callback ∧ (g j m).value = m.value ∧
      (g j m).cleanups = m.cleanups ∧ (id ∈ (g j m).dependents → id ∈ m.dependents)) :
    EStep id r r' := by
  obtain ⟨s1, _, _, _, s5, _, _, s8⟩ := hf
  refine ⟨s1, s5, s8, ?_⟩
  intro j n' hj
  rw [hget, Option.map_eq_some_iff] at hj
  obtain ⟨n, hn, rfl⟩ := hj
  obtain ⟨a, b, c, d⟩ := hg j n
  exact ⟨n, hn, fun hc hv => ⟨a ▸ hc, b ▸ hv⟩, fun eq cl hc => a ▸ hc, fun cl hc => c ▸ hc, d⟩

theorem EStep.setNode {id : Id} {r : Root} {x : Id} {n n' : Node} (hn : r.get? x = some n)
    (h1 : n.callback = none → n.value ≠ none → n'.callback = none ∧ n'.value ≠ none)
    (h2 : ∀ eq cl, n'.callback = some (eq, cl) → n.callback = some (eq, cl))
    (h3 : ∀ cl ∈ n'.cleanups, cl ∈ n.cleanups)
    (h4 : id ∈ n'.dependents → id ∈ n.dependents) : EStep id r (r.setNode x n') := by
  obtain ⟨s1, _, _, _, s5, _, _, s8⟩ := SameFrame.setNode r x n'
  refine ⟨s1, s5, s8, ?_⟩
  intro j m' hj
  rw [Root.get?_setNode] at hj
  split at hj
  · rename_i hc
    cases hj
    exact ⟨n, by rw [hc.1]; exact hn, h1, h2, h3, h4⟩
  · exact ⟨m', hj, fun a b => ⟨a, b⟩, fun _ _ h => h, fun _ h => h, fun h => h⟩

/-- `dfs`, `resetMarks`, clearing a mark: only marks change -/
theorem EStep.of_frame {id : Id} {r r' : Root} (h : Frame r r') : EStep id r r' := by
  refine ⟨h.size, h.queue, h.trace, ?_⟩
  intro j n' hj
  obtain ⟨n, hn, e⟩ := h.get?_bwd hj
  obtain ⟨a1, a2, _, _, a5, _, a7, _⟩ :=
    sameButMark_some_iff.1 (show SameButMark (some n') (some n) from congrArg some e)
  exact ⟨n, hn, fun hc hv => ⟨a2 ▸ hc, a1 ▸ hv⟩, fun eq cl hc => a2 ▸ hc, fun cl hc => a7 ▸ hc,
    fun hd => a5 ▸ hd⟩

theorem EStep.unsubscribe {id : Id} {r : Root} (hnd : NoDangling r) (hs : EdgesSym r) (x : Id) :
    EStep id r (unsubscribe r x) := by
  obtain ⟨hget, _, _, _, hf⟩ := unsubscribe_spec hnd hs x
  refine EStep.of_map hf (unlinked x) hget ?_
  intro j m
  refine ⟨rfl, rfl, rfl, fun hd => ?_⟩
  simp only [unlinked, List.mem_filter] at hd
  exact hd.1

theorem EStep.removeNode {id : Id} {r : Root} (hnd : NoDangling r) (hs : EdgesSym r) (x : Id) :
    EStep id r (removeNode r x) := by
  obtain ⟨h0, _, _, h1, ⟨s1, _, _, _, s5, _, _, s8⟩, _⟩ := removeNode_spec hnd hs x
  refine ⟨s1, s5, s8, ?_⟩
  intro j n' hj
  have hjx : j ≠ x := by rintro rfl; rw [h0] at hj; cases hj
  rw [h1 j hjx, Option.map_eq_some_iff] at hj
  obtain ⟨n, hn, rfl⟩ := hj
  refine ⟨n, hn, fun hc hv => ⟨hc, hv⟩, fun eq cl hc => hc, fun cl hc => hc, fun hd => ?_⟩
  simp only [eraseId, List.mem_filter] at hd
  exact hd.1

theorem EStep.markDirty (id : Id) (r : Root) (cur : Id) : EStep id r (markDependentsDirty r cur) := by
  obtain ⟨_, _, _, hf⟩ := markDependentsDirty_frame r cur
  exact EStep.of_map hf (fun j m => { m with dirty := m.dirty || isDependentOf r cur j })
    (markDependentsDirty_get? r cur) (fun j m => ⟨rfl, rfl, rfl, fun h => h⟩)

theorem EStep.dfs {id : Id} {fuel : Nat} {r r' : Root} {buf buf' : List Id} {s : Id}
    (hx : dfs fuel r buf s = some (r', buf')) : EStep id r r' :=
  EStep.of_frame (dfs_post hx).1.frame

theorem EStep.visitStarts {id : Id} (ss : List Id) {r r' : Root} {buf buf' : List Id}
    (hx : visitStarts r buf ss = .ok (r', buf')) : EStep id r r' := by
  induction ss generalizing r buf with
  | nil =>
    simp only [Reactive.visitStarts, Except.ok.injEq, Prod.mk.injEq] at hx
    obtain ⟨rfl, _⟩ := hx
    exact EStep.refl _ _
  | cons s ss ih =>
    simp only [Reactive.visitStarts] at hx
    split at hx
    · cases hx
    · rename_i r1 buf1 h1
      exact ((EStep.dfs h1).trans (EStep.markDirty id r1 s)).trans (ih hx)

theorem EStep.resetMarks (id : Id) (ss : List Id) (r : Root) : EStep id r (resetMarks r ss) :=
  EStep.of_frame (resetMarks_spec ss r).1

theorem EStep.modifyContext (id : Id) (r : Root) (x : Id) :
    EStep id r (r.modify x fun n => { n with context := [] }) := by
  cases hx : r.get? x with
  | none =>
    have : r.modify x (fun n => { n with context := [] }) = r := by simp [Root.modify, hx]
    rw [this]; exact EStep.refl _ _
  | some n =>
    have : r.modify x (fun n => { n with context := [] }) = r.setNode x { n with context := [] } := by
      simp [Root.modify, hx]
    rw [this]
    exact EStep.setNode hx (fun a b => ⟨a, b⟩) (fun _ _ h => h) (fun _ h => h) (fun h => h)

theorem EStep.setSilent {id : Id} {r r' : Root} {x : Id} {v : Int} (hx : setSilent r x v = .ok r') :
    EStep id r r' := by
  obtain ⟨n, hn, _, rfl⟩ := setSilent_ok hx
  exact EStep.setNode hn (fun a _ => ⟨a, by simp⟩) (fun _ _ h => h) (fun _ h => h) (fun h => h)

theorem EStep.provideContext {id : Id} {r r' : Root} {ty : Nat} {v : Int}
    (hx : provideContext r ty v = .ok r') : EStep id r r' := by
  unfold Reactive.provideContext at hx
  split at hx
  · cases hx
  · split at hx
    · cases hx
    · rename_i cur _ _ n hn
      split at hx
      · cases hx
      · cases hx
        exact EStep.setNode hn (fun a b => ⟨a, b⟩) (fun _ _ h => h) (fun _ h => h) (fun h => h)

/-- the unlink phase of `runNodeUpdate` -/
theorem EStep.unlink {id : Id} {r r2 : Root} {cur : Id} {n : Node} (hnd : NoDangling r) (hs : EdgesSym r)
    (hn : r.get? cur = some n)
    (hu : unlink cur (r.setNode cur { n with dependencies := [] }) n.dependencies = .ok r2) :
    EStep id r r2 := by
  obtain ⟨r2', hu', hget, _, _, _, _, hf⟩ := unlink_spec hnd hs hn
  rw [hu] at hu'; cases hu'
  refine EStep.of_map hf (unlinked cur) hget ?_
  intro j m
  refine ⟨rfl, rfl, rfl, fun hd => ?_⟩
  simp only [unlinked, List.mem_filter] at hd
  exact hd.1

/-! ### A.4 the steps that create something -/

theorem dpost_createNode {id : Id} {r r' : Root} {v : Option Int} {nid : Id} (hK : KInv r) (hD : Det r id)
    (hc : createNode r v = .ok (r', nid)) :
    DPost id r r' ∧ ∃ n', r'.get? nid = some n' ∧ n'.value = v ∧ n'.callback = none := by
  obtain ⟨hid, hget, hsz, _, _, _, hq, _, _, htr⟩ := createNode_get? hc
  have back : ∀ j m', r'.get? j = some m' →
      (j = r.nodes.size ∧ m' = addChild r.current nid j (freshNode v r.current)) ∨
      (∃ m, r.get? j = some m ∧ m' = addChild r.current nid j m) := by
    intro j m' h
    rw [hget] at h
    by_cases hj : j = r.nodes.size
    · left
      rw [if_pos hj] at h
      simp only [Option.map_some, Option.some.injEq] at h
      exact ⟨hj, h.symm⟩
    · right
      rw [if_neg hj, Option.map_eq_some_iff] at h
      obtain ⟨m, hm, e⟩ := h
      exact ⟨m, hm, e.symm⟩
  have hm : SigMono r r' := by
    refine ⟨by rw [hsz]; exact Nat.le_succ _, ?_⟩
    intro j hj hs n' hn'
    rcases back j n' hn' with ⟨e, _⟩ | ⟨m, hmm, rfl⟩
    · exact absurd e (Nat.ne_of_lt hj)
    · exact hs m hmm
  refine ⟨⟨hK.transfer hm ?_ (fun _ h => .inl (hq ▸ h)), ⟨by rw [hsz]; exact Nat.lt_succ_of_lt hD.lt, ?_⟩, hm,
    NoRunSince.of_eq htr⟩, ?_⟩
  · rintro cl ⟨i, n', hi, hcl⟩
    rcases back i n' hi with ⟨_, rfl⟩ | ⟨m, hmm, rfl⟩
    · simp [addChild, freshNode] at hcl
    · exact .inl ⟨i, m, hmm, hcl⟩
  · intro j n' hj
    rcases back j n' hj with ⟨_, rfl⟩ | ⟨m, hmm, rfl⟩
    · simp [addChild, freshNode]
    · exact hD.free j m hmm
  · refine ⟨addChild r.current nid nid (freshNode v r.current), ?_, rfl, rfl⟩
    rw [hget, hid]; simp

/-- the end of a run (`createSelector`, `runNodeUpdate`) of a computation other than `id` -/
theorem dpost_finish {id : Id} {r : Root} {deps : List Id} {cur : Id} {nd n' : Node} (hK : KInv r)
    (hD : Det r id) (hne : cur ≠ id) (hd : r.get? cur = some nd) (hv : nd.value = none)
    (e1 : n'.dependents = (linked (deps.filter r.alive) cur cur nd).dependents)
    (e5 : n'.cleanups = nd.cleanups)
    (e7 : ∀ eq cl, n'.callback = some (eq, cl) → EnvK r cl.env) :
    DPost id r ((createDependencyLink r deps cur).setNode cur n') := by
  have hget := fun j => finish_get? (deps := deps) hd n' j
  obtain ⟨s1, _, _, _, s5, _, _, s8⟩ :=
    (createDependencyLink_sameFrame r deps cur).trans (SameFrame.setNode _ cur n')
  generalize (createDependencyLink r deps cur).setNode cur n' = r' at *
  have hm : SigMono r r' := by
    refine ⟨by rw [s1]; exact Nat.le_refl _, ?_⟩
    intro j _ hs m' hm'
    rw [hget] at hm'
    split at hm'
    · rename_i hj; subst hj
      exact absurd hv (hs nd hd).2
    · rw [Option.map_eq_some_iff] at hm'
      obtain ⟨m, hmm, rfl⟩ := hm'
      exact hs m hmm
  refine ⟨hK.transfer hm ?_ (fun _ h => .inl (s5 ▸ h)), ⟨by rw [s1]; exact hD.lt, ?_⟩, hm, NoRunSince.of_eq s8⟩
  · rintro cl ⟨i, m', hi, hcl⟩
    rw [hget] at hi
    split at hi
    · rename_i hj; subst hj
      cases hi
      rcases hcl with hcl | ⟨eq, hcl⟩
      · exact .inl ⟨i, nd, hd, .inl (e5 ▸ hcl)⟩
      · exact .inr ((e7 eq cl hcl).mono hm)
    · rw [Option.map_eq_some_iff] at hi
      obtain ⟨m, hmm, rfl⟩ := hi
      exact .inl ⟨i, m, hmm, hcl⟩
  · intro j m' hj hmem
    rw [hget] at hj
    split at hj
    · rename_i hjc; subst hjc
      cases hj
      rw [e1] at hmem
      simp only [linked, List.mem_append, List.mem_replicate] at hmem
      rcases hmem with h | ⟨_, h⟩
      · exact hD.free j nd hd h
      · exact hne h.symm
    · rw [Option.map_eq_some_iff] at hj
      obtain ⟨m, hmm, rfl⟩ := hj
      simp only [linked, List.mem_append, List.mem_replicate] at hmem
      rcases hmem with h | ⟨_, h⟩
      · exact hD.free j m hmm h
      · exact hne h.symm

/-- `runNodeUpdate` on a live node without callback fails (`unwrap()` on `None`) -/
theorem runNodeUpdate_no_callback {P : Id → Prop} {f : Nat} {r r' : Root} {cur : Id} {n : Node}
    (hI : RInvP P r) (hn : r.get? cur = some n) (hc : n.callback = none) :
    runNodeUpdate f r cur ≠ .ok r' := by
  intro hx
  cases f with
  | zero => simp [runNodeUpdate] at hx
  | succ f =>
    simp only [runNodeUpdate, hn] at hx
    split at hx
    · cases hx
    · rename_i r2 h2
      obtain ⟨_, _, _, _, _, hn2⟩ := hI.unlink hn h2
      rw [hn2] at hx
      simp only [unlinked, hc] at hx
      cases hx

/-! ### A.5 the statements of the induction -/

/-- one statement per function of the mutual block, at fuel `f`, about the fixed slot `id` -/
structure DAll (id : Id) (f : Nat) : Prop where
  body : ∀ (P : Id → Prop) r c b r' c', RInvP P r → KInv r → Det r id → EnvK r c.env →
    execBody f r c b = .ok (r', c') → Out P id r r' ∧ EnvK r' c'.env
  inner : ∀ (P : Id → Prop) r c b r' c', RInvP P r → KInv r → Det r id → EnvK r c.env →
    execInner f r c b = .ok (r', c') → Out P id r r' ∧ EnvK r' c'.env
  stmt : ∀ (P : Id → Prop) r c s r' c', RInvP P r → KInv r → Det r id → EnvK r c.env →
    execStmt f r c s = .ok (r', c') → Out P id r r' ∧ EnvK r' c'.env
  closure : ∀ (P : Id → Prop) r cl r' v obs, RInvP P r → KInv r → Det r id → EnvK r cl.env →
    runClosure f r cl = .ok (r', v, obs) → Out P id r r'
  selector : ∀ (P : Id → Prop) r eq cl r' nid, RInvP P r → KInv r → Det r id → EnvK r cl.env →
    createSelector f r eq cl = .ok (r', nid) → Out P id r r'
  update : ∀ (P : Id → Prop) r cur r', RInvP P r → KInv r → Det r id → cur ≠ id →
    runNodeUpdate f r cur = .ok r' → Out P id r r'
  loop : ∀ (P : Id → Prop) r l r', RInvP P r → KInv r → Det r id → (id ∈ l → SigLike r id) →
    propagateLoop f r l = .ok r' → Out P id r r'
  nodeUpdates : ∀ (P : Id → Prop) r l r', RInvP P r → KInv r → Det r id → (id ∈ l → SigLike r id) →
    propagateNodeUpdates f r l = .ok r' → Out P id r r'
  updates : ∀ (P : Id → Prop) r s r', RInvP P r → KInv r → Det r id → s < r.nodes.size → SigLike r s →
    propagateUpdates f r s = .ok r' → Out P id r r'
  dnode : ∀ (P : Id → Prop) r x r', RInvP P r → KInv r → Det r id →
    disposeNode f r x = .ok r' → Out P id r r'
  dchildren : ∀ (P : Id → Prop) r x r', RInvP P r → KInv r → Det r id →
    disposeChildren f r x = .ok r' → Out P id r r'
  rest : ∀ (P : Id → Prop) r x r', RInvP P r → KInv r → Det r id →
    disposeRest f r x = .ok r' → Out P id r r'
  cleanups : ∀ (P : Id → Prop) r cls r', RInvP P r → KInv r → Det r id → (∀ cl ∈ cls, EnvK r cl.env) →
    runCleanups f r cls = .ok r' → Out P id r r'
  dlist : ∀ (P : Id → Prop) r cs r', RInvP P r → KInv r → Det r id →
    disposeList f r cs = .ok r' → Out P id r r'

theorem dAll_zero (id : Id) : DAll id 0 := by
  constructor <;> intros <;> simp_all [execBody, execInner, execStmt, runClosure, createSelector,
    runNodeUpdate, propagateLoop, propagateNodeUpdates, propagateUpdates, disposeNode, disposeChildren,
    disposeRest, runCleanups, disposeList]

/-! ### A.6 the functions -/

theorem d_body {id : Id} {f : Nat} (ih : DAll id f) (P : Id → Prop) (r : Root) (c : Ctx) (b : Body)
    (r' : Root) (c' : Ctx) (hI : RInvP P r) (hK : KInv r) (hD : Det r id) (hE : EnvK r c.env)
    (hx : execBody (f + 1) r c b = .ok (r', c')) : DPost id r r' ∧ EnvK r' c'.env := by
  cases b with
  | nil =>
    simp only [execBody, Except.ok.injEq, Prod.mk.injEq] at hx
    obtain ⟨rfl, rfl⟩ := hx
    exact ⟨DPost.refl hK hD, hE⟩
  | cons s rest =>
    simp only [execBody] at hx
    split at hx
    · cases hx
    · rename_i r1 c1 h1
      obtain ⟨o1, e1⟩ := ih.stmt P r c s r1 c1 hI hK hD hE h1
      obtain ⟨o2, e2⟩ := ih.body P r1 c1 rest r' c' o1.i o1.k o1.d e1 hx
      exact ⟨o1.toDPost.trans o2.toDPost, e2⟩

theorem d_inner {id : Id} {f : Nat} (ih : DAll id f) (P : Id → Prop) (r : Root) (c : Ctx) (b : Body)
    (r' : Root) (c' : Ctx) (hI : RInvP P r) (hK : KInv r) (hD : Det r id) (hE : EnvK r c.env)
    (hx : execInner (f + 1) r c b = .ok (r', c')) : DPost id r r' ∧ EnvK r' c'.env := by
  simp only [execInner] at hx
  split at hx
  · cases hx
  · rename_i r1 c1 h1
    simp only [Except.ok.injEq, Prod.mk.injEq] at hx
    obtain ⟨rfl, rfl⟩ := hx
    obtain ⟨o1, _⟩ := ih.body P r c b r1 c1 hI hK hD hE h1
    exact ⟨o1.toDPost, hE.mono o1.m⟩

theorem d_closure {id : Id} {f : Nat} (ih : DAll id f) (P : Id → Prop) (r : Root) (cl : Closure)
    (r' : Root) (v : Int) (obs : List Obs) (hI : RInvP P r) (hK : KInv r) (hD : Det r id)
    (hE : EnvK r cl.env) (hx : runClosure (f + 1) r cl = .ok (r', v, obs)) : DPost id r r' := by
  simp only [runClosure] at hx
  split at hx
  · cases hx
  · rename_i r1 c1 h1
    simp only [Except.ok.injEq, Prod.mk.injEq] at hx
    obtain ⟨rfl, _, _⟩ := hx
    exact (ih.body P r ⟨cl.env, 0, []⟩ cl.body r1 c1 hI hK hD hE h1).1.toDPost

theorem d_cleanups {id : Id} {f : Nat} (ih : DAll id f) (P : Id → Prop) (r : Root) (cls : List Closure)
    (r' : Root) (hI : RInvP P r) (hK : KInv r) (hD : Det r id) (hE : ∀ cl ∈ cls, EnvK r cl.env)
    (hx : runCleanups (f + 1) r cls = .ok r') : DPost id r r' := by
  cases cls with
  | nil =>
    simp only [runCleanups, Except.ok.injEq] at hx
    subst hx; exact DPost.refl hK hD
  | cons cl cls =>
    simp only [runCleanups] at hx
    split at hx
    · cases hx
    · rename_i r1 v obs h1
      have o1 := ih.closure P r cl r1 v obs hI hK hD (hE cl (by simp)) h1
      obtain ⟨i2, _⟩ := o1.i.same (r' := { r1 with trace := r1.trace ++ [.cleanup cl.tag obs] }) rfl rfl
      have p2 : DPost id r1 { r1 with trace := r1.trace ++ [.cleanup cl.tag obs] } :=
        DPost.of_nodes_eq o1.k o1.d rfl (fun _ h => .inl h) (NoRunSince.snoc rfl (by simp [IsRunOf]))
      have o3 := ih.cleanups P _ cls r' i2 p2.k p2.d
        (fun cl' hc => (hE cl' (by simp [hc])).mono (o1.m.trans p2.m)) hx
      exact (o1.toDPost.trans p2).trans o3.toDPost

theorem d_dlist {id : Id} {f : Nat} (ih : DAll id f) (P : Id → Prop) (r : Root) (cs : List Id) (r' : Root)
    (hI : RInvP P r) (hK : KInv r) (hD : Det r id) (hx : disposeList (f + 1) r cs = .ok r') :
    DPost id r r' := by
  cases cs with
  | nil =>
    simp only [disposeList, Except.ok.injEq] at hx
    subst hx; exact DPost.refl hK hD
  | cons c cs =>
    simp only [disposeList] at hx
    split at hx
    · cases hx
    · rename_i r1 h1
      have o1 := ih.dnode P r c r1 hI hK hD h1
      have o2 := ih.dlist P r1 cs r' o1.i o1.k o1.d hx
      exact o1.toDPost.trans o2.toDPost

theorem d_dnode {id : Id} {f : Nat} (ih : DAll id f) (P : Id → Prop) (r : Root) (x : Id) (r' : Root)
    (hI : RInvP P r) (hK : KInv r) (hD : Det r id) (hx : disposeNode (f + 1) r x = .ok r') :
    DPost id r r' := by
  simp only [disposeNode] at hx
  split at hx
  · cases hx
  · rename_i r1 h1
    split at hx
    · cases hx
    · rename_i r1' h1'
      simp only [Except.ok.injEq] at hx
      subst hx
      obtain ⟨i0, _⟩ := hI.unsubscribe x
      have p0 := (EStep.unsubscribe (id := id) hI.nd hI.sym x).dpost hK hD
      have o1 := ih.dchildren P (unsubscribe r x) x r1 i0 p0.k p0.d h1
      have o1' := ih.rest P r1 x r1' o1.i o1.k o1.d h1'
      have p2 := (EStep.removeNode (id := id) o1'.i.nd o1'.i.sym x).dpost o1'.k o1'.d
      exact ((p0.trans o1.toDPost).trans o1'.toDPost).trans p2

theorem d_rest {id : Id} {f : Nat} (ih : DAll id f) (P : Id → Prop) (r : Root) (x : Id) (r' : Root)
    (hI : RInvP P r) (hK : KInv r) (hD : Det r id) (hx : disposeRest (f + 1) r x = .ok r') :
    DPost id r r' := by
  simp only [disposeRest] at hx
  split at hx
  · simp only [Except.ok.injEq] at hx
    subst hx; exact DPost.refl hK hD
  · split at hx
    · simp only [Except.ok.injEq] at hx
      subst hx; exact DPost.refl hK hD
    · split at hx
      · cases hx
      · rename_i r1 h1
        have o1 := ih.dchildren P r x r1 hI hK hD h1
        have o2 := ih.rest P r1 x r' o1.i o1.k o1.d hx
        exact o1.toDPost.trans o2.toDPost

theorem d_loop {id : Id} {f : Nat} (ih : DAll id f) (P : Id → Prop) (r : Root) (l : List Id) (r' : Root)
    (hI : RInvP P r) (hK : KInv r) (hD : Det r id) (hl : id ∈ l → SigLike r id)
    (hx : propagateLoop (f + 1) r l = .ok r') : DPost id r r' := by
  cases l with
  | nil =>
    simp only [propagateLoop, Except.ok.injEq] at hx
    subst hx; exact DPost.refl hK hD
  | cons node rest =>
    simp only [propagateLoop] at hx
    split at hx
    · exact (ih.loop P r rest r' hI hK hD (fun h => hl (by simp [h])) hx).toDPost
    · rename_i n hn
      have w := hI.node node n hn
      have i1 := hI.setNode (n' := { n with mark := .none }) hn rfl rfl rfl rfl ⟨w.run, w.cleanups, w.callback⟩
      have p1 := (EStep.setNode (id := id) (n' := { n with mark := .none }) hn (fun a b => ⟨a, b⟩)
        (fun _ _ h => h) (fun _ h => h) (fun h => h)).dpost hK hD
      have hn1 : (r.setNode node { n with mark := .none }).get? node = some { n with mark := .none } :=
        Root.get?_setNode_self hn _
      split at hx
      · split at hx
        · cases hx
        · rename_i r2 h2
          have hne : node ≠ id := by
            rintro rfl
            have hs := hl (by simp)
            exact runNodeUpdate_no_callback i1 hn1 (hs n hn).1 h2
          have o2 := ih.update P _ node r2 i1 p1.k p1.d hne h2
          have o3 := ih.loop P r2 rest r' o2.i o2.k o2.d
            (fun h => (p1.m.trans o2.m).sig id hD.lt (hl (by simp [h]))) hx
          exact (p1.trans o2.toDPost).trans o3.toDPost
      · have o3 := ih.loop P _ rest r' i1 p1.k p1.d
          (fun h => p1.m.sig id hD.lt (hl (by simp [h]))) hx
        exact p1.trans o3.toDPost

theorem d_nodeUpdates {id : Id} {f : Nat} (ih : DAll id f) (P : Id → Prop) (r : Root) (l : List Id)
    (r' : Root) (hI : RInvP P r) (hK : KInv r) (hD : Det r id) (hl : id ∈ l → SigLike r id)
    (hx : propagateNodeUpdates (f + 1) r l = .ok r') : DPost id r r' := by
  simp only [propagateNodeUpdates] at hx
  split at hx
  · cases hx
  · rename_i r1 buf h1
    obtain ⟨i1, _⟩ := hI.visitStarts l h1
    obtain ⟨i1', _⟩ := i1.resetMarks l
    have p1 := (EStep.visitStarts (id := id) l h1).dpost hK hD
    have p1' := (EStep.resetMarks id l r1).dpost p1.k p1.d
    have hmem : id ∈ buf.reverse → SigLike (resetMarks r1 l) id := by
      intro hm
      rcases visitStarts_mem l h1 id (List.mem_reverse.1 hm) with h | h | ⟨a, na, hna, hi⟩
      · cases h
      · exact (p1.m.trans p1'.m).sig id hD.lt (hl h)
      · exact absurd hi (hD.free a na hna)
    have o2 := ih.loop P _ buf.reverse r' i1' p1'.k p1'.d hmem hx
    exact (p1.trans p1').trans o2.toDPost

theorem d_updates {id : Id} {f : Nat} (ih : DAll id f) (P : Id → Prop) (r : Root) (s : Id) (r' : Root)
    (hI : RInvP P r) (hK : KInv r) (hD : Det r id) (hlt : s < r.nodes.size) (hs : SigLike r s)
    (hx : propagateUpdates (f + 1) r s = .ok r') : DPost id r r' := by
  simp only [propagateUpdates] at hx
  split at hx
  · simp only [Except.ok.injEq] at hx
    subst hx
    refine DPost.of_nodes_eq hK hD rfl ?_ (NoRunSince.of_eq rfl)
    intro q hq
    simp only [List.mem_append, List.mem_singleton] at hq
    rcases hq with h | rfl
    · exact .inl h
    · exact .inr ⟨hlt, hs⟩
  · exact (ih.nodeUpdates P r [s] r' hI hK hD
      (fun h => by simp only [List.mem_singleton] at h; subst h; exact hs) hx).toDPost

theorem d_dchildren {id : Id} {f : Nat} (ih : DAll id f) (P : Id → Prop) (r : Root) (x : Id) (r' : Root)
    (hI : RInvP P r) (hK : KInv r) (hD : Det r id) (hx : disposeChildren (f + 1) r x = .ok r') :
    DPost id r r' := by
  simp only [disposeChildren] at hx
  split at hx
  · simp only [Except.ok.injEq] at hx
    subst hx; exact DPost.refl hK hD
  · rename_i n hn
    split at hx
    · cases hx
    · rename_i r2 h2
      split at hx
      · cases hx
      · rename_i r3 h3
        simp only [Except.ok.injEq] at hx
        subst hx
        obtain ⟨ia, _⟩ := hI.detach hn
        have pa := (EStep.setNode (id := id) (n' := { n with cleanups := [], children := [] }) hn
          (fun a b => ⟨a, b⟩) (fun _ _ h => h) (fun _ h => by simp at h) (fun h => h)).dpost hK hD
        obtain ⟨ib, _⟩ := ia.same
          (r' := { (r.setNode x { n with cleanups := [], children := [] }) with tracker := none }) rfl rfl
        have pb : DPost id (r.setNode x { n with cleanups := [], children := [] })
            { (r.setNode x { n with cleanups := [], children := [] }) with tracker := none } :=
          DPost.same pa.k pa.d rfl rfl rfl
        have hEcl : ∀ cl ∈ n.cleanups, EnvK r cl.env := fun cl hc => hK.stored cl ⟨x, n, hn, .inl hc⟩
        have o2 := ih.cleanups _ _ n.cleanups r2 ib pb.k pb.d
          (fun cl hc => (hEcl cl hc).mono (pa.m.trans pb.m)) h2
        obtain ⟨ic, _⟩ := o2.i.same
          (r' := { r2 with tracker := (r.setNode x { n with cleanups := [], children := [] }).tracker }) rfl rfl
        have pc : DPost id r2
            { r2 with tracker := (r.setNode x { n with cleanups := [], children := [] }).tracker } :=
          DPost.same o2.k o2.d rfl rfl rfl
        have o3 := ih.dlist _ _ n.children r3 ic pc.k pc.d h3
        have p4 := (EStep.modifyContext id r3 x).dpost o3.k o3.d
        exact ((((pa.trans pb).trans o2.toDPost).trans pc).trans o3.toDPost).trans p4

theorem d_selector {id : Id} {f : Nat} (ih : DAll id f) (P : Id → Prop) (r : Root) (eq : EqKind)
    (cl : Closure) (r' : Root) (nid : Id) (hI : RInvP P r) (hK : KInv r) (hD : Det r id)
    (hE : EnvK r cl.env) (hx : createSelector (f + 1) r eq cl = .ok (r', nid)) : DPost id r r' := by
  simp only [createSelector] at hx
  split at hx
  · cases hx
  · rename_i r1 id1 h1
    obtain ⟨i1, g1, hid, hsz1, hcur1, htr1, n1, hn1, hv1, hd1⟩ := hI.createNode h1
    obtain ⟨p1, _⟩ := dpost_createNode hK hD h1
    have hid1 : id1 < r1.nodes.size := by rw [hsz1, hid]; exact Nat.lt_succ_self _
    have hne : id1 ≠ id := by rw [hid]; exact Nat.ne_of_gt hD.lt
    split at hx
    · cases hx
    · rename_i r2 v obs h2
      have ia : RInvP P { r1 with current := some id1, tracker := some [] } :=
        i1.congr rfl (by intro c hc; simp only [Option.some.injEq] at hc; subst hc; exact hid1)
      have pa : DPost id r1 { r1 with current := some id1, tracker := some [] } :=
        DPost.same p1.k p1.d rfl rfl rfl
      have o2 := ih.closure P _ cl r2 v obs ia pa.k pa.d (hE.mono (p1.m.trans pa.m)) h2
      have g2 := o2.g
      generalize hr3 : ({ r2 with tracker := r1.tracker, current := r1.current, trace := r2.trace ++ [Event.run id1 obs v] } : Root) = r3 at hx
      have hn3 : r3.nodes = r2.nodes := by subst hr3; rfl
      have hc3 : r3.current = r1.current := by subst hr3; rfl
      have i3 : RInvP P r3 := o2.i.congr hn3 (by
        intro c hc; rw [hc3] at hc; exact Nat.lt_of_lt_of_le (i1.cur c hc) g2.size)
      have p3 : DPost id r2 r3 := by
        subst hr3
        exact DPost.of_nodes_eq o2.k o2.d rfl (fun _ h => .inl h)
          (NoRunSince.snoc rfl (by simpa [IsRunOf] using hne))
      have p03 : DPost id r r3 := ((p1.trans pa).trans o2.toDPost).trans p3
      cases hd3 : r3.get? id1 with
      | none =>
        rw [createDependencyLink_dead _ hd3, hd3] at hx
        simp only [Except.ok.injEq, Prod.mk.injEq] at hx
        obtain ⟨rfl, rfl⟩ := hx
        exact p03
      | some nd =>
        have hv3 : nd.value = none := by
          have hg : r3.get? id1 = r2.get? id1 := Root.get?_congr_nodes hn3 id1
          rw [hg] at hd3
          exact g2.run id1 n1 nd hn1 hv1 hd3
        have h4 := createDependencyLink_alive (deps := r2.tracker.getD []) hd3
        rw [h4] at hx
        simp only [Except.ok.injEq, Prod.mk.injEq] at hx
        obtain ⟨rfl, rfl⟩ := hx
        have p4 := dpost_finish (deps := r2.tracker.getD [])
          (n' := { linked ((r2.tracker.getD []).filter r3.alive) id1 id1 nd with
            value := some v, callback := some (eq, cl) }) p03.k p03.d hne hd3 hv3 rfl rfl
          (by
            intro eq' cl' he
            simp only [Option.some.injEq, Prod.mk.injEq] at he
            obtain ⟨_, rfl⟩ := he
            exact hE.mono p03.m)
        exact p03.trans p4

theorem d_update {id : Id} {f : Nat} (ih : DAll id f) (P : Id → Prop) (r : Root) (cur : Id) (r' : Root)
    (hI : RInvP P r) (hK : KInv r) (hD : Det r id) (hne : cur ≠ id)
    (hx : runNodeUpdate (f + 1) r cur = .ok r') : DPost id r r' := by
  simp only [runNodeUpdate] at hx
  split at hx
  · cases hx
  · rename_i n hn
    split at hx
    · cases hx
    · rename_i r2 h2
      obtain ⟨i2, g2, hsz2, _, _, hn2⟩ := hI.unlink hn h2
      have p2 := (EStep.unlink (id := id) hI.nd hI.sym hn h2).dpost hK hD
      rw [hn2] at hx
      simp only at hx
      split at hx
      · cases hx
      · cases hx
      · rename_i eq cl old hcb hval
        have w2 := i2.node cur _ hn2
        have hEcl : EnvK r2 cl.env := p2.k.stored cl ⟨cur, _, hn2, .inr ⟨eq, hcb⟩⟩
        generalize hr3 : r2.setNode cur _ = r3 at hx
        have i3 : RInvP P r3 := by
          subst hr3
          exact i2.setNode hn2 rfl rfl rfl rfl ⟨fun _ => by simp [unlinked], w2.cleanups, by simp⟩
        have p3 : DPost id r2 r3 := by
          subst hr3
          exact (EStep.setNode (id := id) (n' := { unlinked cur cur n with callback := none, value := none }) hn2
            (fun a => by rw [hcb] at a; cases a) (fun _ _ h => by cases h)
            (fun _ h => h) (fun h => h)).dpost p2.k p2.d
        have hn3 : ∃ n3, r3.get? cur = some n3 ∧ n3.value = none := by
          subst hr3
          exact ⟨_, Root.get?_setNode_self hn2 _, rfl⟩
        obtain ⟨n3, hn3, hv3⟩ := hn3
        split at hx
        · cases hx
        · rename_i r4 h4
          have o4 := ih.dchildren P r3 cur r4 i3 p3.k p3.d h4
          have i4 := o4.i
          have g4 := o4.g
          -- repair D22: a cleanup disposed the node itself, the update stops here
          split at hx
          · simp only [Except.ok.injEq] at hx
            subst hx
            exact p2.trans (p3.trans o4.toDPost)
          split at hx
          · cases hx
          · rename_i r5 new obs h5
            have hcur4 : cur < r4.nodes.size :=
              Nat.lt_of_lt_of_le (Root.lt_size_of_get? hn3) g4.size
            have ia : RInvP P { r4 with current := some cur, tracker := some [] } :=
              i4.congr rfl (by intro c hc; simp only [Option.some.injEq] at hc; subst hc; exact hcur4)
            have pa : DPost id r4 { r4 with current := some cur, tracker := some [] } :=
              DPost.same o4.k o4.d rfl rfl rfl
            have o5 := ih.closure P _ cl r5 new obs ia pa.k pa.d
              (hEcl.mono ((p3.m.trans o4.m).trans pa.m)) h5
            have i5 := o5.i
            have g5 := o5.g
            have g5' : Grows r4 r5 := ⟨g5.size, g5.dead, g5.run⟩
            generalize hr6 : ({ r5 with tracker := r4.tracker, current := r4.current, trace := r5.trace ++ [Event.run cur obs new] } : Root) = r6 at hx
            have hn6 : r6.nodes = r5.nodes := by subst hr6; rfl
            have hc6 : r6.current = r4.current := by subst hr6; rfl
            have i6 : RInvP P r6 := i5.congr hn6 (by
              intro c hc; rw [hc6] at hc; exact Nat.lt_of_lt_of_le (i4.cur c hc) g5.size)
            have p6 : DPost id r5 r6 := by
              subst hr6
              exact DPost.of_nodes_eq o5.k o5.d rfl (fun _ h => .inl h)
                (NoRunSince.snoc rfl (by simpa [IsRunOf] using hne))
            have g36 : Grows r3 r6 := (g4.trans g5').trans (Grows.of_nodes_eq hn6)
            have p26 : DPost id r2 r6 := (((p3.trans o4.toDPost).trans pa).trans o5.toDPost).trans p6
            have p06 : DPost id r r6 := p2.trans p26
            cases hd6 : r6.get? cur with
            | none =>
              rw [createDependencyLink_dead _ hd6, hd6] at hx
              simp only [Except.ok.injEq] at hx
              subst hx
              exact p06
            | some nd =>
              have hv6 : nd.value = none := g36.run cur n3 nd hn3 hv3 hd6
              have h7 := createDependencyLink_alive (deps := r5.tracker.getD []) hd6
              rw [h7] at hx
              simp only [Except.ok.injEq] at hx
              have key := fun vv : Int => dpost_finish (deps := r5.tracker.getD [])
                (n' := { linked ((r5.tracker.getD []).filter r6.alive) cur cur nd with
                  callback := some (eq, cl), value := some vv, dirty := false })
                p06.k p06.d hne hd6 hv6 rfl rfl
                (by
                  intro eq' cl' he
                  simp only [Option.some.injEq, Prod.mk.injEq] at he
                  obtain ⟨_, rfl⟩ := he
                  exact hEcl.mono p26.m)
              split at hx
              · subst hx
                have p7 := key new
                exact (p06.trans p7).trans ((EStep.markDirty id _ cur).dpost p7.k p7.d)
              · subst hx
                exact p06.trans (key old)

/-! ### A.7 `execStmt`, statement by statement -/

theorem trackAll_trace (c : Ctx) (l : List Nat) {r r' : Root} (hx : trackAll c r l = .ok r') :
    r'.trace = r.trace := by
  induction l generalizing r with
  | nil => simp only [trackAll, Except.ok.injEq] at hx; subst hx; rfl
  | cons x l ih =>
    simp only [trackAll] at hx
    split at hx
    · cases hx
    · split at hx
      · cases hx
      · rw [ih hx]; unfold track; split <;> rfl


set_option linter.unusedSectionVars false

section stmts
variable {id : Id} {f : Nat} (ih : DAll id f) {P : Id → Prop} {r r' : Root} {c c' : Ctx}
  (hI : RInvP P r) (hK : KInv r) (hD : Det r id) (hE : EnvK r c.env)
include ih hI hK hD hE

theorem d_read {h : Nat} (hx : execStmt (f + 1) r c (.read h) = .ok (r', c')) :
    DPost id r r' ∧ EnvK r' c'.env := by
  simp only [execStmt] at hx
  split at hx
  · cases hx
  · split at hx
    · cases hx
    · split at hx
      · cases hx
      · simp only [Except.ok.injEq, Prod.mk.injEq] at hx
        obtain ⟨rfl, rfl⟩ := hx
        obtain ⟨a, _⟩ := track_nodes r ‹Handle›.id
        obtain ⟨_, b, _⟩ := track_frame r ‹Handle›.id
        have p := DPost.same (id := id) hK hD a b (by unfold track; split <;> rfl)
        exact ⟨p, hE.mono p.m⟩

theorem d_readU {h : Nat} (hx : execStmt (f + 1) r c (.readU h) = .ok (r', c')) :
    DPost id r r' ∧ EnvK r' c'.env := by
  simp only [execStmt] at hx
  split at hx
  · cases hx
  · split at hx
    · cases hx
    · split at hx
      · cases hx
      · simp only [Except.ok.injEq, Prod.mk.injEq] at hx
        obtain ⟨rfl, rfl⟩ := hx
        exact ⟨DPost.refl hK hD, hE⟩

theorem d_track {h : Nat} (hx : execStmt (f + 1) r c (.track h) = .ok (r', c')) :
    DPost id r r' ∧ EnvK r' c'.env := by
  simp only [execStmt] at hx
  split at hx
  · cases hx
  · split at hx
    · cases hx
    · simp only [Except.ok.injEq, Prod.mk.injEq] at hx
      obtain ⟨rfl, rfl⟩ := hx
      obtain ⟨a, _⟩ := track_nodes r ‹Handle›.id
      obtain ⟨_, b, _⟩ := track_frame r ‹Handle›.id
      have p := DPost.same (id := id) hK hD a b (by unfold track; split <;> rfl)
      exact ⟨p, hE.mono p.m⟩

theorem d_ifpos {h : Nat} {t e : Body} (hx : execStmt (f + 1) r c (.ifpos h t e) = .ok (r', c')) :
    DPost id r r' ∧ EnvK r' c'.env := by
  simp only [execStmt] at hx
  split at hx
  · cases hx
  · rename_i hd _
    split at hx
    · cases hx
    · split at hx
      · cases hx
      · rename_i v _
        obtain ⟨a, b⟩ := track_nodes r hd.id
        obtain ⟨_, b', _⟩ := track_frame r hd.id
        obtain ⟨i, _⟩ := hI.same a b
        have p := DPost.same (id := id) hK hD a b' (by unfold track; split <;> rfl)
        have hE1 : EnvK (track r hd.id) c.env := hE.mono p.m
        split at hx
        · obtain ⟨o2, e2⟩ := ih.inner P _ { c with acc := mix c.acc v, obs := c.obs ++ [.read hd.id v] } t r' c'
            i p.k p.d hE1 hx
          exact ⟨p.trans o2.toDPost, e2⟩
        · obtain ⟨o2, e2⟩ := ih.inner P _ { c with acc := mix c.acc v, obs := c.obs ++ [.read hd.id v] } e r' c'
            i p.k p.d hE1 hx
          exact ⟨p.trans o2.toDPost, e2⟩

/-- `untrack`, `component`, and the second half of `on` -/
theorem d_untracked {b : Body} {prev : Option (List Id)}
    (hx : (match execInner f { r with tracker := none } c b with
      | .error e => .error e
      | .ok (r, c) => .ok ({ r with tracker := prev }, c)) = (.ok (r', c') : Except Panic (Root × Ctx))) :
    DPost id r r' ∧ EnvK r' c'.env := by
  split at hx
  · cases hx
  · rename_i r1 c1 h1
    simp only [Except.ok.injEq, Prod.mk.injEq] at hx
    obtain ⟨rfl, rfl⟩ := hx
    obtain ⟨i0, _⟩ := hI.same (r' := { r with tracker := none }) rfl rfl
    have p0 : DPost id r { r with tracker := none } := DPost.same hK hD rfl rfl rfl
    obtain ⟨o1, e1⟩ := ih.inner P _ c b r1 c1 i0 p0.k p0.d (hE.mono p0.m) h1
    have p2 : DPost id r1 { r1 with tracker := prev } := DPost.same o1.k o1.d rfl rfl rfl
    exact ⟨(p0.trans o1.toDPost).trans p2, e1.mono p2.m⟩

theorem d_untrack {b : Body} (hx : execStmt (f + 1) r c (.untrack b) = .ok (r', c')) :
    DPost id r r' ∧ EnvK r' c'.env := by
  simp only [execStmt] at hx
  exact d_untracked ih hI hK hD hE hx

theorem d_component {b : Body} (hx : execStmt (f + 1) r c (.component b) = .ok (r', c')) :
    DPost id r r' ∧ EnvK r' c'.env := by
  simp only [execStmt] at hx
  exact d_untracked ih hI hK hD hE hx

theorem d_on {deps : List Nat} {b : Body} (hx : execStmt (f + 1) r c (.on deps b) = .ok (r', c')) :
    DPost id r r' ∧ EnvK r' c'.env := by
  simp only [execStmt] at hx
  split at hx
  · cases hx
  · rename_i r1 h1
    obtain ⟨a, b'⟩ := trackAll_nodes c deps h1
    obtain ⟨_, q, _⟩ := trackAll_frame c deps h1
    obtain ⟨i1, _⟩ := hI.same a b'
    have p1 : DPost id r r1 := DPost.same hK hD a q (trackAll_trace c deps h1)
    obtain ⟨p2, e2⟩ := d_untracked ih i1 p1.k p1.d (hE.mono p1.m) hx
    exact ⟨p1.trans p2, e2⟩

theorem d_signal {v : Int} (hx : execStmt (f + 1) r c (.signal v) = .ok (r', c')) :
    DPost id r r' ∧ EnvK r' c'.env := by
  simp only [execStmt] at hx
  split at hx
  · cases hx
  · rename_i r1 nid h1
    simp only [Except.ok.injEq, Prod.mk.injEq] at hx
    obtain ⟨rfl, rfl⟩ := hx
    obtain ⟨_, _, hid, hsz1, _⟩ := hI.createNode h1
    obtain ⟨p1, n', hn', hv', hc'⟩ := dpost_createNode hK hD h1
    refine ⟨p1, (hE.mono p1.m).snoc (by rw [hsz1, hid]; exact Nat.lt_succ_self _) ?_⟩
    intro _ m hm
    rw [hn'] at hm; cases hm
    exact ⟨hc', by rw [hv']; simp⟩

/-- `memo`, `selector`, `effect` -/
theorem d_created {eq : EqKind} {b : Body} {kd : Kind} (hkd : kd ≠ .signal)
    (hx : (match createSelector f r eq ⟨b, c.env, 0⟩ with
      | .error e => .error e
      | .ok (r, id) => .ok (r, { c with env := c.env ++ [⟨id, kd⟩] })) = (.ok (r', c') : Except Panic (Root × Ctx))) :
    DPost id r r' ∧ EnvK r' c'.env := by
  split at hx
  · cases hx
  · rename_i r1 nid h1
    simp only [Except.ok.injEq, Prod.mk.injEq] at hx
    obtain ⟨rfl, rfl⟩ := hx
    have o1 := ih.selector P r eq ⟨b, c.env, 0⟩ r1 nid hI hK hD hE h1
    obtain ⟨_, hid⟩ := (presAll f).selector P r eq ⟨b, c.env, 0⟩ r1 nid hI hE.envLt h1
    exact ⟨o1.toDPost, (hE.mono o1.m).snoc hid (fun h => absurd h hkd)⟩

theorem d_memo {b : Body} (hx : execStmt (f + 1) r c (.memo b) = .ok (r', c')) :
    DPost id r r' ∧ EnvK r' c'.env := by
  simp only [execStmt] at hx
  exact d_created ih hI hK hD hE (by intro h; cases h) hx

theorem d_selectorStmt {eq : EqKind} {b : Body} (hx : execStmt (f + 1) r c (.selector eq b) = .ok (r', c')) :
    DPost id r r' ∧ EnvK r' c'.env := by
  simp only [execStmt] at hx
  exact d_created ih hI hK hD hE (by intro h; cases h) hx

theorem d_effect {b : Body} (hx : execStmt (f + 1) r c (.effect b) = .ok (r', c')) :
    DPost id r r' ∧ EnvK r' c'.env := by
  simp only [execStmt] at hx
  exact d_created ih hI hK hD hE (by intro h; cases h) hx

theorem d_scope {b : Body} (hx : execStmt (f + 1) r c (.scope b) = .ok (r', c')) :
    DPost id r r' ∧ EnvK r' c'.env := by
  simp only [execStmt] at hx
  split at hx
  · cases hx
  · rename_i r1 nid h1
    obtain ⟨i1, g1, hid, hsz1, _⟩ := hI.createNode h1
    obtain ⟨p1, _⟩ := dpost_createNode hK hD h1
    have hid1 : nid < r1.nodes.size := by rw [hsz1, hid]; exact Nat.lt_succ_self _
    split at hx
    · cases hx
    · rename_i r2 c2 h2
      simp only [Except.ok.injEq, Prod.mk.injEq] at hx
      obtain ⟨rfl, rfl⟩ := hx
      have ia : RInvP P { r1 with current := some nid } :=
        i1.congr rfl (by intro x hc; simp only [Option.some.injEq] at hc; subst hc; exact hid1)
      have pa : DPost id r1 { r1 with current := some nid } := DPost.same p1.k p1.d rfl rfl rfl
      obtain ⟨o2, e2⟩ := ih.inner P _ c b r2 c2 ia pa.k pa.d (hE.mono (p1.m.trans pa.m)) h2
      have p3 : DPost id r2 { r2 with current := r1.current } := DPost.same o2.k o2.d rfl rfl rfl
      refine ⟨((p1.trans pa).trans o2.toDPost).trans p3, (e2.mono p3.m).snoc ?_ (fun h => by cases h)⟩
      exact Nat.lt_of_lt_of_le hid1 o2.g.size

theorem d_set {h : Nat} {e : Ex} (hx : execStmt (f + 1) r c (.set h e) = .ok (r', c')) :
    DPost id r r' ∧ EnvK r' c'.env := by
  simp only [execStmt] at hx
  split at hx
  · cases hx
  · rename_i hd hl
    split at hx
    · cases hx
    · rename_i hk
      split at hx
      · cases hx
      · rename_i r1 h1
        split at hx
        · cases hx
        · rename_i r2 h2
          simp only [Except.ok.injEq, Prod.mk.injEq] at hx
          obtain ⟨rfl, rfl⟩ := hx
          have hkind : hd.kind = .signal := by simpa using hk
          obtain ⟨hlt, hsig⟩ := hE hd (lookup_ok hl).2
          obtain ⟨i1, _⟩ := hI.setSilent h1
          have p1 := (EStep.setSilent (id := id) h1).dpost hK hD
          have o2 := ih.updates P r1 _ r2 i1 p1.k p1.d (Nat.lt_of_lt_of_le hlt p1.m.size)
            (p1.m.sig hd.id hlt (hsig hkind)) h2
          have p := p1.trans o2.toDPost
          exact ⟨p, hE.mono p.m⟩

theorem d_setSilentStmt {h : Nat} {e : Ex} (hx : execStmt (f + 1) r c (.setSilent h e) = .ok (r', c')) :
    DPost id r r' ∧ EnvK r' c'.env := by
  simp only [execStmt] at hx
  split at hx
  · cases hx
  · split at hx
    · cases hx
    · split at hx
      · cases hx
      · rename_i r1 h1
        simp only [Except.ok.injEq, Prod.mk.injEq] at hx
        obtain ⟨rfl, rfl⟩ := hx
        have p1 := (EStep.setSilent (id := id) h1).dpost hK hD
        exact ⟨p1, hE.mono p1.m⟩

theorem d_cleanupStmt {b : Body} (hx : execStmt (f + 1) r c (.cleanup b) = .ok (r', c')) :
    DPost id r r' ∧ EnvK r' c'.env := by
  simp only [execStmt] at hx
  split at hx
  · simp only [Except.ok.injEq, Prod.mk.injEq] at hx
    obtain ⟨rfl, rfl⟩ := hx
    exact ⟨DPost.refl hK hD, hE⟩
  · rename_i cur _
    split at hx
    · cases hx
    · rename_i n hn
      simp only [Except.ok.injEq, Prod.mk.injEq] at hx
      obtain ⟨rfl, rfl⟩ := hx
      generalize hn' : ({ n with cleanups := n.cleanups ++ [⟨b, c.env, r.nextTag⟩] } : Node) = n'
      have hget : ∀ j, (r.setNode cur n').get? j = if j = cur then some n' else r.get? j := by
        intro j
        rw [Root.get?_setNode]
        by_cases hj : j = cur <;> simp [hj, Root.lt_size_of_get? hn]
      obtain ⟨s1, _, _, _, s5, _, _, s8⟩ := SameFrame.setNode r cur n'
      have hm : SigMono r (r.setNode cur n') := by
        refine ⟨by rw [s1]; exact Nat.le_refl _, ?_⟩
        intro j _ hs m' hm'
        rw [hget] at hm'
        split at hm'
        · rename_i hj; subst hj; cases hm'; subst hn'
          exact hs n hn
        · exact hs m' hm'
      have p1 : DPost id r (r.setNode cur n') := by
        refine ⟨hK.transfer hm ?_ (fun _ h => .inl (s5 ▸ h)), ⟨by rw [s1]; exact hD.lt, ?_⟩, hm,
          NoRunSince.of_eq s8⟩
        · rintro cl ⟨i, m', hi, hcl⟩
          rw [hget] at hi
          split at hi
          · rename_i hj; subst hj; cases hi; subst hn'
            rcases hcl with hcl | hcl
            · simp only [List.mem_append, List.mem_singleton] at hcl
              rcases hcl with hcl | rfl
              · exact .inl ⟨i, n, hn, .inl hcl⟩
              · exact .inr (hE.mono hm)
            · exact .inl ⟨i, n, hn, .inr hcl⟩
          · exact .inl ⟨i, m', hi, hcl⟩
        · intro j m' hj
          rw [hget] at hj
          split at hj
          · rename_i hjc; subst hjc; cases hj; subst hn'
            exact hD.free j n hn
          · exact hD.free j m' hj
      have p2 : DPost id (r.setNode cur n') { (r.setNode cur n') with nextTag := r.nextTag + 1 } :=
        DPost.same p1.k p1.d rfl rfl rfl
      exact ⟨p1.trans p2, hE.mono (p1.m.trans p2.m)⟩

theorem d_dispose {h : Nat} (hx : execStmt (f + 1) r c (.dispose h) = .ok (r', c')) :
    DPost id r r' ∧ EnvK r' c'.env := by
  simp only [execStmt] at hx
  split at hx
  · cases hx
  · split at hx
    · cases hx
    · rename_i r1 h1
      simp only [Except.ok.injEq, Prod.mk.injEq] at hx
      obtain ⟨rfl, rfl⟩ := hx
      have o1 := ih.dnode P r _ r1 hI hK hD h1
      exact ⟨o1.toDPost, hE.mono o1.m⟩

theorem d_disposeCur (hx : execStmt (f + 1) r c .disposeCur = .ok (r', c')) :
    DPost id r r' ∧ EnvK r' c'.env := by
  simp only [execStmt] at hx
  split at hx
  · simp only [Except.ok.injEq, Prod.mk.injEq] at hx
    obtain ⟨rfl, rfl⟩ := hx
    exact ⟨DPost.refl hK hD, hE⟩
  · split at hx
    · cases hx
    · rename_i r1 h1
      simp only [Except.ok.injEq, Prod.mk.injEq] at hx
      obtain ⟨rfl, rfl⟩ := hx
      have o1 := ih.dnode P r _ r1 hI hK hD h1
      exact ⟨o1.toDPost, hE.mono o1.m⟩

theorem d_batch {b : Body} (hx : execStmt (f + 1) r c (.batch b) = .ok (r', c')) :
    DPost id r r' ∧ EnvK r' c'.env := by
  simp only [execStmt] at hx
  split at hx
  · cases hx
  · rename_i r1 c1 h1
    obtain ⟨i0, _⟩ := hI.same (r' := { r with batching := true }) rfl rfl
    have p0 : DPost id r { r with batching := true } := DPost.same hK hD rfl rfl rfl
    obtain ⟨o1, e1⟩ := ih.inner P _ c b r1 c1 i0 p0.k p0.d (hE.mono p0.m) h1
    split at hx
    · simp only [Except.ok.injEq, Prod.mk.injEq] at hx
      obtain ⟨rfl, rfl⟩ := hx
      exact ⟨p0.trans o1.toDPost, e1⟩
    · split at hx
      · cases hx
      · rename_i r2 h2
        simp only [Except.ok.injEq, Prod.mk.injEq] at hx
        obtain ⟨rfl, rfl⟩ := hx
        obtain ⟨i1', _⟩ := o1.i.same (r' := { r1 with batching := false, queue := [] }) rfl rfl
        have p1' : DPost id r1 { r1 with batching := false, queue := [] } :=
          DPost.of_nodes_eq o1.k o1.d rfl (fun _ h => by cases h) (NoRunSince.of_eq rfl)
        have o2 := ih.nodeUpdates P _ r1.queue r2 i1' p1'.k p1'.d
          (fun h => p1'.m.sig id o1.d.lt (o1.k.queue id h).2) h2
        exact ⟨((p0.trans o1.toDPost).trans p1').trans o2.toDPost, e1.mono (p1'.m.trans o2.m)⟩

theorem d_provide {ty : Nat} {e : Ex} (hx : execStmt (f + 1) r c (.provide ty e) = .ok (r', c')) :
    DPost id r r' ∧ EnvK r' c'.env := by
  simp only [execStmt] at hx
  split at hx
  · cases hx
  · rename_i r1 h1
    simp only [Except.ok.injEq, Prod.mk.injEq] at hx
    obtain ⟨rfl, rfl⟩ := hx
    have p1 := (EStep.provideContext (id := id) h1).dpost hK hD
    exact ⟨p1, hE.mono p1.m⟩

theorem d_use {ty : Nat} (hx : execStmt (f + 1) r c (.use ty) = .ok (r', c')) :
    DPost id r r' ∧ EnvK r' c'.env := by
  simp only [execStmt] at hx
  split at hx
  · cases hx
  · simp only [Except.ok.injEq, Prod.mk.injEq] at hx
    obtain ⟨rfl, rfl⟩ := hx
    exact ⟨DPost.refl hK hD, hE⟩

theorem d_runIn {h : Nat} {b : Body} (hx : execStmt (f + 1) r c (.runIn h b) = .ok (r', c')) :
    DPost id r r' ∧ EnvK r' c'.env := by
  simp only [execStmt] at hx
  split at hx
  · cases hx
  · rename_i hd hl
    split at hx
    · cases hx
    · rename_i r1 c1 h1
      simp only [Except.ok.injEq, Prod.mk.injEq] at hx
      obtain ⟨rfl, rfl⟩ := hx
      have ia : RInvP P { r with current := some hd.id } :=
        hI.congr rfl (by intro x hc; simp only [Option.some.injEq] at hc; subst hc; exact (hE hd (lookup_ok hl).2).1)
      have pa : DPost id r { r with current := some hd.id } := DPost.same hK hD rfl rfl rfl
      obtain ⟨o1, e1⟩ := ih.inner P _ c b r1 c1 ia pa.k pa.d (hE.mono pa.m) h1
      have p2 : DPost id r1 { r1 with current := r.current } := DPost.same o1.k o1.d rfl rfl rfl
      exact ⟨(pa.trans o1.toDPost).trans p2, e1.mono p2.m⟩

end stmts

theorem d_stmt {id : Id} {f : Nat} (ih : DAll id f) (P : Id → Prop) (r : Root) (c : Ctx) (s : Stmt)
    (r' : Root) (c' : Ctx) (hI : RInvP P r) (hK : KInv r) (hD : Det r id) (hE : EnvK r c.env)
    (hx : execStmt (f + 1) r c s = .ok (r', c')) : DPost id r r' ∧ EnvK r' c'.env := by
  cases s with
  | read h => exact d_read ih hI hK hD hE hx
  | readU h => exact d_readU ih hI hK hD hE hx
  | track h => exact d_track ih hI hK hD hE hx
  | ifpos h t e => exact d_ifpos ih hI hK hD hE hx
  | untrack b => exact d_untrack ih hI hK hD hE hx
  | component b => exact d_component ih hI hK hD hE hx
  | on deps b => exact d_on ih hI hK hD hE hx
  | signal v => exact d_signal ih hI hK hD hE hx
  | memo b => exact d_memo ih hI hK hD hE hx
  | selector eq b => exact d_selectorStmt ih hI hK hD hE hx
  | effect b => exact d_effect ih hI hK hD hE hx
  | scope b => exact d_scope ih hI hK hD hE hx
  | set h e => exact d_set ih hI hK hD hE hx
  | setSilent h e => exact d_setSilentStmt ih hI hK hD hE hx
  | cleanup b => exact d_cleanupStmt ih hI hK hD hE hx
  | dispose h => exact d_dispose ih hI hK hD hE hx
  | disposeCur => exact d_disposeCur ih hI hK hD hE hx
  | batch b => exact d_batch ih hI hK hD hE hx
  | provide ty e => exact d_provide ih hI hK hD hE hx
  | use ty => exact d_use ih hI hK hD hE hx
  | runIn h b => exact d_runIn ih hI hK hD hE hx

/-! ### A.8 the induction -/

theorem dAll (id : Id) : ∀ f, DAll id f
  | 0 => dAll_zero id
  | f + 1 =>
    have ih := dAll id f
    have pa := presAll (f + 1)
    { body := fun P r c b r' c' hI hK hD hE hx =>
        have h := d_body ih P r c b r' c' hI hK hD hE hx
        have q := pa.body P r c b r' c' hI hE.envLt hx
        ⟨Out.of ⟨q.1, q.2.1⟩ h.1, h.2⟩
      inner := fun P r c b r' c' hI hK hD hE hx =>
        have h := d_inner ih P r c b r' c' hI hK hD hE hx
        have q := pa.inner P r c b r' c' hI hE.envLt hx
        ⟨Out.of ⟨q.1, q.2.1⟩ h.1, h.2⟩
      stmt := fun P r c s r' c' hI hK hD hE hx =>
        have h := d_stmt ih P r c s r' c' hI hK hD hE hx
        have q := pa.stmt P r c s r' c' hI hE.envLt hx
        ⟨Out.of ⟨q.1, q.2.1⟩ h.1, h.2⟩
      closure := fun P r cl r' v obs hI hK hD hE hx =>
        Out.of (pa.closure P r cl r' v obs hI hE.envLt hx) (d_closure ih P r cl r' v obs hI hK hD hE hx)
      selector := fun P r eq cl r' nid hI hK hD hE hx =>
        Out.of (pa.selector P r eq cl r' nid hI hE.envLt hx).1 (d_selector ih P r eq cl r' nid hI hK hD hE hx)
      update := fun P r cur r' hI hK hD hne hx =>
        Out.of (pa.update P r cur r' hI hx) (d_update ih P r cur r' hI hK hD hne hx)
      loop := fun P r l r' hI hK hD hl hx =>
        Out.of (pa.loop P r l r' hI hx) (d_loop ih P r l r' hI hK hD hl hx)
      nodeUpdates := fun P r l r' hI hK hD hl hx =>
        Out.of (pa.nodeUpdates P r l r' hI hx) (d_nodeUpdates ih P r l r' hI hK hD hl hx)
      updates := fun P r s r' hI hK hD hlt hs hx =>
        Out.of (pa.updates P r s r' hI hx) (d_updates ih P r s r' hI hK hD hlt hs hx)
      dnode := fun P r x r' hI hK hD hx =>
        Out.of (pa.dnode P r x r' hI hx).1 (d_dnode ih P r x r' hI hK hD hx)
      dchildren := fun P r x r' hI hK hD hx =>
        Out.of (pa.dchildren P r x r' hI hx) (d_dchildren ih P r x r' hI hK hD hx)
      rest := fun P r x r' hI hK hD hx =>
        Out.of (pa.rest P r x r' hI hx) (d_rest ih P r x r' hI hK hD hx)
      cleanups := fun P r cls r' hI hK hD hE hx =>
        Out.of (pa.cleanups P r cls r' hI (fun cl hc => (hE cl hc).envLt) hx)
          (d_cleanups ih P r cls r' hI hK hD hE hx)
      dlist := fun P r cs r' hI hK hD hx =>
        Out.of (pa.dlist P r cs r' hI hx).1 (d_dlist ih P r cs r' hI hK hD hx) }

/-! ### A.9 the initial state, top-level programs -/

theorem kinv_init : KInv Root.init := by
  refine ⟨?_, ?_⟩
  · rintro cl ⟨i, n, hn, hc⟩
    obtain ⟨_, rfl⟩ := init_get? hn
    simp [freshNode] at hc
  · intro q hq; simp [Root.init] at hq

theorem det_init : Det Root.init 0 := by
  refine ⟨by simp [Root.init], ?_⟩
  intro j n hn
  obtain ⟨_, rfl⟩ := init_get? hn
  simp [freshNode]

/-- a sequence of top-level operations keeps the kind discipline (and a detached slot detached: the
functions of the mutual block are specified relative to some detached slot; in a state reachable from
`Root.init` the root scope, slot `0`, is one) -/
theorem runOps_kinv (id : Id) (fuel : Nat) : ∀ (ops : List Stmt) (r : Root) (env : List Handle) (r' : Root)
    (env' : List Handle), RInv r → KInv r → Det r id → EnvK r env → runOps fuel ops r env = .ok (r', env') →
    RInv r' ∧ KInv r' ∧ Det r' id ∧ EnvK r' env'
  | [], r, env, r', env', hI, hK, hD, hE, hx => by
    simp only [runOps, Except.ok.injEq, Prod.mk.injEq] at hx
    obtain ⟨rfl, rfl⟩ := hx
    exact ⟨hI, hK, hD, hE⟩
  | s :: rest, r, env, r', env', hI, hK, hD, hE, hx => by
    simp only [runOps] at hx
    split at hx
    · cases hx
    · rename_i r1 c1 h1
      obtain ⟨o1, e1⟩ := (dAll id fuel).stmt _ r ⟨env, 0, []⟩ s r1 c1 hI hK hD hE h1
      exact runOps_kinv id fuel rest r1 c1.env r' env' o1.i o1.k o1.d e1 hx

/-! ### A.10 the trace only grows (no hypothesis on the state), and `runCleanups` logs every cleanup -/

/-- the trace of `r'` extends that of `r` -/
def TExt (r r' : Root) : Prop := ∃ evs, r'.trace = r.trace ++ evs

theorem TExt.refl (r : Root) : TExt r r := ⟨[], by simp⟩

theorem TExt.of_eq {r r' : Root} (h : r'.trace = r.trace) : TExt r r' := ⟨[], by simp [h]⟩

theorem TExt.trans {a b c : Root} (h1 : TExt a b) (h2 : TExt b c) : TExt a c := by
  obtain ⟨e1, t1⟩ := h1
  obtain ⟨e2, t2⟩ := h2
  exact ⟨e1 ++ e2, by rw [t2, t1, List.append_assoc]⟩

theorem track_trace (r : Root) (x : Id) : (track r x).trace = r.trace := by
  unfold track; split <;> rfl

theorem unlink_trace (cur : Id) : ∀ (l : List Id) (r r' : Root), unlink cur r l = .ok r' → r'.trace = r.trace
  | [], r, r', h => by simp only [unlink, Except.ok.injEq] at h; subst h; rfl
  | d :: ds, r, r', h => by
    simp only [unlink] at h
    split at h
    · cases h
    · rw [unlink_trace cur ds _ r' h]; exact (SameFrame.setNode ..).2.2.2.2.2.2.2

theorem removeNode_trace (r : Root) (x : Id) : (removeNode r x).trace = r.trace := by
  unfold removeNode
  split
  · rfl
  · exact ((SameFrame.remove r x).trans ((SameFrame.foldl_modify ..).trans (SameFrame.foldl_modify ..))).2.2.2.2.2.2.2

theorem visitStarts_trace (ss : List Id) {r r' : Root} {buf buf' : List Id}
    (hx : visitStarts r buf ss = .ok (r', buf')) : r'.trace = r.trace :=
  (EStep.visitStarts (id := 0) ss hx).trace

theorem provideContext_trace {r r' : Root} {ty : Nat} {v : Int} (hx : provideContext r ty v = .ok r') :
    r'.trace = r.trace := (EStep.provideContext (id := 0) hx).trace

structure TAll (f : Nat) : Prop where
  body : ∀ r c b r' c', execBody f r c b = .ok (r', c') → TExt r r'
  inner : ∀ r c b r' c', execInner f r c b = .ok (r', c') → TExt r r'
  stmt : ∀ r c s r' c', execStmt f r c s = .ok (r', c') → TExt r r'
  closure : ∀ r cl r' v obs, runClosure f r cl = .ok (r', v, obs) → TExt r r'
  selector : ∀ r eq cl r' nid, createSelector f r eq cl = .ok (r', nid) → TExt r r'
  update : ∀ r cur r', runNodeUpdate f r cur = .ok r' → TExt r r'
  loop : ∀ r l r', propagateLoop f r l = .ok r' → TExt r r'
  nodeUpdates : ∀ r l r', propagateNodeUpdates f r l = .ok r' → TExt r r'
  updates : ∀ r s r', propagateUpdates f r s = .ok r' → TExt r r'
  dnode : ∀ r x r', disposeNode f r x = .ok r' → TExt r r'
  dchildren : ∀ r x r', disposeChildren f r x = .ok r' → TExt r r'
  rest : ∀ r x r', disposeRest f r x = .ok r' → TExt r r'
  cleanups : ∀ r cls r', runCleanups f r cls = .ok r' → ∃ evs, r'.trace = r.trace ++ evs ∧
    (cls.map fun cl => some cl.tag).Sublist (evs.map Event.cleanupTag)
  dlist : ∀ r cs r', disposeList f r cs = .ok r' → TExt r r'

theorem tAll_zero : TAll 0 := by
  constructor <;> intros <;> simp_all [execBody, execInner, execStmt, runClosure, createSelector,
    runNodeUpdate, propagateLoop, propagateNodeUpdates, propagateUpdates, disposeNode, disposeChildren,
    disposeRest, runCleanups, disposeList]

theorem t_stmt {f : Nat} (ih : TAll f) (r : Root) (c : Ctx) (s : Stmt) (r' : Root) (c' : Ctx)
    (hx : execStmt (f + 1) r c s = .ok (r', c')) : TExt r r' := by
  have untracked : ∀ {r r' : Root} {c c' : Ctx} {b : Body} {prev : Option (List Id)},
      (match execInner f { r with tracker := none } c b with
        | .error e => .error e
        | .ok (r, c) => .ok ({ r with tracker := prev }, c)) = (.ok (r', c') : Except Panic (Root × Ctx)) →
      TExt r r' := by
    intro r r' c c' b prev hx
    split at hx
    · cases hx
    · rename_i r1 c1 h1
      simp only [Except.ok.injEq, Prod.mk.injEq] at hx
      obtain ⟨rfl, rfl⟩ := hx
      have t := ih.inner _ c b r1 c1 h1
      exact t
  have created : ∀ {eq : EqKind} {b : Body} {kd : Kind},
      (match createSelector f r eq ⟨b, c.env, 0⟩ with
        | .error e => .error e
        | .ok (r, id) => .ok (r, { c with env := c.env ++ [⟨id, kd⟩] })) = (.ok (r', c') : Except Panic (Root × Ctx)) →
      TExt r r' := by
    intro eq b kd hx
    split at hx
    · cases hx
    · rename_i r1 nid h1
      simp only [Except.ok.injEq, Prod.mk.injEq] at hx
      obtain ⟨rfl, rfl⟩ := hx
      exact ih.selector r eq _ r1 nid h1
  cases s with
  | read h =>
    simp only [execStmt] at hx
    split at hx
    · cases hx
    · split at hx
      · cases hx
      · split at hx
        · cases hx
        · simp only [Except.ok.injEq, Prod.mk.injEq] at hx
          obtain ⟨rfl, rfl⟩ := hx
          exact TExt.of_eq (track_trace ..)
  | readU h =>
    simp only [execStmt] at hx
    split at hx
    · cases hx
    · split at hx
      · cases hx
      · split at hx
        · cases hx
        · simp only [Except.ok.injEq, Prod.mk.injEq] at hx
          obtain ⟨rfl, rfl⟩ := hx
          exact TExt.refl _
  | track h =>
    simp only [execStmt] at hx
    split at hx
    · cases hx
    · split at hx
      · cases hx
      · simp only [Except.ok.injEq, Prod.mk.injEq] at hx
        obtain ⟨rfl, rfl⟩ := hx
        exact TExt.of_eq (track_trace ..)
  | ifpos h t e =>
    simp only [execStmt] at hx
    split at hx
    · cases hx
    · rename_i hd _
      split at hx
      · cases hx
      · split at hx
        · cases hx
        · split at hx
          · exact (TExt.of_eq (track_trace r hd.id)).trans (ih.inner _ _ t r' c' hx)
          · exact (TExt.of_eq (track_trace r hd.id)).trans (ih.inner _ _ e r' c' hx)
  | untrack b => simp only [execStmt] at hx; exact untracked hx
  | component b => simp only [execStmt] at hx; exact untracked hx
  | on deps b =>
    simp only [execStmt] at hx
    split at hx
    · cases hx
    · rename_i r1 h1
      exact (TExt.of_eq (trackAll_trace c deps h1)).trans (untracked hx)
  | signal v =>
    simp only [execStmt] at hx
    split at hx
    · cases hx
    · rename_i r1 nid h1
      simp only [Except.ok.injEq, Prod.mk.injEq] at hx
      obtain ⟨rfl, rfl⟩ := hx
      exact TExt.of_eq (createNode_get? h1).2.2.2.2.2.2.2.2.2
  | memo b => simp only [execStmt] at hx; exact created hx
  | selector eq b => simp only [execStmt] at hx; exact created hx
  | effect b => simp only [execStmt] at hx; exact created hx
  | scope b =>
    simp only [execStmt] at hx
    split at hx
    · cases hx
    · rename_i r1 nid h1
      split at hx
      · cases hx
      · rename_i r2 c2 h2
        simp only [Except.ok.injEq, Prod.mk.injEq] at hx
        obtain ⟨rfl, rfl⟩ := hx
        have t := ih.inner _ c b r2 c2 h2
        exact (TExt.of_eq (createNode_get? h1).2.2.2.2.2.2.2.2.2).trans t
  | set h e =>
    simp only [execStmt] at hx
    split at hx
    · cases hx
    · split at hx
      · cases hx
      · split at hx
        · cases hx
        · rename_i r1 h1
          split at hx
          · cases hx
          · rename_i r2 h2
            simp only [Except.ok.injEq, Prod.mk.injEq] at hx
            obtain ⟨rfl, rfl⟩ := hx
            exact (TExt.of_eq (EStep.setSilent (id := 0) h1).trace).trans (ih.updates r1 _ r2 h2)
  | setSilent h e =>
    simp only [execStmt] at hx
    split at hx
    · cases hx
    · split at hx
      · cases hx
      · split at hx
        · cases hx
        · rename_i r1 h1
          simp only [Except.ok.injEq, Prod.mk.injEq] at hx
          obtain ⟨rfl, rfl⟩ := hx
          exact TExt.of_eq (EStep.setSilent (id := 0) h1).trace
  | cleanup b =>
    simp only [execStmt] at hx
    split at hx
    · simp only [Except.ok.injEq, Prod.mk.injEq] at hx
      obtain ⟨rfl, rfl⟩ := hx
      exact TExt.refl _
    · split at hx
      · cases hx
      · simp only [Except.ok.injEq, Prod.mk.injEq] at hx
        obtain ⟨rfl, rfl⟩ := hx
        exact TExt.of_eq (SameFrame.setNode ..).2.2.2.2.2.2.2
  | dispose h =>
    simp only [execStmt] at hx
    split at hx
    · cases hx
    · split at hx
      · cases hx
      · rename_i r1 h1
        simp only [Except.ok.injEq, Prod.mk.injEq] at hx
        obtain ⟨rfl, rfl⟩ := hx
        exact ih.dnode r _ r1 h1
  | disposeCur =>
    simp only [execStmt] at hx
    split at hx
    · simp only [Except.ok.injEq, Prod.mk.injEq] at hx
      obtain ⟨rfl, rfl⟩ := hx
      exact TExt.refl _
    · split at hx
      · cases hx
      · rename_i r1 h1
        simp only [Except.ok.injEq, Prod.mk.injEq] at hx
        obtain ⟨rfl, rfl⟩ := hx
        exact ih.dnode r _ r1 h1
  | batch b =>
    simp only [execStmt] at hx
    split at hx
    · cases hx
    · rename_i r1 c1 h1
      have t1' := ih.inner _ c b r1 c1 h1
      have t1 : TExt r r1 := t1'
      split at hx
      · simp only [Except.ok.injEq, Prod.mk.injEq] at hx
        obtain ⟨rfl, rfl⟩ := hx
        exact t1
      · split at hx
        · cases hx
        · rename_i r2 h2
          simp only [Except.ok.injEq, Prod.mk.injEq] at hx
          obtain ⟨rfl, rfl⟩ := hx
          have t2 := ih.nodeUpdates _ r1.queue r2 h2
          exact t1.trans t2
  | provide ty e =>
    simp only [execStmt] at hx
    split at hx
    · cases hx
    · rename_i r1 h1
      simp only [Except.ok.injEq, Prod.mk.injEq] at hx
      obtain ⟨rfl, rfl⟩ := hx
      exact TExt.of_eq (provideContext_trace h1)
  | use ty =>
    simp only [execStmt] at hx
    split at hx
    · cases hx
    · simp only [Except.ok.injEq, Prod.mk.injEq] at hx
      obtain ⟨rfl, rfl⟩ := hx
      exact TExt.refl _
  | runIn h b =>
    simp only [execStmt] at hx
    split at hx
    · cases hx
    · split at hx
      · cases hx
      · rename_i r1 c1 h1
        simp only [Except.ok.injEq, Prod.mk.injEq] at hx
        obtain ⟨rfl, rfl⟩ := hx
        have t := ih.inner _ c b r1 c1 h1
        exact t

theorem t_cleanups {f : Nat} (ih : TAll f) (r : Root) (cls : List Closure) (r' : Root)
    (hx : runCleanups (f + 1) r cls = .ok r') : ∃ evs, r'.trace = r.trace ++ evs ∧
    (cls.map fun cl => some cl.tag).Sublist (evs.map Event.cleanupTag) := by
  cases cls with
  | nil =>
    simp only [runCleanups, Except.ok.injEq] at hx
    subst hx; exact ⟨[], by simp, by simp⟩
  | cons cl cls =>
    simp only [runCleanups] at hx
    split at hx
    · cases hx
    · rename_i r1 v obs h1
      obtain ⟨e1, t1⟩ := ih.closure r cl r1 v obs h1
      obtain ⟨e2, t2, s2⟩ := ih.cleanups _ cls r' hx
      refine ⟨e1 ++ [.cleanup cl.tag obs] ++ e2, by rw [t2]; simp [t1], ?_⟩
      simp only [List.map_cons, List.map_append, Event.cleanupTag, List.append_assoc, List.cons_append,
        List.nil_append]
      exact List.Sublist.trans (List.Sublist.cons_cons _ s2) (List.sublist_append_right _ _)

theorem t_update {f : Nat} (ih : TAll f) (r : Root) (cur : Id) (r' : Root)
    (hx : runNodeUpdate (f + 1) r cur = .ok r') : TExt r r' := by
  simp only [runNodeUpdate] at hx
  split at hx
  · cases hx
  · rename_i n hn
    split at hx
    · cases hx
    · rename_i r2 h2
      have t2 : TExt r r2 := TExt.of_eq ((unlink_trace cur _ _ r2 h2).trans (SameFrame.setNode ..).2.2.2.2.2.2.2)
      split at hx
      · cases hx
      · rename_i n2 hn2
        split at hx
        · cases hx
        · cases hx
        · rename_i eq cl old hcb hval
          split at hx
          · cases hx
          · rename_i r4 h4
            have t4 : TExt r2 r4 :=
              (TExt.of_eq (SameFrame.setNode ..).2.2.2.2.2.2.2).trans (ih.dchildren _ cur r4 h4)
            -- repair D22: a cleanup disposed the node itself, the update stops here
            split at hx
            · simp only [Except.ok.injEq] at hx
              subst hx; exact t2.trans t4
            split at hx
            · cases hx
            · rename_i r5 new obs h5
              have t5' := ih.closure _ cl r5 new obs h5
              have t5 : TExt r4 r5 := t5'
              generalize hr6 : ({ r5 with tracker := r4.tracker, current := r4.current, trace := r5.trace ++ [Event.run cur obs new] } : Root) = r6 at hx
              have t6 : TExt r5 r6 := by subst hr6; exact ⟨[Event.run cur obs new], rfl⟩
              have t06 : TExt r r6 := ((t2.trans t4).trans t5).trans t6
              have t7 : TExt r6 (createDependencyLink r6 (r5.tracker.getD []) cur) :=
                TExt.of_eq (createDependencyLink_sameFrame ..).2.2.2.2.2.2.2
              split at hx
              · simp only [Except.ok.injEq] at hx
                subst hx; exact t06.trans t7
              · simp only [Except.ok.injEq] at hx
                split at hx
                · subst hx
                  exact (t06.trans t7).trans ((TExt.of_eq (SameFrame.setNode ..).2.2.2.2.2.2.2).trans
                    (TExt.of_eq (markDependentsDirty_frame ..).2.2.2.2.2.2.2.2.2.2))
                · subst hx
                  exact (t06.trans t7).trans (TExt.of_eq (SameFrame.setNode ..).2.2.2.2.2.2.2)

theorem t_selector {f : Nat} (ih : TAll f) (r : Root) (eq : EqKind) (cl : Closure) (r' : Root) (nid : Id)
    (hx : createSelector (f + 1) r eq cl = .ok (r', nid)) : TExt r r' := by
  simp only [createSelector] at hx
  split at hx
  · cases hx
  · rename_i r1 id1 h1
    have t1 : TExt r r1 := TExt.of_eq (createNode_get? h1).2.2.2.2.2.2.2.2.2
    split at hx
    · cases hx
    · rename_i r2 v obs h2
      have t2' := ih.closure _ cl r2 v obs h2
      have t2 : TExt r1 r2 := t2'
      generalize hr3 : ({ r2 with tracker := r1.tracker, current := r1.current, trace := r2.trace ++ [Event.run id1 obs v] } : Root) = r3 at hx
      have t3 : TExt r2 r3 := by subst hr3; exact ⟨[Event.run id1 obs v], rfl⟩
      have t4 : TExt r3 (createDependencyLink r3 (r2.tracker.getD []) id1) :=
        TExt.of_eq (createDependencyLink_sameFrame ..).2.2.2.2.2.2.2
      split at hx
      · simp only [Except.ok.injEq, Prod.mk.injEq] at hx
        obtain ⟨rfl, rfl⟩ := hx
        exact ((t1.trans t2).trans t3).trans t4
      · simp only [Except.ok.injEq, Prod.mk.injEq] at hx
        obtain ⟨rfl, rfl⟩ := hx
        exact (((t1.trans t2).trans t3).trans t4).trans (TExt.of_eq (SameFrame.setNode ..).2.2.2.2.2.2.2)

theorem tAll : ∀ f, TAll f
  | 0 => tAll_zero
  | f + 1 => by
    have ih := tAll f
    refine ⟨?_, ?_, t_stmt ih, ?_, t_selector ih, t_update ih, ?_, ?_, ?_, ?_, ?_, ?_, t_cleanups ih, ?_⟩
    · -- body
      intro r c b r' c' hx
      cases b with
      | nil =>
        simp only [execBody, Except.ok.injEq, Prod.mk.injEq] at hx
        obtain ⟨rfl, rfl⟩ := hx; exact TExt.refl _
      | cons s rest =>
        simp only [execBody] at hx
        split at hx
        · cases hx
        · rename_i r1 c1 h1
          exact (ih.stmt r c s r1 c1 h1).trans (ih.body r1 c1 rest r' c' hx)
    · -- inner
      intro r c b r' c' hx
      simp only [execInner] at hx
      split at hx
      · cases hx
      · rename_i r1 c1 h1
        simp only [Except.ok.injEq, Prod.mk.injEq] at hx
        obtain ⟨rfl, rfl⟩ := hx
        exact ih.body r c b r1 c1 h1
    · -- closure
      intro r cl r' v obs hx
      simp only [runClosure] at hx
      split at hx
      · cases hx
      · rename_i r1 c1 h1
        simp only [Except.ok.injEq, Prod.mk.injEq] at hx
        obtain ⟨rfl, _, _⟩ := hx
        exact ih.body r _ cl.body r1 c1 h1
    · -- loop
      intro r l r' hx
      cases l with
      | nil =>
        simp only [propagateLoop, Except.ok.injEq] at hx
        subst hx; exact TExt.refl _
      | cons node rest =>
        simp only [propagateLoop] at hx
        split at hx
        · exact ih.loop r rest r' hx
        · have t1 := TExt.of_eq (SameFrame.setNode r node { ‹Node› with mark := .none }).2.2.2.2.2.2.2
          split at hx
          · split at hx
            · cases hx
            · rename_i r2 h2
              exact (t1.trans (ih.update _ node r2 h2)).trans (ih.loop r2 rest r' hx)
          · exact t1.trans (ih.loop _ rest r' hx)
    · -- nodeUpdates
      intro r l r' hx
      simp only [propagateNodeUpdates] at hx
      split at hx
      · cases hx
      · rename_i r1 buf h1
        exact ((TExt.of_eq (visitStarts_trace l h1)).trans
          (TExt.of_eq (resetMarks_spec l r1).1.trace)).trans (ih.loop _ buf.reverse r' hx)
    · -- updates
      intro r s r' hx
      simp only [propagateUpdates] at hx
      split at hx
      · simp only [Except.ok.injEq] at hx
        subst hx; exact TExt.refl _
      · exact ih.nodeUpdates r [s] r' hx
    · -- dnode
      intro r x r' hx
      simp only [disposeNode] at hx
      split at hx
      · cases hx
      · rename_i r1 h1
        split at hx
        · cases hx
        · rename_i r1' h1'
          simp only [Except.ok.injEq] at hx
          subst hx
          exact (((TExt.of_eq (unsubscribe_sameFrame r x).2.2.2.2.2.2.2).trans (ih.dchildren _ x r1 h1)).trans
            (ih.rest r1 x r1' h1')).trans (TExt.of_eq (removeNode_trace r1' x))
    · -- dchildren
      intro r x r' hx
      simp only [disposeChildren] at hx
      split at hx
      · simp only [Except.ok.injEq] at hx
        subst hx; exact TExt.refl _
      · rename_i n hn
        split at hx
        · cases hx
        · rename_i r2 h2
          split at hx
          · cases hx
          · rename_i r3 h3
            simp only [Except.ok.injEq] at hx
            subst hx
            obtain ⟨e2, t2, _⟩ := ih.cleanups _ n.cleanups r2 h2
            have t2' : TExt r r2 := (TExt.of_eq (SameFrame.setNode r x _).2.2.2.2.2.2.2).trans ⟨e2, t2⟩
            have t3' := ih.dlist _ n.children r3 h3
            have t3 : TExt r2 r3 := t3'
            exact (t2'.trans t3).trans
              (TExt.of_eq (SameFrame.modify ..).2.2.2.2.2.2.2)
    · -- rest
      intro r x r' hx
      simp only [disposeRest] at hx
      split at hx
      · simp only [Except.ok.injEq] at hx
        subst hx; exact TExt.refl _
      · split at hx
        · simp only [Except.ok.injEq] at hx
          subst hx; exact TExt.refl _
        · split at hx
          · cases hx
          · rename_i r1 h1
            exact (ih.dchildren r x r1 h1).trans (ih.rest r1 x r' hx)
    · -- dlist
      intro r cs r' hx
      cases cs with
      | nil =>
        simp only [disposeList, Except.ok.injEq] at hx
        subst hx; exact TExt.refl _
      | cons c cs =>
        simp only [disposeList] at hx
        split at hx
        · cases hx
        · rename_i r1 h1
          exact (ih.dnode r c r1 h1).trans (ih.dlist r1 cs r' hx)


/-! ### A.11 `disposeNode` -/

/-- **D19**: in a state that satisfies the bookkeeping invariant and the kind discipline, a successful
`disposeNode … id` adds no run of `id` to the trace — whatever the cleanups do -/
theorem dispose_noRunSince {P : Id → Prop} {fuel : Nat} {r r' : Root} {id : Id} (hI : RInvP P r)
    (hK : KInv r) (hx : disposeNode fuel r id = .ok r') : NoRunSince id r r' := by
  cases fuel with
  | zero => simp [disposeNode] at hx
  | succ f =>
    simp only [disposeNode] at hx
    split at hx
    · cases hx
    · rename_i r1 h1
      split at hx
      · cases hx
      rename_i r1' h1'
      simp only [Except.ok.injEq] at hx
      subst hx
      by_cases hlt : id < r.nodes.size
      · obtain ⟨i0, _⟩ := hI.unsubscribe id
        have e0 := EStep.unsubscribe (id := id) hI.nd hI.sym id
        have hD0 : Det (unsubscribe r id) id :=
          ⟨by rw [e0.size]; exact hlt, (unsubscribe_spec hI.nd hI.sym id).2.1⟩
        have o1 := (dAll id f).dchildren P _ id r1 i0 (e0.kinv hK) hD0 h1
        have o1' := (dAll id f).rest P r1 id r1' o1.i o1.k o1.d h1'
        have p2 := (EStep.removeNode (id := id) o1'.i.nd o1'.i.sym id).dpost o1'.k o1'.d
        exact (((NoRunSince.of_eq e0.trace).trans o1.t).trans o1'.t).trans p2.t
      · have hdead : r.get? id = none := Root.get?_eq_none_of_size_le (Nat.le_of_not_gt hlt)
        rw [unsubscribe_dead hdead] at h1
        cases f with
        | zero => simp [disposeChildren] at h1
        | succ f =>
          simp only [disposeChildren, hdead, Except.ok.injEq] at h1
          subst h1
          rw [disposeRest_dead hdead] at h1'
          cases h1'
          rw [removeNode_dead hdead]
          exact NoRunSince.refl _ _

/-- a successful `disposeNode … id` logs one cleanup event for every cleanup registered on `id`, in
registration order (no hypothesis on the state or on the cleanups) -/
theorem dispose_logs_cleanups {fuel : Nat} {r r' : Root} {id : Id} {n : Node} (hn : r.get? id = some n)
    (hx : disposeNode fuel r id = .ok r') : ∃ evs, r'.trace = r.trace ++ evs ∧
    (n.cleanups.map fun cl => some cl.tag).Sublist (evs.map Event.cleanupTag) := by
  cases fuel with
  | zero => simp [disposeNode] at hx
  | succ f =>
    simp only [disposeNode] at hx
    split at hx
    · cases hx
    · rename_i r1 h1
      split at hx
      · cases hx
      rename_i r1' h1'
      simp only [Except.ok.injEq] at hx
      subst hx
      obtain ⟨e4, t4⟩ : TExt r1 r1' := (tAll f).rest r1 id r1' h1'
      obtain ⟨g, hg, hfields⟩ := unsubscribe_get?_fields r id id
      rw [hn] at hg
      have hcl : (g n).cleanups = n.cleanups := (hfields n).2.2.2.2.1
      have htr0 : (unsubscribe r id).trace = r.trace := (unsubscribe_sameFrame r id).2.2.2.2.2.2.2
      cases f with
      | zero => simp [disposeChildren] at h1
      | succ f =>
        simp only [disposeChildren, hg, Option.map_some] at h1
        split at h1
        · cases h1
        · rename_i r2 h2
          split at h1
          · cases h1
          · rename_i r3 h3
            simp only [Except.ok.injEq] at h1
            subst h1
            obtain ⟨e2, t2, s2⟩ := (tAll f).cleanups _ (g n).cleanups r2 h2
            have t3' := (tAll f).dlist _ (g n).children r3 h3
            obtain ⟨e3, t3⟩ : TExt r2 r3 := t3'
            refine ⟨e2 ++ e3 ++ e4, ?_, ?_⟩
            · rw [removeNode_trace, t4, (SameFrame.modify ..).2.2.2.2.2.2.2, t3, t2]
              have : (Root.setNode (unsubscribe r id) id { g n with cleanups := [], children := [] }).trace
                  = r.trace := (SameFrame.setNode ..).2.2.2.2.2.2.2.trans htr0
              simp only [List.append_assoc]
              rw [← this]
            · rw [← hcl, List.map_append, List.map_append, List.append_assoc]
              exact s2.trans (List.sublist_append_left _ _)

/-! ### A.12 cleanup tags: every registered cleanup runs EXACTLY once

Closures are identified in the trace by their tag (`nextTag` at registration).  `TagInv`: the tags of
the stored cleanups are pairwise distinct and `< nextTag`.  `Gone t r`: no stored cleanup has tag `t`,
and `t` will not be handed out again.  Every function of the mutual block keeps `TagInv`, keeps
`Gone t`, and — while `Gone t` holds — logs no cleanup event with tag `t` (`runCleanups cls` logs as
many as there are closures with tag `t` in `cls`).  No hypothesis on the state is needed. -/

def CleanupAt (r : Root) (i : Id) (cl : Closure) : Prop := ∃ n, r.get? i = some n ∧ cl ∈ n.cleanups

structure TagInv (r : Root) : Prop where
  lt : ∀ i cl, CleanupAt r i cl → cl.tag < r.nextTag
  nodup : ∀ i n, r.get? i = some n → (n.cleanups.map (·.tag)).Nodup
  disj : ∀ i j a b, i ≠ j → CleanupAt r i a → CleanupAt r j b → a.tag ≠ b.tag

def Gone (t : Nat) (r : Root) : Prop := t < r.nextTag ∧ ∀ i cl, CleanupAt r i cl → cl.tag ≠ t

/-- number of cleanup events with tag `t` -/
def tagCount (t : Nat) (evs : List Event) : Nat := (evs.map Event.cleanupTag).count (some t)

/-- number of closures with tag `t` -/
def clCount (t : Nat) (cls : List Closure) : Nat := (cls.map (·.tag)).count t

structure GPostK (t k : Nat) (r r' : Root) : Prop where
  inv : TagInv r → TagInv r'
  tag : r.nextTag ≤ r'.nextTag
  gone : Gone t r → Gone t r' ∧ ∃ evs, r'.trace = r.trace ++ evs ∧ tagCount t evs = k

abbrev GPost (t : Nat) (r r' : Root) : Prop := GPostK t 0 r r'

theorem GPostK.trans {t a b : Nat} {x y z : Root} (h1 : GPostK t a x y) (h2 : GPostK t b y z) :
    GPostK t (a + b) x z := by
  refine ⟨fun h => h2.inv (h1.inv h), Nat.le_trans h1.tag h2.tag, fun hg => ?_⟩
  obtain ⟨g1, e1, t1, c1⟩ := h1.gone hg
  obtain ⟨g2, e2, t2, c2⟩ := h2.gone g1
  refine ⟨g2, e1 ++ e2, by rw [t2, t1, List.append_assoc], ?_⟩
  simp only [tagCount, List.map_append, List.count_append] at *
  rw [c1, c2]

theorem GPost.trans {t : Nat} {x y z : Root} (h1 : GPost t x y) (h2 : GPost t y z) : GPost t x z :=
  GPostK.trans h1 h2

theorem GPostK.cast {t k : Nat} {r r' : Root} (h : GPostK t k r r') (hk : Gone t r → k = 0) : GPost t r r' := by
  refine ⟨h.inv, h.tag, fun hg => ?_⟩
  have := h.gone hg
  rw [hk hg] at this
  exact this

/-- the arena is untouched; the tag counter does not decrease; the trace grows by `evs` -/
theorem GPostK.of_nodes_eq {t k : Nat} {r r' : Root} {evs : List Event} (hn : r'.nodes = r.nodes)
    (hle : r.nextTag ≤ r'.nextTag) (ht : r'.trace = r.trace ++ evs) (hk : tagCount t evs = k) :
    GPostK t k r r' := by
  have hg := Root.get?_congr_nodes hn
  have back : ∀ i cl, CleanupAt r' i cl → CleanupAt r i cl := by
    rintro i cl ⟨n, hi, hc⟩; exact ⟨n, by rw [← hg]; exact hi, hc⟩
  refine ⟨fun h => ⟨fun i cl hc => Nat.lt_of_lt_of_le (h.lt i cl (back i cl hc)) hle,
    fun i n hi => h.nodup i n (by rw [← hg]; exact hi),
    fun i j a b hij ha hb => h.disj i j a b hij (back i a ha) (back j b hb)⟩, hle, fun hgone => ?_⟩
  exact ⟨⟨Nat.lt_of_lt_of_le hgone.1 hle, fun i cl hc => hgone.2 i cl (back i cl hc)⟩, evs, ht, hk⟩

theorem GPost.same {t : Nat} {r r' : Root} (hn : r'.nodes = r.nodes) (h1 : r'.nextTag = r.nextTag)
    (h2 : r'.trace = r.trace) : GPost t r r' :=
  GPostK.of_nodes_eq (evs := []) hn (Nat.le_of_eq h1.symm) (by simp [h2]) rfl

theorem GPost.refl (t : Nat) (r : Root) : GPost t r r := GPost.same rfl rfl rfl

/-- an arena transformation that registers nothing: every node afterwards has no cleanups or the
cleanups of the same node before -/
structure CStep (r r' : Root) : Prop where
  nextTag : r'.nextTag = r.nextTag
  trace : r'.trace = r.trace
  back : ∀ j n', r'.get? j = some n' → n'.cleanups = [] ∨ ∃ n, r.get? j = some n ∧ n'.cleanups = n.cleanups

theorem CStep.refl (r : Root) : CStep r r := ⟨rfl, rfl, fun _ n' h => .inr ⟨n', h, rfl⟩⟩

theorem CStep.trans {a b c : Root} (h1 : CStep a b) (h2 : CStep b c) : CStep a c := by
  refine ⟨h2.nextTag.trans h1.nextTag, h2.trace.trans h1.trace, fun j n'' hj => ?_⟩
  rcases h2.back j n'' hj with h | ⟨n', hn', e⟩
  · exact .inl h
  · rcases h1.back j n' hn' with h | ⟨n, hn, e'⟩
    · exact .inl (e.trans h)
    · exact .inr ⟨n, hn, e.trans e'⟩

theorem CStep.gpost {t : Nat} {r r' : Root} (h : CStep r r') : GPost t r r' := by
  have back : ∀ i cl, CleanupAt r' i cl → CleanupAt r i cl := by
    rintro i cl ⟨n', hi, hc⟩
    rcases h.back i n' hi with e | ⟨n, hn, e⟩
    · rw [e] at hc; cases hc
    · exact ⟨n, hn, e ▸ hc⟩
  refine ⟨fun hT => ⟨fun i cl hc => by rw [h.nextTag]; exact hT.lt i cl (back i cl hc), ?_,
    fun i j a b hij ha hb => hT.disj i j a b hij (back i a ha) (back j b hb)⟩,
    Nat.le_of_eq h.nextTag.symm, fun hg => ⟨⟨by rw [h.nextTag]; exact hg.1,
      fun i cl hc => hg.2 i cl (back i cl hc)⟩, [], by simp [h.trace], rfl⟩⟩
  intro i n' hi
  rcases h.back i n' hi with e | ⟨n, hn, e⟩
  · rw [e]; exact List.nodup_nil
  · rw [e]; exact hT.nodup i n hn

theorem CStep.of_sameFrame {r r' : Root} (hf : SameFrame r r')
    (back : ∀ j n', r'.get? j = some n' → n'.cleanups = [] ∨ ∃ n, r.get? j = some n ∧ n'.cleanups = n.cleanups) :
    CStep r r' := ⟨hf.2.2.2.2.2.2.1, hf.2.2.2.2.2.2.2, back⟩

theorem CStep.setNode {r : Root} {x : Id} {n : Node} (n' : Node) (hn : r.get? x = some n)
    (h : n'.cleanups = n.cleanups ∨ n'.cleanups = []) : CStep r (r.setNode x n') := by
  refine CStep.of_sameFrame (SameFrame.setNode r x n') fun j m' hj => ?_
  rw [Root.get?_setNode] at hj
  split at hj
  · rename_i hc
    cases hj
    rcases h with h | h
    · exact .inr ⟨n, by rw [hc.1]; exact hn, h⟩
    · exact .inl h
  · exact .inr ⟨m', hj, rfl⟩

theorem CStep.of_map {r r' : Root} (hf : SameFrame r r') (g : Id → Node → Node)
    (hget : ∀ j, r'.get? j = (r.get? j).map (g j)) (hg : ∀ j m, (g j m).cleanups = m.cleanups) :
    CStep r r' := by
  refine CStep.of_sameFrame hf fun j n' hj => ?_
  rw [hget, Option.map_eq_some_iff] at hj
  obtain ⟨n, hn, rfl⟩ := hj
  exact .inr ⟨n, hn, hg j n⟩

theorem CStep.of_frame {r r' : Root} (h : Frame r r') : CStep r r' := by
  refine ⟨h.nextTag, h.trace, fun j n' hj => ?_⟩
  obtain ⟨n, hn, e⟩ := h.get?_bwd hj
  obtain ⟨_, _, _, _, _, _, a7, _⟩ :=
    sameButMark_some_iff.1 (show SameButMark (some n') (some n) from congrArg some e)
  exact .inr ⟨n, hn, a7⟩

theorem CStep.modify (r : Root) (x : Id) (f : Node → Node) (hf : ∀ m, (f m).cleanups = m.cleanups) :
    CStep r (r.modify x f) := by
  cases hx : r.get? x with
  | none =>
    have : r.modify x f = r := by simp [Root.modify, hx]
    rw [this]; exact CStep.refl _
  | some n =>
    have : r.modify x f = r.setNode x (f n) := by simp [Root.modify, hx]
    rw [this]; exact CStep.setNode _ hx (.inl (hf n))

theorem CStep.unsubscribe (r : Root) (x : Id) : CStep r (unsubscribe r x) := by
  refine CStep.of_sameFrame (unsubscribe_sameFrame r x) fun j n' hj => ?_
  obtain ⟨g, hg, hfields⟩ := unsubscribe_get?_fields r x j
  rw [hg, Option.map_eq_some_iff] at hj
  obtain ⟨n, hn, rfl⟩ := hj
  exact .inr ⟨n, hn, (hfields n).2.2.2.2.1⟩

theorem removeNode_sameFrame (r : Root) (x : Id) : SameFrame r (removeNode r x) := by
  unfold removeNode
  split
  · exact SameFrame.refl r
  · exact (SameFrame.remove r x).trans ((SameFrame.foldl_modify ..).trans (SameFrame.foldl_modify ..))

theorem CStep.removeNode (r : Root) (x : Id) : CStep r (removeNode r x) := by
  refine CStep.of_sameFrame (removeNode_sameFrame r x) fun j n' hj => ?_
  cases hx : r.get? x with
  | none => rw [removeNode_dead hx] at hj; exact .inr ⟨n', hj, rfl⟩
  | some this =>
    rw [removeNode_get?_raw hx] at hj
    split at hj
    · cases hj
    · rw [Option.map_eq_some_iff] at hj
      obtain ⟨n, hn, rfl⟩ := hj
      exact .inr ⟨n, hn, rfl⟩

theorem CStep.unlink (cur : Id) : ∀ (l : List Id) (r r' : Root), unlink cur r l = .ok r' → CStep r r'
  | [], r, r', h => by simp only [Reactive.unlink, Except.ok.injEq] at h; subst h; exact CStep.refl _
  | d :: ds, r, r', h => by
    simp only [Reactive.unlink] at h
    split at h
    · cases h
    · rename_i dn hdn
      exact (CStep.setNode { dn with dependents := dn.dependents.filter (· != cur) } hdn (.inl rfl)).trans
        (CStep.unlink cur ds _ r' h)

theorem CStep.link (r : Root) (deps : List Id) (d : Id) : CStep r (createDependencyLink r deps d) := by
  cases hd : r.get? d with
  | none => rw [createDependencyLink_dead deps hd]; exact CStep.refl _
  | some nd =>
    exact CStep.of_map (createDependencyLink_sameFrame r deps d) (linked (deps.filter r.alive) d)
      (createDependencyLink_get? deps (Root.alive_iff.2 ⟨nd, hd⟩)) (fun _ _ => rfl)

theorem CStep.markDirty (r : Root) (cur : Id) : CStep r (markDependentsDirty r cur) :=
  CStep.of_map (markDependentsDirty_frame r cur).2.2.2
    (fun j m => { m with dirty := m.dirty || isDependentOf r cur j }) (markDependentsDirty_get? r cur)
    (fun _ _ => rfl)

theorem CStep.visitStarts (ss : List Id) {r r' : Root} {buf buf' : List Id}
    (hx : visitStarts r buf ss = .ok (r', buf')) : CStep r r' := by
  induction ss generalizing r buf with
  | nil =>
    simp only [Reactive.visitStarts, Except.ok.injEq, Prod.mk.injEq] at hx
    obtain ⟨rfl, _⟩ := hx
    exact CStep.refl _
  | cons s ss ih =>
    simp only [Reactive.visitStarts] at hx
    split at hx
    · cases hx
    · rename_i r1 buf1 h1
      exact ((CStep.of_frame (dfs_post h1).1.frame).trans (CStep.markDirty r1 s)).trans (ih hx)

theorem CStep.createNode {r r' : Root} {v : Option Int} {nid : Id} (hc : createNode r v = .ok (r', nid)) :
    CStep r r' := by
  obtain ⟨_, hget, _, _, _, _, _, _, hnt, htr⟩ := createNode_get? hc
  refine ⟨hnt, htr, fun j n' hj => ?_⟩
  rw [hget] at hj
  by_cases hjs : j = r.nodes.size
  · rw [if_pos hjs] at hj
    simp only [Option.map_some, Option.some.injEq] at hj
    subst hj
    exact .inl rfl
  · rw [if_neg hjs, Option.map_eq_some_iff] at hj
    obtain ⟨n, hn, rfl⟩ := hj
    exact .inr ⟨n, hn, rfl⟩

theorem CStep.setSilent {r r' : Root} {x : Id} {v : Int} (hx : setSilent r x v = .ok r') : CStep r r' := by
  obtain ⟨n, hn, _, rfl⟩ := setSilent_ok hx
  exact CStep.setNode _ hn (.inl rfl)

theorem CStep.provideContext {r r' : Root} {ty : Nat} {v : Int} (hx : provideContext r ty v = .ok r') :
    CStep r r' := by
  unfold Reactive.provideContext at hx
  split at hx
  · cases hx
  · split at hx
    · cases hx
    · rename_i cur _ _ n hn
      split at hx
      · cases hx
      · cases hx
        exact CStep.setNode _ hn (.inl rfl)

theorem track_nextTag (r : Root) (x : Id) : (track r x).nextTag = r.nextTag := by
  unfold track; split <;> rfl

theorem trackAll_nextTag (c : Ctx) (l : List Nat) {r r' : Root} (hx : trackAll c r l = .ok r') :
    r'.nextTag = r.nextTag := by
  induction l generalizing r with
  | nil => simp only [trackAll, Except.ok.injEq] at hx; subst hx; rfl
  | cons x l ih =>
    simp only [trackAll] at hx
    split at hx
    · cases hx
    · split at hx
      · cases hx
      · rw [ih hx]; exact track_nextTag ..

structure GAll (t : Nat) (f : Nat) : Prop where
  body : ∀ r c b r' c', execBody f r c b = .ok (r', c') → GPost t r r'
  inner : ∀ r c b r' c', execInner f r c b = .ok (r', c') → GPost t r r'
  stmt : ∀ r c s r' c', execStmt f r c s = .ok (r', c') → GPost t r r'
  closure : ∀ r cl r' v obs, runClosure f r cl = .ok (r', v, obs) → GPost t r r'
  selector : ∀ r eq cl r' nid, createSelector f r eq cl = .ok (r', nid) → GPost t r r'
  update : ∀ r cur r', runNodeUpdate f r cur = .ok r' → GPost t r r'
  loop : ∀ r l r', propagateLoop f r l = .ok r' → GPost t r r'
  nodeUpdates : ∀ r l r', propagateNodeUpdates f r l = .ok r' → GPost t r r'
  updates : ∀ r s r', propagateUpdates f r s = .ok r' → GPost t r r'
  dnode : ∀ r x r', disposeNode f r x = .ok r' → GPost t r r'
  dchildren : ∀ r x r', disposeChildren f r x = .ok r' → GPost t r r'
  rest : ∀ r x r', disposeRest f r x = .ok r' → GPost t r r'
  cleanups : ∀ r cls r', runCleanups f r cls = .ok r' → GPostK t (clCount t cls) r r'
  dlist : ∀ r cs r', disposeList f r cs = .ok r' → GPost t r r'

theorem gAll_zero (t : Nat) : GAll t 0 := by
  constructor <;> intros <;> simp_all [execBody, execInner, execStmt, runClosure, createSelector,
    runNodeUpdate, propagateLoop, propagateNodeUpdates, propagateUpdates, disposeNode, disposeChildren,
    disposeRest, runCleanups, disposeList]

theorem g_stmt {t f : Nat} (ih : GAll t f) (r : Root) (c : Ctx) (s : Stmt) (r' : Root) (c' : Ctx)
    (hx : execStmt (f + 1) r c s = .ok (r', c')) : GPost t r r' := by
  have untracked : ∀ {r r' : Root} {c c' : Ctx} {b : Body} {prev : Option (List Id)},
      (match execInner f { r with tracker := none } c b with
        | .error e => .error e
        | .ok (r, c) => .ok ({ r with tracker := prev }, c)) = (.ok (r', c') : Except Panic (Root × Ctx)) →
      GPost t r r' := by
    intro r r' c c' b prev hx
    split at hx
    · cases hx
    · rename_i r1 c1 h1
      simp only [Except.ok.injEq, Prod.mk.injEq] at hx
      obtain ⟨rfl, rfl⟩ := hx
      have p0 : GPost t r { r with tracker := none } := GPost.same rfl rfl rfl
      have p1 := ih.inner _ c b r1 c1 h1
      have p2 : GPost t r1 { r1 with tracker := prev } := GPost.same rfl rfl rfl
      exact (p0.trans p1).trans p2
  have created : ∀ {eq : EqKind} {b : Body} {kd : Kind},
      (match createSelector f r eq ⟨b, c.env, 0⟩ with
        | .error e => .error e
        | .ok (r, id) => .ok (r, { c with env := c.env ++ [⟨id, kd⟩] })) = (.ok (r', c') : Except Panic (Root × Ctx)) →
      GPost t r r' := by
    intro eq b kd hx
    split at hx
    · cases hx
    · rename_i r1 nid h1
      simp only [Except.ok.injEq, Prod.mk.injEq] at hx
      obtain ⟨rfl, rfl⟩ := hx
      exact ih.selector r eq _ r1 nid h1
  have tracked : ∀ x : Id, GPost t r (track r x) := fun x =>
    GPost.same (track_nodes r x).1 (track_nextTag r x) (track_trace r x)
  cases s with
  | read h =>
    simp only [execStmt] at hx
    split at hx
    · cases hx
    · split at hx
      · cases hx
      · split at hx
        · cases hx
        · simp only [Except.ok.injEq, Prod.mk.injEq] at hx
          obtain ⟨rfl, rfl⟩ := hx
          exact tracked _
  | readU h =>
    simp only [execStmt] at hx
    split at hx
    · cases hx
    · split at hx
      · cases hx
      · split at hx
        · cases hx
        · simp only [Except.ok.injEq, Prod.mk.injEq] at hx
          obtain ⟨rfl, rfl⟩ := hx
          exact GPost.refl _ _
  | track h =>
    simp only [execStmt] at hx
    split at hx
    · cases hx
    · split at hx
      · cases hx
      · simp only [Except.ok.injEq, Prod.mk.injEq] at hx
        obtain ⟨rfl, rfl⟩ := hx
        exact tracked _
  | ifpos h th el =>
    simp only [execStmt] at hx
    split at hx
    · cases hx
    · rename_i hd _
      split at hx
      · cases hx
      · split at hx
        · cases hx
        · split at hx
          · exact (tracked hd.id).trans (ih.inner _ _ th r' c' hx)
          · exact (tracked hd.id).trans (ih.inner _ _ el r' c' hx)
  | untrack b => simp only [execStmt] at hx; exact untracked hx
  | component b => simp only [execStmt] at hx; exact untracked hx
  | on deps b =>
    simp only [execStmt] at hx
    split at hx
    · cases hx
    · rename_i r1 h1
      have p1 : GPost t r r1 :=
        GPost.same (trackAll_nodes c deps h1).1 (trackAll_nextTag c deps h1) (trackAll_trace c deps h1)
      exact p1.trans (untracked hx)
  | signal v =>
    simp only [execStmt] at hx
    split at hx
    · cases hx
    · rename_i r1 nid h1
      simp only [Except.ok.injEq, Prod.mk.injEq] at hx
      obtain ⟨rfl, rfl⟩ := hx
      exact (CStep.createNode h1).gpost
  | memo b => simp only [execStmt] at hx; exact created hx
  | selector eq b => simp only [execStmt] at hx; exact created hx
  | effect b => simp only [execStmt] at hx; exact created hx
  | scope b =>
    simp only [execStmt] at hx
    split at hx
    · cases hx
    · rename_i r1 nid h1
      split at hx
      · cases hx
      · rename_i r2 c2 h2
        simp only [Except.ok.injEq, Prod.mk.injEq] at hx
        obtain ⟨rfl, rfl⟩ := hx
        have p1 : GPost t r r1 := (CStep.createNode h1).gpost
        have pa : GPost t r1 { r1 with current := some nid } := GPost.same rfl rfl rfl
        have p2 := ih.inner _ c b r2 c2 h2
        have p3 : GPost t r2 { r2 with current := r1.current } := GPost.same rfl rfl rfl
        exact ((p1.trans pa).trans p2).trans p3
  | set h e =>
    simp only [execStmt] at hx
    split at hx
    · cases hx
    · split at hx
      · cases hx
      · split at hx
        · cases hx
        · rename_i r1 h1
          split at hx
          · cases hx
          · rename_i r2 h2
            simp only [Except.ok.injEq, Prod.mk.injEq] at hx
            obtain ⟨rfl, rfl⟩ := hx
            exact (CStep.setSilent h1).gpost.trans (ih.updates r1 _ r2 h2)
  | setSilent h e =>
    simp only [execStmt] at hx
    split at hx
    · cases hx
    · split at hx
      · cases hx
      · split at hx
        · cases hx
        · rename_i r1 h1
          simp only [Except.ok.injEq, Prod.mk.injEq] at hx
          obtain ⟨rfl, rfl⟩ := hx
          exact (CStep.setSilent h1).gpost
  | cleanup b =>
    simp only [execStmt] at hx
    split at hx
    · simp only [Except.ok.injEq, Prod.mk.injEq] at hx
      obtain ⟨rfl, rfl⟩ := hx
      exact GPost.refl _ _
    · rename_i cur _
      split at hx
      · cases hx
      · rename_i n hn
        simp only [Except.ok.injEq, Prod.mk.injEq] at hx
        obtain ⟨rfl, rfl⟩ := hx
        generalize hn' : ({ n with cleanups := n.cleanups ++ [⟨b, c.env, r.nextTag⟩] } : Node) = n'
        have hget : ∀ j, (r.setNode cur n').get? j = if j = cur then some n' else r.get? j := by
          intro j
          rw [Root.get?_setNode]
          by_cases hj : j = cur <;> simp [hj, Root.lt_size_of_get? hn]
        obtain ⟨_, _, _, _, _, _, s7, s8⟩ := SameFrame.setNode r cur n'
        -- a cleanup stored afterwards was stored before, or is the new one
        have back : ∀ i cl, CleanupAt { (r.setNode cur n') with nextTag := r.nextTag + 1 } i cl →
            CleanupAt r i cl ∨ (i = cur ∧ cl.tag = r.nextTag) := by
          rintro i cl ⟨m, hi, hc⟩
          have hi' : (r.setNode cur n').get? i = some m := hi
          rw [hget] at hi'
          split at hi'
          · rename_i hic; subst hic; cases hi'; subst hn'
            simp only [List.mem_append, List.mem_singleton] at hc
            rcases hc with hc | rfl
            · exact .inl ⟨n, hn, hc⟩
            · exact .inr ⟨rfl, rfl⟩
          · exact .inl ⟨m, hi', hc⟩
        refine ⟨fun hT => ⟨?_, ?_, ?_⟩, Nat.le_succ _, fun hg => ⟨⟨Nat.lt_succ_of_lt hg.1, ?_⟩, [], ?_, rfl⟩⟩
        · intro i cl hc
          rcases back i cl hc with h | ⟨_, h⟩
          · exact Nat.lt_succ_of_lt (hT.lt i cl h)
          · show cl.tag < r.nextTag + 1
            rw [h]; exact Nat.lt_succ_self _
        · intro i m hi
          have hi' : (r.setNode cur n').get? i = some m := hi
          rw [hget] at hi'
          split at hi'
          · rename_i hic; subst hic; cases hi'; subst hn'
            simp only [List.map_append, List.map_cons, List.map_nil]
            refine List.nodup_append.2 ⟨hT.nodup i n hn, by simp, ?_⟩
            intro a ha b hb
            simp only [List.mem_singleton] at hb
            subst hb
            obtain ⟨cl, hcl, rfl⟩ := List.mem_map.1 ha
            exact Nat.ne_of_lt (hT.lt i cl ⟨n, hn, hcl⟩)
          · exact hT.nodup i m hi'
        · intro i j a b' hij ha hb
          rcases back i a ha with h1 | ⟨h1, h1'⟩ <;> rcases back j b' hb with h2 | ⟨h2, h2'⟩
          · exact hT.disj i j a b' hij h1 h2
          · rw [h2']; exact Nat.ne_of_lt (hT.lt i a h1)
          · rw [h1']; exact Nat.ne_of_gt (hT.lt j b' h2)
          · exact absurd (h1.trans h2.symm) hij
        · intro i cl hc
          rcases back i cl hc with h | ⟨_, h⟩
          · exact hg.2 i cl h
          · rw [h]; exact Nat.ne_of_gt hg.1
        · simp only [List.append_nil]; exact s8
  | dispose h =>
    simp only [execStmt] at hx
    split at hx
    · cases hx
    · split at hx
      · cases hx
      · rename_i r1 h1
        simp only [Except.ok.injEq, Prod.mk.injEq] at hx
        obtain ⟨rfl, rfl⟩ := hx
        exact ih.dnode r _ r1 h1
  | disposeCur =>
    simp only [execStmt] at hx
    split at hx
    · simp only [Except.ok.injEq, Prod.mk.injEq] at hx
      obtain ⟨rfl, rfl⟩ := hx
      exact GPost.refl _ _
    · split at hx
      · cases hx
      · rename_i r1 h1
        simp only [Except.ok.injEq, Prod.mk.injEq] at hx
        obtain ⟨rfl, rfl⟩ := hx
        exact ih.dnode r _ r1 h1
  | batch b =>
    simp only [execStmt] at hx
    split at hx
    · cases hx
    · rename_i r1 c1 h1
      have p0 : GPost t r { r with batching := true } := GPost.same rfl rfl rfl
      have p1 := ih.inner _ c b r1 c1 h1
      split at hx
      · simp only [Except.ok.injEq, Prod.mk.injEq] at hx
        obtain ⟨rfl, rfl⟩ := hx
        exact p0.trans p1
      · split at hx
        · cases hx
        · rename_i r2 h2
          simp only [Except.ok.injEq, Prod.mk.injEq] at hx
          obtain ⟨rfl, rfl⟩ := hx
          have p1' : GPost t r1 { r1 with batching := false, queue := [] } := GPost.same rfl rfl rfl
          have p2 := ih.nodeUpdates _ r1.queue r2 h2
          exact ((p0.trans p1).trans p1').trans p2
  | provide ty e =>
    simp only [execStmt] at hx
    split at hx
    · cases hx
    · rename_i r1 h1
      simp only [Except.ok.injEq, Prod.mk.injEq] at hx
      obtain ⟨rfl, rfl⟩ := hx
      exact (CStep.provideContext h1).gpost
  | use ty =>
    simp only [execStmt] at hx
    split at hx
    · cases hx
    · simp only [Except.ok.injEq, Prod.mk.injEq] at hx
      obtain ⟨rfl, rfl⟩ := hx
      exact GPost.refl _ _
  | runIn h b =>
    simp only [execStmt] at hx
    split at hx
    · cases hx
    · rename_i hd _
      split at hx
      · cases hx
      · rename_i r1 c1 h1
        simp only [Except.ok.injEq, Prod.mk.injEq] at hx
        obtain ⟨rfl, rfl⟩ := hx
        have pa : GPost t r { r with current := some hd.id } := GPost.same rfl rfl rfl
        have p1 := ih.inner _ c b r1 c1 h1
        have p2 : GPost t r1 { r1 with current := r.current } := GPost.same rfl rfl rfl
        exact (pa.trans p1).trans p2

theorem g_cleanups {t f : Nat} (ih : GAll t f) (r : Root) (cls : List Closure) (r' : Root)
    (hx : runCleanups (f + 1) r cls = .ok r') : GPostK t (clCount t cls) r r' := by
  cases cls with
  | nil =>
    simp only [runCleanups, Except.ok.injEq] at hx
    subst hx; exact GPost.refl _ _
  | cons cl cls =>
    simp only [runCleanups] at hx
    split at hx
    · cases hx
    · rename_i r1 v obs h1
      have p1 := ih.closure r cl r1 v obs h1
      have p2 : GPostK t (if cl.tag = t then 1 else 0) r1
          { r1 with trace := r1.trace ++ [.cleanup cl.tag obs] } := by
        refine GPostK.of_nodes_eq (evs := [.cleanup cl.tag obs]) rfl (Nat.le_refl _) rfl ?_
        by_cases h : cl.tag = t <;> simp [tagCount, Event.cleanupTag, h]
      have p3 := ih.cleanups _ cls r' hx
      have := GPostK.trans (GPostK.trans p1 p2) p3
      have e : clCount t (cl :: cls) = 0 + (if cl.tag = t then 1 else 0) + clCount t cls := by
        simp only [clCount, List.map_cons, List.count_cons, beq_iff_eq]
        omega
      rw [e]; exact this

theorem g_update {t f : Nat} (ih : GAll t f) (r : Root) (cur : Id) (r' : Root)
    (hx : runNodeUpdate (f + 1) r cur = .ok r') : GPost t r r' := by
  simp only [runNodeUpdate] at hx
  split at hx
  · cases hx
  · rename_i n hn
    split at hx
    · cases hx
    · rename_i r2 h2
      have p2 : GPost t r r2 := ((CStep.setNode { n with dependencies := [] } hn (.inl rfl)).trans (CStep.unlink cur _ _ r2 h2)).gpost
      split at hx
      · cases hx
      · rename_i n2 hn2
        split at hx
        · cases hx
        · cases hx
        · rename_i eq cl old hcb hval
          split at hx
          · cases hx
          · rename_i r4 h4
            have p3 : GPost t r2 (r2.setNode cur { n2 with callback := none, value := none }) :=
              (CStep.setNode { n2 with callback := none, value := none } hn2 (.inl rfl)).gpost
            have p4 := ih.dchildren _ cur r4 h4
            -- repair D22: a cleanup disposed the node itself, the update stops here
            split at hx
            · simp only [Except.ok.injEq] at hx
              subst hx; exact (p2.trans p3).trans p4
            split at hx
            · cases hx
            · rename_i r5 new obs h5
              have pa : GPost t r4 { r4 with current := some cur, tracker := some [] } := GPost.same rfl rfl rfl
              have p5 := ih.closure _ cl r5 new obs h5
              generalize hr6 : ({ r5 with tracker := r4.tracker, current := r4.current, trace := r5.trace ++ [Event.run cur obs new] } : Root) = r6 at hx
              have p6 : GPost t r5 r6 := by
                subst hr6
                exact GPostK.of_nodes_eq (evs := [Event.run cur obs new]) rfl (Nat.le_refl _) rfl
                  (by simp [tagCount, Event.cleanupTag])
              have p06 : GPost t r r6 := ((((p2.trans p3).trans p4).trans pa).trans p5).trans p6
              have p7 : GPost t r6 (createDependencyLink r6 (r5.tracker.getD []) cur) := (CStep.link ..).gpost
              split at hx
              · simp only [Except.ok.injEq] at hx
                subst hx; exact p06.trans p7
              · rename_i n7 hn7
                simp only [Except.ok.injEq] at hx
                split at hx
                · subst hx
                  have p8 := (CStep.setNode { n7 with callback := some (eq, cl), value := some new, dirty := false }
                    hn7 (.inl rfl)).gpost (t := t)
                  exact ((p06.trans p7).trans p8).trans (CStep.markDirty ..).gpost
                · subst hx
                  have p8 := (CStep.setNode { n7 with callback := some (eq, cl), value := some old, dirty := false }
                    hn7 (.inl rfl)).gpost (t := t)
                  exact (p06.trans p7).trans p8

theorem g_selector {t f : Nat} (ih : GAll t f) (r : Root) (eq : EqKind) (cl : Closure) (r' : Root) (nid : Id)
    (hx : createSelector (f + 1) r eq cl = .ok (r', nid)) : GPost t r r' := by
  simp only [createSelector] at hx
  split at hx
  · cases hx
  · rename_i r1 id1 h1
    have p1 : GPost t r r1 := (CStep.createNode h1).gpost
    split at hx
    · cases hx
    · rename_i r2 v obs h2
      have pa : GPost t r1 { r1 with current := some id1, tracker := some [] } := GPost.same rfl rfl rfl
      have p2 := ih.closure _ cl r2 v obs h2
      generalize hr3 : ({ r2 with tracker := r1.tracker, current := r1.current, trace := r2.trace ++ [Event.run id1 obs v] } : Root) = r3 at hx
      have p3 : GPost t r2 r3 := by
        subst hr3
        exact GPostK.of_nodes_eq (evs := [Event.run id1 obs v]) rfl (Nat.le_refl _) rfl
          (by simp [tagCount, Event.cleanupTag])
      have p4 : GPost t r3 (createDependencyLink r3 (r2.tracker.getD []) id1) := (CStep.link ..).gpost
      have p04 := (((p1.trans pa).trans p2).trans p3).trans p4
      split at hx
      · simp only [Except.ok.injEq, Prod.mk.injEq] at hx
        obtain ⟨rfl, rfl⟩ := hx
        exact p04
      · rename_i n4 hn4
        simp only [Except.ok.injEq, Prod.mk.injEq] at hx
        obtain ⟨rfl, rfl⟩ := hx
        exact p04.trans (CStep.setNode { n4 with value := some v, callback := some (eq, cl) } hn4 (.inl rfl)).gpost

theorem g_dchildren {t f : Nat} (ih : GAll t f) (r : Root) (x : Id) (r' : Root)
    (hx : disposeChildren (f + 1) r x = .ok r') : GPost t r r' := by
  simp only [disposeChildren] at hx
  split at hx
  · simp only [Except.ok.injEq] at hx
    subst hx; exact GPost.refl _ _
  · rename_i n hn
    split at hx
    · cases hx
    · rename_i r2 h2
      split at hx
      · cases hx
      · rename_i r3 h3
        simp only [Except.ok.injEq] at hx
        subst hx
        have pa : GPost t r (r.setNode x { n with cleanups := [], children := [] }) :=
          (CStep.setNode _ hn (.inr rfl)).gpost
        have pb : GPost t (r.setNode x { n with cleanups := [], children := [] })
            { (r.setNode x { n with cleanups := [], children := [] }) with tracker := none } :=
          GPost.same rfl rfl rfl
        have p2 := ih.cleanups _ n.cleanups r2 h2
        have pc : GPost t r2
            { r2 with tracker := (r.setNode x { n with cleanups := [], children := [] }).tracker } :=
          GPost.same rfl rfl rfl
        have p3 := ih.dlist _ n.children r3 h3
        have p4 : GPost t r3 (r3.modify x fun n => { n with context := [] }) :=
          (CStep.modify r3 x (fun n => { n with context := [] }) (fun _ => rfl)).gpost
        have all := GPostK.trans (GPostK.trans (GPostK.trans (GPostK.trans (GPostK.trans pa pb) p2) pc) p3) p4
        refine all.cast fun hg => ?_
        have : clCount t n.cleanups = 0 := by
          simp only [clCount]
          rw [List.count_eq_zero]
          intro hm
          obtain ⟨cl, hcl, e⟩ := List.mem_map.1 hm
          exact hg.2 x cl ⟨n, hn, hcl⟩ e
        rw [this]

theorem gAll (t : Nat) : ∀ f, GAll t f
  | 0 => gAll_zero t
  | f + 1 => by
    have ih := gAll t f
    refine ⟨?_, ?_, g_stmt ih, ?_, g_selector ih, g_update ih, ?_, ?_, ?_, ?_, g_dchildren ih, ?_, g_cleanups ih, ?_⟩
    · -- body
      intro r c b r' c' hx
      cases b with
      | nil =>
        simp only [execBody, Except.ok.injEq, Prod.mk.injEq] at hx
        obtain ⟨rfl, rfl⟩ := hx; exact GPost.refl _ _
      | cons s rest =>
        simp only [execBody] at hx
        split at hx
        · cases hx
        · rename_i r1 c1 h1
          exact (ih.stmt r c s r1 c1 h1).trans (ih.body r1 c1 rest r' c' hx)
    · -- inner
      intro r c b r' c' hx
      simp only [execInner] at hx
      split at hx
      · cases hx
      · rename_i r1 c1 h1
        simp only [Except.ok.injEq, Prod.mk.injEq] at hx
        obtain ⟨rfl, rfl⟩ := hx
        exact ih.body r c b r1 c1 h1
    · -- closure
      intro r cl r' v obs hx
      simp only [runClosure] at hx
      split at hx
      · cases hx
      · rename_i r1 c1 h1
        simp only [Except.ok.injEq, Prod.mk.injEq] at hx
        obtain ⟨rfl, _, _⟩ := hx
        exact ih.body r _ cl.body r1 c1 h1
    · -- loop
      intro r l r' hx
      cases l with
      | nil =>
        simp only [propagateLoop, Except.ok.injEq] at hx
        subst hx; exact GPost.refl _ _
      | cons node rest =>
        simp only [propagateLoop] at hx
        split at hx
        · exact ih.loop r rest r' hx
        · rename_i n hn
          have p1 : GPost t r (r.setNode node { n with mark := .none }) := (CStep.setNode { n with mark := .none } hn (.inl rfl)).gpost
          split at hx
          · split at hx
            · cases hx
            · rename_i r2 h2
              exact (p1.trans (ih.update _ node r2 h2)).trans (ih.loop r2 rest r' hx)
          · exact p1.trans (ih.loop _ rest r' hx)
    · -- nodeUpdates
      intro r l r' hx
      simp only [propagateNodeUpdates] at hx
      split at hx
      · cases hx
      · rename_i r1 buf h1
        exact ((CStep.visitStarts l h1).gpost.trans (CStep.of_frame (resetMarks_spec l r1).1).gpost).trans
          (ih.loop _ buf.reverse r' hx)
    · -- updates
      intro r s r' hx
      simp only [propagateUpdates] at hx
      split at hx
      · simp only [Except.ok.injEq] at hx
        subst hx; exact GPost.same rfl rfl rfl
      · exact ih.nodeUpdates r [s] r' hx
    · -- dnode
      intro r x r' hx
      simp only [disposeNode] at hx
      split at hx
      · cases hx
      · rename_i r1 h1
        split at hx
        · cases hx
        · rename_i r1' h1'
          simp only [Except.ok.injEq] at hx
          subst hx
          exact (((CStep.unsubscribe r x).gpost.trans (ih.dchildren _ x r1 h1)).trans (ih.rest r1 x r1' h1')).trans
            (CStep.removeNode r1' x).gpost
    · -- rest
      intro r x r' hx
      simp only [disposeRest] at hx
      split at hx
      · simp only [Except.ok.injEq] at hx
        subst hx; exact GPost.refl _ _
      · split at hx
        · simp only [Except.ok.injEq] at hx
          subst hx; exact GPost.refl _ _
        · split at hx
          · cases hx
          · rename_i r1 h1
            exact (ih.dchildren r x r1 h1).trans (ih.rest r1 x r' hx)
    · -- dlist
      intro r cs r' hx
      cases cs with
      | nil =>
        simp only [disposeList, Except.ok.injEq] at hx
        subst hx; exact GPost.refl _ _
      | cons c cs =>
        simp only [disposeList] at hx
        split at hx
        · cases hx
        · rename_i r1 h1
          exact (ih.dnode r c r1 h1).trans (ih.dlist r1 cs r' hx)

theorem tagInv_init : TagInv Root.init := by
  refine ⟨?_, ?_, ?_⟩
  · rintro i cl ⟨n, hn, hc⟩
    obtain ⟨_, rfl⟩ := init_get? hn
    simp [freshNode] at hc
  · intro i n hn
    obtain ⟨_, rfl⟩ := init_get? hn
    simp [freshNode]
  · rintro i j a b _ ⟨n, hn, hc⟩ _
    obtain ⟨_, rfl⟩ := init_get? hn
    simp [freshNode] at hc

theorem runOps_tagInv (fuel : Nat) : ∀ (ops : List Stmt) (r : Root) (env : List Handle) (r' : Root)
    (env' : List Handle), TagInv r → runOps fuel ops r env = .ok (r', env') → TagInv r'
  | [], r, env, r', env', hT, hx => by
    simp only [runOps, Except.ok.injEq, Prod.mk.injEq] at hx
    obtain ⟨rfl, rfl⟩ := hx
    exact hT
  | s :: rest, r, env, r', env', hT, hx => by
    simp only [runOps] at hx
    split at hx
    · cases hx
    · rename_i r1 c1 h1
      exact runOps_tagInv fuel rest r1 c1.env r' env' (((gAll 0 fuel).stmt r _ s r1 c1 h1).inv hT) hx

/-- **exactly once**: in a state whose cleanup tags are pairwise distinct, a successful
`disposeNode … id` logs exactly one event for every cleanup registered on `id` -/
theorem dispose_tagCount {fuel : Nat} {r r' : Root} {id : Id} {n : Node} (hT : TagInv r)
    (hn : r.get? id = some n) (hx : disposeNode fuel r id = .ok r') :
    ∀ cl ∈ n.cleanups, ∃ evs, r'.trace = r.trace ++ evs ∧ tagCount cl.tag evs = 1 := by
  intro cl hcl
  cases fuel with
  | zero => simp [disposeNode] at hx
  | succ f =>
    simp only [disposeNode] at hx
    split at hx
    · cases hx
    · rename_i r1 h1
      split at hx
      · cases hx
      rename_i r1' h1'
      simp only [Except.ok.injEq] at hx
      subst hx
      have prest := (gAll cl.tag f).rest r1 id r1' h1'
      have c0 := CStep.unsubscribe r id
      have hT0 : TagInv (unsubscribe r id) := (c0.gpost (t := cl.tag)).inv hT
      have hn0 : ∃ n0, (unsubscribe r id).get? id = some n0 ∧ cl ∈ n0.cleanups := by
        obtain ⟨g, hg, hfields⟩ := unsubscribe_get?_fields r id id
        rw [hn] at hg
        exact ⟨g n, hg, by rw [(hfields n).2.2.2.2.1]; exact hcl⟩
      obtain ⟨n0, hg, hcl0⟩ := hn0
      generalize unsubscribe r id = r0 at *
      cases f with
      | zero => simp [disposeChildren] at h1
      | succ f =>
        simp only [disposeChildren, hg] at h1
        split at h1
        · cases h1
        · rename_i r2 h2
          split at h1
          · cases h1
          · rename_i r3 h3
            simp only [Except.ok.injEq] at h1
            subst h1
            have ca := CStep.setNode { n0 with cleanups := [], children := [] } hg (.inr rfl)
            have hgone : Gone cl.tag (r0.setNode id { n0 with cleanups := [], children := [] }) := by
              refine ⟨by rw [ca.nextTag]; exact hT0.lt id cl ⟨n0, hg, hcl0⟩, ?_⟩
              rintro i cl' ⟨m, hi, hc⟩ e
              rw [Root.get?_setNode] at hi
              split at hi
              · cases hi; cases hc
              · rename_i hne
                have hii : i ≠ id := fun h => hne ⟨h, Root.lt_size_of_get? hg⟩
                exact hT0.disj i id cl' cl hii ⟨m, hi, hc⟩ ⟨n0, hg, hcl0⟩ e
            generalize r0.setNode id { n0 with cleanups := [], children := [] } = ra at *
            have pb : GPost cl.tag ra { ra with tracker := none } := GPost.same rfl rfl rfl
            have p2 := (gAll cl.tag f).cleanups _ n0.cleanups r2 h2
            have pc : GPost cl.tag r2 { r2 with tracker := ra.tracker } := GPost.same rfl rfl rfl
            have p3 := (gAll cl.tag f).dlist _ n0.children r3 h3
            have p4 : GPost cl.tag r3 (r3.modify id fun n => { n with context := [] }) :=
              (CStep.modify r3 id (fun n => { n with context := [] }) (fun _ => rfl)).gpost
            have p5 : GPost cl.tag r1' (removeNode r1' id) :=
              (CStep.removeNode _ id).gpost
            have all := GPostK.trans (GPostK.trans (GPostK.trans (GPostK.trans (GPostK.trans (GPostK.trans pb p2) pc) p3) p4) prest) p5
            obtain ⟨_, evs, e, hc⟩ := all.gone hgone
            refine ⟨evs, by rw [e, ca.trace, c0.trace], ?_⟩
            rw [hc]
            have : clCount cl.tag n0.cleanups = 1 := by
              simp only [clCount]
              rw [List.Nodup.count (hT0.nodup id n0 hg), if_pos (List.mem_map.2 ⟨cl, hcl0, rfl⟩)]
            rw [this]

/-! ## Part B (D13): `resetMarks` and the nested `dfs` -/

theorem resetMarks_get?_of_not_mem : ∀ (ss : List Id) (r : Root) (j : Id), j ∉ ss →
    (resetMarks r ss).get? j = r.get? j
  | [], _, _, _ => rfl
  | s :: ss, r, j, hj => by
    have hjs : j ≠ s := fun e => hj (by simp [e])
    have hjss : j ∉ ss := fun h => hj (by simp [h])
    rw [resetMarks]
    cases hs : r.get? s with
    | none => exact resetMarks_get?_of_not_mem ss r j hjss
    | some n =>
      simp only
      rw [resetMarks_get?_of_not_mem ss _ j hjss, Root.get?_setNode]
      simp [hjs]

theorem resetMarks_start_none : ∀ (ss : List Id) (r : Root) (s : Id), s ∈ ss →
    ∀ n, (resetMarks r ss).get? s = some n → n.mark = .none
  | x :: ss, r, s, hs, n, hn => by
    rw [resetMarks] at hn
    by_cases hmem : s ∈ ss
    · cases hx : r.get? x with
      | none => rw [hx] at hn; exact resetMarks_start_none ss r s hmem n hn
      | some m => rw [hx] at hn; exact resetMarks_start_none ss _ s hmem n hn
    · have hsx : s = x := by
        simp only [List.mem_cons] at hs
        rcases hs with h | h
        · exact h
        · exact absurd h hmem
      subst hsx
      cases hx : r.get? s with
      | none =>
        rw [hx] at hn
        simp only at hn
        rw [resetMarks_get?_of_not_mem ss r s hmem, hx] at hn; cases hn
      | some m =>
        rw [hx] at hn
        simp only at hn
        rw [resetMarks_get?_of_not_mem ss _ s hmem, Root.get?_setNode_self hx] at hn
        cases hn; rfl

/-- every node that a successful search turns from unmarked to `perm` is pushed by that search -/
theorem dfs_pushes_aux : ∀ fuel : Nat,
    (∀ r buf cur r' buf', dfs fuel r buf cur = some (r', buf') →
      ∃ new, buf' = buf ++ new ∧ ∀ i n n', r.get? i = some n → n.mark = .none →
        r'.get? i = some n' → n'.mark = .perm → i ∈ new) ∧
    (∀ r buf cs r' buf', dfsList fuel r buf cs = some (r', buf') →
      ∃ new, buf' = buf ++ new ∧ ∀ i n n', r.get? i = some n → n.mark = .none →
        r'.get? i = some n' → n'.mark = .perm → i ∈ new) := by
  intro fuel
  induction fuel with
  | zero => exact ⟨fun _ _ _ _ _ h => by simp [dfs] at h, fun _ _ _ _ _ h => by simp [dfsList] at h⟩
  | succ fuel ih =>
    refine ⟨?_, ?_⟩
    · intro r buf cur r' buf' h
      rw [dfs] at h
      split at h
      · cases h
        refine ⟨[], by simp, ?_⟩
        intro i n n' hn hm hn' hm'
        rw [hn] at hn'; cases hn'; rw [hm] at hm'; cases hm'
      · rename_i nc hc
        split at h
        · cases h
        · cases h
          refine ⟨[], by simp, ?_⟩
          intro i n n' hn hm hn' hm'
          rw [hn] at hn'; cases hn'; rw [hm] at hm'; cases hm'
        · simp only at h
          split at h
          · cases h
          · rename_i r2 buf2 hl
            cases h
            obtain ⟨new2, e2, p2⟩ := ih.2 _ _ _ _ _ hl
            refine ⟨new2 ++ [cur], by rw [e2, List.append_assoc], ?_⟩
            intro i n n' hn hm hn' hm'
            by_cases hic : i = cur
            · simp [hic]
            · rw [Dfs.get?_modify, if_neg hic] at hn'
              have hn1 : (r.setNode cur { nc with mark := .temp }).get? i = some n := by
                rw [Dfs.get?_setNode_of_get? hc, if_neg hic]; exact hn
              exact List.mem_append_left _ (p2 i n n' hn1 hm hn' hm')
    · intro r buf cs r' buf' h
      cases cs with
      | nil =>
        rw [dfsList] at h; cases h
        refine ⟨[], by simp, ?_⟩
        intro i n n' hn hm hn' hm'
        rw [hn] at hn'; cases hn'; rw [hm] at hm'; cases hm'
      | cons c cs =>
        rw [dfsList] at h
        split at h
        · cases h
        · rename_i r1 buf1 h1
          obtain ⟨new1, e1, p1⟩ := ih.1 _ _ _ _ _ h1
          obtain ⟨new2, e2, p2⟩ := ih.2 _ _ _ _ _ h
          refine ⟨new1 ++ new2, by rw [e2, e1, List.append_assoc], ?_⟩
          intro i n n' hn hm hn' hm'
          obtain ⟨n1, hn1, hmk⟩ := dfs_marks h1 i n hn
          rcases hmk with e | ⟨_, e⟩
          · exact List.mem_append_right _ (p2 i n1 n' hn1 (e.trans hm) hn' hm')
          · exact List.mem_append_left _ (p1 i n n1 hn hm hn1 e)

/-- **D13, the repaired behaviour**: a search from a live unmarked node `s` pushes `s` and every live
unmarked dependent of `s` -/
theorem dfs_traverses {fuel : Nat} {r r' : Root} {buf buf' : List Id} {s d : Id} {ns nd : Node}
    (hs : r.get? s = some ns) (hms : ns.mark = .none) (hd : d ∈ ns.dependents)
    (hnd : r.get? d = some nd) (hmd : nd.mark = .none)
    (hx : dfs fuel r buf s = some (r', buf')) :
    ∃ new, buf' = buf ++ new ∧ d ∈ new ∧ s ∈ new := by
  cases fuel with
  | zero => simp [dfs] at hx
  | succ fuel =>
    rw [dfs] at hx
    simp only [hs, hms] at hx
    split at hx
    · cases hx
    · rename_i r2 buf2 hl
      cases hx
      obtain ⟨new2, e2, p2⟩ := (dfs_pushes_aux fuel).2 _ _ _ _ _ hl
      refine ⟨new2 ++ [s], by rw [e2, List.append_assoc], ?_, by simp⟩
      have hF := Frame.setMark hs .temp
      have hda : (r.setNode s { ns with mark := .temp }).alive d = true := by
        rw [hF.alive]; exact Dfs.alive_of_get? hnd
      obtain ⟨n2, hn2, hp2⟩ := (dfsList_post hl).2 d hd hda
      by_cases hds : d = s
      · -- a self-loop: `s` is `temp` during the search, so the search would have failed
        exfalso
        subst hds
        have h1 : (r.setNode d { ns with mark := .temp }).get? d = some { ns with mark := .temp } := by
          rw [Dfs.get?_setNode_of_get? hs, if_pos rfl]
        obtain ⟨n3, hn3, hmk⟩ := (dfsList_post hl).1.marks d _ h1
        rw [hn2] at hn3; cases hn3
        rcases hmk with e | ⟨e, _⟩
        · rw [hp2] at e; cases e
        · cases e
      · have h1 : (r.setNode s { ns with mark := .temp }).get? d = some nd := by
          rw [Dfs.get?_setNode_of_get? hs, if_neg hds]; exact hnd
        exact List.mem_append_left _ (p2 d nd n2 h1 hmd hn2 hp2)

/-- **D13, the defect**: a search from a node still marked `perm` returns at once -/
theorem dfs_perm_noop {fuel : Nat} {r : Root} {buf : List Id} {s : Id} {ns : Node}
    (hs : r.get? s = some ns) (hms : ns.mark = .perm) : dfs (fuel + 1) r buf s = some (r, buf) := by
  rw [dfs]; simp only [hs, hms]

end SycVerif.Reactive
