import SycVerif.Props.ReactiveWF
import SycVerif.Props.C04
/-!
Helper lemmas for `Props/C04Reinit`:

* `SizeAll` / `sizeAll`: NO function of the mutual block ever shrinks the arena — unconditionally (no
  invariant on the start state is needed; `Grows.size` of `Lemmas/Preserve` is the same fact under `RInvP`);
* the shape of the arena `(a.map fun _ => none).push (some n)` that `reinit` leaves.
-/
namespace SycVerif.Reactive

/-! ### 1. the arena never shrinks (unconditional) -/

theorem size_remove (r : Root) (id : Id) : (r.remove id).nodes.size = r.nodes.size :=
  (SameFrame.remove r id).1

theorem size_track (r : Root) (id : Id) : (track r id).nodes.size = r.nodes.size := by
  rw [(track_nodes r id).1]

theorem size_removeNode (r : Root) (id : Id) : (removeNode r id).nodes.size = r.nodes.size := by
  unfold removeNode
  split
  · rfl
  · exact ((SameFrame.remove ..).trans ((SameFrame.foldl_modify ..).trans (SameFrame.foldl_modify ..))).1

theorem size_unsubscribe (r : Root) (id : Id) : (unsubscribe r id).nodes.size = r.nodes.size :=
  (unsubscribe_sameFrame r id).1

theorem size_createDependencyLink (r : Root) (deps : List Id) (d : Id) :
    (createDependencyLink r deps d).nodes.size = r.nodes.size :=
  (createDependencyLink_sameFrame r deps d).1

theorem size_markDependentsDirty (r : Root) (cur : Id) : (markDependentsDirty r cur).nodes.size = r.nodes.size :=
  (markDependentsDirty_frame r cur).2.2.2.1

theorem size_createNode {r r' : Root} {v : Option Int} {id : Id} (h : createNode r v = .ok (r', id)) :
    r'.nodes.size = r.nodes.size + 1 :=
  (createNode_get? h).2.2.1

theorem size_provideContext {r r' : Root} {ty : Nat} {v : Int} (h : provideContext r ty v = .ok r') :
    r'.nodes.size = r.nodes.size := by
  unfold provideContext at h
  split at h
  · cases h
  · split at h
    · cases h
    · split at h
      · cases h
      · cases h; exact Dfs.size_setNode ..

theorem size_setSilent {r r' : Root} {id : Id} {v : Int} (h : setSilent r id v = .ok r') :
    r'.nodes.size = r.nodes.size := by
  obtain ⟨n, _, _, rfl⟩ := setSilent_ok h
  exact Dfs.size_setNode ..

theorem size_trackAll (c : Ctx) (l : List Nat) {r r' : Root} (h : trackAll c r l = .ok r') :
    r'.nodes.size = r.nodes.size := by
  rw [(trackAll_nodes c l h).1]

theorem size_unlink (cur : Id) : ∀ (l : List Id) (r r' : Root), unlink cur r l = .ok r' →
    r'.nodes.size = r.nodes.size
  | [], r, r', h => by simp only [unlink, Except.ok.injEq] at h; subst h; rfl
  | d :: ds, r, r', h => by
    simp only [unlink] at h
    split at h
    · cases h
    · rw [size_unlink cur ds _ _ h, Dfs.size_setNode]

theorem size_visitStarts : ∀ (l : List Id) (r : Root) (buf : List Id) (r' : Root) (buf' : List Id),
    visitStarts r buf l = .ok (r', buf') → r'.nodes.size = r.nodes.size
  | [], r, buf, r', buf', h => by
    simp only [visitStarts, Except.ok.injEq, Prod.mk.injEq] at h; obtain ⟨rfl, _⟩ := h; rfl
  | s :: ss, r, buf, r', buf', h => by
    simp only [visitStarts] at h
    split at h
    · cases h
    · rename_i r1 buf1 h1
      rw [size_visitStarts ss _ _ _ _ h, size_markDependentsDirty, (dfs_frame h1).1]

theorem size_resetMarks : ∀ (l : List Id) (r : Root), (resetMarks r l).nodes.size = r.nodes.size
  | [], r => rfl
  | s :: ss, r => by
    simp only [resetMarks]
    split
    · exact size_resetMarks ss r
    · rw [size_resetMarks ss, Dfs.size_setNode]

/-- at fuel `f`, no function of the mutual block shrinks the arena -/
structure SizeAll (f : Nat) : Prop where
  body : ∀ r c b r' c', execBody f r c b = .ok (r', c') → r.nodes.size ≤ r'.nodes.size
  inner : ∀ r c b r' c', execInner f r c b = .ok (r', c') → r.nodes.size ≤ r'.nodes.size
  stmt : ∀ r c s r' c', execStmt f r c s = .ok (r', c') → r.nodes.size ≤ r'.nodes.size
  closure : ∀ r cl r' v obs, runClosure f r cl = .ok (r', v, obs) → r.nodes.size ≤ r'.nodes.size
  selector : ∀ r eq cl r' id, createSelector f r eq cl = .ok (r', id) → r.nodes.size ≤ r'.nodes.size
  update : ∀ r cur r', runNodeUpdate f r cur = .ok r' → r.nodes.size ≤ r'.nodes.size
  loop : ∀ r l r', propagateLoop f r l = .ok r' → r.nodes.size ≤ r'.nodes.size
  nodeUpdates : ∀ r l r', propagateNodeUpdates f r l = .ok r' → r.nodes.size ≤ r'.nodes.size
  updates : ∀ r s r', propagateUpdates f r s = .ok r' → r.nodes.size ≤ r'.nodes.size
  dnode : ∀ r id r', disposeNode f r id = .ok r' → r.nodes.size ≤ r'.nodes.size
  dchildren : ∀ r id r', disposeChildren f r id = .ok r' → r.nodes.size ≤ r'.nodes.size
  rest : ∀ r id r', disposeRest f r id = .ok r' → r.nodes.size ≤ r'.nodes.size
  cleanups : ∀ r cls r', runCleanups f r cls = .ok r' → r.nodes.size ≤ r'.nodes.size
  dlist : ∀ r cs r', disposeList f r cs = .ok r' → r.nodes.size ≤ r'.nodes.size

theorem sizeAll_zero : SizeAll 0 := by
  constructor <;> intros <;> simp_all [execBody, execInner, execStmt, runClosure, createSelector,
    runNodeUpdate, propagateLoop, propagateNodeUpdates, propagateUpdates, disposeNode, disposeChildren,
    disposeRest, runCleanups, disposeList]

section step
variable {f : Nat} (ih : SizeAll f)
include ih

theorem size_body (r : Root) (c : Ctx) (b : Body) (r' : Root) (c' : Ctx)
    (hx : execBody (f + 1) r c b = .ok (r', c')) : r.nodes.size ≤ r'.nodes.size := by
  cases b with
  | nil =>
    simp only [execBody, Except.ok.injEq, Prod.mk.injEq] at hx
    obtain ⟨rfl, rfl⟩ := hx; exact Nat.le_refl _
  | cons s rest =>
    simp only [execBody] at hx
    split at hx
    · cases hx
    · rename_i r1 c1 h1
      exact Nat.le_trans (ih.stmt _ _ _ _ _ h1) (ih.body _ _ _ _ _ hx)

theorem size_inner (r : Root) (c : Ctx) (b : Body) (r' : Root) (c' : Ctx)
    (hx : execInner (f + 1) r c b = .ok (r', c')) : r.nodes.size ≤ r'.nodes.size := by
  simp only [execInner] at hx
  split at hx
  · cases hx
  · rename_i r1 c1 h1
    simp only [Except.ok.injEq, Prod.mk.injEq] at hx
    obtain ⟨rfl, rfl⟩ := hx
    exact ih.body _ _ _ _ _ h1

theorem size_closure (r : Root) (cl : Closure) (r' : Root) (v : Int) (obs : List Obs)
    (hx : runClosure (f + 1) r cl = .ok (r', v, obs)) : r.nodes.size ≤ r'.nodes.size := by
  simp only [runClosure] at hx
  split at hx
  · cases hx
  · rename_i r1 c1 h1
    simp only [Except.ok.injEq, Prod.mk.injEq] at hx
    obtain ⟨rfl, _, _⟩ := hx
    exact ih.body _ _ _ _ _ h1

theorem size_cleanups (r : Root) (cls : List Closure) (r' : Root)
    (hx : runCleanups (f + 1) r cls = .ok r') : r.nodes.size ≤ r'.nodes.size := by
  cases cls with
  | nil => simp only [runCleanups, Except.ok.injEq] at hx; subst hx; exact Nat.le_refl _
  | cons cl cls =>
    simp only [runCleanups] at hx
    split at hx
    · cases hx
    · rename_i r1 v obs h1
      have b := ih.cleanups _ _ _ hx
      exact Nat.le_trans (ih.closure _ _ _ _ _ h1) b

theorem size_dlist (r : Root) (cs : List Id) (r' : Root)
    (hx : disposeList (f + 1) r cs = .ok r') : r.nodes.size ≤ r'.nodes.size := by
  cases cs with
  | nil => simp only [disposeList, Except.ok.injEq] at hx; subst hx; exact Nat.le_refl _
  | cons c cs =>
    simp only [disposeList] at hx
    split at hx
    · cases hx
    · rename_i r1 h1
      exact Nat.le_trans (ih.dnode _ _ _ h1) (ih.dlist _ _ _ hx)

theorem size_dnode (r : Root) (id : Id) (r' : Root)
    (hx : disposeNode (f + 1) r id = .ok r') : r.nodes.size ≤ r'.nodes.size := by
  simp only [disposeNode] at hx
  split at hx
  · cases hx
  · rename_i r1 h1
    split at hx
    · cases hx
    · rename_i r1' h1'
      simp only [Except.ok.injEq] at hx
      subst hx
      have := ih.dchildren _ _ _ h1
      rw [size_unsubscribe] at this
      rw [size_removeNode]; exact Nat.le_trans this (ih.rest _ _ _ h1')

theorem size_rest (r : Root) (id : Id) (r' : Root)
    (hx : disposeRest (f + 1) r id = .ok r') : r.nodes.size ≤ r'.nodes.size := by
  simp only [disposeRest] at hx
  split at hx
  · simp only [Except.ok.injEq] at hx; subst hx; exact Nat.le_refl _
  · split at hx
    · simp only [Except.ok.injEq] at hx; subst hx; exact Nat.le_refl _
    · split at hx
      · cases hx
      · rename_i r1 h1
        exact Nat.le_trans (ih.dchildren _ _ _ h1) (ih.rest _ _ _ hx)

theorem size_dchildren (r : Root) (id : Id) (r' : Root)
    (hx : disposeChildren (f + 1) r id = .ok r') : r.nodes.size ≤ r'.nodes.size := by
  simp only [disposeChildren] at hx
  split at hx
  · simp only [Except.ok.injEq] at hx; subst hx; exact Nat.le_refl _
  · rename_i n hn
    split at hx
    · cases hx
    · rename_i r1 h1
      split at hx
      · cases hx
      · rename_i r2 h2
        simp only [Except.ok.injEq] at hx
        subst hx
        have a := ih.cleanups _ _ _ h1
        have b := ih.dlist _ _ _ h2
        have s : (r.setNode id { n with cleanups := [], children := [] }).nodes.size = r.nodes.size :=
          Dfs.size_setNode ..
        rw [Dfs.size_modify]
        simp only [] at a b
        omega

theorem size_updates (r : Root) (s : Id) (r' : Root)
    (hx : propagateUpdates (f + 1) r s = .ok r') : r.nodes.size ≤ r'.nodes.size := by
  simp only [propagateUpdates] at hx
  split at hx
  · simp only [Except.ok.injEq] at hx; subst hx; exact Nat.le_refl _
  · exact ih.nodeUpdates _ _ _ hx

theorem size_nodeUpdates (r : Root) (l : List Id) (r' : Root)
    (hx : propagateNodeUpdates (f + 1) r l = .ok r') : r.nodes.size ≤ r'.nodes.size := by
  simp only [propagateNodeUpdates] at hx
  split at hx
  · cases hx
  · rename_i r1 buf h1
    have a := ih.loop _ _ _ hx
    rw [size_resetMarks, size_visitStarts _ _ _ _ _ h1] at a
    exact a

theorem size_loop (r : Root) (l : List Id) (r' : Root)
    (hx : propagateLoop (f + 1) r l = .ok r') : r.nodes.size ≤ r'.nodes.size := by
  cases l with
  | nil => simp only [propagateLoop, Except.ok.injEq] at hx; subst hx; exact Nat.le_refl _
  | cons node rest =>
    simp only [propagateLoop] at hx
    split at hx
    · exact ih.loop _ _ _ hx
    · rename_i n hn
      have s : (r.setNode node { n with mark := .none }).nodes.size = r.nodes.size := Dfs.size_setNode ..
      split at hx
      · split at hx
        · cases hx
        · rename_i r1 h1
          have a := ih.update _ _ _ h1
          have b := ih.loop _ _ _ hx
          omega
      · have b := ih.loop _ _ _ hx
        omega

theorem size_selector (r : Root) (eq : EqKind) (cl : Closure) (r' : Root) (id : Id)
    (hx : createSelector (f + 1) r eq cl = .ok (r', id)) : r.nodes.size ≤ r'.nodes.size := by
  simp only [createSelector] at hx
  split at hx
  · cases hx
  · rename_i r1 id1 h1
    have s1 := size_createNode h1
    split at hx
    · cases hx
    · rename_i r2 v obs h2
      have a := ih.closure _ _ _ _ _ h2
      simp only [] at a
      split at hx
      · simp only [Except.ok.injEq, Prod.mk.injEq] at hx
        obtain ⟨rfl, _⟩ := hx
        rw [size_createDependencyLink]; simp only []; omega
      · simp only [Except.ok.injEq, Prod.mk.injEq] at hx
        obtain ⟨rfl, _⟩ := hx
        rw [Dfs.size_setNode, size_createDependencyLink]; simp only []; omega

theorem size_update (r : Root) (cur : Id) (r' : Root)
    (hx : runNodeUpdate (f + 1) r cur = .ok r') : r.nodes.size ≤ r'.nodes.size := by
  simp only [runNodeUpdate] at hx
  split at hx
  · cases hx
  · rename_i n hn
    split at hx
    · cases hx
    · rename_i r1 h1
      have s1 := size_unlink _ _ _ _ h1
      rw [Dfs.size_setNode] at s1
      split at hx
      · cases hx
      · rename_i n1 hn1
        split at hx
        · cases hx
        · cases hx
        · rename_i eq cl old _ _
          split at hx
          · cases hx
          · rename_i r2 h2
            have s2 := ih.dchildren _ _ _ h2
            rw [Dfs.size_setNode] at s2
            split at hx
            · simp only [Except.ok.injEq] at hx; subst hx; omega
            · split at hx
              · cases hx
              · rename_i r3 new obs h3
                have s3 := ih.closure _ _ _ _ _ h3
                simp only [] at s3
                split at hx
                · simp only [Except.ok.injEq] at hx; subst hx
                  rw [size_createDependencyLink]; simp only []; omega
                · simp only [Except.ok.injEq] at hx; subst hx
                  split
                  · rw [size_markDependentsDirty, Dfs.size_setNode, size_createDependencyLink]
                    simp only []; omega
                  · rw [Dfs.size_setNode, size_createDependencyLink]
                    simp only []; omega

theorem size_stmt (r : Root) (c : Ctx) (s : Stmt) (r' : Root) (c' : Ctx)
    (hx : execStmt (f + 1) r c s = .ok (r', c')) : r.nodes.size ≤ r'.nodes.size := by
  cases s <;> simp only [execStmt] at hx <;> repeat' (split at hx)
  all_goals try (cases hx; done)
  all_goals
    try (have a1 := ih.inner _ _ _ _ _ (by assumption))
    try (have a2 := ih.selector _ _ _ _ _ (by assumption))
    try (have a3 := ih.updates _ _ _ (by assumption))
    try (have a4 := ih.nodeUpdates _ _ _ (by assumption))
    try (have a5 := ih.dnode _ _ _ (by assumption))
    try (have a6 := size_createNode (by assumption))
    try (have a7 := size_setSilent (by assumption))
    try (have a8 := size_trackAll _ _ (by assumption))
    try (have a9 := size_provideContext (by assumption))
    try (simp only [Except.ok.injEq, Prod.mk.injEq] at hx; obtain ⟨rfl, rfl⟩ := hx)
    try simp only [size_track, Dfs.size_setNode] at *
    omega

end step

theorem sizeAll : ∀ f, SizeAll f
  | 0 => sizeAll_zero
  | f + 1 =>
    have ih := sizeAll f
    { body := size_body ih, inner := size_inner ih, stmt := size_stmt ih, closure := size_closure ih,
      selector := size_selector ih, update := size_update ih, loop := size_loop ih,
      nodeUpdates := size_nodeUpdates ih, updates := size_updates ih, dnode := size_dnode ih,
      dchildren := size_dchildren ih, rest := size_rest ih, cleanups := size_cleanups ih,
      dlist := size_dlist ih }

/-- `disposeNode` never shrinks the arena, whatever the start state is -/
theorem disposeNode_size_le {fuel : Nat} {r r' : Root} {id : Id} (h : disposeNode fuel r id = .ok r') :
    r.nodes.size ≤ r'.nodes.size :=
  (sizeAll fuel).dnode _ _ _ h

theorem execStmt_size_le {fuel : Nat} {r r' : Root} {c c' : Ctx} {s : Stmt}
    (h : execStmt fuel r c s = .ok (r', c')) : r.nodes.size ≤ r'.nodes.size :=
  (sizeAll fuel).stmt _ _ _ _ _ h

/-! ### 2. the state `reinit` leaves -/

/-- the teardown half of `reinit` -/
def reinitDispose (fuel : Nat) (r : Root) : Except Panic Root :=
  match r.rootNode with
  | some id => disposeNode fuel r id
  | none => .ok r

/-- the second half of `reinit`: drain the arena, push a fresh root node, reset the rest -/
def drained (rd : Root) : Root :=
  { rd with nodes := (rd.nodes.map fun _ => none).push (some (freshNode (some 0) none)), tracker := none,
            current := some rd.nodes.size, rootNode := some rd.nodes.size, queue := [], batching := false }

theorem reinit_eq (fuel : Nat) (r : Root) :
    reinit fuel r = match reinitDispose fuel r with
      | .error e => .error e
      | .ok rd => .ok (drained rd) := by
  unfold reinit reinitDispose drained freshNode
  cases r.rootNode with
  | none => simp
  | some id => simp only [Array.size_map]; rfl

theorem reinit_ok {fuel : Nat} {r r' : Root} (h : reinit fuel r = .ok r') :
    ∃ rd, reinitDispose fuel r = .ok rd ∧ r' = drained rd := by
  rw [reinit_eq] at h
  split at h
  · cases h
  · rename_i rd hd
    cases h
    exact ⟨rd, hd, rfl⟩

theorem reinitDispose_size_le {fuel : Nat} {r rd : Root} (h : reinitDispose fuel r = .ok rd) :
    r.nodes.size ≤ rd.nodes.size := by
  unfold reinitDispose at h
  split at h
  · exact disposeNode_size_le h
  · cases h; exact Nat.le_refl _

theorem drained_size (rd : Root) : (drained rd).nodes.size = rd.nodes.size + 1 := by
  simp [drained]

theorem drained_get? (rd : Root) (j : Id) :
    (drained rd).get? j = if j = rd.nodes.size then some (freshNode (some 0) none) else none := by
  simp only [drained, Root.get?, Array.getElem?_push, Array.size_map, Array.getElem?_map]
  split
  · rfl
  · cases rd.nodes[j]? <;> rfl

theorem drained_get?_some {rd : Root} {j : Id} {n : Node} (h : (drained rd).get? j = some n) :
    j = rd.nodes.size ∧ n = freshNode (some 0) none := by
  rw [drained_get?] at h
  split at h
  · cases h; exact ⟨‹_›, rfl⟩
  · cases h

theorem drained_liveCount (rd : Root) : (drained rd).liveCount = 1 := by
  rw [liveCount_eq]
  simp [drained, List.countP_map]

theorem drained_rinv (rd : Root) : RInv (drained rd) := by
  refine ⟨?_, ?_, ⟨?_, ?_, ?_⟩, ?_, ?_, ?_, ?_, ?_⟩
  · intro i n hn; obtain ⟨_, rfl⟩ := drained_get?_some hn; simp [freshNode]
  · intro a b na nb ha hb; obtain ⟨_, rfl⟩ := drained_get?_some ha; obtain ⟨_, rfl⟩ := drained_get?_some hb; rfl
  · intro i n hn c hc; obtain ⟨_, rfl⟩ := drained_get?_some hn; simp [freshNode] at hc
  · intro i n hn; obtain ⟨_, rfl⟩ := drained_get?_some hn; simp [freshNode]
  · intro i n hn c hc; obtain ⟨_, rfl⟩ := drained_get?_some hn; simp [freshNode] at hc
  · intro i n hn c hc; obtain ⟨_, rfl⟩ := drained_get?_some hn; simp [freshNode] at hc
  · intro j m p hm hp; obtain ⟨_, rfl⟩ := drained_get?_some hm; simp [freshNode] at hp
  · intro i n hn; obtain ⟨_, rfl⟩ := drained_get?_some hn
    exact ⟨by simp [freshNode], by simp [freshNode], by simp [freshNode]⟩
  · intro c hc
    rw [drained_size]
    simp only [drained, Option.some.injEq] at hc; subst hc; exact Nat.lt_succ_self _
  · intro j m p np hm hp; obtain ⟨_, rfl⟩ := drained_get?_some hm; simp [freshNode] at hp

theorem drained_xinv (rd : Root) : XInv (drained rd) := by
  refine ⟨?_, fun _ => rfl, fun q hq => (by cases hq), fun q hq => (by cases hq)⟩
  intro i n hn
  obtain ⟨_, rfl⟩ := drained_get?_some hn
  exact ⟨fun _ _ => rfl, fun _ => rfl, fun hc => absurd rfl hc⟩

/-! ### 3. one step of a run over generations -/

/-- everything the generations proofs need about a successful `reinit` -/
theorem reinit_step {fuel : Nat} {r r' : Root} (h : reinit fuel r = .ok r') :
    RInv r' ∧ XInv r' ∧ r.nodes.size < r'.nodes.size ∧ ∀ j, j < r.nodes.size → r'.get? j = none := by
  obtain ⟨rd, hd, rfl⟩ := reinit_ok h
  have hs := reinitDispose_size_le hd
  refine ⟨drained_rinv rd, drained_xinv rd, by rw [drained_size]; omega, ?_⟩
  intro j hj
  rw [drained_get?, if_neg (Nat.ne_of_lt (Nat.lt_of_lt_of_le hj hs))]

/-- a program run from any state that satisfies the invariants -/
theorem runOps_step {fuel : Nat} {ops : List Stmt} {r r' : Root} {env env' : List Handle}
    (hI : RInv r) (hX : XInv r) (hE : EnvLt r.nodes.size env) (h : runOps fuel ops r env = .ok (r', env')) :
    RInv r' ∧ XInv r' ∧ EnvLt r'.nodes.size env' ∧ Grows r r' := by
  obtain ⟨i, g, e⟩ := runOps_pres fuel ops r env r' env' hI hE h
  have hs := runOps_safe fuel ops r env hI hE hX
  rw [h] at hs
  exact ⟨i, hs, e, g⟩

theorem runOps_no_unwrapNone {fuel : Nat} {ops : List Stmt} {r : Root} {env : List Handle}
    (hI : RInv r) (hX : XInv r) (hE : EnvLt r.nodes.size env) :
    runOps fuel ops r env ≠ .error .unwrapNone := by
  have hs := runOps_safe fuel ops r env hI hE hX
  intro e; rw [e] at hs; exact hs rfl

theorem reinit_no_unwrapNone {fuel : Nat} {r : Root} (hI : RInv r) (hX : XInv r) :
    reinit fuel r ≠ .error .unwrapNone := by
  intro e
  rw [reinit_eq] at e
  split at e
  · rename_i e' he
    cases e
    unfold reinitDispose at he
    split at he
    · exact (disposeNode_no_unwrapNone fuel r _ hI hX).1 he
    · cases he
  · cases e

end SycVerif.Reactive
