def hello := "world"
