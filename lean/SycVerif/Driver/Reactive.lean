import SycVerif.Model.Reactive
import SycVerif.Driver.Sexp
/-! Line-protocol front end for the reactive engine (E1): one whole program per request. -/
namespace SycVerif.Driver.ReactiveDrv
open SycVerif.Reactive SycVerif.Driver

def atomNat? : Sexp → Option Nat
  | .atom s => s.toNat?
  | _ => none
def atomInt? : Sexp → Option Int
  | .atom s => s.toInt?
  | _ => none

def readEx : Sexp → Option Ex
  | .atom "acc" => some .acc
  | .list [.atom "c", v] => (atomInt? v).map .const
  | .list [.atom "acc+", v] => (atomInt? v).map .accPlus
  | _ => none

def readEq : Sexp → Option EqKind
  | .atom "never" => some .never
  | .atom "same" => some .same
  | .atom "parity" => some .parity
  | _ => none

mutual
partial def readStmt : Sexp → Option Stmt
  | .list [.atom "read", h] => (atomNat? h).map .read
  | .list [.atom "readu", h] => (atomNat? h).map .readU
  | .list [.atom "track", h] => (atomNat? h).map .track
  | .list [.atom "ifpos", h, .list t, .list e] => do
    pure (.ifpos (← atomNat? h) (← readBody t) (← readBody e))
  | .list (.atom "untrack" :: b) => (readBody b).map .untrack
  | .list (.atom "component" :: b) => (readBody b).map .component
  | .list (.atom "on" :: .list deps :: b) => do
    pure (.on (← deps.mapM atomNat?) (← readBody b))
  | .list [.atom "signal", v] => (atomInt? v).map .signal
  | .list (.atom "memo" :: b) => (readBody b).map .memo
  -- a plain memo whose value TYPE is zero-sized in the harness: the same model statement (the model's plain
  -- memos are "always changed" whatever the value)
  | .list (.atom "zmemo" :: b) => (readBody b).map .memo
  | .list (.atom "selector" :: eq :: b) => do pure (.selector (← readEq eq) (← readBody b))
  | .list (.atom "effect" :: b) => (readBody b).map .effect
  | .list (.atom "scope" :: b) => (readBody b).map .scope
  | .list [.atom "set", h, e] => do pure (.set (← atomNat? h) (← readEx e))
  | .list [.atom "setsilent", h, e] => do pure (.setSilent (← atomNat? h) (← readEx e))
  | .list (.atom "cleanup" :: b) => (readBody b).map .cleanup
  | .list [.atom "dispose", h] => (atomNat? h).map .dispose
  | .list [.atom "disposecur"] => some .disposeCur
  | .list (.atom "batch" :: b) => (readBody b).map .batch
  | .list [.atom "provide", ty, e] => do pure (.provide (← atomNat? ty) (← readEx e))
  | .list [.atom "use", ty] => (atomNat? ty).map .use
  | .list (.atom "runin" :: h :: b) => do pure (.runIn (← atomNat? h) (← readBody b))
  | _ => none
partial def readBody : List Sexp → Option Body
  | [] => some .nil
  | s :: rest => do pure (.cons (← readStmt s) (← readBody rest))
end

def showPanic : Panic → String
  | .disposed => "disposed" | .updating => "updating" | .slotKey => "slotkey" | .cyclic => "cyclic"
  | .ctxDup => "ctxdup" | .unwrapNone => "unwrap" | .fuel => "fuel" | .badProgram => "badprogram"

def showObs (l : List Obs) : String :=
  ",".intercalate (l.map fun
    | .read id v => s!"{id}:{v}"
    | .ctx ty (some v) => s!"u{ty}:{v}"
    | .ctx ty none => s!"u{ty}:none")

def showEvent : Event → String
  | .run n obs res => s!"r{n}({showObs obs})={res}"
  | .cleanup tag obs => s!"c{tag}({showObs obs})"

/-- canonical observation of the state after a top-level operation -/
def showState (r : Root) : String :=
  let nodes := r.nodes.toList
  let alive := String.join (nodes.map fun o => if o.isSome then "1" else "0")
  let vals := ",".intercalate (nodes.map fun
    | none => "x"
    | some n => match n.value with | some v => toString v | none => "-")
  let edges := ",".intercalate (nodes.filterMap fun
    | none => none
    | some n => some s!"{n.children.length}/{n.dependents.length}/{n.dependencies.length}/{if n.dirty then 1 else 0}")
  s!"a={alive} v=[{vals}] n={r.liveCount} e=[{edges}]"

def fuelPerOp : Nat := 200000

/-- run the top-level statements one at a time; stop at the first panic -/
partial def runOps (r : Root) (env : List Handle) (k : Nat) : List Sexp → List String → List String
  | [], acc => acc
  | s :: rest, acc =>
    -- top level only: `RootHandle::dispose` (= `Root::reinit`), the program goes on in the new root
    if (match s with | .list [.atom "reinit"] => true | _ => false) then
      match reinit fuelPerOp { r with trace := [] } with
      | .error e => acc ++ [s!"{k}:panic={showPanic e}"]
      | .ok r1 =>
        let tr := " ".intercalate (r1.trace.map showEvent)
        runOps r1 env (k + 1) rest (acc ++ [s!"{k}:t=[{tr}] {showState r1}"])
    else
    match readStmt s with
    | none => acc ++ [s!"{k}:bad-op"]
    | some st =>
      let r0 := { r with trace := [] }
      match execStmt fuelPerOp r0 ⟨env, 0, []⟩ st with
      | .error e => acc ++ [s!"{k}:panic={showPanic e}"]
      | .ok (r1, c) =>
        let tr := " ".intercalate (r1.trace.map showEvent)
        runOps r1 c.env (k + 1) rest (acc ++ [s!"{k}:t=[{tr}] {showState r1}"])

/-- `reactive run (ops <stmt>…)` -/
def handle (line : String) : String :=
  match Sexp.parse line with
  | some (.list (.atom "ops" :: ops)) => " | ".intercalate (runOps Root.init [] 0 ops [])
  | _ => "bad-op"

end SycVerif.Driver.ReactiveDrv
