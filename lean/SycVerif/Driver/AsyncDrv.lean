import SycVerif.Model.Async
import SycVerif.Driver.Sexp
/-! Line-protocol front end for the async engine (E7). -/
namespace SycVerif.Driver.AsyncDrv
open SycVerif.Async SycVerif.Driver

/-- `(G)` (a signal in the current scope) and `(W)` (an effect watching the ambient boundary's loading state and reading
that signal) have no counterpart in the machine: they neither register tasks nor create scopes -/
def invisible : Sexp → Bool
  | .list [.atom "G"] => true
  | .list [.atom "W"] => true
  | _ => false

partial def readItem : Sexp → Option Item
  | .list (.atom "s" :: cs) => ((cs.filter (!invisible ·)).mapM readItem).map .scope
  | .list (.atom "b" :: cs) => ((cs.filter (!invisible ·)).mapM readItem).map .boundary
  | .list [.atom "t", .atom n] => n.toNat?.map .task
  -- `(x n)`: a task whose body disposes its own scope when it first resumes (see `xsOf`, `completeX`)
  | .list [.atom "x", .atom n] => n.toNat?.map .task
  -- `(u n)`: the loading resource `n` is read under the ambient boundary: one guard, released when the
  -- resource delivers = a task with one await point (completed by the event `rN`, see `usesOf`)
  | .list [.atom "u", .atom n] => n.toNat?.map .use
  | .list [.atom "R", .atom n] => n.toNat?.map .resource
  | _ => none

/-- the resource read by every task-like item, in creation order (`none` for ordinary tasks) -/
partial def usesOf : Sexp → List (Option Nat)
  | .list (.atom "s" :: cs) => cs.flatMap usesOf
  | .list (.atom "b" :: cs) => cs.flatMap usesOf
  | .list [.atom "t", .atom _] => [none]
  | .list [.atom "x", .atom _] => [none]
  | .list [.atom "u", .atom n] => [n.toNat?]
  | .list [.atom "R", .atom n] => [n.toNat?]      -- the fetch itself completes with the same event
  | _ => []

/-- per task-like item, in creation order: is it an `(x n)` task -/
partial def xFlags : Sexp → List Bool
  | .list (.atom "s" :: cs) => cs.flatMap xFlags
  | .list (.atom "b" :: cs) => cs.flatMap xFlags
  | .list [.atom "t", .atom _] => [false]
  | .list [.atom "x", .atom _] => [true]
  | .list [.atom "u", .atom _] => [false]
  | .list [.atom "R", .atom _] => [false]
  | _ => []

/-- the task numbers of the `(x n)` items -/
def xsOf (items : List Sexp) : List Nat :=
  let fl := items.flatMap xFlags
  (List.range fl.length).filter fun t => fl[t]? == some true

def showM (m : M) (from_ : Nat) (uses : List (Option Nat) := []) : String :=
  let nb := m.boundaries.length
  let ls := (List.range nb).map fun b =>
    match m.boundaries[b]? with
    | some bd => if scopeAlive m bd.innerScope then (if isLoading m (nb + 1) b then "1" else "0") else "x"
    | none => "?"
  -- a resource read has no body that resumes: only real tasks are logged
  -- which task is polled first within one executor turn is a scheduling detail: listed by task
  let polled := ((m.polls.drop from_).filter fun (t, _) => (uses[t]?.getD none).isNone)
  let polled := (polled.toArray.qsort fun a b => a.1 < b.1 || (a.1 == b.1 && a.2 > b.2)).toList
  let ps := polled.map fun (t, l) => s!"{t}.{l}"
  let g := if globalLoading m then "1" else "0"
  s!"L={String.join ls} G={g} P=[{",".intercalate ps}]"

def readEv (s : String) : Option Ev :=
  if s.startsWith "c" then (s.drop 1).toString.toNat?.map .complete
  else if s.startsWith "d" then (s.drop 1).toString.toNat?.map .dispose
  else none

/-- the events of a group `a+b+…` happen back to back, one executor turn afterwards: the disposals take
effect at once, the completed await points resume their tasks in that turn (if they were not aborted),
then the aborted tasks are dropped -/
def runGroup (uses : List (Option Nat)) (m : M) (g : String) (xs : List Nat := []) (fresh : Bool := false) : Option M :=
  let parts := g.splitOn "+"
  let disposes := parts.filterMap fun e => if e.startsWith "d" then (e.drop 1).toString.toNat? else none
  let completes : List Nat := parts.flatMap fun e =>
    if e.startsWith "c" then ((e.drop 1).toString.toNat?).toList
    else if e.startsWith "r" then
      match (e.drop 1).toString.toNat? with
      | some n => (List.range uses.length).filter fun t => uses[t]? == some (some n)
      | none => []
    else []
  if parts.any fun e => !(e.startsWith "d" || e.startsWith "c" || e.startsWith "r") then none else
  -- tasks that wait at an await point are resumed in the order in which their await points were completed; tasks that
  -- have never been polled (`fresh`: no executor turn since the creation) are polled in the order of their creation
  let completes := if fresh then (completes.toArray.qsort (· < ·)).toList else completes
  let m := disposes.foldl dispose m
  let m := completes.foldl (fun m t => if xs.contains t then completeX m t else complete m t) m
  some (drain m)

def runSuspense (uses : List (Option Nat)) (m : M) (evs : List String) (acc : List String) (xs : List Nat := [])
    (fresh : Bool := false) : List String :=
  match evs with
  | [] => acc
  | e :: es =>
    if (e.splitOn "+").length > 1 then
      match runGroup uses m e xs fresh with
      | none => acc ++ ["bad-op"]
      | some m' => runSuspense uses m' es (acc ++ [showM m' m.polls.length uses]) xs
    else
    if e.startsWith "r" then
      -- resource `n` delivers: every guard taken for it is released (the tasks standing for its reads
      -- complete, in creation order)
      match (e.drop 1).toString.toNat? with
      | none => acc ++ ["bad-op"]
      | some n =>
        let ts := (List.range uses.length).filter fun t => uses[t]? == some (some n)
        let m' := ts.foldl (fun m t => step m (.complete t)) m
        runSuspense uses m' es (acc ++ [showM m' m.polls.length uses]) xs
    else
    match readEv e with
    | none => acc ++ ["bad-op"]
    | some ev =>
      let m' := stepX xs m ev
      runSuspense uses m' es (acc ++ [showM m' m.polls.length uses]) xs

/-- `until_finished()` of every boundary (a waiter spawned in the boundary's scope): it has come back once the
boundary was seen not loading at an observation point after an executor turn, and stays so; derived from the `L=`
field of the observation lines (`1` loading, `0` not loading, `x` scope gone: the waiter went with it) -/
def addUntil (noInitialDrain : Bool) (lines : List String) : List String :=
  let step := fun (acc : List Char × Bool × List String) (line : String) =>
    let (u, first, out) := acc
    let l := ((line.splitOn " ").headD "").drop 2 |>.toString |>.toList      -- after `L=`
    let u := if u.isEmpty then l.map (fun _ => '0') else u
    let u' := if first && noInitialDrain then u
              else (List.zip u l).map fun (x, c) => if c == '0' then '1' else x
    (u', false, out ++ [line ++ " U=" ++ String.ofList u'])
  (lines.foldl step ([], true, [])).2.2

def showRes (r : Res) (alive : Bool) : String :=
  if !alive then "dead" else
  (match r.value with | some (k, d) => s!"v={k}:{d}" | none => "v=none") ++ (if r.loading then " l=1" else " l=0")

/-- one resource event (no output) -/
def resEv (r : Res) (alive : Bool) (e : String) : Option (Res × Bool) :=
  if e == "x" then some (r, false) else
  -- reads under boundaries that come and go do not change the resource
  if e == "u" || e == "y" then some (r, alive) else
  let ev : Option REv :=
    if e.startsWith "w" then (e.drop 1).toString.toNat?.map .write
    else if e.startsWith "f" then (e.drop 1).toString.toNat?.map .finish else none
  ev.map fun ev => (if alive then rstep r ev else r, alive)

def runResource (r : Res) (alive : Bool) (evs : List String) (acc : List String) : List String :=
  match evs with
  | [] => acc
  | e :: es =>
    if (e.splitOn "+").length > 1 then
      -- back-to-back events: the machine has no executor, so they are simply taken in order
      match (e.splitOn "+").foldlM (fun (s : Res × Bool) x => resEv s.1 s.2 x) (r, alive) with
      | none => acc ++ ["bad-op"]
      | some (r', alive') => runResource r' alive' es (acc ++ [showRes r' alive'])
    else
    if e == "x" then runResource r false es (acc ++ [showRes r false]) else
    if e == "u" || e == "y" then runResource r alive es (acc ++ [showRes r alive]) else
    let ev : Option REv :=
      if e.startsWith "w" then (e.drop 1).toString.toNat?.map .write
      else if e.startsWith "f" then (e.drop 1).toString.toNat?.map .finish else none
    match ev with
    | none => acc ++ ["bad-op"]
    | some ev =>
      -- after the owning scope was disposed nothing reacts any more
      let r' := if alive then rstep r ev else r
      runResource r' alive es (acc ++ [showRes r' alive])

/-- a subscriber of the resource value that reacts to a delivery by writing the dependency (once: only
when it differs from `c`): the write happens inside the completion; the model runs it right after -/
def runResourceFb (c : Nat) (r : Res) (alive : Bool) (evs : List String) (acc : List String) : List String :=
  match evs with
  | [] => acc
  | e :: es =>
    if e == "x" then runResourceFb c r false es (acc ++ [showRes r false]) else
    if e == "u" || e == "y" then runResourceFb c r alive es (acc ++ [showRes r alive]) else
    let ev : Option REv :=
      if e.startsWith "w" then (e.drop 1).toString.toNat?.map .write
      else if e.startsWith "f" then (e.drop 1).toString.toNat?.map .finish else none
    match ev with
    | none => acc ++ ["bad-op"]
    | some ev =>
      let r' := if alive then rstep r ev else r
      -- the subscriber runs whenever the value signal is set (a delivery) and, for a write, not at all
      let delivered := match ev with
        | .finish k => alive && k = r.started && !r.completedLatest
        | .write _ => false
      let r'' := if delivered && r'.dep != c then rstep r' (.write c) else r'
      runResourceFb c r'' alive es (acc ++ [showRes r'' alive])

/-- `resourceself`: the fetch future itself moves the dependency on to `c` (once it differs) as its last step: the completion of
the latest fetch is then a dependency change — that fetch is superseded while it is finishing and delivers nothing -/
def runResourceSelf (c : Nat) (r : Res) (alive : Bool) (evs : List String) (acc : List String) : List String :=
  match evs with
  | [] => acc
  | e :: es =>
    if e == "x" then runResourceSelf c r false es (acc ++ [showRes r false]) else
    if e == "u" || e == "y" then runResourceSelf c r alive es (acc ++ [showRes r alive]) else
    let ev : Option REv :=
      if e.startsWith "w" then (e.drop 1).toString.toNat?.map .write
      else if e.startsWith "f" then (e.drop 1).toString.toNat?.map .finish else none
    match ev with
    | none => acc ++ ["bad-op"]
    | some ev =>
      -- the machine step is `selfStep` (Model/Async.lean, Props/C13ReaderTasks.lean); a dead owner reacts to nothing
      let r' := if !alive then r else selfStep c r ev
      runResourceSelf c r' alive es (acc ++ [showRes r' alive])

def showResR (s : ResR) : String :=
  showRes s.res s.alive ++ " B=[" ++ ",".intercalate (s.readers.map fun r => if r.guard then "1" else "0") ++ "]"

def rrEv (e : String) : Option RREv :=
  if e == "u" then some .read else if e == "y" then some .dropOldest else if e == "x" then some .disposeOwner
  else if e.startsWith "w" then (e.drop 1).toString.toNat?.map fun v => .ev (.write v)
  else if e.startsWith "f" then (e.drop 1).toString.toNat?.map fun k => .ev (.finish k) else none

/-- `resourcerd`: as `resource`, and the loading state of every reader boundary is observed -/
def runResourceRd (s : ResR) (evs : List String) (acc : List String) : List String :=
  match evs with
  | [] => acc
  | e :: es =>
    match rrEv e with
    | none => acc ++ ["bad-op"]
    | some ev => let s' := rrStep s ev; runResourceRd s' es (acc ++ [showResR s'])

/-- `resourcerdfb`: readers observed, and a subscriber of the value that writes the dependency (to `c`, once it
differs) from inside a delivery: the write is a step of its own right after the delivery -/
def runResourceRdFb (c : Nat) (s : ResR) (evs : List String) (acc : List String) : List String :=
  match evs with
  | [] => acc
  | e :: es =>
    match rrEv e with
    | none => acc ++ ["bad-op"]
    | some ev =>
      let s' := rrStep s ev
      let delivered := match ev with
        | .ev (.finish k) => s.alive && k = s.res.started && !s.res.completedLatest
        | _ => false
      let s'' := if delivered && s'.res.dep != c then rrStep s' (.ev (.write c)) else s'
      runResourceRdFb c s'' es (acc ++ [showResR s''])

def rtEv (e : String) : Option RTEv :=
  if e.startsWith "t" then (e.drop 1).toString.toNat?.map .taskDone
  else if e == "v" then some .readTask
  else (rrEv e).map fun
    | .read => .read
    | .dropOldest => .dropOldest
    | .disposeOwner => .disposeOwner
    | .ev x => .ev x

def showResRT (s : ResRT) : String :=
  showRes s.base.res s.base.alive ++ " B=[" ++ ",".intercalate (s.loading.map fun b => if b then "1" else "0") ++ "]"

/-- `resourcerdt`: some reader boundaries (event `v`) also have a suspense task of their own (completed by `t<i>`): such a
boundary is loading while that task is pending OR the resource holds a guard for it (the boundary rule: its counter counts
both). A fold over `rtStep` (Model/Async.lean; theorems in Props/C13ReaderTasks.lean) -/
def runResourceRdT (s : ResRT) (evs : List String) (acc : List String) : List String :=
  match evs with
  | [] => acc
  | e :: es =>
    match rtEv e with
    | none => acc ++ ["bad-op"]
    | some ev => let s' := rtStep s ev; runResourceRdT s' es (acc ++ [showResRT s'])

/-- `resourcerdw`: readers observed, and the observer of every reader boundary writes the dependency (to `c`, once it differs)
when its boundary resolves: a delivery that releases at least one boundary is followed by that write. A fold over `rwStep` -/
def runResourceRdW (c : Nat) (s : ResR) (evs : List String) (acc : List String) : List String :=
  match evs with
  | [] => acc
  | e :: es =>
    match rrEv e with
    | none => acc ++ ["bad-op"]
    | some ev => let s' := rwStep c s ev; runResourceRdW c s' es (acc ++ [showResR s'])

/-- `resourcerdfx`: readers observed, and a subscriber of the value that disposes the owner of the resource from
inside a delivery -/
def runResourceRdFx (s : ResR) (evs : List String) (acc : List String) : List String :=
  match evs with
  | [] => acc
  | e :: es =>
    match rrEv e with
    | none => acc ++ ["bad-op"]
    | some ev =>
      let s' := rrStep s ev
      let delivered := match ev with
        | .ev (.finish k) => s.alive && k = s.res.started && !s.res.completedLatest
        | _ => false
      let s'' := if delivered then rrStep s' .disposeOwner else s'
      runResourceRdFx s'' es (acc ++ [showResR s''])

/-- `suspense <items> <ev,ev,…>` | `resource <dep0> <ev,ev,…>` | `resourcefb <dep0> <c> <ev,ev,…>` -/
def handle (line : String) : String :=
  match line.splitOn " " with
  | "resourcerdfx" :: d :: evs :: [] =>
    match d.toNat? with
    | some d => " | ".intercalate (runResourceRdFx (ResR.init d) (if evs == "-" then [] else evs.splitOn ",") [showResR (ResR.init d)])
    | none => "bad-op"
  | "resourcerdt" :: d :: evs :: [] =>
    match d.toNat? with
    | some d => " | ".intercalate (runResourceRdT (ResRT.init d) (if evs == "-" then [] else evs.splitOn ",") [showResRT (ResRT.init d)])
    | none => "bad-op"
  | "resourcerdw" :: d :: c :: evs :: [] =>
    match d.toNat?, c.toNat? with
    | some d, some c => " | ".intercalate (runResourceRdW c (ResR.init d) (if evs == "-" then [] else evs.splitOn ",") [showResR (ResR.init d)])
    | _, _ => "bad-op"
  | "resourcerdfb" :: d :: c :: evs :: [] =>
    match d.toNat?, c.toNat? with
    | some d, some c => " | ".intercalate (runResourceRdFb c (ResR.init d) (if evs == "-" then [] else evs.splitOn ",") [showResR (ResR.init d)])
    | _, _ => "bad-op"
  | "resourcerd" :: d :: evs :: [] =>
    match d.toNat? with
    | some d => " | ".intercalate (runResourceRd (ResR.init d) (if evs == "-" then [] else evs.splitOn ",") [showResR (ResR.init d)])
    | none => "bad-op"
  | "resource" :: d :: evs :: [] =>
    match d.toNat? with
    | some d => " | ".intercalate (runResource (Res.init d) true (if evs == "-" then [] else evs.splitOn ",") [showRes (Res.init d) true])
    | none => "bad-op"
  -- a subscriber of is_loading moves an odd dependency value on to the next one while the load is being
  -- announced, i.e. before the fetch function reads it: a write of an odd `v` is a write of `v + 1`
  | "resourcefl" :: d :: evs :: [] =>
    match d.toNat? with
    | some d =>
      let evl := (if evs == "-" then [] else evs.splitOn ",").map fun e =>
        if e.startsWith "w" then
          match (e.drop 1).toString.toNat? with
          | some v => if v % 2 == 1 then s!"w{v + 1}" else e
          | none => e
        else e
      " | ".intercalate (runResource (Res.init d) true evl [showRes (Res.init d) true])
    | none => "bad-op"
  | "resourcebo" :: d :: evs :: [] =>
    match d.toNat? with
    | some d =>
      let evl := if evs == "-" then [] else evs.splitOn ","
      let go := fun (acc : Option (Res × List String)) (e : String) =>
        match acc with
        | none => none
        | some (r, out) =>
          let ev : Option REv :=
            if e.startsWith "w" then (e.drop 1).toString.toNat?.map .write
            else if e.startsWith "f" then (e.drop 1).toString.toNat?.map .finish else none
          match ev with
          | none => none
          | some ev => let r' := boStep r ev; some (r', out ++ [showRes r' true])
      match evl.foldl go (some (boInit d, [showRes (boInit d) true])) with
      | some (_, out) => " | ".intercalate out
      | none => "bad-op"
    | none => "bad-op"
  | "resourceself" :: d :: c :: evs :: [] =>
    match d.toNat?, c.toNat? with
    | some d, some c => " | ".intercalate (runResourceSelf c (Res.init d) true (if evs == "-" then [] else evs.splitOn ",") [showRes (Res.init d) true])
    | _, _ => "bad-op"
  | "resourcefb" :: d :: c :: evs :: [] =>
    match d.toNat?, c.toNat? with
    | some d, some c =>
      -- at creation nothing is delivered yet: the subscriber sees `None`
      " | ".intercalate (runResourceFb c (Res.init d) true (if evs == "-" then [] else evs.splitOn ",") [showRes (Res.init d) true])
    | _, _ => "bad-op"
  -- D15 witness: no model beyond "the two destructors run once each and nothing stays loading"
  | ["special", "drop-under-borrow"] => "drops=1,2 | loading=0"
  | "suspense" :: rest =>
    match rest.getLast?, Sexp.parse (" ".intercalate rest.dropLast) with
    | some evs, some (.list (.atom "L" :: items0)) =>
      match (items0.filter (!invisible ·)).mapM readItem with
      | some items =>
        let m := buildItems M.init 0 none items
        -- a leading `n` (no executor turn before the first event) makes no difference to the model
        let evl := if evs == "-" then [] else evs.splitOn ","
        let noDrain := evl.head? == some "n"
        let evl := if noDrain then evl.drop 1 else evl
        " | ".intercalate (addUntil noDrain (runSuspense (items0.flatMap usesOf) m evl [showM m 0 (items0.flatMap usesOf)] (xsOf items0) noDrain))
      | none => "bad-op"
    | _, _ => "bad-op"
  | _ => "bad-op"

end SycVerif.Driver.AsyncDrv
