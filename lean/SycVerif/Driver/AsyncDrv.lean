import SycVerif.Model.Async
import SycVerif.Driver.Sexp
/-! Line-protocol front end for the async engine (E7). -/
namespace SycVerif.Driver.AsyncDrv
open SycVerif.Async SycVerif.Driver

partial def readItem : Sexp → Option Item
  | .list (.atom "s" :: cs) => (cs.mapM readItem).map .scope
  | .list (.atom "b" :: cs) => (cs.mapM readItem).map .boundary
  | .list [.atom "t", .atom n] => n.toNat?.map .task
  | _ => none

def showM (m : M) (from_ : Nat) : String :=
  let nb := m.boundaries.length
  let ls := (List.range nb).map fun b =>
    match m.boundaries[b]? with
    | some bd => if scopeAlive m bd.innerScope then (if isLoading m (nb + 1) b then "1" else "0") else "x"
    | none => "?"
  let ps := (m.polls.drop from_).map fun (t, l) => s!"{t}.{l}"
  let g := if globalLoading m then "1" else "0"
  s!"L={String.join ls} G={g} P=[{",".intercalate ps}]"

def readEv (s : String) : Option Ev :=
  if s.startsWith "c" then (s.drop 1).toString.toNat?.map .complete
  else if s.startsWith "d" then (s.drop 1).toString.toNat?.map .dispose
  else none

def runSuspense (m : M) (evs : List String) (acc : List String) : List String :=
  match evs with
  | [] => acc
  | e :: es =>
    match readEv e with
    | none => acc ++ ["bad-op"]
    | some ev =>
      let m' := step m ev
      runSuspense m' es (acc ++ [showM m' m.polls.length])

def showRes (r : Res) (alive : Bool) : String :=
  if !alive then "dead" else
  (match r.value with | some (k, d) => s!"v={k}:{d}" | none => "v=none") ++ (if r.loading then " l=1" else " l=0")

def runResource (r : Res) (alive : Bool) (evs : List String) (acc : List String) : List String :=
  match evs with
  | [] => acc
  | e :: es =>
    if e == "x" then runResource r false es (acc ++ [showRes r false]) else
    let ev : Option REv :=
      if e.startsWith "w" then (e.drop 1).toString.toNat?.map .write
      else if e.startsWith "f" then (e.drop 1).toString.toNat?.map .finish else none
    match ev with
    | none => acc ++ ["bad-op"]
    | some ev =>
      -- after the owning scope was disposed nothing reacts any more
      let r' := if alive then rstep r ev else r
      runResource r' alive es (acc ++ [showRes r' alive])

/-- `suspense <items> <ev,ev,…>` | `resource <dep0> <ev,ev,…>` -/
def handle (line : String) : String :=
  match line.splitOn " " with
  | "resource" :: d :: evs :: [] =>
    match d.toNat? with
    | some d => " | ".intercalate (runResource (Res.init d) true (if evs == "-" then [] else evs.splitOn ",") [showRes (Res.init d) true])
    | none => "bad-op"
  | "suspense" :: rest =>
    match rest.getLast?, Sexp.parse (" ".intercalate rest.dropLast) with
    | some evs, some (.list (.atom "L" :: items)) =>
      match items.mapM readItem with
      | some items =>
        let m := buildItems M.init 0 none items
        " | ".intercalate (runSuspense m (if evs == "-" then [] else evs.splitOn ",") [showM m 0])
      | none => "bad-op"
    | _, _ => "bad-op"
  | _ => "bad-op"

end SycVerif.Driver.AsyncDrv
