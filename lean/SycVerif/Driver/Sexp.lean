/-! Minimal S-expression reader shared by the drivers (trusted front end, not part of any proof). -/
namespace SycVerif.Driver

inductive Sexp where
  | atom (s : String)
  | list (l : List Sexp)
  deriving Inhabited, Repr

namespace Sexp

def tokenize (s : String) : List String := Id.run do
  let mut out : Array String := #[]
  let mut cur := ""
  for c in s.toList do
    if c == '(' || c == ')' then
      if cur != "" then out := out.push cur; cur := ""
      out := out.push (String.singleton c)
    else if c == ' ' || c == '\t' || c == '\n' || c == '\r' then
      if cur != "" then out := out.push cur; cur := ""
    else cur := cur.push c
  if cur != "" then out := out.push cur
  return out.toList

/-- parse one expression; returns it and the remaining tokens -/
partial def parseOne : List String → Option (Sexp × List String)
  | [] => none
  | "(" :: rest =>
    let rec go (acc : Array Sexp) (ts : List String) : Option (Sexp × List String) :=
      match ts with
      | [] => none
      | ")" :: r => some (.list acc.toList, r)
      | _ => match parseOne ts with
        | none => none
        | some (x, r) => go (acc.push x) r
    go #[] rest
  | ")" :: _ => none
  | a :: rest => some (.atom a, rest)

def parse (s : String) : Option Sexp :=
  match parseOne (tokenize s) with
  | some (x, []) => some x
  | _ => none

end Sexp
end SycVerif.Driver
