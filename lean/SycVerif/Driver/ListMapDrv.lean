import SycVerif.Model.ListMap
/-! Line-protocol front end for the list-mapping engine (E2). -/
namespace SycVerif.Driver.ListMapDrv
open SycVerif.ListMap

def parseList (s : String) : List Item :=
  if s == "-" || s == "" then [] else
  (s.splitOn ",").filterMap fun t =>
    match t.splitOn "." with
    | [k, p] => match k.toNat?, p.toNat? with
      | some k, some p => some ⟨k, p⟩
      | _, _ => none
    | _ => none

def showEv : Ev → String
  | .create c it => s!"c{c}:{it.key}.{it.payload}"
  | .dispose t => s!"d{t}"

def showStep (mapped : List Nat) (evs : List Ev) : String :=
  "[" ++ ",".intercalate (mapped.map toString) ++ "] {" ++ " ".intercalate (evs.map showEv) ++ "}"

def runKeyed : KState → List (List Item) → List String → List String
  | _, [], acc => acc
  | s, l :: ls, acc =>
    match mapKeyedStep s l with
    | .error .unwrapNone => acc ++ ["panic=unwrap"]
    | .error .index => acc ++ ["panic=index"]
    | .error .debugAssert => acc ++ ["panic=assert"]
    | .ok (s', evs) => runKeyed s' ls (acc ++ [showStep s'.mapped evs])

def runIndexed : IState → List (List Item) → List String → List String
  | _, [], acc => acc
  | s, l :: ls, acc =>
    match mapIndexedStep s l with
    | .error .unwrapNone => acc ++ ["panic=unwrap"]
    | .error .index => acc ++ ["panic=index"]
    | .error .debugAssert => acc ++ ["panic=assert"]
    | .ok (s', evs) => runIndexed s' ls (acc ++ [showStep s'.mapped evs])

/-- `keyed <l0;l1;…>` | `indexed <l0;l1;…>` : the first list is the initial value -/
def handle (args : List String) : String :=
  match args with
  | ["keyed", ls] => " | ".intercalate (runKeyed KState.init ((ls.splitOn ";").map parseList) [])
  -- the same with a key type whose hashes collide: the model knows keys by equality only
  | ["keyedc", ls] => " | ".intercalate (runKeyed KState.init ((ls.splitOn ";").map parseList) [])
  | ["indexed", ls] => " | ".intercalate (runIndexed IState.init ((ls.splitOn ";").map parseList) [])
  | _ => "bad-op"

end SycVerif.Driver.ListMapDrv
