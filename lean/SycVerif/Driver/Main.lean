import SycVerif.Driver.Route
import SycVerif.Driver.Num
/-! Native driver: one request per line on stdin (`<engine> <op> <args…>`), one reply per line. -/
open SycVerif.Driver

def dispatch (line : String) : String :=
  match line.trimAscii.toString.splitOn " " with
  | "route" :: args => Route.handle args
  | "num" :: args => Num.handle args
  | _ => "bad-op"

partial def loop (h : IO.FS.Stream) (out : IO.FS.Stream) : IO Unit := do
  let line ← h.getLine
  if line.isEmpty then return ()
  out.putStrLn (dispatch line)
  loop h out

def main : IO Unit := do
  let out ← IO.getStdout
  loop (← IO.getStdin) out
  out.flush
