import SycVerif.Driver.Route
import SycVerif.Driver.Num
import SycVerif.Driver.IsDynRead
import SycVerif.Driver.Reactive
import SycVerif.Driver.ListMapDrv
import SycVerif.Driver.SsrDrv
import SycVerif.Driver.AsyncDrv
import SycVerif.Driver.AssrDrv
import SycVerif.Driver.DomDrv
import SycVerif.Driver.ViewDrv
/-! Native driver: one request per line on stdin (`<engine> <op> <args…>`), one reply per line. -/
open SycVerif.Driver

def dispatch (line : String) : String :=
  let line := line.trimAscii.toString
  if line.startsWith "isdyn classify " then IsDynRead.handle (line.drop 15).toString else
  if line.startsWith "hydrate run " then ViewDrv.handleHydrate (line.drop 12).toString else
  if line.startsWith "view run " then ViewDrv.handle (line.drop 9).toString else
  if line.startsWith "async " then AsyncDrv.handle (line.drop 6).toString else
  if line.startsWith "assr " then AssrDrv.handle (line.drop 5).toString else
  if line.startsWith "ssr " then SsrDrv.handle ("(" ++ (line.drop 4).toString ++ ")") else
  -- D20 witness: handles of a disposed root stay dead when the root is re-used (no model beyond that)
  if line == "reactive special root-reuse" then "old_alive=0 new=100" else
  if line.startsWith "reactive run " then ReactiveDrv.handle (line.drop 13).toString else
  match line.splitOn " " with
  | "route" :: args => Route.handle args
  | "num" :: args => Num.handle args
  | "listmap" :: args => ListMapDrv.handle args
  | "dom" :: args => DomDrv.handle args
  | _ => "bad-op"

partial def loop (h : IO.FS.Stream) (out : IO.FS.Stream) : IO Unit := do
  let line ← h.getLine
  if line.isEmpty then return ()
  out.putStrLn (dispatch line)
  loop h out

def main : IO Unit := do
  let out ← IO.getStdout
  loop (← IO.getStdin) out
  out.flush
