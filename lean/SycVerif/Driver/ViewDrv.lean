import SycVerif.Model.DomView
import SycVerif.Model.Hydrate
import SycVerif.Driver.Sexp
/-! Line-protocol front end for the client-rendering engine (E8, part 2). -/
namespace SycVerif.Driver.ViewDrv
open SycVerif.DomView SycVerif.Driver

def readStr : Sexp → Option Str
  | .atom "e" => some []
  | .atom s => (s.splitOn ".").mapM (·.toNat?)
  | _ => none
def showStr (s : Str) : String := if s.isEmpty then "e" else ".".intercalate (s.map toString)

def VDList.ofList : List VD → VDList
  | [] => .nil | v :: vs => .cons v (VDList.ofList vs)
def VDAlts.ofList : List VDList → VDAlts
  | [] => .nil | v :: vs => .cons v (VDAlts.ofList vs)

/-- `(mx k g)`: site `k` of the harness's table of `view!`-macro pieces over signal `g`, read as the builder-made view it
is equivalent to (`mx_equiv` in harness/common/vd.rs) -/
def mxEquiv (k g : Nat) : VD :=
  let s (x : String) : Str := x.toList.map Char.toNat
  let dstr : VD := .dynView g (VDAlts.ofList [VDList.ofList [.text (s "even")], VDList.ofList [.text (s "odd")]])
  -- a `String` value interpolated by the macro: an ordinary dynamic region over the eight texts `dynTextStr (v % 8)`
  let dtxt : VD := .dynView g (VDAlts.ofList ((List.range 8).map fun i => VDList.ofList [.text (dynTextStr i)]))
  match k % 9 with
  | 0 => .el (s "p") [] (VDList.ofList [dstr])
  | 1 => .el (s "p") [] (VDList.ofList [dtxt])
  | 2 => .el (s "span") [] (VDList.ofList [dtxt])
  | 3 => dstr
  | 4 => .el (s "div") [(s "title", AttrV.dyn g)] .nil
  | 5 => .el (s "span") [] (VDList.ofList [dstr])
  | 6 => .el (s "div") [(s "hidden", AttrV.dynBool g)] (VDList.ofList [.text (s "x"), dtxt])
  | 7 => .el (s "title") [] (VDList.ofList [dtxt])
  | _ => .el (s "style") [] (VDList.ofList [.text (s "p"), dtxt])

mutual
partial def readVD : Sexp → Option VD
  | .list [.atom "mx", .atom k, .atom g] => do pure (mxEquiv (← k.toNat?) (← g.toNat?))
  | .list [.atom "el", tag, .list (.atom "A" :: as), .list (.atom "C" :: cs)] => do
    let as ← as.mapM fun
      | .list [n, .list [.atom "s", v]] => do pure ((← readStr n), AttrV.static (← readStr v))
      | .list [n, .list [.atom "d", .atom g]] => do pure ((← readStr n), AttrV.dyn (← g.toNat?))
      | .list [n, .list [.atom "b", .atom g]] => do pure ((← readStr n), AttrV.dynBool (← g.toNat?))
      -- the same attributes built as a closure that returns a signal: same meaning
      | .list [n, .list [.atom "D", .atom g]] => do pure ((← readStr n), AttrV.dyn (← g.toNat?))
      | .list [n, .list [.atom "B", .atom g]] => do pure ((← readStr n), AttrV.dynBool (← g.toNat?))
      | _ => none
    pure (.el (← readStr tag) as (VDList.ofList (← cs.mapM readVD)))
  | .list [.atom "text", s] => (readStr s).map .text
  | .list [.atom "dtext", .atom g] => g.toNat?.map .dynText
  -- a dynamic child whose closure returns `&'static str`: not the String specialisation but an ordinary dynamic
  -- view (two markers) over the two texts "even" / "odd"
  | .list [.atom "dstr", .atom g] => do
    let ev : Str := "even".toList.map Char.toNat
    let od : Str := "odd".toList.map Char.toNat
    pure (.dynView (← g.toNat?) (VDAlts.ofList [VDList.ofList [.text ev], VDList.ofList [.text od]]))
  | .list (.atom "dview" :: .atom g :: alts) => do
    let alts ← alts.mapM fun
      | .list (.atom "alt" :: vs) => do pure (VDList.ofList (← vs.mapM readVD))
      | _ => none
    pure (.dynView (← g.toNat?) (VDAlts.ofList alts))
  -- an input-less dynamic region: the model treats it as a dynamic view over a signal that the case
  -- never writes (the harness guarantees that), which has the same markers and never re-renders
  | .list (.atom "dview0" :: .atom g :: alts) => do
    let alts ← alts.mapM fun
      | .list (.atom "alt" :: vs) => do pure (VDList.ofList (← vs.mapM readVD))
      | _ => none
    pure (.dynView (← g.toNat?) (VDAlts.ofList alts))
  | .list (.atom "show" :: .atom g :: cs) => do pure (.show (← g.toNat?) (VDList.ofList (← cs.mapM readVD)))
  | .list (.atom "frag" :: cs) => do pure (.frag (VDList.ofList (← cs.mapM readVD)))
  | .list (.atom "nohydrate" :: cs) => do pure (.noHydrate (VDList.ofList (← cs.mapM readVD)))
  -- a cleanup of the page (it writes a signal when the render scope / the root is torn down, i.e. after
  -- everything the case observes): no node
  | .list [.atom "oncleanup", .atom _, .atom _] => pure (.frag .nil)
  -- a write made while the view is built (top level only; the driver applies it to the store up front,
  -- see `storeAfterBuild`): no node
  | .list [.atom "setnow", .atom _, .atom _] => pure (.frag .nil)
  | _ => none
end

/-- canonical node names: numbered by first appearance in document order over the whole history -/
abbrev Names := List (Nat × Nat)
def nameOf (m : Names) (id : Nat) : Names × Nat :=
  match m.find? (·.1 == id) with
  | some (_, c) => (m, c)
  | none => (m ++ [(id, m.length)], m.length)

def sortAttrs (as : List (Str × Str)) : List (String × String) :=
  ((as.map fun (n, v) => (showStr n, showStr v)).toArray.qsort (fun a b => a.1 < b.1)).toList

mutual
partial def showTree (m : Names) : DTree → Names × String
  | .elem id tag attrs cs =>
    let (m, c) := nameOf m id
    let (m, body) := showTrees m cs
    (m, s!"E{c}:{showStr tag}[" ++ ";".intercalate ((sortAttrs attrs).map fun (n, v) => n ++ "=" ++ v) ++ "]{" ++ body ++ "}")
  | .text id s => let (m, c) := nameOf m id; (m, s!"T{c}:{showStr s}")
  | .comment id => let (m, c) := nameOf m id; (m, s!"C{c}")
partial def showTrees (m : Names) : List DTree → Names × String
  | [] => (m, "")
  | t :: ts =>
    let (m, a) := showTree m t
    let (m, b) := showTrees m ts
    (m, if b.isEmpty then a else a ++ "," ++ b)
end

/-- visible tree: comments dropped, adjacent text merged; only elements carry a (canonical) identity -/
partial def visTrees (m : Names) (ts : List DTree) : Names × String :=
  let step := fun (acc : Names × List String × Str) (t : DTree) =>
    let (m, parts, pending) := acc
    match t with
    | .text _ s => (m, parts, pending ++ s)
    | .comment _ => (m, parts, pending)
    | .elem id tag attrs cs =>
      let parts := if pending.isEmpty then parts else parts ++ ["T:" ++ showStr pending]
      let (m, c) := nameOf m id
      let (m, body) := visTrees m cs
      (m, parts ++ [s!"E{c}:{showStr tag}[" ++ ";".intercalate ((sortAttrs attrs).map fun (n, v) => n ++ "=" ++ v) ++ "]{" ++ body ++ "}"], [])
  let (m, parts, pending) := ts.foldl step (m, [], [])
  let parts := if pending.isEmpty then parts else parts ++ ["T:" ++ showStr pending]
  (m, ",".intercalate parts)

def runWritesVis (σ : Store) (inst : InstList) (k : Nat) (m : Names) : List String → List String → List String
  | [], acc => acc
  | w :: ws, acc =>
    match w.splitOn "=" with
    | [i, v] =>
      match i.toNat?, v.toNat? with
      | some i, some v =>
        let σ' := σ.set i v
        let (inst', k') := updateList σ' i inst k
        let (m', out) := visTrees m (domList σ' inst')
        runWritesVis σ' inst' k' m' ws (acc ++ [out])
      | _, _ => acc ++ ["bad-op"]
    | _ => acc ++ ["bad-op"]

open SycVerif.Hydrate in
partial def showCh : List Ch → String
  | [] => ""
  | c :: r =>
    let a := match c with
      | .text s => "T:" ++ showStr s
      | .cmt s => "C:" ++ showStr s
      | .el t as ks =>
        let adopted := as.head? == some ([1], [])
        let as := as.filter (fun a => a.1 != [1] && a.1 != [2])
        (if adopted then "E*:" else "E:") ++ showStr t ++ "[" ++ ";".intercalate ((sortAttrs as).map fun (n, v) => n ++ "=" ++ v) ++ "]{" ++ showCh ks ++ "}"
    let b := showCh r
    if b.isEmpty then a else a ++ "," ++ b

/-- top-level `(setnow g v)` items, in document order: the state the page starts from. The signals they write
are displayed by dynamic texts and attributes only (patched in place, also on the server), so the built
view is the view of the final store. -/
def storeAfterBuild (σ : List Nat) (vs : List Sexp) : List Nat :=
  vs.foldl (fun σ v => match v with
    | .list [.atom "setnow", .atom g, .atom x] =>
      match g.toNat?, x.toNat? with
      | some g, some x => if g < σ.length then σ.set g x else σ
      | _, _ => σ
    | _ => σ) σ

/-- `hydrate run (L vd…) <store> <writes> <ssr>`: after hydration the document shows what a client
render shows (the SSR string itself is checked by C08/C12); the model ignores the last field -/
def handleHydrate (line : String) : String :=
  -- lists under hydration are not modelled: the real code cannot hydrate them at all (known finding D17)
  if (line.splitOn "(keyed ").length > 1 then "unmodelled: Keyed under hydration (D17)" else
  -- NoSsr (a placeholder on the server, client-rendered children after mount) is judged by the oracle only
  if (line.splitOn "(nossr").length > 1 then "unmodelled: NoSsr" else
  -- children built before the `NoHydrate` frame that holds them (keyed elements under a keyless one): oracle only
  if (line.splitOn "(prenh ").length > 1 then "unmodelled: prebuilt children in a NoHydrate frame" else
  let parts := (line.splitOn " ").dropLast
  match parts.getLast?, parts.dropLast.getLast? with
  | some writes, some store =>
    match Sexp.parse (" ".intercalate (parts.dropLast.dropLast)) with
    | some (.list (.atom "L" :: vs0)) =>
      match vs0.mapM readVD with
      | some vs =>
        let σ := storeAfterBuild (if store == "-" then [] else (store.splitOn ",").filterMap (·.toNat?)) vs0
        let (inst, k) := mountList σ (VDList.ofList vs) 0
        let (m, out) := visTrees [] (domList σ inst)
        let h := match SycVerif.Hydrate.hydrateView σ inst with
          | .ok ch => "H=" ++ showCh ch
          | .error .markerNotFound => "H=panic-marker"
          | .error .textNotFound => "H=panic-text"
          | .error .shape => "H=panic-shape"
        -- afterwards: `NoHydrate` islands stay as the server rendered them (a dynamic view re-created
        -- later mounts its `NoHydrate` children normally: the hydration phase is over)
        " | ".intercalate (runWritesVis σ (SycVerif.Hydrate.afterHydrationList σ inst) k m (if writes == "-" then [] else writes.splitOn ",") [h, out])
      | none => "bad-op"
    | _ => "bad-op"
  | _, _ => "bad-op"

def parseStore (s : String) : Store := if s == "-" then [] else (s.splitOn ",").filterMap (·.toNat?)

def runWrites (σ : Store) (inst : InstList) (k : Nat) (m : Names) : List String → List String → List String
  | [], acc => acc
  | w :: ws, acc =>
    match w.splitOn "=" with
    | [i, v] =>
      match i.toNat?, v.toNat? with
      | some i, some v =>
        let σ' := σ.set i v
        let (inst', k') := updateList σ' i inst k
        let (m', out) := showTrees m (domList σ' inst')
        runWrites σ' inst' k' m' ws (acc ++ [out])
      | _, _ => acc ++ ["bad-op"]
    | _ => acc ++ ["bad-op"]

/-! known finding D26 (a region without a parent re-runs before the view is mounted): the same syntactic condition as
in the harness; such cases are answered `unmodelled` on both sides and judged by the oracle alone -/
mutual
partial def hasDynamic : VD → Bool
  | .el _ attrs cs => attrs.any (fun a => match a.2 with | .static _ => false | _ => true) || hasDynamicL cs
  | .text _ => false
  | .frag cs => hasDynamicL cs
  | .noHydrate cs => hasDynamicL cs
  | _ => true
partial def hasDynamicL : VDList → Bool
  | .nil => false
  | .cons v r => hasDynamic v || hasDynamicL r
end
partial def altsToList : VDAlts → List VDList
  | .nil => []
  | .cons a r => a :: altsToList r
mutual
/-- regions that have no parent element when the view is built: (signal, number of choices, has dynamic content) -/
partial def regionsOf : VD → List (Nat × Nat × Bool)
  | .frag cs => regionsOfL cs
  | .noHydrate cs => regionsOfL cs
  | .dynView g alts =>
    let as := altsToList alts
    (g, as.length, as.any hasDynamicL) :: as.flatMap regionsOfL
  | .show g cs => (g, 2, hasDynamicL cs) :: regionsOfL cs
  | _ => []
partial def regionsOfL : VDList → List (Nat × Nat × Bool)
  | .nil => []
  | .cons v r => regionsOf v ++ regionsOfL r
end
def isD26 (σ0 : List Nat) (vs0 : List Sexp) (vs : List VD) : Bool :=
  let regs := vs.flatMap regionsOf
  vs0.any fun v => match v with
    | .list [.atom "setnow", .atom g, .atom x] =>
      match g.toNat?, x.toNat? with
      | some g, some x => regs.any fun (h, m, dyn) => h == g && (m == 0 || (σ0.getD g 0) % m != x % m || dyn)
      | _, _ => false
    | _ => false

/-- `view run (L vd…) <store> <i=v,i=v,…>` -/
def handle (line : String) : String :=
  let parts := line.splitOn " "
  match parts.getLast?, parts.dropLast.getLast? with
  | some writes, some store =>
    match Sexp.parse (" ".intercalate (parts.dropLast.dropLast)) with
    | some (.list (.atom "L" :: vs0)) =>
      match vs0.mapM readVD with
      | some vs =>
        if isD26 (parseStore store) vs0 vs then "unmodelled: a parentless region re-ran before mounting (D26)" else
        let σ := storeAfterBuild (parseStore store) vs0
        let (inst, k) := mountList σ (VDList.ofList vs) 0
        let (m, out) := showTrees [] (domList σ inst)
        " | ".intercalate (runWrites σ inst k m (if writes == "-" then [] else writes.splitOn ",") [out])
      | none => "bad-op"
    | _ => "bad-op"
  | _, _ => "bad-op"

end SycVerif.Driver.ViewDrv
