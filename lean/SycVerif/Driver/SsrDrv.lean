import SycVerif.Spec.Html
import SycVerif.Driver.Sexp
/-! Line-protocol front end for the SSR engine (E6). Strings cross as code points `a.b.c` (`e` = empty). -/
namespace SycVerif.Driver.SsrDrv
open SycVerif.Ssr SycVerif.Html SycVerif.Driver

def readStr : Sexp → Option Str
  | .atom "e" => some []
  | .atom s => (s.splitOn ".").mapM (·.toNat?)
  | _ => none

def showStr (s : Str) : String := if s.isEmpty then "e" else ".".intercalate (s.map toString)

def readBool : Sexp → Option Bool
  | .atom "t" => some true | .atom "f" => some false | _ => none

mutual
partial def readNode : Sexp → Option SsrNode
  | .list [.atom "el", tag, .list (.atom "A" :: as), .list (.atom "B" :: bs), .list (.atom "C" :: cs), inner, hk] => do
    let tag ← readStr tag
    let as ← as.mapM fun | .list [n, v] => do pure ((← readStr n), (← readStr v)) | _ => none
    let bs ← bs.mapM fun | .list [n, v] => do pure ((← readStr n), (← readBool v)) | _ => none
    let cs ← cs.mapM readNode
    let inner ← match inner with
      | .atom "N" => some none
      | .list [.atom "S", s] => (readStr s).map some
      | _ => none
    let hk ← match hk with
      | .atom "N" => some none
      | .list [.atom "K", .atom s, .atom e] => do pure (some ((← s.toNat?), (← e.toNat?)))
      | _ => none
    pure (.element tag as bs (SsrList.ofList cs) inner hk)
  | .list [.atom "td", s] => (readStr s).map .textDynamic
  | .list [.atom "ts", s] => (readStr s).map .textStatic
  | .list [.atom "m"] => some .marker
  | .list (.atom "dyn" :: cs) => do pure (.dynamic (SsrList.ofList (← cs.mapM readNode)))
  | _ => none
end

def VList.ofList : List VSpec → VList
  | [] => .nil
  | v :: vs => .cons v (VList.ofList vs)

mutual
partial def readV : Sexp → Option VSpec
  | .list [.atom "el", tag, .list (.atom "A" :: as), .list (.atom "B" :: bs), .list (.atom "C" :: cs)] => do
    let tag ← readStr tag
    let as ← as.mapM fun
      | .list [n, .atom "N"] => do pure ((← readStr n), none)
      | .list [n, .list [.atom "S", v]] => do pure ((← readStr n), some (← readStr v))
      | _ => none
    let bs ← bs.mapM fun | .list [n, v] => do pure ((← readStr n), (← readBool v)) | _ => none
    pure (.el tag as bs (VList.ofList (← cs.mapM readV)))
  | .list [.atom "text", s] => (readStr s).map .text
  | .list [.atom "dtext", s] => (readStr s).map .dynText
  | .list (.atom "dview" :: cs) => do pure (.dynView (VList.ofList (← cs.mapM readV)))
  | .list (.atom "frag" :: cs) => do pure (.fragment (VList.ofList (← cs.mapM readV)))
  -- `(batch2 ab|ba (X a…) (Y b…))`: two dynamic regions whose flags are set by a batch made while the view is built
  -- (`ab`: the flag of the first region is written first); the key order is the model's (`Ssr.build`, `VSpec.batch2`)
  | .list [.atom "batch2", .atom r, .list (.atom "X" :: as), .list (.atom "Y" :: bs)] => do
    let ab ← (if r == "ab" then some true else if r == "ba" then some false else none)
    pure (.batch2 ab (VList.ofList (← as.mapM readV)) (VList.ofList (← bs.mapM readV)))
  | _ => none
end

def showRes : Except Panic Str → String
  | .ok s => "ok " ++ showStr s
  | .error .voidWithContent => "panic=void"
  | .error .innerHtmlAndChildren => "panic=inner"

partial def showH : HNode → String
  | .element t as cs => "<" ++ showStr t ++ String.join (as.map fun (n, v) => " " ++ showStr n ++ "=" ++ showStr v) ++ ">"
      ++ String.join (cs.map showH) ++ "</>"
  | .text s => "T(" ++ showStr s ++ ")"
  | .comment s => "C(" ++ showStr s ++ ")"

/-- `ssr nodes (L node…)` → rendered string; `ssr view (L vspec…)` → render_to_string;
`ssr parse <str>` → the reference reader's tree -/
def handle (line : String) : String :=
  match Sexp.parse line with
  | some (.list [.atom "nodes", .list (.atom "L" :: ns)]) =>
    match ns.mapM readNode with
    | some ns => showRes (renderList (SsrList.ofList ns))
    | none => "bad-op"
  | some (.list [.atom "view", .list (.atom "L" :: vs)]) =>
    match vs.mapM readV with
    | some vs => showRes (renderToString (VList.ofList vs))
    | none => "bad-op"
  | some (.list [.atom "parse", s]) =>
    match readStr s with
    | some s => match parse s with
      | some t => "tree " ++ String.join (t.map showH)
      | none => "noparse"
    | none => "bad-op"
  | _ => "bad-op"

end SycVerif.Driver.SsrDrv
