import SycVerif.Model.Route
/-! Line-protocol front end for the route engine (E3). -/
namespace SycVerif.Driver.Route
open SycVerif.Route

def parseStr (s : String) : Str :=
  if s == "e" || s == "" then [] else (s.splitOn ".").filterMap (·.toNat?)

def parseStrList (s : String) : List Str :=
  if s == "-" then [] else (s.splitOn ",").map parseStr

def parsePat (s : String) : List Seg :=
  if s == "-" then [] else
  (s.splitOn ",").map fun t =>
    if t == "P" then Seg.dynParam
    else if t == "D" then Seg.dynSegs
    else Seg.param (parseStr (t.drop 1).toString)

def showStr (s : Str) : String :=
  if s.isEmpty then "e" else ".".intercalate (s.map toString)

def showStrList (l : List Str) : String :=
  if l.isEmpty then "-" else ",".intercalate (l.map showStr)

def showCap : Cap → String
  | .one s => "1:" ++ showStr s
  | .many l => "m:" ++ showStrList l

def showRes : MatchRes → String
  | .none => "none"
  | .unreachable => "unreachable"
  | .some caps => "some " ++ (if caps.isEmpty then "-" else ";".intercalate (caps.map showCap))

partial def showFVal : FVal → String
  | .num n => s!"n{n}"
  | .str s => "s" ++ showStr s
  | .strs l => "S[" ++ showStrList l ++ "]"
  | .nums l => "N[" ++ ",".intercalate (l.map toString) ++ "]"
  | .sub v fs => s!"R({v} " ++ " ".intercalate (fs.map showFVal) ++ ")"

/-- Transcription of the derived enums in `harness/native/src/route.rs`. -/
def str (s : String) : Str := s.toList.map Char.toNat

def innerEnum : Enum0 :=
  { variants := [
      ⟨[], []⟩,                                                -- 0 Index        "/"
      ⟨[.param (str "item"), .dynParam], [.u32]⟩,              -- 1 Item(u32)    "/item/<id>"
      ⟨[.param (str "name"), .dynParam], [.str]⟩,              -- 2 Name{name}   "/name/<name>"
      ⟨[.param (str "all"), .dynSegs], [.vecStr]⟩ ],           -- 3 All(Vec<String>) "/all/<rest..>"
    notFound := 4 }

def mainEnum : Enum1 :=
  { variants := [
      ⟨[], []⟩,                                                              -- 0 Home "/"
      ⟨[.param (str "a"), .dynParam], [.u32]⟩,                               -- 1 A(u32) "/a/<id>"
      ⟨[.param (str "a"), .dynParam, .dynParam], [.u32, .str]⟩,              -- 2 AB{id,name}
      ⟨[.param (str "nums"), .dynSegs], [.vecU32]⟩,                          -- 3 Nums(Vec<u32>)
      ⟨[.param (str "files"), .dynSegs, .param (str "end")], [.vecStr]⟩,     -- 4 Files{path}
      ⟨[.param (str "x"), .dynSegs, .param (str "mid"), .dynParam], [.vecStr, .u32]⟩, -- 5 X(..)
      ⟨[.param (str "sub"), .dynSegs], [.nested]⟩,                           -- 6 Sub(Inner)
      ⟨[.dynParam, .dynParam, .dynSegs, .param (str "end"), .dynSegs],
        [.str, .u32, .vecU32, .vecStr]⟩ ],                                   -- 7 Big(..)
    notFound := 8, inner := innerEnum }

def overlapEnum : Enum1 :=
  { variants := [
      ⟨[.dynParam], [.u32]⟩,                                   -- 0 Num(u32)   "/<n>"
      ⟨[.dynParam], [.str]⟩,                                   -- 1 Word(String) "/<s>"
      ⟨[.dynSegs, .param (str "end")], [.vecU32]⟩,             -- 2 NumsEnd(Vec<u32>) "/<ns..>/end"
      ⟨[.dynSegs, .param (str "end")], [.vecStr]⟩,             -- 3 StrsEnd{ss} "/<ss..>/end"
      ⟨[.dynSegs], [.vecU32]⟩ ],                               -- 4 AllNums(Vec<u32>) "/<all..>"
    notFound := 5, inner := innerEnum }

/-- unit variants declared after variants with captures that accept the same path -/
def shadowEnum : Enum1 :=
  { variants := [
      ⟨[.dynParam], [.str]⟩,                                   -- 0 Page{page}  "/<page>"
      ⟨[.param (str "about")], []⟩,                            -- 1 About       "/about"  (never first)
      ⟨[.param (str "u"), .dynParam], [.u32]⟩,                 -- 2 User(u32)   "/u/<id>"
      ⟨[.param (str "u"), .param (str "me")], []⟩,             -- 3 Me          "/u/me"
      ⟨[.param (str "u"), .param (str "7")], []⟩,              -- 4 Seven       "/u/7"    (never first)
      ⟨[.param (str "docs"), .dynSegs], [.vecStr]⟩,            -- 5 Docs(Vec<String>)
      ⟨[.param (str "docs"), .param (str "index")], []⟩,       -- 6 DocsIndex   (never first)
      ⟨[.param (str "n"), .dynSegs], [.vecU32]⟩,               -- 7 Ns(Vec<u32>)
      ⟨[.param (str "n"), .param (str "x"), .param (str "y")], []⟩, -- 8 NXY (x, y are not numbers)
      ⟨[], []⟩ ],                                              -- 9 Home "/"
    notFound := 10, inner := innerEnum }

def enumTable : List Enum1 :=
  [mainEnum, overlapEnum, { variants := innerEnum.variants, notFound := innerEnum.notFound, inner := innerEnum }, shadowEnum]

def showRoute : Except Panic (Nat × List FVal) → String
  | .error .indexOutOfBounds => "panic index"
  | .error .unwrapNone => "panic unwrap"
  | .error .unreachable => "panic unreachable"
  | .ok (v, fs) => s!"ok {v}" ++ String.join (fs.map fun f => " " ++ showFVal f)

/-- `path <pat> <path>` | `segs <enum> <path>` | `url <enum> <url>` | `urlsegs <url>` -/
def handle (args : List String) : String :=
  match args with
  | ["path", pat, path] => showRes (matchPath (parsePat pat) (parseStrList path))
  | ["segs", e, path] =>
    match e.toNat? >>= (enumTable[·]?) with
    | some en => showRoute (matchRoute1 en (parseStrList path))
    | none => "bad-op"
  | ["url", e, url] =>
    match e.toNat? >>= (enumTable[·]?) with
    | some en => showRoute (matchRoute1 en (urlSegments (parseStr url)))
    | none => "bad-op"
  | ["urlsegs", url] => showStrList (urlSegments (parseStr url))
  | _ => "bad-op"

end SycVerif.Driver.Route
