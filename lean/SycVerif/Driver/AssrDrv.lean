import SycVerif.Model.Assr
import SycVerif.Driver.Sexp
/-! Line-protocol front end for the async SSR engine (E9). -/
namespace SycVerif.Driver.AssrDrv
open SycVerif.Assr SycVerif.Driver

def AVs.ofList : List AV → AVs
  | [] => .nil
  | v :: r => .cons v (AVs.ofList r)

partial def readAV : Sexp → Option AV
  | .list (.atom "el" :: .atom t :: cs) => do pure (.el (← t.toNat?) (AVs.ofList (← cs.mapM readAV)))
  | .list [.atom "text", .atom n] => n.toNat?.map .text
  | .list (.atom "susp" :: cs) => do pure (.susp (AVs.ofList (← cs.mapM readAV)))
  | .list (.atom "acomp" :: .atom t :: cs) => do pure (.acomp (← t.toNat?) (AVs.ofList (← cs.mapM readAV)))
  | .list (.atom "dynr" :: cs) => do pure (.dynr (AVs.ofList (← cs.mapM readAV)))
  | .list [.atom "res", .atom r] => r.toNat?.map .res
  | _ => none

def enc (s : String) : String :=
  if s.isEmpty then "e" else ".".intercalate (s.toList.map fun c => toString c.toNat)

def readEv (s : String) : Option Ev :=
  if s.startsWith "c" then (s.drop 1).toString.toNat?.map .c
  else if s.startsWith "r" then (s.drop 1).toString.toNat?.map .r
  else none

/-- blocking: the render returns at the first moment nothing is loading; it shows the view of that moment -/
def runBlock (w : World) (evs : List Ev) : String :=
  let rec go (w : World) (k : Nat) : List Ev → String
    | [] => if globalLoading w.st then "hang" else s!"done@{k} html={enc (renderList w.st .final w.tree)}"
    | e :: es =>
      if globalLoading w.st then go (step w e) (k + 1) es
      else s!"done@{k} html={enc (renderList w.st .final w.tree)}"
  go w 0 evs

def allSent (w : World) : Bool := w.closed

/-- the fragments of one event, listed by boundary key (the order of unrelated fragments is not specified) -/
def sendReadySorted (fuel : Nat) (w : World) : World × List String :=
  let sentBefore := w.st.bds.map (·.sent)
  let (w', _) := sendReady fuel w []
  let ks := (List.range w'.st.bds.length).filter fun i =>
    (w'.st.bds[i]?.map (·.sent)).getD false && !(sentBefore.getD i false)
  (w', ks.map fun i => fragmentOf w' (i + 1))

def runStream (w : World) (evs : List Ev) : String :=
  let shell := shellOf w
  let fuel := fun (w : World) => w.st.bds.length + 1
  let rec go (w : World) (k : Nat) (ended : Option Nat) (acc : List String) : List Ev → List String × Option Nat
    | [] => (acc, ended)
    | e :: es =>
      let w := step w e
      let (w, out) := sendReadySorted (fuel w) w
      let ended := match ended with | some x => some x | none => if allSent w then some (k + 1) else none
      go w (k + 1) ended (acc ++ [s!"e{k + 1}:[{",".intercalate (out.map enc)}]"]) es
  let (w0, out0) := sendReadySorted (fuel w) w
  let ended0 := if allSent w0 then some 0 else none
  let (chunks, ended) := go w0 0 ended0 [s!"e0:[{",".intercalate (out0.map enc)}]"] evs
  s!"shell={enc shell} | {" | ".intercalate chunks} | end@{match ended with | some k => toString k | none => "-"}"

mutual
/-- tasks and resources of a view in order of first occurrence (pre-order) -/
def tasksOf : AV → List Nat × List Nat
  | .el _ cs => tasksOfList cs
  | .susp cs => tasksOfList cs
  | .dynr cs => tasksOfList cs
  | .acomp t cs => let (a, b) := tasksOfList cs; (t :: a, b)
  | .res r => ([], [r])
  | .text _ => ([], [])
def tasksOfList : AVs → List Nat × List Nat
  | .nil => ([], [])
  | .cons v rest => let (a, b) := tasksOf v; let (c, d) := tasksOfList rest; (a ++ c, b ++ d)
end

def allEvents (vs : AVs) : List Ev :=
  let (ts, rs) := tasksOfList vs
  ts.eraseDups.map .c ++ rs.eraseDups.map .r

/-- `<mode> (L av…) <ev,ev,…>` -/
def handle (line : String) : String :=
  match line.splitOn " " with
  | mode :: rest =>
    match rest.getLast?, Sexp.parse (" ".intercalate rest.dropLast) with
    | some evs, some (.list (.atom "L" :: vs)) =>
      match vs.mapM readAV, (if evs == "-" then some [] else (evs.splitOn ",").mapM readEv) with
      | some vs, some evs =>
        let vs := AVs.ofList vs
        match mode with
        | "sync" => let w := World.start .sync vs; s!"html={enc (renderList w.st .final w.tree)}"
        | "block" => runBlock (World.start .block vs) evs
        | "stream" => runStream (World.start .stream vs) evs
        -- the same renders with complete renders of OTHER modes (of an unrelated view) carried out on the
        -- thread between the events: a render does not see other renders, so the model ignores them
        | "blockx" => runBlock (World.start .block vs) evs
        | "streamx" => runStream (World.start .stream vs) evs
        -- likewise with a render of the other asynchronous mode (of an unrelated view) that was started before, is
        -- suspended, and finishes between the events
        | "blockp" => runBlock (World.start .block vs) evs
        | "streamp" => runStream (World.start .stream vs) evs
        -- a render after a cancelled one is a fresh render: every task (in order of first occurrence in
        -- the view), then every resource, completes
        | "blockdrop" => runBlock (World.start .block vs) (allEvents vs)
        -- likewise a streaming render after an abandoned streaming render on the same executor
        | "streamdrop1" => runStream (World.start .stream vs) (allEvents vs)
        | _ => "bad-op"
      | _, _ => "bad-op"
    | _, _ => "bad-op"
  | _ => "bad-op"

end SycVerif.Driver.AssrDrv
