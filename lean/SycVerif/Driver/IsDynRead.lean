import SycVerif.Model.IsDyn
import SycVerif.Driver.Sexp
/-! S-expression → `Ex` (written with tools/gen_isdyn.py). Format: `(ctor field…)`, options `N` / `(S x)`,
lists `(L x…)`, init `N` / `(I e opt)`, arms `(A (arm p g b)…)`, booleans `t` / `f`. -/
namespace SycVerif.Driver.IsDynRead
open SycVerif.IsDyn SycVerif.Driver

def readBool : Sexp → Option Bool
  | .atom "t" => some true
  | .atom "f" => some false
  | _ => none

mutual
partial def readEx : Sexp → Option Ex
  | .list [.atom "lit"] => some .lit
  | .list [.atom "path"] => some .path
  | .list [.atom "closure", a0] => do
    let f0 ← readEx a0
    pure (.closure f0)
  | .list [.atom "field", a0] => do
    let f0 ← readEx a0
    pure (.field f0)
  | .list [.atom "paren", a0] => do
    let f0 ← readEx a0
    pure (.paren f0)
  | .list [.atom "group", a0] => do
    let f0 ← readEx a0
    pure (.group f0)
  | .list [.atom "tuple", a0] => do
    let f0 ← readExList a0
    pure (.tuple f0)
  | .list [.atom "array", a0] => do
    let f0 ← readExList a0
    pure (.array f0)
  | .list [.atom "repeat", a0, a1] => do
    let f0 ← readEx a0
    let f1 ← readEx a1
    pure (.repeat f0 f1)
  | .list [.atom "struct", a0, a1] => do
    let f0 ← readExList a0
    let f1 ← readExOpt a1
    pure (.struct_ f0 f1)
  | .list [.atom "cast", a0] => do
    let f0 ← readEx a0
    pure (.cast f0)
  | .list [.atom "macro", a0] => do
    let f0 ← readBool a0
    pure (.macro_ f0)
  | .list [.atom "block", a0] => do
    let f0 ← readStList a0
    pure (.block f0)
  | .list [.atom "const", a0] => do
    let f0 ← readStList a0
    pure (.const_ f0)
  | .list [.atom "loop", a0] => do
    let f0 ← readStList a0
    pure (.loop_ f0)
  | .list [.atom "while", a0, a1] => do
    let f0 ← readEx a0
    let f1 ← readStList a1
    pure (.while_ f0 f1)
  | .list [.atom "forLoop", a0, a1, a2] => do
    let f0 ← readPt a0
    let f1 ← readEx a1
    let f2 ← readStList a2
    pure (.forLoop f0 f1 f2)
  | .list [.atom "break", a0] => do
    let f0 ← readExOpt a0
    pure (.break_ f0)
  | .list [.atom "continue"] => some .continue_
  | .list [.atom "let", a0, a1] => do
    let f0 ← readPt a0
    let f1 ← readEx a1
    pure (.let_ f0 f1)
  | .list [.atom "match", a0, a1] => do
    let f0 ← readEx a0
    let f1 ← readArms a1
    pure (.match_ f0 f1)
  | .list [.atom "if", a0, a1, a2] => do
    let f0 ← readEx a0
    let f1 ← readStList a1
    let f2 ← readExOpt a2
    pure (.if_ f0 f1 f2)
  | .list [.atom "unary", a0] => do
    let f0 ← readEx a0
    pure (.unary f0)
  | .list [.atom "binary", a0, a1] => do
    let f0 ← readEx a0
    let f1 ← readEx a1
    pure (.binary f0 f1)
  | .list [.atom "index", a0, a1] => do
    let f0 ← readEx a0
    let f1 ← readEx a1
    pure (.index f0 f1)
  | .list [.atom "range", a0, a1] => do
    let f0 ← readExOpt a0
    let f1 ← readExOpt a1
    pure (.range f0 f1)
  | .list [.atom "call", a0, a1] => do
    let f0 ← readEx a0
    let f1 ← readExList a1
    pure (.call f0 f1)
  | .list [.atom "methodCall", a0, a1] => do
    let f0 ← readEx a0
    let f1 ← readExList a1
    pure (.methodCall f0 f1)
  | .list [.atom "await", a0] => do
    let f0 ← readEx a0
    pure (.await_ f0)
  | .list [.atom "try", a0] => do
    let f0 ← readEx a0
    pure (.try_ f0)
  | .list [.atom "assign", a0, a1] => do
    let f0 ← readEx a0
    let f1 ← readEx a1
    pure (.assign f0 f1)
  | .list [.atom "reference", a0] => do
    let f0 ← readEx a0
    pure (.reference f0)
  | .list [.atom "rawAddr", a0] => do
    let f0 ← readEx a0
    pure (.rawAddr f0)
  | .list [.atom "return", a0] => do
    let f0 ← readExOpt a0
    pure (.return_ f0)
  | .list [.atom "yield", a0] => do
    let f0 ← readExOpt a0
    pure (.yield_ f0)
  | .list [.atom "async", a0] => do
    let f0 ← readStList a0
    pure (.async_ f0)
  | .list [.atom "unsafe", a0] => do
    let f0 ← readStList a0
    pure (.unsafe_ f0)
  | .list [.atom "tryBlock", a0] => do
    let f0 ← readStList a0
    pure (.tryBlock f0)
  | .list [.atom "infer"] => some .infer_
  | .list [.atom "verbatim"] => some .verbatim
  | _ => none
partial def readPt : Sexp → Option Pt
  | .list [.atom "wild"] => some .wild
  | .list [.atom "lit"] => some .lit
  | .list [.atom "path"] => some .path
  | .list [.atom "rest"] => some .rest
  | .list [.atom "const", a0] => do
    let f0 ← readStList a0
    pure (.const_ f0)
  | .list [.atom "type", a0] => do
    let f0 ← readPt a0
    pure (.type_ f0)
  | .list [.atom "paren", a0] => do
    let f0 ← readPt a0
    pure (.paren f0)
  | .list [.atom "or", a0] => do
    let f0 ← readPtList a0
    pure (.or_ f0)
  | .list [.atom "tuple", a0] => do
    let f0 ← readPtList a0
    pure (.tuple f0)
  | .list [.atom "tupleStruct", a0] => do
    let f0 ← readPtList a0
    pure (.tupleStruct f0)
  | .list [.atom "slice", a0] => do
    let f0 ← readPtList a0
    pure (.slice f0)
  | .list [.atom "struct", a0] => do
    let f0 ← readPtList a0
    pure (.struct_ f0)
  | .list [.atom "range", a0, a1] => do
    let f0 ← readExOpt a0
    let f1 ← readExOpt a1
    pure (.range f0 f1)
  | .list [.atom "reference", a0, a1] => do
    let f0 ← readBool a0
    let f1 ← readPt a1
    pure (.reference f0 f1)
  | .list [.atom "ident", a0, a1, a2] => do
    let f0 ← readBool a0
    let f1 ← readBool a1
    let f2 ← readPtOpt a2
    pure (.ident f0 f1 f2)
  | .list [.atom "macro", a0] => do
    let f0 ← readBool a0
    pure (.macro_ f0)
  | .list [.atom "verbatim"] => some .verbatim
  | _ => none
partial def readSt : Sexp → Option St
  | .list [.atom "expr", a0] => do
    let f0 ← readEx a0
    pure (.expr f0)
  | .list [.atom "macro", a0] => do
    let f0 ← readBool a0
    pure (.macro_ f0)
  | .list [.atom "local", a0, a1] => do
    let f0 ← readPt a0
    let f1 ← readInit a1
    pure (.local_ f0 f1)
  | .list [.atom "item"] => some .item
  | _ => none
partial def readExOpt : Sexp → Option ExOpt
  | .atom "N" => some .none
  | .list [.atom "S", x] => do let e ← readEx x; pure (.some e)
  | _ => none
partial def readPtOpt : Sexp → Option PtOpt
  | .atom "N" => some .none
  | .list [.atom "S", x] => do let p ← readPt x; pure (.some p)
  | _ => none
partial def readInit : Sexp → Option Init
  | .atom "N" => some .none
  | .list [.atom "I", e, d] => do let e ← readEx e; let d ← readExOpt d; pure (.some e d)
  | _ => none
partial def readExList : Sexp → Option ExList
  | .list (.atom "L" :: xs) => xs.foldrM (fun x acc => do let e ← readEx x; pure (.cons e acc)) .nil
  | _ => none
partial def readPtList : Sexp → Option PtList
  | .list (.atom "L" :: xs) => xs.foldrM (fun x acc => do let p ← readPt x; pure (.cons p acc)) .nil
  | _ => none
partial def readStList : Sexp → Option StList
  | .list (.atom "L" :: xs) => xs.foldrM (fun x acc => do let s ← readSt x; pure (.cons s acc)) .nil
  | _ => none
partial def readArms : Sexp → Option ArmList
  | .list (.atom "A" :: xs) => xs.foldrM (fun x acc => match x with
      | .list [.atom "arm", p, g, b] => do
        let p ← readPt p; let g ← readExOpt g; let b ← readEx b; pure (.cons p g b acc)
      | _ => none) .nil
  | _ => none
end

/-- `isdyn classify <sexp>` → `dyn` | `static` (+ the spec's verdict `ev=…`) -/
def handle (line : String) : String :=
  match Sexp.parse line >>= readEx with
  | none => "bad-op"
  | some e => (if emitsDynamic e then "dyn" else "static")

end SycVerif.Driver.IsDynRead
