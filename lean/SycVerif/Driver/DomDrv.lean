import SycVerif.Model.Reconcile
import SycVerif.Model.ListMap
/-! Line-protocol front end for the DOM engine (E8), part 1: reconcile_fragments. -/
namespace SycVerif.Driver.DomDrv
open SycVerif.Reconcile

def parseL (s : String) : List Nat := if s == "-" then [] else (s.splitOn ",").filterMap (·.toNat?)
def showL (l : List Nat) : String := if l.isEmpty then "-" else ",".intercalate (l.map toString)

open SycVerif.ListMap in
def parseItems (s : String) : List Item :=
  if s == "-" || s == "" then [] else
  (s.splitOn ",").filterMap fun t =>
    match t.splitOn "." with
    | [k, p] => match k.toNat?, p.toNat? with
      | some k, some p => some ⟨k, p⟩
      | _, _ => none
    | _ => none

/-- children of the list's parent: 0 = text "pre", 1 = start marker, 2 = end marker, 3 = text "post",
10 + c = the `<li>` created by `map_fn` call `c` -/
def showKids (ch : List Nat) (table : List (Nat × SycVerif.ListMap.Item)) : String :=
  ",".intercalate (ch.map fun n =>
    if n == 0 then "Tpre" else if n == 3 then "Tpost" else if n == 1 || n == 2 then "M" else
    match table.find? (·.1 == n - 10) with
    | some (c, it) => s!"{it.key}#{c}={it.payload}"
    | none => "?")

open SycVerif.ListMap in
def newCalls (evs : List Ev) : List (Nat × Item) :=
  evs.filterMap fun | .create c it => some (c, it) | _ => none

/-- `Keyed`/`Indexed` = list mapping (Model/ListMap) + `reconcile_fragments` over the nodes between the
two markers plus the end marker. `step` abstracts over keyed/indexed. -/
def runList {σ : Type} (step : σ → List SycVerif.ListMap.Item → Option (σ × List Nat × List SycVerif.ListMap.Ev))
    (s : σ) (ch : List Nat) (table : List (Nat × SycVerif.ListMap.Item)) : List (List SycVerif.ListMap.Item) → List String → List String
  | [], acc => acc
  | l :: ls, acc =>
    match step s l with
    | none => acc ++ ["panic"]
    | some (s', mapped, evs) =>
      let table := table ++ newCalls evs
      let old := nodesBetween ch 1 2
      match reconcile ch (old ++ [2]) (mapped.map (· + 10) ++ [2]) with
      | .ok ch' => runList step s' ch' table ls (acc ++ [showKids ch' table])
      | .error _ => acc ++ ["panic"]

open SycVerif.ListMap in
def handleList (keyed : Bool) (lists : List (List Item)) : String :=
  match lists with
  | [] => "bad-op"
  | l0 :: rest =>
    if keyed then
      let step := fun (s : KState) l => match mapKeyedStep s l with | .ok (s', evs) => some (s', s'.mapped, evs) | .error _ => none
      match step KState.init l0 with
      | none => "panic"
      | some (s0, m0, evs) =>
        let table := newCalls evs
        let ch := [0, 1] ++ m0.map (· + 10) ++ [2, 3]
        " | ".intercalate (runList step s0 ch table rest [showKids ch table])
    else
      let step := fun (s : IState) l => match mapIndexedStep s l with | .ok (s', evs) => some (s', s'.mapped, evs) | .error _ => none
      match step IState.init l0 with
      | none => "panic"
      | some (s0, m0, evs) =>
        let table := newCalls evs
        let ch := [0, 1] ++ m0.map (· + 10) ++ [2, 3]
        " | ".intercalate (runList step s0 ch table rest [showKids ch table])

/-- `reconcile <pre> <a> <b> <post>` → children of the parent afterwards;
`keyed|indexed <l0;l1;…>` → children of the list's parent after the mount and after every update -/
def handle (args : List String) : String :=
  match args with
  | ["reconcile", pre, a, b, post] =>
    let (pre, a, b, post) := (parseL pre, parseL a, parseL b, parseL post)
    match reconcile (pre ++ a ++ post) a b with
    | .ok ch => "ok " ++ showL ch
    | .error .notFound => "panic=notfound"
    | .error .index => "panic=index"
    | .error .unwrapNone => "panic=unwrap"
    | .error .fuel => "panic=fuel"
  | [op, evs] =>
    if op == "keyeddyn" || op == "indexeddyn" then
      -- item views that are a dynamic view at their top level: the region is a function of (list, toggle)
      let shape := fun (l : List SycVerif.ListMap.Item) (t : Nat) =>
        ",".intercalate (["Tpre", "M"] ++ (l.map fun it => if t % 3 == 0 then s!"M,li{it.key},M" else if t % 3 == 1 then s!"M,b{it.key},i{it.key},M" else "M,M") ++ ["M", "Tpost"])
      let r := (evs.splitOn ";").foldl (fun (acc : List SycVerif.ListMap.Item × Nat × List String) e =>
        let (l, t, out) := acc
        let (l, t) := if e.startsWith "l" then (parseItems (e.drop 1).toString, t) else (l, ((e.drop 1).toString.toNat?).getD t)
        (l, t, out ++ [shape l t])) ([], 0, [])
      " | ".intercalate r.2.2
    else if op == "keyedsel" || op == "indexedsel" then
      -- the list prop is a derived value returning one of two list signals: the component follows the DISPLAYED list
      let st := (evs.splitOn ";").foldl (fun (acc : List SycVerif.ListMap.Item × List SycVerif.ListMap.Item × Bool × List (List SycVerif.ListMap.Item)) e =>
        let (lx, ly, sl, out) := acc
        let (lx, ly, sl) :=
          if e.startsWith "x" then (parseItems (e.drop 1).toString, ly, sl)
          else if e.startsWith "y" then (lx, parseItems (e.drop 1).toString, sl)
          else (lx, ly, e == "s1")
        (lx, ly, sl, out ++ [if sl then ly else lx])) ([], [], false, [[]])
      handleList (op == "keyedsel") st.2.2.2
    else if op == "keyed" || op == "keyedc" then handleList true ((evs.splitOn ";").map parseItems)
    else if op == "indexed" then handleList false ((evs.splitOn ";").map parseItems)
    else "bad-op"
  | _ => "bad-op"

end SycVerif.Driver.DomDrv
