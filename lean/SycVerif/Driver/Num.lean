import SycVerif.Model.Lerp
import SycVerif.Model.EasingGen
/-! Line-protocol front end for the numeric engine (E5): floats cross as IEEE bit patterns. -/
namespace SycVerif.Driver.Num
open SycVerif

def tyRange : String → Option (Int × Int)
  | "i8" => some (-128, 127) | "u8" => some (0, 255)
  | "i16" => some (-32768, 32767) | "u16" => some (0, 65535)
  | "i32" => some (-2147483648, 2147483647) | "u32" => some (0, 4294967295)
  | "i64" => some (-9223372036854775808, 9223372036854775807) | "u64" => some (0, 18446744073709551615)
  | _ => none

/-- rolling digest shared with the harness: acc*31 + v mod (2^64 - 59) -/
def digestStep (acc v : Nat) : Nat := (acc * 31 + v) % 18446744073709551557

def easeTable : List (String × (Float32 → Float32)) := Easing.table

/-- `lerp <ty> <a> <b> <tbits>` → integer; `lerparr <ty> <a,a,..> <b,b,..> <tbits>`;
`ease <name> <tbits>` → result bits; `easerange <name> <from> <count> <step>` → xor/sum digest of
the result bits over `from, from+step, …` (used for dense grids). -/
def handle (args : List String) : String :=
  match args with
  | ["lerp", ty, a, b, t] =>
    match tyRange ty, a.toInt?, b.toInt?, t.toNat? with
    | some (lo, hi), some a, some b, some t =>
      toString (Lerp.lerpInt Lerp.f32Ops lo hi a b (Float32.ofBits t.toUInt32))
    | _, _, _, _ => "bad-op"
  | ["lerparr", ty, as, bs, t] =>
    match tyRange ty, t.toNat? with
    | some (lo, hi), some t =>
      let p := fun (s : String) => (s.splitOn ",").filterMap (·.toInt?)
      ",".intercalate ((Lerp.lerpArr Lerp.f32Ops lo hi (p as) (p bs) (Float32.ofBits t.toUInt32)).map toString)
    | _, _ => "bad-op"
  | ["flerp", "f32", a, b, t] =>
    match a.toNat?, b.toNat?, t.toNat? with
    | some a, some b, some t =>
      let r := Lerp.lerpF32 (Float32.ofBits a.toUInt32) (Float32.ofBits b.toUInt32) (Float32.ofBits t.toUInt32)
      if r.isNaN then "nan" else toString r.toBits
    | _, _, _ => "bad-op"
  | ["flerp", "f64", a, b, t] =>
    match a.toNat?, b.toNat?, t.toNat? with
    | some a, some b, some t =>
      let r := Lerp.lerpF64 (Float.ofBits a.toUInt64) (Float.ofBits b.toUInt64) (Float32.ofBits t.toUInt32)
      if r.isNaN then "nan" else toString r.toBits
    | _, _, _ => "bad-op"
  | ["flerparr", a, b, t] =>
    -- `[f32; N]`: pointwise
    match t.toNat? with
    | some t =>
      let p := fun (s : String) => (s.splitOn ",").filterMap (·.toNat?)
      ",".intercalate ((List.zip (p a) (p b)).map fun (x, y) =>
        let r := Lerp.lerpF32 (Float32.ofBits x.toUInt32) (Float32.ofBits y.toUInt32) (Float32.ofBits t.toUInt32)
        if r.isNaN then "nan" else toString r.toBits)
    | none => "bad-op"
  | ["ease", name, t] =>
    match easeTable.lookup name, t.toNat? with
    | some f, some t => toString (f (Float32.ofBits t.toUInt32)).toBits
    | _, _ => "bad-op"
  | ["easerange", name, from_, count, step] =>
    match easeTable.lookup name, from_.toNat?, count.toNat?, step.toNat? with
    | some f, some s, some n, some st =>
      let r := Nat.fold n (fun i _ (acc : Nat × Nat) =>
        let v := (f (Float32.ofBits (s + i * st).toUInt32)).toBits.toNat
        (digestStep acc.1 v, if v / 2^23 % 256 = 255 then acc.2 + 1 else acc.2)) (0, 0)
      s!"{r.1} nonfinite={r.2}"
    | _, _, _, _ => "bad-op"
  | ["easegrid", name, n] =>
    match easeTable.lookup name, n.toNat? with
    | some f, some n =>
      let r := Nat.fold (n + 1) (fun i _ (acc : Nat × Nat) =>
        let v := (f (Float32.ofNat i / Float32.ofNat n)).toBits.toNat
        (digestStep acc.1 v, if v / 2^23 % 256 = 255 then acc.2 + 1 else acc.2)) (0, 0)
      s!"{r.1} nonfinite={r.2}"
    | _, _ => "bad-op"
  | ["lerpgrid", ty, a, k] =>
    -- all targets b of an 8-bit type and all scalars j/k, j = 0..k
    match tyRange ty, a.toInt?, k.toNat? with
    | some (lo, hi), some a, some k =>
      let nb := (hi - lo + 1).toNat
      let r := Nat.fold nb (fun bi _ (acc : Nat) =>
        Nat.fold (k + 1) (fun j _ (acc : Nat) =>
          let v := Lerp.lerpInt Lerp.f32Ops lo hi a (lo + bi) (Float32.ofNat j / Float32.ofNat k)
          digestStep acc (v - lo).toNat) acc) 0
      toString r
    | _, _, _ => "bad-op"
  | _ => "bad-op"

end SycVerif.Driver.Num
