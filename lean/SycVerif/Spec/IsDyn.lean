/-
Specification for C18, independent of the classifier: `ev e` ("contains an evaluation") holds iff,
outside closures, `const` blocks, items and nested `view!` bodies, the expression contains a function call,
method call, macro invocation other than a bare `view!`, `await`, `?` or an `=` assignment.
-/
import SycVerif.Model.IsDyn
namespace SycVerif.IsDyn

mutual
def ev : Ex → Bool
  | .lit => false
  | .path => false
  | .closure _ => false
  | .field f0 => ev f0
  | .paren f0 => ev f0
  | .group f0 => ev f0
  | .tuple f0 => evL f0
  | .array f0 => evL f0
  | .repeat f0 f1 => ev f0 || ev f1
  | .struct_ f0 f1 => evL f0 || evO f1
  | .cast f0 => ev f0
  | .macro_ f0 => !f0
  | .block f0 => evB f0
  | .const_ _ => false
  | .loop_ f0 => evB f0
  | .while_ f0 f1 => ev f0 || evB f1
  | .forLoop f0 f1 f2 => evP f0 || ev f1 || evB f2
  | .break_ f0 => evO f0
  | .continue_ => false
  | .let_ f0 f1 => evP f0 || ev f1
  | .match_ f0 f1 => ev f0 || evA f1
  | .if_ f0 f1 f2 => ev f0 || evB f1 || evO f2
  | .unary f0 => ev f0
  | .binary f0 f1 => ev f0 || ev f1
  | .index f0 f1 => ev f0 || ev f1
  | .range f0 f1 => evO f0 || evO f1
  | .call _ _ => true
  | .methodCall _ _ => true
  | .await_ _ => true
  | .try_ _ => true
  | .assign _ _ => true
  | .reference f0 => ev f0
  | .rawAddr f0 => ev f0
  | .return_ f0 => evO f0
  | .yield_ f0 => evO f0
  | .async_ f0 => evB f0
  | .unsafe_ f0 => evB f0
  | .tryBlock f0 => evB f0
  | .infer_ => false
  | .verbatim => false
def evP : Pt → Bool
  | .wild => false
  | .lit => false
  | .path => false
  | .rest => false
  | .const_ _ => false
  | .type_ f0 => evP f0
  | .paren f0 => evP f0
  | .or_ f0 => evPL f0
  | .tuple f0 => evPL f0
  | .tupleStruct f0 => evPL f0
  | .slice f0 => evPL f0
  | .struct_ f0 => evPL f0
  | .range f0 f1 => evO f0 || evO f1
  | .reference _ f1 => evP f1
  | .ident _ _ f2 => evPO f2
  | .macro_ f0 => !f0
  | .verbatim => false
def evS : St → Bool
  | .expr f0 => ev f0
  | .macro_ f0 => !f0
  | .local_ f0 f1 => evP f0 || evI f1
  | .item => false
def evO : ExOpt → Bool
  | .none => false | .some e => ev e
def evL : ExList → Bool
  | .nil => false | .cons e es => ev e || evL es
def evPO : PtOpt → Bool
  | .none => false | .some p => evP p
def evPL : PtList → Bool
  | .nil => false | .cons p ps => evP p || evPL ps
def evI : Init → Bool
  | .none => false | .some e d => ev e || evO d
def evB : StList → Bool
  | .nil => false | .cons s ss => evS s || evB ss
def evA : ArmList → Bool
  | .nil => false | .cons p g b rest => evP p || evO g || ev b || evA rest
end

end SycVerif.IsDyn
