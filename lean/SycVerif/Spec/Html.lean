/-
Reference HTML reader for C08, written from the WHATWG tokenizer states the SSR output can reach
(data, tag open, end tag open, tag name, before/after attribute name, attribute name, before attribute
value, attribute value (double-quoted), after attribute value (quoted), markup declaration open,
comment start (+ `<!-->`), comment, comment end; character references amp/lt/gt/quot) plus a plain
stack-based tree builder that knows the void elements. Independent of the renderer.
Out of scope (stated in DESIGN.md): raw-text/RCDATA content models, implied end tags, foster
parenting, ASCII case folding of names, CR/NUL preprocessing.
-/
import SycVerif.Model.Ssr
namespace SycVerif.Html
open SycVerif.Ssr (Str lit)

inductive Token where
  | text (s : Str)
  | comment (s : Str)
  | startTag (name : Str) (attrs : List (Str × Str))
  | endTag (name : Str)
  deriving DecidableEq, Repr

/-- character references: `&amp;` `&lt;` `&gt;` `&quot;`; any other `&` is literal -/
def decode : Str → Str
  | 38 :: 97 :: 109 :: 112 :: 59 :: r => 38 :: decode r
  | 38 :: 108 :: 116 :: 59 :: r => 60 :: decode r
  | 38 :: 103 :: 116 :: 59 :: r => 62 :: decode r
  | 38 :: 113 :: 117 :: 111 :: 116 :: 59 :: r => 34 :: decode r
  | c :: r => c :: decode r
  | [] => []

def isAlpha (c : Nat) : Bool := (65 ≤ c && c ≤ 90) || (97 ≤ c && c ≤ 122)
def isSpace (c : Nat) : Bool := c == 32 || c == 9 || c == 10 || c == 12 || c == 13

/-- data state: characters up to the next `<` -/
def takeText : Str → Str × Str
  | [] => ([], [])
  | 60 :: r => ([], 60 :: r)
  | c :: r => let (t, rest) := takeText r; (c :: t, rest)

/-- tag name / attribute name: up to whitespace, `/`, `>`, `=` -/
def takeName : Str → Str × Str
  | [] => ([], [])
  | c :: r => if isSpace c || c == 47 || c == 62 || c == 61 then ([], c :: r) else
      let (t, rest) := takeName r; (c :: t, rest)

/-- double-quoted attribute value: up to the closing `"` (consumed); `none` if unterminated -/
def takeQuoted : Str → Option (Str × Str)
  | [] => none
  | 34 :: r => some ([], r)
  | c :: r => match takeQuoted r with
    | none => none
    | some (t, rest) => some (c :: t, rest)

/-- comment state after `<!--`: up to `-->` (consumed); `none` if unterminated -/
def takeComment : Str → Option (Str × Str)
  | [] => none
  | 45 :: 45 :: 62 :: r => some ([], r)
  | c :: r => match takeComment r with
    | none => none
    | some (t, rest) => some (c :: t, rest)

def skipSpace : Str → Str
  | c :: r => if isSpace c then skipSpace r else c :: r
  | [] => []

/-- attributes of a start tag, up to and including `>`; fuel = input length -/
def takeAttrs : Nat → Str → Option (List (Str × Str) × Str)
  | 0, _ => none
  | fuel + 1, s =>
    match skipSpace s with
    | [] => none
    | 62 :: r => some ([], r)
    | 47 :: 62 :: r => some ([], r)            -- self-closing flag ignored
    | s' =>
      let (name, r1) := takeName s'
      if name.isEmpty then none else
      match skipSpace r1 with
      | 61 :: r2 =>
        match skipSpace r2 with
        | 34 :: r3 =>
          match takeQuoted r3 with
          | none => none
          | some (v, r4) =>
            match takeAttrs fuel r4 with
            | none => none
            | some (as, r5) => some ((name, decode v) :: as, r5)
        | _ => none                              -- unquoted / single-quoted values never occur in SSR output
      | r2 =>
        match takeAttrs fuel r2 with
        | none => none
        | some (as, r5) => some ((name, []) :: as, r5)

/-- the tokenizer; fuel = input length + 1 -/
def tokenize : Nat → Str → Option (List Token)
  | 0, _ => none
  | _ + 1, [] => some []
  | fuel + 1, 60 :: 33 :: 45 :: 45 :: r =>          -- `<!--`
    match r with
    | 62 :: r' => (tokenize fuel r').map (Token.comment [] :: ·)                 -- `<!-->`
    | 45 :: 62 :: r' => (tokenize fuel r').map (Token.comment [] :: ·)           -- `<!--->`
    | _ =>
      match takeComment r with
      | none => none
      | some (c, r') => (tokenize fuel r').map (Token.comment c :: ·)
  | fuel + 1, 60 :: 47 :: c :: r =>                  -- `</x`
    if isAlpha c then
      let (name, r1) := takeName (c :: r)
      match skipSpace r1 with
      | 62 :: r2 => (tokenize fuel r2).map (Token.endTag name :: ·)
      | _ => none
    else none
  | fuel + 1, 60 :: c :: r =>
    if isAlpha c then
      let (name, r1) := takeName (c :: r)
      match takeAttrs (r1.length + 1) r1 with
      | none => none
      | some (attrs, r2) => (tokenize fuel r2).map (Token.startTag name attrs :: ·)
    else
      -- a `<` not followed by a letter is text
      let (t, r1) := takeText (c :: r)
      (tokenize fuel r1).map (Token.text (decode (60 :: t)) :: ·)
  | fuel + 1, s =>
    let (t, r1) := takeText s
    if t.isEmpty then
      match s with
      | [60] => some [Token.text [60]]
      | _ => none
    else (tokenize fuel r1).map (Token.text (decode t) :: ·)

/-- parsed tree -/
inductive HNode where
  | element (tag : Str) (attrs : List (Str × Str)) (children : List HNode)
  | text (s : Str)
  | comment (s : Str)
  deriving Repr

/-- stack-based tree builder. A frame = (open tag, attrs, children so far, reversed). -/
structure Frame where
  tag : Str
  attrs : List (Str × Str)
  kids : List HNode          -- reversed

def pushNode (n : HNode) : List HNode → List Frame → List HNode × List Frame
  | top, [] => (n :: top, [])
  | top, f :: fs => (top, { f with kids := n :: f.kids } :: fs)

/-- `top` = reversed list of finished top-level nodes -/
def buildTree : List Token → List HNode → List Frame → Option (List HNode)
  | [], top, [] => some top.reverse
  | [], _, _ :: _ => none                                   -- unclosed element
  | .text s :: ts, top, st =>
    let (top, st) := pushNode (.text s) top st
    buildTree ts top st
  | .comment s :: ts, top, st =>
    let (top, st) := pushNode (.comment s) top st
    buildTree ts top st
  | .startTag n as :: ts, top, st =>
    if SycVerif.Ssr.isVoid n then
      let (top, st) := pushNode (.element n as []) top st
      buildTree ts top st
    else buildTree ts top (⟨n, as, []⟩ :: st)
  | .endTag n :: ts, top, st =>
    match st with
    | [] => none
    | f :: fs =>
      if f.tag = n then
        let (top, st) := pushNode (.element f.tag f.attrs f.kids.reverse) top fs
        buildTree ts top st
      else none

def parse (s : Str) : Option (List HNode) :=
  match tokenize (s.length + 1) s with
  | none => none
  | some ts => buildTree ts [] []

end SycVerif.Html
