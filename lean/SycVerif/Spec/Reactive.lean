/-
Specification side for the reactive properties: what "consistent" means, independently of how
propagation is scheduled.
-/
import SycVerif.Model.Reactive
namespace SycVerif.Reactive

mutual
/-- denotation of a pure, tracked-only body (only `read` and `ifpos`): the value it yields from the
values currently stored in the arena; `none` if the body is not of that form or reads a dead or
valueless node -/
def evalPureBody (r : Root) (env : List Handle) : Body → Int → Option Int
  | .nil, acc => some acc
  | .cons s rest, acc =>
    match evalPureStmt r env s acc with
    | none => none
    | some acc => evalPureBody r env rest acc
def evalPureStmt (r : Root) (env : List Handle) : Stmt → Int → Option Int
  | .read h, acc =>
    match env[h]? with
    | none => none
    | some hd => match getUntracked r hd.id with
      | .ok v => some (mix acc v)
      | .error _ => none
  | .ifpos h t e, acc =>
    match env[h]? with
    | none => none
    | some hd => match getUntracked r hd.id with
      | .ok v => if v > 0 then evalPureBody r env t (mix acc v) else evalPureBody r env e (mix acc v)
      | .error _ => none
  | _, _ => none
end

/-- A live computation whose body is pure and tracked-only is *locally consistent* when its stored
value is what its function yields from the currently stored values of what it reads — or, for a
selector, when its equality function accepts the pair (fresh, stored). Vacuous for other nodes. -/
def locallyConsistent (r : Root) (id : Id) : Prop :=
  match r.get? id with
  | none => True
  | some n =>
    match n.callback, n.value with
    | some (eq, cl), some v =>
      match evalPureBody r cl.env cl.body 0 with
      | some fresh => v = fresh ∨ eqHolds eq fresh v = true
      | none => True
    | _, _ => True

instance (r : Root) (id : Id) : Decidable (locallyConsistent r id) := by
  unfold locallyConsistent
  split
  · exact instDecidableTrue
  · split
    · split
      · exact instDecidableOr
      · exact instDecidableTrue
    · exact instDecidableTrue

/-- run top-level statements one after the other in the root scope (what the driver does) -/
def runOps (fuel : Nat) : List Stmt → Root → List Handle → Except Panic (Root × List Handle)
  | [], r, env => .ok (r, env)
  | s :: rest, r, env =>
    match execStmt fuel r ⟨env, 0, []⟩ s with
    | .error e => .error e
    | .ok (r, c) => runOps fuel rest r c.env

/-- C01 at full strength (over the model): after every top-level operation of every program every
live pure computation is locally consistent. -/
def C01_full : Prop :=
  ∀ (fuel : Nat) (ops : List Stmt) (r : Root) (env : List Handle),
    runOps fuel ops Root.init [] = .ok (r, env) → r.batching = false → ∀ id, locallyConsistent r id

end SycVerif.Reactive
