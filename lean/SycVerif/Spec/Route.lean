/-
Specification for C17, independent of the matcher: a declarative "fits" relation.
-/
import SycVerif.Model.Route
namespace SycVerif.Route

/-- Well-formed patterns: every `<p..>` is last or followed by a static segment. -/
def WFPat : List Seg → Bool
  | [] => true
  | [.dynSegs] => true
  | .dynSegs :: .param s :: rest => WFPat (.param s :: rest)
  | .dynSegs :: _ :: _ => false
  | _ :: rest => WFPat rest

/-- `Fits pat path caps`: the path fits the pattern with exactly these captures.
static segments equal; `<p>` exactly one segment; `<p..>` last: everything; `<p..>` before a
static `s`: the shortest run not containing `s`, which must then be present. -/
inductive Fits : List Seg → List Str → List Cap → Prop
  | nil : Fits [] [] []
  | param {s rest ps caps} : Fits rest ps caps → Fits (.param s :: rest) (s :: ps) caps
  | dynParam {p rest ps caps} : Fits rest ps caps → Fits (.dynParam :: rest) (p :: ps) (.one p :: caps)
  | segsLast {ps} : Fits [.dynSegs] ps [.many ps]
  | segs {s rest c r caps} : s ∉ c → Fits rest r caps →
      Fits (.dynSegs :: .param s :: rest) (c ++ s :: r) (.many c :: caps)

/-- Kind of a capture / dynamic segment: `false` = single, `true` = many. -/
def dynKinds : List Seg → List Bool
  | [] => []
  | .param _ :: r => dynKinds r
  | .dynParam :: r => false :: dynKinds r
  | .dynSegs :: r => true :: dynKinds r

def capKinds : List Cap → List Bool
  | [] => []
  | .one _ :: r => false :: capKinds r
  | .many _ :: r => true :: capKinds r

/-- Substitute captures back into the pattern. -/
def subst : List Seg → List Cap → List Str
  | [], _ => []
  | .param s :: r, caps => s :: subst r caps
  | .dynParam :: r, .one p :: caps => p :: subst r caps
  | .dynSegs :: r, .many l :: caps => l ++ subst r caps
  | _ :: _, _ => []

end SycVerif.Route
