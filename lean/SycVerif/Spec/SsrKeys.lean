/-
C12 — key discipline: what "hydration keys are unique and assigned densely in element-creation order
within their suspense scope" means for a built view.
-/
import SycVerif.Model.Ssr
namespace SycVerif.Ssr

mutual
/-- hydration keys of a rendered tree in document (pre-)order -/
def keysOf : SsrNode → List (Nat × Nat)
  | .element _ _ _ children _ hk => (match hk with | some k => [k] | none => []) ++ keysOfList children
  | .dynamic v => keysOfList v
  | _ => []
def keysOfList : SsrList → List (Nat × Nat)
  | .nil => []
  | .cons n rest => keysOf n ++ keysOfList rest
end

mutual
/-- number of elements a view description creates -/
def countEls : VSpec → Nat
  | .el _ _ _ children => 1 + countElsList children
  | .dynView v => countElsList v
  | .fragment v => countElsList v
  | .batch2 _ a b => countElsList a + countElsList b
  | _ => 0
def countElsList : VList → Nat
  | .nil => 0
  | .cons v rest => countEls v + countElsList rest
end

mutual
/-- the view contains no `batch2` form (anywhere). `batch2` hands out keys in CREATION order (the region
whose flag was written last first), which differs from document order; every statement that speaks of
the document (pre-)order of keys is restricted to views satisfying this predicate. -/
def NoBatch2 : VSpec → Bool
  | .el _ _ _ children => NoBatch2List children
  | .dynView v => NoBatch2List v
  | .fragment v => NoBatch2List v
  | .batch2 _ _ _ => false
  | .text _ => true
  | .dynText _ => true
def NoBatch2List : VList → Bool
  | .nil => true
  | .cons v rest => NoBatch2 v && NoBatch2List rest
end

/-- C12 (keys), document order: building a `batch2`-free view from registry state `k` in suspense scope
`s` stamps exactly the keys `(s,k), (s,k+1), …` — dense, duplicate-free, in document order — and leaves
the counter at `k + number of elements`.

RESTRICTED (hypothesis `NoBatch2List v = true` added when `VSpec.batch2` entered the model): the first
conjunct says that the keys read in document (pre-)order are `k, k+1, …`; that is false for
`batch2 true a b` when both regions contain an element (B's elements take the smaller keys but come
later in the document; see the `decide` examples in `Props/C12Keys.lean`). The order-independent content
(counter arithmetic, density as a set, uniqueness) holds for ALL views: `C12_keys_all_statement`. -/
def C12_keys_statement : Prop :=
  ∀ (s : Nat) (v : VList) (k : Nat), NoBatch2List v = true →
    keysOfList (buildList s v k).1 = (List.range (countElsList v)).map (fun i => (s, k + i))
    ∧ (buildList s v k).2 = k + countElsList v

/-- C12 (keys), all views (including `batch2`): the counter advances by the number of elements; the keys
of the rendered tree are a permutation of `(s,k), …, (s,k'-1)` (`k'` the end counter) — hence
duplicate-free, and the SET of keys is exactly the interval from the start counter to the end counter. -/
def C12_keys_all_statement : Prop :=
  ∀ (s : Nat) (v : VList) (k : Nat),
    (buildList s v k).2 = k + countElsList v
    ∧ (keysOfList (buildList s v k).1).Perm ((List.range (countElsList v)).map (fun i => (s, k + i)))
    ∧ (keysOfList (buildList s v k).1).Nodup
    ∧ (∀ p : Nat × Nat, p ∈ keysOfList (buildList s v k).1
        ↔ p.1 = s ∧ k ≤ p.2 ∧ p.2 < (buildList s v k).2)

/-- C12 (determinism): the rendered string is a function of the view description alone — in
particular two renders of the same description give the same bytes, whatever was rendered before. -/
def C12_deterministic_statement : Prop :=
  ∀ (v : VList), ∀ r1 r2, renderToString v = r1 → renderToString v = r2 → r1 = r2

end SycVerif.Ssr
