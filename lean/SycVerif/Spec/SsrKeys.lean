/-
C12 — key discipline: what "hydration keys are unique and assigned densely in element-creation order
within their suspense scope" means for a built view.
-/
import SycVerif.Model.Ssr
namespace SycVerif.Ssr

mutual
/-- hydration keys of a rendered tree in document (pre-)order -/
def keysOf : SsrNode → List (Nat × Nat)
  | .element _ _ _ children _ hk => (match hk with | some k => [k] | none => []) ++ keysOfList children
  | .dynamic v => keysOfList v
  | _ => []
def keysOfList : SsrList → List (Nat × Nat)
  | .nil => []
  | .cons n rest => keysOf n ++ keysOfList rest
end

mutual
/-- number of elements a view description creates -/
def countEls : VSpec → Nat
  | .el _ _ _ children => 1 + countElsList children
  | .dynView v => countElsList v
  | .fragment v => countElsList v
  | _ => 0
def countElsList : VList → Nat
  | .nil => 0
  | .cons v rest => countEls v + countElsList rest
end

/-- C12 (keys): building any view from registry state `k` in suspense scope `s` stamps exactly the
keys `(s,k), (s,k+1), …` — dense, duplicate-free, in document order — and leaves the counter at
`k + number of elements`. -/
def C12_keys_statement : Prop :=
  ∀ (s : Nat) (v : VList) (k : Nat),
    keysOfList (buildList s v k).1 = (List.range (countElsList v)).map (fun i => (s, k + i))
    ∧ (buildList s v k).2 = k + countElsList v

/-- C12 (determinism): the rendered string is a function of the view description alone — in
particular two renders of the same description give the same bytes, whatever was rendered before. -/
def C12_deterministic_statement : Prop :=
  ∀ (v : VList), ∀ r1 r2, renderToString v = r1 → renderToString v = r2 → r1 = r2

end SycVerif.Ssr
