/-
C08 — what "parses back to exactly the view that was built" means: the expected tree of a view
(`expected`) and the well-formedness premise (`WF`). Independent of the renderer.
-/
import SycVerif.Spec.Html
namespace SycVerif.Html
open SycVerif.Ssr

/-- developer-supplied names (tags, attribute names): `[A-Za-z][A-Za-z0-9:_-]*` -/
def nameChar (c : Nat) : Bool :=
  isAlpha c || (48 ≤ c && c ≤ 57) || c == 58 || c == 95 || c == 45
def validName : Str → Bool
  | [] => false
  | c :: cs => isAlpha c && cs.all nameChar

def trueBools : List (Str × Bool) → List (Str × Str)
  | [] => []
  | (n, true) :: r => (n, []) :: trueBools r
  | (_, false) :: r => trueBools r

def hkAttr : Option (Nat × Nat) → List (Str × Str)
  | none => []
  | some (s, e) => [(lit "data-hk", natToStr s ++ [46] ++ natToStr e)]

/-- merge adjacent text nodes (a parser can only ever produce one text node for a run of text) -/
def mergeText : List HNode → List HNode
  | .text a :: .text b :: r => mergeText (.text (a ++ b) :: r)
  | n :: r => n :: mergeText r
  | [] => []
termination_by l => l.length

mutual
/-- the tree the view denotes: attributes in order (string attributes, then the `true` boolean
attributes with empty value, then the hydration key), `false` boolean attributes omitted, markers as
comments `/`, dynamic text as `<!--t-->` text `<!---->`, dynamic views spliced, empty text dropped,
adjacent text merged -/
def flat : SsrNode → List HNode
  | .element tag attrs battrs children _ hk =>
    [.element tag (attrs ++ trueBools battrs ++ hkAttr hk) (mergeText (flatList children))]
  | .textDynamic t => [.comment (lit "t")] ++ (if t.isEmpty then [] else [.text t]) ++ [.comment []]
  | .textStatic t => if t.isEmpty then [] else [.text t]
  | .marker => [.comment (lit "/")]
  | .dynamic v => flatList v
def flatList : SsrList → List HNode
  | .nil => []
  | .cons n rest => flat n ++ flatList rest
end

def expected (v : SsrList) : List HNode := mergeText (flatList v)

mutual
/-- premise of the property: names are well formed and pairwise distinct per element, no
`inner_html` (raw HTML by design), void elements are empty -/
def WF : SsrNode → Bool
  | .element tag attrs battrs children inner hk =>
    validName tag && attrs.all (fun p => validName p.1) && battrs.all (fun p => validName p.1)
      && ((attrs.map (·.1)) ++ (battrs.map (·.1)) ++ (hkAttr hk).map (·.1)).Nodup
      && inner.isNone && (!isVoid tag || children.isEmpty) && WFList children
  | .dynamic v => WFList v
  | _ => true
def WFList : SsrList → Bool
  | .nil => true
  | .cons n rest => WF n && WFList rest
end

/-- C08 at full strength over the model: every well-formed view renders without panicking to a
string that the reference reader parses back to exactly the expected tree — for arbitrary text and
attribute values (any Unicode scalar values, markup metacharacters included). -/
def C08_roundtrip_statement : Prop :=
  ∀ v : SsrList, WFList v = true →
    ∃ s, renderList v = .ok s ∧ parse s = some (expected v)

end SycVerif.Html
