/-
C06 — what the node-diffing routine must establish, for every pair of node sequences.
-/
import SycVerif.Model.Reconcile
namespace SycVerif.Reconcile

/-- Full-strength statement: `pre`/`post` are arbitrary siblings around the region, `a` (non-empty)
is the current content of the region, `b` the wanted content; nodes of `b` that are not in `a` are
new (not among the siblings). Then the routine never fails, the parent's children become
`pre ++ b ++ post` — so the region is exactly `b` in order, retained nodes are the very same nodes
(identities are the numbers), the siblings are untouched and in place, and the nodes of `a` that are
not in `b` are no longer children. -/
def C06_reconcile_statement : Prop :=
  ∀ (pre a b post : List Nat), a ≠ [] → (pre ++ a ++ post).Nodup → b.Nodup →
    (∀ x ∈ b, x ∉ a → x ∉ pre ∧ x ∉ post) →
    reconcile (pre ++ a ++ post) a b = .ok (pre ++ b ++ post)

/-- The way `Keyed`/`Indexed` call it: region = nodes between the two markers plus the end marker -/
def C06_region_statement : Prop :=
  ∀ (pre old new post : List Nat) (start stop : Nat),
    (pre ++ [start] ++ old ++ [stop] ++ post).Nodup → (new ++ [stop]).Nodup →
    (∀ x ∈ new, x ∉ old → x ∉ pre ∧ x ∉ post ∧ x ≠ start) →
    let ch := pre ++ [start] ++ old ++ [stop] ++ post
    nodesBetween ch start stop = old ∧
    reconcile ch (old ++ [stop]) (new ++ [stop]) = .ok (pre ++ [start] ++ new ++ [stop] ++ post)

end SycVerif.Reconcile
