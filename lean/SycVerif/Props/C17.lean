/-
C17 — route matching is sound, lazy and total.  Property theorems only; helper lemmas are in
`Lemmas/Route.lean`.  Model: `Model/Route.lean` (mirrors the repaired `RoutePath::match_path`).
-/
import SycVerif.Lemmas.Route
namespace SycVerif.Route

/-- (sound + complete) On well-formed patterns the matcher succeeds exactly when the path — query
and fragment stripped from its last segment — fits the pattern, with exactly the captures of the fit;
and it never reaches the `unreachable!()` arm. -/
theorem C17_matchPath_iff_fits (pat : List Seg) (path : List Str) (caps : List Cap)
    (hwf : WFPat pat = true) :
    (matchPath pat path = .some caps ↔ Fits pat (stripLast path) caps)
    ∧ matchPath pat path ≠ .unreachable := by
  refine ⟨⟨fun h => ?_, fun h => ?_⟩, matchLoop_not_unreachable _ _ _ hwf⟩
  · obtain ⟨c', h1, h2⟩ := matchLoop_sound _ _ _ _ h
    simp at h1; subst h1; exact h2
  · simpa [matchPath] using matchLoop_complete h []

/-- (lazy) A fit is unique: `<p..>` takes the shortest run, so there is no second way to fit. -/
theorem C17_fit_unique {pat ps c1 c2} (h1 : Fits pat ps c1) (h2 : Fits pat ps c2) : c1 = c2 :=
  fits_functional h1 h2

/-- (captures align) one capture per dynamic segment, of the right kind, in order. -/
theorem C17_captures_align (pat : List Seg) (path : List Str) (caps : List Cap)
    (hwf : WFPat pat = true) (h : matchPath pat path = .some caps) :
    capKinds caps = dynKinds pat :=
  fits_kinds ((C17_matchPath_iff_fits pat path caps hwf).1.1 h)

/-- (captures reproduce the path) -/
theorem C17_captures_reproduce (pat : List Seg) (path : List Str) (caps : List Cap)
    (hwf : WFPat pat = true) (h : matchPath pat path = .some caps) :
    subst pat caps = stripLast path :=
  fits_subst ((C17_matchPath_iff_fits pat path caps hwf).1.1 h)

/-! ### URL level -/

theorem splitOn_no_sep (c : Nat) : ∀ (s cur : Str), c ∉ cur → ∀ seg ∈ splitOn c s cur, c ∉ seg
  | [], cur, h, seg, hs => by simp [splitOn] at hs; subst hs; exact h
  | x :: xs, cur, h, seg, hs => by
    unfold splitOn at hs
    split at hs
    · simp at hs
      rcases hs with rfl | hs
      · exact h
      · exact splitOn_no_sep c xs [] (by simp) seg hs
    · rename_i hx
      exact splitOn_no_sep c xs (cur ++ [x]) (by simp [h]; exact fun e => hx e.symm) seg hs

theorem splitOn_sub (c : Nat) : ∀ (s cur : Str) (seg : Str), seg ∈ splitOn c s cur →
    ∀ ch ∈ seg, ch ∈ cur ∨ ch ∈ s
  | [], cur, seg, hs, ch, hc => by simp [splitOn] at hs; subst hs; exact .inl hc
  | x :: xs, cur, seg, hs, ch, hc => by
    unfold splitOn at hs
    split at hs
    · simp at hs
      rcases hs with rfl | hs
      · exact .inl hc
      · rcases splitOn_sub c xs [] seg hs ch hc with h | h
        · simp at h
        · exact .inr (by simp [h])
    · rcases splitOn_sub c xs (cur ++ [x]) seg hs ch hc with h | h
      · simp at h; rcases h with h | h
        · exact .inl h
        · exact .inr (by simp [h])
      · exact .inr (by simp [h])

theorem cutQF_clean (s : Str) : 63 ∉ cutQF s ∧ 35 ∉ cutQF s := by
  unfold cutQF
  have hall := @List.all_takeWhile Nat (fun c => c != 63 && c != 35) s
  rw [List.all_eq_true] at hall
  constructor <;> intro h <;> have := hall _ h <;> simp at this

/-- Segments handed to `match_route` are non-empty and contain no `/`, `?` or `#`. -/
theorem C17_urlSegments_clean (url : Str) : ∀ seg ∈ urlSegments url,
    seg ≠ [] ∧ 47 ∉ seg ∧ 63 ∉ seg ∧ 35 ∉ seg := by
  intro seg h
  simp [urlSegments] at h
  obtain ⟨h1, h2⟩ := h
  refine ⟨h2, splitOn_no_sep 47 _ [] (by simp) seg h1, ?_, ?_⟩
  · intro hc
    rcases splitOn_sub 47 _ [] seg h1 63 hc with h | h
    · simp at h
    · exact (cutQF_clean url).1 h
  · intro hc
    rcases splitOn_sub 47 _ [] seg h1 35 hc with h | h
    · simp at h
    · exact (cutQF_clean url).2 h

theorem cutQF_append (p q : Str) (c : Nat) (hc : c = 63 ∨ c = 35) (hp : 63 ∉ p ∧ 35 ∉ p) :
    cutQF (p ++ c :: q) = p := by
  unfold cutQF
  induction p with
  | nil => rcases hc with rfl | rfl <;> simp
  | cons x xs ih =>
    simp at hp
    have hx : (x != 63 && x != 35) = true := by
      simp; exact ⟨fun e => hp.1.1 e.symm, fun e => hp.2.1 e.symm⟩
    simp [hx]
    exact ih ⟨hp.1.2, hp.2.2⟩

theorem cutQF_id (p : Str) (hp : 63 ∉ p ∧ 35 ∉ p) : cutQF p = p := by
  unfold cutQF
  induction p with
  | nil => simp
  | cons x xs ih =>
    simp at hp
    have hx : (x != 63 && x != 35) = true := by
      simp; exact ⟨fun e => hp.1.1 e.symm, fun e => hp.2.1 e.symm⟩
    simp [hx]
    exact ih ⟨hp.1.2, hp.2.2⟩

/-- (query and fragment are ignored) whatever follows the first `?` or `#` — including `/` — does
not influence the segments. -/
theorem C17_url_ignores_query_fragment (p q : Str) (c : Nat) (hc : c = 63 ∨ c = 35)
    (hp : 63 ∉ p ∧ 35 ∉ p) : urlSegments (p ++ c :: q) = urlSegments p := by
  simp [urlSegments, cutQF_append p q c hc hp, cutQF_id p hp]

/-! ### Derived enum: never panics, first match wins -/

def ftyKind : FTy → Bool
  | .u32 => false | .str => false | _ => true

/-- What `derive(Route)` guarantees at compile time: the pattern is well formed and there is one
field per dynamic segment whose type suits the segment's kind. -/
def WFVariant (v : Variant) : Prop := WFPat v.pat = true ∧ v.fields.map ftyKind = dynKinds v.pat

theorem getElem?_capKinds : ∀ (caps : List Cap) (i : Nat) (cap : Cap), caps[i]? = some cap →
    (capKinds caps)[i]? = some (match cap with | .one _ => false | .many _ => true)
  | [], i, cap, h => by simp at h
  | c :: cs, 0, cap, h => by simp at h; subst h; cases c <;> simp [capKinds]
  | c :: cs, i+1, cap, h => by
    simp at h
    have := getElem?_capKinds cs i cap h
    cases c <;> simpa [capKinds] using this

theorem capKinds_length (caps : List Cap) : (capKinds caps).length = caps.length := by
  induction caps with
  | nil => rfl
  | cons c cs ih => cases c <;> simp [capKinds, ih]

theorem parseFields_total (nested : List Str → Except Panic (Option FVal))
    (hn : ∀ l, ∃ r, nested l = .ok r) (caps : List Cap) :
    ∀ (tys : List FTy) (i : Nat), (capKinds caps).drop i = tys.map ftyKind →
      ∃ r, parseFields nested tys i caps = .ok r := by
  intro tys
  induction tys with
  | nil => intro i _; exact ⟨_, rfl⟩
  | cons ty tys iht =>
    intro i hd
    unfold parseFields
    have hlen : i < caps.length := by
      have := congrArg List.length hd
      simp [capKinds_length] at this; omega
    have hget : caps[i]? = some caps[i] := by simp [hlen]
    rw [hget]
    have hk1 := getElem?_capKinds caps i _ hget
    have hd0 : (capKinds caps)[i]? = some (ftyKind ty) := by
      have := congrArg (fun l => l[0]?) hd
      simpa using this
    have hrest : (capKinds caps).drop (i+1) = tys.map ftyKind := by
      have := congrArg List.tail hd
      simpa using this
    obtain ⟨r, hr⟩ := iht (i+1) hrest
    rw [hk1] at hd0
    have hone : ∃ r1, parseOne nested ty caps[i] = .ok r1 := by
      cases ty <;> cases hc : caps[i] <;> simp [hc, ftyKind] at hd0 <;> simp [parseOne]
      exact hn _
    obtain ⟨r1, hr1⟩ := hone
    simp only [hr1, hr]
    cases r1 with
    | none => exact ⟨_, rfl⟩
    | some v => cases r with
      | none => exact ⟨_, rfl⟩
      | some vs => exact ⟨_, rfl⟩

theorem matchVariants_total (nested : List Str → Except Panic (Option FVal))
    (hn : ∀ l, ∃ r, nested l = .ok r) (nf : Nat) :
    ∀ (vs : List Variant) (idx : Nat) (segs : List Str),
    (∀ v ∈ vs, WFVariant v) → ∃ r, matchVariants nested nf vs idx segs = .ok r := by
  intro vs
  induction vs with
  | nil => intro idx segs _; exact ⟨_, rfl⟩
  | cons v vs ih =>
    intro idx segs hwf
    have hv := hwf v (by simp)
    have ih' := ih (idx + 1) segs (fun u hu => hwf u (by simp [hu]))
    unfold matchVariants
    have hnu := (C17_matchPath_iff_fits v.pat segs [] hv.1).2
    split
    · rename_i h; exact absurd h hnu
    · exact ih'
    · rename_i caps hm
      have hk := C17_captures_align v.pat segs caps hv.1 hm
      obtain ⟨r, hr⟩ := parseFields_total nested hn caps v.fields 0 (by simpa [hv.2] using hk)
      rw [hr]
      cases r with
      | none => exact ih'
      | some vals => exact ⟨_, rfl⟩

/-- (total) A derived `Route` enum never panics, on any list of segments: no out-of-range
`__captures[i]`, no `unwrap` of the wrong capture kind, no `unreachable!()`; nested route enums
included. -/
theorem C17_matchRoute_total (e : Enum1) (segs : List Str)
    (hwf : ∀ v ∈ e.variants, WFVariant v) (hwf0 : ∀ v ∈ e.inner.variants, WFVariant v) :
    ∃ r, matchRoute1 e segs = .ok r := by
  apply matchVariants_total _ _ _ _ _ _ hwf
  intro l
  obtain ⟨r, hr⟩ := matchVariants_total (fun _ => .ok none) (fun _ => ⟨_, rfl⟩)
    e.inner.notFound e.inner.variants 0 l hwf0
  simp only [nestedOf, matchRoute0, hr]
  exact ⟨_, rfl⟩

/-- A variant accepts the segments with field values `vals`: its pattern fits and every capture
parses. -/
def Accepts (nested : List Str → Except Panic (Option FVal)) (v : Variant) (segs : List Str)
    (vals : List FVal) : Prop :=
  ∃ caps, Fits v.pat (stripLast segs) caps ∧ parseFields nested v.fields 0 caps = .ok (some vals)

theorem matchVariants_first (nested : List Str → Except Panic (Option FVal)) (nf : Nat) :
    ∀ (vs : List Variant) (idx : Nat) (segs : List Str) (k : Nat) (vals : List FVal),
    (∀ v ∈ vs, WFVariant v) → matchVariants nested nf vs idx segs = .ok (k, vals) →
    (∃ pre v post, vs = pre ++ v :: post ∧ k = idx + pre.length ∧ Accepts nested v segs vals ∧
        ∀ u ∈ pre, ¬ ∃ vals', Accepts nested u segs vals')
    ∨ (k = nf ∧ vals = [] ∧ ∀ u ∈ vs, ¬ ∃ vals', Accepts nested u segs vals') := by
  intro vs
  induction vs with
  | nil =>
    intro idx segs k vals _ h
    simp [matchVariants] at h
    exact .inr ⟨h.1.symm, h.2.symm ▸ rfl, by simp⟩
  | cons v vs ih =>
    intro idx segs k vals hwf h
    have hv := hwf v (by simp)
    have hwf' : ∀ u ∈ vs, WFVariant u := fun u hu => hwf u (by simp [hu])
    have lift : matchVariants nested nf vs (idx + 1) segs = .ok (k, vals) →
        (¬ ∃ vals', Accepts nested v segs vals') →
        ((∃ pre w post, v :: vs = pre ++ w :: post ∧ k = idx + pre.length ∧ Accepts nested w segs vals ∧
            ∀ u ∈ pre, ¬ ∃ vals', Accepts nested u segs vals')
        ∨ (k = nf ∧ vals = [] ∧ ∀ u ∈ v :: vs, ¬ ∃ vals', Accepts nested u segs vals')) := fun h hno => by
      rcases ih (idx + 1) segs k vals hwf' h with ⟨pre, w, post, e1, e2, e3, e4⟩ | ⟨e1, e2, e3⟩
      · exact Or.inl ⟨v :: pre, w, post, by simp [e1], by simp [e2]; omega, e3, by
          intro u hu; simp at hu; rcases hu with rfl | hu
          · exact hno
          · exact e4 u hu⟩
      · exact Or.inr ⟨e1, e2, by
          intro u hu; simp at hu; rcases hu with rfl | hu
          · exact hno
          · exact e3 u hu⟩
    unfold matchVariants at h
    split at h
    · simp at h
    · rename_i hm
      apply lift h
      rintro ⟨vals', caps, hf, _⟩
      have := (C17_matchPath_iff_fits v.pat segs caps hv.1).1.2 hf
      simp [hm] at this
    · rename_i caps hm
      have hf := (C17_matchPath_iff_fits v.pat segs caps hv.1).1.1 hm
      split at h
      · simp at h
      · rename_i hp
        apply lift h
        rintro ⟨vals', caps', hf', hp'⟩
        have := fits_functional hf hf'
        subst this
        simp [hp] at hp'
      · rename_i vals0 hp
        simp at h
        obtain ⟨rfl, rfl⟩ := h
        exact .inl ⟨[], v, vs, by simp, by simp, ⟨caps, hf, hp⟩, by simp⟩

/-- (first match wins, else not_found) -/
theorem C17_matchRoute_first (e : Enum1) (segs : List Str) (k : Nat) (vals : List FVal)
    (hwf : ∀ v ∈ e.variants, WFVariant v) (h : matchRoute1 e segs = .ok (k, vals)) :
    (∃ pre v post, e.variants = pre ++ v :: post ∧ k = pre.length ∧
        Accepts (nestedOf e.inner) v segs vals ∧
        ∀ u ∈ pre, ¬ ∃ vals', Accepts (nestedOf e.inner) u segs vals')
    ∨ (k = e.notFound ∧ vals = [] ∧
        ∀ u ∈ e.variants, ¬ ∃ vals', Accepts (nestedOf e.inner) u segs vals') := by
  simpa using matchVariants_first (nestedOf e.inner) e.notFound e.variants 0 segs k vals hwf h

theorem accepts_functional {nested v segs vals vals'} (h1 : Accepts nested v segs vals)
    (h2 : Accepts nested v segs vals') : vals = vals' := by
  obtain ⟨c1, f1, p1⟩ := h1
  obtain ⟨c2, f2, p2⟩ := h2
  have := fits_functional f1 f2
  subst this
  rw [p1] at p2
  simpa using p2

/-- (exactly: converse of `C17_matchRoute_first`) If a variant accepts the segments and no earlier
variant does, the derived enum returns that variant with its field values. -/
theorem C17_matchRoute_complete (e : Enum1) (segs : List Str) (pre post : List Variant) (v : Variant)
    (vals : List FVal)
    (hwf : ∀ v ∈ e.variants, WFVariant v) (hwf0 : ∀ v ∈ e.inner.variants, WFVariant v)
    (hsplit : e.variants = pre ++ v :: post)
    (hacc : Accepts (nestedOf e.inner) v segs vals)
    (hpre : ∀ u ∈ pre, ¬ ∃ vals', Accepts (nestedOf e.inner) u segs vals') :
    matchRoute1 e segs = .ok (pre.length, vals) := by
  obtain ⟨⟨k, vals2⟩, hr⟩ := C17_matchRoute_total e segs hwf hwf0
  rcases C17_matchRoute_first e segs k vals2 hwf hr with ⟨pre2, v2, post2, e1, e2, e3, e4⟩ | ⟨_, _, hnone⟩
  · rw [hsplit] at e1
    rcases List.append_eq_append_iff.1 e1 with ⟨a', ha, hb⟩ | ⟨c', ha, hb⟩
    · cases a' with
      | nil =>
        simp at ha hb
        obtain ⟨rfl, _⟩ := hb
        subst ha
        rw [hr, e2, accepts_functional e3 hacc]
      | cons x a'' =>
        simp at hb
        exact absurd ⟨vals, hacc⟩ (e4 v (by rw [ha, hb.1]; simp))
    · cases c' with
      | nil =>
        simp at ha hb
        obtain ⟨rfl, _⟩ := hb
        subst ha
        rw [hr, e2, accepts_functional e3 hacc]
      | cons x c'' =>
        simp at hb
        exact absurd ⟨vals2, e3⟩ (hpre v2 (by rw [ha, hb.1]; simp))
  · exact absurd ⟨vals, hacc⟩ (hnone v (by rw [hsplit]; simp))

/-- (else not_found, converse) -/
theorem C17_matchRoute_notFound (e : Enum1) (segs : List Str)
    (hwf : ∀ v ∈ e.variants, WFVariant v) (hwf0 : ∀ v ∈ e.inner.variants, WFVariant v)
    (hnone : ∀ u ∈ e.variants, ¬ ∃ vals', Accepts (nestedOf e.inner) u segs vals') :
    matchRoute1 e segs = .ok (e.notFound, []) := by
  obtain ⟨⟨k, vals2⟩, hr⟩ := C17_matchRoute_total e segs hwf hwf0
  rcases C17_matchRoute_first e segs k vals2 hwf hr with ⟨pre2, v2, post2, e1, _, e3, _⟩ | ⟨rfl, rfl, _⟩
  · exact absurd ⟨vals2, e3⟩ (hnone v2 (by rw [e1]; simp))
  · exact hr

/-! ### Non-vacuity: concrete instances of the hypotheses -/

/-- `/<a>/x/<rest..>/end` is well formed and matches `/7/x/p/q/end?z#f`. -/
example : WFPat [.dynParam, .param [120], .dynSegs, .param [101,110,100]] = true ∧
    matchPath [.dynParam, .param [120], .dynSegs, .param [101,110,100]]
      [[55],[120],[112],[113],[101,110,100,63,122,35,102]]
      = .some [.one [55], .many [[112],[113]]] := by decide

/-- The case the pinned tree got wrong: `/<p..>/end` on `/a/b` must not match. -/
example : matchPath [.dynSegs, .param [101,110,100]] [[97],[98]] = .none := by decide

example : WFVariant ⟨[.dynParam, .dynSegs], [.u32, .nested]⟩ := by
  constructor <;> decide

/-- non-vacuity of `C17_matchRoute_complete`: enum `{ #[to("/<n>")] A(u32), #[to("/<s>")] B(String) }` on `/x`:
`A`'s pattern fits but `x` does not parse, `B` accepts. -/
example :
    let e : Enum1 := { variants := [⟨[.dynParam], [.u32]⟩, ⟨[.dynParam], [.str]⟩], notFound := 2,
                       inner := { variants := [], notFound := 0 } }
    (∀ v ∈ e.variants, WFVariant v) ∧ (∀ v ∈ e.inner.variants, WFVariant v) ∧
    Accepts (nestedOf e.inner) ⟨[.dynParam], [.str]⟩ [[120]] [.str [120]] ∧
    (∀ u ∈ [(⟨[.dynParam], [.u32]⟩ : Variant)], ¬ ∃ vals', Accepts (nestedOf e.inner) u [[120]] vals') := by
  intro e
  have hw : ∀ v ∈ e.variants, WFVariant v := by
    intro v hv
    simp [e] at hv
    rcases hv with rfl | rfl <;> (constructor <;> decide)
  refine ⟨hw, by simp [e], ?_, ?_⟩
  · refine ⟨[.one [120]], ?_, rfl⟩
    exact (C17_matchPath_iff_fits [.dynParam] [[120]] [.one [120]] (by decide)).1.1 (by decide)
  · intro u hu
    simp at hu
    subst hu
    rintro ⟨vals', caps, hf, hp⟩
    have h2 : Fits [.dynParam] (stripLast [[120]]) [.one [120]] :=
      (C17_matchPath_iff_fits [.dynParam] [[120]] [.one [120]] (by decide)).1.1 (by decide)
    have := fits_functional hf h2
    subst this
    simp [parseFields, parseOne, parseU32, parseDigits] at hp

end SycVerif.Route
