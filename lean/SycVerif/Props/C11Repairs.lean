/-
Repair D22 (C11): `Root::run_node_update` stops when the cleanups of the re-running node disposed it.

`runNodeUpdate` first removes the old dependency links of `cur`, takes callback and value out, and
calls `disposeChildren … cur`, which runs the cleanups registered on `cur` by its previous run and
disposes what that run created.  A cleanup is arbitrary user code: it may dispose `cur` itself or one
of its owners (D4 covered the node being disposed by its own CALLBACK, i.e. after the body ran; here it
is gone BEFORE the body runs).  Before the repair the body was then run with `current_node = cur`, a
stale key: anything the body creates (`create_signal`, `on_cleanup`, …) indexes the arena with it and
panics `invalid SlotMap key used`.  After the repair `run_node_update` returns right after
`dispose_children` when the node is gone: the body does not run, no `run cur` event is logged.

* `updatePrefix` / `updateTail`, `runNodeUpdate_eq_prefix_tail`: `runNodeUpdate` cut in two at the new
  guard (the cut is proved, not assumed);
* `C11_rerun_stops_eq`: the equation — if the state after `disposeChildren` has no `cur`, that state
  is the result;
* `C11_rerun_stops_when_disposed`: … and, in a state satisfying the bookkeeping invariant and the kind
  discipline (every reachable state), the part of the trace added by the whole call contains no run of
  `cur` — neither the one of `runNodeUpdate` itself (it stopped) nor one caused by the cleanups
  (`cur` was unlinked from everything it depended on before they ran: the argument of D19);
* the witness `d22Ops`: new behaviour (`C11_rerun_owner_disposed_example`), the hypothesis of the
  theorem holds there (`C11_rerun_prefix_example`), and the old `run_node_update` panics on it
  (`C11_old_rerun_panics`).
-/
import SycVerif.Lemmas.Repairs
import SycVerif.Props.ReactiveWF
import SycVerif.Props.C04Repairs
namespace SycVerif.Reactive

/-! ### `runNodeUpdate`, cut at the guard -/

/-- `runNodeUpdate (fuel + 1) r cur` up to and including `disposeChildren fuel … cur`: remove the old
dependency links, take callback and value out, run the cleanups and dispose the children.  Returns
the state reached and what was taken out. -/
def updatePrefix (fuel : Nat) (r : Root) (cur : Id) : Except Panic (Root × EqKind × Closure × Int) :=
  match r.get? cur with
  | none => .error .slotKey
  | some n =>
    match unlink cur (r.setNode cur { n with dependencies := [] }) n.dependencies with
    | .error e => .error e
    | .ok r =>
      match r.get? cur with
      | none => .error .slotKey
      | some n =>
        match n.callback, n.value with
        | none, _ => .error .unwrapNone
        | some _, none => .error .unwrapNone
        | some (eq, cl), some old =>
          match disposeChildren fuel (r.setNode cur { n with callback := none, value := none }) cur with
          | .error e => .error e
          | .ok r => .ok (r, eq, cl, old)

/-- the rest of `runNodeUpdate (fuel + 1) … cur`: run the body under `current_node = cur`, log the run,
link the tracked reads, put callback and value back, mark the dependents dirty if the value changed -/
def updateTail (fuel : Nat) (r : Root) (cur : Id) (eq : EqKind) (cl : Closure) (old : Int) : Except Panic Root :=
  let prevCur := r.current
  let prevTr := r.tracker
  match runClosure fuel { r with current := some cur, tracker := some [] } cl with
  | .error e => .error e
  | .ok (r, new, obs) =>
    let deps := r.tracker.getD []
    let r := { r with tracker := prevTr, current := prevCur, trace := r.trace ++ [.run cur obs new] }
    let r := createDependencyLink r deps cur
    match r.get? cur with
    | none => .ok r
    | some n =>
      let changed := !eqHolds eq new old
      let r := r.setNode cur { n with callback := some (eq, cl),
                                      value := some (if changed then new else old), dirty := false }
      .ok (if changed then markDependentsDirty r cur else r)

/-- `runNodeUpdate` is: the prefix, the guard of the repair D22, the tail -/
theorem runNodeUpdate_eq_prefix_tail (fuel : Nat) (r : Root) (cur : Id) :
    runNodeUpdate (fuel + 1) r cur =
      match updatePrefix fuel r cur with
      | .error e => .error e
      | .ok (r1, eq, cl, old) =>
        if r1.get? cur = none then .ok r1 else updateTail fuel r1 cur eq cl old := by
  simp only [runNodeUpdate, updatePrefix, updateTail]
  split
  · rename_i h; simp only [h]
  · rename_i n h; simp only [h]
    split
    · rename_i e h2; simp only [h2]
    · rename_i r2 h2; simp only [h2]
      split
      · rename_i h3; simp only [h3]
      · rename_i n3 h3; simp only [h3]
        split
        · rename_i hcb; simp only [hcb]
        · rename_i hcb hval; simp only [hcb, hval]
        · rename_i eq cl old hcb hval; simp only [hcb, hval]
          split
          · rename_i e h4; simp only [h4]
          · rename_i r4 h4; simp only [h4]; rfl

/-- `run_node_update` before the repair D22: the body runs even if the node is gone -/
def runNodeUpdateOld (fuel : Nat) (r : Root) (cur : Id) : Except Panic Root :=
  match fuel with
  | 0 => .error .fuel
  | fuel + 1 =>
    match updatePrefix fuel r cur with
    | .error e => .error e
    | .ok (r1, eq, cl, old) => updateTail fuel r1 cur eq cl old

/-- as long as the node survives its cleanups the repair changes nothing -/
theorem runNodeUpdate_eq_old {fuel : Nat} {r r1 : Root} {cur : Id} {eq : EqKind} {cl : Closure} {old : Int}
    (hp : updatePrefix fuel r cur = .ok (r1, eq, cl, old)) (hlive : r1.get? cur ≠ none) :
    runNodeUpdate (fuel + 1) r cur = runNodeUpdateOld (fuel + 1) r cur := by
  rw [runNodeUpdate_eq_prefix_tail]
  simp only [runNodeUpdateOld, hp, hlive, if_false]

/-! ### the repair -/

/-- **D22, the equation**: if, after the cleanups of `cur` ran and its children were disposed, `cur`
is gone, `runNodeUpdate` returns that very state -/
theorem C11_rerun_stops_eq {fuel : Nat} {r r1 : Root} {cur : Id} {eq : EqKind} {cl : Closure} {old : Int}
    (hp : updatePrefix fuel r cur = .ok (r1, eq, cl, old)) (hdead : r1.get? cur = none) :
    runNodeUpdate (fuel + 1) r cur = .ok r1 := by
  rw [runNodeUpdate_eq_prefix_tail]
  simp only [hp, hdead, if_true]

/-- the prefix adds no run of `cur` to the trace, whatever the cleanups do: when they start, `cur` has
been removed from the `dependents` list of everything it depended on, so no write can schedule it -/
theorem updatePrefix_noRunSince {P : Id → Prop} {fuel : Nat} {r r1 : Root} {cur : Id} {eq : EqKind}
    {cl : Closure} {old : Int} (hI : RInvP P r) (hK : KInv r)
    (hp : updatePrefix fuel r cur = .ok (r1, eq, cl, old)) : NoRunSince cur r r1 := by
  simp only [updatePrefix] at hp
  split at hp
  · cases hp
  · rename_i n hn
    split at hp
    · cases hp
    · rename_i r2 h2
      obtain ⟨i2, _, hsz2, _, _, hn2⟩ := hI.unlink hn h2
      have e2 := EStep.unlink (id := cur) hI.nd hI.sym hn h2
      have hD2 : Det r2 cur := by
        obtain ⟨r2', hu', _, hfresh, _⟩ := unlink_spec hI.nd hI.sym hn
        rw [h2] at hu'; cases hu'
        exact ⟨by rw [hsz2]; exact Root.lt_size_of_get? hn, hfresh⟩
      rw [hn2] at hp
      simp only at hp
      split at hp
      · cases hp
      · cases hp
      · rename_i eq' cl' old' hcb hval
        have w2 := i2.node cur _ hn2
        have i3 : RInvP P (r2.setNode cur { unlinked cur cur n with callback := none, value := none }) :=
          i2.setNode hn2 rfl rfl rfl rfl ⟨fun _ => by simp [unlinked], w2.cleanups, by simp⟩
        have e3 := EStep.setNode (id := cur)
          (n' := { unlinked cur cur n with callback := none, value := none }) hn2
          (fun a => by rw [hcb] at a; cases a) (fun _ _ h => by cases h) (fun _ h => h) (fun h => h)
        split at hp
        · cases hp
        · rename_i r4 h4
          simp only [Except.ok.injEq, Prod.mk.injEq] at hp
          obtain ⟨rfl, _⟩ := hp
          have o4 := (dAll cur fuel).dchildren P _ cur r4 i3 (e3.kinv (e2.kinv hK)) (e3.det hD2) h4
          exact ((NoRunSince.of_eq e2.trace).trans (NoRunSince.of_eq e3.trace)).trans o4.t

/-- **D22.**  In a state satisfying the bookkeeping invariant `RInv` and the kind discipline `KInv`
(both hold in every reachable state), if `runNodeUpdate (fuel + 1) r cur` succeeds and the node `cur`
is gone after its cleanups ran and its children were disposed (`r1`, the state `runNodeUpdate` reaches
right after `disposeChildren`: `updatePrefix`, `runNodeUpdate_eq_prefix_tail`), then the result is `r1`
— the body of `cur` is not run — and the part of the trace added by the call contains no run of `cur`
at all, whatever the cleanups did. -/
theorem C11_rerun_stops_when_disposed {fuel : Nat} {r r1 r' : Root} {cur : Id} {eq : EqKind} {cl : Closure}
    {old : Int} (hI : RInv r) (hK : KInv r)
    (hx : runNodeUpdate (fuel + 1) r cur = .ok r')
    (hp : updatePrefix fuel r cur = .ok (r1, eq, cl, old)) (hdead : r1.get? cur = none) :
    r' = r1 ∧ ∀ ev ∈ r'.trace.drop r.trace.length, ∀ obs v, ev ≠ Event.run cur obs v := by
  rw [C11_rerun_stops_eq hp hdead] at hx
  cases hx
  refine ⟨rfl, ?_⟩
  intro ev hev obs v e
  have := (updatePrefix_noRunSince hI hK hp).drop ev hev
  rw [e] at this
  exact this rfl

/-- the same in every reachable state -/
theorem C11_rerun_stops_when_disposed_reachable (fuel0 fuel : Nat) (ops : List Stmt) (r : Root)
    (env : List Handle) (h : runOps fuel0 ops Root.init [] = .ok (r, env)) {r1 r' : Root} {cur : Id}
    {eq : EqKind} {cl : Closure} {old : Int}
    (hx : runNodeUpdate (fuel + 1) r cur = .ok r')
    (hp : updatePrefix fuel r cur = .ok (r1, eq, cl, old)) (hdead : r1.get? cur = none) :
    r' = r1 ∧ ∀ ev ∈ r'.trace.drop r.trace.length, ∀ obs v, ev ≠ Event.run cur obs v :=
  C11_rerun_stops_when_disposed (reachable_inv fuel0 ops r env h) (reachable_kindOk fuel0 ops r env h).1
    hx hp hdead

/-! ### the witness -/

/-- `s = signal 0; sc = scope {}; sc.run_in { effect { s.get(); signal 5; on_cleanup { sc.dispose() } } }`
(nodes: 0 = root, 1 = `s`, 2 = `sc`, 3 = the effect, owned by `sc`, 4 = the signal the effect creates):
the cleanup of the effect disposes the OWNER of the effect -/
def d22Setup : List Stmt :=
  [.signal 0,
   .scope .nil,
   .runIn 1 (.cons (.effect (.cons (.read 0) (.cons (.signal 5)
     (.cons (.cleanup (.cons (.dispose 1) .nil)) .nil)))) .nil)]

/-- … followed by `s.set(1)`: the effect re-runs, its cleanup disposes `sc`, hence the effect -/
def d22Ops : List Stmt := d22Setup ++ [.set 0 (.const 1)]

/-- with the repaired `run_node_update` the program runs without panic: the write runs the cleanup
(tag 0) and nothing else — the only run of the effect in the whole trace is its initial one —, and
afterwards `sc`, the effect and the signal it had created are dead, the root and `s` alive -/
theorem C11_rerun_owner_disposed_example :
    (match runOps 60 d22Setup Root.init [] with
     | .ok (r0, env0) =>
       (match runOps 60 [.set 0 (.const 1)] r0 env0 with
        | .ok (r, _) =>
          ((List.range r.nodes.size).map r.alive == [true, true, false, false, false]) &&
          ((r.trace.drop r0.trace.length).map Event.cleanupTag == [some 0]) &&
          !(r.trace.drop r0.trace.length).any (isRunOfB 3) &&
          ((r.trace.filter (isRunOfB 3)).length == 1)
        | .error _ => false)
     | .error _ => false) = true := by decide +kernel

theorem C11_rerun_owner_disposed_no_panic : ∃ r env, runOps 60 d22Ops Root.init [] = .ok (r, env) ∧
    r.alive 2 = false ∧ r.alive 3 = false := by
  have h : (match runOps 60 d22Ops Root.init [] with
     | .ok (r, _) => !r.alive 2 && !r.alive 3
     | .error _ => false) = true := by decide +kernel
  cases h1 : runOps 60 d22Ops Root.init [] with
  | error e => rw [h1] at h; cases h
  | ok p =>
    obtain ⟨r, env⟩ := p
    rw [h1] at h
    simp only [Bool.and_eq_true, Bool.not_eq_eq_eq_not, Bool.not_true] at h
    exact ⟨r, env, rfl, h.1, h.2⟩

/-- the hypotheses of `C11_rerun_stops_when_disposed` hold in the (reachable) state before the write,
for `cur` = the effect: the prefix succeeds and the effect is gone afterwards; `runNodeUpdate` then
succeeds, with the effect, its owner and its child dead -/
theorem C11_rerun_prefix_example :
    (match runOps 60 d22Setup Root.init [] with
     | .ok (r0, _) =>
       (match updatePrefix 60 r0 3 with
        | .ok (r1, _, _, _) => !r1.alive 3
        | .error _ => false) &&
       (match runNodeUpdate 61 r0 3 with
        | .ok r' => ((List.range r'.nodes.size).map r'.alive == [true, true, false, false, false]) &&
            !(r'.trace.drop r0.trace.length).any (isRunOfB 3)
        | .error _ => false)
     | .error _ => false) = true := by decide +kernel

/-- the defect: the OLD `run_node_update` goes on and runs the body of the effect under
`current_node` = the disposed effect; `create_signal` indexes the arena with that stale key and
panics `invalid SlotMap key used` -/
theorem C11_old_rerun_panics :
    (match runOps 60 d22Setup Root.init [] with
     | .ok (r0, _) => decide (runNodeUpdateOld 61 r0 3 matches .error .slotKey)
     | .error _ => false) = true := by decide +kernel

end SycVerif.Reactive
