/-
C15 — "A resource holds the result of the latest fetch only."

Model: the resource machine `Res` / `rstep` of `SycVerif/Model/Async.lean`
(`create_isomorphic_resource(on(dep, fetch))`): `write v` sets the dependency, which re-runs the effect:
a new fetch is started and the previous one is aborted; `finish k` lets fetch number `k` complete — it
delivers only if `k` is the latest fetch and has not delivered yet. Fetch `k` resolves to the dependency
value it was started with (the value component of `Res.value` records it).

Everything below is for EVERY initial dependency value and EVERY event sequence.

The history is described WITHOUT running the machine:
* `nWrites es`        number of `write`s in `es`; fetch number `1 + nWrites pre` is the latest one after
                      the prefix `pre`;
* `depOf d es k`      the dependency value fetch `k` was started with: the initial value `d` for `k = 1`,
                      the value of the `(k-1)`-th `write` of `es` for `k ≥ 2`;
* `lastDelivered past`  (on the history in reverse order, most recent event first) the number of the most
                      recent fetch that completed while it was the latest one: the most recent
                      `finish k` with `k = 1 + nWrites (events before it)`;
* `DeliveredAt es k`  the same, spelled out with positions: `es = pre ++ finish k :: post`, `k` was the
                      latest fetch after `pre`, and no later `finish j` in `post` was for the fetch that was the
                      latest one at its time (of two `finish k` for the latest fetch `k` this picks the
                      second: the fetch number is the same).
-/
import SycVerif.Model.Async
namespace SycVerif.Async

def rrun (r : Res) (es : List REv) : Res := es.foldl rstep r

theorem list_snoc_induction {α} {P : List α → Prop} (nil : P []) (snoc : ∀ l a, P l → P (l ++ [a])) :
    ∀ l, P l := by
  have : ∀ l : List α, P l.reverse := by
    intro l
    induction l with
    | nil => exact nil
    | cons a l ih => rw [List.reverse_cons]; exact snoc _ a ih
  intro l
  have := this l.reverse
  rwa [List.reverse_reverse] at this

theorem eq_nil_or_snoc {α} (l : List α) : l = [] ∨ ∃ l0 x, l = l0 ++ [x] := by
  rcases List.eq_nil_or_concat l with h | ⟨l0, x, h⟩
  · exact .inl h
  · exact .inr ⟨l0, x, by rw [h, List.concat_eq_append]⟩

theorem rrun_snoc (r : Res) (es : List REv) (e : REv) : rrun r (es ++ [e]) = rstep (rrun r es) e := by
  simp [rrun, List.foldl_append]

/-! ### the history, declaratively -/

def nWrites : List REv → Nat
  | [] => 0
  | .write _ :: es => nWrites es + 1
  | .finish _ :: es => nWrites es

/-- the values written, in order -/
def writes : List REv → List Nat
  | [] => []
  | .write v :: es => v :: writes es
  | .finish _ :: es => writes es

/-- the dependency value fetch `k` (`k ≥ 1`) was started with -/
def depOf (d : Nat) (es : List REv) (k : Nat) : Nat := ((d :: writes es)[k - 1]?).getD d

/-- `past` = the history, most recent event first -/
def lastDelivered : List REv → Option Nat
  | [] => none
  | .write _ :: past => lastDelivered past
  | .finish k :: past => if k = 1 + nWrites past then some k else lastDelivered past

theorem nWrites_append (es es' : List REv) : nWrites (es ++ es') = nWrites es + nWrites es' := by
  induction es with
  | nil => simp [nWrites]
  | cons e es ih => cases e <;> simp [nWrites, ih] <;> omega

theorem nWrites_reverse (es : List REv) : nWrites es.reverse = nWrites es := by
  induction es with
  | nil => rfl
  | cons e es ih => cases e <;> simp [nWrites_append, nWrites, ih]

theorem writes_append (es es' : List REv) : writes (es ++ es') = writes es ++ writes es' := by
  induction es with
  | nil => simp [writes]
  | cons e es ih => cases e <;> simp [writes, ih]

theorem writes_length (es : List REv) : (writes es).length = nWrites es := by
  induction es with
  | nil => rfl
  | cons e es ih => cases e <;> simp [writes, nWrites, ih]

/-- later events do not change what an already started fetch was started with -/
theorem depOf_append (d : Nat) (es es' : List REv) (k : Nat) (hk : k ≤ 1 + nWrites es) :
    depOf d (es ++ es') k = depOf d es k := by
  unfold depOf
  rw [writes_append, ← List.cons_append, List.getElem?_append_left]
  simp [writes_length]; omega

theorem depOf_one (d : Nat) (es : List REv) : depOf d es 1 = d := by simp [depOf]

/-- fetch `k + 2` was started by the `(k+1)`-th write (`writes es` index `k`) -/
theorem depOf_succ (d : Nat) (es : List REv) (k : Nat) (hk : k < nWrites es) :
    some (depOf d es (k + 2)) = (writes es)[k]? := by
  unfold depOf
  have : k < (writes es).length := by rw [writes_length]; exact hk
  simp [List.getElem?_eq_getElem this]

/-- the fetch started by the last `write v` was started with `v` -/
theorem depOf_last_write (d : Nat) (es : List REv) (v : Nat) :
    depOf d (es ++ [.write v]) (1 + nWrites (es ++ [.write v])) = v := by
  unfold depOf
  rw [writes_append, nWrites_append]
  simp [writes, nWrites, ← writes_length]

/-! ### invariants of every reachable state -/

/-- the state after the history `es`, described from the history -/
structure RInv (d : Nat) (es : List REv) (r : Res) : Prop where
  started : r.started = 1 + nWrites es
  latestDep : r.latestDep = r.dep
  dep : r.dep = depOf d es r.started
  loading : r.loading = !r.completedLatest
  completed : r.completedLatest = true ↔ r.value.map (·.1) = some r.started
  value : r.value = (lastDelivered es.reverse).map fun k => (k, depOf d es k)
  delivered_le : ∀ k, lastDelivered es.reverse = some k → 1 ≤ k ∧ k ≤ 1 + nWrites es

theorem rinv_init (d : Nat) : RInv d [] (Res.init d) where
  started := rfl
  latestDep := rfl
  dep := by simp [Res.init, depOf]
  loading := rfl
  completed := by simp [Res.init]
  value := rfl
  delivered_le k h := by simp [lastDelivered] at h

theorem rinv_step {d : Nat} {es : List REv} {r : Res} (h : RInv d es r) (e : REv) :
    RInv d (es ++ [e]) (rstep r e) := by
  have hmono : ∀ k, lastDelivered es.reverse = some k → depOf d (es ++ [e]) k = depOf d es k :=
    fun k hk => depOf_append d es [e] k (h.delivered_le k hk).2
  cases e with
  | write v =>
    have hrev : lastDelivered (es ++ [REv.write v]).reverse = lastDelivered es.reverse := by
      simp [lastDelivered]
    have hst : (rstep r (.write v)).started = 1 + nWrites (es ++ [.write v]) := by
      simp [rstep, h.started, nWrites_append, nWrites]; omega
    refine ⟨hst, rfl, ?_, rfl, ?_, ?_, ?_⟩
    · rw [hst]; exact (depOf_last_write d es v).symm
    · show false = true ↔ r.value.map (·.1) = some (r.started + 1)
      rw [h.value]
      cases hl : lastDelivered es.reverse with
      | none => simp
      | some k =>
        have := (h.delivered_le k hl).2
        simp [h.started]; omega
    · show r.value = _
      rw [hrev, h.value]
      cases hl : lastDelivered es.reverse with
      | none => rfl
      | some k => simp [hmono k hl]
    · intro k hk
      rw [hrev] at hk
      have := h.delivered_le k hk
      rw [nWrites_append]; omega
  | finish k =>
    have hnw : nWrites (es ++ [.finish k]) = nWrites es := by simp [nWrites_append, nWrites]
    have hrev : lastDelivered (es ++ [REv.finish k]).reverse =
        if k = 1 + nWrites es then some k else lastDelivered es.reverse := by
      simp [lastDelivered, nWrites_reverse]
    have hdep : ∀ j, depOf d (es ++ [.finish k]) j = depOf d es j := by
      intro j; unfold depOf; rw [writes_append]; simp [writes]
    by_cases hk : k = r.started
    · have hk' : k = 1 + nWrites es := by rw [hk, h.started]
      cases hc : r.completedLatest with
      | false =>
        -- the latest fetch delivers
        have hs : rstep r (.finish k) = { r with value := some (k, r.latestDep), loading := false, completedLatest := true } := by
          simp [rstep, hk, hc]
        rw [hs]
        refine ⟨by rw [hnw]; exact h.started, h.latestDep, ?_, rfl, ?_, ?_, ?_⟩
        · show r.dep = _; rw [hdep]; exact h.dep
        · simp [hk]
        · show some (k, r.latestDep) = _
          rw [hrev, if_pos hk']
          simp only [Option.map_some, hdep]
          rw [h.latestDep, hk, ← h.dep]
        · intro j hj
          rw [hrev, if_pos hk'] at hj
          cases hj; rw [hnw]; omega
      | true =>
        -- it has delivered already: nothing changes
        have hs : rstep r (.finish k) = r := by simp [rstep, hc]
        rw [hs]
        have hv := (h.completed).1 hc
        have hl : lastDelivered es.reverse = some k := by
          rw [h.value] at hv
          cases hl : lastDelivered es.reverse with
          | none => simp [hl] at hv
          | some j => simp [hl] at hv; rw [hv, hk]
        refine ⟨by rw [hnw]; exact h.started, h.latestDep, ?_, h.loading, h.completed, ?_, ?_⟩
        · rw [hdep]; exact h.dep
        · rw [hrev, if_pos hk', h.value, hl]; simp [hdep]
        · intro j hj
          rw [hrev, if_pos hk'] at hj
          cases hj; rw [hnw]; omega
    · -- an older (aborted) or unknown fetch: nothing changes
      have hk' : ¬ k = 1 + nWrites es := by rw [← h.started]; exact hk
      have hs : rstep r (.finish k) = r := by simp [rstep, hk]
      rw [hs]
      refine ⟨by rw [hnw]; exact h.started, h.latestDep, ?_, h.loading, h.completed, ?_, ?_⟩
      · rw [hdep]; exact h.dep
      · rw [hrev, if_neg hk', h.value]
        cases lastDelivered es.reverse <;> simp [hdep]
      · intro j hj
        rw [hrev, if_neg hk'] at hj
        rw [hnw]; exact h.delivered_le j hj

theorem rinv_run (d : Nat) (es : List REv) : RInv d es (rrun (Res.init d) es) := by
  induction es using list_snoc_induction with
  | nil => exact rinv_init d
  | snoc es e ih => rw [rrun_snoc]; exact rinv_step ih e

/-! ### the readable statements -/

/-- Invariants of every state reachable from `Res.init d`: at least one fetch was started (one per
write, plus the initial one); the latest fetch captured the current dependency value; `loading` is
the negation of "the latest fetch has delivered"; a held value is tagged with the number of a fetch
that was started and with the dependency value that was current when that fetch was started. -/
theorem C15_invariants (d : Nat) (es : List REv) :
    let r := rrun (Res.init d) es
    1 ≤ r.started ∧ r.started = 1 + nWrites es ∧ r.latestDep = r.dep ∧ r.dep = depOf d es r.started ∧
    r.loading = !r.completedLatest ∧
    (∀ k d', r.value = some (k, d') → 1 ≤ k ∧ k ≤ r.started ∧ d' = depOf d es k) := by
  intro r
  have h := rinv_run d es
  refine ⟨by rw [h.started]; omega, h.started, h.latestDep, h.dep, h.loading, ?_⟩
  intro k d' hv
  have hv' : r.value = some (k, d') := hv
  rw [h.value] at hv'
  cases hl : lastDelivered es.reverse with
  | none => simp [hl] at hv'
  | some j =>
    simp [hl] at hv'
    have := h.delivered_le j hl
    rw [h.started, ← hv'.1, ← hv'.2]
    exact ⟨this.1, this.2, rfl⟩

/-- After any event sequence the resource holds `(k, v)` iff `k` is the most recent fetch that
completed while it was the latest one, and `v` is the dependency value fetch `k` was started with;
it holds nothing iff no fetch ever completed while it was the latest. -/
theorem C15_value_is_latest_completed (d : Nat) (es : List REv) :
    (rrun (Res.init d) es).value = (lastDelivered es.reverse).map fun k => (k, depOf d es k) :=
  (rinv_run d es).value

theorem C15_value_iff (d : Nat) (es : List REv) (k v : Nat) :
    (rrun (Res.init d) es).value = some (k, v) ↔ lastDelivered es.reverse = some k ∧ v = depOf d es k := by
  rw [C15_value_is_latest_completed]
  cases lastDelivered es.reverse with
  | none => simp
  | some j =>
    simp only [Option.map_some, Option.some.injEq, Prod.mk.injEq]
    constructor
    · rintro ⟨rfl, rfl⟩; exact ⟨rfl, rfl⟩
    · rintro ⟨rfl, rfl⟩; exact ⟨rfl, rfl⟩

/-- `depOf`, spelled out: fetch 1 has the initial value, fetch `k + 2` the value of write number `k + 1` -/
theorem C15_depOf (d : Nat) (es : List REv) :
    depOf d es 1 = d ∧ ∀ k, k < nWrites es → some (depOf d es (k + 2)) = (writes es)[k]? :=
  ⟨depOf_one d es, fun k hk => depOf_succ d es k hk⟩

/-- `lastDelivered` with positions: `finish k` occurs at a moment when `k` is the latest fetch, and no
later `finish j` occurs at a moment when `j` is the latest fetch -/
def DeliveredAt (es : List REv) (k : Nat) : Prop :=
  ∃ pre post, es = pre ++ .finish k :: post ∧ k = 1 + nWrites pre ∧
    ∀ pre' j post', post = pre' ++ .finish j :: post' → j ≠ 1 + nWrites (pre ++ .finish k :: pre')

theorem lastDelivered_snoc (es : List REv) (e : REv) :
    lastDelivered (es ++ [e]).reverse =
      match e with
      | .write _ => lastDelivered es.reverse
      | .finish k => if k = 1 + nWrites es then some k else lastDelivered es.reverse := by
  cases e <;> simp [lastDelivered, nWrites_reverse]

theorem lastDelivered_iff (es : List REv) (k : Nat) : lastDelivered es.reverse = some k ↔ DeliveredAt es k := by
  induction es using list_snoc_induction generalizing k with
  | nil =>
    simp [lastDelivered, DeliveredAt]
  | snoc es e ih =>
    rw [lastDelivered_snoc]
    -- decompositions of `es ++ [e]`
    have hsplit : ∀ (pre post : List REv) (j : Nat), es ++ [e] = pre ++ .finish j :: post →
        (post = [] ∧ pre = es ∧ e = .finish j) ∨ ∃ post0, post = post0 ++ [e] ∧ es = pre ++ .finish j :: post0 := by
      intro pre post j h
      rcases eq_nil_or_snoc post with hp | ⟨post0, x, hp⟩
      · subst hp
        have h' : es ++ [e] = pre ++ [.finish j] := h
        have := List.append_inj' h' rfl
        exact .inl ⟨rfl, this.1.symm, by simpa using this.2⟩
      · subst hp
        have h' : es ++ [e] = (pre ++ .finish j :: post0) ++ [x] := by simp [h]
        have := List.append_inj' h' rfl
        have hx : e = x := by simpa using this.2
        subst hx
        exact .inr ⟨post0, rfl, this.1⟩
    cases e with
    | write v =>
      simp only []
      rw [ih]
      constructor
      · rintro ⟨pre, post, h1, h2, h3⟩
        refine ⟨pre, post ++ [.write v], by simp [h1], h2, ?_⟩
        intro pre' j post' hp
        rcases eq_nil_or_snoc post' with hp' | ⟨post0, x, hp'⟩
        · subst hp'
          have : post ++ [REv.write v] = pre' ++ [.finish j] := hp
          have := (List.append_inj' this rfl).2
          simp at this
        · subst hp'
          have : post ++ [REv.write v] = (pre' ++ .finish j :: post0) ++ [x] := by simp [hp]
          exact h3 pre' j post0 (List.append_inj' this rfl).1
      · rintro ⟨pre, post, h1, h2, h3⟩
        rcases hsplit pre post k h1 with ⟨_, _, he⟩ | ⟨post0, hp, hes⟩
        · cases he
        · refine ⟨pre, post0, hes, h2, ?_⟩
          intro pre' j post' hp'
          exact h3 pre' j (post' ++ [.write v]) (by rw [hp, hp']; simp)
    | finish j =>
      simp only []
      by_cases hj : j = 1 + nWrites es
      · rw [if_pos hj]
        constructor
        · intro h; cases h
          exact ⟨es, [], rfl, hj, by intro pre' j' post' hp; simp at hp⟩
        · rintro ⟨pre, post, h1, h2, h3⟩
          rcases hsplit pre post k h1 with ⟨_, hpre, he⟩ | ⟨post0, hp, hes⟩
          · cases he; rfl
          · exfalso
            refine h3 post0 j [] hp ?_
            rw [← hes]; exact hj
      · rw [if_neg hj, ih]
        constructor
        · rintro ⟨pre, post, h1, h2, h3⟩
          refine ⟨pre, post ++ [.finish j], by simp [h1], h2, ?_⟩
          intro pre' j' post' hp
          rcases eq_nil_or_snoc post' with hp' | ⟨post0, x, hp'⟩
          · subst hp'
            have : post ++ [REv.finish j] = pre' ++ [.finish j'] := hp
            have := List.append_inj' this rfl
            have hjj : j = j' := by simpa using this.2
            rw [← this.1, ← h1, ← hjj]; exact hj
          · subst hp'
            have : post ++ [REv.finish j] = (pre' ++ .finish j' :: post0) ++ [x] := by simp [hp]
            exact h3 pre' j' post0 (List.append_inj' this rfl).1
        · rintro ⟨pre, post, h1, h2, h3⟩
          rcases hsplit pre post k h1 with ⟨_, hpre, he⟩ | ⟨post0, hp, hes⟩
          · cases he; subst hpre; exact absurd h2 hj
          · refine ⟨pre, post0, hes, h2, ?_⟩
            intro pre' j' post' hp'
            exact h3 pre' j' (post' ++ [.finish j]) (by rw [hp, hp']; simp)

/-- the same with the history spelled out by positions -/
theorem C15_value_is_latest_completed' (d : Nat) (es : List REv) (k v : Nat) :
    (rrun (Res.init d) es).value = some (k, v) ↔ DeliveredAt es k ∧ v = depOf d es k := by
  rw [C15_value_iff, lastDelivered_iff]

/-- An older fetch (aborted by a later write) cannot overwrite: `finish k` for any `k` other than the
number of the latest fetch changes nothing at all. -/
theorem C15_older_fetch_cannot_overwrite (r : Res) (k : Nat) (hk : k ≠ r.started) :
    rstep r (.finish k) = r := by
  simp [rstep, hk]

theorem C15_older_fetch_cannot_overwrite' (d : Nat) (es : List REv) (k : Nat)
    (hk : k < (rrun (Res.init d) es).started) :
    rrun (Res.init d) (es ++ [.finish k]) = rrun (Res.init d) es := by
  rw [rrun_snoc]; exact C15_older_fetch_cannot_overwrite _ k (by omega)

/-- `finish k` twice is the same as once -/
theorem C15_finish_idempotent (r : Res) (k : Nat) :
    rstep (rstep r (.finish k)) (.finish k) = rstep r (.finish k) := by
  by_cases h : (k = r.started && !r.completedLatest) = true
  · have : rstep r (.finish k) = { r with value := some (k, r.latestDep), loading := false, completedLatest := true } := by
      simp only [rstep, h, if_true]
    rw [this]; simp [rstep]
  · have : rstep r (.finish k) = r := by simp only [rstep, h]; rfl
    rw [this, this]

/-- while the new value is fetched the previous value stays readable -/
theorem C15_previous_value_readable (r : Res) (v : Nat) : (rstep r (.write v)).value = r.value := rfl

/-- … and the resource is loading again -/
theorem C15_write_loading (r : Res) (v : Nat) : (rstep r (.write v)).loading = true := rfl

/-- the resource is loading iff the latest fetch has not completed -/
theorem C15_loading_iff_latest_outstanding (d : Nat) (es : List REv) :
    (rrun (Res.init d) es).loading = true ↔ lastDelivered es.reverse ≠ some (1 + nWrites es) := by
  have h := rinv_run d es
  rw [h.loading]
  have hc := h.completed
  rw [h.value, h.started] at hc
  cases hcl : (rrun (Res.init d) es).completedLatest with
  | true =>
    have := hc.1 hcl
    cases hl : lastDelivered es.reverse with
    | none => simp [hl] at this
    | some k => simp [hl] at this; simp [this]
  | false =>
    have : ¬ ((lastDelivered es.reverse).map fun k => (k, depOf d es k)).map (·.1) = some (1 + nWrites es) := by
      intro h'; have := hc.2 h'; rw [hcl] at this; cases this
    cases hl : lastDelivered es.reverse with
    | none => simp
    | some k => simp [hl] at this; simp [this]

/-- in terms of the state: `loading = true ↔` the held value (if any) is not from the latest fetch -/
theorem C15_loading_iff_value_stale (d : Nat) (es : List REv) :
    (rrun (Res.init d) es).loading = true ↔
      (rrun (Res.init d) es).value.map (·.1) ≠ some (rrun (Res.init d) es).started := by
  have h := rinv_run d es
  generalize rrun (Res.init d) es = r at h ⊢
  rw [h.loading]
  cases hcl : r.completedLatest with
  | true => simpa using h.completed.1 hcl
  | false =>
    simp only [Bool.not_false, true_iff]
    intro h'; have := h.completed.2 h'; rw [hcl] at this; cases this

/-! ### non-vacuity -/

/-- dependency 10; fetch 1 completes; write 20 (fetch 2), write 30 (fetch 3); the aborted fetch 2 and
fetch 1 "complete": nothing; fetch 3 completes twice -/
def c15Evs : List REv := [.finish 1, .write 20, .write 30, .finish 2, .finish 1, .finish 3, .finish 3]

example : (rrun (Res.init 10) c15Evs).value = some (3, 30) ∧ (rrun (Res.init 10) c15Evs).loading = false := by decide
example : lastDelivered c15Evs.reverse = some 3 ∧ depOf 10 c15Evs 3 = 30 ∧ nWrites c15Evs = 2 := by decide
example : ((c15Evs.take 5).foldl rstep (Res.init 10)).value = some (1, 10) ∧
    ((c15Evs.take 5).foldl rstep (Res.init 10)).loading = true ∧
    lastDelivered (c15Evs.take 5).reverse = some 1 := by decide
example : (rrun (Res.init 10) [.write 20, .finish 1]).value = none ∧
    lastDelivered [REv.write 20, .finish 1].reverse = none := by decide
example : DeliveredAt c15Evs 3 :=
  ⟨[.finish 1, .write 20, .write 30, .finish 2, .finish 1, .finish 3], [], rfl, by decide, by
    intro pre' j post' h; simp at h⟩

end SycVerif.Async
