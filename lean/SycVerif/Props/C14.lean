/-
C14 — "A future spawned in a scope is never polled after that scope is disposed; disposing never
panics; loading counters of surviving boundaries held by the cancelled task are released."

Model: `SycVerif/Model/Async.lean`, after the repair D5 (`SuspenseTaskGuard::drop` tolerates a disposed
counter: `dropGuard` checks `scopeAlive`). "Never panics": `step : M → Ev → M` is a TOTAL function —
there is no error outcome in the model; in particular `dropGuard` on a dead counter and `dispose` of a
dead or unknown scope are defined (and are no-ops, see `C14_dispose_idempotent`). That the repaired
Rust does not panic where the model is total is the business of the correspondence check.

Vocabulary (`Lemmas/Async.lean`): `Reach`, `run`, `unfinishedAt`, `unfin b tk` (`tk` is pending and
registered at `b`), `Anc m s i` (`s` is `i` or an ancestor of `i`), `Encloses`,
`dying m s i = inSubtree m s m.scopes.length i` (the scopes killed by `dispose m s`), `pollOf m t`
(the poll recorded by `complete m t`: `[(t, awaits - 1)]` if `t` is pending with an await point left,
else `[]`). `polls` is the log of task-body resumptions. `M.ownerOf n` (model): the scope recorded as the
owner of resource `n` by `Item.resource n`, the root scope 0 if there is none. All statements quantify over
every build description, so they cover the fetch task of a resource and the guard of a read (`Item.use`),
which is a task of the OWNER's scope: see the section "resources and reads".
-/
import SycVerif.Lemmas.Async
namespace SycVerif.Async

/-! ### what the subtree is -/

/-- in a reachable state `inSubtree` with the fuel used by `dispose` is the descendant-or-equal
relation of the ownership tree -/
theorem C14_subtree_iff {m : M} (hr : Reach m) (s i : Nat) (hi : i < m.scopes.length) :
    inSubtree m s m.scopes.length i = true ↔ Anc m s i :=
  inSubtree_iff hr.good.struct s i hi

/-- the subtree of `s` is the same in every state of a run (the ownership tree is static) -/
theorem C14_subtree_constant (m : M) (es : List Ev) (s i : Nat) :
    inSubtree (run m es) s (run m es).scopes.length i = inSubtree m s m.scopes.length i := by
  have h := sameSkel_run m es
  rw [h.len]; exact inSubtree_sameSkel h s _ i

/-- `dispose s` kills exactly the live scopes of the subtree of `s` -/
theorem C14_dispose_scopes (m : M) (s i : Nat) :
    scopeAlive (step m (.dispose s)) i = (scopeAlive m i && !inSubtree m s m.scopes.length i) := by
  show scopeAlive (drain (dispose m s)) i = _
  rw [scopeAlive_congr (drain_scopes _), scopeAlive_dispose]; rfl

/-! ### polls -/

/-- the body of a task is resumed only by `complete` of a PENDING task: -/
theorem C14_complete_polls (m : M) (t : Nat) : (step m (.complete t)).polls = m.polls ++ pollOf m t :=
  step_complete_polls m t

/-- `complete t` on a task that is not pending (finished, or cancelled) polls nothing -/
theorem C14_complete_not_pending {m : M} {t : Nat} {tk : Task} (ht : m.tasks[t]? = some tk)
    (hp : tk.status ≠ .pending) : (step m (.complete t)).polls = m.polls := by
  rw [step_complete_polls]
  unfold pollOf; rw [ht]; simp [hp]

/-- `dispose` itself polls nothing -/
theorem C14_dispose_polls (m : M) (s : Nat) : (step m (.dispose s)).polls = m.polls :=
  step_dispose_polls m s

/-- `dispose s` cancels every pending task spawned in the subtree: aborted by the cleanup, dropped by
the executor turn -/
theorem C14_dispose_cancels {m : M} {s t : Nat} {tk : Task} (ht : m.tasks[t]? = some tk)
    (hs : inSubtree m s m.scopes.length tk.scope = true) (hp : tk.status = .pending) :
    (step m (.dispose s)).tasks[t]? = some { tk with status := .dropped } :=
  step_dispose_dropped ht hs hp

/-- … and touches no other task -/
theorem C14_dispose_others {m : M} (hr : Reach m) {s t : Nat} {tk : Task} (ht : m.tasks[t]? = some tk)
    (hs : inSubtree m s m.scopes.length tk.scope = false ∨ tk.status ≠ .pending) :
    (step m (.dispose s)).tasks[t]? = some tk :=
  step_dispose_other hr.good.noAborted ht hs

/-- a task never becomes pending again -/
theorem C14_pending_antitone {m : M} {es : List Ev} {t : Nat} {tk' : Task}
    (ht : (run m es).tasks[t]? = some tk') (hp : tk'.status = .pending) :
    ∃ tk, m.tasks[t]? = some tk ∧ tk.status = .pending :=
  run_pending ht hp

/-- Along ANY event sequence `pre ++ dispose s :: post` from ANY state `m`: every poll recorded after
the `dispose s` belongs to a task whose scope is outside the subtree of `s`. -/
theorem C14_no_poll_after_dispose (m : M) (pre post : List Ev) (s : Nat) :
    ∃ extra : List (Nat × Nat),
      (run m (pre ++ .dispose s :: post)).polls = (run m (pre ++ [.dispose s])).polls ++ extra ∧
      ∀ p, p ∈ extra → ∀ tk, m.tasks[p.1]? = some tk → inSubtree m s m.scopes.length tk.scope = false := by
  have e1 : run m (pre ++ .dispose s :: post) = run (step (run m pre) (.dispose s)) post := by
    rw [run_append, run_cons]
  have e2 : run m (pre ++ [.dispose s]) = step (run m pre) (.dispose s) := by
    rw [run_append, run_cons, run_nil]
  rw [e1, e2]
  obtain ⟨extra, h1, h2⟩ := run_polls (step (run m pre) (.dispose s)) post
  refine ⟨extra, h1, ?_⟩
  intro p hp tk htk
  obtain ⟨tk2, h3, h4⟩ := h2 p hp
  have hsk : SameSkel m (step (run m pre) (.dispose s)) := (sameSkel_run m pre).trans (sameSkel_step _ _)
  obtain ⟨tk0, h5, h6, _⟩ := hsk.task_of h3
  rw [htk] at h5; cases h5
  rw [h6, ← C14_subtree_constant m pre s tk2.scope]
  cases hd : inSubtree (run m pre) s (run m pre).scopes.length tk2.scope with
  | false => rfl
  | true => exact absurd h4 (step_dispose_kills h3 hd)

/-- the same for reachable states, with the ownership tree spelled out: no task spawned in `s` or in
a descendant of `s` is polled after `dispose s` -/
theorem C14_no_poll_after_dispose' {m : M} (hr : Reach m) (pre post : List Ev) (s : Nat) :
    ∃ extra : List (Nat × Nat),
      (run m (pre ++ .dispose s :: post)).polls = (run m (pre ++ [.dispose s])).polls ++ extra ∧
      ∀ p, p ∈ extra → ∀ tk, m.tasks[p.1]? = some tk → ¬ Anc m s tk.scope := by
  obtain ⟨extra, h1, h2⟩ := C14_no_poll_after_dispose m pre post s
  refine ⟨extra, h1, fun p hp tk htk hanc => ?_⟩
  have := h2 p hp tk htk
  rw [(C14_subtree_iff hr s tk.scope (hr.good.struct.task_scope _ tk htk)).2 hanc] at this
  cases this

/-! ### counters of the survivors -/

theorem countP_split {α} (p q : α → Bool) (l : List α) :
    l.countP p = l.countP (fun x => p x && q x) + l.countP (fun x => p x && !q x) := by
  induction l with
  | nil => rfl
  | cons a l ih =>
    simp only [List.countP_cons, ih]
    cases p a <;> cases q a <;> simp <;> omega

/-- After `dispose s`, the counter of every boundary whose counter survives equals the number of
still-pending tasks registered at it — the cancelled tasks no longer count: these are exactly the
tasks that were pending before and were spawned outside the subtree of `s`. -/
theorem C14_survivor_released {m : M} (hr : Reach m) (s : Nat) {b : Nat} {bd' : Boundary} :
    let m' := step m (.dispose s)
    m'.boundaries[b]? = some bd' → scopeAlive m' bd'.counterScope = true →
    bd'.remaining = unfinishedAt m' b ∧
    unfinishedAt m' b = m.tasks.countP fun tk => unfin b tk && !inSubtree m s m.scopes.length tk.scope := by
  intro m' hb hal
  exact ⟨(hr.step (.dispose s)).good.counter_eq hb hal, unfinishedAt_step_dispose hr.good.noAborted s b⟩

/-- … i.e. the counter dropped by the number of cancelled tasks that held it -/
theorem C14_survivor_released_delta {m : M} (hr : Reach m) (s : Nat) {b : Nat} {bd bd' : Boundary}
    (hb0 : m.boundaries[b]? = some bd) (hb : (step m (.dispose s)).boundaries[b]? = some bd')
    (hal : scopeAlive (step m (.dispose s)) bd'.counterScope = true) :
    bd.remaining = bd'.remaining +
      m.tasks.countP fun tk => unfin b tk && inSubtree m s m.scopes.length tk.scope := by
  obtain ⟨h1, h2⟩ := C14_survivor_released hr s hb hal
  have hsk := sameSkel_step m (.dispose s)
  obtain ⟨bd0, h3, _, h4, _⟩ := hsk.bnd_of hb
  rw [hb0] at h3; cases h3
  have hal0 : scopeAlive m bd.counterScope = true := by
    rw [C14_dispose_scopes, ← h4] at hal
    simp at hal; exact hal.1
  rw [hr.good.counter_eq hb0 hal0, h1, h2]
  unfold unfinishedAt
  rw [countP_split (unfin b) (fun tk => inSubtree m s m.scopes.length tk.scope)]
  omega

/-- if no pending task remains under `b` or an enclosing boundary, `b` is not loading -/
theorem C14_survivor_not_loading {m : M} (hr : Reach m) (s : Nat) {b : Nat} {bd' : Boundary} :
    let m' := step m (.dispose s)
    m'.boundaries[b]? = some bd' → scopeAlive m' bd'.innerScope = true →
    (∀ (a t : Nat) (tk : Task), Encloses m' a b → m'.tasks[t]? = some tk → tk.boundary = some a →
      tk.status ≠ .pending) →
    isLoading m' (m'.boundaries.length + 1) b = false := by
  intro m' hb hal hnone
  cases h : isLoading m' (m'.boundaries.length + 1) b with
  | false => rfl
  | true =>
    obtain ⟨a, t, tk, h1, h2, h3, h4⟩ := (isLoading_iff (hr.step (.dispose s)).good hb hal).1 h
    exact absurd h4 (hnone a t tk h1 h2 h3)

/-! ### disposing twice -/

/-- Disposing a dead (already disposed, or never created) scope changes nothing at all: scopes,
counters, polls, task statuses. -/
theorem C14_dispose_idempotent {m : M} (hr : Reach m) {s : Nat} (hs : scopeAlive m s = false) :
    step m (.dispose s) = m :=
  step_dispose_dead hr.good hs

/-- after `dispose s`, `s` is dead -/
theorem C14_disposed_dead (m : M) (s : Nat) : scopeAlive (step m (.dispose s)) s = false := by
  rw [C14_dispose_scopes]
  cases h : scopeAlive m s with
  | false => rfl
  | true =>
    have hlt : s < m.scopes.length := by
      unfold scopeAlive at h
      cases h' : m.scopes[s]? with
      | none => simp [h'] at h
      | some sc => exact (List.getElem?_eq_some_iff.1 h').1
    cases hn : m.scopes.length with
    | zero => omega
    | succ n => simp [inSubtree]

/-- `dispose s; dispose s` = `dispose s` -/
theorem C14_dispose_twice {m : M} (hr : Reach m) (s : Nat) :
    step (step m (.dispose s)) (.dispose s) = step m (.dispose s) :=
  C14_dispose_idempotent (hr.step _) (C14_disposed_dead m s)

/-! ### resources and reads

`Item.resource n` spawns the fetch as a task of the current scope and records that scope as the owner of
resource `n`. `Item.use n` (resource `n` is read while it is loading) registers a guard at the boundary in
scope; the guard is held by the RESOURCE: it is a task of the scope that owns the resource
(`M.ownerOf n`; the root scope 0 when no item created resource `n`), not of the scope of the reader. -/

/-- the task created by `Item.resource n` and the owner it records -/
theorem C14_resource_task (m : M) (cur : Nat) (ctx : Option Nat) (n : Nat) :
    (buildItem m cur ctx (.resource n)).tasks = m.tasks ++ [⟨cur, ctx, 1, .pending⟩] ∧
    (buildItem m cur ctx (.resource n)).resOwner = m.resOwner ++ [(n, cur)] := by
  rw [buildItem_resource]; exact ⟨addTask_tasks m cur ctx 1, rfl⟩

/-- the task created by `Item.use n`: its scope is the owner of the resource, not `cur` -/
theorem C14_use_task (m : M) (cur : Nat) (ctx : Option Nat) (n : Nat) :
    (buildItem m cur ctx (.use n)).tasks = m.tasks ++ [⟨m.ownerOf n, ctx, 1, .pending⟩] ∧
    (buildItem m cur ctx (.use n)).resOwner = m.resOwner := by
  rw [buildItem_use]; exact ⟨addTask_tasks _ _ _ _, addTask_resOwner _ _ _ _⟩

/-- events never change the recorded owners; the owner of a resource is a scope that exists -/
theorem C14_owner {m : M} (hr : Reach m) (e : Ev) (n : Nat) :
    (step m e).ownerOf n = m.ownerOf n ∧ m.ownerOf n < m.scopes.length := by
  refine ⟨?_, hr.good.struct.ownerOf_lt n⟩
  unfold M.ownerOf; rw [(sameSkel_step m e).res]

/-- The guard of a read is released with the OWNER of the resource. `tk` is a pending task of the scope
that owns resource `n`, registered at boundary `b` (the task of an `Item.use n`, see `C14_use_task`), and
the owner is `s` or a descendant of `s`. Then `dispose s` cancels the task (aborted, then dropped by the
executor turn), and the counter of `b`, if it survives, goes down by the number of cancelled tasks that
held it — this task among them, so it goes down. -/
theorem C14_use_released_with_owner {m : M} (hr : Reach m) {s t n b : Nat} {tk : Task} {bd bd' : Boundary}
    (ht : m.tasks[t]? = some tk) (hsc : tk.scope = m.ownerOf n) (hbt : tk.boundary = some b)
    (hp : tk.status = .pending) (hs : Anc m s (m.ownerOf n))
    (hb0 : m.boundaries[b]? = some bd) (hb : (step m (.dispose s)).boundaries[b]? = some bd')
    (hal : scopeAlive (step m (.dispose s)) bd'.counterScope = true) :
    (step m (.dispose s)).tasks[t]? = some { tk with status := .dropped } ∧
    bd.remaining = bd'.remaining +
      (m.tasks.countP fun tk => unfin b tk && inSubtree m s m.scopes.length tk.scope) ∧
    bd'.remaining < bd.remaining := by
  have hin : inSubtree m s m.scopes.length tk.scope = true := by
    rw [hsc]; exact (C14_subtree_iff hr s _ (hr.good.struct.ownerOf_lt n)).2 hs
  have hdelta := C14_survivor_released_delta hr s hb0 hb hal
  refine ⟨C14_dispose_cancels ht hin hp, hdelta, ?_⟩
  have : 0 < m.tasks.countP fun tk => unfin b tk && inSubtree m s m.scopes.length tk.scope :=
    List.countP_pos_iff.2 ⟨tk, List.mem_iff_getElem?.2 ⟨t, ht⟩, by simp [unfin, hbt, hp, hin]⟩
  omega

/-- The guard of a read survives the scope of the READER. `tk` is a task of the scope that owns resource
`n` (the task of an `Item.use n`); the owner is not in the subtree of `s` (e.g. `s` is the scope the read
happened in, below the owner). Then `dispose s` does not touch the task; if it is pending and registered
at `b`, then `b`, if its inner scope survives, is still loading. -/
theorem C14_use_survives_reader_scope {m : M} (hr : Reach m) {s t n : Nat} {tk : Task}
    (ht : m.tasks[t]? = some tk) (hsc : tk.scope = m.ownerOf n) (hs : ¬ Anc m s (m.ownerOf n)) :
    let m' := step m (.dispose s)
    m'.tasks[t]? = some tk ∧
    ∀ (b : Nat) (bd' : Boundary), tk.status = .pending → tk.boundary = some b →
      m'.boundaries[b]? = some bd' → scopeAlive m' bd'.innerScope = true →
      isLoading m' (m'.boundaries.length + 1) b = true := by
  intro m'
  have hout : inSubtree m s m.scopes.length tk.scope = false := by
    cases h : inSubtree m s m.scopes.length tk.scope with
    | false => rfl
    | true => rw [hsc] at h; exact absurd (inSubtree_sound m s _ _ h) hs
  have ht' : m'.tasks[t]? = some tk := C14_dispose_others hr ht (.inl hout)
  refine ⟨ht', fun b bd' hp hbt hb hal => ?_⟩
  exact (isLoading_iff (hr.step (.dispose s)).good hb hal).2 ⟨b, t, tk, .refl, ht', hbt, hp⟩

/-! ### non-vacuity -/

/-- `S1 { B0 { t0(2) } }   B1 { S4 { t1(1) }  t2(1) }`:
scopes 0 root, 1 = S1, 2 = inner(B0), 3 = inner(B1), 4 = S4 -/
def c14Items : List Item := [.scope [.boundary [.task 2]], .boundary [.scope [.task 1], .task 1]]
def c14M : M := buildItems M.init 0 none c14Items

example : (c14M.scopes.map (·.parent)) = [none, some 0, some 1, some 0, some 3] := by decide
example : (c14M.tasks.map (·.scope)) = [2, 4, 3] ∧ (c14M.boundaries.map (·.remaining)) = [1, 2] := by decide
-- dispose S1 after one await of t0: t0 is dropped, completing it again polls nothing;
-- boundary 0's counter died with scope 1 (not touched: D5), boundary 1 is unaffected
example : let m := run c14M [.complete 0, .dispose 1, .complete 0, .complete 0]
    m.polls = [(0, 1)] ∧ (m.tasks.map (·.status)) = [.dropped, .pending, .pending] ∧
    (m.scopes.map (·.alive)) = [true, false, false, true, true] ∧
    (m.boundaries.map (·.remaining)) = [1, 2] := by decide
-- dispose S4 (inside B1): t1 is cancelled and B1's counter, which survives, is released: 2 → 1
example : let m := run c14M [.dispose 4, .complete 1]
    m.polls = [] ∧ (m.tasks.map (·.status)) = [.pending, .dropped, .pending] ∧
    (m.boundaries.map (·.remaining)) = [1, 1] ∧ isLoading m 3 1 = true := by decide
example : let m := run c14M [.dispose 4, .complete 1, .complete 2]
    m.polls = [(2, 0)] ∧ (m.boundaries.map (·.remaining)) = [1, 0] ∧ isLoading m 3 1 = false ∧
    globalLoading m = true := by decide
-- disposing twice / disposing an unknown scope
example : (run c14M [.dispose 4, .dispose 4]).polls = (run c14M [.dispose 4]).polls ∧
    ((run c14M [.dispose 4, .dispose 4]).boundaries.map (·.remaining)) = [1, 1] ∧
    ((run c14M [.dispose 9]).scopes.map (·.alive)) = [true, true, true, true, true] := by decide
-- hypotheses of `C14_dispose_cancels` / `C14_dispose_idempotent`
example : inSubtree c14M 1 c14M.scopes.length 2 = true ∧ inSubtree c14M 1 c14M.scopes.length 3 = false := by decide
example : scopeAlive (run c14M [.dispose 1]) 2 = false := by decide

/-- `S1 { resource 0 }   B0 { use 0 }`: scopes 0 root, 1 = S1, 2 = inner(B0); task 0 = the fetch (scope 1),
task 1 = the guard of the read: registered at B0, a task of scope 1 = the owner of resource 0 -/
def c14UseOwner : M := buildItems M.init 0 none [.scope [.resource 0], .boundary [.use 0]]

example : (c14UseOwner.tasks.map fun tk => (tk.scope, tk.boundary)) = [(1, none), (1, some 0)] ∧
    c14UseOwner.resOwner = [(0, 1)] ∧ c14UseOwner.ownerOf 0 = 1 ∧
    (c14UseOwner.boundaries.map (·.remaining)) = [1] ∧ isLoading c14UseOwner 2 0 = true := by decide
-- `C14_use_released_with_owner`: dispose the owner S1: the guard is dropped, B0's counter (scope 0, alive)
-- is released 1 → 0, B0 is not loading; completing the dropped tasks polls nothing
example : let m := run c14UseOwner [.dispose 1, .complete 1, .complete 0]
    (m.tasks.map (·.status)) = [.dropped, .dropped] ∧ (m.boundaries.map (·.remaining)) = [0] ∧
    scopeAlive m 0 = true ∧ scopeAlive m 2 = true ∧ isLoading m 2 0 = false ∧ globalLoading m = false ∧
    m.polls = [] := by decide
example : Anc c14UseOwner 1 (c14UseOwner.ownerOf 0) := .refl

/-- `resource 0   B0 { S2 { use 0 } }`: scopes 0 root, 1 = inner(B0), 2 = S2; task 0 = the fetch (scope 0),
task 1 = the guard of the read made in S2: registered at B0, a task of scope 0 = the owner of resource 0 -/
def c14UseReader : M := buildItems M.init 0 none [.resource 0, .boundary [.scope [.use 0]]]

example : (c14UseReader.tasks.map fun tk => (tk.scope, tk.boundary)) = [(0, none), (0, some 0)] ∧
    (c14UseReader.scopes.map (·.parent)) = [none, some 0, some 1] ∧ c14UseReader.ownerOf 0 = 0 ∧
    (c14UseReader.boundaries.map (·.remaining)) = [1] := by decide
-- `C14_use_survives_reader_scope`: dispose the reader's scope S2: the guard stays pending, B0 is loading
example : let m := run c14UseReader [.dispose 2]
    (m.tasks.map (·.status)) = [.pending, .pending] ∧ (m.scopes.map (·.alive)) = [true, true, false] ∧
    (m.boundaries.map (·.remaining)) = [1] ∧ isLoading m 2 0 = true := by decide
-- … until the guard is released: B0 is not loading any more
example : let m := run c14UseReader [.dispose 2, .complete 1]
    (m.tasks.map (·.status)) = [.pending, .done] ∧ (m.boundaries.map (·.remaining)) = [0] ∧
    isLoading m 2 0 = false ∧ m.polls = [(1, 0)] := by decide
example : inSubtree c14UseReader 2 c14UseReader.scopes.length (c14UseReader.ownerOf 0) = false := by decide
-- a read of a resource that no item created: the owner is the root scope
example : (buildItems M.init 0 none [.scope [.boundary [.use 7]]]).ownerOf 7 = 0 ∧
    ((buildItems M.init 0 none [.scope [.boundary [.use 7]]]).tasks.map (·.scope)) = [0] := by decide

end SycVerif.Async
