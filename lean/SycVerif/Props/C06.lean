/-
Property C06: `reconcile_fragments` (packages/sycamore-web/src/iter.rs, the udomdiff port used by
`Keyed`/`Indexed`), over the model `SycVerif/Model/Reconcile.lean` (children list of one parent, DOM
mutations as in the WHATWG standard). The statements are in `SycVerif/Spec/Reconcile.lean`; the loop
invariant and the per-branch lemmas are in `SycVerif/Lemmas/Reconcile.lean`.
-/
import SycVerif.Spec.Reconcile
import SycVerif.Lemmas.Reconcile
namespace SycVerif.Reconcile

/-! ## The main theorem -/

/-- For ALL sibling lists `pre`, `post`, all old contents `a ≠ []` and all wanted contents `b`
(duplicate-free, new nodes not among the siblings): the routine does not fail and the children become
exactly `pre ++ b ++ post`. -/
theorem C06_reconcile : C06_reconcile_statement :=
  fun pre a b post ha hnd hb hnew => reconcile_ok pre a b post ha hnd hb hnew

/-- The way `Keyed`/`Indexed` use it: the region is what `get_nodes_between(start, end)` returns plus
the end marker, and afterwards the region is the new nodes plus the same end marker. -/
theorem C06_region : C06_region_statement := by
  intro pre old new post start stop hnd hnew hfresh
  refine ⟨nodesBetween_region pre old post start stop hnd, ?_⟩
  have hnd' : ((pre ++ [start]) ++ (old ++ [stop]) ++ post).Nodup := by simpa using hnd
  have h := reconcile_ok (pre ++ [start]) (old ++ [stop]) (new ++ [stop]) post (by simp) hnd' hnew (by
    intro x hx hxa
    simp only [List.mem_append, List.mem_singleton, not_or] at hx hxa
    rcases hx with hx | hx
    · have := hfresh x hx hxa.1
      simp only [List.mem_append, List.mem_singleton, not_or]
      exact ⟨⟨this.1, this.2.2⟩, this.2.1⟩
    · exact absurd hx hxa.2)
  simpa using h

/-! ## Corollaries -/

/-- Retained nodes are the very same nodes (identities are the numbers) and sit in the order of `b`;
removed nodes are no longer children; the siblings are in place; nothing is duplicated. -/
theorem C06_retained_same_nodes (pre a b post : List Nat) (ha : a ≠ [])
    (hnd : (pre ++ a ++ post).Nodup) (hb : b.Nodup) (hnew : ∀ x ∈ b, x ∉ a → x ∉ pre ∧ x ∉ post) :
    ∃ ch', reconcile (pre ++ a ++ post) a b = .ok ch' ∧
      pre <+: ch' ∧ post <:+ ch' ∧ b <:+: ch' ∧ ch'.Nodup ∧
      ch'.length = pre.length + b.length + post.length ∧
      (∀ x ∈ a, x ∈ b → x ∈ ch') ∧ (∀ x ∈ a, x ∉ b → x ∉ ch') ∧ (∀ x ∈ b, x ∈ ch') := by
  refine ⟨pre ++ b ++ post, reconcile_ok pre a b post ha hnd hb hnew, ?_, ?_, ?_, ?_, ?_, ?_, ?_, ?_⟩
  · rw [List.append_assoc]; exact List.prefix_append _ _
  · exact List.suffix_append _ _
  · exact ⟨pre, post, rfl⟩
  · have hnd' := hnd
    simp only [List.nodup_append, List.mem_append] at hnd' ⊢
    refine ⟨⟨hnd'.1.1, hb, ?_⟩, hnd'.2.1, ?_⟩
    · intro x hx y hy e
      subst e
      by_cases hxa : x ∈ a
      · exact hnd'.1.2.2 x hx x hxa rfl
      · exact (hnew x hy hxa).1 hx
    · intro x hx y hy e
      subst e
      rcases hx with hx | hx
      · exact hnd'.2.2 x (Or.inl hx) x hy rfl
      · by_cases hxa : x ∈ a
        · exact hnd'.2.2 x (Or.inr hxa) x hy rfl
        · exact (hnew x hx hxa).2 hy
  · simp; omega
  · intro x _ hxb; simp [hxb]
  · intro x hxa hxb
    have hnd' := hnd
    simp only [List.nodup_append, List.mem_append] at hnd'
    simp only [List.mem_append, not_or]
    exact ⟨⟨fun h => hnd'.1.2.2 x h x hxa rfl, hxb⟩, fun h => hnd'.2.2 x (Or.inr hxa) x h rfl⟩
  · intro x hxb; simp [hxb]

/-- Reconciling a region with its own content changes nothing (and performs no failing DOM call). -/
theorem C06_idempotent (pre b post : List Nat) (hb : b ≠ []) (hnd : (pre ++ b ++ post).Nodup) :
    reconcile (pre ++ b ++ post) b b = .ok (pre ++ b ++ post) := by
  have hbn : b.Nodup := by
    simp only [List.nodup_append] at hnd; exact hnd.1.2.1
  exact reconcile_ok pre b b post hb hnd hbn (fun x hx hxa => absurd hx hxa)

/-- The routine never fails under the hypotheses (no `NotFoundError`, no slice panic, enough fuel). -/
theorem C06_never_fails (pre a b post : List Nat) (ha : a ≠ [])
    (hnd : (pre ++ a ++ post).Nodup) (hb : b.Nodup) (hnew : ∀ x ∈ b, x ∉ a → x ∉ pre ∧ x ∉ post) :
    ∀ e, reconcile (pre ++ a ++ post) a b ≠ .error e := by
  intro e h
  rw [reconcile_ok pre a b post ha hnd hb hnew] at h
  cases h

/-- Clearing a keyed list: everything but the end marker is removed. -/
theorem C06_clear (pre old post : List Nat) (start stop : Nat)
    (hnd : (pre ++ [start] ++ old ++ [stop] ++ post).Nodup) :
    reconcile (pre ++ [start] ++ old ++ [stop] ++ post) (old ++ [stop]) [stop]
      = .ok (pre ++ [start] ++ [stop] ++ post) := by
  have := (C06_region pre old [] post start stop hnd (by simp) (by simp)).2
  simpa using this

/-! ## Non-vacuity: concrete evaluations of the model (by `decide`) -/

instance : DecidableEq (Except DomErr (List Nat))
  | .ok a, .ok b => if h : a = b then isTrue (by rw [h]) else isFalse (fun e => h (Except.ok.inj e))
  | .error a, .error b => if h : a = b then isTrue (by rw [h]) else isFalse (fun e => h (Except.error.inj e))
  | .ok _, .error _ => isFalse (fun e => by cases e)
  | .error _, .ok _ => isFalse (fun e => by cases e)

-- a move to the front: [1,2,3,4] → [4,1,2,3], siblings 10 and 20
example : reconcile [10, 1, 2, 3, 4, 20] [1, 2, 3, 4] [4, 1, 2, 3] = .ok [10, 4, 1, 2, 3, 20] := by decide
-- swap of the two ends
example : reconcile [10, 1, 2, 3, 4, 20] [1, 2, 3, 4] [4, 2, 3, 1] = .ok [10, 4, 2, 3, 1, 20] := by decide
-- swap of two adjacent nodes, nothing after them
example : reconcile [1, 2] [1, 2] [2, 1] = .ok [2, 1] := by decide
-- insertion of new nodes in the middle
example : reconcile [10, 1, 2, 20] [1, 2] [1, 7, 8, 2] = .ok [10, 1, 7, 8, 2, 20] := by decide
-- reversal (swap branch repeatedly)
example : reconcile [1, 2, 3, 4, 5] [1, 2, 3, 4, 5] [5, 4, 3, 2, 1] = .ok [5, 4, 3, 2, 1] := by decide
-- map fallback: insert-run, replaceChild, skip and remove all occur
example : reconcile [10, 1, 2, 3, 4, 5, 20] [1, 2, 3, 4, 5] [3, 7, 1, 5, 2]
    = .ok [10, 3, 7, 1, 5, 2, 20] := by decide
-- map fallback with different last elements
example : reconcile [1, 2, 3, 4] [1, 2, 3, 4] [3, 1, 9] = .ok [3, 1, 9] := by decide
-- removal of everything but the end marker (99)
example : reconcile [10, 50, 1, 2, 3, 99, 20] [1, 2, 3, 99] [99] = .ok [10, 50, 99, 20] := by decide
-- the empty `a` is rejected (Rust: `debug_assert!(!a.is_empty())`, then `a[a_end - 1]` panics)
example : reconcile [10, 20] [] [1] = .error .index := by decide
-- the hypothesis "new nodes are not siblings" matters: stealing the sibling 10 changes `pre`
example : reconcile [10, 1, 20] [1] [1, 10] = .ok [1, 10, 20] := by decide
-- `nodesBetween`
example : nodesBetween [10, 50, 1, 2, 3, 99, 20] 50 99 = [1, 2, 3] := by decide

end SycVerif.Reconcile
