/-
C08 — SSR output parses back to exactly the view that was built (statement: `Spec/HtmlNorm.lean`).

Proof route (`Lemmas/Html.lean`):
* character level: `decode (escapeText s ++ r) = s ++ decode r`, `60 ∉ escapeText s`, `34 ∉ escapeAttr s`,
  scanners stop where they should (`takeText_append`, `takeQuoted_append`, `takeName_append`);
* attribute lists: `takeAttrs_pieces`; one tokenizer step per start tag / end tag / comment
  (`tokenize_startTag`, `tokenize_endTag`, `tokenize_cmt_*`);
* a view is cut into *pieces* (source string, token); the rendered string is the concatenation of
  the sources (`renderList_pieces`); adjacent escaped texts form ONE text run, which is handled by
  walking the pieces with a pending text prefix (`runsG`, `tokenize_pieces`); every token consumes
  at least one character, so `length + 1` fuel suffices (`pieces_bound`, `tokenize_pieces_full`);
* tree level: the builder on the merged token stream pushes exactly the merged expected nodes
  (`tree_node`/`tree_list`, `mergeText_eq`, `buildTree_toks`).
-/
import SycVerif.Lemmas.Html
namespace SycVerif.Html
open SycVerif.Ssr

/-- **C08**: every well-formed view renders without panicking to a string that the reference
reader parses back to exactly the expected tree — for ALL text and attribute values. -/
theorem C08_roundtrip : C08_roundtrip_statement := by
  intro v h
  obtain ⟨hr, hg⟩ := renderList_pieces v h
  refine ⟨_, hr, ?_⟩
  simp only [parse]
  rw [tokenize_pieces_full _ hg]
  exact buildTree_toks v h

/-- the same, for a single text node, spelled out: any string round-trips as one text node -/
theorem C08_text_roundtrip (t : Str) (ht : t ≠ []) :
    parse (escapeText t) = some [.text t] := by
  obtain ⟨s, hs, hp⟩ := C08_roundtrip (.cons (.textStatic t) .nil) (by simp [WFList, WF])
  have hne : t.isEmpty = false := by cases t <;> simp_all
  simp only [renderList, render, List.append_nil, Except.ok.injEq] at hs
  subst hs
  rw [hp]
  simp [expected, flatList, flat, hne, mergeText]

/-! ### injection safety -/

mutual
/-- elements of a parsed forest in document order: tag name and attribute names -/
def elementsOf : HNode → List (Str × List Str)
  | .element tag attrs kids => (tag, attrs.map (·.1)) :: elementsOfL kids
  | _ => []
def elementsOfL : List HNode → List (Str × List Str)
  | [] => []
  | n :: r => elementsOf n ++ elementsOfL r
end

mutual
/-- comments of a parsed forest in document order -/
def commentsOf : HNode → List Str
  | .element _ _ kids => commentsOfL kids
  | .comment c => [c]
  | .text _ => []
def commentsOfL : List HNode → List Str
  | [] => []
  | n :: r => commentsOf n ++ commentsOfL r
end

def boolNames : List (Str × Bool) → List Str
  | [] => []
  | (n, true) :: r => n :: boolNames r
  | (_, false) :: r => boolNames r

def hkNames : Option (Nat × Nat) → List Str
  | none => []
  | some _ => [lit "data-hk"]

mutual
/-- the elements the developer wrote: tag names and attribute names, in document order.
Defined without looking at any text or attribute VALUE. -/
def viewElements : SsrNode → List (Str × List Str)
  | .element tag attrs battrs ch _ hk =>
    (tag, attrs.map (·.1) ++ boolNames battrs ++ hkNames hk) :: viewElementsL ch
  | .dynamic v => viewElementsL v
  | _ => []
def viewElementsL : SsrList → List (Str × List Str)
  | .nil => []
  | .cons n r => viewElements n ++ viewElementsL r
end

mutual
/-- the comments the library emits (hydration markers): `t`/empty around dynamic text, `/` for
markers. Defined without looking at any text or attribute value. -/
def viewComments : SsrNode → List Str
  | .element _ _ _ ch _ _ => viewCommentsL ch
  | .textDynamic _ => [lit "t", []]
  | .textStatic _ => []
  | .marker => [lit "/"]
  | .dynamic v => viewCommentsL v
def viewCommentsL : SsrList → List Str
  | .nil => []
  | .cons n r => viewComments n ++ viewCommentsL r
end

theorem elementsOfL_append (a b : List HNode) : elementsOfL (a ++ b) = elementsOfL a ++ elementsOfL b := by
  induction a with
  | nil => simp [elementsOfL]
  | cons n a ih => simp [elementsOfL, ih]

theorem commentsOfL_append (a b : List HNode) : commentsOfL (a ++ b) = commentsOfL a ++ commentsOfL b := by
  induction a with
  | nil => simp [commentsOfL]
  | cons n a ih => simp [commentsOfL, ih]

theorem elementsOfL_mergeText (l : List HNode) : elementsOfL (mergeText l) = elementsOfL l := by
  fun_induction mergeText l with
  | case1 a b r ih => rw [ih]; simp [elementsOfL, elementsOf]
  | case2 n r _ ih => simp [elementsOfL, ih]
  | case3 => rfl

theorem commentsOfL_mergeText (l : List HNode) : commentsOfL (mergeText l) = commentsOfL l := by
  fun_induction mergeText l with
  | case1 a b r ih => rw [ih]; simp [commentsOfL, commentsOf]
  | case2 n r _ ih => simp [commentsOfL, ih]
  | case3 => rfl

theorem trueBools_names (b : List (Str × Bool)) : (trueBools b).map (·.1) = boolNames b := by
  induction b with
  | nil => rfl
  | cons x b ih =>
    obtain ⟨n, v⟩ := x
    cases v <;> simp [trueBools, boolNames, ih]

theorem hkAttr_names (hk : Option (Nat × Nat)) : (hkAttr hk).map (·.1) = hkNames hk := by
  rcases hk with _ | ⟨s, e⟩ <;> simp [hkAttr, hkNames]

mutual
theorem elements_flat : ∀ n : SsrNode, elementsOfL (flat n) = viewElements n
  | .element tag attrs battrs ch inner hk => by
    have ih := elements_flatList ch
    simp [flat, elementsOfL, elementsOf, viewElements, elementsOfL_mergeText, ih, trueBools_names,
      hkAttr_names]
  | .textDynamic t => by
    cases t <;> simp [flat, elementsOfL, elementsOf, viewElements]
  | .textStatic t => by
    cases t <;> simp [flat, elementsOfL, elementsOf, viewElements]
  | .marker => by simp [flat, elementsOfL, elementsOf, viewElements]
  | .dynamic v => by
    have ih := elements_flatList v
    simp [flat, viewElements, ih]
theorem elements_flatList : ∀ v : SsrList, elementsOfL (flatList v) = viewElementsL v
  | .nil => by simp [flatList, elementsOfL, viewElementsL]
  | .cons n r => by
    have ih1 := elements_flat n
    have ih2 := elements_flatList r
    simp [flatList, viewElementsL, elementsOfL_append, ih1, ih2]
end

mutual
theorem comments_flat : ∀ n : SsrNode, commentsOfL (flat n) = viewComments n
  | .element tag attrs battrs ch inner hk => by
    have ih := comments_flatList ch
    simp [flat, commentsOfL, commentsOf, viewComments, commentsOfL_mergeText, ih]
  | .textDynamic t => by
    cases t <;> simp [flat, commentsOfL, commentsOf, viewComments]
  | .textStatic t => by
    cases t <;> simp [flat, commentsOfL, commentsOf, viewComments]
  | .marker => by simp [flat, commentsOfL, commentsOf, viewComments]
  | .dynamic v => by
    have ih := comments_flatList v
    simp [flat, viewComments, ih]
theorem comments_flatList : ∀ v : SsrList, commentsOfL (flatList v) = viewCommentsL v
  | .nil => by simp [flatList, commentsOfL, viewCommentsL]
  | .cons n r => by
    have ih1 := comments_flat n
    have ih2 := comments_flatList r
    simp [flatList, viewCommentsL, commentsOfL_append, ih1, ih2]
end

/-- **injection safety**: whatever the text and attribute values of a well-formed view are, the
elements (tag names with their attribute names, in document order) and the comments of the parsed
output are exactly those the developer/library wrote — `viewElementsL`/`viewCommentsL`, which do
not depend on any text or attribute value. Values can never introduce elements, attributes or
comments. -/
theorem C08_injection_safe (v : SsrList) (h : WFList v = true) :
    ∃ s t, renderList v = .ok s ∧ parse s = some t
      ∧ elementsOfL t = viewElementsL v ∧ commentsOfL t = viewCommentsL v := by
  obtain ⟨s, hs, hp⟩ := C08_roundtrip v h
  refine ⟨s, expected v, hs, hp, ?_, ?_⟩
  · rw [expected, elementsOfL_mergeText, elements_flatList]
  · rw [expected, commentsOfL_mergeText, comments_flatList]

/-! the same with the quantification over values made explicit: replace every text by `f text`
and every attribute value by `g value` for arbitrary `f`, `g` -/

mutual
def mapValues (f g : Str → Str) : SsrNode → SsrNode
  | .element tag attrs battrs ch inner hk =>
    .element tag (attrs.map (fun p => (p.1, g p.2))) battrs (mapValuesL f g ch) inner hk
  | .textDynamic t => .textDynamic (f t)
  | .textStatic t => .textStatic (f t)
  | .marker => .marker
  | .dynamic v => .dynamic (mapValuesL f g v)
def mapValuesL (f g : Str → Str) : SsrList → SsrList
  | .nil => .nil
  | .cons n r => .cons (mapValues f g n) (mapValuesL f g r)
end

theorem mapValuesL_isEmpty (f g : Str → Str) (v : SsrList) : (mapValuesL f g v).isEmpty = v.isEmpty := by
  cases v <;> simp [mapValuesL, SsrList.isEmpty]

theorem map_names (g : Str → Str) (attrs : List (Str × Str)) :
    (attrs.map (fun p => (p.1, g p.2))).map (·.1) = attrs.map (·.1) := by
  simp [List.map_map, Function.comp_def]

mutual
theorem mapValues_shape (f g : Str → Str) : ∀ n : SsrNode,
    WF (mapValues f g n) = WF n ∧ viewElements (mapValues f g n) = viewElements n
      ∧ viewComments (mapValues f g n) = viewComments n
  | .element tag attrs battrs ch inner hk => by
    have ih := mapValuesL_shape f g ch
    simp only [mapValues, WF, viewElements, viewComments, map_names, mapValuesL_isEmpty, ih.1, ih.2.1,
      ih.2.2, List.all_map, Function.comp_def, and_self]
  | .textDynamic t => by simp [mapValues, WF, viewElements, viewComments]
  | .textStatic t => by simp [mapValues, WF, viewElements, viewComments]
  | .marker => by simp [mapValues]
  | .dynamic v => by
    have ih := mapValuesL_shape f g v
    simp only [mapValues, WF, viewElements, viewComments, ih, and_self]
theorem mapValuesL_shape (f g : Str → Str) : ∀ v : SsrList,
    WFList (mapValuesL f g v) = WFList v ∧ viewElementsL (mapValuesL f g v) = viewElementsL v
      ∧ viewCommentsL (mapValuesL f g v) = viewCommentsL v
  | .nil => by simp [mapValuesL]
  | .cons n r => by
    have ih1 := mapValues_shape f g n
    have ih2 := mapValuesL_shape f g r
    simp only [mapValuesL, WFList, viewElementsL, viewCommentsL, ih1, ih2, and_self]
end

/-- however the texts and attribute values of a well-formed view are replaced, the output still
renders and parses, with the same elements, attribute names and comments as the original view -/
theorem C08_values_cannot_inject (v : SsrList) (h : WFList v = true) (f g : Str → Str) :
    ∃ s t, renderList (mapValuesL f g v) = .ok s ∧ parse s = some t
      ∧ elementsOfL t = viewElementsL v ∧ commentsOfL t = viewCommentsL v := by
  have sh := mapValuesL_shape f g v
  obtain ⟨s, t, h1, h2, h3, h4⟩ := C08_injection_safe (mapValuesL f g v) (by rw [sh.1]; exact h)
  exact ⟨s, t, h1, h2, by rw [h3, sh.2.1], by rw [h4, sh.2.2]⟩

/-! ### non-vacuity: concrete views with metacharacters everywhere -/

mutual
/-- Boolean equality on parsed trees (`HNode` has no derived `DecidableEq`), for `decide` -/
def HNode.eqb : HNode → HNode → Bool
  | .element t a k, .element t' a' k' => t == t' && a == a' && HNode.eqbL k k'
  | .text s, .text s' => s == s'
  | .comment s, .comment s' => s == s'
  | _, _ => false
def HNode.eqbL : List HNode → List HNode → Bool
  | [], [] => true
  | a :: as, b :: bs => HNode.eqb a b && HNode.eqbL as bs
  | _, _ => false
end

mutual
theorem HNode.eqb_sound : ∀ a b : HNode, HNode.eqb a b = true → a = b
  | .element t a k, .element t' a' k', h => by
    simp only [HNode.eqb, Bool.and_eq_true, beq_iff_eq] at h
    rw [h.1.1, h.1.2, HNode.eqbL_sound k k' h.2]
  | .text s, .text s', h => by simp only [HNode.eqb, beq_iff_eq] at h; rw [h]
  | .comment s, .comment s', h => by simp only [HNode.eqb, beq_iff_eq] at h; rw [h]
  | .element .., .text _, h | .element .., .comment _, h | .text _, .element .., h
  | .text _, .comment _, h | .comment _, .element .., h | .comment _, .text _, h => by
    simp [HNode.eqb] at h
theorem HNode.eqbL_sound : ∀ a b : List HNode, HNode.eqbL a b = true → a = b
  | [], [], _ => rfl
  | a :: as, b :: bs, h => by
    simp only [HNode.eqbL, Bool.and_eq_true] at h
    rw [HNode.eqb_sound a b h.1, HNode.eqbL_sound as bs h.2]
  | [], _ :: _, h | _ :: _, [], h => by simp [HNode.eqbL] at h
end

/-- render, parse, compare with a given forest -/
def rendersAndParsesTo (v : SsrList) (t : List HNode) : Bool :=
  match renderList v with
  | .ok s => (match parse s with | some t' => HNode.eqbL t' t | none => false)
  | .error _ => false

theorem rendersAndParsesTo_sound (v : SsrList) (t : List HNode) (h : rendersAndParsesTo v t = true) :
    ∃ s, renderList v = .ok s ∧ parse s = some t := by
  unfold rendersAndParsesTo at h
  split at h
  · rename_i s hs
    split at h
    · rename_i t' ht
      exact ⟨s, hs, by rw [ht, HNode.eqbL_sound t' t h]⟩
    · cases h
  · cases h

/-- a view full of markup metacharacters: `<`, `>`, `&`, `"`, `-->`, `<!--`, a script tag, an
already-escaped entity, in text, dynamic text and attribute values; adjacent text nodes; a void
element; a boolean attribute; hydration keys; a dynamic view between markers -/
def exView : SsrList :=
  .cons (.element (lit "div") [(lit "title", lit "a\"b<c>&d-->")] [(lit "hidden", true), (lit "x", false)]
    (.cons (.textStatic (lit "1 < 2 && 3 > 2 \"q\" -->"))
      (.cons (.textStatic (lit "<script>alert(1)</script>"))
        (.cons (.textDynamic (lit "<!--"))
          (.cons (.element (lit "br") [] [] .nil none (some (0, 1)))
            (.cons .marker
              (.cons (.dynamic (.cons (.textStatic (lit "&amp;")) (.cons (.textStatic []) .nil)))
                (.cons .marker .nil)))))))
    none (some (0, 0))) .nil

def exTree : List HNode :=
  [.element (lit "div")
    [(lit "title", lit "a\"b<c>&d-->"), (lit "hidden", []), (lit "data-hk", lit "0.0")]
    [.text (lit "1 < 2 && 3 > 2 \"q\" --><script>alert(1)</script>"),
     .comment (lit "t"), .text (lit "<!--"), .comment [],
     .element (lit "br") [(lit "data-hk", lit "0.1")] [],
     .comment (lit "/"), .text (lit "&amp;"), .comment (lit "/")]]

example : WFList exView = true := by decide +kernel

/-- the rendered bytes, for the record (literal cut into short segments: the kernel decodes string
literals slowly) -/
example : (renderList exView).toOption = some (
    lit "<div title=\"a&quot;b&lt;c&gt;" ++ lit "&amp;d--&gt;\" hidden" ++ lit " data-hk=\"0.0\">" ++
    lit "1 &lt; 2 &amp;&amp; 3 &gt; 2 " ++ lit "\"q\" --&gt;&lt;script&gt;" ++ lit "alert(1)&lt;/script&gt;" ++
    lit "<!--t-->&lt;!--<!-->" ++ lit "<br data-hk=\"0.1\"><!--/-->" ++ lit "&amp;amp;<!--/--></div>") := by
  decide +kernel

/-- evaluated: the reference reader maps the rendering back to `exTree` … -/
example : ∃ s, renderList exView = .ok s ∧ parse s = some exTree :=
  rendersAndParsesTo_sound _ _ (by decide +kernel)

/-- … and `exTree` is the expected tree of the view (adjacent texts merged, empty text dropped) -/
example : expected exView = exTree := by
  apply HNode.eqbL_sound
  simp [exView, exTree, expected, flatList, flat, mergeText, hkAttr, trueBools, natToStr]
  decide +kernel

/-- contrast (the reader is not blind): the same text WITHOUT escaping would inject an element and
a comment — so `C08_injection_safe` is a statement about the escaping, not about a lax reader -/
example : (parse (lit "x<b>y</b><!--c-->")).map (fun t => (elementsOfL t, commentsOfL t))
    = some ([(lit "b", [])], [lit "c"]) := by decide +kernel

example : (parse (escapeText (lit "x<b>y</b><!--c-->"))).map (fun t => (elementsOfL t, commentsOfL t))
    = some ([], []) := by decide +kernel

end SycVerif.Html
