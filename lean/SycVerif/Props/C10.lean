/-
C10 — batching, clause (i): "Inside `batch`, including nested batches, no memo or effect runs and
derived values keep their pre-batch values"; and the shape of the end of the outermost batch: all
reactions happen in ONE propagation, started from all written signals, after the closure returned.
(That this propagation leaves the graph consistent is C01's business.)

Vocabulary (defined in `Lemmas/Batch.lean`):
* `WriteOnly b`         the closure body consists of `set`, `set_silent`, `get`, `get_untracked`
                        and `batch(..)` of such bodies, nested to any depth;
* `writesOf env b`      the ids written by the `set`s of `b`, in program order, nested batches included;
* `Quiet r r'`          nothing reacted between `r` and `r'`: same trace (no body, no cleanup ran), same
                        arena size, same `dependents`/`dependencies`/`children`/`parent`/`cleanups`/
                        `context`/`callback`/`dirty`/`mark` of every node, nodes with a callback
                        unchanged, same `current`/`batching`/`rootNode`/`nextTag`, tracker only grew;
* `SignalHandlesOK r env`  handles of kind `signal` do not name nodes with a callback.
-/
import SycVerif.Lemmas.Batch
import SycVerif.Spec.Reactive
import SycVerif.Props.ReactiveBasic
namespace SycVerif.Reactive

/-! ### inside a batch, at any nesting depth -/

/-- While a batch is open, running a `WriteOnly` body — nested batches at any depth included —
makes nothing react, leaves the batch open, creates no handle, and appends to the queue exactly the
signals written by its `set`s, in program order. For every fuel, arena and accumulator. -/
theorem C10_batch_body_quiet (fuel : Nat) (r : Root) (c : Ctx) (b : Body) (r' : Root) (c' : Ctx)
    (hb : r.batching = true) (hs : SignalHandlesOK r c.env) (hw : WriteOnly b)
    (hx : execBody fuel r c b = .ok (r', c')) :
    Quiet r r' ∧ r'.batching = true ∧ c'.env = c.env ∧ r'.queue = r.queue ++ writesOf c.env b := by
  obtain ⟨q, e, u⟩ := (batch_quiet fuel r c r' c' hb hs).1 b hw hx
  exact ⟨q, q.batching.trans hb, e, u⟩

/-- the same for a nested block (`execInner`) -/
theorem C10_batch_inner_quiet (fuel : Nat) (r : Root) (c : Ctx) (b : Body) (r' : Root) (c' : Ctx)
    (hb : r.batching = true) (hs : SignalHandlesOK r c.env) (hw : WriteOnly b)
    (hx : execInner fuel r c b = .ok (r', c')) :
    Quiet r r' ∧ r'.batching = true ∧ c'.env = c.env ∧ r'.queue = r.queue ++ writesOf c.env b := by
  obtain ⟨q, e, u⟩ := (batch_quiet fuel r c r' c' hb hs).2.1 b hw hx
  exact ⟨q, q.batching.trans hb, e, u⟩

/-- the same for one statement; for `s = .batch b` this is: a nested batch, whatever its depth,
neither propagates nor closes the enclosing batch -/
theorem C10_batch_stmt_quiet (fuel : Nat) (r : Root) (c : Ctx) (s : Stmt) (r' : Root) (c' : Ctx)
    (hb : r.batching = true) (hs : SignalHandlesOK r c.env) (hw : WriteOnlyStmt s)
    (hx : execStmt fuel r c s = .ok (r', c')) :
    Quiet r r' ∧ r'.batching = true ∧ c'.env = c.env ∧ r'.queue = r.queue ++ writesOfStmt c.env s := by
  obtain ⟨q, e, u⟩ := (batch_quiet fuel r c r' c' hb hs).2.2 s hw hx
  exact ⟨q, q.batching.trans hb, e, u⟩

/-- what `Quiet` says about derived nodes, spelled out: across a `WriteOnly` body run inside a
batch every memo/selector/effect node (a node with a callback) is literally the same node — same
value, same flags, same edges — and the trace is the same: no computation and no cleanup ran. -/
theorem C10_derived_values_kept (fuel : Nat) (r : Root) (c : Ctx) (b : Body) (r' : Root) (c' : Ctx)
    (hb : r.batching = true) (hs : SignalHandlesOK r c.env) (hw : WriteOnly b)
    (hx : execBody fuel r c b = .ok (r', c')) :
    r'.trace = r.trace ∧
    ∀ j n, r.get? j = some n → n.callback ≠ none → r'.get? j = some n := by
  have q := (C10_batch_body_quiet fuel r c b r' c' hb hs hw hx).1
  exact ⟨q.trace, fun j n hn hc => (q.derived_unchanged hn hc).trans hn⟩

/-! ### the outermost batch -/

/-- `batch(|| b)` with no batch open: there is a state `r1`, the one in which the closure returned,
such that (1) the closure ran from `r` with the flag set and ended in `r1`; (2) nothing reacted
between the start of the closure and `r1` — at any nesting depth no memo or effect ran and every
derived value is the pre-batch one; (3) the queue in `r1` is the old queue followed by the written
signals in program order; (4) the final state is the result of ONE call of
`propagate_node_updates` on that queue, with the flag cleared and the queue emptied. -/
theorem C10_outermost_batch (fuel : Nat) (r : Root) (c : Ctx) (b : Body) (r' : Root) (c' : Ctx)
    (hb : r.batching = false) (hs : SignalHandlesOK r c.env) (hw : WriteOnly b)
    (hx : execStmt (fuel + 1) r c (.batch b) = .ok (r', c')) :
    ∃ r1, execInner fuel { r with batching := true } c b = .ok (r1, c')
      ∧ Quiet { r with batching := true } r1
      ∧ r1.batching = true
      ∧ c'.env = c.env
      ∧ r1.queue = r.queue ++ writesOf c.env b
      ∧ propagateNodeUpdates fuel { r1 with batching := false, queue := [] } r1.queue = .ok r' := by
  simp only [execStmt, hb] at hx
  split at hx
  · cases hx
  · rename_i r1 c1 h1
    simp only [Bool.false_eq_true, if_false] at hx
    split at hx
    · cases hx
    · rename_i r2 h2
      simp only [Except.ok.injEq, Prod.mk.injEq] at hx
      obtain ⟨rfl, rfl⟩ := hx
      obtain ⟨q, hb1, e, u⟩ :=
        C10_batch_inner_quiet fuel { r with batching := true } c b r1 c1 rfl hs hw h1
      exact ⟨r1, h1, q, hb1, e, u, h2⟩

/-- `propagate_node_updates` from no start node does nothing -/
theorem C10_propagate_nothing (fuel : Nat) (r : Root) :
    propagateNodeUpdates (fuel + 2) r [] = .ok r :=
  propagateNodeUpdates_nil_ok fuel r

/-- a batch that writes nothing, entered with an empty queue: nothing reacts at all, not even at
the end; the final state is the state in which the closure returned with the flag cleared (so it
differs from the initial one at most by values stored with `set_silent`). -/
theorem C10_empty_batch (fuel : Nat) (r : Root) (c : Ctx) (b : Body) (r' : Root) (c' : Ctx)
    (hb : r.batching = false) (hq : r.queue = []) (hs : SignalHandlesOK r c.env) (hw : WriteOnly b)
    (hw0 : writesOf c.env b = [])
    (hx : execStmt (fuel + 1) r c (.batch b) = .ok (r', c')) :
    Quiet r r' ∧ r'.queue = [] ∧ r'.batching = false ∧
    ∃ r1, execInner fuel { r with batching := true } c b = .ok (r1, c')
      ∧ r' = { r1 with batching := false, queue := [] } := by
  obtain ⟨r1, h1, q, _, _, u, hp⟩ := C10_outermost_batch fuel r c b r' c' hb hs hw hx
  rw [hw0, hq] at u
  rw [u] at hp
  have := propagateNodeUpdates_nil hp
  subst this
  refine ⟨?_, rfl, rfl, r1, h1, rfl⟩
  have h := q.reframe false r.queue []
  have e : ({ ({ r with batching := true } : Root) with batching := false, queue := r.queue } : Root) = r := by
    cases r; simp_all
  rw [e] at h
  exact h

/-! ### non-vacuity -/

/-- `s.set(1); batch(|| s.set(2)); m.get_untracked(); s.set(3)` -/
def c10Body : Body :=
  .cons (.set 0 (.const 1)) (.cons (.batch (.cons (.set 0 (.const 2)) .nil))
    (.cons (.readU 1) (.cons (.set 0 (.const 3)) .nil)))

example : WriteOnly c10Body := by unfold c10Body; repeat constructor

/-- `s = signal(0)` (node 1); `m = memo(s)` (node 2); `effect(m)` (node 3) -/
def c10Setup : List Stmt :=
  [.signal 0, .memo (.cons (.read 0) .nil), .effect (.cons (.read 1) .nil)]

/-- (node, result) of the `run` events of a trace -/
def runsOf (r : Root) : List (Id × Int) :=
  r.trace.filterMap fun | .run n _ v => some (n, v) | .cleanup _ _ => none

def readsOf (c : Ctx) : List (Id × Int) :=
  c.obs.filterMap fun | .read n v => some (n, v) | .ctx _ _ => none

def valueOf (r : Root) (id : Id) : Option Int := (r.get? id).bind (·.value)

example : writesOf [⟨1, .signal⟩, ⟨2, .memo⟩, ⟨3, .effect⟩] c10Body = [1, 1, 1] := by decide

/-- the hypotheses of `C10_outermost_batch` hold in the state after the setup, the statement runs
without panic, and:
* before the batch the memo and the effect ran once each (initial runs; values 1 and 2);
* in the state `r1` in which the closure returns (three writes, one of them in a nested batch)
  the trace is the same, the memo read inside the closure still gave its pre-batch value 1 although
  the signal already held 2, the memo still stores 1, the signal holds 3, the queue is `[1, 1, 1]`
  and the batch is still open;
* after the batch the memo and the effect ran exactly once more, on the final value (4 and 5). -/
def c10Check : Bool :=
  match runOps 40 c10Setup Root.init [] with
  | .error _ => false
  | .ok (r, env) =>
    !r.batching && signalHandlesOK r env && r.queue == [] &&
    runsOf r == [(2, 1), (3, 2)] &&
    (match execInner 39 { r with batching := true } ⟨env, 0, []⟩ c10Body with
     | .error _ => false
     | .ok (r1, c1) =>
       runsOf r1 == [(2, 1), (3, 2)] && readsOf c1 == [(2, 1)] && valueOf r1 2 == some 1 &&
       valueOf r1 1 == some 3 && r1.queue == [1, 1, 1] && r1.batching) &&
    (match execStmt 40 r ⟨env, 0, []⟩ (.batch c10Body) with
     | .error _ => false
     | .ok (r', _) =>
       runsOf r' == [(2, 1), (3, 2), (2, 4), (3, 5)] && valueOf r' 2 == some 4 &&
       r'.queue == [] && !r'.batching)

theorem c10_check : c10Check = true := by decide +kernel

/-- the hypotheses of `C10_outermost_batch` are jointly satisfiable on a reachable state with a
nested batch in the body -/
theorem C10_outermost_batch_nonvacuous :
    ∃ (r : Root) (env : List Handle) (r' : Root) (c' : Ctx),
      runOps 40 c10Setup Root.init [] = .ok (r, env) ∧ r.batching = false ∧
      SignalHandlesOK r env ∧ WriteOnly c10Body ∧
      execStmt (39 + 1) r ⟨env, 0, []⟩ (.batch c10Body) = .ok (r', c') := by
  have h := c10_check
  unfold c10Check at h
  split at h
  · cases h
  · rename_i r env h0
    simp only [Bool.and_eq_true] at h
    obtain ⟨⟨⟨⟨⟨hb, hs⟩, _⟩, _⟩, _⟩, h3⟩ := h
    split at h3
    · cases h3
    · rename_i r' c' hx
      exact ⟨r, env, r', c', h0, by simpa using hb, SignalHandlesOK.of_check hs,
        by unfold c10Body; repeat constructor, hx⟩

/-- the same body without the writes: an empty batch (hypotheses of `C10_empty_batch`) -/
example : WriteOnly (.cons (.batch (.cons (.readU 0) .nil)) .nil) ∧
    writesOf [⟨1, .signal⟩] (.cons (.batch (.cons (.readU 0) .nil)) .nil) = [] :=
  ⟨by repeat constructor, by decide⟩

end SycVerif.Reactive
