/-
C01, positive half, for STATIC dependency graphs: if every computation body is branch-free (only
`read h` statements), then after a signal write returns every live memo/selector/effect holds what
its function yields from the current values (`C01_static_set`), each computation ran at most once
(C02 clause), signals kept their values and a computation that did not run kept its value.

(The unrestricted statement `C01_full` is false because of late edges: `Props/C01.lean`.)
Helper lemmas: `SycVerif/Lemmas/Propagate.lean`.
-/
import SycVerif.Lemmas.Propagate
namespace SycVerif.Reactive

/-! ### 1. the invariant -/

/-- a state "at rest" of a program made of signals/scopes and read-only computations:
* `Struct r` (`Lemmas/Propagate.lean`): `NoDangling`, `EdgesSym`, and for every live node (`NodeOk`):
  it holds a value; a node without callback (signal/scope) has `dependencies = []`; a node with
  `callback = some (eq, cl)` has no children, no cleanups, a `ReadOnly` body whose read handles exist
  in `cl.env`, are signal/memo handles and are older than the node (`ReadHandlesOk`), and
  `dependencies = bodyReads cl.env cl.body` (the reads in order, duplicates included);
* no DFS mark, no dirty flag, no tracker, no batch, empty queue;
* every node is `locallyConsistent`. -/
structure StaticArena (r : Root) : Prop where
  struct : Struct r
  unmarked : Unmarked r
  clean : ∀ j n, r.get? j = some n → n.dirty = false
  tracker : r.tracker = none
  batching : r.batching = false
  queue : r.queue = []
  consistent : ∀ j, locallyConsistent r j

theorem locallyConsistent_of_plain {r : Root} {j : Id} {n : Node} (hn : r.get? j = some n)
    (hc : n.callback = none) : locallyConsistent r j := by
  unfold locallyConsistent; rw [hn]; simp [hc]

theorem setSilent_eq {r : Root} {s : Id} {ns : Node} {old : Int} (hn : r.get? s = some ns)
    (hv : ns.value = some old) (v : Int) :
    setSilent r s v = .ok (r.setNode s { ns with value := some v }) := by
  simp [setSilent, hn, hv]

/-- overwriting the value of a node that holds a value keeps the structural invariant -/
theorem Struct.setValue {r : Root} {s : Id} {ns : Node} (hS : Struct r) (hn : r.get? s = some ns)
    (v : Int) : Struct (r.setNode s { ns with value := some v }) := by
  have hp := setNode_sameEdges_preserves (n' := { ns with value := some v }) hn rfl rfl
  refine ⟨hp.1 hS.nd, hp.2 hS.sym, fun j m hm => ?_⟩
  rw [Dfs.get?_setNode_of_get? hn] at hm
  split at hm
  · subst j; cases hm
    have hk := hS.node _ ns hn
    exact ⟨rfl, hk.plain, hk.comp⟩
  · exact hS.node j m hm

/-- the state handed to the second loop satisfies the loop invariant -/
theorem loopInv_start {r : Root} {s : Id} {ns : Node} {v : Int} {rD : Root} {buf : List Id}
    (hA : StaticArena r) (hn : r.get? s = some ns) (hc : ns.callback = none)
    (hSch : Scheduled (r.setNode s { ns with value := some v }) s rD buf) :
    LoopInv (markDependentsDirty rD s) buf.reverse := by
  have hS1 := hA.struct.setValue hn v
  obtain ⟨r1, hr1⟩ : ∃ r1, r1 = r.setNode s { ns with value := some v } := ⟨_, rfl⟩
  rw [← hr1] at hSch hS1
  have hget1 : ∀ j, r1.get? j = if j = s then some { ns with value := some v } else r.get? j := by
    intro j; rw [hr1]; exact Dfs.get?_setNode_of_get? hn _ j
  have hS := hA.struct
  have hRD := hSch.frame.flagsRel
  have hSD := hRD.struct hS1
  have hRM := markDependentsDirty_flagsRel rD s
  have hSM := hRM.struct hSD
  -- the node of `rM` in terms of the node of `rD`
  have hM : ∀ j m, (markDependentsDirty rD s).get? j = some m → ∃ mD, rD.get? j = some mD ∧
      m = { mD with dirty := mD.dirty || isDependentOf rD s j } := by
    intro j m hm
    rw [hSch.dirty, Option.map_eq_some_iff] at hm
    obtain ⟨mD, hmD, e⟩ := hm
    exact ⟨mD, hmD, e.symm⟩
  -- nothing is dirty in `rD`
  have hcleanD : ∀ j mD, rD.get? j = some mD → mD.dirty = false := by
    intro j mD hmD
    obtain ⟨m1, hm1, he⟩ := hSch.frame.get?_bwd hmD
    have hd : mD.dirty = m1.dirty := by
      have := congrArg Node.dirty he; simpa [Node.eraseMark] using this
    rw [hd]
    rw [hget1] at hm1
    split at hm1
    · cases hm1; exact hA.clean _ ns hn
    · exact hA.clean j m1 hm1
  obtain ⟨nsD, hnsD⟩ := Root.alive_iff.1 (hSch.alive s hSch.start)
  -- a flagged node is a direct dependent of `s`
  have hflag : ∀ j mD, rD.get? j = some mD → isDependentOf rD s j = true →
      j ∈ buf ∧ s ∈ mD.dependencies := by
    intro j mD hmD hdep
    rw [isDependentOf_eq hnsD, List.contains_eq_mem, decide_eq_true_eq] at hdep
    exact ⟨(hSch.order s hSch.start nsD hnsD j hdep).mem_left,
      (mem_dependents_iff hSD.sym hnsD hmD).1 hdep⟩
  refine ⟨hSM, ?_, ?_, ?_, ?_, ?_⟩
  · intro j m hm
    obtain ⟨mD, hmD, rfl⟩ := hM j m hm
    simp only [List.mem_reverse]
    exact hSch.marks j mD hmD
  · intro j hj
    obtain ⟨mD, hmD⟩ := Root.alive_iff.1 (hSch.alive j (List.mem_reverse.1 hj))
    obtain ⟨m, hm, _⟩ := hRM.fwd hmD
    exact Root.alive_iff.2 ⟨m, hm⟩
  · intro j m hm hd
    obtain ⟨mD, hmD, rfl⟩ := hM j m hm
    simp only [hcleanD j mD hmD, Bool.false_or] at hd
    obtain ⟨h1, h2⟩ := hflag j mD hmD hd
    refine ⟨List.mem_reverse.2 h1, fun hcn => ?_⟩
    rw [(hSD.node j mD hmD).plain hcn] at h2; cases h2
  · intro j m hm hd
    obtain ⟨mD, hmD, rfl⟩ := hM j m hm
    simp only [hcleanD j mD hmD, Bool.false_or] at hd
    apply hRM.locallyConsistent hSD
    apply hRD.locallyConsistent hS1
    -- `j` in `r1`
    obtain ⟨m1, hm1, _, e2, _, _, _, e6, _⟩ := hRD.bwd hmD
    by_cases hj : j = s
    · subst hj
      rw [hget1, if_pos rfl] at hm1; cases hm1
      exact locallyConsistent_of_plain (n := { ns with value := some v }) (by rw [hget1, if_pos rfl]) hc
    · have hm0 : r.get? j = some m1 := by rw [hget1, if_neg hj] at hm1; exact hm1
      refine locallyConsistent_congr hm0 hm1 rfl rfl (fun eq cl hcb => ?_) (hA.consistent j)
      obtain ⟨_, _, hro, _, hdp⟩ := (hS.node j m1 hm0).comp eq cl hcb
      refine ⟨hro, fun id hid => ?_⟩
      have hne : id ≠ s := by
        rintro rfl
        have : id ∈ mD.dependencies := by rw [e6, hdp]; exact hid
        have hdep : isDependentOf rD id j = true := by
          rw [isDependentOf_eq hnsD, List.contains_eq_mem, decide_eq_true_eq]
          exact (mem_dependents_iff hSD.sym hnsD hmD).2 this
        rw [hdep] at hd; cases hd
      apply getUntracked_congr; rw [hget1, if_neg hne]
  · refine sched_of_before (nodup_reverse hSch.nodup) (fun i hi d hd => ?_) buf.reverse [] rfl
    have hi' := List.mem_reverse.1 hi
    obtain ⟨ni, hni⟩ := Root.alive_iff.1 (hSch.alive i hi')
    simp only [depsOf] at hd
    split at hd
    · rename_i md hmd
      obtain ⟨mD, hmD, rfl⟩ := hM d md hmd
      exact (hSch.order i hi' ni hni d ((mem_dependents_iff hSD.sym hni hmD).2 hd)).reverse
    · cases hd

/-! ### 2. the theorem -/

/-- **C01 for static dependency graphs.**  Writing `v` into the signal `s` of a `StaticArena`
(`setSilent`, then `propagateUpdates` with any fuel `≥ size + B + 6`, `B` a bound on the body
lengths) does not panic and ends in a `StaticArena` again: every live computation is locally
consistent, nothing is dirty, all marks are `none`.  Moreover (`Evolves`): liveness, callbacks,
dependency lists, children, cleanups and parents are as before; the values of callback-less nodes
(signals, scopes) are untouched by the propagation; the trace grew by `ran`, which consists of `run`
events only, at most one per node (`(runIds ran).Nodup`); a node that did not run kept its value. -/
theorem C01_static_set {r : Root} {s : Id} {ns : Node} {old : Int} {B fuel : Nat}
    (hA : StaticArena r) (hn : r.get? s = some ns) (hc : ns.callback = none) (hv : ns.value = some old)
    (hB : BodyBound r B) (hf : r.nodes.size + B + 6 ≤ fuel) (v : Int) :
    setSilent r s v = .ok (r.setNode s { ns with value := some v }) ∧
    ∃ r' ran, propagateUpdates fuel (r.setNode s { ns with value := some v }) s = .ok r' ∧
      StaticArena r' ∧ Evolves (r.setNode s { ns with value := some v }) r' ran ∧ (runIds ran).Nodup := by
  refine ⟨setSilent_eq hn hv v, ?_⟩
  have hS1 := hA.struct.setValue hn v
  have hloop := fun rD buf => loopInv_start (v := v) (rD := rD) (buf := buf) hA hn hc
  have hsf := SameFrame.setNode r s { ns with value := some v }
  have hget1 := Dfs.get?_setNode_of_get? hn { ns with value := some v }
  obtain ⟨r1, hr1⟩ : ∃ r1, r1 = r.setNode s { ns with value := some v } := ⟨_, rfl⟩
  rw [← hr1] at hS1 hloop hsf hget1 ⊢
  obtain ⟨f1, f2, f3, f4, f5, f6, f7, f8⟩ := hsf
  have hU1 : Unmarked r1 := by
    intro j m hm
    rw [hget1] at hm
    split at hm
    · cases hm; exact hA.unmarked s ns hn
    · exact hA.unmarked j m hm
  have hal : r1.alive s = true := Root.alive_iff.2 ⟨_, by rw [hget1, if_pos rfl]⟩
  have hB1 : BodyBound r1 B := by
    intro j m eq cl hm hcb
    rw [hget1] at hm
    split at hm
    · cases hm; rw [hc] at hcb; cases hcb
    · exact hB j m eq cl hm hcb
  obtain ⟨rD, buf, hvis, hSch⟩ := visitStarts_static hS1 hU1 hal
  have hI := hloop rD buf hSch
  have hED := hSch.frame.evolves
  have hRM := markDependentsDirty_flagsRel rD s
  obtain ⟨_, _, _, sfM⟩ := markDependentsDirty_frame rD s
  obtain ⟨g1, g2, g3, g4, g5, g6, g7, g8⟩ := sfM
  have hEM : Evolves rD (markDependentsDirty rD s) [] := hRM.evolves ⟨g1, g2, g3, g4, g5, g6, g7⟩ g8
  have hBM : BodyBound (markDependentsDirty rD s) B := hEM.bodyBound (hED.bodyBound hB1)
  have hlen : buf.reverse.length ≤ r.nodes.size := by
    rw [List.length_reverse, ← f1, ← hSch.frame.size]
    exact length_le_size_of_nodup hSch.nodup hSch.alive
  obtain ⟨f, rfl⟩ : ∃ f, fuel = f + 2 := ⟨fuel - 2, by omega⟩
  obtain ⟨r', ran, hrun, hI', hE, hsub⟩ := propagateLoop_static buf.reverse _ f B hI hBM (by omega)
  have hEall : Evolves r1 r' ran := by simpa using hED.trans (hEM.trans hE)
  refine ⟨r', ran, ?_, ?_, hEall, hsub.nodup (nodup_reverse hSch.nodup)⟩
  · simp [propagateUpdates, propagateNodeUpdates, f6, hA.batching, hvis, hSch.loop_resetMarks, hrun]
  · obtain ⟨_, e2, _, _, e5, e6, _⟩ := hEall.frame
    refine ⟨hI'.struct, fun j m hm => by simpa using hI'.marks j m hm, fun j m hm => ?_,
      by rw [e2, f2, hA.tracker], by rw [e6, f6, hA.batching], by rw [e5, f5, hA.queue], fun j => ?_⟩
    · cases hd : m.dirty with
      | false => rfl
      | true => exact absurd (hI'.dirty j m hm hd).1 (by simp)
    · cases hm : r'.get? j with
      | none => unfold locallyConsistent; rw [hm]; trivial
      | some m =>
        apply hI'.cons j m hm
        cases hd : m.dirty with
        | false => rfl
        | true => exact absurd (hI'.dirty j m hm hd).1 (by simp)

/-- `C01_static_set` with the fuel bound left implicit -/
theorem C01_static_set_exists {r : Root} {s : Id} {ns : Node} {old : Int}
    (hA : StaticArena r) (hn : r.get? s = some ns) (hc : ns.callback = none) (hv : ns.value = some old)
    (v : Int) :
    ∃ F, ∀ fuel, F ≤ fuel →
      ∃ r' ran, propagateUpdates fuel (r.setNode s { ns with value := some v }) s = .ok r' ∧
        StaticArena r' ∧ Evolves (r.setNode s { ns with value := some v }) r' ran ∧ (runIds ran).Nodup := by
  obtain ⟨B, hB⟩ := exists_bodyBound r
  exact ⟨r.nodes.size + B + 6, fun fuel hf => (C01_static_set hA hn hc hv hB hf v).2⟩

/-- the same through the DSL statement `set h e` -/
theorem C01_static_execSet {r : Root} {c : Ctx} {h : Nat} {e : Ex} {hd : Handle} {ns : Node} {old : Int}
    {B fuel : Nat} (hA : StaticArena r) (hl : c.env[h]? = some hd) (hk : hd.kind = .signal)
    (hn : r.get? hd.id = some ns) (hc : ns.callback = none) (hv : ns.value = some old)
    (hB : BodyBound r B) (hf : r.nodes.size + B + 7 ≤ fuel) :
    ∃ r', execStmt fuel r c (.set h e) = .ok (r', c) ∧ StaticArena r' ∧
      (∃ ran, Evolves (r.setNode hd.id { ns with value := some (evalEx e c.acc) }) r' ran ∧
        (runIds ran).Nodup) := by
  obtain ⟨f, rfl⟩ : ∃ f, fuel = f + 1 := ⟨fuel - 1, by omega⟩
  obtain ⟨hss, r', ran, hp, hA', hE, hN⟩ := C01_static_set (fuel := f) hA hn hc hv hB (by omega) (evalEx e c.acc)
  exact ⟨r', by simp [execStmt, lookup, hl, hk, hss, hp], hA', ran, hE, hN⟩


/-! ### 3. the intermediate results, restated

The proofs are in `Lemmas/Propagate.lean`; the statements are repeated here so that everything C01
rests on can be read in one place. -/

/-- (1) `runClosure` on a read-only body under `tracker = some t`: if every read node is alive and
holds a value, the run succeeds with value `evalPureBody`, appends `bodyReads` to the tracker, logs
`bodyObs`, and changes nothing else in the root. Fuel: body length + 2. -/
theorem C01_static_runClosure {fuel : Nat} {r : Root} {cl : Closure} {t : List Id} {self : Id}
    (hro : ReadOnly cl.body) (hok : ReadHandlesOk self cl.env cl.body) (ht : r.tracker = some t)
    (hal : ∀ id ∈ bodyReads cl.env cl.body, ∃ n v, r.get? id = some n ∧ n.value = some v)
    (hf : roBodyLen cl.body + 2 ≤ fuel) :
    ∃ v, evalPureBody r cl.env cl.body 0 = some v ∧
      runClosure fuel r cl =
        .ok ({ r with tracker := some (t ++ bodyReads cl.env cl.body) }, v,
             bodyObs r cl.env cl.body) :=
  runClosure_readOnly hro hok ht hal hf

/-- (2) `runNodeUpdate` on a read-only computation of a `Struct` state: no panic; the node's value
becomes `evalPureBody` of the current values (or stays, if the selector's `eq` accepts), it is clean,
its callback / dependencies / children / cleanups / mark are as before, every other node keeps
everything except `dependents` order and gets `dirty` iff the value changed and it reads `cur`;
`NoDangling` and `EdgesSym` still hold; exactly one `run` event is logged (`RunPost`). -/
theorem C01_static_runNodeUpdate {fuel : Nat} {r : Root} {cur : Id} {n : Node} {eq : EqKind}
    {cl : Closure} {old : Int} (hS : Struct r) (hn : r.get? cur = some n)
    (hcb : n.callback = some (eq, cl)) (hv : n.value = some old) (hf : roBodyLen cl.body + 3 ≤ fuel) :
    ∃ new r', evalPureBody r cl.env cl.body 0 = some new ∧ runNodeUpdate fuel r cur = .ok r' ∧
      RunPost r cur (if eqHolds eq new old then old else new) (!eqHolds eq new old)
        (.run cur (bodyObs r cl.env cl.body) new) r' :=
  runNodeUpdate_static hS hn hcb hv hf

/-- (3) scheduling: on an unmarked static arena the first loop of `propagate_node_updates` for the
single start node `s` does not fail (`dfsFuel` suffices, no cycle), only rewrites marks, and yields
a duplicate-free buffer that contains `s`, consists exactly of the nodes reachable from `s` through
`dependents`, is exactly the set of `perm`-marked nodes, lists every dependent before the node it
depends on, and sets `dirty` exactly on the direct dependents of `s` (`Scheduled`). -/
theorem C01_static_schedule {r : Root} {s : Id} (hS : Struct r) (hm : Unmarked r)
    (hs : r.alive s = true) :
    ∃ rD buf, visitStarts r [] [s] = .ok (markDependentsDirty rD s, buf) ∧ Scheduled r s rD buf ∧
      ∀ i, i ∈ buf ↔ Reach r s i :=
  visitStarts_reach hS hm hs

/-- (4) the second loop: from a state satisfying `LoopInv` it ends without panic with nothing
pending, having run a sublist of the schedule -/
theorem C01_static_loop (Pn : List Id) (r : Root) (fuel B : Nat) (hI : LoopInv r Pn)
    (hB : BodyBound r B) (hf : Pn.length + B + 4 ≤ fuel) :
    ∃ r' ran, propagateLoop fuel r Pn = .ok r' ∧ LoopInv r' [] ∧ Evolves r r' ran ∧
      (runIds ran).Sublist Pn :=
  propagateLoop_static Pn r fuel B hI hB hf

/-! ### 4. a Boolean checker for `StaticArena` (used for the non-vacuity examples) -/

def readOnlyB : Body → Bool
  | .nil => true
  | .cons s rest => s.readHandle?.isSome && readOnlyB rest

def readHandlesOkB (self : Id) (env : List Handle) : Body → Bool
  | .nil => true
  | .cons s rest =>
    (match s.readHandle? with
     | none => true
     | some h => match env[h]? with
       | none => false
       | some hd => isValueKind hd.kind && decide (hd.id < self)) && readHandlesOkB self env rest

theorem readOnlyB_sound {b : Body} (h : readOnlyB b = true) : ReadOnly b := by
  fun_induction roBodyLen b with
  | case1 => trivial
  | case2 s rest ih =>
    simp only [readOnlyB, Bool.and_eq_true] at h
    exact ⟨h.1, ih h.2⟩

theorem readHandlesOkB_sound {self : Id} {env : List Handle} {b : Body} (h : readHandlesOkB self env b = true) :
    ReadHandlesOk self env b := by
  fun_induction roBodyLen b with
  | case1 => trivial
  | case2 s rest ih =>
    simp only [readHandlesOkB, Bool.and_eq_true] at h
    refine ⟨fun hh hs => ?_, ih h.2⟩
    have h1 := h.1
    rw [hs] at h1
    simp only at h1
    split at h1
    · cases h1
    · rename_i hd hhd
      simp only [Bool.and_eq_true, decide_eq_true_eq] at h1
      exact ⟨hd, hhd, h1.1, h1.2⟩

def nodeOkB (j : Id) (n : Node) : Bool :=
  n.value.isSome &&
  match n.callback with
  | none => decide (n.dependencies = [])
  | some (_, cl) =>
    n.children.isEmpty && n.cleanups.isEmpty && readOnlyB cl.body && readHandlesOkB j cl.env cl.body &&
    decide (n.dependencies = bodyReads cl.env cl.body)

theorem nodeOkB_sound {j : Id} {n : Node} (h : nodeOkB j n = true) : NodeOk j n := by
  simp only [nodeOkB, Bool.and_eq_true] at h
  obtain ⟨h1, h2⟩ := h
  refine ⟨h1, fun hc => ?_, fun eq cl hc => ?_⟩
  · rw [hc] at h2; simpa using h2
  · rw [hc] at h2
    simp only [Bool.and_eq_true, decide_eq_true_eq, List.isEmpty_iff] at h2
    obtain ⟨⟨⟨⟨a, b⟩, c⟩, d⟩, e⟩ := h2
    exact ⟨a, b, readOnlyB_sound c, readHandlesOkB_sound d, e⟩

/-- the live nodes with their ids -/
def liveNodes (r : Root) : List (Id × Node) :=
  (List.range r.nodes.size).filterMap fun j => (r.get? j).map fun n => (j, n)

theorem mem_liveNodes {r : Root} {j : Id} {n : Node} (h : r.get? j = some n) : (j, n) ∈ liveNodes r := by
  simp only [liveNodes, List.mem_filterMap, List.mem_range]
  exact ⟨j, Root.lt_size_of_get? h, by simp [h]⟩

def staticArenaB (r : Root) : Bool :=
  let L := liveNodes r
  L.all (fun p => p.2.dependents.all r.alive && p.2.dependencies.all r.alive) &&
  L.all (fun a => L.all fun b => a.2.dependents.count b.1 == b.2.dependencies.count a.1) &&
  L.all (fun p => nodeOkB p.1 p.2) &&
  L.all (fun p => p.2.mark == .none && !p.2.dirty) &&
  r.tracker.isNone && !r.batching && r.queue.isEmpty &&
  L.all (fun p => decide (locallyConsistent r p.1))

theorem staticArenaB_sound {r : Root} (h : staticArenaB r = true) : StaticArena r := by
  simp only [staticArenaB, Bool.and_eq_true, List.all_eq_true, decide_eq_true_eq, Bool.not_eq_true',
    beq_iff_eq, Option.isNone_iff_eq_none, List.isEmpty_iff] at h
  obtain ⟨⟨⟨⟨⟨⟨⟨h1, h2⟩, h3⟩, h4⟩, h5⟩, h6⟩, h7⟩, h8⟩ := h
  refine ⟨⟨fun i n hn => ?_, fun a b na nb ha hb => ?_, fun j n hn => ?_⟩, fun j n hn => ?_, fun j n hn => ?_,
    h5, h6, h7, fun j => ?_⟩
  · have := h1 _ (mem_liveNodes hn)
    exact ⟨fun d hd => this.1 d hd, fun d hd => this.2 d hd⟩
  · exact h2 _ (mem_liveNodes ha) _ (mem_liveNodes hb)
  · exact nodeOkB_sound (h3 _ (mem_liveNodes hn))
  · exact (h4 _ (mem_liveNodes hn)).1
  · exact (h4 _ (mem_liveNodes hn)).2
  · cases hn : r.get? j with
    | none => unfold locallyConsistent; rw [hn]; trivial
    | some n => exact h8 _ (mem_liveNodes hn)

/-- the empty program -/
example : StaticArena Root.init := staticArenaB_sound (by decide +kernel)

/-- `s = signal 1; m1 = memo(s); m2 = memo(s, m1); p = selector_parity(m2); e = effect(p, s)`,
then two writes to `s` -/
def staticDemo : List Stmt :=
  [.signal 1, .memo (.cons (.read 0) .nil), .memo (.cons (.read 0) (.cons (.read 1) .nil)),
   .selector .parity (.cons (.read 2) .nil), .effect (.cons (.read 3) (.cons (.read 0) .nil)),
   .set 0 (.const 5), .set 0 (.const 7)]

def staticDemoCheck (n : Nat) : Bool :=
  match runOps 60 (staticDemo.take n) Root.init [] with
  | .ok (r, _) => staticArenaB r
  | .error _ => false


/-! ### 5. non-vacuity -/

/-- the state after each prefix of `staticDemo` (including the two writes) is a `StaticArena` -/
theorem staticDemo_arena : ∀ n ≤ 7, ∃ r env,
    runOps 60 (staticDemo.take n) Root.init [] = .ok (r, env) ∧ StaticArena r := by
  have key : ∀ n, staticDemoCheck n = true → ∃ r env,
      runOps 60 (staticDemo.take n) Root.init [] = .ok (r, env) ∧ StaticArena r := by
    intro n h
    unfold staticDemoCheck at h
    split at h
    · rename_i r env hr; exact ⟨r, env, hr, staticArenaB_sound h⟩
    · cases h
  have hall : (List.range 8).all staticDemoCheck = true := by decide +kernel
  intro n hn
  exact key n (List.all_eq_true.1 hall n (List.mem_range.2 (by omega)))

/-
`#print axioms` (Lean 4.33.0) of `C01_static_set`, `C01_static_set_exists`, `C01_static_execSet`,
`C01_static_runNodeUpdate`, `C01_static_schedule`, `C01_static_loop`, `staticDemo_arena`:
  [propext, Classical.choice, Quot.sound];  of `C01_static_runClosure`: [propext, Quot.sound].
-/

end SycVerif.Reactive
