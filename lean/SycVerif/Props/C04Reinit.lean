import SycVerif.Props.ReactiveWF
import SycVerif.Props.C04
import SycVerif.Lemmas.Reinit
/-!
`Root::reinit` (what `RootHandle::dispose` calls; every server render starts with it on the thread's
root): C04 "Root::reinit disposes the root node", C12 "a finished render releases every reactive node it
created, so the live node count at the start of each render is constant", and repair D20 (the arena is
drained, not replaced, so no key is handed out twice).

Programs over several GENERATIONS of one root: `runGens` runs a program, re-initialises the root, runs the
next program with the handles of all earlier generations still in its environment, and so on.
-/
namespace SycVerif.Reactive

/-- the root node `reinit` creates -/
def freshRootNode : Node :=
  { value := some 0, callback := none, children := [], parent := none, dependents := [], dependencies := [],
    cleanups := [], context := [], dirty := false, mark := .none }

/-- generations of one root: `[p₀, p₁, …]` = run `p₀`, `reinit`, run `p₁`, `reinit`, … (no `reinit` after the last) -/
def runGens (fuel : Nat) : List (List Stmt) → Root → List Handle → Except Panic (Root × List Handle)
  | [], r, env => .ok (r, env)
  | [p], r, env => runOps fuel p r env
  | p :: q :: rest, r, env =>
    match runOps fuel p r env with
    | .error e => .error e
    | .ok (r, env) =>
      match reinit fuel r with
      | .error e => .error e
      | .ok r => runGens fuel (q :: rest) r env

/-! ## what `reinit` leaves: exactly one live node, the fresh root, under a key never used before -/

/-- the whole result: the arena holds the fresh root node under a NEW key `k` (not below the old size —
keys of earlier generations are never handed out again, D20) and nothing else; root, current scope,
tracker, queue and batch flag are reset -/
theorem C04_reinit_shape {fuel : Nat} {r r' : Root} (h : reinit fuel r = .ok r') :
    ∃ k, r.nodes.size ≤ k ∧ r'.nodes.size = k + 1 ∧ r'.get? k = some freshRootNode ∧
      (∀ j, j ≠ k → r'.get? j = none) ∧ r'.rootNode = some k ∧ r'.current = some k ∧
      r'.tracker = none ∧ r'.queue = [] ∧ r'.batching = false := by
  obtain ⟨rd, hd, rfl⟩ := reinit_ok h
  refine ⟨rd.nodes.size, reinitDispose_size_le hd, drained_size rd, ?_, ?_, rfl, rfl, rfl, rfl, rfl⟩
  · rw [drained_get?, if_pos rfl]; rfl
  · intro j hj; rw [drained_get?, if_neg hj]

/-- C12: the live node count at the start of every render is constant -/
theorem C12_reinit_live_count {fuel : Nat} {r r' : Root} (h : reinit fuel r = .ok r') : r'.liveCount = 1 := by
  obtain ⟨rd, _, rfl⟩ := reinit_ok h
  exact drained_liveCount rd

/-- C04: every handle obtained before reports "not alive" afterwards (also for nodes that cleanups created
during the teardown) -/
theorem C04_reinit_handles_dead {fuel : Nat} {r r' : Root} (h : reinit fuel r = .ok r') :
    ∀ j, j < r.nodes.size → r'.alive j = false := by
  intro j hj
  simp [Root.alive, (reinit_step h).2.2.2 j hj]

/-- D20: whatever is created afterwards gets a key that no earlier generation ever saw -/
theorem C04_reinit_no_alias {fuel : Nat} {r r' r'' : Root} {v : Option Int} {id : Id}
    (h : reinit fuel r = .ok r') (hc : createNode r' v = .ok (r'', id)) : r.nodes.size < id := by
  have hid := (createNode_get? hc).1
  have := (reinit_step h).2.2.1
  rw [hid]; exact this

/-- the bookkeeping invariants hold after `reinit`, whatever the state before was -/
theorem C04_reinit_inv {fuel : Nat} {r r' : Root} (h : reinit fuel r = .ok r') : RInv r' ∧ XInv r' := by
  exact ⟨(reinit_step h).1, (reinit_step h).2.1⟩

/-! ## cleanups: exactly once; totality -/

/-- the teardown half of `reinit` is `disposeNode` of the root node: with cleanups that only read, every
cleanup registered anywhere in the ownership tree of the root runs exactly once (`DisposeOutcome`, see
`Props/C04`), and then the arena is drained -/
theorem C04_reinit_cleanups_once {fuel : Nat} {r r' : Root} {root : Id}
    (hroot : r.rootNode = some root)
    (ho : OwnershipOk r) (hnd : NoDangling r) (hs : EdgesSym r)
    (hin : ∀ j n, Owned r root j → r.get? j = some n → ∀ cl ∈ n.cleanups, InertBody cl.body)
    (h : reinit fuel r = .ok r') :
    ∃ rd S evs, disposeNode fuel r root = .ok rd ∧ DisposeOutcome r root rd S evs ∧ r'.trace = rd.trace := by
  obtain ⟨rd, hd, rfl⟩ := reinit_ok h
  simp only [reinitDispose, hroot] at hd
  obtain ⟨S, evs, D⟩ := disposeNode_spec ho hnd hs hin hd
  exact ⟨rd, S, evs, hd, D, rfl⟩

/-- `reinit` succeeds (with enough fuel) whenever the disposal of the root node does -/
theorem C04_reinit_total {r : Root} {root : Id} (hroot : r.rootNode = some root)
    (ho : OwnershipOk r) (hnd : NoDangling r) (hs : EdgesSym r)
    (hin : ∀ j n, Owned r root j → r.get? j = some n → ∀ cl ∈ n.cleanups, InertBody cl.body)
    (hread : CleanupsReadable r root) :
    ∃ F, ∀ fuel, F ≤ fuel → ∃ r', reinit fuel r = .ok r' := by
  obtain ⟨F, hF⟩ := disposeNode_total ho hnd hs hin hread
  refine ⟨F, fun fuel hf => ?_⟩
  obtain ⟨rd, _, _, hd, _⟩ := hF fuel hf
  refine ⟨drained rd, ?_⟩
  rw [reinit_eq]
  simp only [reinitDispose, hroot, hd]

/-! ## every state reachable over any number of generations -/

/-- the induction behind the three theorems below: from any state that satisfies the invariants, a run over
generations keeps them, never shrinks the arena, never revives a dead slot, and never unwraps `None` -/
theorem runGens_aux (fuel : Nat) : ∀ (ps : List (List Stmt)) (r0 : Root) (env0 : List Handle),
    RInv r0 → XInv r0 → EnvLt r0.nodes.size env0 →
    (∀ r env, runGens fuel ps r0 env0 = .ok (r, env) →
      RInv r ∧ XInv r ∧ EnvLt r.nodes.size env ∧ r0.nodes.size ≤ r.nodes.size ∧
      ∀ j, j < r0.nodes.size → r0.get? j = none → r.get? j = none) ∧
    runGens fuel ps r0 env0 ≠ .error .unwrapNone
  | [], r0, env0, hI, hX, hE => by
    refine ⟨?_, by simp [runGens]⟩
    intro r env h
    simp only [runGens, Except.ok.injEq, Prod.mk.injEq] at h
    obtain ⟨rfl, rfl⟩ := h
    exact ⟨hI, hX, hE, Nat.le_refl _, fun _ _ h => h⟩
  | [p], r0, env0, hI, hX, hE => by
    simp only [runGens]
    refine ⟨?_, runOps_no_unwrapNone hI hX hE⟩
    intro r env h
    obtain ⟨i, x, e, g⟩ := runOps_step hI hX hE h
    exact ⟨i, x, e, g.size, g.dead⟩
  | p :: q :: rest, r0, env0, hI, hX, hE => by
    simp only [runGens]
    cases h1 : runOps fuel p r0 env0 with
    | error e =>
      refine ⟨(by intro r env h; cases h), ?_⟩
      intro he
      simp only [Except.error.injEq] at he
      subst he
      exact runOps_no_unwrapNone hI hX hE h1
    | ok a =>
      obtain ⟨r1, env1⟩ := a
      obtain ⟨i1, x1, e1, g1⟩ := runOps_step hI hX hE h1
      simp only []
      cases h2 : reinit fuel r1 with
      | error e =>
        refine ⟨(by intro r env h; cases h), ?_⟩
        intro he
        simp only [Except.error.injEq] at he
        subst he
        exact reinit_no_unwrapNone i1 x1 h2
      | ok r2 =>
        obtain ⟨i2, x2, hlt, hdead⟩ := reinit_step h2
        obtain ⟨ih1, ih2⟩ := runGens_aux fuel (q :: rest) r2 env1 i2 x2 (e1.mono (Nat.le_of_lt hlt))
        refine ⟨?_, ih2⟩
        intro r env h
        obtain ⟨a, b, c, d, e⟩ := ih1 r env h
        refine ⟨a, b, c, Nat.le_trans g1.size (Nat.le_trans (Nat.le_of_lt hlt) d), ?_⟩
        intro j hj hjd
        exact e j (Nat.lt_of_lt_of_le hj (Nat.le_trans g1.size (Nat.le_of_lt hlt)))
          (hdead j (Nat.lt_of_lt_of_le hj g1.size))

theorem reachable_gens_inv (fuel : Nat) (ps : List (List Stmt)) (r : Root) (env : List Handle)
    (h : runGens fuel ps Root.init [] = .ok (r, env)) : RInv r ∧ XInv r ∧ EnvLt r.nodes.size env := by
  obtain ⟨a, b, c, _⟩ := (runGens_aux fuel ps Root.init [] inv_init inv_init_x (by intro hd hm; cases hm)).1 r env h
  exact ⟨a, b, c⟩

/-- C11 over generations: a program that goes on after `RootHandle::dispose()` (also one that uses handles of
an earlier generation) fails only with a documented panic or the cycle panic, never with an internal `unwrap` -/
theorem reachable_gens_errors (fuel : Nat) (ps : List (List Stmt)) (e : Panic)
    (h : runGens fuel ps Root.init [] = .error e) : Documented e ∨ e = .cyclic := by
  cases e with
  | unwrapNone =>
    exact absurd h (runGens_aux fuel ps Root.init [] inv_init inv_init_x (by intro hd hm; cases hm)).2
  | cyclic => exact .inr rfl
  | _ => exact .inl trivial

/-- a handle of an earlier generation is dead in every later generation: nothing the later programs do
brings it back -/
theorem C04_gens_old_handles_stay_dead (fuel : Nat) (p : List Stmt) (q : List (List Stmt)) (hq : q ≠ [])
    (r1 : Root) (env1 : List Handle) (r : Root) (env : List Handle)
    (h1 : runOps fuel p Root.init [] = .ok (r1, env1))
    (h : runGens fuel (p :: q) Root.init [] = .ok (r, env)) :
    ∀ j, j < r1.nodes.size → r.alive j = false := by
  intro j hj
  cases q with
  | nil => exact absurd rfl hq
  | cons q0 rest =>
    simp only [runGens, h1] at h
    split at h
    · cases h
    · rename_i r2 h2
      obtain ⟨i1, x1, e1, g1⟩ := runOps_step inv_init inv_init_x (by intro hd hm; cases hm) h1
      obtain ⟨i2, x2, hlt, hdead⟩ := reinit_step h2
      obtain ⟨_, _, _, _, hd⟩ := (runGens_aux fuel (q0 :: rest) r2 env1 i2 x2 (e1.mono (Nat.le_of_lt hlt))).1 r env h
      simp [Root.alive, hd j (Nat.lt_trans hj hlt) (hdead j hj)]

/-! ## the code before repair D20 (`reinitOld`: a fresh arena) -/

/-- the D20 witness over the model: two signals, `RootHandle::dispose()`, two new signals — with the old
`reinit` the handle of the old second signal (key 2) is alive again and names the NEW second signal -/
theorem C04_reinitOld_aliases :
    ∃ (r1 r2 r3 : Root) (env env' : List Handle),
      runOps 100 [.signal 0, .signal 1] Root.init [] = .ok (r1, env) ∧
      reinitOld 100 r1 = .ok r2 ∧
      runOps 100 [.signal 0, .signal 100] r2 [] = .ok (r3, env') ∧
      (r1.get? 2).bind (·.value) = some 1 ∧ (r3.get? 2).bind (·.value) = some 100 := by
  have h : (match runOps 100 [.signal 0, .signal 1] Root.init [] with
      | .ok (r1, _) =>
        match reinitOld 100 r1 with
        | .ok r2 =>
          match runOps 100 [.signal 0, .signal 100] r2 [] with
          | .ok (r3, _) =>
            decide ((r1.get? 2).bind (·.value) = some 1 ∧ (r3.get? 2).bind (·.value) = some 100)
          | .error _ => false
        | .error _ => false
      | .error _ => false) = true := by decide +kernel
  split at h
  · rename_i r1 env e1
    split at h
    · rename_i r2 e2
      split at h
      · rename_i r3 env' e3
        have h' := of_decide_eq_true h
        exact ⟨r1, r2, r3, env, env', e1, e2, e3, h'.1, h'.2⟩
      · cases h
    · cases h
  · cases h

/-- the same history with the repaired `reinit`: key 2 stays dead, the new signals live under new keys -/
theorem C04_reinit_no_alias_example :
    ∃ (r1 r2 r3 : Root) (env env' : List Handle),
      runOps 100 [.signal 0, .signal 1] Root.init [] = .ok (r1, env) ∧
      reinit 100 r1 = .ok r2 ∧
      runOps 100 [.signal 0, .signal 100] r2 [] = .ok (r3, env') ∧
      r3.alive 2 = false ∧ r3.liveCount = 3 := by
  have h : (match runOps 100 [.signal 0, .signal 1] Root.init [] with
      | .ok (r1, _) =>
        match reinit 100 r1 with
        | .ok r2 =>
          match runOps 100 [.signal 0, .signal 100] r2 [] with
          | .ok (r3, _) => decide (r3.alive 2 = false ∧ r3.liveCount = 3)
          | .error _ => false
        | .error _ => false
      | .error _ => false) = true := by decide +kernel
  split at h
  · rename_i r1 env e1
    split at h
    · rename_i r2 e2
      split at h
      · rename_i r3 env' e3
        have h' := of_decide_eq_true h
        exact ⟨r1, r2, r3, env, env', e1, e2, e3, h'.1, h'.2⟩
      · cases h
    · cases h
  · cases h

end SycVerif.Reactive
