/-
C09 — "Hydrating server-rendered HTML with the same view and initial state attaches to the existing DOM:
every server-rendered element is adopted exactly once and none is recreated or moved, the visible tree is
unchanged, and hydration never panics on output produced by the same view."

Model: `Model/Hydrate.lean` (`ssrOfList`, `mergeCh`, `hydrateKids`, `hydrateView`, `visibleCh`) on top of
`Model/DomView.lean`; helpers and proofs: `Lemmas/Hydrate.lean`.
Everything below holds for ALL stores and ALL mounted views — including views with `NoHydrate` islands
(`Inst.island`) — that satisfy the two hypotheses

* `ShowFreeList inst`: no `Show` anywhere in the HYDRATED part of the instance (also not in the current
  content of a dynamic view).  `Show` is the known finding D12 and is excluded on purpose.  Inside an
  island nothing is hydrated, so a `Show` inside `NoHydrate` IS covered.
* `StampFreeList inst`: no element of the view (inside or outside islands) has an attribute NAMED `[1]` or
  `[2]`.  The model represents the debug stamp `data-hydrated` of `check_node` as a leading attribute
  `([1], [])` and recognises adopted elements by it, and it represents "rendered without a hydration key"
  (the children of `NoHydrate`) as a leading attribute `([2], [])`; a view that itself renders such an
  attribute first looks "already adopted" / "keyless" to the model and `hydrateFirstUnadopted` skips it
  (`C09_stamp_hypothesis_needed`, `C09_keyless_name_reserved` below).  This is an artefact of the encoding
  (real views use neither name), not a behaviour of sycamore.

Islands.  The server renders the children of `NoHydrate` frozen (`frozenOf`: keyless elements, plain text,
no comment markers) and the hydrating client appends NOTHING for them (`ssrOf σ (.island cs) =
(frozenOfList σ cs, [])`).  The theorems say: hydration still never fails, the island content is left
exactly as it is (same keyless elements with the same attributes and subtrees at the same places,
`C09_all_adopted_once`), no marker of the hydrated part is lost to or taken from an island
(`C09_markers_consumed`), and what the island shows is what the client renders for it at the same store
(`C09_matches_client_render`).

Reading guide
* `(c, p) = ssrOfList σ inst`: `c` = children the SERVER renders, `mergeCh c` = what the HTML parser hands to
  the client, `p` = the pending nodes the hydrating build appends, in order.
* `hydrateView σ inst = hydrateKids (2 * (pendSize p + chSize (mergeCh c)) + 2) (mergeCh c) p`.
* `elemKinds` : pre-order list of `(tag, kind)` over the whole forest, `kind` ∈ `unadopted` (keyed, no
  stamp), `adopted` (leading `[1]`), `keyless` (leading `[2]`); `adoptKind` maps `unadopted ↦ adopted` and
  leaves the rest; `keylessEls` : the maximal keyless elements WITH attributes and subtrees, document order;
  `keyedElems`/`keylessElems` : the two sub-lists of `elemKinds`.
  `elems` : the observation of the island-free development, `(tag, carries the adoption stamp?)`.
* `eraseKeyless` : erase the attribute `[2]` from every element.  `visibleCh` (Model) drops comments and the
  stamp `[1]` but keeps `[2]`, which the client render of course does not have; the comparison with the
  client render is therefore stated modulo `eraseKeyless` (under `StampFreeList` only stamps are erased).
* `cmtCount s` : number of comments with content `s` in the whole forest; `[47]` is the slash marker of
  SSR, `[116]` the `t` comment in front of a dynamic text, `[35]` the hydrated marker `#`.
* `markerCount p`, `dynTextCount p` : number of marker / dynamic-text appends in the whole pending forest.
* `visibleD` : visible content of a client-rendered document (`domList`): comments dropped, node
  identities forgotten, adjacent text merged.
-/
import SycVerif.Lemmas.Hydrate
import SycVerif.Lemmas.DomView
namespace SycVerif.Hydrate
open SycVerif.DomView

/-! ## 1 — hydration never fails on the output of the same view -/

/-- **C09 (never panics).** Every marker finds its slash comment, every dynamic text finds its `t` comment
with a next sibling, every element finds its not yet adopted counterpart with the same tag; the fuel
`hydrateView` passes is sufficient. -/
theorem C09_hydrate_total (σ : Store) (inst : InstList)
    (hShow : ShowFreeList inst) (hStamp : StampFreeList inst) :
    ∃ ch', hydrateView σ inst = .ok ch' :=
  ⟨hydrated σ inst, hydrateView_eq σ inst hShow hStamp⟩

/-- the same for EVERY fuel from `pendSize p + chSize (mergeCh c)` on (the result does not depend on it) -/
theorem C09_hydrate_total_fuel (σ : Store) (inst : InstList)
    (hShow : ShowFreeList inst) (hStamp : StampFreeList inst) (fuel : Nat)
    (hfuel : pendSize (ssrOfList σ inst).2 + chSize (mergeCh (ssrOfList σ inst).1) ≤ fuel) :
    hydrateKids fuel (mergeCh (ssrOfList σ inst).1) (ssrOfList σ inst).2 = hydrateView σ inst := by
  rw [hydrateView_eq σ inst hShow hStamp]
  exact hydrateKids_view σ inst hShow hStamp fuel hfuel

/-- fuel is only fuel: a run that succeeds with some fuel never enlarges the document and succeeds with
the same result for every fuel above `pendSize + chSize` (for arbitrary documents and pending lists) -/
theorem C09_fuel_irrelevant (f f' : Nat) (ch : List Ch) (ps : List Pend) (r : List Ch)
    (h : hydrateKids f ch ps = .ok r) (hf' : pendSize ps + chSize ch ≤ f') :
    hydrateKids f' ch ps = .ok r ∧ chSize r ≤ chSize ch :=
  ⟨((fuel_suff f).1 ch ps r h).2 f' hf', ((fuel_suff f).1 ch ps r h).1⟩

/-- the statement WITHOUT the stamp hypothesis (the literal form asked for); it is FALSE in the model,
see `C09_stamp_hypothesis_needed` -/
def C09_hydrate_total_showFree_only : Prop :=
  ∀ (σ : Store) (inst : InstList), ShowFreeList inst → ∃ ch', hydrateView σ inst = .ok ch'

/-! ## 2 — the visible tree is unchanged -/

/-- **C09 (visible tree unchanged).** Elements, their attributes other than the adoption stamp, and the
text content (comments dropped, adjacent text merged) are the same before and after hydration. -/
theorem C09_visible_unchanged (σ : Store) (inst : InstList)
    (hShow : ShowFreeList inst) (hStamp : StampFreeList inst)
    (ch' : List Ch) (h : hydrateView σ inst = .ok ch') :
    mergeCh (visibleCh ch') = mergeCh (visibleCh (mergeCh (ssrOfList σ inst).1)) := by
  rw [hydrateView_eq σ inst hShow hStamp] at h; cases h
  rw [served_eq σ inst hShow]; exact hydrated_visible σ inst hShow

/-! ## 3 — every server-rendered element is adopted exactly once; none created, moved or removed -/

/-- **C09 (adopted exactly once; islands untouched).** The hydrated document has the same elements in the
same (pre-order) positions as the server document — none is created, removed or moved: the list of
`(tag, kind)` after hydration is the list before, mapped position by position by `adoptKind` (a keyed
element goes from unadopted to adopted, a keyless one stays keyless); no element was adopted before; and
the keyless elements (the content of `NoHydrate`) are literally the same before and after — same
attributes (never stamped `[1]`), same subtrees, same order.  (A second adoption of the same element is
impossible in the model: `hydrateFirstUnadopted` skips stamped elements.) -/
theorem C09_all_adopted_once (σ : Store) (inst : InstList)
    (hShow : ShowFreeList inst) (hStamp : StampFreeList inst)
    (ch' : List Ch) (h : hydrateView σ inst = .ok ch') :
    elemKinds ch' = (elemKinds (mergeCh (ssrOfList σ inst).1)).map adoptKind ∧
    (∀ e ∈ elemKinds (mergeCh (ssrOfList σ inst).1), e.2 ≠ .adopted) ∧
    keylessEls ch' = keylessEls (mergeCh (ssrOfList σ inst).1) := by
  rw [hydrateView_eq σ inst hShow hStamp] at h; cases h
  rw [served_eq σ inst hShow]; exact hydrated_kinds σ inst hShow hStamp

/-- the keyed elements of a document, pre-order -/
def keyedElems (l : List Ch) : List (Str × Kind) := (elemKinds l).filter (fun e => e.2 != .keyless)
/-- the keyless elements of a document, pre-order -/
def keylessElems (l : List Ch) : List (Str × Kind) := (elemKinds l).filter (fun e => e.2 == .keyless)

/-- the same, split into the two kinds of elements: the keyless ones are the same list before and after;
the keyed ones have the same tags in the same order, all unadopted before and all adopted after -/
theorem C09_all_adopted_once_split (σ : Store) (inst : InstList)
    (hShow : ShowFreeList inst) (hStamp : StampFreeList inst)
    (ch' : List Ch) (h : hydrateView σ inst = .ok ch') :
    keylessElems ch' = keylessElems (mergeCh (ssrOfList σ inst).1) ∧
    (keyedElems ch').map (·.1) = (keyedElems (mergeCh (ssrOfList σ inst).1)).map (·.1) ∧
    (∀ e ∈ keyedElems ch', e.2 = .adopted) ∧
    (∀ e ∈ keyedElems (mergeCh (ssrOfList σ inst).1), e.2 = .unadopted) := by
  have ⟨h1, h2, _⟩ := C09_all_adopted_once σ inst hShow hStamp ch' h
  have hfst : ∀ e : Str × Kind, (adoptKind e).1 = e.1 := by rintro ⟨t, k⟩; cases k <;> rfl
  have hkl : ∀ e : Str × Kind, ((adoptKind e).2 == Kind.keyless) = (e.2 == Kind.keyless) := by
    rintro ⟨t, k⟩; cases k <;> rfl
  have hkd : ∀ e : Str × Kind, ((adoptKind e).2 != Kind.keyless) = (e.2 != Kind.keyless) := by
    rintro ⟨t, k⟩; cases k <;> rfl
  have hun : ∀ e ∈ keyedElems (mergeCh (ssrOfList σ inst).1), e.2 = .unadopted := by
    intro e he
    have hm := List.mem_filter.1 he
    obtain ⟨t, k⟩ := e
    have := h2 _ hm.1
    cases k
    · rfl
    · exact absurd rfl this
    · exact absurd hm.2 (by simp)
  simp only [keylessElems, keyedElems] at hun ⊢
  rw [h1, List.filter_map, List.filter_map]
  simp only [Function.comp_def, hkl, hkd]
  refine ⟨map_adoptKind_keyless (fun e he => ?_), ?_, ?_, hun⟩
  · have := (List.mem_filter.1 he).2
    obtain ⟨t, k⟩ := e
    cases k <;> first | rfl | exact absurd this (by simp)
  · simp [List.map_map, Function.comp_def, hfst]
  · intro e he
    obtain ⟨e', he', rfl⟩ := List.mem_map.1 he
    obtain ⟨t, k⟩ := e'
    have : k = .unadopted := hun _ he'
    subst this; rfl

/-- **The statement of the island-free development** as a corollary: for a view without `NoHydrate` every
element of the server document is keyed; same tags in the same order, none adopted before, all after. -/
theorem C09_all_adopted_once_islandFree (σ : Store) (inst : InstList)
    (hShow : ShowFreeList inst) (hStamp : StampFreeList inst) (hIsl : IslandFreeList inst)
    (ch' : List Ch) (h : hydrateView σ inst = .ok ch') :
    (elems ch').map (·.1) = (elems (mergeCh (ssrOfList σ inst).1)).map (·.1) ∧
    (∀ e ∈ elems ch', e.2 = true) ∧
    (∀ e ∈ elems (mergeCh (ssrOfList σ inst).1), e.2 = false) := by
  rw [hydrateView_eq σ inst hShow hStamp] at h; cases h
  rw [served_eq σ inst hShow]; exact hydrated_elems σ inst hShow hStamp hIsl

/-! ## 4 — all hydration markers are consumed -/

/-- **C09 (markers consumed).** After hydration no slash comment and no `t` comment is left anywhere; the
number of hydrated markers `#` is the number of marker appends, which is also the number of slash
comments the server rendered (each consumed by exactly one append); likewise the `t` comments and the
dynamic-text appends.  Islands contribute no comment to the document and nothing to the pending list
`(ssrOfList σ inst).2`, so the counts are those of the hydrated part alone. -/
theorem C09_markers_consumed (σ : Store) (inst : InstList)
    (hShow : ShowFreeList inst) (hStamp : StampFreeList inst)
    (ch' : List Ch) (h : hydrateView σ inst = .ok ch') :
    cmtCount [47] ch' = 0 ∧ cmtCount [116] ch' = 0 ∧
    cmtCount [35] ch' = markerCount (ssrOfList σ inst).2 ∧
    cmtCount [47] (mergeCh (ssrOfList σ inst).1) = markerCount (ssrOfList σ inst).2 ∧
    cmtCount [116] (mergeCh (ssrOfList σ inst).1) = dynTextCount (ssrOfList σ inst).2 ∧
    cmtCount [35] (mergeCh (ssrOfList σ inst).1) = 0 := by
  rw [hydrateView_eq σ inst hShow hStamp] at h; cases h
  rw [served_eq σ inst hShow]; exact hydrated_cmts σ inst hShow

/-! ## 5 — after hydration the document shows what a client render of the same state shows -/

/-- visible content of a client-rendered document -/
def visibleD (ts : List DTree) : List Ch := mergeCh (visD ts)

/-- **C09 (same as client render).** The visible content of the hydrated document — with the keyless
stamp `[2]` erased, which `visibleCh` keeps — is the visible content of `domList σ inst`, the document
the client-rendering model (`Model/DomView`) produces for the same instance and store; in particular an
island shows, frozen, what the client renders for its children at `σ`.  With C05 (`Props/C05.lean`: after
every write history the client document equals, up to identities, a fresh render of the current state)
the two models agree from here on outside islands. -/
theorem C09_matches_client_render (σ : Store) (inst : InstList)
    (hShow : ShowFreeList inst) (hStamp : StampFreeList inst)
    (ch' : List Ch) (h : hydrateView σ inst = .ok ch') :
    eraseKeyless (mergeCh (visibleCh ch')) = visibleD (domList σ inst) := by
  rw [hydrateView_eq σ inst hShow hStamp] at h; cases h
  exact hydrated_visD σ inst hShow hStamp

/-- the server document already shows it (SSR and client render agree on the visible content) -/
theorem C09_server_matches_client_render (σ : Store) (inst : InstList)
    (hShow : ShowFreeList inst) (hStamp : StampFreeList inst) :
    eraseKeyless (mergeCh (visibleCh (mergeCh (ssrOfList σ inst).1))) = visibleD (domList σ inst) := by
  rw [served_eq σ inst hShow, ← hydrated_visible σ inst hShow]
  exact hydrated_visD σ inst hShow hStamp

/-- **The statements of the island-free development** as corollaries: without `NoHydrate` there is no
keyless stamp and nothing to erase. -/
theorem C09_matches_client_render_islandFree (σ : Store) (inst : InstList)
    (hShow : ShowFreeList inst) (hStamp : StampFreeList inst) (hIsl : IslandFreeList inst)
    (ch' : List Ch) (h : hydrateView σ inst = .ok ch') :
    mergeCh (visibleCh ch') = visibleD (domList σ inst) := by
  rw [hydrateView_eq σ inst hShow hStamp] at h; cases h
  exact hydrated_visD_islandFree σ inst hShow hStamp hIsl

theorem C09_server_matches_client_render_islandFree (σ : Store) (inst : InstList)
    (hShow : ShowFreeList inst) (hStamp : StampFreeList inst) (hIsl : IslandFreeList inst) :
    mergeCh (visibleCh (mergeCh (ssrOfList σ inst).1)) = visibleD (domList σ inst) := by
  rw [served_eq σ inst hShow, ← hydrated_visible σ inst hShow]
  exact hydrated_visD_islandFree σ inst hShow hStamp hIsl

/-! ## The hypotheses hold for every mounted `Show`-free view description -/

/-- `PlainVDList vds`: the description uses no attribute named `[1]` or `[2]` and no `Show` outside
`NoHydrate`, in any alternative of any dynamic view; `NoHydrate` is allowed anywhere and may contain
anything stamp-free.  Mounting it under any store from any counter gives an instance the theorems apply
to. -/
theorem C09_mount_hypotheses (σ : Store) (vds : VDList) (k : Nat) (h : PlainVDList vds) :
    ShowFreeList (mountList σ vds k).1 ∧ StampFreeList (mountList σ vds k).1 :=
  mountList_plain σ vds k h

/-- **C09, all parts, for a freshly mounted view.** -/
theorem C09_mounted_view (σ : Store) (vds : VDList) (k : Nat) (h : PlainVDList vds) :
    let inst := (mountList σ vds k).1
    let c := mergeCh (ssrOfList σ inst).1
    let p := (ssrOfList σ inst).2
    ∃ ch', hydrateView σ inst = .ok ch' ∧
      mergeCh (visibleCh ch') = mergeCh (visibleCh c) ∧
      eraseKeyless (mergeCh (visibleCh ch')) = visibleD (domList σ inst) ∧
      elemKinds ch' = (elemKinds c).map adoptKind ∧
      (∀ e ∈ elemKinds c, e.2 ≠ .adopted) ∧ keylessEls ch' = keylessEls c ∧
      cmtCount [47] ch' = 0 ∧ cmtCount [116] ch' = 0 ∧ cmtCount [35] ch' = markerCount p := by
  intro inst c p
  have ⟨h1, h2⟩ := mountList_plain σ vds k h
  have hv := hydrateView_eq σ inst h1 h2
  have he := C09_all_adopted_once σ inst h1 h2 _ hv
  have hc := C09_markers_consumed σ inst h1 h2 _ hv
  exact ⟨_, hv, C09_visible_unchanged σ inst h1 h2 _ hv, C09_matches_client_render σ inst h1 h2 _ hv,
    he.1, he.2.1, he.2.2, hc.1, hc.2.1, hc.2.2.1⟩

/-! ## 6 — after hydration an island is frozen (optional: `freezeInst`, `afterHydration` of the model) -/

/-- At the initial store the instance `afterHydrationList σ inst` (islands replaced by their frozen
content) shows what the mounted view shows, hence (by `C09_matches_client_render`) what the hydrated
document shows.  No hypothesis: holds for every instance, also with `Show`. -/
theorem C09_after_hydration_now (σ : Store) (inst : InstList) :
    visibleD (domList σ (afterHydrationList σ inst)) = visibleD (domList σ inst) := by
  rw [visibleD, visibleD, visD_afterHydrationList]

/-- A frozen island shows under EVERY later store `σ'` what the client showed for its children at the
initial store `σ` … -/
theorem C09_island_frozen (σ σ' : Store) (cs : InstList) :
    visibleD (domList σ' (freezeList σ cs)) = visibleD (domList σ cs) := by
  rw [visibleD, visibleD, visD_freezeList]

mutual
theorem noDynOn_freeze (σ : Store) (s : Nat) : ∀ i : Inst, noDynOn s (freezeInst σ i) = true
  | .el id tag attrs cs => by simp [freezeInst, noDynOn, noDynOnL_freeze σ s cs]
  | .text id t => by simp [freezeInst, noDynOn]
  | .dynText id sig => by simp [freezeInst, noDynOn]
  | .dynView a b sig alts cur => by simp [freezeInst, noDynOn, noDynOnL_freeze σ s cur]
  | .show a b sig cs => by
    by_cases h : σ.get sig % 2 = 1
    · simp [freezeInst, noDynOn, h, noDynOnL_freeze σ s cs]
    · simp [freezeInst, noDynOn, noDynOnL, h]
  | .frag cs => by simp [freezeInst, noDynOn, noDynOnL_freeze σ s cs]
  | .island cs => by simp [freezeInst, noDynOn, noDynOnL_freeze σ s cs]
theorem noDynOnL_freeze (σ : Store) (s : Nat) : ∀ is : InstList, noDynOnL s (freezeList σ is) = true
  | .nil => by simp [freezeList, noDynOnL]
  | .cons i is => by simp [freezeList, noDynOnL, noDynOn_freeze σ s i, noDynOnL_freeze σ s is]
end

/-- … and no signal write touches it: `updateList` is the identity on it and allocates no node
(`C05_untouched_list`). -/
theorem C09_island_inert (σ σ' : Store) (s : Nat) (cs : InstList) (k : Nat) :
    updateList σ' s (freezeList σ cs) k = (freezeList σ cs, k) :=
  updateList_untouched σ' s _ k (noDynOnL_freeze σ s cs)

/-! ## Non-vacuity: a concrete view -/

namespace Example

local instance {ε α} [DecidableEq ε] [DecidableEq α] : DecidableEq (Except ε α)
  | .ok a, .ok b => if h : a = b then isTrue (by rw [h]) else isFalse (fun e => h (by cases e; rfl))
  | .error a, .error b => if h : a = b then isTrue (by rw [h]) else isFalse (fun e => h (by cases e; rfl))
  | .ok _, .error _ => isFalse (fun h => by cases h)
  | .error _, .ok _ => isFalse (fun h => by cases h)

def ofList : List VD → VDList
  | [] => .nil
  | v :: vs => .cons v (ofList vs)

/-- `"7" "8" <t100 a7="5" a3=[sig0 odd] a4={sig1}> "9" {sig0} "10" "" dyn(sig1){ ["1"] |
      [<t2>{sig1} "3"</t2> dyn(sig0){ ["4"] | [{sig0} <t5></t5>] } "6"] } "11" "12" </t100> {sig1}`:
adjacent static texts (also an empty one), dynamic text after static text, nested dynamic views, static /
boolean / optional attributes -/
def view : VDList :=
  ofList [.text [7], .text [8],
    .el [100] [([7], .static [5]), ([3], .dynBool 0), ([4], .dyn 1)] (ofList
      [.text [9], .dynText 0, .text [10], .text [],
       .dynView 1 (.cons (ofList [.text [1]])
                  (.cons (ofList [.el [2] [] (ofList [.dynText 1, .text [3]]),
                                  .dynView 0 (.cons (ofList [.text [4]])
                                             (.cons (ofList [.dynText 0, .el [5] [] .nil]) .nil)),
                                  .text [6]]) .nil)),
       .text [11], .text [12]]),
    .dynText 1]

def σ0 : Store := [1, 1]
def inst0 : InstList := (mountList σ0 view 0).1

/-- what the HTML parser hands to the client -/
def serverDoc : List Ch :=
  [.text [7, 8],
   .el [100] [([7], [5]), ([3], []), ([4], [49])]
     [.text [9], .cmt [116], .text [49], .cmt [], .text [10],
      .cmt [47],
        .el [2] [] [.cmt [116], .text [49], .cmt [], .text [3]],
        .cmt [47], .cmt [116], .text [49], .cmt [], .el [5] [] [], .cmt [47],
        .text [6],
      .cmt [47],
      .text [11, 12]],
   .cmt [116], .text [49], .cmt []]

/-- the document after hydration -/
def hydratedDoc : List Ch :=
  [.text [7, 8],
   .el [100] [([1], []), ([7], [5]), ([3], []), ([4], [49])]
     [.text [9], .text [49], .cmt [], .text [10],
      .cmt [35],
        .el [2] [([1], [])] [.text [49], .cmt [], .text [3]],
        .cmt [35], .text [49], .cmt [], .el [5] [([1], [])] [], .cmt [35],
        .text [6],
      .cmt [35],
      .text [11, 12]],
   .text [49], .cmt []]

/-- the visible tree -/
def visibleDoc : List Ch :=
  [.text [7, 8],
   .el [100] [([7], [5]), ([3], []), ([4], [49])]
     [.text [9, 49, 10], .el [2] [] [.text [49, 3]], .text [49], .el [5] [] [], .text [6, 11, 12]],
   .text [49]]

-- the hypotheses hold
example : PlainVDList view := by simp [view, ofList, PlainVDList, PlainVD, PlainVDAlts]
example : ShowFreeList inst0 ∧ StampFreeList inst0 := by decide
-- the server document (text merged: "7"+"8", "11"+"12"; the empty text is gone)
example : mergeCh (ssrOfList σ0 inst0).1 = serverDoc := by
  rw [ssrOfList_eqS, mergeCh_eq]; decide
-- hydration succeeds with exactly this result
example : hydrateView σ0 inst0 = .ok hydratedDoc := by
  rw [hydrateView_unfold]
  refine (C09_fuel_irrelevant 100 _ _ _ _ ?_ (by omega)).1   -- (`chSize` does not reduce: any fuel will do)
  rw [ssrOfList_eqS, mergeCh_eq]; decide
-- visible tree before = after = client render
example : mergeCh (visibleCh serverDoc) = visibleDoc ∧ mergeCh (visibleCh hydratedDoc) = visibleDoc
    ∧ visibleD (domList σ0 inst0) = visibleDoc := by
  rw [visibleD, mergeCh_eq, mergeCh_eq, mergeCh_eq, visibleCh_eqS, visibleCh_eqS, visD_eqS]; decide
-- the three elements, all unadopted before and adopted after, same order
example : elems serverDoc = [([100], false), ([2], false), ([5], false)]
    ∧ elems hydratedDoc = [([100], true), ([2], true), ([5], true)] := by decide
example : IslandFreeList inst0 := by decide
example : elemKinds serverDoc = [([100], .unadopted), ([2], .unadopted), ([5], .unadopted)]
    ∧ elemKinds hydratedDoc = [([100], .adopted), ([2], .adopted), ([5], .adopted)]
    ∧ keylessEls serverDoc = [] := by decide
-- four slash comments, four dynamic texts: all consumed
example : cmtCount [47] serverDoc = 4 ∧ cmtCount [116] serverDoc = 4 ∧ cmtCount [35] serverDoc = 0
    ∧ cmtCount [47] hydratedDoc = 0 ∧ cmtCount [116] hydratedDoc = 0 ∧ cmtCount [35] hydratedDoc = 4
    ∧ markerCount (ssrOfList σ0 inst0).2 = 4 ∧ dynTextCount (ssrOfList σ0 inst0).2 = 4 := by decide

/-! the hypotheses matter: WRONG server documents make hydration fail -/

/-- `serverDoc` with the closing slash comment of the outer dynamic view missing -/
def missingMarker : List Ch :=
  [.text [7, 8],
   .el [100] [([7], [5]), ([3], []), ([4], [49])]
     [.text [9], .cmt [116], .text [49], .cmt [], .text [10],
      .cmt [47],
        .el [2] [] [.cmt [116], .text [49], .cmt [], .text [3]],
        .cmt [47], .cmt [116], .text [49], .cmt [], .el [5] [] [], .cmt [47],
        .text [6],
      .text [11, 12]],
   .cmt [116], .text [49], .cmt []]

example : hydrateKids 200 missingMarker (ssrOfList σ0 inst0).2 = .error .markerNotFound := by decide
-- a server document rendered under a DIFFERENT state (sig0 = 0: inner dynamic view shows "4")
example : hydrateKids 200 (mA [] (ssrOfListS [0, 1] (mountList [0, 1] view 0).1).1) (ssrOfList σ0 inst0).2
    = .error .textNotFound := by decide
-- a server document without the last dynamic text's `t` comment
example : hydrateKids 200 (serverDoc.take 2 ++ [.text [49]]) (ssrOfList σ0 inst0).2
    = .error .textNotFound := by decide
-- an element missing on the server
example : hydrateKids 200 [.text [7, 8], .cmt [116], .text [49], .cmt []] (ssrOfList σ0 inst0).2
    = .error .shape := by decide
-- too little fuel is reported as `.shape`
example : hydrateKids 25 serverDoc (ssrOfList σ0 inst0).2 = .ok hydratedDoc
    ∧ hydrateKids 24 serverDoc (ssrOfList σ0 inst0).2 = .error .shape := by decide

/-- an EMPTY dynamic text: the server renders `t`-comment, (no text node), empty comment; the hydrating
build replaces the empty comment — the next sibling of the `t` comment — by the new text node.  (Cannot
arise from `dynTextStr`, but `adoptText` and the theorems cover it.) -/
example : hydrateKids 9 (mergeCh [.text [7], .cmt [116], .text [], .cmt [], .text [8]])
    [.textStatic, .textDynamic [], .textStatic] = .ok [.text [7], .text [], .text [8]] := by
  rw [mergeCh_eq]; decide

/-- **The stamp hypothesis is needed.** A `Show`-free view whose element renders the attribute `([1], [])`
first looks adopted to the model, is skipped, and hydration reports `.shape`. -/
theorem C09_stamp_hypothesis_needed : ¬ C09_hydrate_total_showFree_only := by
  intro h
  have ⟨ch', h'⟩ := h [] (.cons (.el 0 [2] [([1], .static [])] .nil) .nil) (by decide)
  have hbad : hydrateKids 10 [.el [2] [([1], [])] []] [.el [2] [([1], [])] []] = .error .shape := by decide
  rw [hydrateView_unfold, ssrOfList_eqS, mergeCh_eq] at h'
  have h10 := (C09_fuel_irrelevant _ 10 _ _ _ h'
    (by simp [ssrOfListS, ssrOfS, evalAttrs, mA, tx, pendSize, chSize])).1
  have : hydrateKids 10 [.el [2] [([1], [])] []] [.el [2] [([1], [])] []] = .ok ch' := by
    simpa [ssrOfListS, ssrOfS, evalAttrs, mA, tx] using h10
  rw [hbad] at this; cases this

/-- **The name `[2]` is reserved as well.** A keyed element that itself renders the attribute `([2], [])`
first looks keyless to the model, is skipped, and hydration reports `.shape`. -/
theorem C09_keyless_name_reserved :
    ¬ ∀ (σ : Store) (inst : InstList), ShowFreeList inst → (∃ ch', hydrateView σ inst = .ok ch') := by
  intro h
  have ⟨ch', h'⟩ := h [] (.cons (.el 0 [3] [([2], .static [])] .nil) .nil) (by decide)
  have hbad : hydrateKids 10 [.el [3] [([2], [])] []] [.el [3] [([2], [])] []] = .error .shape := by decide
  rw [hydrateView_unfold, ssrOfList_eqS, mergeCh_eq] at h'
  have h10 := (C09_fuel_irrelevant _ 10 _ _ _ h'
    (by simp [ssrOfListS, ssrOfS, evalAttrs, mA, tx, pendSize, chSize])).1
  have : hydrateKids 10 [.el [3] [([2], [])] []] [.el [3] [([2], [])] []] = .ok ch' := by
    simpa [ssrOfListS, ssrOfS, evalAttrs, mA, tx] using h10
  rw [hbad] at this; cases this

/-! ### An island (`NoHydrate`) in front of hydrated dynamic nodes of the same parent

`<t100> "8" NoHydrate{ <t2 a3={sig0}>"9"{sig1}</t2> {sig0} dyn(sig1){ ["1"] | [<t4></t4> {sig1}] }
Show(sig0){ "7" } } {sig1} dyn(sig0){ ["5"] | [<t6>{sig0}</t6>] } </t100>`: the island contains an element, a
dynamic text, a dynamic view and a `Show`; it is followed, in the same parent, by a hydrated dynamic text
and a hydrated dynamic view.  The client must find ITS `t` comment and ITS slash comments — the island has
none. -/

def viewI : VDList :=
  ofList [.el [100] [] (ofList
    [.text [8],
     .noHydrate (ofList
       [.el [2] [([3], .dyn 0)] (ofList [.text [9], .dynText 1]),
        .dynText 0,
        .dynView 1 (.cons (ofList [.text [1]]) (.cons (ofList [.el [4] [] .nil, .dynText 1]) .nil)),
        .show 0 (ofList [.text [7]])]),
     .dynText 1,
     .dynView 0 (.cons (ofList [.text [5]]) (.cons (ofList [.el [6] [] (ofList [.dynText 0])]) .nil))])]

def σI : Store := [1, 1]
def instI : InstList := (mountList σI viewI 0).1

/-- what the HTML parser hands to the client: the island is `<t2 [2] a3="1">"91"</t2> "1" <t4 [2]></t4> "17"`
(keyless elements, plain text, no comments; its last text is NOT merged with the hydrated dynamic text,
which starts with its `t` comment) -/
def serverDocI : List Ch :=
  [.el [100] []
    [.text [8],
     .el [2] [([2], []), ([3], [49])] [.text [9, 49]],
     .text [49],
     .el [4] [([2], [])] [],
     .text [49, 7],
     .cmt [116], .text [49], .cmt [],
     .cmt [47],
       .el [6] [] [.cmt [116], .text [49], .cmt []],
     .cmt [47]]]

/-- the client appends nothing for the island -/
def pendingI : List Pend :=
  [.el [100] [] [.textStatic, .textDynamic [49], .marker, .el [6] [] [.textDynamic [49]], .marker]]

/-- after hydration: the island is untouched, everything else adopted -/
def hydratedDocI : List Ch :=
  [.el [100] [([1], [])]
    [.text [8],
     .el [2] [([2], []), ([3], [49])] [.text [9, 49]],
     .text [49],
     .el [4] [([2], [])] [],
     .text [49, 7],
     .text [49], .cmt [],
     .cmt [35],
       .el [6] [([1], [])] [.text [49], .cmt []],
     .cmt [35]]]

/-- the visible tree (`visibleCh` keeps the keyless stamp) -/
def visibleDocI : List Ch :=
  [.el [100] []
    [.text [8], .el [2] [([2], []), ([3], [49])] [.text [9, 49]], .text [49], .el [4] [([2], [])] [],
     .text [49, 7, 49], .el [6] [] [.text [49]]]]

/-- what the client renders for the same view and store -/
def clientDocI : List Ch :=
  [.el [100] []
    [.text [8], .el [2] [([3], [49])] [.text [9, 49]], .text [49], .el [4] [] [],
     .text [49, 7, 49], .el [6] [] [.text [49]]]]

-- the hypotheses hold (`Show` inside the island is fine); the view is not island-free
example : PlainVDList viewI := by
  simp [viewI, ofList, PlainVDList, PlainVD, PlainVDAlts, StampFreeVDList, StampFreeVD, StampFreeVDAlts]
example : ShowFreeList instI ∧ StampFreeList instI ∧ ¬ IslandFreeList instI := by decide
example : mergeCh (ssrOfList σI instI).1 = serverDocI ∧ (ssrOfList σI instI).2 = pendingI := by
  rw [ssrOfList_eqS, mergeCh_eq]; decide
-- hydration succeeds with exactly this result
example : hydrateView σI instI = .ok hydratedDocI := by
  rw [hydrateView_unfold]
  refine (C09_fuel_irrelevant 100 _ _ _ _ ?_ (by omega)).1
  rw [ssrOfList_eqS, mergeCh_eq]; decide
-- visible tree before = after; with the keyless stamps erased it is the client render
example : mergeCh (visibleCh serverDocI) = visibleDocI ∧ mergeCh (visibleCh hydratedDocI) = visibleDocI
    ∧ eraseKeyless visibleDocI = clientDocI ∧ visibleD (domList σI instI) = clientDocI := by
  rw [visibleD, mergeCh_eq, mergeCh_eq, mergeCh_eq, visibleCh_eqS, visibleCh_eqS, visD_eqS]; decide
-- four elements: the two keyed ones are adopted, the two keyless ones are the same subtrees as before
example : elemKinds serverDocI = [([100], .unadopted), ([2], .keyless), ([4], .keyless), ([6], .unadopted)]
    ∧ elemKinds hydratedDocI = [([100], .adopted), ([2], .keyless), ([4], .keyless), ([6], .adopted)]
    ∧ keylessEls hydratedDocI = keylessEls serverDocI
    ∧ keylessEls serverDocI = [.el [2] [([2], []), ([3], [49])] [.text [9, 49]], .el [4] [([2], [])] []] := by
  decide
-- the two slash comments and the two `t` comments of the HYDRATED part: all consumed; the pending list
-- has two markers and two dynamic texts (nothing for the three dynamic nodes inside the island)
example : cmtCount [47] serverDocI = 2 ∧ cmtCount [116] serverDocI = 2 ∧ cmtCount [35] serverDocI = 0
    ∧ cmtCount [47] hydratedDocI = 0 ∧ cmtCount [116] hydratedDocI = 0 ∧ cmtCount [35] hydratedDocI = 2
    ∧ markerCount (ssrOfList σI instI).2 = 2 ∧ dynTextCount (ssrOfList σI instI).2 = 2 := by decide

/-- the same view with `frag` for `NoHydrate` and without the `Show`: what a server would render if it
rendered the island's children hydratable (keys, markers) -/
def viewIfrag : VDList :=
  ofList [.el [100] [] (ofList
    [.text [8],
     .frag (ofList
       [.el [2] [([3], .dyn 0)] (ofList [.text [9], .dynText 1]),
        .dynText 0,
        .dynView 1 (.cons (ofList [.text [1]]) (.cons (ofList [.el [4] [] .nil, .dynText 1]) .nil))]),
     .dynText 1,
     .dynView 0 (.cons (ofList [.text [5]]) (.cons (ofList [.el [6] [] (ofList [.dynText 0])]) .nil))])]

-- the island matters: on THAT server document the client (which appends nothing for the island) adopts the
-- island's `t` comment and slash comment for its own dynamic text / view and then fails on the element
example : hydrateKids 200 (mA [] (ssrOfListS σI (mountList σI viewIfrag 0).1).1) (ssrOfList σI instI).2
    = .error .shape := by decide

end Example

end SycVerif.Hydrate
