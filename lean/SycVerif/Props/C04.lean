/-
C04 (ownership / disposal): "Disposing a scope destroys everything created inside it: every
registered cleanup callback runs exactly once and untracked, destroyed signals report not alive, and
no signal retains subscriptions of destroyed computations; nothing else is freed."

Cleanup callbacks are arbitrary user closures, so the structural theorem is stated for arenas whose
cleanup closures *in the subtree being disposed* are inert (`InertBody`: only `readU`, `read`,
`track` statements; the last two would write to `r.tracker` if one were installed — that the theorem
holds for them is the formal content of "cleanups run untracked").

Definitions used (all in `SycVerif.Lemmas.Dispose`):
* `Owned r root j`       — inductive ownership subtree;
* `OwnershipOk r`        — ownership invariant (`parent`, `nodup`, `lt`, `listed`);
* `eraseIds S n`         — `n` with the ids of `S` filtered out of `dependents` / `dependencies`
                           (`eraseIds_fields`: nothing else changes);
* `cleanupsOf r j`       — the cleanups registered on node `j`;
* `Event.cleanupTag`     — `some tag` for `Event.cleanup tag obs`, `none` for `run` events.
-/
import SycVerif.Lemmas.Dispose
import SycVerif.Spec.Reactive
namespace SycVerif.Reactive

/-! ### item 2: inert cleanups -/

/-- Running inert cleanup closures with no tracker installed changes nothing in the root except
appending one `Event.cleanup tag obs` per closure, in registration order, to the trace; the tracker
is still `none` afterwards. (If a closure reads a dead or valueless handle the run is `.error`, as
the real code panics; hence the "if it returns `.ok`" form.) -/
theorem runCleanups_inert (fuel : Nat) (r r' : Root) (cls : List Closure)
    (hin : ∀ cl ∈ cls, InertBody cl.body) (ht : r.tracker = none)
    (hx : runCleanups fuel r cls = .ok r') :
    ∃ evs, r' = { r with trace := r.trace ++ evs } ∧
      evs.map Event.cleanupTag = cls.map (fun cl => some cl.tag) ∧ r'.tracker = none := by
  obtain ⟨evs, e, ht'⟩ := runCleanups_inert_aux fuel cls hin ht hx
  exact ⟨evs, e, ht', by rw [e]; exact ht⟩

/-- the class of the task statement (`readU` only) is contained in `InertBody` -/
theorem InertBody.of_readU : ∀ {b : Body}, ReadUBody b → InertBody b
  | .nil, _ => trivial
  | .cons _ _, h => ⟨InertStmt.of_readU h.1, InertBody.of_readU h.2⟩

/-! ### item 3: `disposeNode` -/

/-- What disposing `id` in `r` does, in terms of the list `S` of removed nodes and the list `evs`
of appended trace events. -/
structure DisposeOutcome (r : Root) (id : Id) (r' : Root) (S : List Id) (evs : List Event) : Prop where
  /-- `S` lists exactly the live nodes of the ownership subtree of `id` … -/
  mem_iff : ∀ j, j ∈ S ↔ Owned r id j ∧ r.alive j = true
  /-- … each exactly once -/
  nodup : S.Nodup
  /-- (a) exactly the ownership subtree dies, nothing else is freed -/
  dead_iff : ∀ j, r'.get? j = none ↔ r.get? j = none ∨ Owned r id j
  /-- (b) a surviving node is unchanged except that the ids of the subtree are filtered out of its
  `dependents` and `dependencies` (`eraseIds_fields`); in particular the `children` list of the
  parent of `id` still mentions the dead id, as in the real code -/
  survivor : ∀ j n, r.get? j = some n → ¬ Owned r id j → r'.get? j = some (eraseIds S n)
  /-- (b) no surviving node retains a destroyed subscriber or a destroyed dependency -/
  no_stale : ∀ j n', r'.get? j = some n' →
    (∀ d ∈ n'.dependents, ¬ Owned r id d) ∧ (∀ d ∈ n'.dependencies, ¬ Owned r id d)
  /-- (c) the invariants are kept -/
  noDangling : NoDangling r'
  edgesSym : EdgesSym r'
  ownershipOk : OwnershipOk r'
  /-- (d) the trace grows by `evs`: one cleanup event per cleanup registered in the subtree, in the
  order parent's cleanups, then child by child (pre-order) -/
  trace : r'.trace = r.trace ++ evs
  tags : evs.map Event.cleanupTag = (S.flatMap (cleanupsOf r)).map (fun cl => some cl.tag)
  /-- (d) tracker (although the cleanups may contain `read` / `track` statements), current node,
  batching flag, queue, … are those of `r` -/
  frame : r'.tracker = r.tracker ∧ r'.current = r.current ∧ r'.batching = r.batching ∧
    r'.queue = r.queue ∧ r'.rootNode = r.rootNode ∧ r'.nextTag = r.nextTag ∧
    r'.nodes.size = r.nodes.size
  /-- (e) -/
  liveCount : r'.liveCount = r.liveCount - S.length

/-- assembling the outcome from the helper-level specification -/
theorem DisposeOutcome.of_disposed {r r' : Root} {id : Id} {S : List Id} {evs : List Event}
    (ho : OwnershipOk r) (hnd : NoDangling r) (hs : EdgesSym r) (D : Disposed r [id] r' S evs) :
    DisposeOutcome r id r' S evs := by
  have hmem : ∀ j, j ∈ S ↔ Owned r id j ∧ r.alive j = true := by
    intro j; rw [D.forest.mem_iff]; simp
  have hdead : ∀ j, r'.get? j = none ↔ r.get? j = none ∨ Owned r id j := by
    intro j
    rw [D.removed j]
    by_cases hjS : j ∈ S
    · simp [hjS, ((hmem j).1 hjS).1]
    · cases hj : r.get? j with
      | none => simp [hjS]
      | some n =>
        have : ¬ Owned r id j := fun h => hjS ((hmem j).2 ⟨h, Root.alive_iff.2 ⟨n, hj⟩⟩)
        simp [hjS, this]
  refine ⟨hmem, D.nodup, hdead, ?_, ?_, D.removed.preserves.1 hnd, D.removed.preserves.2 hs,
    D.removed.ownershipOk ho, D.frame.trace, D.tags,
    ⟨D.frame.tracker, D.frame.current, D.frame.batching, D.frame.queue, D.frame.rootNode,
      D.frame.nextTag, D.frame.size⟩, ?_⟩
  · intro j n hj hno
    have : j ∉ S := fun h => hno ((hmem j).1 h).1
    rw [D.removed j, if_neg this, hj]; rfl
  · intro j n' hn'
    obtain ⟨_, n, hn, rfl⟩ := D.removed.get?_some hn'
    obtain ⟨h1, h2⟩ := hnd j n hn
    constructor <;> intro d hd hown <;> simp [eraseIds, List.mem_filter] at hd
    · exact hd.2 ((hmem d).2 ⟨hown, h1 d hd.1⟩)
    · exact hd.2 ((hmem d).2 ⟨hown, h2 d hd.1⟩)
  · have := D.count; omega

/-- **C04, main theorem.** In an arena satisfying the ownership and edge invariants, if all cleanups
registered in the ownership subtree of `id` are inert, then a successful `disposeNode` (any fuel: a
run that returns `.ok` did not run out of fuel) removes exactly the live nodes of the subtree, erases
them from every surviving edge list, keeps all invariants, appends exactly the subtree's cleanup
events to the trace, and leaves the rest of the root alone. See `disposeNode_total` for the
existence of the successful run. -/
theorem disposeNode_spec {fuel : Nat} {r r' : Root} {id : Id}
    (ho : OwnershipOk r) (hnd : NoDangling r) (hs : EdgesSym r)
    (hin : ∀ j n, Owned r id j → r.get? j = some n → ∀ cl ∈ n.cleanups, InertBody cl.body)
    (hx : disposeNode fuel r id = .ok r') :
    ∃ S evs, DisposeOutcome r id r' S evs := by
  obtain ⟨S, evs, D⟩ := (dispose_all fuel).1 r id r' ⟨hnd, hs, ho.toTreeOk⟩
    (by intro c hc; simp only [List.mem_singleton] at hc; subst hc; exact hin) hx
  exact ⟨S, evs, .of_disposed ho hnd hs D⟩

/-- (d) as a multiset statement: for *any* duplicate-free enumeration `L` of the live owned nodes,
the tags of the appended events are a permutation of the tags of the cleanups registered on the
nodes of `L` — every registered cleanup ran exactly once, and nothing else ran. -/
theorem DisposeOutcome.tags_perm {r r' : Root} {id : Id} {S : List Id} {evs : List Event}
    (D : DisposeOutcome r id r' S evs) {L : List Id} (hL : L.Nodup)
    (hmem : ∀ j, j ∈ L ↔ Owned r id j ∧ r.alive j = true) :
    (evs.map Event.cleanupTag).Perm ((L.flatMap (cleanupsOf r)).map (fun cl => some cl.tag)) := by
  rw [D.tags]
  apply List.Perm.map
  apply List.Perm.flatMap_right
  rw [List.perm_ext_iff_of_nodup D.nodup hL]
  intro j; rw [D.mem_iff, hmem]

/-- all appended events are cleanup events (no computation body ran) -/
theorem DisposeOutcome.all_cleanup {r r' : Root} {id : Id} {S : List Id} {evs : List Event}
    (D : DisposeOutcome r id r' S evs) : ∀ ev ∈ evs, ∃ tag obs, ev = .cleanup tag obs := by
  intro ev hev
  have : Event.cleanupTag ev ∈ evs.map Event.cleanupTag := List.mem_map_of_mem hev
  rw [D.tags, List.mem_map] at this
  obtain ⟨cl, _, e⟩ := this
  cases ev with
  | run => simp [Event.cleanupTag] at e
  | cleanup t o => exact ⟨t, o, rfl⟩

/-- destroyed nodes report not alive; the others keep their liveness -/
theorem DisposeOutcome.alive_eq {r r' : Root} {id : Id} {S : List Id} {evs : List Event}
    (D : DisposeOutcome r id r' S evs) (j : Id) :
    r'.alive j = true ↔ r.alive j = true ∧ ¬ Owned r id j := by
  have := D.dead_iff j
  simp only [Root.alive, Option.isSome_iff_ne_none, ne_eq]
  rw [this]; simp

/-! ### item 3, existence of the successful run -/

/-- every cleanup registered in the ownership subtree of `id` only names handles of kind
signal/memo that are alive, hold a value, and lie outside the subtree (a cleanup that reads a node
of the subtree that has already been destroyed panics "signal was disposed" in the real code, and
is `.error .disposed` in the model) -/
def CleanupsReadable (r : Root) (id : Id) : Prop :=
  ∀ j n, Owned r id j → r.get? j = some n → ∀ cl ∈ n.cleanups,
    HandlesOk cl.env (fun x => HasValue r x ∧ ¬ Owned r id x) cl.body

/-- explicit fuel: with `K` bounding the `children` lists and `W` the fuel of the `cleanups` lists
(`Bounds`; `bounds_exist` provides such `K`, `W`), fuel `W + 3 + (size - id) * (K + 3)` suffices -/
theorem disposeNode_total_explicit {r : Root} {id : Id} {K W : Nat}
    (ho : OwnershipOk r) (hnd : NoDangling r) (hs : EdgesSym r)
    (hin : ∀ j n, Owned r id j → r.get? j = some n → ∀ cl ∈ n.cleanups, InertBody cl.body)
    (hread : CleanupsReadable r id) (hb : Bounds r K W) (fuel : Nat)
    (hf : needFuel K W (r.nodes.size - id) ≤ fuel) :
    ∃ r' S evs, disposeNode fuel r id = .ok r' ∧ DisposeOutcome r id r' S evs := by
  obtain ⟨r', hx⟩ := tNode_all K W (r.nodes.size - id) r id (Nat.le_refl _) ⟨hnd, hs, ho.toTreeOk⟩
    (by intro c hc; simp only [List.mem_singleton] at hc; subst hc; exact hin)
    (by
      intro c hc j n hj hn cl hcl
      simp only [List.mem_singleton] at hc; subst hc
      exact (hread j n hj hn cl hcl).mono fun x hx => ⟨hx.1, fun c' hc' => by
        simp only [List.mem_singleton] at hc'; subst hc'; exact hx.2⟩)
    hb fuel hf
  obtain ⟨S, evs, D⟩ := disposeNode_spec ho hnd hs hin hx
  exact ⟨r', S, evs, hx, D⟩

/-- **C04, total form.** For sufficiently large fuel the disposal succeeds and has the outcome of
`disposeNode_spec`. -/
theorem disposeNode_total {r : Root} {id : Id}
    (ho : OwnershipOk r) (hnd : NoDangling r) (hs : EdgesSym r)
    (hin : ∀ j n, Owned r id j → r.get? j = some n → ∀ cl ∈ n.cleanups, InertBody cl.body)
    (hread : CleanupsReadable r id) :
    ∃ F, ∀ fuel, F ≤ fuel → ∃ r' S evs, disposeNode fuel r id = .ok r' ∧ DisposeOutcome r id r' S evs :=
  ⟨_, fun fuel hf => disposeNode_total_explicit ho hnd hs hin hread (bounds_exist r) fuel hf⟩

/-- the special case of a subtree without cleanups: no hypothesis on closures at all, and nothing is
appended to the trace -/
theorem disposeNode_total_noCleanups {r : Root} {id : Id}
    (ho : OwnershipOk r) (hnd : NoDangling r) (hs : EdgesSym r)
    (hno : ∀ j n, Owned r id j → r.get? j = some n → n.cleanups = []) :
    ∃ F, ∀ fuel, F ≤ fuel → ∃ r' S, disposeNode fuel r id = .ok r' ∧ DisposeOutcome r id r' S [] := by
  obtain ⟨F, hF⟩ := disposeNode_total ho hnd hs
    (fun j n hj hn cl hcl => by rw [hno j n hj hn] at hcl; simp at hcl)
    (fun j n hj hn cl hcl => by rw [hno j n hj hn] at hcl; simp at hcl)
  refine ⟨F, fun fuel hf => ?_⟩
  obtain ⟨r', S, evs, hx, D⟩ := hF fuel hf
  have : evs = [] := by
    have ht := D.tags
    have : S.flatMap (cleanupsOf r) = [] := by
      rw [List.flatMap_eq_nil_iff]
      intro j hj
      obtain ⟨hown, ha⟩ := (D.mem_iff j).1 hj
      obtain ⟨n, hn⟩ := Root.alive_iff.1 ha
      simp [cleanupsOf, hn, hno j n hown hn]
    rw [this] at ht
    simpa using ht
  subst this
  exact ⟨r', S, hx, D⟩

/-! ### item 4: `disposeChildren` -/

/-- What `disposeChildren r id` does on a live node `n`: everything strictly below `id` dies, `id`
survives with `children = []`, `cleanups = []`, `context = []`. -/
structure DisposeChildrenOutcome (r : Root) (id : Id) (n : Node) (r' : Root) (S : List Id)
    (evs : List Event) : Prop where
  /-- `S` lists exactly the live nodes strictly below `id`, each once -/
  mem_iff : ∀ j, j ∈ S ↔ Owned r id j ∧ j ≠ id ∧ r.alive j = true
  nodup : S.Nodup
  /-- (a) -/
  dead_iff : ∀ j, r'.get? j = none ↔ r.get? j = none ∨ (Owned r id j ∧ j ≠ id)
  /-- the node itself survives, cleared (`cleared n = { n with cleanups := [], children := [],
  context := [] }`) -/
  self : r'.get? id = some (cleared (eraseIds S n))
  /-- (b) -/
  survivor : ∀ j m, r.get? j = some m → ¬ Owned r id j → r'.get? j = some (eraseIds S m)
  no_stale : ∀ j n', r'.get? j = some n' →
    (∀ d ∈ n'.dependents, ¬ (Owned r id d ∧ d ≠ id)) ∧ (∀ d ∈ n'.dependencies, ¬ (Owned r id d ∧ d ≠ id))
  /-- (c) -/
  noDangling : NoDangling r'
  edgesSym : EdgesSym r'
  ownershipOk : OwnershipOk r'
  /-- (d) the node's own cleanups first, then the subtrees child by child -/
  trace : r'.trace = r.trace ++ evs
  tags : evs.map Event.cleanupTag =
    (n.cleanups ++ S.flatMap (cleanupsOf r)).map (fun cl => some cl.tag)
  frame : r'.tracker = r.tracker ∧ r'.current = r.current ∧ r'.batching = r.batching ∧
    r'.queue = r.queue ∧ r'.rootNode = r.rootNode ∧ r'.nextTag = r.nextTag ∧
    r'.nodes.size = r.nodes.size
  /-- (e) -/
  liveCount : r'.liveCount = r.liveCount - S.length

theorem cleared_fields (n : Node) :
    (cleared n).children = [] ∧ (cleared n).cleanups = [] ∧ (cleared n).context = [] ∧
    (cleared n).value = n.value ∧ (cleared n).callback = n.callback ∧ (cleared n).parent = n.parent ∧
    (cleared n).dependents = n.dependents ∧ (cleared n).dependencies = n.dependencies ∧
    (cleared n).dirty = n.dirty ∧ (cleared n).mark = n.mark :=
  ⟨rfl, rfl, rfl, rfl, rfl, rfl, rfl, rfl, rfl, rfl⟩

/-- **C04, corollary for `dispose_children`** (what `run_node_update` uses to destroy whatever the
previous run of a memo/effect created). -/
theorem disposeChildren_spec {fuel : Nat} {r r' : Root} {id : Id} {n : Node}
    (ho : OwnershipOk r) (hnd : NoDangling r) (hs : EdgesSym r) (hn : r.get? id = some n)
    (hin : ∀ j m, Owned r id j → r.get? j = some m → ∀ cl ∈ m.cleanups, InertBody cl.body)
    (hx : disposeChildren fuel r id = .ok r') :
    ∃ S evs, DisposeChildrenOutcome r id n r' S evs := by
  obtain ⟨S, evs, D⟩ := (dispose_all fuel).2.2 r id n r' ⟨hnd, hs, ho.toTreeOk⟩
    (by intro c hc; simp only [List.mem_singleton] at hc; subst hc; exact hin) hn hx
  have hidS : id ∉ S := fun h => Nat.lt_irrefl _ (D.gt id h)
  have hmem : ∀ j, j ∈ S ↔ Owned r id j ∧ j ≠ id ∧ r.alive j = true := by
    intro j
    rw [D.forest.mem_iff]
    constructor
    · rintro ⟨⟨c, hc, hoc⟩, ha⟩
      have hca := hoc.root_alive ha
      have hj : j ∈ S := (D.forest.mem_iff j).2 ⟨⟨c, hc, hoc⟩, ha⟩
      exact ⟨Owned.trans (.child .root hn hc hca) hoc, fun e => hidS (e ▸ hj), ha⟩
    · rintro ⟨ho, hne, ha⟩
      rcases ho.head with rfl | ⟨c, m, hm, hc, _, hoc⟩
      · exact absurd rfl hne
      · rw [hn] at hm; cases hm
        exact ⟨⟨c, hc, hoc⟩, ha⟩
  have hself : r'.get? id = some (cleared (eraseIds S n)) := by rw [D.get]; simp [hidS]
  have hdead : ∀ j, r'.get? j = none ↔ r.get? j = none ∨ (Owned r id j ∧ j ≠ id) := by
    intro j
    rw [D.get j]
    by_cases hjS : j ∈ S
    · have := (hmem j).1 hjS
      simp [hjS, this.1, this.2.1]
    · by_cases hj : j = id
      · subst hj; simp [hjS, hn]
      · cases hjn : r.get? j with
        | none => simp [hjS, hj]
        | some m =>
          have : ¬ Owned r id j := fun h => hjS ((hmem j).2 ⟨h, hj, Root.alive_iff.2 ⟨m, hjn⟩⟩)
          simp [hjS, hj, this]
  have hsurv : ∀ j m', r'.get? j = some m' → j ∉ S ∧ ∃ m, r.get? j = some m ∧
      m'.dependents = (eraseIds S m).dependents ∧ m'.dependencies = (eraseIds S m).dependencies ∧
      m'.parent = m.parent ∧ m'.children = (if j = id then [] else m.children) := by
    intro j m' hm'
    rw [D.get] at hm'
    split at hm'
    · cases hm'
    · rename_i hjS
      split at hm'
      · rename_i hj; subst hj; cases hm'
        exact ⟨hjS, n, hn, rfl, rfl, rfl, by simp [cleared]⟩
      · rename_i hj
        rw [Option.map_eq_some_iff] at hm'
        obtain ⟨m, hm, rfl⟩ := hm'
        exact ⟨hjS, m, hm, rfl, rfl, rfl, by simp [hj, eraseIds]⟩
  have hshr : Shrinks r r' := by
    intro j m' hm'
    rw [D.get] at hm'
    split at hm'
    · cases hm'
    · split at hm'
      · rename_i hj; subst hj; cases hm'
        exact ⟨n, hn, by simp [cleared], rfl, by simp [cleared]⟩
      · rw [Option.map_eq_some_iff] at hm'
        obtain ⟨m, hm, rfl⟩ := hm'
        exact ⟨m, hm, by simp [eraseIds], rfl, fun _ h => h⟩
  refine ⟨S, evs, hmem, D.nodup, hdead, hself, ?_, ?_, (D.edges hn).1 hnd, (D.edges hn).2 hs,
    ⟨hshr.treeOk ho.toTreeOk, ?_⟩, D.frame.trace, D.tags,
    ⟨D.frame.tracker, D.frame.current, D.frame.batching, D.frame.queue, D.frame.rootNode,
      D.frame.nextTag, D.frame.size⟩, ?_⟩
  · intro j m hj hno
    have h1 : j ∉ S := fun h => hno ((hmem j).1 h).1
    have h2 : j ≠ id := fun e => hno (e ▸ .root)
    rw [D.get j, if_neg h1, if_neg h2, hj]; rfl
  · intro j m' hm'
    obtain ⟨_, m, hm, e1, e2, _, _⟩ := hsurv j m' hm'
    obtain ⟨h1, h2⟩ := hnd j m hm
    rw [e1, e2]
    constructor <;> intro d hd hown <;> simp [eraseIds, List.mem_filter] at hd
    · exact hd.2 ((hmem d).2 ⟨hown.1, hown.2, h1 d hd.1⟩)
    · exact hd.2 ((hmem d).2 ⟨hown.1, hown.2, h2 d hd.1⟩)
  · -- `listed`
    intro j m' p np' hm' hp hnp'
    obtain ⟨hjS, m, hm, _, _, ep, _⟩ := hsurv j m' hm'
    obtain ⟨_, np, hnp, _, _, _, ec⟩ := hsurv p np' hnp'
    have hl := ho.listed j m p np hm (ep ▸ hp) hnp
    rw [ec]
    split
    · rename_i hpid; subst hpid
      rw [hn] at hnp; cases hnp
      exact absurd (D.forest.root_mem j hl (Root.alive_iff.2 ⟨m, hm⟩)) hjS
    · exact hl
  · have := D.count; omega

/-! ### item 5: idempotence -/

/-- whatever the cleanups do, after a successful `disposeNode` the node is dead -/
theorem disposeNode_dead_after {fuel : Nat} {r r' : Root} {id : Id}
    (hx : disposeNode fuel r id = .ok r') : r'.get? id = none := by
  cases fuel with
  | zero => simp [disposeNode] at hx
  | succ fuel =>
    simp only [disposeNode] at hx
    split at hx
    · cases hx
    · split at hx
      · cases hx
      · rename_i r2 _
        cases hx
        cases h : r2.get? id with
        | none => rw [removeNode_dead h, h]
        | some this => simp [removeNode_get?_raw h]

/-- disposing a dead id does nothing and cannot fail -/
theorem dispose_dead (fuel : Nat) (r : Root) (id : Id) (h : r.get? id = none) :
    disposeNode (fuel + 2) r id = .ok r := by
  simp [disposeNode, disposeChildren, disposeRest, unsubscribe, h, removeNode]

/-- **disposing twice equals disposing once** — for every arena and arbitrary cleanup closures -/
theorem dispose_idempotent {fuel fuel' : Nat} {r r' : Root} {id : Id}
    (hx : disposeNode fuel r id = .ok r') : disposeNode (fuel' + 2) r' id = .ok r' :=
  dispose_dead fuel' r' id (disposeNode_dead_after hx)

/-- the same through the DSL: `h.dispose(); h.dispose()` behaves as `h.dispose()` -/
theorem dispose_twice_stmt {fuel : Nat} {r r' : Root} {c c' : Ctx} {h : Nat}
    (hx : execStmt (fuel + 3) r c (.dispose h) = .ok (r', c')) :
    execStmt (fuel + 3) r' c' (.dispose h) = .ok (r', c') := by
  simp only [execStmt] at hx ⊢
  split at hx
  · cases hx
  · rename_i hd hl
    split at hx
    · cases hx
    · rename_i r2 h2
      cases hx
      simp [hl, dispose_idempotent (fuel' := fuel) h2]

/-! ### item 6: non-vacuity -/

/-- executable check of a per-node property -/
def allNodes (r : Root) (p : Id → Node → Bool) : Bool :=
  (List.range r.nodes.size).all fun i => match r.get? i with
    | some n => p i n
    | none => true

theorem allNodes_spec {r : Root} {p : Id → Node → Bool} (h : allNodes r p = true) :
    ∀ i n, r.get? i = some n → p i n = true := by
  intro i n hn
  have := List.all_eq_true.1 h i (List.mem_range.2 (Root.lt_size_of_get? hn))
  simpa [hn] using this

def inertB : Body → Bool
  | .nil => true
  | .cons (.readU _) rest => inertB rest
  | .cons (.read _) rest => inertB rest
  | .cons (.track _) rest => inertB rest
  | .cons _ _ => false

theorem inertB_spec : ∀ {b : Body}, inertB b = true → InertBody b
  | .nil, _ => trivial
  | .cons s rest, h => by
    cases s <;> simp only [inertB, Bool.false_eq_true] at h
    all_goals exact ⟨trivial, inertB_spec h⟩

/-- executable version of `OwnershipOk ∧ NoDangling ∧ EdgesSym ∧ all cleanups inert` -/
def checkArena (r : Root) : Bool :=
  allNodes r (fun i n =>
    n.children.all (fun c => (match r.get? c with | some m => m.parent == some i | none => true) && decide (i < c))
    && decide n.children.Nodup
    && (match n.parent with
        | none => true
        | some p => match r.get? p with
          | none => true
          | some np => np.children.contains i)
    && n.dependents.all r.alive && n.dependencies.all r.alive
    && n.cleanups.all (fun cl => inertB cl.body)
    && allNodes r (fun b nb => n.dependents.count b == nb.dependencies.count i))

theorem checkArena_spec {r : Root} (h : checkArena r = true) :
    OwnershipOk r ∧ NoDangling r ∧ EdgesSym r ∧
      ∀ j n, r.get? j = some n → ∀ cl ∈ n.cleanups, InertBody cl.body := by
  have key := allNodes_spec h
  simp only [Bool.and_eq_true, List.all_eq_true, decide_eq_true_eq] at key
  refine ⟨⟨⟨?_, ?_, ?_⟩, ?_⟩, ?_, ?_, ?_⟩
  · intro i n hn c hc m hm
    obtain ⟨⟨⟨⟨⟨⟨hA, _⟩, _⟩, _⟩, _⟩, _⟩, _⟩ := key i n hn
    have := (hA c hc).1
    simpa [hm] using this
  · intro i n hn
    obtain ⟨⟨⟨⟨⟨⟨_, hB⟩, _⟩, _⟩, _⟩, _⟩, _⟩ := key i n hn
    exact hB
  · intro i n hn c hc
    obtain ⟨⟨⟨⟨⟨⟨hA, _⟩, _⟩, _⟩, _⟩, _⟩, _⟩ := key i n hn
    exact (hA c hc).2
  · intro j m p np hm hp hnp
    obtain ⟨⟨⟨⟨⟨⟨_, _⟩, hC⟩, _⟩, _⟩, _⟩, _⟩ := key j m hm
    simpa [hp, hnp] using hC
  · intro i n hn
    obtain ⟨⟨⟨⟨⟨⟨_, _⟩, _⟩, hD⟩, hE⟩, _⟩, _⟩ := key i n hn
    exact ⟨hD, hE⟩
  · intro a b na nb ha hb
    obtain ⟨_, hG⟩ := key a na ha
    have := allNodes_spec hG b nb hb
    simpa using this
  · intro j n hn cl hcl
    obtain ⟨⟨_, hF⟩, _⟩ := key j n hn
    exact inertB_spec (hF cl hcl)


/-- a scope (node 2) owning a signal (3) and an effect (4); the effect subscribes to its sibling 3
and to the outer signal 1; the effect registers an inert cleanup (tag 0: `readU`, `track` of the
outer signal), the scope registers another one (tag 1: a tracked `read` of the outer signal) -/
def exOps : List Stmt :=
  [ .signal 5,
    .scope (.cons (.signal 1)
           (.cons (.effect (.cons (.read 1) (.cons (.read 0)
                     (.cons (.cleanup (.cons (.readU 0) (.cons (.track 0) .nil))) .nil))))
           (.cons (.cleanup (.cons (.read 0) .nil)) .nil))) ]

/-- the arena built by running `exOps` through the model:
```
0: root    parent -      children [1,2]
1: signal  parent 0      dependents [4]
2: scope   parent 0      children [3,4]  cleanups [tag 1]
3: signal  parent 2      dependents [4]
4: effect  parent 2      dependencies [3,1]  cleanups [tag 0]
``` -/
def exArena : Root :=
  match runOps 40 exOps Root.init [] with
  | .ok (r, _) => r
  | .error _ => Root.init

def exAfter : Root :=
  match disposeNode 20 exArena 2 with
  | .ok r => r
  | .error _ => Root.init

theorem exArena_ok : checkArena exArena = true := by decide +kernel

theorem exDispose : disposeNode 20 exArena 2 = .ok exAfter := by
  have h : (disposeNode 20 exArena 2).isOk = true := by decide +kernel
  unfold exAfter
  cases hd : disposeNode 20 exArena 2 with
  | ok r => rfl
  | error e => rw [hd] at h; simp [Except.isOk, Except.toBool] at h

/-- the hypotheses of `disposeNode_spec` hold on `exArena`, the run succeeds, hence the outcome
holds — the theorem is not vacuous -/
example : ∃ S evs, DisposeOutcome exArena 2 exAfter S evs := by
  obtain ⟨ho, hnd, hs, hin⟩ := checkArena_spec exArena_ok
  exact disposeNode_spec ho hnd hs (fun j n _ hn => hin j n hn) exDispose

/-- … and the conclusion, evaluated: the scope, its signal and its effect are gone, the root and the
outer signal survive; the outer signal no longer lists the destroyed effect as a subscriber; the
root still lists the dead scope id among its children; both cleanups ran (parent's first), nothing
else ran; 5 live nodes became 2 -/
example :
    (List.range 5).map exAfter.alive = [true, true, false, false, false] ∧
    (exArena.get? 1).map (·.dependents) = some [4] ∧
    (exAfter.get? 1).map (·.dependents) = some [] ∧
    (exAfter.get? 0).map (·.children) = some [1, 2] ∧
    exArena.trace.map Event.cleanupTag = [none] ∧
    exAfter.trace.map Event.cleanupTag = [none, some 1, some 0] ∧
    exAfter.tracker = exArena.tracker ∧ exAfter.current = exArena.current ∧
    exArena.liveCount = 5 ∧ exAfter.liveCount = 2 := by
  decide +kernel

/-- disposing again changes nothing -/
example : disposeNode 20 exAfter 2 = .ok exAfter := dispose_idempotent (fuel' := 18) exDispose

def handlesOkB (env : List Handle) (p : Id → Bool) : Body → Bool
  | .nil => true
  | .cons s rest =>
    (match stmtHandle s with
     | none => true
     | some h => match env[h]? with
       | none => false
       | some hd => isValueKind hd.kind && p hd.id) && handlesOkB env p rest

theorem handlesOkB_spec {env : List Handle} {p : Id → Bool} :
    ∀ {b : Body}, handlesOkB env p b = true → HandlesOk env (fun x => p x = true) b
  | .nil, _ => trivial
  | .cons s rest, h => by
    simp only [handlesOkB, Bool.and_eq_true] at h
    refine ⟨?_, handlesOkB_spec h.2⟩
    intro x hx
    have h1 := h.1
    rw [hx] at h1
    simp only at h1
    split at h1
    · cases h1
    · rename_i hd he
      simp only [Bool.and_eq_true] at h1
      exact ⟨hd, he, h1.1, h1.2⟩

def hasValueB (r : Root) (x : Id) : Bool :=
  match r.get? x with
  | some n => n.value.isSome
  | none => false

theorem hasValueB_spec {r : Root} {x : Id} (h : hasValueB r x = true) : HasValue r x := by
  unfold hasValueB at h
  split at h
  · rename_i n hn
    obtain ⟨v, hv⟩ := Option.isSome_iff_exists.1 h
    exact ⟨n, v, hn, hv⟩
  · cases h

/-- the cleanups of `exArena` only read the outer signal 1, which survives -/
theorem exArena_readable : allNodes exArena (fun _ n => n.cleanups.all fun cl =>
    handlesOkB cl.env (fun x => hasValueB exArena x && exAfter.alive x) cl.body) = true := by
  decide +kernel

/-- the total form applies to `exArena` as well -/
example : ∃ F, ∀ fuel, F ≤ fuel →
    ∃ r' S evs, disposeNode fuel exArena 2 = .ok r' ∧ DisposeOutcome exArena 2 r' S evs := by
  obtain ⟨ho, hnd, hs, hin⟩ := checkArena_spec exArena_ok
  obtain ⟨S, evs, D⟩ := disposeNode_spec ho hnd hs (fun j n _ hn => hin j n hn) exDispose
  refine disposeNode_total ho hnd hs (fun j n _ hn => hin j n hn) ?_
  intro j n _ hn cl hcl
  have := allNodes_spec exArena_readable j n hn
  refine (handlesOkB_spec (List.all_eq_true.1 this cl hcl)).mono ?_
  intro x hx
  simp only [Bool.and_eq_true] at hx
  refine ⟨hasValueB_spec hx.1, fun hown => ?_⟩
  have := (D.dead_iff x).2 (.inr hown)
  simp [Root.alive, this] at hx

end SycVerif.Reactive
