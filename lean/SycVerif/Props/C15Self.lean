import SycVerif.Model.Async
/-! C15, repair D28: a fetch that is superseded while it is finishing (the dependency changes in the poll in which its
future completes) delivers nothing. In the machine the change comes first, so the completion is that of a superseded fetch. -/
namespace SycVerif.Async

/-- the completion of fetch `k` right after a dependency change that superseded it changes nothing: the value stays what it was
and the resource is loading (for the fetch the change started) -/
theorem C15_superseded_while_finishing (r : Res) (c k : Nat) (hk : k ≤ r.started) :
    rstep (rstep r (.write c)) (.finish k) = rstep r (.write c) := by
  have h : ¬ (k = r.started + 1) := by omega
  simp [rstep, h]

theorem C15_superseded_while_finishing_obs (r : Res) (c k : Nat) (hk : k ≤ r.started) :
    (rstep (rstep r (.write c)) (.finish k)).value = r.value ∧
    (rstep (rstep r (.write c)) (.finish k)).loading = true ∧
    (rstep (rstep r (.write c)) (.finish k)).latestDep = c := by
  rw [C15_superseded_while_finishing r c k hk]; simp [rstep]

/-- without the change it would have delivered (the hypotheses are satisfiable and the step is not vacuous) -/
example : (rstep (Res.init 7) (.finish 1)).value = some (1, 7) ∧
    (rstep (rstep (Res.init 7) (.write 1)) (.finish 1)).value = none ∧
    (rstep (rstep (Res.init 7) (.write 1)) (.finish 1)).loading = true := by decide

end SycVerif.Async
