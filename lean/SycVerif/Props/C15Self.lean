import SycVerif.Model.Async
/-! C15, repair D28: a fetch that is superseded while it is finishing (the dependency changes in the poll in which its
future completes) delivers nothing. In the machine the change comes first, so the completion is that of a superseded fetch. -/
namespace SycVerif.Async

/-- the completion of fetch `k` right after a dependency change that superseded it changes nothing: the value stays what it was
and the resource is loading (for the fetch the change started) -/
theorem C15_superseded_while_finishing (r : Res) (c k : Nat) (hk : k ≤ r.started) :
    rstep (rstep r (.write c)) (.finish k) = rstep r (.write c) := by
  have h : ¬ (k = r.started + 1) := by omega
  simp [rstep, h]

theorem C15_superseded_while_finishing_obs (r : Res) (c k : Nat) (hk : k ≤ r.started) :
    (rstep (rstep r (.write c)) (.finish k)).value = r.value ∧
    (rstep (rstep r (.write c)) (.finish k)).loading = true ∧
    (rstep (rstep r (.write c)) (.finish k)).latestDep = c := by
  rw [C15_superseded_while_finishing r c k hk]; simp [rstep]

/-- without the change it would have delivered (the hypotheses are satisfiable and the step is not vacuous) -/
example : (rstep (Res.init 7) (.finish 1)).value = some (1, 7) ∧
    (rstep (rstep (Res.init 7) (.write 1)) (.finish 1)).value = none ∧
    (rstep (rstep (Res.init 7) (.write 1)) (.finish 1)).loading = true := by decide

/-- repair D29: with an observer of the resource's own boundary, every step is a machine step of a translated event, and the fetch
that a write starts is one for the value the dependency HAS after the observer reacted -/
theorem C15_boundary_observer_step (r : Res) (e : REv) : boStep r e = rstep r (boEv r e) := rfl

theorem C15_boundary_observer_write (r : Res) (v : Nat) :
    (boStep r (.write v)).latestDep = (boStep r (.write v)).dep ∧ (boStep r (.write v)).loading = true ∧
    (boStep r (.write v)).started = r.started + 1 := by
  by_cases h : (!r.loading && v % 2 == 1) = true <;> simp [boStep, boEv, h, rstep]

example : (boStep (rstep (boInit 7) (.finish 1)) (.write 11)).latestDep = 12 ∧ (boInit 7).dep = 8 ∧
    (boStep (boInit 7) (.write 11)).latestDep = 11 := by decide

end SycVerif.Async
