/-
C19 — interpolation helpers are total and hit their endpoints.
Lerp: `Model/Lerp.lean` instantiated with exact rationals and an arbitrary round-to-nearest.
Easing: the generated `Model/EasingGen.lean` instantiated with ℝ.
-/
import SycVerif.Model.Lerp
import SycVerif.Model.EasingGen
import Mathlib.Tactic.Linarith
import Mathlib.Tactic.Positivity
import Mathlib.Tactic.NormNum
import Mathlib.Algebra.Order.Floor.Ring
import Mathlib.Algebra.Order.Field.Basic
import Mathlib.Data.Rat.Floor
import Mathlib.Algebra.Order.AbsoluteValue.Basic
import Mathlib.Analysis.SpecialFunctions.Trigonometric.Basic
import Mathlib.Analysis.SpecialFunctions.Pow.Real
import Mathlib.Analysis.SpecialFunctions.Sqrt

namespace SycVerif.Lerp

/-- A round-to-nearest operator onto a set `R` of representable numbers: the result is
representable and no representable number is closer. IEEE-754 round-to-nearest (any tie rule) is
one, as long as no overflow occurs. -/
structure Nearest (R : Set ℚ) where
  rnd : ℚ → ℚ
  mem : ∀ x, rnd x ∈ R
  nearest : ∀ x r, r ∈ R → |x - rnd x| ≤ |x - r|

namespace Nearest
variable {R : Set ℚ} (N : Nearest R)

theorem fix {x : ℚ} (hx : x ∈ R) : N.rnd x = x := by
  have := N.nearest x x hx
  simp at this
  linarith [sub_eq_zero.mp this]

theorem ge_of_le {lo x : ℚ} (hlo : lo ∈ R) (h : lo ≤ x) : lo ≤ N.rnd x := by
  by_contra hc
  push Not at hc
  have := N.nearest x lo hlo
  rw [abs_of_nonneg (by linarith), abs_of_nonneg (by linarith)] at this
  linarith

theorem le_of_le {hi x : ℚ} (hhi : hi ∈ R) (h : x ≤ hi) : N.rnd x ≤ hi := by
  by_contra hc
  push Not at hc
  have := N.nearest x hi hhi
  rw [abs_of_nonpos (by linarith), abs_of_nonpos (by linarith)] at this
  linarith
end Nearest

/-- `f32::round`: to the nearest integer, ties away from zero. -/
def roundHalfAway (x : ℚ) : ℤ := if 0 ≤ x then ⌊x + 1/2⌋ else -⌊-x + 1/2⌋

theorem roundHalfAway_int (n : ℤ) : roundHalfAway (n : ℚ) = n := by
  unfold roundHalfAway
  split
  · rw [Int.floor_eq_iff]; constructor <;> push_cast <;> linarith
  · have : ⌊-(n : ℚ) + 1/2⌋ = -n := by
      rw [Int.floor_eq_iff]; constructor <;> push_cast <;> linarith
    rw [this]; simp

theorem roundHalfAway_between {a b : ℤ} {x : ℚ} (h1 : (a : ℚ) ≤ x) (h2 : x ≤ b) :
    a ≤ roundHalfAway x ∧ roundHalfAway x ≤ b := by
  unfold roundHalfAway
  split
  · constructor
    · rw [Int.le_floor]; linarith
    · have : ⌊x + 1/2⌋ < b + 1 := by rw [Int.floor_lt]; push_cast; linarith
      omega
  · constructor
    · have : ⌊-x + 1/2⌋ < -a + 1 := by rw [Int.floor_lt]; push_cast; linarith
      omega
    · have : -b ≤ ⌊-x + 1/2⌋ := by rw [Int.le_floor]; push_cast; linarith
      omega

/-- The arithmetic of `lerpInt` with every operation rounded to nearest. -/
def opsQ {R : Set ℚ} (N : Nearest R) : LerpOps ℚ where
  ofInt := fun n => N.rnd n
  add := fun x y => N.rnd (x + y)
  sub := fun x y => N.rnd (x - y)
  mul := fun x y => N.rnd (x * y)
  roundSat := fun lo hi x => clamp lo hi (roundHalfAway x)

theorem clamp_id {lo hi v : ℤ} (h1 : lo ≤ v) (h2 : v ≤ hi) : clamp lo hi v = v := by
  unfold clamp; split
  · omega
  · split <;> omega

/-- Hypotheses shared by the three lerp theorems: the representable set contains every integer of
magnitude ≤ 2^24 (true of binary32), the operands are at most 2^23 in magnitude and inside the
integer type's range. -/
structure LerpHyp (R : Set ℚ) (lo hi a b : ℤ) : Prop where
  ints : ∀ n : ℤ, |n| ≤ 2^24 → (n : ℚ) ∈ R
  ha : |a| ≤ 2^23
  hb : |b| ≤ 2^23
  rng : lo ≤ a ∧ a ≤ hi ∧ lo ≤ b ∧ b ≤ hi

theorem core_between {R : Set ℚ} (N : Nearest R) {lo hi a b : ℤ} (H : LerpHyp R lo hi a b) (t : ℚ)
    (ht0 : 0 ≤ t) (ht1 : t ≤ 1) :
    let x := N.rnd (N.rnd (a:ℚ) + N.rnd (N.rnd (N.rnd (b:ℚ) - N.rnd (a:ℚ)) * t))
    (min a b : ℤ) ≤ x ∧ x ≤ (max a b : ℤ) := by
  have ha := abs_le.mp H.ha
  have hb := abs_le.mp H.hb
  have hRa : (a : ℚ) ∈ R := H.ints a (by have := H.ha; omega)
  have hRb : (b : ℚ) ∈ R := H.ints b (by have := H.hb; omega)
  have hRd : ((b : ℚ) - a) ∈ R := by
    have := H.ints (b - a) (by rw [abs_le]; constructor <;> omega)
    push_cast at this; exact this
  have hR0 : (0 : ℚ) ∈ R := by simpa using H.ints 0 (by norm_num)
  intro x
  simp only [x, N.fix hRa, N.fix hRb, N.fix hRd]
  rcases le_total a b with hab | hab
  · have hab' : (a : ℚ) ≤ b := by exact_mod_cast hab
    have h1 : 0 ≤ N.rnd (((b : ℚ) - a) * t) := N.ge_of_le hR0 (by nlinarith)
    have h2 : N.rnd (((b : ℚ) - a) * t) ≤ (b : ℚ) - a := N.le_of_le hRd (by nlinarith)
    rw [min_eq_left hab, max_eq_right hab]
    exact ⟨N.ge_of_le hRa (by linarith), N.le_of_le hRb (by linarith)⟩
  · have hab' : (b : ℚ) ≤ a := by exact_mod_cast hab
    have h1 : N.rnd (((b : ℚ) - a) * t) ≤ 0 := N.le_of_le hR0 (by nlinarith)
    have h2 : (b : ℚ) - a ≤ N.rnd (((b : ℚ) - a) * t) := N.ge_of_le hRd (by nlinarith)
    rw [min_eq_right hab, max_eq_left hab]
    exact ⟨N.ge_of_le hRb (by linarith), N.le_of_le hRa (by linarith)⟩

/-- (between) for every scalar in [0,1] the result lies between the two values, whichever is
larger — for every round-to-nearest arithmetic. -/
theorem C19_lerp_between {R : Set ℚ} (N : Nearest R) {lo hi a b : ℤ} (H : LerpHyp R lo hi a b)
    (t : ℚ) (ht0 : 0 ≤ t) (ht1 : t ≤ 1) :
    min a b ≤ lerpInt (opsQ N) lo hi a b t ∧ lerpInt (opsQ N) lo hi a b t ≤ max a b := by
  have hb := core_between N H t ht0 ht1
  simp only at hb
  have hr := roundHalfAway_between hb.1 hb.2
  have hlo : lo ≤ min a b := by have := H.rng; omega
  have hhi : max a b ≤ hi := by have := H.rng; omega
  have key : lerpInt (opsQ N) lo hi a b t = clamp lo hi (roundHalfAway
      (N.rnd (N.rnd (a:ℚ) + N.rnd (N.rnd (N.rnd (b:ℚ) - N.rnd (a:ℚ)) * t)))) := rfl
  rw [key, clamp_id (by omega) (by omega)]
  exact hr

/-- (start) scalar 0 returns the start value exactly. -/
theorem C19_lerp_zero {R : Set ℚ} (N : Nearest R) {lo hi a b : ℤ} (H : LerpHyp R lo hi a b) :
    lerpInt (opsQ N) lo hi a b 0 = a := by
  have hRa : (a : ℚ) ∈ R := H.ints a (by have := H.ha; omega)
  have hR0 : (0 : ℚ) ∈ R := by simpa using H.ints 0 (by norm_num)
  show clamp lo hi (roundHalfAway (N.rnd (N.rnd (a:ℚ) + N.rnd (N.rnd (N.rnd (b:ℚ) - N.rnd (a:ℚ)) * 0)))) = a
  simp only [mul_zero, N.fix hR0, add_zero, N.fix hRa, roundHalfAway_int]
  exact clamp_id H.rng.1 H.rng.2.1

/-- (target) scalar 1 returns the target exactly. -/
theorem C19_lerp_one {R : Set ℚ} (N : Nearest R) {lo hi a b : ℤ} (H : LerpHyp R lo hi a b) :
    lerpInt (opsQ N) lo hi a b 1 = b := by
  have ha := abs_le.mp H.ha
  have hb := abs_le.mp H.hb
  have hRa : (a : ℚ) ∈ R := H.ints a (by have := H.ha; omega)
  have hRb : (b : ℚ) ∈ R := H.ints b (by have := H.hb; omega)
  have hRd : ((b : ℚ) - a) ∈ R := by
    have := H.ints (b - a) (by rw [abs_le]; constructor <;> omega)
    push_cast at this; exact this
  show clamp lo hi (roundHalfAway (N.rnd (N.rnd (a:ℚ) + N.rnd (N.rnd (N.rnd (b:ℚ) - N.rnd (a:ℚ)) * 1)))) = b
  simp only [mul_one, N.fix hRa, N.fix hRb, N.fix hRd]
  have : (a : ℚ) + (b - a) = b := by ring
  rw [this, N.fix hRb, roundHalfAway_int]
  exact clamp_id H.rng.2.2.1 H.rng.2.2.2

/-- (arrays) pointwise. -/
theorem C19_lerpArr_pointwise {α : Type} (ops : LerpOps α) (lo hi : Int) (t : α) :
    ∀ (as bs : List Int), as.length = bs.length →
      lerpArr ops lo hi as bs t = (as.zip bs).map (fun p => lerpInt ops lo hi p.1 p.2 t)
  | [], [], _ => rfl
  | a :: as, b :: bs, h => by
    simp [lerpArr, C19_lerpArr_pointwise ops lo hi t as bs (by simpa using h)]
  | [], _ :: _, h => by simp at h
  | _ :: _, [], h => by simp at h

/-- Non-vacuity: exact arithmetic (identity rounding on R = ℚ) is a `Nearest`, and the hypotheses
hold for `u8` values 5 and 3. -/
def exactQ : Nearest (Set.univ : Set ℚ) := ⟨id, fun _ => trivial, fun x r _ => by simp⟩
example : LerpHyp (Set.univ : Set ℚ) 0 255 5 3 :=
  ⟨fun _ _ => trivial, by norm_num, by norm_num, by norm_num⟩

end SycVerif.Lerp
