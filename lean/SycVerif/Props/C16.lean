/-
C16 — context lookup is lexical over the scope tree.
-/
import SycVerif.Model.Reactive
namespace SycVerif.Reactive

def provides (n : Node) (ty : Nat) : Option Int :=
  (n.context.find? (fun p => p.1 == ty)).map (·.2)

/-- Specification: the value provided at the closest ancestor-or-self that provides `ty`
(`none` if no enclosing scope provides it). Independent of fuel and of how the walk is coded. -/
inductive NearestProvider (r : Root) (ty : Nat) : Node → Option Int → Prop
  | here {n v} : provides n ty = some v → NearestProvider r ty n (some v)
  | up {n p pn res} : provides n ty = none → n.parent = some p → r.get? p = some pn →
      NearestProvider r ty pn res → NearestProvider r ty n res
  | top {n} : provides n ty = none → n.parent = none → NearestProvider r ty n none

theorem provides_find (n : Node) (ty : Nat) :
    (match n.context.find? (fun p => p.1 == ty) with | some p => some p.2 | none => none) = provides n ty := by
  unfold provides; cases n.context.find? (fun p => p.1 == ty) <;> rfl

/-- (sound) whatever the walk returns is the nearest provider's value -/
theorem ctxWalk_sound (r : Root) (ty : Nat) : ∀ (fuel : Nat) (n : Node) (res : Option Int),
    ctxWalk fuel r n ty = .ok res → NearestProvider r ty n res := by
  intro fuel
  induction fuel with
  | zero => intro n res h; simp [ctxWalk] at h
  | succ fuel ih =>
    intro n res h
    unfold ctxWalk at h
    split at h
    · rename_i p hp
      simp at h; subst h
      exact .here (by simp [provides, hp])
    · rename_i hp
      have hnone : provides n ty = none := by simp [provides, hp]
      split at h
      · rename_i hpar
        simp at h; subst h
        exact .top hnone hpar
      · rename_i p hpar
        split at h
        · simp at h
        · rename_i pn hpn
          exact .up hnone hpar hpn (ih pn res h)

/-- the specification is functional: there is one nearest provider -/
theorem nearestProvider_unique (r : Root) (ty : Nat) : ∀ {n res1 res2},
    NearestProvider r ty n res1 → NearestProvider r ty n res2 → res1 = res2 := by
  intro n res1 res2 h1
  induction h1 generalizing res2 with
  | here hv => intro h2; cases h2 with
    | here hv2 => rw [hv] at hv2; exact hv2
    | up hn _ _ _ => rw [hv] at hn; simp at hn
    | top hn _ => rw [hv] at hn; simp at hn
  | up hn hp hg _ ih => intro h2; cases h2 with
    | here hv2 => rw [hn] at hv2; simp at hv2
    | up _ hp2 hg2 h3 =>
      rw [hp] at hp2; simp at hp2; subst hp2
      rw [hg] at hg2; simp at hg2; subst hg2
      exact ih h3
    | top _ hp2 => rw [hp] at hp2; simp at hp2
  | top hn hp => intro h2; cases h2 with
    | here hv2 => rw [hn] at hv2; simp at hv2
    | up _ hp2 _ _ => rw [hp] at hp2; simp at hp2
    | top _ _ => rfl

/-- ownership links point to older nodes (ids are allocated in creation order and a node's owner
exists before it) and owners of live nodes are alive -/
def ParentsOk (r : Root) : Prop :=
  ∀ i n p, r.get? i = some n → n.parent = some p → p < i ∧ r.alive p = true

/-- (complete, total) in an arena with well-formed ownership the walk started at a live node `i`
terminates within `i + 1` steps with the nearest provider's value — it never runs out of fuel and
never meets a stale key -/
theorem ctxWalk_complete (r : Root) (ty : Nat) (hp : ParentsOk r) : ∀ (fuel i : Nat) (n : Node),
    r.get? i = some n → i < fuel → ∃ res, ctxWalk fuel r n ty = .ok res := by
  intro fuel
  induction fuel with
  | zero => intro i n _ h; omega
  | succ fuel ih =>
    intro i n hn hlt
    unfold ctxWalk
    split
    · exact ⟨_, rfl⟩
    · split
      · exact ⟨_, rfl⟩
      · rename_i p hpar
        have ⟨hlt2, hal⟩ := hp i n p hn hpar
        have hlt2' : @LT.lt Nat _ p i := hlt2
        simp [Root.alive] at hal
        obtain ⟨pn, hpn⟩ := Option.isSome_iff_exists.mp hal
        simp only [hpn]
        exact ih p pn hpn (by omega)

theorem get?_lt_size (r : Root) (i : Id) (n : Node) (h : r.get? i = some n) : @LT.lt Nat _ i r.nodes.size := by
  unfold Root.get? at h
  cases hh : r.nodes[i]? with
  | none => simp [hh] at h
  | some o => exact (Array.getElem?_eq_some_iff.mp hh).1

/-- C16: `try_use_context` returns exactly the value provided by the nearest enclosing scope that
provides the type (or `None`), for every well-formed scope tree, every scope and every type. -/
theorem C16_useContext_nearest (r : Root) (ty : Nat) (cur : Id) (n : Node) (hp : ParentsOk r)
    (hc : r.current = some cur) (hn : r.get? cur = some n) :
    ∃ res, tryUseContext r ty = .ok res ∧ NearestProvider r ty n res
      ∧ ∀ res', NearestProvider r ty n res' → res' = res := by
  obtain ⟨res, hres⟩ := ctxWalk_complete r ty hp (r.nodes.size + 1) cur n hn
    (by have := get?_lt_size r cur n hn; omega)
  refine ⟨res, by simp [tryUseContext, hc, hn, hres], ctxWalk_sound r ty _ n res hres, ?_⟩
  intro res' h'
  exact nearestProvider_unique r ty h' (ctxWalk_sound r ty _ n res hres)

/-- an inner provision shadows an outer one inside its own scope -/
theorem C16_shadowing (r : Root) (ty : Nat) (n : Node) (v : Int) (h : provides n ty = some v)
    (res : Option Int) (hn : NearestProvider r ty n res) : res = some v :=
  nearestProvider_unique r ty hn (.here h)

/-- … and only there: a scope that provides nothing for `ty` sees exactly what its owner sees -/
theorem C16_inherits (r : Root) (ty : Nat) (n pn : Node) (p : Id) (h : provides n ty = none)
    (hp : n.parent = some p) (hg : r.get? p = some pn) (res : Option Int) :
    NearestProvider r ty n res ↔ NearestProvider r ty pn res := by
  constructor
  · intro hn
    cases hn with
    | here hv => rw [h] at hv; simp at hv
    | up _ hp2 hg2 h3 =>
      rw [hp] at hp2; simp at hp2; subst hp2
      rw [hg] at hg2; simp at hg2; subst hg2; exact h3
    | top _ hp2 => rw [hp] at hp2; simp at hp2
  · exact fun h3 => .up h hp hg h3

/-- providing the same type twice in one scope panics -/
theorem C16_provide_twice_panics (r : Root) (ty : Nat) (v : Int) (cur : Id) (n : Node)
    (hc : r.current = some cur) (hn : r.get? cur = some n) (w : Int) (h : provides n ty = some w) :
    provideContext r ty v = .error .ctxDup := by
  have : n.context.any (fun p => p.1 == ty) = true := by
    unfold provides at h
    cases hf : n.context.find? (fun p => p.1 == ty) with
    | none => simp [hf] at h
    | some p =>
      have := List.find?_some hf
      have hm := List.mem_of_find?_eq_some hf
      exact List.any_eq_true.mpr ⟨p, hm, this⟩
  simp [provideContext, hc, hn, this]

/-- providing a type the scope does not provide yet succeeds and is what lookups from that scope
then return -/
theorem C16_provide_once (r : Root) (ty : Nat) (v : Int) (cur : Id) (n : Node)
    (hc : r.current = some cur) (hn : r.get? cur = some n) (h : provides n ty = none) :
    ∃ r' n', provideContext r ty v = .ok r' ∧ r'.get? cur = some n' ∧ provides n' ty = some v := by
  have hany : n.context.any (fun p => p.1 == ty) = false := by
    unfold provides at h
    cases hf : n.context.find? (fun p => p.1 == ty) with
    | some p => simp [hf] at h
    | none =>
      rw [List.find?_eq_none] at hf
      rw [Bool.eq_false_iff]; intro ha
      obtain ⟨p, hm, hp⟩ := List.any_eq_true.mp ha
      exact hf p hm hp
  have hlt := get?_lt_size r cur n hn
  refine ⟨r.setNode cur { n with context := n.context ++ [(ty, v)] }, { n with context := n.context ++ [(ty, v)] },
    by simp [provideContext, hc, hn, hany], ?_, ?_⟩
  · simp [Root.setNode, hlt, Root.get?]
  · unfold provides at h ⊢
    have hf : n.context.find? (fun p => p.1 == ty) = none := by
      cases hf : n.context.find? (fun p => p.1 == ty) with
      | some p => simp [hf] at h
      | none => rfl
    simp [List.find?_append, hf]

/-- a context provided during a memo/effect run disappears when the computation re-runs or is
disposed: `dispose_children` leaves the node — if it survives — with an empty context -/
theorem C16_dispose_children_clears (fuel : Nat) (r r' : Root) (id : Id) (n' : Node)
    (hx : disposeChildren (fuel + 1) r id = .ok r') (hn : r'.get? id = some n') : n'.context = [] := by
  simp only [disposeChildren] at hx
  split at hx
  · simp at hx; subst hx
    rename_i h; rw [h] at hn; simp at hn
  · split at hx <;> try simp at hx
    split at hx <;> try simp at hx
    subst hx
    rename_i r3 _
    unfold Root.modify at hn
    split at hn
    · rename_i m hm
      unfold Root.setNode at hn
      split at hn
      · rename_i hlt
        simp [Root.get?, hlt] at hn
        rw [← hn]
      · rw [hm] at hn; simp at hn; rename_i hge; exact absurd (get?_lt_size r3 id m hm) hge
    · rename_i hm; rw [hm] at hn; simp at hn

/-- Non-vacuity: the freshly initialised root has well-formed ownership. -/
example : ParentsOk Root.init := by
  intro i n p hn hp
  have : i = 0 := by
    have := get?_lt_size Root.init i n hn
    simp [Root.init] at this; exact this
  subst this
  simp [Root.init, Root.get?] at hn
  subst hn; simp at hp

end SycVerif.Reactive
