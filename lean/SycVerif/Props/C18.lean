/-
C18 — view! never treats a reactive interpolation as static.
-/
import SycVerif.Spec.IsDyn
namespace SycVerif.IsDyn

set_option maxRecDepth 4000

mutual
theorem cons_e : ∀ (x : Ex), ev x = true → isDyn x = true
  | .lit, h => by simp only [ev] at h; simp only [isDyn]; first | done | grind
  | .path, h => by simp only [ev] at h; simp only [isDyn]; first | done | grind
  | .closure f0, h => by have h0 := cons_e f0; simp only [ev] at h; simp only [isDyn]; first | done | grind
  | .field f0, h => by have h0 := cons_e f0; simp only [ev] at h; simp only [isDyn]; first | done | grind
  | .paren f0, h => by have h0 := cons_e f0; simp only [ev] at h; simp only [isDyn]; first | done | grind
  | .group f0, h => by have h0 := cons_e f0; simp only [ev] at h; simp only [isDyn]; first | done | grind
  | .tuple f0, h => by have h0 := cons_L f0; simp only [ev] at h; simp only [isDyn]; first | done | grind
  | .array f0, h => by have h0 := cons_L f0; simp only [ev] at h; simp only [isDyn]; first | done | grind
  | .repeat f0 f1, h => by have h0 := cons_e f0; have h1 := cons_e f1; simp only [ev] at h; simp only [isDyn]; first | done | grind
  | .struct_ f0 f1, h => by have h0 := cons_L f0; have h1 := cons_O f1; simp only [ev] at h; simp only [isDyn]; first | done | grind
  | .cast f0, h => by have h0 := cons_e f0; simp only [ev] at h; simp only [isDyn]; first | done | grind
  | .macro_ f0, h => by simp only [ev] at h; simp only [isDyn]; first | done | grind
  | .block f0, h => by have h0 := cons_B f0; simp only [ev] at h; simp only [isDyn]; first | done | grind
  | .const_ f0, h => by have h0 := cons_B f0; simp only [ev] at h; simp only [isDyn]; first | done | grind
  | .loop_ f0, h => by have h0 := cons_B f0; simp only [ev] at h; simp only [isDyn]; first | done | grind
  | .while_ f0 f1, h => by have h0 := cons_e f0; have h1 := cons_B f1; simp only [ev] at h; simp only [isDyn]; first | done | grind
  | .forLoop f0 f1 f2, h => by have h0 := cons_P f0; have h1 := cons_e f1; have h2 := cons_B f2; simp only [ev] at h; simp only [isDyn]; first | done | grind
  | .break_ f0, h => by have h0 := cons_O f0; simp only [ev] at h; simp only [isDyn]; first | done | grind
  | .continue_, h => by simp only [ev] at h; simp only [isDyn]; first | done | grind
  | .let_ f0 f1, h => by have h0 := cons_P f0; have h1 := cons_e f1; simp only [ev] at h; simp only [isDyn]; first | done | grind
  | .match_ f0 f1, h => by have h0 := cons_e f0; have h1 := cons_A f1; simp only [ev] at h; simp only [isDyn]; first | done | grind
  | .if_ f0 f1 f2, h => by have h0 := cons_e f0; have h1 := cons_B f1; have h2 := cons_O f2; simp only [ev] at h; simp only [isDyn]; first | done | grind
  | .unary f0, h => by have h0 := cons_e f0; simp only [ev] at h; simp only [isDyn]; first | done | grind
  | .binary f0 f1, h => by have h0 := cons_e f0; have h1 := cons_e f1; simp only [ev] at h; simp only [isDyn]; first | done | grind
  | .index f0 f1, h => by have h0 := cons_e f0; have h1 := cons_e f1; simp only [ev] at h; simp only [isDyn]; first | done | grind
  | .range f0 f1, h => by have h0 := cons_O f0; have h1 := cons_O f1; simp only [ev] at h; simp only [isDyn]; first | done | grind
  | .call f0 f1, h => by have h0 := cons_e f0; have h1 := cons_L f1; simp only [ev] at h; simp only [isDyn]; first | done | grind
  | .methodCall f0 f1, h => by have h0 := cons_e f0; have h1 := cons_L f1; simp only [ev] at h; simp only [isDyn]; first | done | grind
  | .await_ f0, h => by have h0 := cons_e f0; simp only [ev] at h; simp only [isDyn]; first | done | grind
  | .try_ f0, h => by have h0 := cons_e f0; simp only [ev] at h; simp only [isDyn]; first | done | grind
  | .assign f0 f1, h => by have h0 := cons_e f0; have h1 := cons_e f1; simp only [ev] at h; simp only [isDyn]; first | done | grind
  | .reference f0, h => by have h0 := cons_e f0; simp only [ev] at h; simp only [isDyn]; first | done | grind
  | .rawAddr f0, h => by have h0 := cons_e f0; simp only [ev] at h; simp only [isDyn]; first | done | grind
  | .return_ f0, h => by have h0 := cons_O f0; simp only [ev] at h; simp only [isDyn]; first | done | grind
  | .yield_ f0, h => by have h0 := cons_O f0; simp only [ev] at h; simp only [isDyn]; first | done | grind
  | .async_ f0, h => by have h0 := cons_B f0; simp only [ev] at h; simp only [isDyn]; first | done | grind
  | .unsafe_ f0, h => by have h0 := cons_B f0; simp only [ev] at h; simp only [isDyn]; first | done | grind
  | .tryBlock f0, h => by have h0 := cons_B f0; simp only [ev] at h; simp only [isDyn]; first | done | grind
  | .infer_, h => by simp only [ev] at h; simp only [isDyn]; first | done | grind
  | .verbatim, h => by simp only [ev] at h; simp only [isDyn]; first | done | grind
theorem cons_P : ∀ (x : Pt), evP x = true → patDyn x = true
  | .wild, h => by simp only [evP] at h; simp only [patDyn]; first | done | grind
  | .lit, h => by simp only [evP] at h; simp only [patDyn]; first | done | grind
  | .path, h => by simp only [evP] at h; simp only [patDyn]; first | done | grind
  | .rest, h => by simp only [evP] at h; simp only [patDyn]; first | done | grind
  | .const_ f0, h => by have h0 := cons_B f0; simp only [evP] at h; simp only [patDyn]; first | done | grind
  | .type_ f0, h => by have h0 := cons_P f0; simp only [evP] at h; simp only [patDyn]; first | done | grind
  | .paren f0, h => by have h0 := cons_P f0; simp only [evP] at h; simp only [patDyn]; first | done | grind
  | .or_ f0, h => by have h0 := cons_PL f0; simp only [evP] at h; simp only [patDyn]; first | done | grind
  | .tuple f0, h => by have h0 := cons_PL f0; simp only [evP] at h; simp only [patDyn]; first | done | grind
  | .tupleStruct f0, h => by have h0 := cons_PL f0; simp only [evP] at h; simp only [patDyn]; first | done | grind
  | .slice f0, h => by have h0 := cons_PL f0; simp only [evP] at h; simp only [patDyn]; first | done | grind
  | .struct_ f0, h => by have h0 := cons_PL f0; simp only [evP] at h; simp only [patDyn]; first | done | grind
  | .range f0 f1, h => by have h0 := cons_O f0; have h1 := cons_O f1; simp only [evP] at h; simp only [patDyn]; first | done | grind
  | .reference f0 f1, h => by have h1 := cons_P f1; simp only [evP] at h; simp only [patDyn]; first | done | grind
  | .ident f0 f1 f2, h => by have h2 := cons_PO f2; simp only [evP] at h; simp only [patDyn]; first | done | grind
  | .macro_ f0, h => by simp only [evP] at h; simp only [patDyn]; first | done | grind
  | .verbatim, h => by simp only [evP] at h; simp only [patDyn]; first | done | grind
theorem cons_S : ∀ (x : St), evS x = true → stmtDyn x = true
  | .expr f0, h => by have h0 := cons_e f0; simp only [evS] at h; simp only [stmtDyn]; first | done | grind
  | .macro_ f0, h => by simp only [evS] at h; simp only [stmtDyn]; first | done | grind
  | .local_ f0 f1, h => by have h0 := cons_P f0; have h1 := cons_I f1; simp only [evS] at h; simp only [stmtDyn]; first | done | grind
  | .item, h => by simp only [evS] at h; simp only [stmtDyn]; first | done | grind
theorem cons_O : ∀ (x : ExOpt), evO x = true → optDyn x = true
  | .none, h => by simp [evO] at h
  | .some e, h => by have := cons_e e; simp only [evO] at h; simp only [optDyn]; grind
theorem cons_L : ∀ (x : ExList), evL x = true → listDyn x = true
  | .nil, h => by simp [evL] at h
  | .cons e es, h => by have := cons_e e; have := cons_L es; simp only [evL] at h; simp only [listDyn]; grind
theorem cons_PO : ∀ (x : PtOpt), evPO x = true → patOptDyn x = true
  | .none, h => by simp [evPO] at h
  | .some p, h => by have := cons_P p; simp only [evPO] at h; simp only [patOptDyn]; grind
theorem cons_PL : ∀ (x : PtList), evPL x = true → patListDyn x = true
  | .nil, h => by simp [evPL] at h
  | .cons p ps, h => by have := cons_P p; have := cons_PL ps; simp only [evPL] at h; simp only [patListDyn]; grind
theorem cons_I : ∀ (x : Init), evI x = true → initDyn x = true
  | .none, h => by simp [evI] at h
  | .some e d, h => by have := cons_e e; have := cons_O d; simp only [evI] at h; simp only [initDyn]; grind
theorem cons_B : ∀ (x : StList), evB x = true → blockDyn x = true
  | .nil, h => by simp [evB] at h
  | .cons s ss, h => by have := cons_S s; have := cons_B ss; simp only [evB] at h; simp only [blockDyn]; grind
theorem cons_A : ∀ (x : ArmList), evA x = true → armsDyn x = true
  | .nil, h => by simp [evA] at h
  | .cons p g b rest, h => by
    have := cons_P p; have := cons_O g; have := cons_e b; have := cons_A rest
    simp only [evA] at h; simp only [armsDyn]; grind
end

/-- (conservative) An interpolated expression that contains an evaluation outside closures is
always emitted as a reactive closure — for every expression of the grammar, any size, any nesting. -/
theorem C18_conservative (e : Ex) (h : ev e = true) : emitsDynamic e = true := cons_e e h

/-- (static ⇒ call-free) Only expressions without any evaluation are emitted as static values. -/
theorem C18_static_sound (e : Ex) (h : emitsDynamic e = false) : ev e = false := by
  cases hev : ev e with
  | false => rfl
  | true => have := C18_conservative e hev; simp [h] at this

/-- Non-vacuity / the three shapes the pinned tree classified as static:
`Foo { ..make() }`, `loop { break f(); }`, `{ let m!(): T = 1; 0 }`, and `match x { &m!() => 0 }`. -/
example : ev (.struct_ .nil (.some (.call .path .nil))) = true
    ∧ emitsDynamic (.struct_ .nil (.some (.call .path .nil))) = true := by decide
example : emitsDynamic (.loop_ (.cons (.expr (.break_ (.some (.call .path .nil)))) .nil)) = true := by decide
example : emitsDynamic (.block (.cons (.local_ (.type_ (.macro_ false)) (.some .lit .none)) (.cons (.expr .lit) .nil))) = true := by
  decide
example : emitsDynamic (.match_ .path (.cons (.reference false (.macro_ false)) .none .lit .nil)) = true := by decide
/-- and static things stay static: `(a.b, [1, x], |y| f(y), view! { })` -/
example : emitsDynamic (.tuple (.cons (.field .path) (.cons (.array (.cons .lit (.cons .path .nil)))
    (.cons (.closure (.call .path .nil)) (.cons (.macro_ true) .nil))))) = false := by decide

end SycVerif.IsDyn
