/-
Two repairs of the Rust code that are mirrored in the model, each with its own theorems.
Helper lemmas: `SycVerif/Lemmas/Repairs.lean`.

## A. D19 (C04): a node that is being disposed cannot be re-run by its own cleanups

`disposeNode` first calls `unsubscribe`: the node leaves the `dependents` list of everything it
depends on.  A computation body is run by `createSelector` (the initial run of a NEW node) and by
`runNodeUpdate` only; `runNodeUpdate` is called by `propagateLoop` only, for the nodes of the buffer
filled by `visitStarts`; a node enters that buffer because it is a start node or because it occurs in
a `dependents` list (`visitStarts_mem`).  A node becomes a dependent only at the end of its own run
(`createDependencyLink`).  Hence a node that is nobody's dependent (`Det r id`) is re-run only if it
is a START node of a propagation, i.e. if something WRITES it: `set` through a handle of kind
`signal`, or the end of a batch for a queued id.  `set` checks the kind of the HANDLE, not of the
node, so the statement needs the kind discipline `KInv` ("handles of kind `signal` in stored closures,
and the queued ids, name signals"), which holds in every state reachable from `Root.init`
(`reachable_kindOk`) but is not part of `RInv` (`C04_kind_discipline_needed`: a state with `RInv` in
which a cleanup holds a `signal`-kinded handle on its own dirty memo).  Under `RInv ∧ KInv`, for
ARBITRARY cleanups (writes, nested batches, creations, disposals, self-disposal, …):
`C04_dispose_no_self_rerun`.

## B. D13 (C10): `resetMarks`
-/
import SycVerif.Lemmas.Repairs
import SycVerif.Props.ReactiveWF
namespace SycVerif.Reactive

/-! ## A. D19 -/

/-! ### the kind discipline, unfolded -/

theorem sigLike_iff (r : Root) (j : Id) :
    SigLike r j ↔ ∀ n, r.get? j = some n → n.callback = none ∧ n.value ≠ none := Iff.rfl

theorem envK_iff (r : Root) (env : List Handle) :
    EnvK r env ↔ ∀ hd ∈ env, hd.id < r.nodes.size ∧ (hd.kind = .signal → SigLike r hd.id) := Iff.rfl

/-- `KInv r`: every closure stored in the arena (as a cleanup or as the callback of a live node)
captured handles of allocated slots whose `signal`-kinded members name signals (dead slots, or live
nodes at rest without a callback), and the batch queue lists such slots only -/
theorem kinv_iff (r : Root) : KInv r ↔
    (∀ i n, r.get? i = some n →
      (∀ cl ∈ n.cleanups, EnvK r cl.env) ∧ (∀ eq cl, n.callback = some (eq, cl) → EnvK r cl.env)) ∧
    (∀ q ∈ r.queue, q < r.nodes.size ∧ SigLike r q) := by
  constructor
  · intro h
    exact ⟨fun i n hn => ⟨fun cl hc => h.stored cl ⟨i, n, hn, .inl hc⟩,
      fun eq cl hc => h.stored cl ⟨i, n, hn, .inr ⟨eq, hc⟩⟩⟩, h.queue⟩
  · rintro ⟨a, b⟩
    refine ⟨?_, b⟩
    rintro cl ⟨i, n, hn, hc | ⟨eq, hc⟩⟩
    · exact (a i n hn).1 cl hc
    · exact (a i n hn).2 eq cl hc

theorem kindOk_init : KInv Root.init := kinv_init

/-- the kind discipline holds in every reachable state, for the arena and for the handles the
program holds (handles are created with the kind of what was created; ids are never reused; a node
without callback that has a value never gets a callback) -/
theorem reachable_kindOk (fuel : Nat) (ops : List Stmt) (r : Root) (env : List Handle)
    (h : runOps fuel ops Root.init [] = .ok (r, env)) : KInv r ∧ EnvK r env :=
  have h' := runOps_kinv 0 fuel ops Root.init [] r env rinv_init kinv_init det_init
    (by intro hd hm; cases hm) h
  ⟨h'.2.1, h'.2.2.2⟩

/-- every statement keeps the kind discipline (here with the detached slot of the induction made
explicit: any slot that is nobody's dependent) -/
theorem execStmt_kindOk (fuel : Nat) (id : Id) (r : Root) (c : Ctx) (s : Stmt) (r' : Root) (c' : Ctx)
    (hI : RInv r) (hK : KInv r) (hD : Det r id) (hE : EnvK r c.env)
    (hx : execStmt fuel r c s = .ok (r', c')) : KInv r' ∧ Det r' id ∧ EnvK r' c'.env :=
  have h := (dAll id fuel).stmt _ r c s r' c' hI hK hD hE hx
  ⟨h.1.k, h.1.d, h.2⟩

/-! ### item 1 -/

/-- **after `unsubscribe r id` no live node lists `id` among its `dependents`**, `id` has no
dependencies left, nothing else changes (every node is mapped by `unlinked id`: `unlinked_fields`),
and the edge invariants are kept -/
theorem C04_unsubscribed_not_dependent {r : Root} (hI : RInv r) (id : Id) :
    (∀ j n, (unsubscribe r id).get? j = some n → id ∉ n.dependents) ∧
    (∀ n, (unsubscribe r id).get? id = some n → n.dependencies = []) ∧
    (∀ j, (unsubscribe r id).get? j = (r.get? j).map (unlinked id j)) ∧
    RInv (unsubscribe r id) := by
  obtain ⟨hget, hfree, _, _, _⟩ := unsubscribe_spec hI.nd hI.sym id
  refine ⟨hfree, ?_, hget, (RInvP.unsubscribe hI id).1⟩
  intro n hn
  rw [hget, Option.map_eq_some_iff] at hn
  obtain ⟨m, _, rfl⟩ := hn
  simp [unlinked]

/-- the same with the edge invariants only -/
theorem C04_unsubscribed_not_dependent' {r : Root} (hnd : NoDangling r) (hs : EdgesSym r) (id : Id) :
    ∀ j n, (unsubscribe r id).get? j = some n → id ∉ n.dependents :=
  (unsubscribe_spec hnd hs id).2.1

/-- … so that `id` is detached (`Det`) when its cleanups start to run -/
theorem C04_unsubscribed_detached {r : Root} (hI : RInv r) {id : Id} (hlt : id < r.nodes.size) :
    Det (unsubscribe r id) id :=
  ⟨by rw [(unsubscribe_sameFrame r id).1]; exact hlt, (unsubscribe_spec hI.nd hI.sym id).2.1⟩

/-! ### item 2 -/

/-- what keeps a detached slot from being re-run, function by function (the clauses of `DAll`, here
for the three functions that could run `id`): every function of the mutual block keeps `id` detached,
keeps the kind discipline, and adds no run of `id` to the trace (`NoRunSince`), PROVIDED that it is
not `runNodeUpdate … id` itself, resp. that `id` is a signal if it occurs in the list the loop is
started on.  (`propagateLoop` would call `runNodeUpdate` on a live dirty `id` in its list: that is
the precise place where the hypothesis is needed; `runNodeUpdate` on a live signal fails.) -/
theorem C04_detached_not_run (fuel : Nat) (id : Id) (r : Root) (hI : RInv r) (hK : KInv r) (hD : Det r id) :
    (∀ cur r', cur ≠ id → runNodeUpdate fuel r cur = .ok r' →
      KInv r' ∧ Det r' id ∧ NoRunSince id r r') ∧
    (∀ l r', (id ∈ l → SigLike r id) → propagateLoop fuel r l = .ok r' →
      KInv r' ∧ Det r' id ∧ NoRunSince id r r') ∧
    (∀ l r', (id ∈ l → SigLike r id) → propagateNodeUpdates fuel r l = .ok r' →
      KInv r' ∧ Det r' id ∧ NoRunSince id r r') ∧
    (∀ c s r' c', EnvK r c.env → execStmt fuel r c s = .ok (r', c') →
      KInv r' ∧ Det r' id ∧ NoRunSince id r r') ∧
    (∀ x r', disposeChildren fuel r x = .ok r' → KInv r' ∧ Det r' id ∧ NoRunSince id r r') := by
  have a := dAll id fuel
  refine ⟨fun cur r' hne hx => ?_, fun l r' hl hx => ?_, fun l r' hl hx => ?_,
    fun c s r' c' hE hx => ?_, fun x r' hx => ?_⟩
  · have o := a.update _ r cur r' hI hK hD hne hx; exact ⟨o.k, o.d, o.t⟩
  · have o := a.loop _ r l r' hI hK hD hl hx; exact ⟨o.k, o.d, o.t⟩
  · have o := a.nodeUpdates _ r l r' hI hK hD hl hx; exact ⟨o.k, o.d, o.t⟩
  · have o := (a.stmt _ r c s r' c' hI hK hD hE hx).1; exact ⟨o.k, o.d, o.t⟩
  · have o := a.dchildren _ r x r' hI hK hD hx; exact ⟨o.k, o.d, o.t⟩

/-- **D19, for arbitrary programs.**  In a state satisfying the bookkeeping invariant `RInv` and the
kind discipline `KInv` (both hold in every reachable state: `reachable_inv`, `reachable_kindOk`), if
`disposeNode fuel r id` succeeds, then the part of the trace it added contains no run of `id` —
whatever the cleanups registered on `id` and in its subtree do (write the signals `id` depended on,
open and close batches, create, dispose — `id` itself included —, …).  No purity assumption; `id`
may be dirty, running, a signal, dead or unallocated. -/
theorem C04_dispose_no_self_rerun {fuel : Nat} {r r' : Root} {id : Id} (hI : RInv r) (hK : KInv r)
    (hx : disposeNode fuel r id = .ok r') :
    ∀ ev ∈ r'.trace.drop r.trace.length, ∀ obs v, ev ≠ Event.run id obs v := by
  intro ev hev obs v e
  have := (dispose_noRunSince hI hK hx).drop ev hev
  rw [e] at this
  exact this rfl

/-- the trace is only extended, so "the part added" is `drop` -/
theorem C04_dispose_trace_extends {fuel : Nat} {r r' : Root} {id : Id}
    (hx : disposeNode fuel r id = .ok r') :
    r'.trace = r.trace ++ r'.trace.drop r.trace.length := by
  obtain ⟨evs, e⟩ := (tAll fuel).dnode r id r' hx
  rw [e, List.drop_left]

/-- the same in every reachable state -/
theorem C04_dispose_no_self_rerun_reachable (fuel fuel' : Nat) (ops : List Stmt) (r : Root)
    (env : List Handle) (h : runOps fuel ops Root.init [] = .ok (r, env)) {id : Id} {r' : Root}
    (hx : disposeNode fuel' r id = .ok r') :
    ∀ ev ∈ r'.trace.drop r.trace.length, ∀ obs v, ev ≠ Event.run id obs v :=
  C04_dispose_no_self_rerun (reachable_inv fuel ops r env h) (reachable_kindOk fuel ops r env h).1 hx

/-- … and through the DSL: the top-level statement `h.dispose()` after any program -/
theorem C04_dispose_stmt_no_self_rerun (fuel fuel' : Nat) (ops : List Stmt) (r : Root)
    (env : List Handle) (h : runOps fuel ops Root.init [] = .ok (r, env)) {k : Nat} {hd : Handle}
    (hk : env[k]? = some hd) {r' : Root} {c' : Ctx}
    (hx : execStmt fuel' r ⟨env, 0, []⟩ (.dispose k) = .ok (r', c')) :
    ∀ ev ∈ r'.trace.drop r.trace.length, ∀ obs v, ev ≠ Event.run hd.id obs v := by
  cases fuel' with
  | zero => simp [execStmt] at hx
  | succ f =>
    simp only [execStmt, lookup, hk] at hx
    split at hx
    · cases hx
    · rename_i r1 h1
      simp only [Except.ok.injEq, Prod.mk.injEq] at hx
      obtain ⟨rfl, _⟩ := hx
      exact C04_dispose_no_self_rerun_reachable fuel f ops r env h h1

/-! ### the defect: without `unsubscribe` the statement fails -/

/-- `NodeHandle::dispose` before the repair D19: no `unsubscribe` -/
def disposeNodeOld : Nat → Root → Id → Except Panic Root
  | 0, _, _ => .error .fuel
  | fuel + 1, r, id =>
    match disposeChildren fuel r id with
    | .error e => .error e
    | .ok r => .ok (removeNode r id)

def isRunOfB (id : Id) : Event → Bool
  | .run n _ _ => n == id
  | .cleanup _ _ => false

theorem isRunOfB_spec {id : Id} {ev : Event} (h : isRunOfB id ev = true) : ∃ obs v, ev = .run id obs v := by
  cases ev with
  | run n obs v => simp only [isRunOfB, beq_iff_eq] at h; subst h; exact ⟨obs, v, rfl⟩
  | cleanup t o => simp [isRunOfB] at h

/-- `s = signal 0; e = effect { s.get(); signal 1; on_cleanup { s.set(5) } }` (nodes: 1 = `s`,
2 = `e`, 3 = the inner signal) -/
def d19Ops : List Stmt :=
  [.signal 0,
   .effect (.cons (.read 0) (.cons (.signal 1) (.cons (.cleanup (.cons (.set 0 (.const 5)) .nil)) .nil)))]

/-- disposing `e` with the OLD `dispose`: the cleanup writes `s`, `e` is still subscribed to `s` and
is re-run in the middle of its own disposal (the added trace is `[run 2, cleanup 0]`); the signal the
re-run creates (node 4) outlives its owner.  With the repaired `disposeNode` the added trace is
`[cleanup 0]` and nothing leaks. -/
theorem C04_old_dispose_reruns_itself :
    (match runOps 60 d19Ops Root.init [] with
     | .ok (r, _) =>
       (match disposeNodeOld 60 r 2 with
        | .ok r' => (r'.trace.drop r.trace.length).any (isRunOfB 2) && r'.alive 4 && !r'.alive 2
        | .error _ => false) &&
       (match disposeNode 60 r 2 with
        | .ok r' => !(r'.trace.drop r.trace.length).any (isRunOfB 2) &&
            ((r'.trace.drop r.trace.length).map Event.cleanupTag == [some 0]) &&
            ((List.range r'.nodes.size).map r'.alive == [true, true, false, false])
        | .error _ => false)
     | .error _ => false) = true := by decide +kernel

/-- the same as a statement about `disposeNodeOld`: the conclusion of `C04_dispose_no_self_rerun`
fails for it in a reachable state -/
theorem C04_old_dispose_counterexample :
    ∃ (r : Root) (env : List Handle) (r' : Root), runOps 60 d19Ops Root.init [] = .ok (r, env) ∧
      disposeNodeOld 60 r 2 = .ok r' ∧
      ∃ ev ∈ r'.trace.drop r.trace.length, ∃ obs v, ev = Event.run 2 obs v := by
  have h := C04_old_dispose_reruns_itself
  cases h1 : runOps 60 d19Ops Root.init [] with
  | error e => rw [h1] at h; cases h
  | ok p =>
    obtain ⟨r, env⟩ := p
    rw [h1] at h
    simp only [Bool.and_eq_true] at h
    cases h2 : disposeNodeOld 60 r 2 with
    | error e => rw [h2] at h; simp at h
    | ok r' =>
      rw [h2] at h
      simp only [Bool.and_eq_true, List.any_eq_true] at h
      obtain ⟨ev, hev, hrun⟩ := h.1.1.1
      obtain ⟨obs, v, e⟩ := isRunOfB_spec hrun
      exact ⟨r, env, r', rfl, h2, ev, hev, obs, v, e⟩

/-! ### the side condition: `RInv` alone does not suffice -/

/-- `s = signal 0; m = memo { s.get() }` (nodes: 1 = `s`, 2 = `m`) -/
def kindOps : List Stmt := [.signal 0, .memo (.cons (.read 0) .nil)]

def kindArena : Root :=
  match runOps 40 kindOps Root.init [] with
  | .ok (r, _) => r
  | .error _ => Root.init

/-- `kindArena` with the memo made dirty and given a cleanup `|| h.set(5)` whose handle `h` has kind
`signal` but names the memo itself — a state no program reaches (`reachable_kindOk`), but one that
satisfies `RInv`, whose clauses do not mention handle kinds -/
def kindTampered : Root :=
  match kindArena.get? 2 with
  | some n => kindArena.setNode 2
      { n with dirty := true, cleanups := [⟨.cons (.set 0 (.const 5)) .nil, [⟨2, .signal⟩], 0⟩] }
  | none => kindArena

theorem kindTampered_inv : RInv kindTampered := by
  have hA : RInv kindArena := by
    unfold kindArena
    cases h : runOps 40 kindOps Root.init [] with
    | error e => exact rinv_init
    | ok p => exact reachable_inv 40 kindOps p.1 p.2 h
  unfold kindTampered
  cases hn : kindArena.get? 2 with
  | none => exact hA
  | some n =>
    have w := hA.node 2 n hn
    refine RInvP.setNode hA hn rfl rfl rfl rfl ⟨w.run, ?_, w.callback⟩
    intro cl hc
    simp only [List.mem_singleton] at hc
    subst hc
    intro hd hm
    simp only [List.mem_singleton] at hm
    subst hm
    exact Root.lt_size_of_get? hn

/-- **the kind discipline is needed**: in `kindTampered` (which satisfies `RInv`) the disposal of the
memo re-runs the memo: its cleanup writes the memo through the mis-kinded handle, which makes the
memo a START node of a propagation, and start nodes are run if they are dirty.  (`set` checks the
kind of the handle only; this is the one way in which a node that is nobody's dependent is handed to
`runNodeUpdate`.) -/
theorem C04_kind_discipline_needed :
    RInv kindTampered ∧
    (match disposeNode 40 kindTampered 2 with
     | .ok r' => (r'.trace.drop kindTampered.trace.length).any (isRunOfB 2)
     | .error _ => false) = true :=
  ⟨kindTampered_inv, by decide +kernel⟩

/-! ### item 3 -/

/-- **every cleanup registered on `id` when `disposeNode` starts is run by it**, in registration
order: the tags of the registered cleanups are a subsequence of the tags of the cleanup events added
to the trace — for arbitrary cleanups and ANY state (no invariant needed: `disposeChildren` takes the
list out of the node and `runCleanups` logs one event per element; an error in a cleanup makes the
whole disposal fail, which the hypothesis excludes). -/
theorem C04_dispose_runs_registered_cleanups_in_order {fuel : Nat} {r r' : Root} {id : Id} {n : Node}
    (hn : r.get? id = some n) (hx : disposeNode fuel r id = .ok r') :
    (n.cleanups.map fun cl => some cl.tag).Sublist
      ((r'.trace.drop r.trace.length).map Event.cleanupTag) ∧
    ∀ cl ∈ n.cleanups, ∃ obs, Event.cleanup cl.tag obs ∈ r'.trace.drop r.trace.length := by
  obtain ⟨evs, e, hs⟩ := dispose_logs_cleanups hn hx
  rw [e, List.drop_left]
  refine ⟨hs, fun cl hc => ?_⟩
  have : some cl.tag ∈ evs.map Event.cleanupTag :=
    hs.subset (List.mem_map.2 ⟨cl, hc, rfl⟩)
  obtain ⟨ev, hev, het⟩ := List.mem_map.1 this
  cases ev with
  | run a b c => simp [Event.cleanupTag] at het
  | cleanup t o =>
    simp only [Event.cleanupTag, Option.some.injEq] at het
    subst het
    exact ⟨o, hev⟩

/-- `TagInv r`, unfolded: closures are identified in the trace by their tag (the value of `nextTag`
when `on_cleanup` registered them); the tags of the cleanups stored in the arena are `< nextTag` and
pairwise distinct, within a node and across nodes -/
theorem tagInv_iff (r : Root) : TagInv r ↔
    (∀ i n, r.get? i = some n → ∀ cl ∈ n.cleanups, cl.tag < r.nextTag) ∧
    (∀ i n, r.get? i = some n → (n.cleanups.map (·.tag)).Nodup) ∧
    (∀ i j n m, i ≠ j → r.get? i = some n → r.get? j = some m →
      ∀ a ∈ n.cleanups, ∀ b ∈ m.cleanups, a.tag ≠ b.tag) := by
  constructor
  · intro h
    exact ⟨fun i n hn cl hc => h.lt i cl ⟨n, hn, hc⟩, h.nodup,
      fun i j n m hij hn hm a ha b hb => h.disj i j a b hij ⟨n, hn, ha⟩ ⟨m, hm, hb⟩⟩
  · rintro ⟨a, b, c⟩
    exact ⟨fun i cl ⟨n, hn, hc⟩ => a i n hn cl hc, b,
      fun i j x y hij ⟨n, hn, hx⟩ ⟨m, hm, hy⟩ => c i j n m hij hn hm x hx y hy⟩

/-- the tags are distinct in every reachable state (they are handed out by a counter), and every
function of the mutual block keeps them so, in any state (`gAll`; here for `execStmt`) -/
theorem reachable_tagInv (fuel : Nat) (ops : List Stmt) (r : Root) (env : List Handle)
    (h : runOps fuel ops Root.init [] = .ok (r, env)) : TagInv r :=
  runOps_tagInv fuel ops Root.init [] r env tagInv_init h

theorem execStmt_tagInv (fuel : Nat) (r : Root) (c : Ctx) (s : Stmt) (r' : Root) (c' : Ctx)
    (hT : TagInv r) (hx : execStmt fuel r c s = .ok (r', c')) : TagInv r' :=
  ((gAll 0 fuel).stmt r c s r' c' hx).inv hT

/-- **every cleanup registered on `id` when `disposeNode` starts runs EXACTLY once during the call**
— for arbitrary cleanups: the added trace contains exactly one cleanup event with its tag.  The only
hypothesis is that tags identify closures (`TagInv`, true in every reachable state).

The induction behind it (`gAll`): once no stored cleanup has tag `t` (and `t < nextTag`), no function
of the mutual block logs a cleanup event with tag `t`, whatever the program does (`Gone`).
`disposeChildren` takes the cleanups out of the node before it runs them, which makes their tags
`Gone`; `runCleanups` logs each exactly once.

What is NOT claimed here: "every cleanup of the SUBTREE runs exactly once" for arbitrary cleanups.
The statement is about the cleanups registered on `id` WHEN THE CALL STARTS: they run in the first round
(`disposeChildren` takes the list out of the node first).  A cleanup that registers another cleanup ON
THE NODE BEING DISPOSED (through `run_in`) after that node's list has been taken out used to get it
dropped by `removeNode` without being run; since repair D23 the loop `disposeRest` runs it in a later
round, with a fresh tag (`Props/C04Orphans`), which does not change the count of the tags registered
before (`Gone`).  A cleanup may also dispose a descendant before its turn (its cleanups then run at that
point — still once).  For inert cleanups `disposeNode_spec` (Props/C04) gives the exact event list of the
whole subtree. -/
theorem C04_dispose_runs_registered_cleanups_once {fuel : Nat} {r r' : Root} {id : Id} {n : Node}
    (hT : TagInv r) (hn : r.get? id = some n) (hx : disposeNode fuel r id = .ok r') :
    ∀ cl ∈ n.cleanups,
      ((r'.trace.drop r.trace.length).map Event.cleanupTag).count (some cl.tag) = 1 := by
  intro cl hcl
  obtain ⟨evs, e, hc⟩ := dispose_tagCount hT hn hx cl hcl
  rw [e, List.drop_left]
  exact hc

/-- items 2 and 3 together, in a reachable state: during a successful `disposeNode … id` every
cleanup registered on `id` runs exactly once, in registration order, `id` itself is not run, and `id`
is dead afterwards -/
theorem C04_dispose_cleanups_run_node_not (fuel fuel' : Nat) (ops : List Stmt) (r : Root)
    (env : List Handle) (h : runOps fuel ops Root.init [] = .ok (r, env)) {id : Id} {n : Node} {r' : Root}
    (hn : r.get? id = some n) (hx : disposeNode fuel' r id = .ok r') :
    (∀ cl ∈ n.cleanups,
      ((r'.trace.drop r.trace.length).map Event.cleanupTag).count (some cl.tag) = 1) ∧
    (n.cleanups.map fun cl => some cl.tag).Sublist
      ((r'.trace.drop r.trace.length).map Event.cleanupTag) ∧
    (∀ ev ∈ r'.trace.drop r.trace.length, ∀ obs v, ev ≠ Event.run id obs v) ∧ r'.get? id = none :=
  ⟨C04_dispose_runs_registered_cleanups_once (reachable_tagInv fuel ops r env h) hn hx,
    (C04_dispose_runs_registered_cleanups_in_order hn hx).1,
    C04_dispose_no_self_rerun_reachable fuel fuel' ops r env h hx,
    (disposeNode_inv fuel' r id r' (reachable_inv fuel ops r env h) hx).2⟩

/-! ## B. D13 (C10): a write to a queued signal during the end-of-batch propagation reaches the
dependents created in that propagation

`propagateNodeUpdates` marks the start nodes `perm` in its first loop (`visitStarts`: `dfs` from
every start node).  The second loop (`propagateLoop`) clears the mark of every node of the buffer
when it reaches it — too late for a start node `s` that a computation run EARLIER in the loop writes:
the nested `propagateNodeUpdates … [s]` then finds `s` marked `perm`, its `dfs` returns at once, and
the dependents of `s` — all created in this propagation, the older ones are in the outer buffer — are
marked dirty but never run.  The repair resets the marks of the start nodes between the two loops. -/

/-- `propagateNodeUpdates`, unfolded -/
theorem C10_propagateNodeUpdates_eq (f : Nat) (r : Root) (starts : List Id) :
    propagateNodeUpdates (f + 1) r starts =
      match visitStarts r [] starts with
      | .error e => .error e
      | .ok (r1, buf) => propagateLoop f (resetMarks r1 starts) buf.reverse := by
  rw [propagateNodeUpdates]
  cases visitStarts r [] starts with
  | error e => rfl
  | ok p => rfl

/-- **after `visitStarts` and `resetMarks` every live start node has mark `none`, and nothing else
has changed**: the other nodes keep their marks (they are literally the same nodes), and a start node
differs from what `visitStarts` left at most in its mark (`SameButMark`, spelled out in
`sameButMark_some_iff`); the rest of the root is untouched.  For arbitrary `r` and `starts`. -/
theorem C10_start_marks_reset (r : Root) (starts : List Id) :
    (∀ s ∈ starts, ∀ n, (resetMarks r starts).get? s = some n → n.mark = .none) ∧
    (∀ j, j ∉ starts → (resetMarks r starts).get? j = r.get? j) ∧
    (∀ j, SameButMark ((resetMarks r starts).get? j) (r.get? j)) ∧
    (∀ j, (resetMarks r starts).alive j = r.alive j) ∧
    SameFrame r (resetMarks r starts) := by
  have hF := (resetMarks_spec starts r).1
  exact ⟨resetMarks_start_none starts r, resetMarks_get?_of_not_mem starts r, hF.node, hF.alive,
    ⟨hF.size, hF.tracker, hF.current, hF.rootNode, hF.queue, hF.batching, hF.nextTag, hF.trace⟩⟩

/-- the same, placed in `propagateNodeUpdates`: the state handed to the second loop -/
theorem C10_start_marks_reset_in_propagation (f : Nat) (r : Root) (starts : List Id) (r1 : Root)
    (buf : List Id) (hv : visitStarts r [] starts = .ok (r1, buf)) :
    propagateNodeUpdates (f + 1) r starts = propagateLoop f (resetMarks r1 starts) buf.reverse ∧
    (∀ s ∈ starts, ∀ n, (resetMarks r1 starts).get? s = some n → n.mark = .none) ∧
    (∀ j, j ∉ starts → (resetMarks r1 starts).get? j = r1.get? j) := by
  refine ⟨by rw [C10_propagateNodeUpdates_eq, hv], ?_, ?_⟩
  · exact (C10_start_marks_reset r1 starts).1
  · exact (C10_start_marks_reset r1 starts).2.1

/-- **the repaired behaviour**: if the start node `s` is live and unmarked and has a live unmarked
dependent `d`, a search from `s` that succeeds (no cycle; `dfsFuel` is enough fuel) pushes `d` and
`s`: the new part of the buffer contains both -/
theorem C10_nested_dfs_traverses_start {fuel : Nat} {r r' : Root} {buf buf' : List Id} {s d : Id}
    {ns nd : Node} (hs : r.get? s = some ns) (hms : ns.mark = .none) (hd : d ∈ ns.dependents)
    (hnd : r.get? d = some nd) (hmd : nd.mark = .none)
    (hx : dfs fuel r buf s = some (r', buf')) :
    ∃ new, buf' = buf ++ new ∧ d ∈ new ∧ s ∈ new :=
  dfs_traverses hs hms hd hnd hmd hx

/-- … so that the nested propagation from `s` has `d` in the list its update loop runs over, and `d`
is dirty when the loop starts (`markDependentsDirty`): `d` is re-run -/
theorem C10_nested_propagation_schedules {r r1 : Root} {buf : List Id} {s d : Id}
    {ns nd : Node} (hs : r.get? s = some ns) (hms : ns.mark = .none) (hd : d ∈ ns.dependents)
    (hnd : r.get? d = some nd) (hmd : nd.mark = .none)
    (hv : visitStarts r [] [s] = .ok (r1, buf)) :
    d ∈ buf.reverse ∧ ∃ n1, (resetMarks r1 [s]).get? d = some n1 ∧ n1.dirty = true := by
  simp only [visitStarts] at hv
  split at hv
  · cases hv
  · rename_i r2 buf2 h2
    simp only [Except.ok.injEq, Prod.mk.injEq] at hv
    obtain ⟨rfl, rfl⟩ := hv
    obtain ⟨new, e, hdn, _⟩ := dfs_traverses hs hms hd hnd hmd h2
    refine ⟨by rw [e]; simp [hdn], ?_⟩
    -- `d` is a dependent of `s` in `r2` too, hence dirty after `markDependentsDirty`
    obtain ⟨ns2, hns2, es⟩ := (dfs_post h2).1.frame.get?_fwd hs
    obtain ⟨nd2, hnd2, _⟩ := (dfs_post h2).1.frame.get?_fwd hnd
    have hdep : isDependentOf r2 s d = true := by
      simp only [isDependentOf, hns2, List.contains_eq_mem, decide_eq_true_eq]
      rw [Node.dependents_of_eraseMark es]; exact hd
    have h3 : (markDependentsDirty r2 s).get? d = some { nd2 with dirty := nd2.dirty || true } := by
      rw [markDependentsDirty_get?, hnd2, hdep]; rfl
    obtain ⟨n4, hn4, e4⟩ := (resetMarks_spec [s] (markDependentsDirty r2 s)).1.get?_fwd h3
    refine ⟨n4, hn4, ?_⟩
    have := congrArg Node.dirty e4
    simpa [Node.eraseMark] using this

/-- **the defect**: if `s` is still marked `perm` — what the first loop of the enclosing propagation
left, before the repair — the search returns at once with the buffer unchanged -/
theorem C10_nested_dfs_skips_perm_start {fuel : Nat} {r : Root} {buf : List Id} {s : Id} {ns : Node}
    (hs : r.get? s = some ns) (hms : ns.mark = .perm) : dfs (fuel + 1) r buf s = some (r, buf) :=
  dfs_perm_noop hs hms

/-- `Root::propagate_node_updates` before the repair D13: no `resetMarks` -/
def propagateNodeUpdatesOld : Nat → Root → List Id → Except Panic Root
  | 0, _, _ => .error .fuel
  | fuel + 1, r, starts =>
    match visitStarts r [] starts with
    | .error e => .error e
    | .ok (r, buf) => propagateLoop fuel r buf.reverse

/-- … so that a nested propagation from a `perm`-marked `s` marks the dependents of `s` dirty and
runs NOTHING (old and new definition alike: the repair is that `s` is not `perm` any more when a
computation of the enclosing propagation can write it) -/
theorem C10_nested_propagation_from_perm_runs_nothing {f : Nat} {r : Root} {s : Id} {ns : Node}
    (hs : r.get? s = some ns) (hms : ns.mark = .perm) :
    propagateNodeUpdatesOld (f + 2) r [s] = .ok (markDependentsDirty r s) ∧
    propagateNodeUpdates (f + 2) r [s] = .ok (resetMarks (markDependentsDirty r s) [s]) := by
  have h : visitStarts r [] [s] = .ok (markDependentsDirty r s, []) := by
    simp only [visitStarts]
    rw [show dfsFuel r = (2 * r.nodes.size + r.nodes.foldl (fun n o => match o with
      | some nd => n + nd.dependents.length | none => n) 0 + 1) + 1 from rfl, dfs_perm_noop hs hms]
  constructor
  · simp only [propagateNodeUpdatesOld, h, List.reverse_nil, propagateLoop]
  · simp only [propagateNodeUpdates, h, List.reverse_nil, propagateLoop]

/-! ### end to end -/

/-- `a = signal 0; b = signal 0; outer = effect { a.get(); effect { b.get() }; b.set(acc + 1) }`
(nodes: 1 = `a`, 2 = `b`, 3 = `outer`, 4 = the inner effect) -/
def d13Ops : List Stmt :=
  [.signal 0, .signal 0,
   .effect (.cons (.read 0) (.cons (.effect (.cons (.read 1) .nil)) (.cons (.set 1 (.accPlus 1)) .nil)))]

/-- `batch { b.set(5); a.set(1) }`: both signals are start nodes of the end-of-batch propagation;
`outer` is re-run, disposes the inner effect, creates a new one (node 5) that reads `b`, and writes
`b` -/
def d13Batch : Body := .cons (.set 1 (.const 5)) (.cons (.set 0 (.const 1)) .nil)

/-- the `batch` statement with the OLD `propagate_node_updates` at the end of the batch -/
def batchOld (fuel : Nat) (r : Root) (c : Ctx) (b : Body) : Except Panic Root :=
  match execInner fuel { r with batching := true } c b with
  | .error e => .error e
  | .ok (r, _) => propagateNodeUpdatesOld fuel { r with batching := false, queue := [] } r.queue

def dirtyNodes (r : Root) : List Id :=
  (List.range r.nodes.size).filter fun i =>
    match r.get? i with
    | some n => n.dirty
    | none => false

def runIdsOf (t : List Event) : List Id :=
  t.filterMap fun ev => match ev with | .run n _ _ => some n | .cleanup _ _ => none

/-- **with the repair the program ends with nothing dirty** (the new inner effect, node 5, runs twice:
when it is created and when `outer` writes `b`) … -/
theorem C10_batch_nested_write_example :
    (match runOps 60 (d13Ops ++ [.batch d13Batch]) Root.init [] with
     | .ok (r, _) => dirtyNodes r == [] && runIdsOf r.trace == [4, 4, 3, 5, 5, 3]
     | .error _ => false) = true := by decide +kernel

/-- … **and with the old definition the new inner effect is left dirty** (it ran once, with the value
of `b` before `outer`'s write; nothing will ever re-run it) -/
theorem C10_batch_nested_write_old :
    (match runOps 60 d13Ops Root.init [] with
     | .ok (r, env) =>
       (match batchOld 60 r ⟨env, 0, []⟩ d13Batch with
        | .ok r' => dirtyNodes r' == [5] && runIdsOf r'.trace == [4, 4, 3, 5, 3]
        | .error _ => false)
     | .error _ => false) = true := by decide +kernel

end SycVerif.Reactive
