import SycVerif.Lemmas.Preserve
/-!
The "lift" (C03 / C04 / C11): the bookkeeping invariants of the arena hold in every state reachable
by every program of the closure DSL — arbitrary closures that create, write, dispose (including the
running computation itself), nest batches, and register cleanups that do any of that.

`RInv r` (= `RInvP (fun _ => False) r`, `SycVerif.Lemmas.Preserve`) is the conjunction of

* `NoDangling r`, `EdgesSym r`                          (subscription graph, `Lemmas/Edges`)
* `TreeOk r` and `listed` (= `OwnershipOk r`)            (ownership forest, `Lemmas/Dispose`)
* every listed child is an allocated slot (`< r.nodes.size`)
* `parent = some p → p < j`                             (owners are older)
* a node that is being run or created (`value = none`) has `dependencies = []`
* every stored closure (cleanup, callback) captured handles of allocated slots only
* `current = some c → c < r.nodes.size`                 (the current scope may be DEAD)

It holds at every call boundary of the mutual block, also while nodes are running.  Between a
`disposeChildren`'s detaching of the children and their disposal the clause `listed` holds only up
to the detached ids: that is the ghost parameter `P` of `RInvP`, quantified in `PresAll`.

`EnvLt k env` (every handle id `< k`) is the only requirement on the lexical environment: handles are
obtained from creations, so they name allocated slots (alive or not, of any kind: the statements do
not assume that a handle's `kind` tells the truth).
-/
namespace SycVerif.Reactive

/-! ### the invariant, unfolded -/

theorem RInv.noDangling {r : Root} (h : RInv r) : NoDangling r := h.nd
theorem RInv.edgesSym {r : Root} (h : RInv r) : EdgesSym r := h.sym
theorem RInv.treeOk {r : Root} (h : RInv r) : TreeOk r := h.tree

theorem rinv_iff (r : Root) : RInv r ↔
    NoDangling r ∧ EdgesSym r ∧ OwnershipOk r ∧
    (∀ i n, r.get? i = some n → ∀ c ∈ n.children, c < r.nodes.size) ∧
    (∀ j m p, r.get? j = some m → m.parent = some p → p < j) ∧
    (∀ i n, r.get? i = some n → (n.value = none → n.dependencies = []) ∧
      (∀ cl ∈ n.cleanups, EnvLt r.nodes.size cl.env) ∧
      (∀ eq cl, n.callback = some (eq, cl) → EnvLt r.nodes.size cl.env)) ∧
    (∀ c, r.current = some c → c < r.nodes.size) := by
  constructor
  · intro h
    exact ⟨h.nd, h.sym, h.ownershipOk, h.cbound, h.plt,
      fun i n hn => ⟨(h.node i n hn).run, (h.node i n hn).cleanups, (h.node i n hn).callback⟩, h.cur⟩
  · rintro ⟨a, b, c, d, e, f, g⟩
    exact ⟨a, b, c.toTreeOk, d, e, fun i n hn => ⟨(f i n hn).1, (f i n hn).2.1, (f i n hn).2.2⟩, g,
      fun j m p np hm hp hnp => .inl (c.listed j m p np hm hp hnp)⟩

/-! ### item 3: the initial state -/

theorem inv_init : RInv Root.init := rinv_init

/-! ### item 2: every function of the mutual block preserves the invariant -/

theorem execBody_inv (fuel : Nat) (r : Root) (c : Ctx) (b : Body) (r' : Root) (c' : Ctx)
    (hI : RInv r) (hE : EnvLt r.nodes.size c.env) (hx : execBody fuel r c b = .ok (r', c')) :
    RInv r' ∧ EnvLt r'.nodes.size c'.env :=
  have h := (presAll fuel).body _ r c b r' c' hI hE hx
  ⟨h.1, h.2.2⟩

theorem execInner_inv (fuel : Nat) (r : Root) (c : Ctx) (b : Body) (r' : Root) (c' : Ctx)
    (hI : RInv r) (hE : EnvLt r.nodes.size c.env) (hx : execInner fuel r c b = .ok (r', c')) :
    RInv r' ∧ EnvLt r'.nodes.size c'.env :=
  have h := (presAll fuel).inner _ r c b r' c' hI hE hx
  ⟨h.1, h.2.2⟩

theorem execStmt_inv (fuel : Nat) (r : Root) (c : Ctx) (s : Stmt) (r' : Root) (c' : Ctx)
    (hI : RInv r) (hE : EnvLt r.nodes.size c.env) (hx : execStmt fuel r c s = .ok (r', c')) :
    RInv r' ∧ EnvLt r'.nodes.size c'.env :=
  have h := (presAll fuel).stmt _ r c s r' c' hI hE hx
  ⟨h.1, h.2.2⟩

theorem runClosure_inv (fuel : Nat) (r : Root) (cl : Closure) (r' : Root) (v : Int) (obs : List Obs)
    (hI : RInv r) (hE : EnvLt r.nodes.size cl.env) (hx : runClosure fuel r cl = .ok (r', v, obs)) :
    RInv r' :=
  ((presAll fuel).closure _ r cl r' v obs hI hE hx).1

theorem createSelector_inv (fuel : Nat) (r : Root) (eq : EqKind) (cl : Closure) (r' : Root) (id : Id)
    (hI : RInv r) (hE : EnvLt r.nodes.size cl.env) (hx : createSelector fuel r eq cl = .ok (r', id)) :
    RInv r' ∧ id < r'.nodes.size :=
  have h := (presAll fuel).selector _ r eq cl r' id hI hE hx
  ⟨h.1.1, h.2⟩

theorem runNodeUpdate_inv (fuel : Nat) (r : Root) (cur : Id) (r' : Root)
    (hI : RInv r) (hx : runNodeUpdate fuel r cur = .ok r') : RInv r' :=
  ((presAll fuel).update _ r cur r' hI hx).1

theorem propagateLoop_inv (fuel : Nat) (r : Root) (l : List Id) (r' : Root)
    (hI : RInv r) (hx : propagateLoop fuel r l = .ok r') : RInv r' :=
  ((presAll fuel).loop _ r l r' hI hx).1

theorem propagateNodeUpdates_inv (fuel : Nat) (r : Root) (starts : List Id) (r' : Root)
    (hI : RInv r) (hx : propagateNodeUpdates fuel r starts = .ok r') : RInv r' :=
  ((presAll fuel).nodeUpdates _ r starts r' hI hx).1

theorem propagateUpdates_inv (fuel : Nat) (r : Root) (start : Id) (r' : Root)
    (hI : RInv r) (hx : propagateUpdates fuel r start = .ok r') : RInv r' :=
  ((presAll fuel).updates _ r start r' hI hx).1

theorem disposeNode_inv (fuel : Nat) (r : Root) (id : Id) (r' : Root)
    (hI : RInv r) (hx : disposeNode fuel r id = .ok r') : RInv r' ∧ r'.get? id = none :=
  have h := (presAll fuel).dnode _ r id r' hI hx
  ⟨h.1.1, h.2⟩

theorem disposeChildren_inv (fuel : Nat) (r : Root) (id : Id) (r' : Root)
    (hI : RInv r) (hx : disposeChildren fuel r id = .ok r') : RInv r' :=
  ((presAll fuel).dchildren _ r id r' hI hx).1

theorem runCleanups_inv (fuel : Nat) (r : Root) (cls : List Closure) (r' : Root)
    (hI : RInv r) (hE : ∀ cl ∈ cls, EnvLt r.nodes.size cl.env) (hx : runCleanups fuel r cls = .ok r') :
    RInv r' :=
  ((presAll fuel).cleanups _ r cls r' hI hE hx).1

theorem disposeList_inv (fuel : Nat) (r : Root) (cs : List Id) (r' : Root)
    (hI : RInv r) (hx : disposeList fuel r cs = .ok r') :
    RInv r' ∧ ∀ c ∈ cs, c < r.nodes.size → r'.get? c = none :=
  have h := (presAll fuel).dlist _ r cs r' hI hx
  ⟨h.1.1, h.2⟩

/-- the two-state facts that come with every one of the thirteen functions (here for `execStmt`):
slots are never reused, and a computation that is running is still running (or dead) afterwards -/
theorem execStmt_grows (fuel : Nat) (r : Root) (c : Ctx) (s : Stmt) (r' : Root) (c' : Ctx)
    (hI : RInv r) (hE : EnvLt r.nodes.size c.env) (hx : execStmt fuel r c s = .ok (r', c')) :
    r.nodes.size ≤ r'.nodes.size ∧
    (∀ j, j < r.nodes.size → r.get? j = none → r'.get? j = none) ∧
    (∀ j n n', r.get? j = some n → n.value = none → r'.get? j = some n' → n'.value = none) :=
  have h := ((presAll fuel).stmt _ r c s r' c' hI hE hx).2.1
  ⟨h.size, h.dead, h.run⟩

/-! ### item 3: every reachable state -/

theorem reachable_inv (fuel : Nat) (ops : List Stmt) (r : Root) (env : List Handle)
    (h : runOps fuel ops Root.init [] = .ok (r, env)) : RInv r :=
  (runOps_pres fuel ops Root.init [] r env rinv_init (by intro hd hm; cases hm) h).1

theorem reachable_noDangling (fuel : Nat) (ops : List Stmt) (r : Root) (env : List Handle)
    (h : runOps fuel ops Root.init [] = .ok (r, env)) : NoDangling r :=
  (reachable_inv fuel ops r env h).nd

theorem reachable_edgesSym (fuel : Nat) (ops : List Stmt) (r : Root) (env : List Handle)
    (h : runOps fuel ops Root.init [] = .ok (r, env)) : EdgesSym r :=
  (reachable_inv fuel ops r env h).sym

theorem reachable_treeOk (fuel : Nat) (ops : List Stmt) (r : Root) (env : List Handle)
    (h : runOps fuel ops Root.init [] = .ok (r, env)) : TreeOk r :=
  (reachable_inv fuel ops r env h).tree

theorem reachable_ownershipOk (fuel : Nat) (ops : List Stmt) (r : Root) (env : List Handle)
    (h : runOps fuel ops Root.init [] = .ok (r, env)) : OwnershipOk r :=
  (reachable_inv fuel ops r env h).ownershipOk

/-- the handles a program holds name allocated slots -/
theorem reachable_envLt (fuel : Nat) (ops : List Stmt) (r : Root) (env : List Handle)
    (h : runOps fuel ops Root.init [] = .ok (r, env)) : EnvLt r.nodes.size env :=
  (runOps_pres fuel ops Root.init [] r env rinv_init (by intro hd hm; cases hm) h).2.2

/-- the structural lemmas apply to every reachable state, e.g. `DispInv` of `Lemmas/Dispose`
(the hypothesis of `dispose_all` and of the C04 theorems) -/
theorem reachable_dispInv (fuel : Nat) (ops : List Stmt) (r : Root) (env : List Handle)
    (h : runOps fuel ops Root.init [] = .ok (r, env)) : DispInv r :=
  have i := reachable_inv fuel ops r env h
  ⟨i.nd, i.sym, i.tree⟩

/-! ### item 4 (C11): `run_node_update` never unwraps `None`

`Panic.unwrapNone` is raised in one place only: the two `unwrap()`s of `run_node_update` on the
node's `callback` and `value` (both are `None` while the node runs, `callback` is `None` for signals
and scopes).  The extra clauses needed to exclude it (`XInv`):

* a node without callback that has a value (signal, scope) is not dirty and has no dependencies;
* a node with a callback has a value (both are taken out and put back together), so the nodes
  without value are exactly the running ones (and those being created);
* the update queue is empty outside `batch`, and lists allocated slots whose node, if alive, has a
  value — i.e. is not running.

`XInv` is inductive relative to `RInv` (`SafeAll`), and under `RInv ∧ XInv` no function of the mutual
block returns `.error .unwrapNone` — for every program, including closures that dispose themselves,
write inside memos, nest batches inside effects, … -/

/-- the documented panics of the model (everything but the internal `unwrap()` and the cycle panic,
which depends on the shape of the graph) -/
def Documented : Panic → Prop
  | .disposed => True      -- reading / writing a signal the program disposed
  | .slotKey => True       -- allocating in / running in a scope the program disposed
  | .ctxDup => True
  | .badProgram => True    -- ill-typed DSL program
  | .fuel => True
  | .updating => True
  | .cyclic => False
  | .unwrapNone => False

theorem xinv_iff (r : Root) : XInv r ↔
    (∀ i n, r.get? i = some n →
      (n.callback = none → n.value ≠ none → n.dirty = false) ∧
      (n.callback = none → n.dependencies = []) ∧
      (n.callback ≠ none → n.value ≠ none)) ∧
    (r.batching = false → r.queue = []) ∧
    (∀ q ∈ r.queue, ∀ n, r.get? q = some n → n.value ≠ none) ∧
    (∀ q ∈ r.queue, q < r.nodes.size) := by
  constructor
  · intro h
    exact ⟨fun i n hn => ⟨(h.node i n hn).a, (h.node i n hn).b, (h.node i n hn).c⟩, h.q1, h.q2, h.q3⟩
  · rintro ⟨a, b, c, d⟩
    exact ⟨fun i n hn => ⟨(a i n hn).1, (a i n hn).2.1, (a i n hn).2.2⟩, b, c, d⟩

theorem inv_init_x : XInv Root.init := xinv_init

/-- the question as asked: `runNodeUpdate`, called (as `propagateLoop` does) on a live dirty node that
is not running, does not fail with `unwrapNone` — neither itself nor in any nested update — and
re-establishes the clauses -/
theorem runNodeUpdate_no_unwrapNone (fuel : Nat) (r : Root) (cur : Id) (hI : RInv r) (hX : XInv r)
    (hb : r.batching = false) (hcur : ∀ n, r.get? cur = some n → n.value ≠ none ∧ n.dirty = true) :
    runNodeUpdate fuel r cur ≠ .error .unwrapNone ∧
    ∀ r', runNodeUpdate fuel r cur = .ok r' → XInv r' := by
  have h := (safeAll fuel).update _ r cur hI hX hb hcur
  constructor
  · intro e; rw [e] at h; exact h rfl
  · intro r' e; rw [e] at h; exact h.1

/-- the propagation loop over any list of allocated nodes none of which is running -/
theorem propagateLoop_no_unwrapNone (fuel : Nat) (r : Root) (l : List Id) (hI : RInv r) (hX : XInv r)
    (hb : r.batching = false)
    (hl : ∀ x ∈ l, x < r.nodes.size ∧ ∀ n, r.get? x = some n → n.value ≠ none) :
    propagateLoop fuel r l ≠ .error .unwrapNone ∧
    ∀ r', propagateLoop fuel r l = .ok r' → XInv r' := by
  have h := (safeAll fuel).loop _ r l hI hX hb hl
  constructor
  · intro e; rw [e] at h; exact h rfl
  · intro r' e; rw [e] at h; exact h.1

/-- a write (outside or inside a batch) to a live node that has a value -/
theorem propagateUpdates_no_unwrapNone (fuel : Nat) (r : Root) (s : Id) (hI : RInv r) (hX : XInv r)
    (hs : ∃ n, r.get? s = some n ∧ n.value ≠ none) :
    propagateUpdates fuel r s ≠ .error .unwrapNone ∧
    ∀ r', propagateUpdates fuel r s = .ok r' → XInv r' := by
  have h := (safeAll fuel).updates _ r s hI hX hs
  constructor
  · intro e; rw [e] at h; exact h rfl
  · intro r' e; rw [e] at h; exact h.1

/-- any statement of the DSL, in any state satisfying the invariants -/
theorem execStmt_no_unwrapNone (fuel : Nat) (r : Root) (c : Ctx) (s : Stmt) (hI : RInv r)
    (hE : EnvLt r.nodes.size c.env) (hX : XInv r) :
    execStmt fuel r c s ≠ .error .unwrapNone ∧
    ∀ r' c', execStmt fuel r c s = .ok (r', c') → XInv r' := by
  have h := (safeAll fuel).stmt _ r c s hI hE hX
  constructor
  · intro e; rw [e] at h; exact h rfl
  · intro r' c' e; rw [e] at h; exact h.1

/-- disposal of any node at any point (C11: "scopes can be disposed at any point") -/
theorem disposeNode_no_unwrapNone (fuel : Nat) (r : Root) (id : Id) (hI : RInv r) (hX : XInv r) :
    disposeNode fuel r id ≠ .error .unwrapNone ∧
    ∀ r', disposeNode fuel r id = .ok r' → XInv r' := by
  have h := (safeAll fuel).dnode _ r id hI hX
  constructor
  · intro e; rw [e] at h; exact h rfl
  · intro r' e; rw [e] at h; exact h.1

/-- no program ever makes the model unwrap `None` -/
theorem reachable_no_unwrapNone (fuel : Nat) (ops : List Stmt) :
    runOps fuel ops Root.init [] ≠ .error .unwrapNone := by
  have h := runOps_safe fuel ops Root.init [] rinv_init (by intro hd hm; cases hm) xinv_init
  intro e; rw [e] at h; exact h rfl

/-- every panic of a program run from the initial state is a documented one, or the cycle panic -/
theorem reachable_errors (fuel : Nat) (ops : List Stmt) (e : Panic)
    (h : runOps fuel ops Root.init [] = .error e) : Documented e ∨ e = .cyclic := by
  cases e with
  | unwrapNone => exact absurd h (reachable_no_unwrapNone fuel ops)
  | cyclic => exact .inr rfl
  | _ => exact .inl trivial

theorem reachable_xinv (fuel : Nat) (ops : List Stmt) (r : Root) (env : List Handle)
    (h : runOps fuel ops Root.init [] = .ok (r, env)) : XInv r := by
  have h' := runOps_safe fuel ops Root.init [] rinv_init (by intro hd hm; cases hm) xinv_init
  rw [h] at h'; exact h'

/-- in a reachable state outside a batch nothing is queued, and every node without a value is a
computation that is being run or created (it has no callback and no edges) -/
theorem reachable_valueless (fuel : Nat) (ops : List Stmt) (r : Root) (env : List Handle)
    (h : runOps fuel ops Root.init [] = .ok (r, env)) :
    (r.batching = false → r.queue = []) ∧
    ∀ i n, r.get? i = some n → n.value = none →
      n.callback = none ∧ n.dependencies = [] ∧ ∀ a na, r.get? a = some na → i ∉ na.dependents := by
  have hX := reachable_xinv fuel ops r env h
  have hI := reachable_inv fuel ops r env h
  refine ⟨hX.q1, ?_⟩
  intro i n hn hv
  have hd := (hI.node i n hn).run hv
  refine ⟨Classical.byContradiction fun hc => (hX.node i n hn).c hc hv, hd, ?_⟩
  intro a na hna
  rw [← List.count_eq_zero, hI.sym a i na n hna hn, hd]; rfl

end SycVerif.Reactive
