/-
C01 — derived state is consistent with signals after every write.
-/
import SycVerif.Spec.Reactive
import SycVerif.Props.ReactiveBasic
namespace SycVerif.Reactive

/-- the late-edge witness (known finding D1):
`s = 0; b = memo(s, s); c = memo(if s > 0 { b }); s.set(1)` -/
def d1Witness : List Stmt :=
  [ .signal 0,
    .memo (.cons (.read 0) (.cons (.read 0) .nil)),
    .memo (.cons (.ifpos 0 (.cons (.read 1) .nil) .nil) .nil),
    .set 0 (.const 1) ]

/-- Boolean form of "the witness runs, no batch is open, and node 3 is not locally consistent" -/
def d1Check : Bool :=
  match runOps 60 d1Witness Root.init [] with
  | .ok (r, _) => !r.batching && !(decide (locallyConsistent r 3))
  | .error _ => false

theorem d1_witness_inconsistent : d1Check = true := by decide +kernel

/-- C01 at full strength is FALSE of the model (which mirrors the code, see the correspondence
check): after `s.set(1)` the memo `c` (node 3) holds the value computed from the *old* `b`, because
the edge `b → c` did not exist when the propagation order was fixed. The same witness is replayed
on the implementation by the check (corpus/reactive/d1.case). -/
theorem C01_full_false : ¬ C01_full := by
  intro h
  have hw := d1_witness_inconsistent
  unfold d1Check at hw
  cases hr : runOps 60 d1Witness Root.init [] with
  | error e => simp [hr] at hw
  | ok p =>
    obtain ⟨r, env⟩ := p
    simp only [hr] at hw
    simp at hw
    exact hw.2 (h 60 d1Witness r env hr hw.1 3)

end SycVerif.Reactive
