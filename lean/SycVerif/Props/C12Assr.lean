/-
C12 (server side, with suspense) — "hydration keys are unique and assigned densely, in creation order,
within their suspense scope; suspense keys are 1..n, each once".

Model: `SycVerif/Model/Assr.lean` (sync / blocking / streaming server rendering with suspense and async
components). Everything below holds for EVERY mode, EVERY view `vs` and EVERY reachable world: no bound on
sizes or on the number of events.

Vocabulary (defined in `Lemmas/Assr.lean`):
* `elKeys t`        the hydration keys in tree `t`: the key of every element and BOTH keys (`startKey`,
                    `noSsrKey`) of every boundary, pre-order, through elements, groups and boundaries;
* `suspKeys t`      the keys of the boundaries in `t`;
* `run w es`        `es.foldl step w`;
* `ReachB m vs w`   `w` is `World.start m vs` followed by any number of `step`s;
* `ReachS vs w`     `w` is `World.start .stream vs`, then `sendReady`, then any number of `streamStep`s
                    (`step` followed by `sendReady` with the driver's fuel) — exactly the driver's `runStream`;
* `Reach m vs w`    `World.start m vs` followed by `step`s and `sendReady`s (any fuel) in any order; both
                    `ReachB` and `ReachS` are special cases (`ReachB.reach`, `ReachS.reach`).
-/
import SycVerif.Lemmas.Assr
namespace SycVerif.Assr

/-- 1. hydration keys are unique in every reachable tree -/
theorem C12_keys_nodup {m vs w} (h : Reach m vs w) : (elKeys w.tree).Nodup := by
  rw [List.nodup_iff_count]
  rintro ⟨i, x⟩
  rw [h.inv.keys i x]; split <;> omega

/-- 2. within registry `i` the element indices are exactly `0 .. regs[i] - 1`, each once, and every key
belongs to an existing registry -/
theorem C12_keys_dense {m vs w} (h : Reach m vs w) :
    (∀ i, i < w.st.regs.length →
      (((elKeys w.tree).filter (·.1 = i)).map (·.2)).Perm (List.range (w.st.regs.getD i 0))) ∧
    ∀ key ∈ elKeys w.tree, key.1 < w.st.regs.length := by
  refine ⟨fun i _ => ?_, fun key hk => ?_⟩
  · rw [List.perm_iff_count]
    intro x
    rw [fib_count, h.inv.keys i x, List.count_range]
  · have hpos := List.count_pos_iff.mpr hk
    obtain ⟨i, x⟩ := key
    rw [h.inv.keys i x] at hpos
    show i < w.st.regs.length
    false_or_by_contra
    rename_i hge
    have : w.st.regs.getD i 0 = 0 := by
      rw [List.getD_eq_getElem?_getD, List.getElem?_eq_none (by omega)]; rfl
    rw [this] at hpos; simp at hpos

/-- 3. the boundaries' keys are `1 .. n`, each exactly once; there is one counter and one registry per
boundary (plus the outer registry); in sync mode there is no boundary -/
theorem C12_suspense_keys {m vs w} (h : Reach m vs w) :
    (suspKeys w.tree).Perm (List.range' 1 (w.st.nextSusp - 1)) ∧
    w.st.bds.length = w.st.nextSusp - 1 ∧ w.st.nextSusp - 1 = w.st.regs.length - 1 ∧
    (w.st.mode = .sync → suspKeys w.tree = []) := by
  have hi := h.inv
  have hb := hi.bdsLen
  have hr := hi.regsLen
  have hp : (suspKeys w.tree).Perm (List.range' 1 (w.st.nextSusp - 1)) := by
    rw [List.perm_iff_count]
    intro x
    rw [hi.susps x, count_range'_one]
    split <;> split <;> omega
  refine ⟨hp, by omega, by omega, fun hm => ?_⟩
  have := hi.sync hm
  rw [this] at hp
  exact List.perm_nil.mp (by simpa using hp)

/-- in sync mode no boundary is ever created -/
theorem C12_sync_no_suspense {vs w} (h : Reach .sync vs w) : suspKeys w.tree = [] ∧ w.st.bds = [] := by
  have h3 := C12_suspense_keys h
  have hm := h.mode
  refine ⟨h3.2.2.2 hm, ?_⟩
  have := h.inv.sync hm
  exact List.eq_nil_of_length_eq_zero (by omega)

/-- 4. numbering starts afresh with every render: the first key of the outer registry is `0.0`, the first
boundary is `1` -/
theorem C12_first_keys {m vs w} (h : Reach m vs w) :
    (elKeys w.tree ≠ [] → (0, 0) ∈ elKeys w.tree) ∧ (suspKeys w.tree ≠ [] → 1 ∈ suspKeys w.tree) := by
  have hi := h.inv
  constructor
  · intro hne
    obtain ⟨⟨i, x⟩, hk⟩ := List.exists_mem_of_ne_nil _ hne
    have hpos := List.count_pos_iff.mpr hk
    rw [hi.keys i x] at hpos
    apply List.count_pos_iff.mp
    rw [hi.keys 0 0]
    by_cases h0 : i = 0
    · subst h0
      have : x < w.st.regs.getD 0 0 := by split at hpos <;> omega
      rw [if_pos (by omega)]; omega
    · have hlt : i < w.st.regs.length := (C12_keys_dense h).2 _ hk
      have := hi.first (by have := hi.regsLen; omega)
      rw [if_pos this]; omega
  · intro hne
    obtain ⟨x, hk⟩ := List.exists_mem_of_ne_nil _ hne
    have hpos := List.count_pos_iff.mpr hk
    rw [hi.susps x] at hpos
    apply List.count_pos_iff.mp
    rw [hi.susps 1]
    have : 1 ≤ x ∧ x < w.st.nextSusp := by split at hpos <;> omega
    rw [if_pos (by omega)]; omega

/-- the same for the runs of the driver -/
theorem C12_run (m : Mode) (vs : AVs) (es : List Ev) :
    let w := run (World.start m vs) es
    (elKeys w.tree).Nodup ∧
    (∀ i, i < w.st.regs.length →
      (((elKeys w.tree).filter (·.1 = i)).map (·.2)).Perm (List.range (w.st.regs.getD i 0))) ∧
    (suspKeys w.tree).Perm (List.range' 1 (w.st.nextSusp - 1)) := by
  have h := (ReachB.run (m := m) (vs := vs) es).reach
  exact ⟨C12_keys_nodup h, (C12_keys_dense h).1, (C12_suspense_keys h).1⟩

theorem C12_stream {vs w} (h : ReachS vs w) :
    (elKeys w.tree).Nodup ∧
    (∀ i, i < w.st.regs.length →
      (((elKeys w.tree).filter (·.1 = i)).map (·.2)).Perm (List.range (w.st.regs.getD i 0))) ∧
    (suspKeys w.tree).Perm (List.range' 1 (w.st.nextSusp - 1)) :=
  ⟨C12_keys_nodup h.reach, (C12_keys_dense h.reach).1, (C12_suspense_keys h.reach).1⟩

/-! ### the statements are not vacuous: a concrete render

`<div><Suspense><p/><Async task=0><span>t0</span>{res 5}</Async></Suspense><b/></div>`, blocking, task 0
completes: the body takes the next key `1.1` of the boundary's registry. -/

def exKeysView : AVs :=
  avs [.el 0 (avs [.susp (avs [.el 1 .nil, .acomp 0 (avs [.el 2 (avs [.text 0]), .res 5])]), .el 3 .nil])]

example : elKeys (World.start .block exKeysView).tree = [(0, 0), (0, 1), (0, 2), (1, 0), (0, 3)] := by
  decide +kernel
example : elKeys (run (World.start .block exKeysView) [.c 0]).tree =
    [(0, 0), (0, 1), (0, 2), (1, 0), (1, 1), (0, 3)] := by decide +kernel
example : (run (World.start .block exKeysView) [.c 0]).st.regs = [4, 2] := by decide +kernel
example : suspKeys (run (World.start .block exKeysView) [.c 0]).tree = [1] := by decide +kernel
example : elKeys (World.start .sync exKeysView).tree = [(0, 0), (0, 1)] ∧
    suspKeys (World.start .sync exKeysView).tree = [] := by decide +kernel

end SycVerif.Assr
