/-
C12 — key discipline (statements in `Spec/SsrKeys.lean`): hydration keys stamped by building a view
are `(s,k), (s,k+1), …` in document order, the counter advances by the number of elements, the
rendered string is a function of the view description, keys are duplicate-free, and
`render_to_string` panics exactly when a void element is given content.
-/
import SycVerif.Spec.SsrKeys
namespace SycVerif.Ssr

/-! ### helpers -/

theorem keysOfList_appendSsr (a b : SsrList) :
    keysOfList (appendSsr a b) = keysOfList a ++ keysOfList b := by
  fun_induction appendSsr a b with
  | case1 b => simp [keysOfList]
  | case2 n a b ih => simp [keysOfList, ih]

theorem range_map_split (s k a b : Nat) :
    (List.range (a + b)).map (fun i => (s, k + i))
      = (List.range a).map (fun i => (s, k + i)) ++ (List.range b).map (fun i => (s, (k + a) + i)) := by
  rw [List.range_add, List.map_append, List.map_map]
  congr 1
  apply List.map_congr_left
  intro i _
  simp [Nat.add_assoc]

/-! ### C12 (keys)

`VSpec.batch2` hands out keys in creation order, not document order. Statements that needed the
predicate `NoBatch2` / `NoBatch2List` (they speak of the document order of keys and are FALSE otherwise,
see the examples at the end of this section): `build_keys`, `buildList_keys` (first conjunct) and
`C12_keys` (= `C12_keys_statement`). Proved for ALL views, `batch2` included: the counter arithmetic
(`build_counter`, `buildList_counter`), the keys as a permutation of the interval (`build_keys_perm`,
`buildList_keys_perm`), uniqueness (`C12_keys_nodup_from`, `C12_keys_nodup`, statements unchanged), the set
of keys (`C12_keys_mem`) and their conjunction `C12_keys_all`. -/

/-- first segment `la` from `k`, then `lb` from the counter `k1 = k + a` that `la` left -/
theorem perm_range_seq (s k a b k1 : Nat) (la lb : List (Nat × Nat)) (hk : k1 = k + a)
    (ha : la.Perm ((List.range a).map (fun i => (s, k + i))))
    (hb : lb.Perm ((List.range b).map (fun i => (s, k1 + i)))) :
    (la ++ lb).Perm ((List.range (a + b)).map (fun i => (s, k + i))) := by
  subst hk
  rw [range_map_split s k a b]
  exact ha.append hb

/-- `lb` takes its keys first (from `k`), `la` from the counter `k1 = k + b` that `lb` left; `la` comes first
in the document -/
theorem perm_range_swap (s k a b k1 : Nat) (la lb : List (Nat × Nat)) (hk : k1 = k + b)
    (ha : la.Perm ((List.range a).map (fun i => (s, k1 + i))))
    (hb : lb.Perm ((List.range b).map (fun i => (s, k + i)))) :
    (la ++ lb).Perm ((List.range (a + b)).map (fun i => (s, k + i))) := by
  rw [Nat.add_comm a b]
  exact List.perm_append_comm.trans (perm_range_seq s k b a k1 lb la hk hb ha)

mutual
/-- all views: the keys are a permutation of `(s,k), …` and the counter advances by the number of elements -/
theorem build_keys_perm (s : Nat) : ∀ (v : VSpec) (k : Nat),
    (keysOfList (build s v k).1).Perm ((List.range (countEls v)).map (fun i => (s, k + i)))
    ∧ (build s v k).2 = k + countEls v
  | .el tag attrs battrs children, k => by
    have ih := buildList_keys_perm s children (k + 1)
    simp only [build, countEls, keysOfList, keysOf]
    refine ⟨?_, ?_⟩
    · rw [range_map_split s k 1 (countElsList children)]
      simpa using ih.1
    · rw [ih.2]; omega
  | .text t, k => by simp [build, countEls, keysOfList, keysOf]
  | .dynText t, k => by simp [build, countEls, keysOfList, keysOf]
  | .dynView v, k => by
    have ih := buildList_keys_perm s v k
    simp only [build, countEls, keysOfList, keysOf]
    exact ⟨by simpa using ih.1, ih.2⟩
  | .fragment v, k => by
    have ih := buildList_keys_perm s v k
    simp only [build, countEls]
    exact ih
  | .batch2 true a b, k => by
    have ihb := buildList_keys_perm s b k
    have iha := buildList_keys_perm s a (buildList s b k).2
    simp only [build, countEls, keysOfList, keysOf]
    refine ⟨?_, ?_⟩
    · simpa using perm_range_swap s k _ _ _ _ _ ihb.2 iha.1 ihb.1
    · rw [iha.2, ihb.2]; omega
  | .batch2 false a b, k => by
    have iha := buildList_keys_perm s a k
    have ihb := buildList_keys_perm s b (buildList s a k).2
    simp only [build, countEls, keysOfList, keysOf]
    refine ⟨?_, ?_⟩
    · simpa using perm_range_seq s k _ _ _ _ _ iha.2 iha.1 ihb.1
    · rw [ihb.2, iha.2]; omega
theorem buildList_keys_perm (s : Nat) : ∀ (v : VList) (k : Nat),
    (keysOfList (buildList s v k).1).Perm ((List.range (countElsList v)).map (fun i => (s, k + i)))
    ∧ (buildList s v k).2 = k + countElsList v
  | .nil, k => by simp [buildList, countElsList, keysOfList]
  | .cons v rest, k => by
    have ih1 := build_keys_perm s v k
    have ih2 := buildList_keys_perm s rest (build s v k).2
    simp only [buildList, countElsList]
    refine ⟨?_, ?_⟩
    · rw [keysOfList_appendSsr]
      exact perm_range_seq s k _ _ _ _ _ ih1.2 ih1.1 ih2.1
    · rw [ih2.2, ih1.2]; omega
end

/-- all views: the counter advances by the number of elements -/
theorem build_counter (s : Nat) (v : VSpec) (k : Nat) : (build s v k).2 = k + countEls v :=
  (build_keys_perm s v k).2
theorem buildList_counter (s : Nat) (v : VList) (k : Nat) : (buildList s v k).2 = k + countElsList v :=
  (buildList_keys_perm s v k).2

mutual
/-- `batch2`-free views: the keys in document order are `(s,k), (s,k+1), …` -/
theorem build_keys (s : Nat) : ∀ (v : VSpec) (k : Nat), NoBatch2 v = true →
    keysOfList (build s v k).1 = (List.range (countEls v)).map (fun i => (s, k + i))
    ∧ (build s v k).2 = k + countEls v
  | .el tag attrs battrs children, k, h => by
    have ih := buildList_keys s children (k + 1) (by simpa [NoBatch2] using h)
    simp only [build, countEls, keysOfList, keysOf]
    refine ⟨?_, ?_⟩
    · rw [range_map_split s k 1 (countElsList children), ih.1]
      simp
    · rw [ih.2]; omega
  | .text t, k, _ => by simp [build, countEls, keysOfList, keysOf]
  | .dynText t, k, _ => by simp [build, countEls, keysOfList, keysOf]
  | .dynView v, k, h => by
    have ih := buildList_keys s v k (by simpa [NoBatch2] using h)
    simp only [build, countEls, keysOfList, keysOf]
    exact ⟨by simpa using ih.1, ih.2⟩
  | .fragment v, k, h => by
    have ih := buildList_keys s v k (by simpa [NoBatch2] using h)
    simp only [build, countEls]
    exact ih
  | .batch2 _ _ _, _, h => by simp [NoBatch2] at h
theorem buildList_keys (s : Nat) : ∀ (v : VList) (k : Nat), NoBatch2List v = true →
    keysOfList (buildList s v k).1 = (List.range (countElsList v)).map (fun i => (s, k + i))
    ∧ (buildList s v k).2 = k + countElsList v
  | .nil, k, _ => by simp [buildList, countElsList, keysOfList]
  | .cons v rest, k, h => by
    have h' : NoBatch2 v = true ∧ NoBatch2List rest = true := by simpa [NoBatch2List] using h
    have ih1 := build_keys s v k h'.1
    have ih2 := buildList_keys s rest (build s v k).2 h'.2
    simp only [buildList, countElsList]
    refine ⟨?_, ?_⟩
    · rw [keysOfList_appendSsr, ih1.1, ih2.1, ih1.2, range_map_split]
    · rw [ih2.2, ih1.2]; omega
end

/-- C12 (keys), `batch2`-free views: dense, in document order, counter advanced by the number of elements. -/
theorem C12_keys : C12_keys_statement := fun s v k h => buildList_keys s v k h

/-- C12 (determinism) -/
theorem C12_deterministic : C12_deterministic_statement := fun _ _ _ h1 h2 => h1 ▸ h2 ▸ rfl

/-- the keys of a built view (any view, `batch2` included) are pairwise distinct, from any registry state -/
theorem C12_keys_nodup_from (s : Nat) (v : VList) (k : Nat) : (keysOfList (buildList s v k).1).Nodup := by
  rw [(buildList_keys_perm s v k).1.nodup_iff, List.nodup_iff_pairwise_ne, List.pairwise_map]
  refine List.Pairwise.imp ?_ (List.nodup_iff_pairwise_ne.1 List.nodup_range)
  intro a b h h'
  simp at h'
  exact h h'

/-- the keys of a view rendered by `render_to_string` (fresh registry) are pairwise distinct -/
theorem C12_keys_nodup (s : Nat) (v : VList) : (keysOfList (buildList s v 0).1).Nodup :=
  C12_keys_nodup_from s v 0

/-- the SET of keys of a built view (any view) is exactly `{(s,i) | k ≤ i < k'}`, `k'` the end counter -/
theorem C12_keys_mem (s : Nat) (v : VList) (k : Nat) (p : Nat × Nat) :
    p ∈ keysOfList (buildList s v k).1 ↔ p.1 = s ∧ k ≤ p.2 ∧ p.2 < (buildList s v k).2 := by
  rw [(buildList_keys_perm s v k).1.mem_iff, buildList_counter]
  obtain ⟨p1, p2⟩ := p
  simp only [List.mem_map, List.mem_range, Prod.mk.injEq]
  constructor
  · rintro ⟨i, hi, rfl, rfl⟩
    exact ⟨rfl, by omega, by omega⟩
  · rintro ⟨rfl, h1, h2⟩
    exact ⟨p2 - k, by omega, rfl, by omega⟩

/-- C12 (keys), all views: counter arithmetic, density (permutation of the interval; the set of keys),
uniqueness — everything except the document order. -/
theorem C12_keys_all : C12_keys_all_statement := fun s v k =>
  ⟨buildList_counter s v k, (buildList_keys_perm s v k).1, C12_keys_nodup_from s v k, C12_keys_mem s v k⟩

/-! #### `batch2`: creation order is not document order -/

/-- the keys of a rendered tree as plain numbers (scope 0) in document order -/
def docKeys (v : VList) : List Nat := (keysOfList (buildList 0 v 0).1).map (·.2)

private def pEl : VSpec := .el (lit "p") [] [] .nil

/-- `ab` (A's flag written first): B's element takes key 0, A's element key 1 — in document order the
keys read `1, 0`, so `C12_keys_statement` without `NoBatch2List` would be false -/
example : docKeys (.cons (.batch2 true (.cons pEl .nil) (.cons pEl .nil)) .nil) = [1, 0] := by decide

example : keysOfList (buildList 0 (.cons (.batch2 true (.cons pEl .nil) (.cons pEl .nil)) .nil) 0).1
    ≠ (List.range 2).map (fun i => (0, 0 + i)) := by decide

/-- both orders: `ab` gives `1, 0`, `ba` gives `0, 1` (document order is A then B in both) -/
example :
    docKeys (.cons (.batch2 true (.cons pEl .nil) (.cons pEl .nil)) .nil) = [1, 0]
    ∧ docKeys (.cons (.batch2 false (.cons pEl .nil) (.cons pEl .nil)) .nil) = [0, 1] := by decide

/-- the driver's sanity line: `(batch2 ab (X <p>) (Y <p>))` -/
example : renderToString (.cons (.batch2 true (.cons pEl .nil) (.cons pEl .nil)) .nil)
    = .ok (lit "<!--/--><p data-hk=\"0.1\"></p><!--/--><!--/--><p data-hk=\"0.0\"></p><!--/-->") := by
  rfl

/-! ### totality of `render_to_string` -/

mutual
/-- does the description produce at least one node? (`fragment`s may be empty) -/
def producesNode : VSpec → Bool
  | .fragment v => producesNodeList v
  | _ => true
def producesNodeList : VList → Bool
  | .nil => false
  | .cons v rest => producesNode v || producesNodeList rest
end

mutual
/-- the precise totality condition: no void element is given a child node -/
def voidOk : VSpec → Bool
  | .el tag _ _ children => (!isVoid tag || !producesNodeList children) && voidOkList children
  | .dynView v => voidOkList v
  | .fragment v => voidOkList v
  | .batch2 _ a b => voidOkList a && voidOkList b
  | _ => true
def voidOkList : VList → Bool
  | .nil => true
  | .cons v rest => voidOk v && voidOkList rest
end

def Renders (l : SsrList) : Prop := ∃ str, renderList l = .ok str

theorem renders_nil : Renders .nil := ⟨[], by simp [renderList]⟩

theorem renders_cons (n : SsrNode) (l : SsrList) :
    Renders (.cons n l) ↔ (∃ a, render n = .ok a) ∧ Renders l := by
  unfold Renders
  constructor
  · rintro ⟨str, h⟩
    rw [renderList] at h
    split at h
    · cases h
    · rename_i a ha
      split at h
      · cases h
      · rename_i b hb
        exact ⟨⟨a, ha⟩, ⟨b, hb⟩⟩
  · rintro ⟨⟨a, ha⟩, ⟨b, hb⟩⟩
    exact ⟨a ++ b, by rw [renderList, ha]; simp [hb]⟩

theorem renders_appendSsr (a b : SsrList) :
    Renders (appendSsr a b) ↔ Renders a ∧ Renders b := by
  fun_induction appendSsr a b with
  | case1 b => simp [renders_nil]
  | case2 n a b ih => rw [renders_cons, renders_cons, ih, and_assoc]

theorem isEmpty_appendSsr (a b : SsrList) :
    (appendSsr a b).isEmpty = (a.isEmpty && b.isEmpty) := by
  cases a <;> simp [appendSsr, SsrList.isEmpty]

theorem render_marker_ok : ∃ a, render .marker = .ok a := ⟨_, by rw [render]⟩

theorem render_dynamic (l : SsrList) : (∃ a, render (.dynamic l) = .ok a) ↔ Renders l := by
  simp [render, Renders]

/-- an element built by the builder API (no `inner_html`) renders iff it is not a void element
with children and its children render -/
theorem render_element_ok (tag : Str) (attrs : List (Str × Str)) (battrs : List (Str × Bool))
    (cs : SsrList) (hk : Option (Nat × Nat)) :
    (∃ a, render (.element tag attrs battrs cs none hk) = .ok a)
      ↔ ((isVoid tag = true → cs.isEmpty = true) ∧ Renders cs) := by
  unfold Renders
  by_cases hv : isVoid tag = true
  · cases cs with
    | nil => simp [render, hv, SsrList.isEmpty, renderList]
    | cons n rest => simp [render, hv, SsrList.isEmpty]
  · simp only [render, hv]
    constructor
    · rintro ⟨a, h⟩
      refine ⟨by simp, ?_⟩
      simp only [Bool.false_eq_true, ↓reduceIte] at h
      split at h
      · cases h
      · rename_i body hb; exact ⟨body, hb⟩
    · rintro ⟨_, body, hb⟩
      simp [hb]

mutual
theorem build_renders (s : Nat) : ∀ (v : VSpec) (k : Nat),
    (Renders (build s v k).1 ↔ voidOk v = true)
    ∧ ((build s v k).1.isEmpty = !producesNode v)
  | .el tag attrs battrs children, k => by
    have ih := buildList_renders s children (k + 1)
    simp only [build, voidOk, producesNode, SsrList.isEmpty]
    refine ⟨?_, by simp⟩
    rw [renders_cons, render_element_ok, ih.1, ih.2]
    cases isVoid tag <;> cases producesNodeList children <;> simp [renders_nil]
  | .text t, k => by
    simp [build, voidOk, producesNode, SsrList.isEmpty, renders_cons, renders_nil, render]
  | .dynText t, k => by
    simp [build, voidOk, producesNode, SsrList.isEmpty, renders_cons, renders_nil, render]
  | .dynView v, k => by
    have ih := buildList_renders s v k
    simp only [build, voidOk, producesNode, SsrList.isEmpty]
    refine ⟨?_, by simp⟩
    rw [renders_cons, renders_cons, renders_cons, render_dynamic, ih.1]
    simp [renders_nil, render_marker_ok]
  | .fragment v, k => by
    have ih := buildList_renders s v k
    simp only [build, voidOk, producesNode]
    exact ih
  | .batch2 true a b, k => by
    have ihb := buildList_renders s b k
    have iha := buildList_renders s a (buildList s b k).2
    simp only [build, voidOk, producesNode, SsrList.isEmpty]
    refine ⟨?_, by simp⟩
    rw [renders_cons, renders_cons, renders_cons, renders_cons, renders_cons, renders_cons,
      render_dynamic, render_dynamic, iha.1, ihb.1]
    simp [renders_nil, render_marker_ok]
  | .batch2 false a b, k => by
    have iha := buildList_renders s a k
    have ihb := buildList_renders s b (buildList s a k).2
    simp only [build, voidOk, producesNode, SsrList.isEmpty]
    refine ⟨?_, by simp⟩
    rw [renders_cons, renders_cons, renders_cons, renders_cons, renders_cons, renders_cons,
      render_dynamic, render_dynamic, iha.1, ihb.1]
    simp [renders_nil, render_marker_ok]
theorem buildList_renders (s : Nat) : ∀ (v : VList) (k : Nat),
    (Renders (buildList s v k).1 ↔ voidOkList v = true)
    ∧ ((buildList s v k).1.isEmpty = !producesNodeList v)
  | .nil, k => by simp [buildList, voidOkList, producesNodeList, SsrList.isEmpty, renders_nil]
  | .cons v rest, k => by
    have ih1 := build_renders s v k
    have ih2 := buildList_renders s rest (build s v k).2
    simp only [buildList, voidOkList, producesNodeList]
    refine ⟨?_, ?_⟩
    · rw [renders_appendSsr, ih1.1, ih2.1]; simp
    · rw [isEmpty_appendSsr, ih1.2, ih2.2]; simp
end

/-- `render_to_string` succeeds exactly when no void element is given a child node
(`voidOkList`); in particular it never fails for views whose void elements have no children.
The other assert of `render_recursive` (`inner_html` together with children) is unreachable through
the builder model, which never sets `inner_html`. -/
theorem C12_render_total (v : VList) :
    (∃ str, renderToString v = .ok str) ↔ voidOkList v = true :=
  (buildList_renders 0 v 0).1

/-- the direction asked for, as an implication -/
theorem C12_render_never_fails (v : VList) (h : voidOkList v = true) :
    ∀ e, renderToString v ≠ .error e := by
  obtain ⟨str, hs⟩ := (C12_render_total v).2 h
  intro e he; rw [hs] at he; cases he

end SycVerif.Ssr
