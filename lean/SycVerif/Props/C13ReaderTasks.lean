import SycVerif.Lemmas.ReaderTasks
import SycVerif.Props.C15
import SycVerif.Props.C15Self
/-!
C13 / C15 for three extensions of the resource machines that used to live in the driver only (`Driver/AsyncDrv.lean`; now
thin folds over the step functions below, all defined in `Model/Async.lean`):

* `rtStep` (`resourcerdt`): reader boundaries with a suspense task of their own — a boundary is loading iff its own task is
  pending OR the resource holds a guard for it;
* `rwStep c` (`resourcerdw c`): a delivery that releases at least one reader guard is followed by the write of `c`;
* `selfStep c` (`resourceself c`, D28): the completion of the latest fetch, while the dependency differs from `c`, is the
  write of `c` (the fetch is superseded while it is finishing and delivers nothing).

Everything is for EVERY initial dependency value and EVERY event sequence.
-/
namespace SycVerif.Async

/-! ## (T) reader boundaries with a task of their own -/

/-! ### a. the task list is aligned with the reader list -/

theorem C13_readertask_inv (d : Nat) (evs : List RTEv) : RTInv (runRT (ResRT.init d) evs) :=
  rtInv_run (rtInv_init d) evs

/-- every reader has a task entry; every pending task number was handed out; no two readers carry the same task -/
theorem C13_readertask_aligned (d : Nat) (evs : List RTEv) :
    let s := runRT (ResRT.init d) evs
    s.tasks.length = s.base.readers.length ∧
    (∀ i, some i ∈ s.tasks → i < s.nv) ∧
    (∀ j j' i : Nat, s.tasks[j]? = some (some i) → s.tasks[j']? = some (some i) → j = j') := by
  intro s
  have h := C13_readertask_inv d evs
  exact ⟨h.len, h.lt, fun j j' i hj hj' => tasksDistinct_index h.distinct hj hj'⟩

theorem C13_readertask_loading_length (d : Nat) (evs : List RTEv) :
    let s := runRT (ResRT.init d) evs
    s.loading.length = s.base.readers.length := by
  intro s
  have h := (C13_readertask_inv d evs).len
  simp only [ResRT.loading, List.length_zipWith]
  exact Nat.min_eq_left (Nat.le_of_eq h.symm)

/-! ### b. loading = own task pending ∨ guard held -/

theorem loading_getElem? (s : ResRT) (j : Nat) (r : Reader) (t : Option Nat)
    (hr : s.base.readers[j]? = some r) (ht : s.tasks[j]? = some t) :
    s.loading[j]? = some (r.guard || t.isSome) := by
  simp [ResRT.loading, List.getElem?_zipWith, hr, ht]

/-- in every reachable state every reader boundary `j` has a task entry, and it is loading iff its own task is pending or
the resource holds a guard for it -/
theorem C13_readertask_loading (d : Nat) (evs : List RTEv) (j : Nat) (r : Reader) :
    let s := runRT (ResRT.init d) evs
    s.base.readers[j]? = some r →
    ∃ t, s.tasks[j]? = some t ∧ s.loading[j]? = some (r.guard || t.isSome) ∧
      (s.loading[j]? = some true ↔ (t.isSome = true ∨ r.guard = true)) := by
  intro s hr
  have hlen := (C13_readertask_inv d evs).len
  have hj : j < s.tasks.length := by
    have := (List.getElem?_eq_some_iff.mp hr).1
    show j < (runRT (ResRT.init d) evs).tasks.length
    rw [hlen]; exact this
  refine ⟨s.tasks[j], List.getElem?_eq_getElem hj, ?_, ?_⟩
  · exact loading_getElem? s j r _ hr (List.getElem?_eq_getElem hj)
  · rw [loading_getElem? s j r _ hr (List.getElem?_eq_getElem hj)]
    cases r.guard <;> cases (s.tasks[j]).isSome <;> simp

/-- (ii) the completion of an own task never touches the resource machine -/
theorem C13_taskDone_base (s : ResRT) (i : Nat) : (rtStep s (.taskDone i)).base = s.base := rfl

/-- (i) the completion of own task `i` changes the loading state of no boundary other than the one that carried it … -/
theorem C13_taskDone_others (s : ResRT) (i j : Nat) (h : s.tasks[j]? ≠ some (some i)) :
    (rtStep s (.taskDone i)).loading[j]? = s.loading[j]? := by
  simp only [ResRT.loading, rtStep, List.getElem?_zipWith, List.getElem?_map]
  cases hr : s.base.readers[j]? with
  | none => rfl
  | some r =>
    cases ht : s.tasks[j]? with
    | none => rfl
    | some t =>
      have hne : t ≠ some i := by intro h'; exact h (by rw [ht, h'])
      simp [hne]

/-- … and that one (reader `j`) is loading afterwards iff the resource holds a guard for it -/
theorem C13_taskDone_carrier (s : ResRT) (i j : Nat) (r : Reader)
    (hr : s.base.readers[j]? = some r) (ht : s.tasks[j]? = some (some i)) :
    (rtStep s (.taskDone i)).loading[j]? = some r.guard ∧
    ((rtStep s (.taskDone i)).loading[j]? = some false ↔ r.guard = false) := by
  have h : (rtStep s (.taskDone i)).loading[j]? = some r.guard := by
    simp [ResRT.loading, rtStep, List.getElem?_zipWith, List.getElem?_map, hr, ht]
  exact ⟨h, by rw [h]; simp⟩

/-- in a reachable state at most one reader carries task `i`: `taskDone i` changes the loading state of at most one boundary -/
theorem C13_taskDone_at_most_one (d : Nat) (evs : List RTEv) (i j j' : Nat) :
    let s := runRT (ResRT.init d) evs
    (rtStep s (.taskDone i)).loading[j]? ≠ s.loading[j]? →
    (rtStep s (.taskDone i)).loading[j']? ≠ s.loading[j']? → j = j' := by
  intro s hj hj'
  have h1 : s.tasks[j]? = some (some i) := Classical.byContradiction fun h => hj (C13_taskDone_others s i j h)
  have h2 : s.tasks[j']? = some (some i) := Classical.byContradiction fun h => hj' (C13_taskDone_others s i j' h)
  exact tasksDistinct_index (C13_readertask_inv d evs).distinct h1 h2

/-- (iv) refinement: the resource-machine part of a run with tasks is the `rrStep` run of the projected events — own tasks
do not influence the resource machine -/
theorem C13_readertask_refines (s : ResRT) (evs : List RTEv) :
    (runRT s evs).base = runRR s.base (evs.flatMap RTEv.proj) := runRT_base s evs

theorem C13_readertask_refines_init (d : Nat) (evs : List RTEv) :
    (runRT (ResRT.init d) evs).base = runRR (ResR.init d) (evs.flatMap RTEv.proj) := runRT_base _ evs

/-- … so the theorems of `Props/C13Readers.lean` transfer: the reachability invariant, -/
theorem C13_readertask_readersOk (d : Nat) (evs : List RTEv) : ReadersOk (runRT (ResRT.init d) evs).base := by
  rw [C13_readertask_refines_init]; exact C13_readers_reachable d _

/-- the release of every guard once the latest fetch has delivered or the owner is gone: from then on a boundary is loading
iff its own task is pending -/
theorem C13_readertask_released (d : Nat) (evs : List RTEv) (j : Nat) (t : Option Nat) :
    let s := runRT (ResRT.init d) evs
    (s.base.res.loading = false ∨ s.base.alive = false) → s.tasks[j]? = some t → s.loading[j]? = some t.isSome := by
  intro s h ht
  have hlen := (C13_readertask_inv d evs).len
  have hj : j < s.base.readers.length := by
    have := (List.getElem?_eq_some_iff.mp ht).1
    show j < (runRT (ResRT.init d) evs).base.readers.length
    rw [← hlen]; exact this
  have hg : (s.base.readers[j]).guard = false := by
    have hrel : (s.base.res.loading = false ∨ s.base.alive = false) → ∀ r ∈ s.base.readers, r.guard = false := by
      show ((runRT (ResRT.init d) evs).base.res.loading = false ∨ (runRT (ResRT.init d) evs).base.alive = false) →
        ∀ r ∈ (runRT (ResRT.init d) evs).base.readers, r.guard = false
      rw [C13_readertask_refines_init]; exact C13_readers_released d _
    exact hrel h _ (List.getElem_mem hj)
  rw [loading_getElem? s j _ t (List.getElem?_eq_getElem hj) ht, hg]; rfl

/-- (iii) a refetch while a recorded reader's own task is pending gives that reader a guard: after its task completes it
is STILL loading (and stays so over the completion of any superseded fetch), until the latest fetch delivers -/
theorem C13_readertask_refetch (d : Nat) (evs : List RTEv) (j i v : Nat) (r : Reader) :
    let s := runRT (ResRT.init d) evs
    s.base.readers[j]? = some r → r.recorded = true → s.tasks[j]? = some (some i) →
    let s1 := runRT s [.ev (.write v), .taskDone i]
    s1.loading[j]? = some true ∧
    (∀ k, k ≠ s1.base.res.started → (rtStep s1 (.ev (.finish k))).loading[j]? = some true) ∧
    (rtStep s1 (.ev (.finish s1.base.res.started))).loading[j]? = some false := by
  intro s hr hrec ht s1
  have halive : s.base.alive = true := by
    have h : RecordedOk s.base := by
      show RecordedOk (runRT (ResRT.init d) evs).base
      rw [C13_readertask_refines_init]; exact recordedOk_run d _
    exact h r (List.mem_of_getElem? hr) hrec
  -- the state after the write and the completion of the task
  have hbase : s1.base = rrStep s.base (.ev (.write v)) := rfl
  have htasks : s1.tasks = s.tasks.map fun t => if t == some i then none else t := rfl
  have hr1 : s1.base.readers[j]? = some ⟨true, false⟩ := by
    rw [hbase]; exact C13_recorded_reader_suspended_by_next_fetch s.base v j r halive hr hrec
  have ht1 : s1.tasks[j]? = some none := by rw [htasks]; simp [ht]
  have halive1 : s1.base.alive = true := by rw [hbase]; simp [rrStep, halive]
  have hcl1 : s1.base.res.completedLatest = false := by rw [hbase]; simp [rrStep, rstep, halive]
  refine ⟨?_, ?_, ?_⟩
  · rw [loading_getElem? s1 j _ _ hr1 ht1]; rfl
  · intro k hk
    have h2 : (rtStep s1 (.ev (.finish k))).base.readers[j]? = some ⟨true, false⟩ :=
      C13_reader_guard_survives_stale_finish s1.base k j _ hr1 rfl hk
    rw [loading_getElem? _ j _ _ h2 (show (rtStep s1 (.ev (.finish k))).tasks[j]? = some none from ht1)]; rfl
  · have h2 : (rtStep s1 (.ev (.finish s1.base.res.started))).base.readers[j]? = some ⟨false, false⟩ := by
      show (rrStep s1.base (.ev (.finish s1.base.res.started))).readers[j]? = _
      simp [rrStep, halive1, hcl1, hr1]
    rw [loading_getElem? _ j _ _ h2
      (show (rtStep s1 (.ev (.finish s1.base.res.started))).tasks[j]? = some none from ht1)]; rfl

/-! ## (W) boundary observers that write the dependency when their boundary resolves -/

def runRW (c : Nat) (s : ResR) (evs : List RREv) : ResR := evs.foldl (rwStep c) s

/-- the write follows: a delivery (the latest fetch completes, owner alive) that releases at least one guard, while the
dependency differs from `c` -/
def rwFires (c : Nat) (s : ResR) (e : RREv) : Bool :=
  (match e with
    | .ev (.finish k) => s.alive && k = s.res.started && !s.res.completedLatest
    | _ => false) && s.readers.any (·.guard) && (rrStep s e).res.dep != c

/-- `rwStep c` is `rrStep`, followed by the write of `c` when `rwFires` -/
theorem rwStep_eq (c : Nat) (s : ResR) (e : RREv) :
    rwStep c s e = if rwFires c s e then rrStep (rrStep s e) (.ev (.write c)) else rrStep s e := rfl

theorem rwStep_cases (c : Nat) (s : ResR) (e : RREv) :
    rwStep c s e = rrStep s e ∨ rwStep c s e = rrStep (rrStep s e) (.ev (.write c)) := by
  rw [rwStep_eq]; split
  · exact .inr rfl
  · exact .inl rfl

/-- only the completion of a fetch can be followed by the write -/
theorem rwStep_not_finish (c : Nat) (s : ResR) (e : RREv) (h : ∀ k, e ≠ .ev (.finish k)) : rwStep c s e = rrStep s e := by
  rw [rwStep_eq]
  have : rwFires c s e = false := by
    unfold rwFires
    cases e with
    | ev x => cases x with
      | finish k => exact absurd rfl (h k)
      | write v => rfl
    | _ => rfl
  simp [this]

/-- every `rwStep` run is a `rrStep` run (of the events with the writes put in) -/
theorem runRW_is_runRR (c : Nat) (s : ResR) (evs : List RREv) : ∃ evs', runRW c s evs = runRR s evs' := by
  induction evs generalizing s with
  | nil => exact ⟨[], rfl⟩
  | cons e es ih =>
    obtain ⟨evs', h⟩ := ih (rwStep c s e)
    rcases rwStep_cases c s e with hc | hc
    · exact ⟨e :: evs', by show runRW c (rwStep c s e) es = _; rw [h, hc]; rfl⟩
    · exact ⟨e :: .ev (.write c) :: evs', by show runRW c (rwStep c s e) es = _; rw [h, hc]; rfl⟩

/-- the reachability invariant of `C13Readers` is preserved by `rwStep` -/
theorem C13_rw_readersOk_step {s : ResR} (h : ReadersOk s) (c : Nat) (e : RREv) : ReadersOk (rwStep c s e) := by
  rcases rwStep_cases c s e with hc | hc <;> rw [hc]
  · exact readersOk_step h e
  · exact readersOk_step (readersOk_step h e) _

theorem C13_rw_reachable (c d : Nat) (evs : List RREv) : ReadersOk (runRW c (ResR.init d) evs) := by
  obtain ⟨evs', h⟩ := runRW_is_runRR c (ResR.init d) evs
  rw [h]; exact C13_readers_reachable d evs'

theorem C13_rw_released (c d : Nat) (evs : List RREv) :
    let s := runRW c (ResR.init d) evs
    (s.res.loading = false ∨ s.alive = false) → ∀ r ∈ s.readers, r.guard = false := by
  obtain ⟨evs', h⟩ := runRW_is_runRR c (ResR.init d) evs
  rw [h]; exact C13_readers_released d evs'

/-- when the write follows, the resource is loading again, for a fetch of `c` -/
theorem C13_rw_fires (c : Nat) (s : ResR) (e : RREv) (h : rwFires c s e = true) :
    (rwStep c s e).res.loading = true ∧ (rwStep c s e).res.dep = c ∧ (rwStep c s e).res.latestDep = c ∧
    (rwStep c s e).res.value = (rrStep s e).res.value := by
  have ha : (rrStep s e).alive = true := by
    unfold rwFires at h
    cases e with
    | ev x => cases x with
      | finish k =>
        simp only [Bool.and_eq_true] at h
        have : s.alive = true := h.1.1.1.1
        simp [rrStep, this]
      | write v => simp at h
    | _ => simp at h
  rw [rwStep_eq, h]
  simp only [if_true]
  generalize rrStep s e = s' at ha
  simp [rrStep, rstep, ha]

/-- after any `rwStep` on a reachable state: the latest fetch is outstanding, or the dependency is `c`, or the resource held
no guard before the step (so the step released none) -/
theorem C13_rw_after {s : ResR} (hs : ReadersOk s) (c : Nat) (e : RREv) :
    (rwStep c s e).res.loading = true ∨ (rwStep c s e).res.dep = c ∨ ∀ r ∈ s.readers, r.guard = false := by
  -- a state that is not loading holds no guard
  have noguard : s.res.loading = false → ∀ r ∈ s.readers, r.guard = false := by
    intro hl r hr
    cases hg : r.guard with
    | false => rfl
    | true => have := ((hs.2 r hr).1 hg).1; rw [hl] at this; cases this
  have same : (rrStep s e).res = s.res → rwStep c s e = rrStep s e →
      (rwStep c s e).res.loading = true ∨ (rwStep c s e).res.dep = c ∨ ∀ r ∈ s.readers, r.guard = false := by
    intro h1 h2
    rw [h2, h1]
    cases hl : s.res.loading with
    | true => exact .inl rfl
    | false => exact .inr (.inr (noguard hl))
  cases hf : rwFires c s e with
  | true => exact .inl (C13_rw_fires c s e hf).1
  | false =>
    have hstep : rwStep c s e = rrStep s e := by rw [rwStep_eq, hf]; rfl
    cases e with
    | read => exact same (by simp only [rrStep]; split <;> (try split) <;> rfl) hstep
    | dropOldest => exact same rfl hstep
    | disposeOwner => exact same rfl hstep
    | ev x =>
      cases ha : s.alive with
      | false => exact same (by rw [rrStep_ev_dead s x ha]) hstep
      | true =>
        cases x with
        | write v => left; rw [hstep]; simp [rrStep, rstep, ha]
        | finish k =>
          cases hd : (decide (k = s.res.started) && !s.res.completedLatest) with
          | false =>
            refine same ?_ hstep
            simp only [rrStep, rstep, ha, hd]; rfl
          | true =>
            -- delivered, and the write did not follow: nothing was released, or the dependency is `c` already
            have hres : (rrStep s (.ev (.finish k))).res.dep = s.res.dep := by
              simp only [rrStep, rstep, ha, hd]; rfl
            unfold rwFires at hf
            simp only [ha, Bool.true_and, hd, hres] at hf
            cases hany : s.readers.any (·.guard) with
            | false =>
              right; right
              intro r hr
              cases hg : r.guard with
              | false => rfl
              | true =>
                have : s.readers.any (·.guard) = true := List.any_eq_true.mpr ⟨r, hr, hg⟩
                rw [hany] at this; cases this
            | true =>
              right; left
              rw [hstep, hres]
              simp only [hany, Bool.true_and] at hf
              simpa using hf

/-! ## (S) a fetch that moves the dependency on as its last step (D28) -/

def runSelf (c : Nat) (r : Res) (es : List REv) : Res := es.foldl (selfStep c) r

/-- the completion is replaced by the write of `c`: it is the completion of the latest fetch, which has not delivered,
and the dependency differs from `c` -/
def selfFires (c : Nat) (r : Res) : REv → Bool
  | .finish k => k = r.started && !r.completedLatest && r.dep != c
  | .write _ => false

/-- the completion of the latest fetch while the dependency differs from `c` is the write of `c`: the value stays what it
was, the resource is loading, for a fetch of `c` -/
theorem C15_self_supersedes (c : Nat) (r : Res) (k : Nat) (hk : k = r.started) (hc : r.completedLatest = false)
    (hd : r.dep ≠ c) :
    selfStep c r (.finish k) = rstep r (.write c) ∧
    (selfStep c r (.finish k)).value = r.value ∧
    (selfStep c r (.finish k)).loading = true ∧
    (selfStep c r (.finish k)).latestDep = c := by
  have h : selfStep c r (.finish k) = rstep r (.write c) := by simp [selfStep, hk, hc, hd]
  rw [h]; exact ⟨rfl, rfl, rfl, rfl⟩

/-- which is what the resource machine does when the write comes first and the completion (of the then superseded fetch)
after it (`C15_superseded_while_finishing`) -/
theorem C15_self_supersedes_eq (c : Nat) (r : Res) (k : Nat) (hk : k = r.started) (hc : r.completedLatest = false)
    (hd : r.dep ≠ c) :
    selfStep c r (.finish k) = rstep (rstep r (.write c)) (.finish k) := by
  rw [(C15_self_supersedes c r k hk hc hd).1, C15_superseded_while_finishing r c k (Nat.le_of_eq hk)]

/-- in every other case `selfStep` is `rstep` -/
theorem C15_self_otherwise (c : Nat) (r : Res) (e : REv) (h : selfFires c r e = false) : selfStep c r e = rstep r e := by
  cases e with
  | write v => rfl
  | finish k =>
    simp only [selfFires] at h
    simp only [selfStep, h]; rfl

/-- the event of the resource machine a `selfStep` stands for -/
def selfEv (c : Nat) (r : Res) (e : REv) : REv := if selfFires c r e then .write c else e

/-- each `selfStep` is a `rstep` of some event -/
theorem selfStep_eq_rstep (c : Nat) (r : Res) (e : REv) : selfStep c r e = rstep r (selfEv c r e) := by
  unfold selfEv
  cases h : selfFires c r e with
  | false => simp only [Bool.false_eq_true, if_false]; exact C15_self_otherwise c r e h
  | true =>
    cases e with
    | write v => simp [selfFires] at h
    | finish k =>
      simp only [selfFires] at h
      simp only [selfStep, h, if_true]

/-- the history of the resource machine a `selfStep` run stands for -/
def selfEvs (c : Nat) : Res → List REv → List REv
  | _, [] => []
  | r, e :: es => selfEv c r e :: selfEvs c (selfStep c r e) es

theorem runSelf_eq_rrun (c : Nat) (r : Res) (es : List REv) : runSelf c r es = rrun r (selfEvs c r es) := by
  induction es generalizing r with
  | nil => rfl
  | cons e es ih =>
    show runSelf c (selfStep c r e) es = rrun (rstep r (selfEv c r e)) (selfEvs c (selfStep c r e) es)
    rw [ih, selfStep_eq_rstep]

/-- while the dependency differs from `c` no completion delivers anything -/
theorem C15_self_no_delivery (c : Nat) (r : Res) (k : Nat) (hd : r.dep ≠ c) :
    (selfStep c r (.finish k)).value = r.value := by
  cases h : (decide (k = r.started) && !r.completedLatest) with
  | true =>
    have : selfStep c r (.finish k) = rstep r (.write c) := by
      simp only [selfStep, h, Bool.true_and]; simp [hd]
    rw [this]; rfl
  | false =>
    have : selfStep c r (.finish k) = r := by
      simp only [selfStep, rstep, h, Bool.false_and]; rfl
    rw [this]

/-- the invariants of `C15_invariants` hold of every `selfStep` run (history: the one the run stands for) -/
theorem C15_self_invariants (c d : Nat) (es : List REv) :
    let r := runSelf c (Res.init d) es
    let hist := selfEvs c (Res.init d) es
    1 ≤ r.started ∧ r.started = 1 + nWrites hist ∧ r.latestDep = r.dep ∧ r.dep = depOf d hist r.started ∧
    r.loading = !r.completedLatest ∧
    (∀ k d', r.value = some (k, d') → 1 ≤ k ∧ k ≤ r.started ∧ d' = depOf d hist k) := by
  intro r hist
  have h := C15_invariants d hist
  simp only [hist, ← runSelf_eq_rrun] at h
  exact h

/-- the value is that of the most recent fetch that completed while it was the latest one -/
theorem C15_self_value_is_latest_completed (c d : Nat) (es : List REv) :
    let hist := selfEvs c (Res.init d) es
    (runSelf c (Res.init d) es).value = (lastDelivered hist.reverse).map fun k => (k, depOf d hist k) := by
  intro hist
  rw [runSelf_eq_rrun]; exact C15_value_is_latest_completed d hist

/-- loading iff the latest fetch has not completed -/
theorem C15_self_loading_iff_latest_outstanding (c d : Nat) (es : List REv) :
    let hist := selfEvs c (Res.init d) es
    (runSelf c (Res.init d) es).loading = true ↔ lastDelivered hist.reverse ≠ some (1 + nWrites hist) := by
  intro hist
  rw [runSelf_eq_rrun]; exact C15_loading_iff_latest_outstanding d hist

/-- loading iff the held value (if any) is not from the latest fetch -/
theorem C15_self_loading_iff_value_stale (c d : Nat) (es : List REv) :
    (runSelf c (Res.init d) es).loading = true ↔
      (runSelf c (Res.init d) es).value.map (·.1) ≠ some (runSelf c (Res.init d) es).started := by
  rw [runSelf_eq_rrun]; exact C15_loading_iff_value_stale d _

/-! ## non-vacuity -/

deriving instance DecidableEq for REv

/-- (iii), the scenario the seeded regression broke: fetch 1 delivers, a boundary with a task of its own reads (recorded),
the dependency changes (the boundary gets its guard), its own task completes: still loading; fetch 2 delivers: not loading -/
example :
    let s := runRT (ResRT.init 7) [.ev (.finish 1), .readTask, .ev (.write 11), .taskDone 0]
    s.loading = [true] ∧ s.base.readers = [⟨true, false⟩] ∧ s.tasks = [none] ∧
    (rtStep s (.ev (.finish 2))).loading = [false] := by decide

/-- the hypotheses of `C13_readertask_refetch` are satisfiable -/
example :
    let s := runRT (ResRT.init 7) [.ev (.finish 1), .readTask]
    s.base.readers[0]? = some ⟨false, true⟩ ∧ s.tasks[0]? = some (some 0) ∧ s.loading = [true] := by decide

/-- tasks and guards side by side: two readers with tasks, one without; task 1 completes; the owner goes -/
example :
    let s := runRT (ResRT.init 7) [.readTask, .read, .readTask, .taskDone 1, .ev (.finish 1)]
    s.loading = [true, false, false] ∧ s.tasks = [some 0, none, none] ∧ s.nv = 2 ∧
    (rtStep s .dropOldest).loading = [false, false] ∧
    (rtStep (rtStep s .disposeOwner) .readTask).tasks = [some 0, none, none] := by decide

/-- (W): a reader under the loading resource; the delivery releases it and is followed by the write of 1 -/
example :
    let s := runRW 1 (ResR.init 7) [.read, .ev (.finish 1)]
    s.res.value = some (1, 7) ∧ s.res.loading = true ∧ s.res.dep = 1 ∧ s.readers = [⟨false, false⟩] ∧
    rwFires 1 (rrStep (ResR.init 7) .read) (.ev (.finish 1)) = true := by decide

/-- (W): no reader, no write -/
example :
    let s := runRW 1 (ResR.init 7) [.ev (.finish 1)]
    s.res.loading = false ∧ s.res.dep = 7 := by decide

/-- (S): the first completion is the write of 1 (nothing delivered); the second fetch delivers -/
example :
    (runSelf 1 (Res.init 7) [.finish 1]).value = none ∧ (runSelf 1 (Res.init 7) [.finish 1]).loading = true ∧
    (runSelf 1 (Res.init 7) [.finish 1, .finish 2]).value = some (2, 1) ∧
    (runSelf 1 (Res.init 7) [.finish 1, .finish 2]).loading = false ∧
    selfEvs 1 (Res.init 7) [.finish 1, .finish 2] = [.write 1, .finish 2] := by decide

end SycVerif.Async
