/-
Reactive core — first layer of theorems over `Model/Reactive.lean`: statements that hold by the
shape of the (repaired) functions for EVERY arena and EVERY closure body. Used by C03, C10, C11.
-/
import SycVerif.Model.Reactive
namespace SycVerif.Reactive

/-! ### C10: while batching, a write only queues -/

/-- A write while a batch is open changes nothing but the queue: no body runs, no value of a
derived node changes, no mark or dirty flag moves — for every arena and every signal. -/
theorem C10_write_in_batch_only_queues (fuel : Nat) (r : Root) (s : Id) (h : r.batching = true) :
    propagateUpdates (fuel + 1) r s = .ok { r with queue := r.queue ++ [s] } := by
  simp [propagateUpdates, h]

/-- `set` inside a batch: the signal's stored value changes, the id is queued, nothing else. -/
theorem C10_set_in_batch (fuel : Nat) (r : Root) (c : Ctx) (h : Nat) (e : Ex) (hd : Handle)
    (hl : lookup c h = .ok hd) (hk : hd.kind = .signal) (hb : r.batching = true)
    (r1 : Root) (hs : setSilent r hd.id (evalEx e c.acc) = .ok r1) :
    execStmt (fuel + 2) r c (.set h e) = .ok ({ r1 with queue := r1.queue ++ [hd.id] }, c) := by
  have hb1 : r1.batching = true := by
    unfold setSilent at hs
    split at hs <;> try simp at hs
    split at hs <;> try simp at hs
    subst hs; simp [Root.setNode]; split <;> simp [hb]
  simp [execStmt, hl, hk, hs, propagateUpdates, hb1]

/-- A nested batch never ends the enclosing batch (D3): if a batch was already open, the statement
returns without propagating and the flag is whatever the body left. -/
theorem C10_nested_batch_does_not_propagate (fuel : Nat) (r : Root) (c : Ctx) (b : Body)
    (hb : r.batching = true) (r' : Root) (c' : Ctx)
    (h : execInner fuel { r with batching := true } c b = .ok (r', c')) :
    execStmt (fuel + 1) r c (.batch b) = .ok (r', c') := by
  simp [execStmt, h, hb]

/-! ### C03: what does not subscribe -/

/-- `get_untracked` / `with_untracked` leave the whole reactive state untouched (in particular
the tracker): an untracked read never subscribes. -/
theorem C03_readU_no_subscription (fuel : Nat) (r r' : Root) (c c' : Ctx) (h : Nat)
    (hx : execStmt (fuel + 1) r c (.readU h) = .ok (r', c')) : r' = r := by
  simp only [execStmt] at hx
  split at hx <;> try simp at hx
  split at hx <;> try simp at hx
  split at hx <;> try simp at hx
  exact hx.1.symm

/-- Whatever runs inside `untrack(..)` — at any depth, creating whatever it likes — the tracker of
the enclosing computation is exactly what it was: reads under `untrack` never subscribe. -/
theorem C03_untrack_restores_tracker (fuel : Nat) (r r' : Root) (c c' : Ctx) (b : Body)
    (hx : execStmt (fuel + 1) r c (.untrack b) = .ok (r', c')) : r'.tracker = r.tracker := by
  simp only [execStmt] at hx
  split at hx <;> try simp at hx
  rw [← hx.1]

/-- the same for component bodies instantiated through `view!` (`component_scope`) -/
theorem C03_component_restores_tracker (fuel : Nat) (r r' : Root) (c c' : Ctx) (b : Body)
    (hx : execStmt (fuel + 1) r c (.component b) = .ok (r', c')) : r'.tracker = r.tracker := by
  simp only [execStmt] at hx
  split at hx <;> try simp at hx
  rw [← hx.1]

/-- the body of `untrack` starts with tracking switched off -/
theorem C03_untrack_body_untracked (fuel : Nat) (r r' : Root) (c c' : Ctx) (b : Body)
    (hx : execStmt (fuel + 1) r c (.untrack b) = .ok (r', c')) :
    ∃ r1, execInner fuel { r with tracker := none } c b = .ok (r1, c')
      ∧ r' = { r1 with tracker := r.tracker } := by
  simp only [execStmt] at hx
  split at hx <;> try simp at hx
  rename_i r1 c1 he
  exact ⟨r1, by rw [he, hx.2], hx.1.symm⟩

/-- `track` with no tracker installed (inside `untrack`, `on` callbacks, cleanups, top level) does
nothing -/
theorem C03_track_without_tracker (r : Root) (id : Id) (h : r.tracker = none) : track r id = r := by
  simp [track, h]

@[simp] theorem setNode_tracker (r : Root) (id : Id) (n : Node) : (r.setNode id n).tracker = r.tracker := by
  unfold Root.setNode; split <;> rfl

/-- cleanup callbacks run with tracking switched off and the previous tracker is restored
afterwards (`dispose_children`) -/
theorem C03_cleanups_untracked (fuel : Nat) (r r' : Root) (id : Id) (n : Node) (hn : r.get? id = some n)
    (hx : disposeChildren (fuel + 1) r id = .ok r') :
    ∃ r2 r3, runCleanups fuel { (r.setNode id { n with cleanups := [], children := [] }) with tracker := none }
                n.cleanups = .ok r2
      ∧ disposeList fuel { r2 with tracker := r.tracker } n.children = .ok r3
      ∧ r' = r3.modify id (fun n => { n with context := [] }) := by
  simp only [disposeChildren, hn] at hx
  split at hx <;> try simp at hx
  rename_i r2 h2
  split at hx <;> try simp at hx
  rename_i r3 h3
  refine ⟨r2, r3, h2, ?_, hx.symm⟩
  simpa using h3

/-! ### C11: the repaired index sites are total on every arena -/

/-- `mark_dependents_dirty` of a dead node is a no-op (D4c) -/
theorem C11_markDependentsDirty_dead (r : Root) (cur : Id) (h : r.get? cur = none) :
    markDependentsDirty r cur = r := by
  simp [markDependentsDirty, h]

/-- `create_dependency_link` for a dependent that died while running is a no-op (D4a/b) -/
theorem C11_createDependencyLink_dead (r : Root) (deps : List Id) (d : Id) (h : r.get? d = none) :
    createDependencyLink r deps d = r := by
  simp [createDependencyLink, Root.alive, h]

/-- disposing an already disposed node does nothing and cannot fail -/
theorem C11_dispose_dead (fuel : Nat) (r : Root) (id : Id) (h : r.get? id = none) :
    disposeNode (fuel + 2) r id = .ok r := by
  simp [disposeNode, disposeChildren, disposeRest, unsubscribe, h, removeNode]

/-- the propagation loop skips nodes that died since they were scheduled -/
theorem C11_loop_skips_dead (fuel : Nat) (r : Root) (node : Id) (rest : List Id)
    (h : r.get? node = none) :
    propagateLoop (fuel + 1) r (node :: rest) = propagateLoop fuel r rest := by
  simp [propagateLoop, h]

/-- `dfs` does not even visit a dead node -/
theorem C11_dfs_dead (fuel : Nat) (r : Root) (buf : List Id) (cur : Id) (h : r.get? cur = none) :
    dfs (fuel + 1) r buf cur = some (r, buf) := by
  simp [dfs, h]

end SycVerif.Reactive
